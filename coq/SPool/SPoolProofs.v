(** Proofs for the static pool model. *)
From CC Require Import Base.Prelude Base.ListMem Generated.Status Generated.Constants Generated.Guards SPool.SPoolModel.
Local Open Scope N_scope.

(** [layout bs top]: the blocks tile [0, top) contiguously, newest first. *)
Fixpoint layout (bs : list (N * N)) (top : N) : Prop :=
  match bs with
  | [] => top = 0
  | (o, l) :: rest => o + l = top /\ layout rest o
  end.

Record sp_inv (p : spool) : Prop := {
  iv_size : sp_size p < W;
  iv_free : sp_free p <= sp_size p;
  iv_high : sp_high p <= sp_free p;
  iv_layout : layout (sp_blocks p) (sp_free p);
  iv_top : (exists l rest, sp_blocks p = (sp_high p, l) :: rest) \/ sp_high p = sp_free p;
  iv_mem : lenN (sp_mem p) = sp_size p;
}.

Lemma layout_sum bs top : layout bs top -> sum_lens bs = top.
Proof.
  revert top; induction bs as [|[o l] rest IH]; cbn [layout sum_lens fold_right snd]; intros top H; [lia|].
  destruct H as [H1 H2]. specialize (IH _ H2). unfold sum_lens in IH. lia.
Qed.

Lemma layout_below bs top : layout bs top -> forall o l, In (o, l) bs -> o + l <= top.
Proof.
  revert top; induction bs as [|[o' l'] rest IH]; cbn; intros top H o l Hin; [tauto|].
  destruct H as [H1 H2]. destruct Hin as [E|Hin].
  - inversion E; subst; lia.
  - specialize (IH _ H2 _ _ Hin). lia.
Qed.

Lemma sp_new_inv size mem : size < W -> lenN mem = size -> sp_inv (sp_new size mem).
Proof. intros; constructor; cbn; try lia; auto. Qed.

Lemma refuse_spec n size used :
  size < W -> used <= size -> (g_spool_malloc_refuse n size used = true <-> size - used < n).
Proof.
  intros Hs Hu. unfold g_spool_malloc_refuse, wsub.
  assert (E : (size + W - used mod W) mod W = size - used).
  { rewrite (N.mod_small used) by (unfold W in *; lia).
    replace (size + W - used) with ((size - used) + 1 * W) by lia.
    rewrite N.mod_add by (unfold W; lia). apply N.mod_small. unfold W in *; lia. }
  rewrite E. rewrite N.ltb_lt. reflexivity.
Qed.

(** malloc: a granted block lies inside the region, starts at the old free offset, is disjoint from
    every live block; a refused request changes nothing. *)
Theorem sp_malloc_spec p n :
  sp_inv p ->
  match sp_malloc p n with
  | (Some off, p') =>
      n <= sp_size p - sp_free p /\ off = sp_free p /\ off + n <= sp_size p /\
      (forall o l, In (o, l) (sp_blocks p) -> o + l <= off) /\
      sp_blocks p' = (off, n) :: sp_blocks p /\ sp_free p' = sp_free p + n /\ sp_mem p' = sp_mem p /\
      sp_size p' = sp_size p /\ sp_inv p'
  | (None, p') => sp_size p - sp_free p < n /\ p' = p
  end.
Proof.
  intros [Hs Hf Hh Hl Ht Hm]. unfold sp_malloc.
  destruct (g_spool_malloc_refuse n (sp_size p) (sp_free p)) eqn:E.
  - apply refuse_spec in E; auto.
  - assert (Hn : ~ sp_size p - sp_free p < n) by (intros C; apply refuse_spec in C; auto; congruence).
    repeat apply conj; cbn; try lia; auto.
    + intros o l Hin. eapply layout_below; eauto.
    + constructor; cbn; try lia; auto. left; eauto.
Qed.

Lemma fill_nat_length l off len v : length (fill_nat l off len v) = length l.
Proof.
  revert off len; induction l as [|x t IH]; intros off len; cbn; [reflexivity|].
  destruct off; [destruct len|]; cbn; auto.
Qed.
Lemma fill_length l off len v : lenN (fill l off len v) = lenN l.
Proof. unfold fill, lenN; rewrite fill_nat_length; reflexivity. Qed.

Lemma fill_nat_get l off len v i :
  nth_error (fill_nat l off len v) i =
  if (off <=? i)%nat && (i <? off + len)%nat && (i <? length l)%nat then Some v else nth_error l i.
Proof.
  revert off len i; induction l as [|x t IH]; intros off len i.
  - cbn. destruct i; cbn; rewrite ?andb_false_r; reflexivity.
  - destruct off as [|o].
    + destruct len as [|k].
      * cbn [fill_nat]. replace ((0 <=? i)%nat && (i <? 0 + 0)%nat) with false; [reflexivity|].
        symmetry. apply andb_false_iff. right. apply Nat.ltb_ge. lia.
      * cbn [fill_nat]. destruct i as [|j]; [reflexivity|].
        cbn [nth_error]. rewrite IH. cbn [length].
        replace ((0 <=? S j)%nat) with true by reflexivity. replace ((0 <=? j)%nat) with true by (symmetry; apply Nat.leb_le; lia).
        replace (S j <? 0 + S k)%nat with (j <? 0 + k)%nat by (rewrite !Nat.ltb_antisym; cbn; reflexivity || (destruct (Nat.leb_spec (0+k) j), (Nat.leb_spec (0 + S k) (S j)); try reflexivity; lia)).
        replace (S j <? S (length t))%nat with (j <? length t)%nat by reflexivity.
        reflexivity.
    + cbn [fill_nat]. destruct i as [|j].
      * reflexivity.
      * cbn [nth_error length]. rewrite IH.
        replace (S o <=? S j)%nat with (o <=? j)%nat by reflexivity.
        replace (S j <? S o + len)%nat with (j <? o + len)%nat by reflexivity.
        replace (S j <? S (length t))%nat with (j <? length t)%nat by reflexivity.
        reflexivity.
Qed.

Lemma fill_get l off len v i :
  getN (fill l off len v) i = if (off <=? i) && (i <? off + len) && (i <? lenN l) then Some v else getN l i.
Proof.
  unfold getN, fill, lenN. rewrite fill_nat_get.
  replace ((N.to_nat off <=? N.to_nat i)%nat) with (off <=? i) by (destruct (N.leb_spec off i), (Nat.leb_spec (N.to_nat off) (N.to_nat i)); try reflexivity; lia).
  replace ((N.to_nat i <? N.to_nat off + N.to_nat len)%nat) with (i <? off + len) by (destruct (N.ltb_spec i (off+len)), (Nat.ltb_spec (N.to_nat i) (N.to_nat off + N.to_nat len)); try reflexivity; lia).
  replace ((N.to_nat i <? length l)%nat) with (i <? N.of_nat (length l)) by (destruct (N.ltb_spec i (N.of_nat (length l))), (Nat.ltb_spec (N.to_nat i) (length l)); try reflexivity; lia).
  reflexivity.
Qed.

Lemma with_mem_inv p m : sp_inv p -> lenN m = sp_size p -> sp_inv (with_mem p m).
Proof. intros [Hs Hf Hh Hl Ht Hm] H; constructor; cbn; auto. Qed.

(** calloc: same placement as malloc of count*size; the block is zero; an overflowing product is refused. *)
Theorem sp_calloc_spec p c n :
  sp_inv p ->
  match sp_calloc p c n with
  | (Some off, p') =>
      c * n < W /\ off = sp_free p /\ off + c * n <= sp_size p /\
      (forall o l, In (o, l) (sp_blocks p) -> o + l <= off) /\
      sp_blocks p' = (off, c * n) :: sp_blocks p /\ sp_free p' = sp_free p + c * n /\
      all_zero (sp_mem p') off (c * n) = true /\
      (forall i, i < off \/ off + c * n <= i -> getN (sp_mem p') i = getN (sp_mem p) i) /\
      sp_inv p'
  | (None, p') => p' = p
  end.
Proof.
  intros Hi. unfold sp_calloc, g_spool_calloc_overflow, SIZE_MAX.
  destruct (negb (n =? 0) && ((W - 1) / n <? c)) eqn:Eo; [reflexivity|].
  assert (Hprod : c * n < W).
  { apply andb_false_iff in Eo. destruct Eo as [Eo|Eo].
    - apply negb_false_iff in Eo. apply N.eqb_eq in Eo. subst n. unfold W; lia.
    - apply N.ltb_ge in Eo. destruct (N.eq_dec n 0) as [->|Hn]; [unfold W; lia|].
      assert (c * n <= W - 1); [|unfold W in *; lia].
      eapply N.le_trans; [apply N.mul_le_mono_r; exact Eo|].
      rewrite N.mul_comm. apply N.mul_div_le. assumption. }
  assert (Hw : wmul c n = c * n) by (unfold wmul; apply N.mod_small; assumption).
  rewrite Hw. pose proof (sp_malloc_spec p (c * n) Hi) as M.
  destruct (sp_malloc p (c * n)) as [[off|] p'].
  - destruct M as (Hfit & -> & Hin & Hdis & Hb & Hf & Hmem & Hsz & Hi').
    assert (Hlen : lenN (sp_mem p') = sp_size p) by (rewrite <- Hsz; apply (iv_mem _ Hi')).
    repeat apply conj; auto.
    + unfold all_zero. apply forallb_forall. intros i Hi2. apply in_seqN in Hi2.
      cbn [with_mem sp_mem]. rewrite fill_get.
      replace (sp_free p <=? i) with true by lia. replace (i <? sp_free p + c * n) with true by lia.
      replace (i <? lenN (sp_mem p')) with true by lia. reflexivity.
    + intros i Hout. cbn [with_mem sp_mem]. rewrite fill_get, Hmem.
      destruct Hout as [Hout|Hout].
      * replace (sp_free p <=? i) with false by lia. reflexivity.
      * replace (i <? sp_free p + c * n) with false by lia. rewrite andb_false_r. reflexivity.
    + apply with_mem_inv; auto. rewrite fill_length. rewrite Hsz in *. rewrite <- Hsz. apply (iv_mem _ Hi').
  - destruct M as [_ ->]. reflexivity.
Qed.

(** free: the most recent block is rolled back, any other pointer is ignored. *)
Theorem sp_free_other p ptr : ptr <> sp_high p -> sp_free_ptr p ptr = p.
Proof.
  intros H. unfold sp_free_ptr, g_spool_free_top. replace (ptr =? sp_high p) with false by lia. reflexivity.
Qed.

Theorem sp_free_inv p ptr : sp_inv p -> sp_inv (sp_free_ptr p ptr).
Proof.
  intros [Hs Hf Hh Hl Ht Hm]. unfold sp_free_ptr, g_spool_free_top.
  destruct (ptr =? sp_high p) eqn:E; [|constructor; auto].
  constructor; cbn; try lia; auto.
  - destruct Ht as [(l & rest & Hb)|Heq].
    + rewrite Hb. rewrite N.eqb_refl. rewrite Hb in Hl. cbn in Hl. tauto.
    + destruct (sp_blocks p) as [|[o l] rest] eqn:Hb.
      * cbn in *. lia.
      * destruct (o =? sp_high p) eqn:Eo.
        -- cbn in Hl. destruct Hl as [H1 H2]. assert (o = sp_high p) by lia. subst o. exact H2.
        -- rewrite Heq. exact Hl.
Qed.

(** malloc followed by free of the returned pointer restores the free offset, the accounting and
    the set of live blocks (the [high] cursor stays on the rolled-back block: as documented, only
    "the most recent block allocated" can be freed). *)
Theorem sp_malloc_free_restores p n off p' :
  sp_inv p -> sp_malloc p n = (Some off, p') ->
  let p'' := sp_free_ptr p' off in
  sp_free p'' = sp_free p /\ sp_blocks p'' = sp_blocks p /\ sp_mem p'' = sp_mem p /\ sp_size p'' = sp_size p.
Proof.
  intros Hi Hm. pose proof (sp_malloc_spec p n Hi) as M. rewrite Hm in M.
  destruct M as (_ & -> & _ & _ & Hb & Hf & Hmem & Hsz & _).
  unfold sp_malloc in Hm. destruct (g_spool_malloc_refuse n (sp_size p) (sp_free p)); [discriminate|].
  inversion Hm; subst p'; clear Hm. unfold sp_free_ptr, g_spool_free_top; cbn.
  rewrite ?N.eqb_refl. cbn. rewrite ?N.eqb_refl. auto.
Qed.

Theorem sp_reset_spec p : sp_inv p -> sp_inv (sp_reset p) /\ sp_free (sp_reset p) = 0 /\ sp_blocks (sp_reset p) = [].
Proof. intros [Hs Hf Hh Hl Ht Hm]; split; [constructor; cbn; try lia; auto|split; reflexivity]. Qed.

(** Accounting. *)
Theorem sp_accounting p :
  sp_inv p -> sp_used p + sp_free_bytes p = sp_size p /\ sp_used p = sum_lens (sp_blocks p).
Proof.
  intros [Hs Hf Hh Hl Ht Hm]. unfold sp_used, sp_free_bytes. split.
  - unfold wsub. rewrite (N.mod_small (sp_free p)) by (unfold W in *; lia).
    replace (sp_size p + W - sp_free p) with ((sp_size p - sp_free p) + 1 * W) by lia.
    rewrite N.mod_add by (unfold W; lia). rewrite N.mod_small by (unfold W in *; lia). lia.
  - symmetry. apply layout_sum. assumption.
Qed.

(** Every step preserves the invariant (writes must stay inside the region to be meaningful, but
    [fill] ignores out-of-range positions, so no side condition is needed). *)
Theorem sp_step_inv p o : sp_inv p -> sp_inv (snd (sp_step p o)).
Proof.
  intros Hi. destruct o as [n|c n|ptr| |off len v]; cbn [sp_step snd].
  - pose proof (sp_malloc_spec p n Hi) as M. destruct (sp_malloc p n) as [[off|] p']; cbn.
    + tauto. + destruct M as [_ ->]; assumption.
  - pose proof (sp_calloc_spec p c n Hi) as M. destruct (sp_calloc p c n) as [[off|] p']; cbn.
    + tauto. + subst; assumption.
  - apply sp_free_inv; assumption.
  - apply sp_reset_spec; assumption.
  - apply with_mem_inv; auto. rewrite fill_length. apply (iv_mem _ Hi).
Qed.

Fixpoint sp_run (p : spool) (ops : list sp_op) : spool :=
  match ops with [] => p | o :: t => sp_run (snd (sp_step p o)) t end.

Theorem sp_run_inv ops : forall p, sp_inv p -> sp_inv (sp_run p ops).
Proof. induction ops as [|o t IH]; intros p Hi; cbn; [assumption|]. apply IH, sp_step_inv, Hi. Qed.

(** The live blocks of any reachable state are pairwise disjoint and inside the region. *)
Fixpoint disjoint_sorted (bs : list (N * N)) : Prop :=
  match bs with
  | [] => True
  | (o, l) :: rest => (forall o' l', In (o', l') rest -> o' + l' <= o) /\ disjoint_sorted rest
  end.
Lemma layout_disjoint bs top : layout bs top -> disjoint_sorted bs.
Proof.
  revert top; induction bs as [|[o l] rest IH]; cbn; intros top H; [exact I|].
  destruct H as [H1 H2]. split; [|eauto]. intros o' l' Hin. eapply layout_below; eauto.
Qed.
Lemma sp_step_size p o : sp_size (snd (sp_step p o)) = sp_size p.
Proof.
  destruct o as [n|c n|ptr| |off len v]; cbn [sp_step snd].
  - unfold sp_malloc. destruct (g_spool_malloc_refuse _ _ _); reflexivity.
  - unfold sp_calloc. destruct (g_spool_calloc_overflow _ _ _); [reflexivity|].
    unfold sp_malloc. destruct (g_spool_malloc_refuse _ _ _); reflexivity.
  - unfold sp_free_ptr. destruct (g_spool_free_top _ _); reflexivity.
  - reflexivity.
  - reflexivity.
Qed.
Lemma sp_run_size ops : forall p, sp_size (sp_run p ops) = sp_size p.
Proof. induction ops as [|o t IH]; intros p; cbn; [reflexivity|]. rewrite IH. apply sp_step_size. Qed.

Theorem sp_reachable_blocks size mem ops :
  size < W -> lenN mem = size ->
  let p := sp_run (sp_new size mem) ops in
  disjoint_sorted (sp_blocks p) /\ (forall o l, In (o, l) (sp_blocks p) -> o + l <= size) /\
  sp_used p + sp_free_bytes p = size /\ sp_used p = sum_lens (sp_blocks p).
Proof.
  intros Hs Hm p. assert (Hi : sp_inv p) by (apply sp_run_inv, sp_new_inv; assumption).
  assert (Hsz : sp_size p = size) by (subst p; rewrite sp_run_size; reflexivity).
  destruct (sp_accounting p Hi) as [A1 A2]. rewrite Hsz in A1.
  repeat apply conj; auto.
  - eapply layout_disjoint, (iv_layout _ Hi).
  - intros o l Hin. pose proof (layout_below _ _ (iv_layout _ Hi) _ _ Hin). pose proof (iv_free _ Hi). lia.
Qed.
