(** Executable model of src/memory/cc_static_pool.c (definitions only).
    Pointers are offsets from [low_ptr] (= data_buf + offset); the region is [0, sp_size). *)
From CC Require Import Base.Prelude Generated.Status Generated.Constants Generated.Guards.
Local Open Scope N_scope.

Definition SIZE_MAX : N := W - 1.

Record spool := {
  sp_size : N;
  sp_high : N;                 (* start of the most recent block *)
  sp_free : N;                 (* next free offset *)
  sp_mem  : list N;            (* the region's bytes *)
  sp_blocks : list (N * N);    (* ghost: (offset, length) of the blocks handed out since the last reset
                                  and not rolled back, newest first *)
}.

Definition sp_new (size : N) (mem : list N) : spool :=
  {| sp_size := size; sp_high := 0; sp_free := 0; sp_mem := mem; sp_blocks := [] |}.

Definition sp_reset (p : spool) : spool :=
  {| sp_size := sp_size p; sp_high := 0; sp_free := 0; sp_mem := sp_mem p; sp_blocks := [] |}.

(** cc_static_pool_malloc: [used = free_ptr - low_ptr]; refuse when [size > pool->size - used]. *)
Definition sp_malloc (p : spool) (n : N) : option N * spool :=
  let used := sp_free p in
  if g_spool_malloc_refuse n (sp_size p) used then (None, p)
  else (Some (sp_free p),
        {| sp_size := sp_size p; sp_high := sp_free p; sp_free := sp_free p + n; sp_mem := sp_mem p;
           sp_blocks := (sp_free p, n) :: sp_blocks p |}).

Fixpoint fill_nat (l : list N) (off len : nat) (v : N) : list N :=
  match l, off with
  | [], _ => []
  | x :: t, S o => x :: fill_nat t o len v
  | x :: t, O => match len with O => x :: t | S k => v :: fill_nat t O k v end
  end.
Definition fill (l : list N) (off len v : N) : list N := fill_nat l (N.to_nat off) (N.to_nat len) v.

Definition with_mem (p : spool) (m : list N) : spool :=
  {| sp_size := sp_size p; sp_high := sp_high p; sp_free := sp_free p; sp_mem := m; sp_blocks := sp_blocks p |}.

(** cc_static_pool_calloc: overflow test, malloc(count*size), memset 0. *)
Definition sp_calloc (p : spool) (count n : N) : option N * spool :=
  if g_spool_calloc_overflow n count SIZE_MAX then (None, p)
  else match sp_malloc p (wmul count n) with
       | (Some off, p') => (Some off, with_mem p' (fill (sp_mem p') off (wmul count n) 0))
       | (None, p') => (None, p')
       end.

(** cc_static_pool_free: roll back only the most recent block. *)
Definition sp_free_ptr (p : spool) (ptr : N) : spool :=
  if g_spool_free_top ptr (sp_high p) then
    {| sp_size := sp_size p; sp_high := sp_high p; sp_free := sp_high p; sp_mem := sp_mem p;
       sp_blocks := match sp_blocks p with
                    | (o, l) :: rest => if o =? sp_high p then rest else sp_blocks p
                    | [] => []
                    end |}
  else p.

Definition sp_used (p : spool) : N := sp_free p.
Definition sp_free_bytes (p : spool) : N := wsub (sp_size p) (sp_free p).

(** the user writing into a block it owns (so that reused memory is dirty) *)
Definition sp_write (p : spool) (off len v : N) : spool := with_mem p (fill (sp_mem p) off len v).

Inductive sp_op := SMalloc (n : N) | SCalloc (c n : N) | SFree (ptr : N) | SReset | SWrite (off len v : N).

Definition sp_step (p : spool) (o : sp_op) : option N * spool :=
  match o with
  | SMalloc n => sp_malloc p n
  | SCalloc c n => sp_calloc p c n
  | SFree ptr => (None, sp_free_ptr p ptr)
  | SReset => (None, sp_reset p)
  | SWrite off len v => (None, sp_write p off len v)
  end.

Definition sum_lens (bs : list (N * N)) : N := fold_right (fun b acc => snd b + acc) 0 bs.

(** is every byte of [off, off+len) zero? *)
Definition all_zero (m : list N) (off len : N) : bool :=
  forallb (fun i => match getN m i with Some 0 => true | _ => false end) (seqN off len).
