(** Hash table proofs, part E: one step and whole histories refine the ideal association map;
    no spurious failures under a granting allocator; load bound; destroy balance; tags;
    CC_HashSet refines the ideal set. *)
From Coq Require Import Permutation.
From CC Require Import Base.Prelude Base.ListMem Base.Alloc Base.AllocProofs.
From CC Require Import Generated.Status Generated.Constants Generated.Guards.
From CC Require Import Hash.HashModel Hash.HashProofsA Hash.HashProofsB Hash.HashProofsC Hash.HashProofsD.
Local Open Scope N_scope.

(** Outputs are compared up to the order of enumerations. *)
Definition out_equiv (o1 o2 : ht_out) : Prop :=
  o_st o1 = o_st o2 /\ o_vals o1 = o_vals o2 /\ Permutation (o_enum o1) (o_enum o2) /\
  Permutation (o_pairs o1) (o_pairs o2) /\ Permutation (o_sts o1) (o_sts o2).
Lemma out_equiv_refl o : out_equiv o o.
Proof. repeat split; apply Permutation_refl. Qed.
Lemma out_equiv_trans o1 o2 o3 : out_equiv o1 o2 -> out_equiv o2 o3 -> out_equiv o1 o3.
Proof.
  intros (A1 & A2 & A3 & A4 & A5) (B1 & B2 & B3 & B4 & B5).
  repeat split; try congruence; eapply Permutation_trans; eassumption.
Qed.

Definition fail_stat (s : stat) : Prop := s = CC_ERR_ALLOC \/ s = CC_ERR_MAX_CAPACITY \/ s = CC_ERR_INVALID_CAPACITY.
Definition may_alloc (o : ht_op) : bool := match o with HAdd _ _ | HGetKeys | HGetValues => true | _ => false end.

Lemma release_in t id n l1 l2 a :
  ledger_ok a -> live a = l1 ++ {| b_id := id; b_tag := t; b_bytes := n |} :: l2 ->
  exists a', release t id a = Ok a' /\ live a' = l1 ++ l2 /\ ledger_ok a' /\ next_id a' = next_id a.
Proof.
  intros [Hnd Hlt] E. set (b := {| b_id := id; b_tag := t; b_bytes := n |}) in *.
  assert (Hin : In b (live a)) by (rewrite E; apply in_elt).
  destruct (remove_block_unique _ _ Hnd Hin) as (m1 & m2 & E2 & Hr & _).
  assert (HndL : NoDup (live a)) by (eapply NoDup_map_inv; eassumption).
  rewrite E in E2. rewrite E in HndL. destruct (nodup_split_unique _ _ _ _ _ HndL E2) as (<- & <-).
  unfold release. cbn [b_id b] in Hr. rewrite Hr. cbn [b_tag b]. rewrite tag_eqb_refl.
  eexists. split; [reflexivity|]. cbn [live next_id]. split; [reflexivity|]. split; [|reflexivity].
  split; cbn [live next_id].
  - rewrite E in Hnd. rewrite map_app in *. cbn [map] in Hnd. apply NoDup_remove_1 in Hnd. assumption.
  - intros x Hx. apply Hlt. rewrite E. rewrite in_app_iff in *. cbn. tauto.
Qed.

Lemma own_tags mem ids a L0 : own mem ids a L0 -> forall b, In b (live a) -> In b L0 \/ b_tag b = mem.
Proof.
  intros [[Hnd _] _ _ Hl Hf] b Hb. destruct (notin ids b) eqn:E.
  - left. rewrite <- Hf. apply filter_In. auto.
  - right. unfold notin in E. apply negb_false_iff, existsb_eqb_In in E.
    destruct (Hl _ E) as [n Hn].
    assert (Hnd' : NoDup (live a)) by (eapply NoDup_map_inv; eassumption).
    (* two live blocks with the same id are the same block *)
    apply in_split in Hn. destruct Hn as (l1 & l2 & El). rewrite El in Hb, Hnd.
    rewrite map_app in Hnd. cbn [map b_id] in Hnd.
    apply in_app_iff in Hb. destruct Hb as [Hb|[<-|Hb]]; [|reflexivity|]; exfalso.
    + apply NoDup_remove_2 in Hnd. apply Hnd. rewrite in_app_iff. left. apply in_map. assumption.
    + apply NoDup_remove_2 in Hnd. apply Hnd. rewrite in_app_iff. right. apply in_map. assumption.
Qed.

Section HashProofsE.
Variable hash : N -> N.
Variable keq : N -> N -> bool.
Hypothesis keq_refl : forall a, a <> 0 -> keq a a = true.
Hypothesis keq_sym : forall a b, a <> 0 -> b <> 0 -> keq a b = keq b a.
Hypothesis keq_trans : forall a b c, a <> 0 -> b <> 0 -> c <> 0 -> keq a b = true -> keq b c = true -> keq a c = true.
Hypothesis hash_compat : forall a b, a <> 0 -> b <> 0 -> keq a b = true -> hash a = hash b.
Set Default Proof Using "keq_refl keq_sym keq_trans hash_compat".
Local Notation SP l := (l keq keq_refl keq_sym keq_trans) (only parsing).
Local Notation HP l := (l hash keq keq_refl keq_sym keq_trans hash_compat) (only parsing).
Local Notation ht_wf := (ht_wf hash keq).
Local Notation ht_inv := (ht_inv hash keq).
Local Notation nodup_k := (nodup_k keq).
Local Notation nodup_keys := (nodup_keys keq).
Local Notation keqn := (keqn keq).
Local Notation m_add := (m_add keq).
Local Notation m_get := (m_get keq).
Local Notation m_del := (m_del keq).
Local Notation spec_step := (spec_step keq).
Local Notation ht_step := (ht_step hash keq).
Local Notation ht_run := (ht_run hash keq).
Local Notation ht_add := (ht_add hash keq).
Local Notation ht_remove := (ht_remove hash keq).
Local Notation ht_get := (ht_get hash keq).

Lemma abs_nodup t : ht_wf t -> nodup_keys (ht_abs t).
Proof. intros Hw. unfold HashProofsA.nodup_keys, ht_abs. rewrite map_map. apply (wf_nodup _ _ t Hw). Qed.
Lemma abs_len t : lenN (ht_abs t) = lenN (entries t).
Proof. unfold ht_abs, lenN. rewrite map_length. reflexivity. Qed.

(* ------------------------------------------------------------------------------------------ *)
(** * One step *)

Theorem ht_step_refines L0 t a o : ht_inv L0 t a ->
  exists out t' a', ht_step t o a = Ok (out, t', a') /\ ht_inv L0 t' a' /\
    ht_num t' = ht_num t /\ ht_den t' = ht_den t /\ ht_mem t' = ht_mem t /\ limit a' = limit a /\
    (plan a = [] -> plan a' = []) /\ ht_size t' <= ht_size t + 1 /\
    ((out_equiv out (fst (spec_step (ht_abs t) o)) /\ Permutation (ht_abs t') (snd (spec_step (ht_abs t) o)))
     \/ (may_alloc o = true /\ fail_stat (o_st out) /\ out = out_st (o_st out) /\
         Permutation (ht_abs t') (ht_abs t) /\ ht_size t' = ht_size t /\
         (* under an allocator that grants every request the only failure is the capacity ceiling *)
         (plan a = [] -> 2 ^ 37 <= limit a -> ht_size t < 2 ^ 32 ->
          o_st out = CC_ERR_MAX_CAPACITY /\ ht_cap t = MAX_POW_TWO /\ ht_thr t <= ht_size t))).
Proof.
  intros Hi. pose proof (proj1 Hi) as Hw. destruct o as [k v|k|k|k| | | | | | |rm]; cbn [HashModel.ht_step HashModel.spec_step fst snd].
  - (* add *)
    destruct (HP ht_add_spec L0 t a k v Hi) as (st & t' & a' & -> & Hi' & Hn & Hd & Hm & Hl & Hpe & Hcap & Hcase). cbn [bind].
    do 3 eexists. split; [reflexivity|]. split; [assumption|]. do 5 (split; [assumption|]).
    destruct (HP wf_cap_bounds t Hw) as (Hc0 & Hc31 & _).
    destruct Hcase as [(-> & HPa & Hsz)|[(-> & HPa & Hsz & Hgr)|(-> & -> & -> & Hmax & Hth)]].
    + split; [lia|]. left. split; [apply out_equiv_refl|assumption].
    + split; [lia|]. right. split; [reflexivity|]. split; [left; reflexivity|]. split; [reflexivity|].
      split; [assumption|]. split; [assumption|]. intros Hp Hlim _. specialize (Hgr Hp). exfalso.
      unfold SZ_ENTRY in Hgr. change (2 ^ 37) with 137438953472 in Hlim. lia.
    + split; [lia|]. right. split; [reflexivity|]. split; [right; left; reflexivity|]. split; [reflexivity|].
      split; [apply Permutation_refl|]. split; [reflexivity|]. auto.
  - (* get *)
    rewrite (HP ht_get_spec) by assumption. cbn [bind].
    destruct (m_get (ht_abs t) k) as [x|];
      (do 3 eexists; split; [reflexivity|]; split; [assumption|]; do 5 (split; [auto|]); split; [lia|]; left;
       split; [apply out_equiv_refl|apply Permutation_refl]).
  - (* contains_key *)
    rewrite (HP ht_contains_spec) by assumption. cbn [bind].
    destruct (m_get (ht_abs t) k) as [x|];
      (do 3 eexists; split; [reflexivity|]; split; [assumption|]; do 5 (split; [auto|]); split; [lia|]; left;
       split; [apply out_equiv_refl|apply Permutation_refl]).
  - (* remove *)
    destruct (HP ht_remove_spec L0 t a k Hi) as (st & v & t' & a' & -> & Hi' & Hc & Ht & Hn & Hd & Hm & Hp & Hl & Hcase). cbn [bind].
    do 3 eexists. split; [reflexivity|]. split; [assumption|]. do 4 (split; [assumption|]). split; [congruence|].
    destruct (m_del (ht_abs t) k) as [[x m']|].
    + destruct Hcase as (-> & -> & Habs & Hsz & _). split; [lia|]. left. cbn [fst snd].
      split; [apply out_equiv_refl|rewrite Habs; apply Permutation_refl].
    + destruct Hcase as (-> & -> & -> & ->). split; [lia|]. left. split; [apply out_equiv_refl|apply Permutation_refl].
  - (* remove_all *)
    destruct (HP ht_remove_all_spec L0 t a Hi) as (t' & a' & -> & Hi' & Habs & Hsz & Hc & Ht & Hn & Hd & Hm & Hp & Hl). cbn [bind].
    do 3 eexists. split; [reflexivity|]. split; [assumption|]. do 4 (split; [assumption|]). split; [congruence|].
    split; [lia|]. left. split; [apply out_equiv_refl|rewrite Habs; apply Permutation_refl].
  - (* size *)
    do 3 eexists. split; [reflexivity|]. split; [assumption|]. do 5 (split; [auto|]). split; [lia|]. left.
    split; [|apply Permutation_refl]. rewrite abs_len, <- (wf_size _ _ t Hw). apply out_equiv_refl.
  - (* get_keys *)
    destruct (HP collect_step_spec e_key L0 t a Hi) as (out & a' & -> & Hi' & Hl & Hpe & Hcase).
    do 3 eexists. split; [reflexivity|]. split; [assumption|]. do 3 (split; [reflexivity|]). do 2 (split; [assumption|]).
    split; [lia|]. destruct Hcase as [->|(Ho & Hst & _ & Hgr)].
    + left. split; [|apply Permutation_refl]. unfold ht_abs. rewrite map_map. apply out_equiv_refl.
    + right. split; [reflexivity|]. split; [unfold fail_stat; tauto|]. split; [assumption|]. split; [apply Permutation_refl|].
      split; [reflexivity|]. intros Hp Hlim Hsz. exfalso. change (2 ^ 37) with 137438953472 in Hlim.
      change (2 ^ 32) with 4294967296 in Hsz. change (2 ^ 62) with 4611686018427387904 in Hst.
      destruct Hst as [Hst|(Hst & Hbig)]; [|lia]. specialize (Hgr Hp Hst). unfold SZ_ARRAY, W in Hgr. lia.
  - (* get_values *)
    destruct (HP collect_step_spec e_val L0 t a Hi) as (out & a' & -> & Hi' & Hl & Hpe & Hcase).
    do 3 eexists. split; [reflexivity|]. split; [assumption|]. do 3 (split; [reflexivity|]). do 2 (split; [assumption|]).
    split; [lia|]. destruct Hcase as [->|(Ho & Hst & _ & Hgr)].
    + left. split; [|apply Permutation_refl]. unfold ht_abs. rewrite map_map. apply out_equiv_refl.
    + right. split; [reflexivity|]. split; [unfold fail_stat; tauto|]. split; [assumption|]. split; [apply Permutation_refl|].
      split; [reflexivity|]. intros Hp Hlim Hsz. exfalso. change (2 ^ 37) with 137438953472 in Hlim.
      change (2 ^ 32) with 4294967296 in Hsz. change (2 ^ 62) with 4611686018427387904 in Hst.
      destruct Hst as [Hst|(Hst & Hbig)]; [|lia]. specialize (Hgr Hp Hst). unfold SZ_ARRAY, W in Hgr. lia.
  - (* foreach_key *)
    rewrite (HP ht_foreach_spec) by assumption. cbn [bind].
    do 3 eexists. split; [reflexivity|]. split; [assumption|]. do 5 (split; [auto|]). split; [lia|]. left.
    split; [|apply Permutation_refl]. unfold ht_abs. rewrite map_map. apply out_equiv_refl.
  - (* foreach_value *)
    rewrite (HP ht_foreach_spec) by assumption. cbn [bind].
    do 3 eexists. split; [reflexivity|]. split; [assumption|]. do 5 (split; [auto|]). split; [lia|]. left.
    split; [|apply Permutation_refl]. unfold ht_abs. rewrite map_map. apply out_equiv_refl.
  - (* a whole traversal with removals through the iterator *)
    destruct (HP ht_iter_all_spec L0 t a rm Hi) as (t' & a' & -> & Hi' & Habs & Hc & Ht & Hn & Hd & Hm & Hp & Hl & Hsz). cbn [bind].
    do 3 eexists. split; [reflexivity|]. split; [assumption|]. do 4 (split; [assumption|]). split; [congruence|].
    split; [lia|]. left. split; [apply out_equiv_refl|rewrite Habs; apply Permutation_refl].
Qed.

Theorem ht_step_inv L0 t a o out t' a' : ht_inv L0 t a -> ht_step t o a = Ok (out, t', a') -> ht_inv L0 t' a'.
Proof.
  intros Hi E. destruct (ht_step_refines L0 t a o Hi) as (out1 & t1 & a1 & E1 & Hi1 & _).
  rewrite E in E1. inversion E1; subst. assumption.
Qed.

(* ------------------------------------------------------------------------------------------ *)
(** * The ideal step does not depend on the order of the bindings *)

Lemma Permutation_const_map {A B} (c : B) (l1 l2 : list A) :
  Permutation l1 l2 -> Permutation (map (fun _ => c) l1) (map (fun _ => c) l2).
Proof. apply Permutation_map. Qed.

Lemma spec_step_perm m1 m2 o : nodup_keys m1 -> Permutation m1 m2 ->
  out_equiv (fst (spec_step m1 o)) (fst (spec_step m2 o)) /\ Permutation (snd (spec_step m1 o)) (snd (spec_step m2 o)).
Proof.
  intros Hnd P. destruct o as [k v|k|k|k| | | | | | |rm]; cbn [HashModel.spec_step fst snd].
  - split; [apply out_equiv_refl|apply (SP m_add_perm); assumption].
  - rewrite (SP m_get_perm _ _ k Hnd P). split; [apply out_equiv_refl|assumption].
  - rewrite (SP m_get_perm _ _ k Hnd P). split; [apply out_equiv_refl|assumption].
  - pose proof (SP m_del_perm _ _ k Hnd P) as H.
    destruct (HashModel.m_del keq m1 k) as [[v1 r1]|], (HashModel.m_del keq m2 k) as [[v2 r2]|]; try contradiction.
    + destruct H as [-> H]. split; [apply out_equiv_refl|assumption].
    + split; [apply out_equiv_refl|assumption].
  - split; [apply out_equiv_refl|constructor].
  - unfold lenN. rewrite (Permutation_length P). split; [apply out_equiv_refl|assumption].
  - split; [|assumption]. repeat split; cbn; try apply Permutation_refl. apply Permutation_map. assumption.
  - split; [|assumption]. repeat split; cbn; try apply Permutation_refl. apply Permutation_map. assumption.
  - split; [|assumption]. repeat split; cbn; try apply Permutation_refl. apply Permutation_map. assumption.
  - split; [|assumption]. repeat split; cbn; try apply Permutation_refl. apply Permutation_map. assumption.
  - split; [|apply Permutation_filter; assumption]. repeat split; cbn; try apply Permutation_refl; [assumption|].
    apply Permutation_const_map, Permutation_filter. assumption.
Qed.

(* ------------------------------------------------------------------------------------------ *)
(** * Histories *)

(** [run_rel m ops outs m']: the outputs are those of the ideal map started at [m], except that an
    allocating operation may report a failure, in which case the ideal map stays as it is. *)
Inductive run_rel : amap -> list ht_op -> list ht_out -> amap -> Prop :=
| rr_nil m : run_rel m [] [] m
| rr_ok m o out ops outs m' :
    out_equiv out (fst (spec_step m o)) -> run_rel (snd (spec_step m o)) ops outs m' ->
    run_rel m (o :: ops) (out :: outs) m'
| rr_fail m o out ops outs m' :
    may_alloc o = true -> fail_stat (o_st out) -> out = out_st (o_st out) -> run_rel m ops outs m' ->
    run_rel m (o :: ops) (out :: outs) m'.

Theorem ht_run_refines L0 ops : forall t a m,
  ht_inv L0 t a -> Permutation (ht_abs t) m ->
  exists outs t' a', ht_run t ops a = Ok (outs, t', a') /\ ht_inv L0 t' a' /\
    ht_num t' = ht_num t /\ ht_den t' = ht_den t /\ ht_mem t' = ht_mem t /\
    exists m', run_rel m ops outs m' /\ Permutation (ht_abs t') m'.
Proof.
  induction ops as [|o ops IH]; intros t a m Hi P; cbn [HashModel.ht_run].
  - do 3 eexists. split; [reflexivity|]. split; [assumption|]. do 3 (split; [reflexivity|]). exists m. split; [constructor|assumption].
  - destruct (ht_step_refines L0 t a o Hi) as (out & t1 & a1 & -> & Hi1 & Hn1 & Hd1 & Hm1 & _ & _ & _ & Hcase). cbn [bind].
    pose proof (abs_nodup t (proj1 Hi)) as Hnd.
    destruct Hcase as [(Hout & Habs)|(Hma & Hf & Hout & Habs & _)].
    + destruct (spec_step_perm _ _ o Hnd P) as (Ho2 & Hs2).
      destruct (IH t1 a1 (snd (spec_step m o)) Hi1 (Permutation_trans Habs Hs2)) as (outs & t2 & a2 & -> & Hi2 & Hn2 & Hd2 & Hm2 & m' & Hr & Hp).
      cbn [bind]. do 3 eexists. split; [reflexivity|]. split; [assumption|]. do 3 (split; [congruence|]).
      exists m'. split; [|assumption]. apply rr_ok; [eapply out_equiv_trans; eassumption|assumption].
    + destruct (IH t1 a1 m Hi1 (Permutation_trans Habs P)) as (outs & t2 & a2 & -> & Hi2 & Hn2 & Hd2 & Hm2 & m' & Hr & Hp).
      cbn [bind]. do 3 eexists. split; [reflexivity|]. split; [assumption|]. do 3 (split; [congruence|]).
      exists m'. split; [|assumption]. apply rr_fail; assumption.
Qed.

(** Under an allocator that grants every request (empty plan, limit >= 2^37) and fewer than 2^32
    entries, no operation of a history reports an allocation failure: the only failure left is
    CC_ERR_MAX_CAPACITY, so "always fail" does not refine the ideal map. *)
Theorem ht_run_no_spurious_failure L0 ops : forall t a outs t' a',
  ht_inv L0 t a -> plan a = [] -> 2 ^ 37 <= limit a -> ht_size t + lenN ops < 2 ^ 32 ->
  ht_run t ops a = Ok (outs, t', a') ->
  Forall (fun out => fail_stat (o_st out) -> o_st out = CC_ERR_MAX_CAPACITY) outs.
Proof.
  induction ops as [|o ops IH]; intros t a outs t' a' Hi Hp Hl Hs E; cbn [HashModel.ht_run] in E.
  - inversion E; subst. constructor.
  - destruct (ht_step_refines L0 t a o Hi) as (out & t1 & a1 & E1 & Hi1 & _ & _ & _ & Hl1 & Hp1 & Hs1 & Hcase).
    rewrite E1 in E. cbn [bind] in E. rewrite lenN_cons in Hs.
    destruct (HashModel.ht_run hash keq t1 ops a1) as [[[outs2 t2] a2]|] eqn:E2; cbn [bind] in E; [|discriminate].
    inversion E; subst. constructor.
    + destruct Hcase as [(Hout & _)|(_ & _ & _ & _ & _ & Hgr)].
      * intros Hf. destruct Hout as (Hst & _). rewrite Hst in *. exfalso.
        destruct o; cbn [HashModel.spec_step fst] in Hf; unfold fail_stat in Hf;
          repeat match goal with
                 | H : context [match ?x with _ => _ end] |- _ => destruct x
                 end; cbn in Hf; destruct Hf as [Hf|[Hf|Hf]]; discriminate.
      * intros _. apply Hgr; [assumption|assumption|lia].
    + apply (IH t1 a1 outs2 t' a'); auto; [congruence|lia].
Qed.

(** From the constructor: every initial capacity, load factor, seed; the ledger is balanced again
    after destroy (C06), whatever the history and whichever requests were refused. *)
Theorem ht_new_run_refines mem initial num den seed a ops :
  ledger_ok a -> 0 < next_id a ->
  exists st ot a1, ht_new mem initial num den seed a = Ok (st, ot, a1) /\
    match ot with
    | None => st = CC_ERR_ALLOC /\ live a1 = live a
    | Some t =>
        st = CC_OK /\ ht_cap t = round_pow_two initial /\
        exists outs t' a', ht_run t ops a1 = Ok (outs, t', a') /\ ht_inv (live a) t' a' /\
          (exists m', run_rel [] ops outs m' /\ Permutation (ht_abs t') m') /\
          exists a'', ht_destroy t' a' = Ok a'' /\ live a'' = live a
    end.
Proof.
  intros H1 H2. destruct (HP ht_new_spec mem initial num den seed a (live a) (own_nil_intro mem a H1 H2)) as (st & ot & a1 & E & Hcase).
  exists st, ot, a1. split; [assumption|]. destruct ot as [t|].
  - destruct Hcase as (-> & Hi & Habs & _ & Hcap & _). split; [reflexivity|]. split; [assumption|].
    destruct (ht_run_refines (live a) ops t a1 [] Hi) as (outs & t' & a' & Er & Hi' & _ & _ & _ & Hm).
    { rewrite Habs. constructor. }
    exists outs, t', a'. split; [assumption|]. split; [assumption|]. split; [assumption|].
    destruct (HP ht_destroy_spec (live a) t' a' Hi') as (a'' & Ed & Hl & _). eauto.
  - destruct Hcase as (-> & Ho & _). split; [reflexivity|]. apply (own_nil_live _ _ _ Ho).
Qed.

(* ------------------------------------------------------------------------------------------ *)
(** * Resize keeps exactly the same bindings *)

Theorem ht_resize_preserves L0 t a nc t' a' :
  ht_inv L0 t a -> nc = (N.shiftl (ht_cap t) 1) mod W -> ht_resize t nc a = Ok (CC_OK, t', a') ->
  ht_inv L0 t' a' /\ Permutation (ht_abs t') (ht_abs t) /\ ht_size t' = ht_size t /\ ht_cap t' = 2 * ht_cap t /\
  (forall k, ht_get t' k = ht_get t k).
Proof.
  intros Hi -> E. destruct (HP ht_resize_spec L0 t a Hi) as (st & t1 & a1 & E1 & Hi1 & _ & _ & _ & Hs & _ & Hcase).
  rewrite E in E1. inversion E1; subst st t1 a1.
  destruct Hcase as [(_ & HP1 & Hc & _)|[(Hst & _)|(Hst & _)]]; try discriminate.
  assert (Habs : Permutation (ht_abs t') (ht_abs t)) by (apply Permutation_map; assumption).
  split; [assumption|]. split; [assumption|]. split; [assumption|]. split; [assumption|].
  intros k. rewrite !(HP ht_get_spec) by (apply Hi || apply Hi1).
  rewrite (SP m_get_perm _ _ k (abs_nodup t' (proj1 Hi1)) Habs). reflexivity.
Qed.

(* ------------------------------------------------------------------------------------------ *)
(** * Atomicity of failed allocations (C08), inertness of rejected lookups (C16) *)

Theorem ht_add_alloc_atomic L0 t a k v t' a' :
  ht_inv L0 t a -> ht_add t k v a = Ok (CC_ERR_ALLOC, t', a') ->
  ht_inv L0 t' a' /\ Permutation (ht_abs t') (ht_abs t) /\ ht_size t' = ht_size t /\
  (forall x, ht_get t' x = ht_get t x) /\ lenN (live a') = lenN (live a).
Proof.
  intros Hi E. destruct (HP ht_add_spec L0 t a k v Hi) as (st & t1 & a1 & E1 & Hi1 & _ & _ & Hm & _ & _ & _ & Hcase).
  rewrite E in E1. inversion E1; subst st t1 a1.
  destruct Hcase as [(Hst & _)|[(_ & Habs & Hsz & _)|(Hst & _)]]; try discriminate.
  split; [assumption|]. split; [assumption|]. split; [assumption|]. split.
  - intros x. rewrite !(HP ht_get_spec) by (apply Hi || apply Hi1).
    rewrite (SP m_get_perm _ _ x (abs_nodup t' (proj1 Hi1)) Habs). reflexivity.
  - (* the ledger holds L0 plus two blocks plus one per entry, before and after *)
    destruct Hi as [Hw [[Hnd _] _ Hnd2 Hlv Hfr]]. destruct Hi1 as [Hw1 [[Hnd1 _] _ Hnd3 Hlv1 Hfr1]].
    assert (Hcount : forall ids mem al, NoDup (map b_id (live al)) -> NoDup ids -> (forall id, In id ids -> owned mem al id) ->
              length (live al) = (length (filter (notin ids) (live al)) + length ids)%nat).
    { clear. intros ids mem al Hnd Hids Hown.
      assert (Hsplit : forall l : list block, length l = (length (filter (notin ids) l) + length (filter (fun b => negb (notin ids b)) l))%nat).
      { induction l as [|b l IHl]; cbn; [reflexivity|]. destruct (notin ids b); cbn; lia. }
      rewrite (Hsplit (live al)). f_equal.
      (* the owned blocks are in bijection with ids *)
      assert (Hp : Permutation (map b_id (filter (fun b => negb (notin ids b)) (live al))) ids).
      { apply NoDup_Permutation; [| assumption |].
        - clear -Hnd. induction (live al) as [|b l IHl]; cbn; [constructor|]. cbn in Hnd. inversion Hnd; subst.
          destruct (negb (notin ids b)); cbn; auto. constructor; auto.
          intros Hin. apply H1. apply in_map_iff in Hin. destruct Hin as (x & Ex & Hx). apply filter_In in Hx.
          rewrite <- Ex. apply in_map. tauto.
        - intros x. split.
          + intros Hin. apply in_map_iff in Hin. destruct Hin as (b & <- & Hb). apply filter_In in Hb. destruct Hb as [_ Hb].
            unfold notin in Hb. rewrite negb_involutive in Hb. apply existsb_eqb_In in Hb. assumption.
          + intros Hin. destruct (Hown _ Hin) as [n Hn]. apply in_map_iff. eexists. split; [|apply filter_In; split; [exact Hn|]]; [reflexivity|].
            unfold notin. cbn [b_id]. rewrite negb_involutive. apply existsb_eqb_In. assumption. }
      rewrite <- (Permutation_length Hp), map_length. reflexivity. }
    unfold lenN. rewrite (Hcount _ _ _ Hnd Hnd2 Hlv), (Hcount _ _ _ Hnd1 Hnd3 Hlv1). rewrite Hfr, Hfr1.
    unfold ids. cbn [length]. rewrite !map_length. pose proof (wf_size _ _ t Hw) as S0. pose proof (wf_size _ _ t' Hw1) as S1.
    unfold lenN in S0, S1. lia.
Qed.

Lemma m_del_none_of_get m k : m_get m k = None -> m_del m k = None.
Proof.
  intros H. destruct (SP match_cases m k) as [Hn|(l1 & k' & v & l2 & -> & Hn & Hk)].
  - apply (SP m_del_none). assumption.
  - rewrite (SP m_get_split) in H by assumption. discriminate.
Qed.

Theorem ht_remove_missing_inert L0 t a k :
  ht_inv L0 t a -> m_get (ht_abs t) k = None -> ht_remove t k a = Ok (CC_ERR_KEY_NOT_FOUND, None, t, a).
Proof.
  intros Hi Hg. destruct (HP ht_remove_spec L0 t a k Hi) as (st & v & t' & a' & E & _ & _ & _ & _ & _ & _ & _ & _ & Hcase).
  rewrite (m_del_none_of_get _ _ Hg) in Hcase. destruct Hcase as (-> & -> & -> & ->). assumption.
Qed.
Theorem ht_get_missing L0 t a k :
  ht_inv L0 t a -> m_get (ht_abs t) k = None -> ht_get t k = Ok (CC_ERR_KEY_NOT_FOUND, None).
Proof. intros Hi Hg. rewrite (HP ht_get_spec) by apply Hi. rewrite Hg. reflexivity. Qed.

(* ------------------------------------------------------------------------------------------ *)
(** * The invariant spelled out; enumerations *)

Theorem ht_inv_facts L0 t a : ht_inv L0 t a ->
  (exists p, p <= 31 /\ ht_cap t = 2 ^ p) /\ lenN (ht_buckets t) = ht_cap t /\
  (forall j c e, getN (ht_buckets t) j = Some c -> In e c ->
     N.land (e_hash e) (ht_cap t - 1) = j /\ e_hash e = (if e_key e =? 0 then 0 else hash (e_key e)) /\
     (e_key e = 0 -> j = 0)) /\
  nodup_k (keys t) /\ ht_size t = lenN (entries t) /\ nodup_keys (ht_abs t) /\
  (forall id, In id (ids t) -> exists n, In {| b_id := id; b_tag := ht_mem t; b_bytes := n |} (live a)) /\ NoDup (ids t).
Proof.
  intros [Hw Ho]. split; [apply (wf_pow _ _ t Hw)|]. split; [apply (wf_len _ _ t Hw)|]. split.
  - intros j c e Hg Hin. destruct (wf_place _ _ t Hw j c e Hg Hin) as (Hb & Hh). unfold bidx, khash in *.
    split; [assumption|]. split; [assumption|]. intros Hk. rewrite Hk in Hh. cbn in Hh. rewrite Hh in Hb.
    rewrite N.land_0_l in Hb. auto.
  - split; [apply (wf_nodup _ _ t Hw)|]. split; [apply (wf_size _ _ t Hw)|]. split; [apply abs_nodup; assumption|].
    split; [apply (own_live _ _ _ _ Ho)|apply (own_nodup _ _ _ _ Ho)].
Qed.

(** Every enumeration of a table whose abstract map is (a permutation of) [m] lists exactly the bindings
    of [m], each key once. *)
Theorem ht_enumeration L0 t a m : ht_inv L0 t a -> Permutation (ht_abs t) m ->
  nodup_k (map fst m) /\
  (exists ks, ht_foreach e_key t = Ok ks /\ Permutation ks (map fst m)) /\
  (exists vs, ht_foreach e_val t = Ok vs /\ Permutation vs (map snd m)) /\
  (forall st ar a', ht_get_keys t a = Ok (st, Some ar, a') -> st = CC_OK /\ Permutation (ar_items ar) (map fst m)) /\
  (forall st ar a', ht_get_values t a = Ok (st, Some ar, a') -> st = CC_OK /\ Permutation (ar_items ar) (map snd m)) /\
  (exists ys, HashModel.ht_iter_all hash keq t [] a = Ok (ys, [], t, a) /\ Permutation ys m).
Proof.
  intros Hi P. pose proof (proj1 Hi) as Hw.
  assert (Hk : map e_key (entries t) = map fst (ht_abs t)) by (unfold ht_abs; rewrite map_map; reflexivity).
  assert (Hv : map e_val (entries t) = map snd (ht_abs t)) by (unfold ht_abs; rewrite map_map; reflexivity).
  split; [apply (SP nodup_k_perm (map fst (ht_abs t))); [apply Permutation_map; assumption|apply abs_nodup; assumption]|].
  split; [exists (map e_key (entries t)); split; [apply (HP ht_foreach_spec); assumption|rewrite Hk; apply Permutation_map; assumption]|].
  split; [exists (map e_val (entries t)); split; [apply (HP ht_foreach_spec); assumption|rewrite Hv; apply Permutation_map; assumption]|].
  split; [|split].
  - intros st ar a' E. destruct (HP ht_collect_spec e_key L0 t a Hi) as (st0 & oar & a0 & E0 & _ & _ & Hcase).
    unfold ht_get_keys in E. rewrite E in E0. inversion E0; subst. destruct Hcase as (-> & Hitems & _).
    split; [reflexivity|]. rewrite Hitems, Hk. apply Permutation_map. assumption.
  - intros st ar a' E. destruct (HP ht_collect_spec e_val L0 t a Hi) as (st0 & oar & a0 & E0 & _ & _ & Hcase).
    unfold ht_get_values in E. rewrite E in E0. inversion E0; subst. destruct Hcase as (-> & Hitems & _).
    split; [reflexivity|]. rewrite Hitems, Hv. apply Permutation_map. assumption.
  - destruct (HP iter_init_pos_all L0 t a Hi) as (ys & E & ->). exists (ht_abs t). split; assumption.
Qed.

(* ------------------------------------------------------------------------------------------ *)
(** * Capacity facts (C20) and tags (C14) *)

Theorem ht_cap_pow2 L0 t a : ht_inv L0 t a ->
  exists p, p <= 31 /\ ht_cap t = 2 ^ p /\ lenN (ht_buckets t) = ht_cap t /\ ht_thr t = lf_mul (ht_cap t) (ht_num t) (ht_den t).
Proof.
  intros [Hw _]. destruct (wf_pow _ _ t Hw) as (p & Hp & E). exists p.
  split; [assumption|]. split; [assumption|]. split; [apply (wf_len _ _ t Hw)|apply (wf_thr _ _ t Hw)].
Qed.

Theorem ht_step_load L0 t a o out t' a' :
  ht_inv L0 t a -> load_ok t -> ht_step t o a = Ok (out, t', a') -> load_ok t'.
Proof.
  intros Hi Hlo E. destruct o as [k v|k|k|k| | | | | | |rm]; cbn [HashModel.ht_step] in E.
  - destruct (HashModel.ht_add hash keq t k v a) as [[[st t1] a1]|] eqn:Ea; cbn [bind] in E; [|discriminate].
    inversion E; subst. eapply (HP ht_add_load); eassumption.
  - destruct (HashModel.ht_get hash keq t k) as [[st v]|]; cbn [bind] in E; inversion E; subst; assumption.
  - destruct (HashModel.ht_contains_key hash keq t k) as [b|]; cbn [bind] in E; inversion E; subst; assumption.
  - destruct (HP ht_remove_spec L0 t a k Hi) as (st & v & t1 & a1 & E1 & _ & _ & Ht & _ & _ & _ & _ & _ & Hcase).
    rewrite E1 in E. cbn [bind] in E. inversion E; subst. unfold load_ok in *. rewrite Ht.
    destruct (m_del (ht_abs t) k) as [[x m']|]; [destruct Hcase as (_ & _ & _ & Hsz & _); lia|].
    destruct Hcase as (_ & _ & -> & _). assumption.
  - destruct (HP ht_remove_all_spec L0 t a Hi) as (t1 & a1 & E1 & _ & _ & Hsz & _ & Ht & _).
    rewrite E1 in E. cbn [bind] in E. inversion E; subst. unfold load_ok in *. rewrite Ht, Hsz. lia.
  - inversion E; subst. assumption.
  - destruct (HP collect_step_spec e_key L0 t a Hi) as (o1 & a1 & E1 & _). rewrite E1 in E. inversion E; subst. assumption.
  - destruct (HP collect_step_spec e_val L0 t a Hi) as (o1 & a1 & E1 & _). rewrite E1 in E. inversion E; subst. assumption.
  - destruct (ht_foreach e_key t); cbn [bind] in E; inversion E; subst; assumption.
  - destruct (ht_foreach e_val t); cbn [bind] in E; inversion E; subst; assumption.
  - destruct (HP ht_iter_all_spec L0 t a rm Hi) as (t1 & a1 & E1 & _ & _ & _ & Ht & _ & _ & _ & _ & _ & Hsz).
    rewrite E1 in E. cbn [bind] in E. inversion E; subst. unfold load_ok in *. rewrite Ht. lia.
Qed.

Theorem ht_run_load L0 ops : forall t a outs t' a',
  ht_inv L0 t a -> load_ok t -> ht_run t ops a = Ok (outs, t', a') -> load_ok t'.
Proof.
  induction ops as [|o ops IH]; intros t a outs t' a' Hi Hlo E; cbn [HashModel.ht_run] in E.
  - inversion E; subst. assumption.
  - destruct (ht_step_refines L0 t a o Hi) as (out & t1 & a1 & E1 & Hi1 & _).
    rewrite E1 in E. cbn [bind] in E.
    destruct (HashModel.ht_run hash keq t1 ops a1) as [[[outs2 t2] a2]|] eqn:E2; cbn [bind] in E; [|discriminate].
    inversion E; subst. eapply IH; [exact Hi1| |exact E2]. exact (ht_step_load L0 t a o out t1 a1 Hi Hlo E1).
Qed.

Theorem ht_tags L0 t a : ht_inv L0 t a -> forall b, In b (live a) -> In b L0 \/ b_tag b = ht_mem t.
Proof. intros [_ Ho]. apply (own_tags _ _ _ _ Ho). Qed.

(* ------------------------------------------------------------------------------------------ *)
(** * Corollaries under the names the cross-cutting properties use *)

(** C06: no history faults; destroy releases exactly the table's blocks. *)
Theorem ht_run_no_fault L0 ops t a : ht_inv L0 t a -> forall f, ht_run t ops a <> Fault f.
Proof. intros Hi f. destruct (ht_run_refines L0 ops t a (ht_abs t) Hi (Permutation_refl _)) as (? & ? & ? & -> & _). discriminate. Qed.
Theorem ht_destroy_balanced L0 t a : ht_inv L0 t a -> exists a', ht_destroy t a = Ok a' /\ live a' = L0.
Proof. intros Hi. destruct (HP ht_destroy_spec L0 t a Hi) as (a' & E & Hl & _). eauto. Qed.

(** C08 / C15: get_keys and get_values. A refused request leaves the ledger literally as it was (the table is
    not an output of the function: it cannot change); on success the array holds the keys / values of all
    entries in bucket order, i.e. a permutation of the ideal map's, in [max 1 size] slots, in two fresh
    blocks carrying the table's allocator tag. *)
Theorem ht_collect_alloc_atomic f L0 t a st a' :
  ht_inv L0 t a -> ht_collect f t a = Ok (st, None, a') -> live a' = live a /\ ht_inv L0 t a' /\ st <> CC_OK.
Proof.
  intros Hi E. destruct (HP ht_collect_spec f L0 t a Hi) as (st0 & oar & a0 & E0 & _ & _ & Hcase).
  rewrite E in E0. inversion E0; subst. destruct Hcase as (Hst & Ho & Hl & _).
  split; [assumption|]. split; [split; [apply Hi|assumption]|]. destruct Hst as [->|(-> & _)]; discriminate.
Qed.
Theorem ht_collect_content f L0 t a st ar a' :
  ht_inv L0 t a -> ht_collect f t a = Ok (st, Some ar, a') ->
  st = CC_OK /\ ar_items ar = map f (entries t) /\ lenN (ar_items ar) = ht_size t /\
  ar_cap ar = (if 0 <? ht_size t then ht_size t else 1) /\ lenN (ar_items ar) <= ar_cap ar /\
  own (ht_mem t) (ar_buf ar :: ar_hdr ar :: ids t) a' L0.
Proof.
  intros Hi E. destruct (HP ht_collect_spec f L0 t a Hi) as (st0 & oar & a0 & E0 & _ & _ & Hcase).
  rewrite E in E0. inversion E0; subst. destruct Hcase as (-> & Hitems & Hcap & Ho & _).
  assert (Hlen : lenN (ar_items ar) = ht_size t).
  { rewrite Hitems. unfold lenN. rewrite map_length. symmetry. apply (wf_size _ _ t (proj1 Hi)). }
  split; [reflexivity|]. split; [assumption|]. split; [assumption|]. split; [assumption|]. split; [|assumption].
  rewrite Hlen, Hcap. destruct (0 <? ht_size t) eqn:E1; lia.
Qed.

End HashProofsE.
Unset Default Proof Using.

(** With capacity * load_factor < 1 the bound fails for a while (D38): capacity 1, load factor 1/4. *)
Theorem ht_load_refuted :
  exists t a out t' a', ht_new Conf 1 1 4 0 (alloc_init [] (2 ^ 40)) = Ok (CC_OK, Some t, a) /\
    ht_step (fun k => k) N.eqb t (HAdd 5 50) a = Ok (out, t', a') /\ o_st out = CC_OK /\ ht_thr t' < ht_size t'.
Proof. vm_compute. do 5 eexists. repeat split. Qed.
