(** Hash table proofs, part A: container-independent lemmas.
    - list surgery for [getN]/[updN] on a list of chains,
    - masks with a power of two, and [round_pow_two] yields a power of two,
    - the ownership predicate tying a set of ledger ids to the allocation state,
    - the ideal association map: first-match lemmas and invariance under permutation. *)
From Coq Require Import Permutation.
From CC Require Import Base.Prelude Base.ListMem Base.Alloc Base.AllocProofs.
From CC Require Import Generated.Status Generated.Constants Generated.Guards Hash.HashModel.
Local Open Scope N_scope.

(* ------------------------------------------------------------------------------------------ *)
(** * Lists of chains *)

Section Split.
Context {A : Type}.
Implicit Types (l : list A) (x : A).

Lemma getN_split l i x : getN l i = Some x -> exists l1 l2, l = l1 ++ x :: l2 /\ lenN l1 = i.
Proof.
  unfold getN, lenN. intros H. apply nth_error_split in H. destruct H as (l1 & l2 & -> & Hl).
  exists l1, l2. split; [reflexivity|lia].
Qed.
Lemma getN_mid l1 x l2 : getN (l1 ++ x :: l2) (lenN l1) = Some x.
Proof.
  unfold getN, lenN. rewrite Nat2N.id. rewrite nth_error_app2 by lia.
  replace (length l1 - length l1)%nat with O by lia. reflexivity.
Qed.
Lemma upd_nat_mid l1 x l2 y : upd_nat (l1 ++ x :: l2) (length l1) y = Some (l1 ++ y :: l2).
Proof. induction l1 as [|h t IH]; cbn; [reflexivity|]. rewrite IH. reflexivity. Qed.
Lemma updN_mid l1 x l2 y : updN (l1 ++ x :: l2) (lenN l1) y = Some (l1 ++ y :: l2).
Proof. unfold updN, lenN. rewrite Nat2N.id. apply upd_nat_mid. Qed.
Lemma getN_In l i x : getN l i = Some x -> In x l.
Proof. unfold getN. apply nth_error_In. Qed.
Lemma In_getN l x : In x l -> exists i, i < lenN l /\ getN l i = Some x.
Proof.
  intros H. apply In_nth_error in H. destruct H as [n Hn]. exists (N.of_nat n). split.
  - unfold lenN. assert (n < length l)%nat by (apply nth_error_Some; congruence). lia.
  - unfold getN. rewrite Nat2N.id. exact Hn.
Qed.
Lemma firstnN_all l n : lenN l <= n -> firstnN n l = l.
Proof. unfold firstnN, lenN. intros. apply firstn_all2. lia. Qed.
Lemma skipnN_all l n : lenN l <= n -> skipnN n l = [].
Proof. unfold skipnN, lenN. intros. apply skipn_all2. lia. Qed.
Lemma skipnN_mid l1 x l2 : skipnN (lenN l1 + 1) (l1 ++ x :: l2) = l2.
Proof.
  unfold skipnN, lenN. replace (N.to_nat (N.of_nat (length l1) + 1)) with (length l1 + 1)%nat by lia.
  rewrite skipn_app. rewrite skipn_all2 by lia. replace (length l1 + 1 - length l1)%nat with 1%nat by lia. reflexivity.
Qed.
End Split.

Lemma concat_mid {A} (l1 : list (list A)) c l2 : concat (l1 ++ c :: l2) = concat l1 ++ c ++ concat l2.
Proof. rewrite concat_app. reflexivity. Qed.

Lemma in_concat_getN {A} (bs : list (list A)) (e : A) :
  In e (concat bs) -> exists j c, j < lenN bs /\ getN bs j = Some c /\ In e c.
Proof.
  intros H. apply in_concat in H. destruct H as (c & Hc & He).
  apply In_getN in Hc. destruct Hc as (j & Hj & Hg). eauto.
Qed.

(** A property that pins every element to the index of its chain separates the chains. *)
Lemma placement_split {A} (P : A -> N) (B1 : list (list A)) c0 B2 :
  (forall j c e, getN (B1 ++ c0 :: B2) j = Some c -> In e c -> P e = j) ->
  (forall e, In e (concat B1) -> P e <> lenN B1) /\ (forall e, In e c0 -> P e = lenN B1) /\
  (forall e, In e (concat B2) -> P e <> lenN B1).
Proof.
  intros H. split; [|split].
  - intros e He. apply in_concat_getN in He. destruct He as (j & c & Hj & Hg & Hin).
    rewrite (H j c e); [lia| |assumption]. rewrite getN_app1 by assumption. assumption.
  - intros e He. apply (H (lenN B1) c0 e); [apply getN_mid|assumption].
  - intros e He. apply in_concat_getN in He. destruct He as (j & c & Hj & Hg & Hin).
    rewrite (H (lenN B1 + 1 + j) c e); [lia| |assumption].
    rewrite getN_app2 by lia. replace (lenN B1 + 1 + j - lenN B1) with (j + 1) by lia.
    unfold getN in *. replace (N.to_nat (j + 1)) with (S (N.to_nat j)) by lia. cbn. assumption.
Qed.

Lemma Permutation_filter {A} (f : A -> bool) (l1 l2 : list A) :
  Permutation l1 l2 -> Permutation (filter f l1) (filter f l2).
Proof.
  induction 1; cbn.
  - constructor.
  - destruct (f x); [constructor|]; assumption.
  - destruct (f x), (f y); try apply Permutation_refl; apply perm_swap.
  - eapply Permutation_trans; eassumption.
Qed.

(* ------------------------------------------------------------------------------------------ *)
(** * Powers of two, masks, round_pow_two *)

Lemma pow2_pos p : 0 < 2 ^ p.
Proof. apply N.neq_0_lt_0, N.pow_nonzero. lia. Qed.
Lemma pow2_le_W p : p <= 31 -> 2 ^ p <= 2147483648.
Proof. intros H. change 2147483648 with (2 ^ 31). apply N.pow_le_mono_r; lia. Qed.
Lemma MAX_POW_TWO_eq : MAX_POW_TWO = 2 ^ 31.
Proof. reflexivity. Qed.

Lemma wsub1 a : 0 < a -> a < W -> wsub a 1 = a - 1.
Proof.
  intros H0 HW. unfold wsub. change (1 mod W) with 1.
  replace (a + W - 1) with ((a - 1) + 1 * W) by lia.
  rewrite N.mod_add by (unfold W; lia). apply N.mod_small. lia.
Qed.
Lemma land_mask h p : N.land h (2 ^ p - 1) = h mod 2 ^ p.
Proof. rewrite <- N.land_ones. f_equal. rewrite N.ones_equiv. lia. Qed.
Lemma land_mask_lt h p : N.land h (2 ^ p - 1) < 2 ^ p.
Proof. rewrite land_mask. apply N.mod_lt. pose proof (pow2_pos p). lia. Qed.
Lemma shl1_pow2 p : p <= 30 -> (N.shiftl (2 ^ p) 1) mod W = 2 ^ (p + 1).
Proof.
  intros Hp. rewrite N.shiftl_mul_pow2. change (2 ^ 1) with 2. rewrite N.pow_add_r. change (2 ^ 1) with 2.
  apply N.mod_small. assert (2 ^ p <= 2 ^ 30) by (apply N.pow_le_mono_r; lia).
  change (2 ^ 30) with 1073741824 in H. unfold W. lia.
Qed.

(** One smear step widens a solid block of ones below the top bit. *)
Definition solid (x t w : N) : Prop :=
  (forall i, t < i -> N.testbit x i = false) /\ (forall i, t - (w - 1) <= i <= t -> N.testbit x i = true).

Lemma smear_step x t w k : 0 < w -> k <= w -> solid x t w -> solid (N.lor x (N.shiftr x k)) t (w + k).
Proof.
  intros Hw Hk [Hhi Hlo]. split; intros i Hi; rewrite N.lor_spec, N.shiftr_spec by lia.
  - rewrite !Hhi by lia. reflexivity.
  - destruct (N.le_gt_cases (t - (w - 1)) i) as [Hge|Hlt].
    + rewrite (Hlo i) by lia. reflexivity.
    + rewrite (Hlo (i + k)) by lia. apply orb_true_r.
Qed.

Lemma solid_full x t w : t + 1 <= w -> solid x t w -> x = N.ones (t + 1).
Proof.
  intros Hw [Hhi Hlo]. apply N.bits_inj. intros i.
  destruct (N.lt_ge_cases i (t + 1)) as [Hi|Hi].
  - rewrite N.ones_spec_low by lia. apply Hlo. lia.
  - rewrite N.ones_spec_high by lia. apply Hhi. lia.
Qed.

Lemma smear_ones x : 0 < x -> x < 2 ^ 32 -> smear x = N.ones (N.log2 x + 1).
Proof.
  intros H0 H32. set (t := N.log2 x).
  assert (Ht : t < 32) by (apply N.log2_lt_pow2; assumption).
  assert (S1 : solid x t 1).
  { split; intros i Hi.
    - apply N.bits_above_log2. exact Hi.
    - replace i with t by lia. apply N.bit_log2. lia. }
  apply (smear_step _ _ _ 1) in S1; [|lia|lia].
  apply (smear_step _ _ _ 2) in S1; [|lia|lia].
  apply (smear_step _ _ _ 4) in S1; [|lia|lia].
  apply (smear_step _ _ _ 8) in S1; [|lia|lia].
  apply (smear_step _ _ _ 16) in S1; [|lia|lia].
  unfold smear. apply (solid_full _ t (1 + 1 + 2 + 4 + 8 + 16)); [lia|exact S1].
Qed.

Theorem round_pow_two_pow n : exists p, p <= 31 /\ round_pow_two n = 2 ^ p.
Proof.
  unfold round_pow_two, g_ht_rpt_max, g_ht_rpt_zero.
  destruct (MAX_POW_TWO <=? n) eqn:E1; [exists 31; split; [lia|reflexivity]|].
  destruct (n =? 0) eqn:E2; [exists 0; split; [lia|reflexivity]|].
  assert (Hn : 0 < n < 2 ^ 31) by (rewrite <- MAX_POW_TWO_eq; lia).
  assert (H31 : 2 ^ 31 = 2147483648) by reflexivity.
  rewrite wsub1 by (unfold W; lia).
  destruct (N.eq_dec n 1) as [->|Hn1]; [exists 0; split; [lia|reflexivity]|].
  assert (Hx : 0 < n - 1) by lia.
  rewrite smear_ones; [|lia|change (2 ^ 32) with 4294967296; lia].
  assert (Hl : N.log2 (n - 1) < 31) by (apply N.log2_lt_pow2; lia).
  exists (N.log2 (n - 1) + 1). split; [lia|].
  rewrite N.ones_equiv. unfold wadd.
  pose proof (pow2_pos (N.log2 (n - 1) + 1)).
  replace (N.pred (2 ^ (N.log2 (n - 1) + 1)) + 1) with (2 ^ (N.log2 (n - 1) + 1)) by lia.
  apply N.mod_small. pose proof (pow2_le_W (N.log2 (n - 1) + 1)). unfold W. lia.
Qed.

(** The result is not below the request (as far as MAX_POW_TWO allows). *)
Lemma round_pow_two_ge n : n <= MAX_POW_TWO -> n <= round_pow_two n.
Proof.
  intros Hm. unfold round_pow_two, g_ht_rpt_max, g_ht_rpt_zero.
  destruct (MAX_POW_TWO <=? n) eqn:E1; [lia|].
  destruct (n =? 0) eqn:E2; [lia|].
  assert (Hn : 0 < n < 2 ^ 31) by (rewrite <- MAX_POW_TWO_eq; lia).
  assert (H31 : 2 ^ 31 = 2147483648) by reflexivity.
  rewrite wsub1 by (unfold W; lia).
  destruct (N.eq_dec n 1) as [->|Hn1]; [vm_compute; discriminate|].
  rewrite smear_ones; [|lia|change (2 ^ 32) with 4294967296; lia].
  assert (Hl : N.log2 (n - 1) < 31) by (apply N.log2_lt_pow2; lia).
  rewrite N.ones_equiv. unfold wadd.
  pose proof (pow2_pos (N.log2 (n - 1) + 1)).
  replace (N.pred (2 ^ (N.log2 (n - 1) + 1)) + 1) with (2 ^ (N.log2 (n - 1) + 1)) by lia.
  pose proof (pow2_le_W (N.log2 (n - 1) + 1)).
  rewrite N.mod_small by (unfold W; lia).
  assert (n - 1 < 2 ^ (N.log2 (n - 1) + 1)); [|lia].
  replace (N.log2 (n - 1) + 1) with (N.succ (N.log2 (n - 1))) by lia.
  apply N.log2_spec. lia.
Qed.

(* ------------------------------------------------------------------------------------------ *)
(** * Ownership of ledger blocks *)

Definition owned (mem : tag) (a : alloc_st) (id : N) : Prop :=
  exists n, In {| b_id := id; b_tag := mem; b_bytes := n |} (live a).
Definition notin (ids : list N) (b : block) : bool := negb (existsb (N.eqb (b_id b)) ids).

(** [own mem ids a L0]: the blocks [ids] are distinct, live, tagged [mem]; every other live block
    is in [L0] (the ledger of the rest of the program), in order. *)
Record own (mem : tag) (ids : list N) (a : alloc_st) (L0 : list block) : Prop := {
  own_ledger : ledger_ok a;
  own_next : 0 < next_id a;
  own_nodup : NoDup ids;
  own_live : forall id, In id ids -> owned mem a id;
  own_frame : filter (notin ids) (live a) = L0;
}.

Lemma existsb_eqb_In ids x : existsb (N.eqb x) ids = true <-> In x ids.
Proof.
  rewrite existsb_exists. split.
  - intros (y & Hy & E). apply N.eqb_eq in E. subst. assumption.
  - intros H. exists x. split; [assumption|apply N.eqb_refl].
Qed.
Lemma notin_ext ids ids' b : (forall x, In x ids <-> In x ids') -> notin ids b = notin ids' b.
Proof.
  intros H. unfold notin. f_equal.
  destruct (existsb (N.eqb (b_id b)) ids) eqn:E1, (existsb (N.eqb (b_id b)) ids') eqn:E2; try reflexivity.
  - apply existsb_eqb_In, H, existsb_eqb_In in E1. congruence.
  - apply existsb_eqb_In, H, existsb_eqb_In in E2. congruence.
Qed.

Lemma own_perm mem ids ids' a L0 : Permutation ids ids' -> own mem ids a L0 -> own mem ids' a L0.
Proof.
  intros P [H1 H2 H3 H4 H5]. constructor; try assumption.
  - eapply Permutation_NoDup; eassumption.
  - intros id Hid. apply H4. eapply Permutation_in; [apply Permutation_sym|]; eassumption.
  - rewrite <- H5. apply filter_ext. intros b. apply notin_ext. intros x.
    split; apply Permutation_in; [apply Permutation_sym|]; assumption.
Qed.

Lemma own_fresh mem ids a L0 : own mem ids a L0 -> ~ In (next_id a) ids.
Proof.
  intros [[_ Hlt] _ _ Hl _] Hin. destruct (Hl _ Hin) as [n Hn]. apply Hlt in Hn. cbn in Hn. lia.
Qed.

Lemma own_alloc_some mem ids a L0 n id a' :
  own mem ids a L0 -> alloc mem n a = (Some id, a') ->
  own mem (id :: ids) a' L0 /\ ~ In id ids /\ 0 < id /\ plan a' = tl (plan a) /\ limit a' = limit a.
Proof.
  intros Ho E. pose proof (own_fresh _ _ _ _ Ho) as Hf. destruct Ho as [H1 H2 H3 H4 H5].
  pose proof (alloc_cases mem n a) as C. rewrite E in C. destruct C as (-> & Hl & Hn & Hlim & _ & Hp).
  destruct (alloc_ledger_ok _ _ _ _ _ H1 H2 E) as [H1' H2'].
  split; [|auto].
  constructor; try assumption.
  - constructor; assumption.
  - intros x [<-|Hx].
    + exists n. rewrite Hl. left. reflexivity.
    + destruct (H4 x Hx) as [m Hm]. exists m. rewrite Hl. right. assumption.
  - rewrite Hl. cbn [filter]. unfold notin at 1. cbn [b_id existsb]. rewrite N.eqb_refl. cbn [orb negb].
    rewrite <- H5. apply filter_ext_in. intros b Hb. unfold notin. cbn [existsb].
    destruct H1 as [_ Hlt]. apply Hlt in Hb. replace (b_id b =? next_id a) with false by lia. reflexivity.
Qed.

Lemma own_alloc_none mem ids a L0 n a' :
  own mem ids a L0 -> alloc mem n a = (None, a') -> own mem ids a' L0 /\ plan a' = tl (plan a) /\ limit a' = limit a /\ live a' = live a.
Proof.
  intros [H1 H2 H3 H4 H5] E.
  pose proof (alloc_cases mem n a) as C. rewrite E in C. destruct C as (Hl & Hn & Hlim & _ & Hp).
  destruct (alloc_ledger_ok _ _ _ _ _ H1 H2 E) as [H1' H2'].
  split; [|auto]. constructor; try assumption.
  - intros x Hx. destruct (H4 x Hx) as [m Hm]. exists m. rewrite Hl. assumption.
  - rewrite Hl. assumption.
Qed.

Lemma remove_block_unique l b :
  NoDup (map b_id l) -> In b l -> exists l1 l2, l = l1 ++ b :: l2 /\ remove_block (b_id b) l = Some (b, l1 ++ l2) /\
    (forall x, In x (l1 ++ l2) -> b_id x <> b_id b).
Proof.
  induction l as [|x l IH]; intros Hnd Hin; [destruct Hin|].
  cbn [map] in Hnd. inversion Hnd as [|? ? Hx Hnd']; subst.
  destruct Hin as [->|Hin].
  - exists [], l. cbn. rewrite N.eqb_refl. split; [reflexivity|]. split; [reflexivity|].
    intros y Hy E. apply Hx. rewrite <- E. apply in_map. assumption.
  - destruct (IH Hnd' Hin) as (l1 & l2 & -> & Hr & Hne).
    assert (Hxb : b_id x <> b_id b).
    { intros E. apply Hx. rewrite E. apply in_map. apply in_elt. }
    exists (x :: l1), l2. cbn. replace (b_id x =? b_id b) with false by lia. rewrite Hr.
    split; [reflexivity|]. split; [reflexivity|]. intros y [<-|Hy]; auto.
Qed.

Lemma own_release mem id ids a L0 :
  own mem (id :: ids) a L0 ->
  exists a', release mem id a = Ok a' /\ own mem ids a' L0 /\ plan a' = plan a /\ limit a' = limit a /\ nreq a' = nreq a.
Proof.
  intros [[Hnd Hlt] H2 H3 H4 H5].
  destruct (H4 id (or_introl eq_refl)) as [n Hn].
  destruct (remove_block_unique _ _ Hnd Hn) as (l1 & l2 & El & Hr & Hne). cbn [b_id] in Hr, Hne.
  unfold release. rewrite Hr. cbn [b_tag]. rewrite tag_eqb_refl.
  eexists. split; [reflexivity|]. split; [|cbn; auto].
  apply NoDup_cons_iff in H3. destruct H3 as [Hid Hnd'].
  constructor; unfold ledger_ok; cbn [live next_id]; try assumption.
  - split.
    + rewrite El in Hnd. rewrite map_app in *. cbn [map] in Hnd. apply NoDup_remove_1 in Hnd. assumption.
    + intros b Hb. apply Hlt. rewrite El. apply in_app_iff in Hb. apply in_app_iff. cbn. tauto.
  - intros x Hx. destruct (H4 x (or_intror Hx)) as [m Hm]. exists m.
    rewrite El in Hm. apply in_app_iff in Hm. apply in_app_iff.
    destruct Hm as [Hm|[Hm|Hm]]; [tauto| |tauto].
    inversion Hm; subst. contradiction.
  - rewrite <- H5, El. rewrite !filter_app. cbn [filter].
    unfold notin at 4. cbn [b_id existsb]. rewrite N.eqb_refl. cbn [orb negb].
    f_equal; apply filter_ext_in; intros b Hb; unfold notin; cbn [existsb];
      (assert (Hb' : b_id b <> id) by (apply Hne; apply in_app_iff; tauto));
      replace (b_id b =? id) with false by lia; reflexivity.
Qed.

(** Releasing a list of owned blocks, one after the other. *)
Lemma own_release_all mem (l : list N) : forall ids a L0,
  own mem (l ++ ids) a L0 ->
  exists a', fold_left (fun r id => do x <- r; release mem id x) l (Ok a) = Ok a' /\ own mem ids a' L0 /\
             plan a' = plan a /\ limit a' = limit a /\ nreq a' = nreq a.
Proof.
  induction l as [|id l IH]; intros ids a L0 Ho; cbn [fold_left app] in *.
  - exists a. auto.
  - destruct (own_release _ _ _ _ _ Ho) as (a1 & E1 & Ho1 & Hp1 & Hl1 & Hn1).
    cbn [bind]. rewrite E1. destruct (IH _ _ _ Ho1) as (a2 & E2 & Ho2 & Hp2 & Hl2 & Hn2).
    exists a2. split; [assumption|]. split; [assumption|]. split; [congruence|]. split; congruence.
Qed.

(* ------------------------------------------------------------------------------------------ *)
(** * The ideal association map *)

Section Spec.
Variable keq : N -> N -> bool.
Hypothesis keq_refl : forall a, a <> 0 -> keq a a = true.
Hypothesis keq_sym : forall a b, a <> 0 -> b <> 0 -> keq a b = keq b a.
Hypothesis keq_trans : forall a b c, a <> 0 -> b <> 0 -> c <> 0 -> keq a b = true -> keq b c = true -> keq a c = true.

Local Notation keqn := (keqn keq).
Local Notation m_get := (m_get keq).
Local Notation m_set := (m_set keq).
Local Notation m_del := (m_del keq).
Local Notation m_add := (m_add keq).
(** Every lemma of this section takes the comparator and its three hypotheses, used or not. *)
Set Default Proof Using "keq_refl keq_sym keq_trans".

Lemma keqn_refl a : keqn a a = true.
Proof. unfold HashModel.keqn. destruct (a =? 0) eqn:E; [reflexivity|]. apply keq_refl. lia. Qed.
Lemma keqn_sym a b : keqn a b = keqn b a.
Proof.
  unfold HashModel.keqn. destruct (a =? 0) eqn:Ea, (b =? 0) eqn:Eb; try reflexivity.
  apply keq_sym; lia.
Qed.
Lemma keqn_trans a b c : keqn a b = true -> keqn b c = true -> keqn a c = true.
Proof.
  unfold HashModel.keqn. destruct (a =? 0) eqn:Ea, (b =? 0) eqn:Eb, (c =? 0) eqn:Ec; try congruence.
  apply keq_trans; lia.
Qed.
Lemma keqn_false_l a b c : keqn a b = true -> keqn a c = false -> keqn b c = false.
Proof.
  intros H1 H2. destruct (keqn b c) eqn:E; [|reflexivity].
  rewrite (keqn_trans _ _ _ H1 E) in H2. discriminate.
Qed.
Lemma keqn_0_l b : keqn 0 b = (b =? 0). Proof. reflexivity. Qed.
Lemma keqn_0_r a : keqn a 0 = (a =? 0).
Proof. rewrite keqn_sym. reflexivity. Qed.

(** Keys pairwise different up to [keqn]. *)
Fixpoint nodup_k (ks : list N) : Prop :=
  match ks with
  | [] => True
  | k :: r => (forall x, In x r -> keqn k x = false) /\ nodup_k r
  end.
Definition nodup_keys (m : amap) : Prop := nodup_k (map fst m).

Lemma nodup_k_perm l1 l2 : Permutation l1 l2 -> nodup_k l1 -> nodup_k l2.
Proof.
  induction 1; cbn [nodup_k]; intros Hnd.
  - exact I.
  - destruct Hnd as [Ha Hb]. split; [|auto]. intros y Hy. apply Ha. eapply Permutation_in; [apply Permutation_sym|]; eassumption.
  - destruct Hnd as (Hy & Hx & Hl). split; [|split; [|assumption]].
    + intros z [<-|Hz]; [rewrite keqn_sym; apply Hy; left; reflexivity|apply Hx; assumption].
    + intros z Hz. apply Hy. right. assumption.
  - auto.
Qed.
Lemma nodup_k_app l1 l2 :
  nodup_k (l1 ++ l2) <-> nodup_k l1 /\ nodup_k l2 /\ (forall x y, In x l1 -> In y l2 -> keqn x y = false).
Proof.
  induction l1 as [|a l1 IH]; cbn [app nodup_k].
  - split; [intros H; split; [exact I|split; [assumption|intros ? ? []]]|tauto].
  - rewrite IH. split.
    + intros (Ha & H1 & H2 & H3). split; [split; [|assumption]|split; [assumption|]].
      * intros x Hx. apply Ha. apply in_app_iff. tauto.
      * intros x y [<-|Hx] Hy; [apply Ha; apply in_app_iff; tauto|auto].
    + intros ((Ha & H1) & H2 & H3). split; [|split; [assumption|split; [assumption|]]].
      * intros x Hx. apply in_app_iff in Hx. destruct Hx; [auto|apply H3; [left; reflexivity|assumption]].
      * intros x y Hx Hy. apply H3; [right|]; assumption.
Qed.
Lemma nodup_k_mid l1 a l2 :
  nodup_k (l1 ++ a :: l2) <-> nodup_k (l1 ++ l2) /\ (forall x, In x (l1 ++ l2) -> keqn a x = false).
Proof.
  split.
  - intros H. apply (nodup_k_perm _ (a :: l1 ++ l2)) in H; [|apply Permutation_sym, Permutation_middle].
    destruct H; auto.
  - intros [H1 H2]. apply (nodup_k_perm (a :: l1 ++ l2)); [apply Permutation_middle|]. split; assumption.
Qed.

(** First-match lemmas. *)
Definition nomatch (k : N) (m : amap) : Prop := forall kv, In kv m -> keqn (fst kv) k = false.

Lemma nomatch_cons k a b l : nomatch k ((a, b) :: l) -> keqn a k = false /\ nomatch k l.
Proof.
  intros H. split; [apply (H (a, b)); left; reflexivity|]. intros kv Hkv. apply H. right. assumption.
Qed.

Lemma m_get_split l1 k' v l2 k : nomatch k l1 -> keqn k' k = true -> m_get (l1 ++ (k', v) :: l2) k = Some v.
Proof.
  induction l1 as [|[a b] l1 IH]; intros Hn Hk; cbn [app HashModel.m_get].
  - rewrite Hk. reflexivity.
  - apply nomatch_cons in Hn. destruct Hn as [Ha Hn]. rewrite Ha. apply IH; assumption.
Qed.
Lemma m_get_none m k : nomatch k m -> m_get m k = None.
Proof.
  induction m as [|[a b] m IH]; intros Hn; cbn [HashModel.m_get]; [reflexivity|].
  apply nomatch_cons in Hn. destruct Hn as [Ha Hn]. rewrite Ha. apply IH; assumption.
Qed.
Lemma m_set_split l1 k' v0 l2 k v : nomatch k l1 -> keqn k' k = true ->
  m_set (l1 ++ (k', v0) :: l2) k v = Some (l1 ++ (k', v) :: l2).
Proof.
  induction l1 as [|[a b] l1 IH]; intros Hn Hk; cbn [app HashModel.m_set].
  - rewrite Hk. reflexivity.
  - apply nomatch_cons in Hn. destruct Hn as [Ha Hn]. rewrite Ha. rewrite IH; [reflexivity|assumption|assumption].
Qed.
Lemma m_set_none m k v : nomatch k m -> m_set m k v = None.
Proof.
  induction m as [|[a b] m IH]; intros Hn; cbn [HashModel.m_set]; [reflexivity|].
  apply nomatch_cons in Hn. destruct Hn as [Ha Hn]. rewrite Ha. rewrite IH; [reflexivity|assumption].
Qed.
Lemma m_del_split l1 k' v0 l2 k : nomatch k l1 -> keqn k' k = true ->
  m_del (l1 ++ (k', v0) :: l2) k = Some (v0, l1 ++ l2).
Proof.
  induction l1 as [|[a b] l1 IH]; intros Hn Hk; cbn [app HashModel.m_del].
  - rewrite Hk. reflexivity.
  - apply nomatch_cons in Hn. destruct Hn as [Ha Hn]. rewrite Ha. rewrite IH; [reflexivity|assumption|assumption].
Qed.
Lemma m_del_none m k : nomatch k m -> m_del m k = None.
Proof.
  induction m as [|[a b] m IH]; intros Hn; cbn [HashModel.m_del]; [reflexivity|].
  apply nomatch_cons in Hn. destruct Hn as [Ha Hn]. rewrite Ha. rewrite IH; [reflexivity|assumption].
Qed.

(** Every map either has a first binding matching [k] or none at all. *)
Lemma match_cases (m : amap) k :
  nomatch k m \/ exists l1 k' v l2, m = l1 ++ (k', v) :: l2 /\ nomatch k l1 /\ keqn k' k = true.
Proof.
  induction m as [|[a b] m IH].
  - left. intros ? [].
  - destruct (keqn a k) eqn:E.
    + right. exists [], a, b, m. split; [reflexivity|]. split; [intros ? []|assumption].
    + destruct IH as [Hn|(l1 & k' & v & l2 & -> & Hn & Hk)].
      * left. intros kv [<-|H]; [assumption|auto].
      * right. exists ((a, b) :: l1), k', v, l2. split; [reflexivity|]. split; [|assumption].
        intros kv [<-|H]; [assumption|auto].
Qed.

(** Under [nodup_keys] the binding of a key is unique, wherever it stands. *)
Lemma nodup_nomatch_rest l1 k' v l2 k :
  nodup_keys (l1 ++ (k', v) :: l2) -> keqn k' k = true -> nomatch k (l1 ++ l2).
Proof.
  unfold nodup_keys. rewrite map_app. cbn [map fst]. intros H Hk. apply nodup_k_mid in H. destruct H as [_ H].
  intros kv Hkv. rewrite <- map_app in H.
  assert (keqn k' (fst kv) = false) by (apply H; apply in_map; assumption).
  rewrite keqn_sym. exact (keqn_false_l _ _ _ Hk H0).
Qed.

Lemma nomatch_perm k m1 m2 : Permutation m1 m2 -> nomatch k m1 -> nomatch k m2.
Proof. intros P H kv Hkv. apply H. eapply Permutation_in; [apply Permutation_sym|]; eassumption. Qed.
Lemma nomatch_app k l1 l2 : nomatch k (l1 ++ l2) <-> nomatch k l1 /\ nomatch k l2.
Proof.
  unfold nomatch. split.
  - intros H. split; intros kv Hkv; apply H; apply in_app_iff; tauto.
  - intros [H1 H2] kv Hkv. apply in_app_iff in Hkv. destruct Hkv; auto.
Qed.

(** The same decomposition seen from a permuted copy. *)
Lemma perm_match (l1 : amap) (k' v : N) l2 m2 :
  Permutation (l1 ++ (k', v) :: l2) m2 -> exists r1 r2, m2 = r1 ++ (k', v) :: r2 /\ Permutation (l1 ++ l2) (r1 ++ r2).
Proof.
  intros P. assert (Hin : In (k', v) m2) by (eapply Permutation_in; [eassumption|apply in_elt]).
  apply in_split in Hin. destruct Hin as (r1 & r2 & ->). exists r1, r2. split; [reflexivity|].
  eapply Permutation_app_inv. eassumption.
Qed.

(** Outputs and results of the map operations do not depend on the order of the bindings. *)
Lemma m_get_perm m1 m2 k : nodup_keys m1 -> Permutation m1 m2 -> m_get m1 k = m_get m2 k.
Proof.
  intros Hnd P. destruct (match_cases m1 k) as [Hn|(l1 & k' & v & l2 & -> & Hn & Hk)].
  - rewrite !m_get_none; [reflexivity| |assumption]. eapply nomatch_perm; eassumption.
  - rewrite m_get_split by assumption.
    destruct (perm_match _ _ _ _ _ P) as (r1 & r2 & -> & P').
    pose proof (nodup_nomatch_rest _ _ _ _ _ Hnd Hk) as Hrest.
    apply (nomatch_perm _ _ _ P') in Hrest. apply nomatch_app in Hrest.
    rewrite m_get_split; tauto.
Qed.

Lemma m_add_perm m1 m2 k v : nodup_keys m1 -> Permutation m1 m2 -> Permutation (m_add m1 k v) (m_add m2 k v).
Proof.
  intros Hnd P. unfold HashModel.m_add. destruct (match_cases m1 k) as [Hn|(l1 & k' & v0 & l2 & -> & Hn & Hk)].
  - rewrite !m_set_none; [constructor; assumption| |assumption]. eapply nomatch_perm; eassumption.
  - rewrite m_set_split by assumption.
    destruct (perm_match _ _ _ _ _ P) as (r1 & r2 & -> & P').
    pose proof (nodup_nomatch_rest _ _ _ _ _ Hnd Hk) as Hrest.
    apply (nomatch_perm _ _ _ P') in Hrest. apply nomatch_app in Hrest.
    rewrite m_set_split by tauto.
    eapply Permutation_trans; [apply Permutation_sym, Permutation_middle|].
    eapply Permutation_trans; [|apply Permutation_middle]. constructor. assumption.
Qed.

Lemma m_del_perm m1 m2 k : nodup_keys m1 -> Permutation m1 m2 ->
  match m_del m1 k, m_del m2 k with
  | Some (v1, r1), Some (v2, r2) => v1 = v2 /\ Permutation r1 r2
  | None, None => True
  | _, _ => False
  end.
Proof.
  intros Hnd P. destruct (match_cases m1 k) as [Hn|(l1 & k' & v0 & l2 & -> & Hn & Hk)].
  - rewrite !m_del_none; [exact I| |assumption]. eapply nomatch_perm; eassumption.
  - rewrite m_del_split by assumption.
    destruct (perm_match _ _ _ _ _ P) as (r1 & r2 & -> & P').
    pose proof (nodup_nomatch_rest _ _ _ _ _ Hnd Hk) as Hrest.
    apply (nomatch_perm _ _ _ P') in Hrest. apply nomatch_app in Hrest.
    rewrite m_del_split by tauto. auto.
Qed.

End Spec.
