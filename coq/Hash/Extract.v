(** Extraction of the hashtable engine model. ExtrOcamlBasic only: bool, option, list, prod, unit,
    sumbool map to OCaml's; N / positive / nat stay Coq inductives. No Extract Constant.
    The hash function and the key comparator stay parameters of the extracted functions. *)
From Coq Require Import Extraction ExtrOcamlBasic.
From CC Require Import Base.Prelude Base.Alloc Generated.Status Generated.Constants Generated.Macros Generated.Guards.
From CC Require Import Hash.HashModel.
Extraction Language OCaml.
Extraction "model.ml"
  N.add N.mul N.sub N.div N.modulo N.eqb N.ltb N.leb N.of_nat N.to_nat N.land N.shiftl N.shiftr
  alloc_init alloc release count_tag is_live stat_code
  HASHTABLE_DEFAULT_CAPACITY HASHTABLE_DEFAULT_LOAD_FACTOR_num HASHTABLE_DEFAULT_LOAD_FACTOR_den DEFAULT_LOAD_FACTOR_num DEFAULT_LOAD_FACTOR_den MAX_POW_TWO
  ht_new ht_destroy ht_step ht_run spec_step ht_get ht_contains_key ht_iter_all ht_iter_init ht_iter_next ht_iter_remove
  hs_new hs_destroy hs_step spec_set_step keqn m_get set_mem round_pow_two.
