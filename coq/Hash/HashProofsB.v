(** Hash table proofs, part B: the invariant, the abstraction, and the refinement lemmas of
    get, contains_key, add (without the resize) and remove - for every hash function and comparator
    satisfying the section hypotheses. (Part A: generic lemmas; C: new_conf, resize, add, remove_all,
    destroy, load bound; D: enumerations and the iterator; E: steps, histories, cross-cutting corollaries;
    F: CC_HashSet.)

    Not proved / outside the model (nothing below is used as a premise of a stated theorem):
    - the library's concrete hash functions (djb2, MurmurHash3, pointer hash) and comparators: they are
      universally quantified; that they satisfy the two hypotheses is tied by the correspondence run only;
    - the [size] counter is not wrapped modulo 2^64 (see HashModel.v);
    - iterator programs that break the documented contract (iter_remove twice or before iter_next, table
      mutation other than iter_remove during a traversal): the model predicts a fault or stale cursor for
      them, no theorem is stated about them;
    - float rounding of capacity * load_factor beyond dyadic factors (T5). *)
From Coq Require Import Permutation.
From CC Require Import Base.Prelude Base.ListMem Base.Alloc Base.AllocProofs.
From CC Require Import Generated.Status Generated.Constants Generated.Guards Hash.HashModel Hash.HashProofsA.
Local Open Scope N_scope.

Definition entries (t : htable) : list entry := concat (ht_buckets t).
Definition kv (e : entry) : N * N := (e_key e, e_val e).
Definition ht_abs (t : htable) : amap := map kv (entries t).
Definition keys (t : htable) : list N := map e_key (entries t).
Definition ids (t : htable) : list N := ht_hdr t :: ht_blk t :: map e_id (entries t).
Definition bidx (cap : N) (e : entry) : N := N.land (e_hash e) (cap - 1).

(** Generic chain scan: the first entry satisfying [f], with what precedes and follows it. *)
Fixpoint split_first (f : entry -> bool) (c : list entry) : option (list entry * entry * list entry) :=
  match c with
  | [] => None
  | e :: r => if f e then Some ([], e, r)
              else match split_first f r with Some (p1, x, p2) => Some (e :: p1, x, p2) | None => None end
  end.
Lemma split_first_some f c p1 e p2 :
  split_first f c = Some (p1, e, p2) -> c = p1 ++ e :: p2 /\ f e = true /\ forall x, In x p1 -> f x = false.
Proof.
  revert p1; induction c as [|h c IH]; intros p1 H; cbn in H; [discriminate|].
  destruct (f h) eqn:E.
  - inversion H; subst. split; [reflexivity|]. split; [assumption|intros ? []].
  - destruct (split_first f c) as [[[q1 x] q2]|]; [|discriminate]. inversion H; subst.
    destruct (IH _ eq_refl) as (-> & Hf & Hn). split; [reflexivity|]. split; [assumption|].
    intros y [<-|Hy]; auto.
Qed.
Lemma split_first_none f c : split_first f c = None -> forall x, In x c -> f x = false.
Proof.
  induction c as [|h c IH]; intros H x Hx; [destruct Hx|]. cbn in H.
  destruct (f h) eqn:E; [discriminate|]. destruct (split_first f c) as [[[q1 y] q2]|]; [discriminate|].
  destruct Hx as [<-|Hx]; auto.
Qed.

Section HashProofs.
Variable hash : N -> N.
Variable keq : N -> N -> bool.
Hypothesis keq_refl : forall a, a <> 0 -> keq a a = true.
Hypothesis keq_sym : forall a b, a <> 0 -> b <> 0 -> keq a b = keq b a.
Hypothesis keq_trans : forall a b c, a <> 0 -> b <> 0 -> c <> 0 -> keq a b = true -> keq b c = true -> keq a c = true.
Hypothesis hash_compat : forall a b, a <> 0 -> b <> 0 -> keq a b = true -> hash a = hash b.

Local Notation keqn := (keqn keq).
Local Notation nodup_k := (nodup_k keq).
Local Notation nomatch := (nomatch keq).
Local Notation m_add := (m_add keq).
Local Notation m_get := (m_get keq).
Local Notation m_del := (m_del keq).

(** Every lemma of this section takes [hash], [keq] and the four hypotheses, used or not;
    [SP l] applies a lemma of HashProofsA's [Spec] section to the comparator and its hypotheses. *)
Set Default Proof Using "keq_refl keq_sym keq_trans hash_compat".
Local Notation SP l := (l keq keq_refl keq_sym keq_trans) (only parsing).

Definition khash (k : N) : N := if k =? 0 then 0 else hash k.
Lemma khash_compat a b : keqn a b = true -> khash a = khash b.
Proof.
  unfold HashModel.keqn, khash. destruct (a =? 0) eqn:Ea, (b =? 0) eqn:Eb; try congruence.
  apply hash_compat; lia.
Qed.

(** The structural invariant. *)
Record ht_wf (t : htable) : Prop := {
  wf_pow : exists p, p <= 31 /\ ht_cap t = 2 ^ p;
  wf_len : lenN (ht_buckets t) = ht_cap t;
  wf_place : forall j c e, getN (ht_buckets t) j = Some c -> In e c ->
             bidx (ht_cap t) e = j /\ e_hash e = khash (e_key e);
  wf_nodup : nodup_k (keys t);
  wf_size : ht_size t = lenN (entries t);
  wf_thr : ht_thr t = lf_mul (ht_cap t) (ht_num t) (ht_den t);
}.
(** ... together with the ownership of the header, the bucket array and one block per entry;
    [L0] is the rest of the ledger, which no table operation touches. *)
Definition ht_inv (L0 : list block) (t : htable) (a : alloc_st) : Prop :=
  ht_wf t /\ own (ht_mem t) (ids t) a L0.

Lemma wf_cap_bounds t : ht_wf t -> 0 < ht_cap t /\ ht_cap t <= 2147483648 /\ ht_cap t < W.
Proof.
  intros [(p & Hp & E) _ _ _ _ _]. rewrite E. pose proof (pow2_pos p). pose proof (pow2_le_W p Hp). unfold W. lia.
Qed.

Definition mt (k : N) (e : entry) : bool := keqn (e_key e) k.
Definition kidx (t : htable) (k : N) : N := N.land (khash k) (ht_cap t - 1).

Lemma kidx_eq t k : ht_wf t -> (if k =? 0 then 0 else table_index hash t k) = kidx t k.
Proof.
  intros Hw. destruct (wf_cap_bounds t Hw) as (H0 & _ & HW). unfold kidx, khash, table_index.
  destruct (k =? 0); [rewrite N.land_0_l; reflexivity|]. rewrite wsub1 by assumption. reflexivity.
Qed.
Lemma kidx_lt t k : ht_wf t -> kidx t k < ht_cap t.
Proof. intros [(p & Hp & E) _ _ _ _ _]. unfold kidx. rewrite E. apply land_mask_lt. Qed.

Lemma wf_entry_hash t e : ht_wf t -> In e (entries t) -> e_hash e = khash (e_key e).
Proof.
  intros Hw He. apply in_concat_getN in He. destruct He as (j & c & _ & Hg & Hin).
  apply (wf_place t Hw j c e Hg Hin).
Qed.

(** Focus on the chain of a key: no entry outside it can match the key. *)
Lemma focus t k : ht_wf t ->
  exists B1 c B2, ht_buckets t = B1 ++ c :: B2 /\ lenN B1 = kidx t k /\ getN (ht_buckets t) (kidx t k) = Some c /\
    (forall e, In e (concat B1) -> mt k e = false) /\ (forall e, In e (concat B2) -> mt k e = false) /\
    (forall e, In e c -> bidx (ht_cap t) e = kidx t k /\ e_hash e = khash (e_key e)).
Proof.
  intros Hw. pose proof (kidx_lt t k Hw) as Hlt.
  destruct (getN_lt (ht_buckets t) (kidx t k)) as [c Hc]; [rewrite (wf_len t Hw); assumption|].
  destruct (getN_split _ _ _ Hc) as (B1 & B2 & E & Hl). exists B1, c, B2.
  split; [assumption|]. split; [assumption|]. split; [assumption|].
  assert (Hpl : forall j c' e, getN (B1 ++ c :: B2) j = Some c' -> In e c' -> bidx (ht_cap t) e = j).
  { intros j c' e Hg Hin. rewrite <- E in Hg. apply (wf_place t Hw j c' e Hg Hin). }
  destruct (placement_split _ _ _ _ Hpl) as (P1 & P0 & P2).
  assert (Hno : forall e, In e (entries t) -> bidx (ht_cap t) e <> kidx t k -> mt k e = false).
  { intros e He Hne. unfold mt. destruct (keqn (e_key e) k) eqn:Em; [|reflexivity]. exfalso. apply Hne.
    unfold bidx, kidx. rewrite (wf_entry_hash t e Hw He). rewrite (khash_compat _ _ Em). reflexivity. }
  split; [|split].
  - intros e He. apply Hno; [unfold entries; rewrite E, concat_mid; apply in_app_iff; tauto|].
    rewrite <- Hl. apply P1. assumption.
  - intros e He. apply Hno; [unfold entries; rewrite E, concat_mid; rewrite !in_app_iff; tauto|].
    rewrite <- Hl. apply P2. assumption.
  - intros e He. apply (wf_place t Hw _ c e Hc He).
Qed.

(* ------------------------------------------------------------------------------------------ *)
(** * The chain scans of the C functions are [split_first] with the test [mt k] *)

Lemma test_add e k : k <> 0 -> negb (e_key e =? 0) && keq (e_key e) k = mt k e.
Proof.
  intros Hk. unfold mt, HashModel.keqn. destruct (e_key e =? 0) eqn:E; cbn [negb andb].
  - symmetry. apply N.eqb_neq. assumption.
  - replace (k =? 0) with false by lia. reflexivity.
Qed.
Lemma test_remove e k : k <> 0 -> negb (e_key e =? 0) && keq k (e_key e) = mt k e.
Proof.
  intros Hk. rewrite <- test_add by assumption. destruct (e_key e =? 0) eqn:E; cbn [negb andb]; [reflexivity|].
  apply keq_sym; lia.
Qed.
Lemma test_null e : (e_key e =? 0) = mt 0 e.
Proof. unfold mt. rewrite (SP keqn_0_r). reflexivity. Qed.

Lemma chain_replace_eq c k v : k <> 0 ->
  chain_replace keq c k v = match split_first (mt k) c with Some (p1, e, p2) => Some (p1 ++ set_val e v :: p2) | None => None end.
Proof.
  intros Hk. induction c as [|e c IH]; cbn [chain_replace split_first]; [reflexivity|].
  rewrite test_add by assumption. destruct (mt k e); [reflexivity|]. rewrite IH.
  destruct (split_first (mt k) c) as [[[p1 x] p2]|]; reflexivity.
Qed.
Lemma chain_replace_null_eq c v :
  chain_replace_null c v = match split_first (mt 0) c with Some (p1, e, p2) => Some (p1 ++ set_val e v :: p2) | None => None end.
Proof.
  induction c as [|e c IH]; cbn [chain_replace_null split_first]; [reflexivity|].
  rewrite test_null. destruct (mt 0 e); [reflexivity|]. rewrite IH.
  destruct (split_first (mt 0) c) as [[[p1 x] p2]|]; reflexivity.
Qed.
Lemma chain_find_eq c k : k <> 0 ->
  chain_find keq c k = match split_first (mt k) c with Some (_, e, _) => Some e | None => None end.
Proof.
  intros Hk. induction c as [|e c IH]; cbn [chain_find split_first]; [reflexivity|].
  rewrite test_add by assumption. destruct (mt k e); [reflexivity|]. rewrite IH.
  destruct (split_first (mt k) c) as [[[p1 x] p2]|]; reflexivity.
Qed.
Lemma chain_find_null_eq c :
  chain_find_null c = match split_first (mt 0) c with Some (_, e, _) => Some e | None => None end.
Proof.
  induction c as [|e c IH]; cbn [chain_find_null split_first]; [reflexivity|].
  rewrite test_null. destruct (mt 0 e); [reflexivity|]. rewrite IH.
  destruct (split_first (mt 0) c) as [[[p1 x] p2]|]; reflexivity.
Qed.
Lemma chain_remove_eq c k : k <> 0 ->
  chain_remove keq c k = match split_first (mt k) c with Some (p1, e, p2) => Some (e, p1 ++ p2) | None => None end.
Proof.
  intros Hk. induction c as [|e c IH]; cbn [chain_remove split_first]; [reflexivity|].
  rewrite test_remove by assumption. destruct (mt k e); [reflexivity|]. rewrite IH.
  destruct (split_first (mt k) c) as [[[p1 x] p2]|]; reflexivity.
Qed.
Lemma chain_remove_null_eq c :
  chain_remove_null c = match split_first (mt 0) c with Some (p1, e, p2) => Some (e, p1 ++ p2) | None => None end.
Proof.
  induction c as [|e c IH]; cbn [chain_remove_null split_first]; [reflexivity|].
  rewrite test_null. destruct (mt 0 e); [reflexivity|]. rewrite IH.
  destruct (split_first (mt 0) c) as [[[p1 x] p2]|]; reflexivity.
Qed.

(** The three table functions in one shape each (NULL and non-NULL key paths merged). *)
Definition get_gen (t : htable) (k : N) : res (stat * option N) :=
  do chain <- of_opt OutOfBounds (getN (ht_buckets t) (kidx t k));
  match split_first (mt k) chain with
  | Some (_, e, _) => Ok (CC_OK, Some (e_val e))
  | None => Ok (CC_ERR_KEY_NOT_FOUND, None)
  end.
Lemma ht_get_eq t k : ht_wf t -> ht_get hash keq t k = get_gen t k.
Proof.
  intros Hw. unfold ht_get, get_gen. pose proof (kidx_eq t k Hw) as Hi.
  destruct (k =? 0) eqn:Ek.
  - apply N.eqb_eq in Ek. subst k. rewrite <- Hi.
    destruct (getN (ht_buckets t) 0) as [c|]; cbn [of_opt bind]; [|reflexivity].
    rewrite chain_find_null_eq. destruct (split_first (mt 0) c) as [[[p1 x] p2]|]; reflexivity.
  - rewrite <- Hi. destruct (getN (ht_buckets t) (table_index hash t k)) as [c|]; cbn [of_opt bind]; [|reflexivity].
    rewrite chain_find_eq by lia. destruct (split_first (mt k) c) as [[[p1 x] p2]|]; reflexivity.
Qed.

Definition remove_gen (t : htable) (k : N) (a : alloc_st) : res (stat * option N * htable * alloc_st) :=
  do chain <- of_opt OutOfBounds (getN (ht_buckets t) (kidx t k));
  match split_first (mt k) chain with
  | None => Ok (CC_ERR_KEY_NOT_FOUND, None, t, a)
  | Some (p1, e, p2) =>
      do b' <- of_opt OutOfBounds (updN (ht_buckets t) (kidx t k) (p1 ++ p2));
      do a1 <- release (ht_mem t) (e_id e) a;
      Ok (CC_OK, Some (e_val e), set_tbl t b' (ht_size t - 1), a1)
  end.
Lemma ht_remove_eq t k a : ht_wf t -> ht_remove hash keq t k a = remove_gen t k a.
Proof.
  intros Hw. unfold ht_remove, remove_gen. rewrite (kidx_eq t k Hw).
  destruct (getN (ht_buckets t) (kidx t k)) as [c|]; cbn [of_opt bind]; [|reflexivity].
  destruct (k =? 0) eqn:Ek.
  - apply N.eqb_eq in Ek. subst k. rewrite chain_remove_null_eq.
    destruct (split_first (mt 0) c) as [[[p1 x] p2]|]; reflexivity.
  - rewrite chain_remove_eq by lia. destruct (split_first (mt k) c) as [[[p1 x] p2]|]; reflexivity.
Qed.

Definition add_core (t : htable) (k v : N) (a : alloc_st) : res (stat * htable * alloc_st) :=
  if k =? 0 then add_null_key t v a else
  let h := hash k in
  let i := N.land h (wsub (ht_cap t) 1) in
  do chain <- of_opt OutOfBounds (getN (ht_buckets t) i);
  match chain_replace keq chain k v with
  | Some chain' =>
      do b' <- of_opt OutOfBounds (updN (ht_buckets t) i chain'); Ok (CC_OK, set_tbl t b' (ht_size t), a)
  | None =>
      match alloc (ht_mem t) SZ_ENTRY a with
      | (None, a2) => Ok (CC_ERR_ALLOC, t, a2)
      | (Some id, a2) =>
          do b' <- of_opt OutOfBounds (updN (ht_buckets t) i ({| e_key := k; e_val := v; e_hash := h; e_id := id |} :: chain));
          Ok (CC_OK, set_tbl t b' (ht_size t + 1), a2)
      end
  end.
Lemma ht_add_unfold t k v a :
  ht_add hash keq t k v a =
  do (st, t1, a1) <- (if g_ht_add_resize (ht_size t) (ht_thr t)
                      then ht_resize t ((N.shiftl (ht_cap t) 1) mod W) a else Ok (CC_OK, t, a));
  if negb (stat_eqb st CC_OK) then Ok (st, t1, a1) else add_core t1 k v a1.
Proof. reflexivity. Qed.

Definition add_gen (t : htable) (k v : N) (a : alloc_st) : res (stat * htable * alloc_st) :=
  do chain <- of_opt OutOfBounds (getN (ht_buckets t) (kidx t k));
  match split_first (mt k) chain with
  | Some (p1, e, p2) =>
      do b' <- of_opt OutOfBounds (updN (ht_buckets t) (kidx t k) (p1 ++ set_val e v :: p2));
      Ok (CC_OK, set_tbl t b' (ht_size t), a)
  | None =>
      match alloc (ht_mem t) SZ_ENTRY a with
      | (None, a2) => Ok (CC_ERR_ALLOC, t, a2)
      | (Some id, a2) =>
          do b' <- of_opt OutOfBounds (updN (ht_buckets t) (kidx t k)
                                            ({| e_key := k; e_val := v; e_hash := khash k; e_id := id |} :: chain));
          Ok (CC_OK, set_tbl t b' (ht_size t + 1), a2)
      end
  end.
Lemma add_core_eq t k v a : ht_wf t -> add_core t k v a = add_gen t k v a.
Proof.
  intros Hw. unfold add_core, add_gen. pose proof (kidx_eq t k Hw) as Hi.
  destruct (wf_cap_bounds t Hw) as (H0 & _ & HW).
  destruct (k =? 0) eqn:Ek.
  - apply N.eqb_eq in Ek. subst k. unfold add_null_key. rewrite <- Hi.
    destruct (getN (ht_buckets t) 0) as [c|]; cbn [of_opt bind]; [|reflexivity].
    rewrite chain_replace_null_eq. destruct (split_first (mt 0) c) as [[[p1 x] p2]|]; reflexivity.
  - unfold kidx, khash in *. rewrite Ek. rewrite wsub1 by assumption.
    destruct (getN (ht_buckets t) (N.land (hash k) (ht_cap t - 1))) as [c|]; cbn [of_opt bind]; [|reflexivity].
    rewrite chain_replace_eq by lia. destruct (split_first (mt k) c) as [[[p1 x] p2]|]; reflexivity.
Qed.

(* ------------------------------------------------------------------------------------------ *)
(** * Updating one chain *)

Lemma entries_mid t B1 c B2 : ht_buckets t = B1 ++ c :: B2 -> entries t = concat B1 ++ c ++ concat B2.
Proof. intros E. unfold entries. rewrite E. apply concat_mid. Qed.

(** [wf] is preserved when the chain at one index is replaced by a chain whose entries are placed
    correctly, provided keys stay pairwise different and size / threshold are consistent. *)
Lemma wf_update t B1 c B2 c' sz :
  ht_wf t -> ht_buckets t = B1 ++ c :: B2 ->
  (forall e, In e c' -> bidx (ht_cap t) e = lenN B1 /\ e_hash e = khash (e_key e)) ->
  nodup_k (map e_key (concat B1 ++ c' ++ concat B2)) ->
  sz = lenN (concat B1 ++ c' ++ concat B2) ->
  ht_wf (set_tbl t (B1 ++ c' :: B2) sz).
Proof.
  intros Hw E Hc' Hnd Hsz. destruct Hw as [Hp Hl Hpl _ _ Ht].
  constructor; cbn [set_tbl ht_cap ht_buckets ht_size ht_thr ht_num ht_den]; try assumption.
  - rewrite <- Hl, E. rewrite !lenN_app, !lenN_cons. reflexivity.
  - intros j ch e Hg Hin. destruct (N.eq_dec j (lenN B1)) as [->|Hne].
    + rewrite getN_mid in Hg. inversion Hg; subst. auto.
    + apply (Hpl j ch e); [|assumption]. rewrite E.
      destruct (N.lt_ge_cases j (lenN B1)).
      * rewrite getN_app1 in * by assumption. assumption.
      * rewrite getN_app2 in * by assumption. unfold getN in *.
        replace (N.to_nat (j - lenN B1)) with (S (N.to_nat (j - lenN B1 - 1))) in * by lia. cbn in *. assumption.
  - unfold keys, entries. cbn [set_tbl ht_buckets]. rewrite concat_mid. assumption.
  - unfold entries. cbn [set_tbl ht_buckets]. rewrite concat_mid. assumption.
Qed.

(* ------------------------------------------------------------------------------------------ *)
(** * get / contains_key *)

Lemma nomatch_map (k : N) (l : list entry) : (forall e, In e l -> mt k e = false) -> nomatch k (map kv l).
Proof.
  intros H x Hx. apply in_map_iff in Hx. destruct Hx as (e & <- & He). apply H. assumption.
Qed.

Lemma get_gen_spec t k : ht_wf t ->
  get_gen t k = Ok (match m_get (ht_abs t) k with Some v => (CC_OK, Some v) | None => (CC_ERR_KEY_NOT_FOUND, None) end).
Proof.
  intros Hw. destruct (focus t k Hw) as (B1 & c & B2 & E & Hl & Hg & H1 & H2 & _).
  unfold get_gen. rewrite Hg. cbn [of_opt bind]. unfold ht_abs. rewrite (entries_mid _ _ _ _ E).
  destruct (split_first (mt k) c) as [[[p1 e] p2]|] eqn:Es.
  - apply split_first_some in Es. destruct Es as (-> & He & Hp1).
    replace (concat B1 ++ (p1 ++ e :: p2) ++ concat B2) with ((concat B1 ++ p1) ++ e :: (p2 ++ concat B2))
      by (rewrite <- !app_assoc; reflexivity).
    rewrite map_app. cbn [map]. change (kv e) with (e_key e, e_val e). rewrite (SP m_get_split); [reflexivity| |exact He].
    apply nomatch_map. intros x Hx. apply in_app_iff in Hx. destruct Hx; auto.
  - rewrite (SP m_get_none); [reflexivity|]. apply nomatch_map. intros x Hx.
    rewrite !in_app_iff in Hx. destruct Hx as [Hx|[Hx|Hx]]; auto. eapply split_first_none; eassumption.
Qed.

Theorem ht_get_spec t k : ht_wf t ->
  ht_get hash keq t k = Ok (match m_get (ht_abs t) k with Some v => (CC_OK, Some v) | None => (CC_ERR_KEY_NOT_FOUND, None) end).
Proof. intros Hw. rewrite ht_get_eq by assumption. apply get_gen_spec. assumption. Qed.

Theorem ht_contains_spec t k : ht_wf t ->
  ht_contains_key hash keq t k = Ok (match m_get (ht_abs t) k with Some _ => true | None => false end).
Proof.
  intros Hw. unfold ht_contains_key. rewrite ht_get_spec by assumption. cbn [bind].
  destruct (m_get (ht_abs t) k); reflexivity.
Qed.

(* ------------------------------------------------------------------------------------------ *)
(** * add (without the resize) *)

Lemma set_val_fields e v : e_key (set_val e v) = e_key e /\ e_hash (set_val e v) = e_hash e /\ e_id (set_val e v) = e_id e.
Proof. auto. Qed.

Lemma add_gen_spec L0 t a k v : ht_inv L0 t a ->
  exists st t' a', add_gen t k v a = Ok (st, t', a') /\ ht_inv L0 t' a' /\
    ht_cap t' = ht_cap t /\ ht_thr t' = ht_thr t /\ ht_num t' = ht_num t /\ ht_den t' = ht_den t /\ ht_mem t' = ht_mem t /\
    ((st = CC_OK /\ Permutation (ht_abs t') (m_add (ht_abs t) k v) /\
      (ht_size t' = ht_size t \/ (ht_size t' = ht_size t + 1 /\ m_get (ht_abs t) k = None)) /\
      (plan a' = plan a \/ plan a' = tl (plan a)) /\ limit a' = limit a)
     \/ (st = CC_ERR_ALLOC /\ t' = t /\ live a' = live a /\ plan a' = tl (plan a) /\ limit a' = limit a /\
         (plan a = [] -> limit a < SZ_ENTRY))).
Proof.
  intros [Hw Ho]. destruct (focus t k Hw) as (B1 & c & B2 & E & Hl & Hg & H1 & H2 & Hc).
  unfold add_gen. rewrite Hg. cbn [of_opt bind]. rewrite <- Hl.
  pose proof (entries_mid _ _ _ _ E) as Een.
  destruct (split_first (mt k) c) as [[[p1 e] p2]|] eqn:Es.
  - (* an equal key is present: overwrite its value *)
    apply split_first_some in Es. destruct Es as (-> & He & Hp1).
    rewrite E, updN_mid. cbn [of_opt bind]. do 3 eexists. split; [reflexivity|].
    assert (Hk : map e_key (concat B1 ++ (p1 ++ set_val e v :: p2) ++ concat B2) = keys t).
    { unfold keys. rewrite Een. rewrite !map_app. cbn [map]. reflexivity. }
    assert (Hi : map e_id (concat B1 ++ (p1 ++ set_val e v :: p2) ++ concat B2) = map e_id (entries t)).
    { rewrite Een. rewrite !map_app. cbn [map]. reflexivity. }
    split; [split|].
    + apply (wf_update t B1 (p1 ++ e :: p2) B2); try assumption.
      * intros x Hx. rewrite Hl. apply in_app_iff in Hx. destruct Hx as [Hx|[<-|Hx]].
        -- apply Hc. apply in_app_iff. tauto.
        -- unfold bidx. cbn [set_val e_hash e_key]. apply (Hc e). apply in_elt.
        -- apply Hc. apply in_app_iff. cbn. tauto.
      * rewrite Hk. apply (wf_nodup t Hw).
      * rewrite (wf_size t Hw), Een. rewrite !lenN_app, !lenN_cons. reflexivity.
    + unfold ids, entries. cbn [set_tbl ht_mem ht_hdr ht_blk ht_buckets]. rewrite concat_mid, Hi. exact Ho.
    + cbn [set_tbl ht_cap ht_thr ht_num ht_den ht_mem ht_size]. do 5 (split; [reflexivity|]). left.
      split; [reflexivity|]. split; [|auto].
      unfold ht_abs, entries. cbn [set_tbl ht_buckets]. rewrite concat_mid. fold (entries t). rewrite Een.
      replace (concat B1 ++ (p1 ++ e :: p2) ++ concat B2) with ((concat B1 ++ p1) ++ e :: (p2 ++ concat B2))
        by (rewrite <- !app_assoc; reflexivity).
      replace (concat B1 ++ (p1 ++ set_val e v :: p2) ++ concat B2) with ((concat B1 ++ p1) ++ set_val e v :: (p2 ++ concat B2))
        by (rewrite <- !app_assoc; reflexivity).
      rewrite !map_app. cbn [map]. unfold HashModel.m_add.
      change (kv e) with (e_key e, e_val e). change (kv (set_val e v)) with (e_key e, v).
      rewrite (SP m_set_split); [apply Permutation_refl| |exact He].
      rewrite <- map_app. apply nomatch_map. intros x Hx. apply in_app_iff in Hx. destruct Hx; auto.
  - (* no equal key: a new entry at the head of the chain *)
    pose proof (split_first_none _ _ Es) as Hcn.
    assert (Hnm : nomatch k (ht_abs t)).
    { unfold ht_abs. rewrite Een. apply nomatch_map. intros x Hx. rewrite !in_app_iff in Hx. destruct Hx as [Hx|[Hx|Hx]]; auto. }
    destruct (alloc (ht_mem t) SZ_ENTRY a) as [[id|] a2] eqn:Ea.
    + destruct (own_alloc_some _ _ _ _ _ _ _ Ho Ea) as (Ho2 & Hfresh & Hid & Hpl & Hlim).
      rewrite E, updN_mid. cbn [of_opt bind]. do 3 eexists. split; [reflexivity|].
      set (ne := {| e_key := k; e_val := v; e_hash := khash k; e_id := id |}).
      split; [split|].
      * apply (wf_update t B1 c B2); try assumption.
        -- intros x [<-|Hx]; [|rewrite Hl; apply Hc; assumption]. split; [|reflexivity].
           unfold bidx, ne. cbn [e_hash]. rewrite Hl. reflexivity.
        -- apply (SP nodup_k_perm (k :: keys t)).
           ++ unfold keys. rewrite Een. rewrite !map_app. cbn [map app]. fold ne. change (e_key ne) with k.
              apply Permutation_middle.
           ++ split; [|apply (wf_nodup t Hw)]. intros x Hx. unfold keys in Hx. apply in_map_iff in Hx.
              destruct Hx as (e & <- & He). rewrite (SP keqn_sym). apply (Hnm (kv e)). apply in_map. assumption.
        -- rewrite (wf_size t Hw), Een. rewrite !lenN_app, lenN_cons. lia.
      * unfold ids, entries. cbn [set_tbl ht_mem ht_hdr ht_blk ht_buckets]. rewrite concat_mid. fold ne.
        eapply own_perm; [|exact Ho2]. unfold ids. rewrite Een. rewrite !map_app. cbn [map app]. change (e_id ne) with id.
        eapply Permutation_trans; [apply perm_swap|]. constructor.
        eapply Permutation_trans; [apply perm_swap|]. constructor. apply Permutation_middle.
      * cbn [set_tbl ht_cap ht_thr ht_num ht_den ht_mem ht_size]. do 5 (split; [reflexivity|]). left.
        split; [reflexivity|]. split; [|split; [right; split; [reflexivity|apply (SP m_get_none); assumption]|auto]].
        unfold ht_abs at 1, entries. cbn [set_tbl ht_buckets]. rewrite concat_mid. fold ne.
        unfold HashModel.m_add. rewrite (SP m_set_none) by assumption.
        unfold ht_abs. rewrite Een. rewrite !map_app. cbn [map app]. change (kv ne) with (k, v).
        apply Permutation_sym, Permutation_middle.
    + destruct (own_alloc_none _ _ _ _ _ _ Ho Ea) as (Ho2 & Hpl & Hlim & Hlive).
      do 3 eexists. split; [reflexivity|]. split; [split; assumption|]. do 5 (split; [reflexivity|]). right.
      do 5 (split; [auto|]). intros Hp.
      destruct (N.lt_ge_cases (limit a) SZ_ENTRY) as [Hlt|Hge]; [assumption|].
      destruct (alloc_grants (ht_mem t) SZ_ENTRY a Hp Hge) as (a3 & Ea3 & _). congruence.
Qed.

(* ------------------------------------------------------------------------------------------ *)
(** * remove *)

Lemma remove_gen_spec L0 t a k : ht_inv L0 t a ->
  exists st v t' a', remove_gen t k a = Ok (st, v, t', a') /\ ht_inv L0 t' a' /\
    ht_cap t' = ht_cap t /\ ht_thr t' = ht_thr t /\ ht_num t' = ht_num t /\ ht_den t' = ht_den t /\ ht_mem t' = ht_mem t /\
    plan a' = plan a /\ limit a' = limit a /\
    match m_del (ht_abs t) k with
    | Some (x, m') => st = CC_OK /\ v = Some x /\ ht_abs t' = m' /\ ht_size t' + 1 = ht_size t /\
                      exists B1 p1 e p2 B2, ht_buckets t = B1 ++ (p1 ++ e :: p2) :: B2 /\
                                            ht_buckets t' = B1 ++ (p1 ++ p2) :: B2 /\ mt k e = true /\
                                            (forall y, In y (concat B1 ++ p1) -> mt k y = false)
    | None => st = CC_ERR_KEY_NOT_FOUND /\ v = None /\ t' = t /\ a' = a
    end.
Proof.
  intros [Hw Ho]. destruct (focus t k Hw) as (B1 & c & B2 & E & Hl & Hg & H1 & H2 & Hc).
  unfold remove_gen. rewrite Hg. cbn [of_opt bind]. rewrite <- Hl.
  pose proof (entries_mid _ _ _ _ E) as Een.
  destruct (split_first (mt k) c) as [[[p1 e] p2]|] eqn:Es.
  - apply split_first_some in Es. destruct Es as (-> & He & Hp1).
    rewrite E, updN_mid. cbn [of_opt bind].
    assert (Een' : entries t = (concat B1 ++ p1) ++ e :: (p2 ++ concat B2)) by (rewrite Een, <- !app_assoc; reflexivity).
    assert (Hno1 : forall y, In y (concat B1 ++ p1) -> mt k y = false).
    { intros y Hy. apply in_app_iff in Hy. destruct Hy; auto. }
    assert (Hperm : Permutation (ids t) (e_id e :: ht_hdr t :: ht_blk t :: map e_id ((concat B1 ++ p1) ++ (p2 ++ concat B2)))).
    { unfold ids. rewrite Een'. generalize (concat B1 ++ p1) (p2 ++ concat B2). intros X1 X2.
      rewrite !map_app. cbn [map]. apply Permutation_sym.
      eapply Permutation_trans; [apply perm_swap|]. apply perm_skip.
      eapply Permutation_trans; [apply perm_swap|]. apply perm_skip. apply Permutation_middle. }
    destruct (own_release _ _ _ _ _ (own_perm _ _ _ _ _ Hperm Ho)) as (a1 & Er & Ho1 & Hp1' & Hl1 & _).
    rewrite Er. cbn [bind]. do 4 eexists. split; [reflexivity|].
    assert (Hsz : 0 < ht_size t).
    { rewrite (wf_size t Hw), Een'. rewrite lenN_app, lenN_cons. lia. }
    assert (Hent' : concat B1 ++ (p1 ++ p2) ++ concat B2 = (concat B1 ++ p1) ++ (p2 ++ concat B2)) by (rewrite <- !app_assoc; reflexivity).
    split; [split|].
    + apply (wf_update t B1 (p1 ++ e :: p2) B2); try assumption.
      * intros x Hx. rewrite Hl. apply Hc. apply in_app_iff in Hx. apply in_app_iff. cbn. tauto.
      * rewrite Hent'. pose proof (wf_nodup t Hw) as Hnd. unfold keys in Hnd. rewrite Een' in Hnd.
        rewrite map_app in *. cbn [map] in Hnd. apply (SP nodup_k_mid) in Hnd. apply Hnd.
      * rewrite Hent'. rewrite (wf_size t Hw), Een'. rewrite !lenN_app, lenN_cons, !lenN_app. lia.
    + unfold ids, entries. cbn [set_tbl ht_mem ht_hdr ht_blk ht_buckets]. rewrite concat_mid, Hent'. exact Ho1.
    + cbn [set_tbl ht_cap ht_thr ht_num ht_den ht_mem ht_size]. do 7 (split; [auto|]).
      unfold ht_abs at 1. rewrite Een'. rewrite map_app. cbn [map]. change (kv e) with (e_key e, e_val e).
      rewrite (SP m_del_split); [|apply nomatch_map; assumption|exact He].
      split; [reflexivity|]. split; [reflexivity|]. split; [|split].
      * unfold ht_abs, entries. cbn [set_tbl ht_buckets]. rewrite concat_mid, Hent', map_app. reflexivity.
      * lia.
      * exists B1, p1, e, p2, B2. auto.
  - pose proof (split_first_none _ _ Es) as Hcn.
    do 4 eexists. split; [reflexivity|]. split; [split; assumption|]. do 7 (split; [reflexivity|]).
    rewrite (SP m_del_none); [auto|]. unfold ht_abs. rewrite Een. apply nomatch_map.
    intros x Hx. rewrite !in_app_iff in Hx. destruct Hx as [Hx|[Hx|Hx]]; auto.
Qed.

End HashProofs.
