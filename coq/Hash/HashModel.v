(** Executable model of src/cc_hashtable.c and the adapter src/cc_hashset.c (definitions only).

    Keys and values are machine words ([N], 0 = NULL).  The hash function (with seed and key
    length already applied) and the key comparator are parameters [hash : N -> N] and
    [keq : N -> N -> bool] ([keq a b = true] stands for [key_cmp(a, b) == 0]); they are never applied
    to the NULL key, exactly as in the C text.  Chains are lists of entries, the bucket array is a
    list of chains whose length is the number of allocated buckets (kept apart from the [capacity]
    field).  Every entry carries the ledger id of its block; that id also plays the role of the
    entry's address for the iterator (ids are never reused, so a stale id is a dangling pointer).

    Not wrapped: the [size] counter ([size++] in add, [size--] in remove / remove_all are [+ 1] and
    [- 1] on N). Under the invariant [size] is the number of entries, every decrement happens with an
    entry in hand, and 2^64 live 32-byte entry blocks do not fit an address space. Everything else
    that C computes modulo 2^64 is written with wadd/wsub/wmul. *)
From CC Require Import Base.Prelude Base.Alloc Generated.Status Generated.Constants Generated.Guards.
Local Open Scope N_scope.

Record entry := { e_key : N; e_val : N; e_hash : N; e_id : N }.

Record htable := {
  ht_buckets : list (list entry);
  ht_cap : N; ht_size : N; ht_thr : N;
  ht_num : N; ht_den : N;        (* load_factor = num / den *)
  ht_seed : N;                   (* carried only; [hash] already includes it *)
  ht_hdr : N; ht_blk : N;        (* ledger ids of the header and of the bucket array *)
  ht_mem : tag;
}.

(** sizeof(CC_HashTable), sizeof(TableEntry), sizeof(TableEntry* ), sizeof(CC_Array), sizeof(CC_HashSet)
    on the build target (checked with a C program). *)
Definition SZ_TABLE : N := 88.
Definition SZ_ENTRY : N := 32.
Definition SZ_PTR : N := 8.
Definition SZ_ARRAY : N := 56.
Definition SZ_SET : N := 40.

(** [(size_t)(capacity * load_factor)] for a rational load factor (T5). *)
Definition lf_mul (cap num den : N) : N := (cap * num) / den.

(** round_pow_two: ARCH_64 is not defined, so the smear stops at 16. *)
Definition smear (n : N) : N :=
  let n := N.lor n (N.shiftr n 1) in
  let n := N.lor n (N.shiftr n 2) in
  let n := N.lor n (N.shiftr n 4) in
  let n := N.lor n (N.shiftr n 8) in
  N.lor n (N.shiftr n 16).
Definition round_pow_two (n : N) : N :=
  if g_ht_rpt_max n then MAX_POW_TWO
  else if g_ht_rpt_zero n then 1
  else wadd (smear (wsub n 1)) 1.

Definition set_tbl (t : htable) (b : list (list entry)) (size : N) : htable :=
  {| ht_buckets := b; ht_cap := ht_cap t; ht_size := size; ht_thr := ht_thr t;
     ht_num := ht_num t; ht_den := ht_den t; ht_seed := ht_seed t;
     ht_hdr := ht_hdr t; ht_blk := ht_blk t; ht_mem := ht_mem t |}.

(** The loops [for (i = 0; i < capacity; i++) ... buckets[i]] read the first [capacity] buckets;
    they run off the array if fewer were allocated. *)
Definition buckets_upto (b : list (list entry)) (cap : N) : res (list (list entry)) :=
  if lenN b <? cap then Fault OutOfBounds else Ok (firstnN cap b).

(** cc_hashtable_new_conf: header by mem_calloc, bucket array by mem_calloc(capacity, sizeof(TableEntry* )). *)
Definition ht_new (mem : tag) (initial num den seed : N) (a : alloc_st) : res (stat * option htable * alloc_st) :=
  match alloc mem SZ_TABLE a with
  | (None, a1) => Ok (CC_ERR_ALLOC, None, a1)
  | (Some h, a1) =>
      let cap := round_pow_two initial in
      match alloc mem (wmul cap SZ_PTR) a1 with
      | (None, a2) => do a3 <- release mem h a2; Ok (CC_ERR_ALLOC, None, a3)
      | (Some b, a2) =>
          Ok (CC_OK, Some {| ht_buckets := repeatN [] cap; ht_cap := cap; ht_size := 0;
                             ht_thr := lf_mul cap num den; ht_num := num; ht_den := den; ht_seed := seed;
                             ht_hdr := h; ht_blk := b; ht_mem := mem |}, a2)
      end
  end.

(** move_entries: every entry, in chain order, is pushed on the head of the destination chain
    selected by its CACHED hash. *)
Fixpoint move_chain (c : list entry) (dst : list (list entry)) (dsz : N) : res (list (list entry)) :=
  match c with
  | [] => Ok dst
  | e :: r =>
      let idx := N.land (e_hash e) (wsub dsz 1) in
      do ch <- of_opt OutOfBounds (getN dst idx);
      do dst' <- of_opt OutOfBounds (updN dst idx (e :: ch));
      move_chain r dst' dsz
  end.
Fixpoint move_buckets (src : list (list entry)) (dst : list (list entry)) (dsz : N) : res (list (list entry)) :=
  match src with
  | [] => Ok dst
  | c :: r => do d <- move_chain c dst dsz; move_buckets r d dsz
  end.

(** resize: new array by mem_calloc(new_capacity, sizeof(TableEntry)) (over-sized as written). *)
Definition ht_resize (t : htable) (new_cap : N) (a : alloc_st) : res (stat * htable * alloc_st) :=
  if g_ht_resize_max (ht_cap t) then Ok (CC_ERR_MAX_CAPACITY, t, a) else
  match alloc (ht_mem t) (wmul new_cap SZ_ENTRY) a with
  | (None, a1) => Ok (CC_ERR_ALLOC, t, a1)
  | (Some nb, a1) =>
      do src <- buckets_upto (ht_buckets t) (ht_cap t);
      do newb <- move_buckets src (repeatN [] new_cap) new_cap;
      do a2 <- release (ht_mem t) (ht_blk t) a1;
      Ok (CC_OK, {| ht_buckets := newb; ht_cap := new_cap; ht_size := ht_size t;
                    ht_thr := lf_mul new_cap (ht_num t) (ht_den t);
                    ht_num := ht_num t; ht_den := ht_den t; ht_seed := ht_seed t;
                    ht_hdr := ht_hdr t; ht_blk := nb; ht_mem := ht_mem t |}, a2)
  end.

Definition set_val (e : entry) (v : N) : entry :=
  {| e_key := e_key e; e_val := v; e_hash := e_hash e; e_id := e_id e |}.

Section WithHash.
Variable hash : N -> N.
Variable keq : N -> N -> bool.

(** The scan of cc_hashtable_add: [rk && key_cmp(rk, key) == 0] -> overwrite the value. *)
Fixpoint chain_replace (c : list entry) (k v : N) : option (list entry) :=
  match c with
  | [] => None
  | e :: r =>
      if negb (e_key e =? 0) && keq (e_key e) k then Some (set_val e v :: r)
      else match chain_replace r k v with Some r' => Some (e :: r') | None => None end
  end.
(** add_null_key: [!replace->key]. *)
Fixpoint chain_replace_null (c : list entry) (v : N) : option (list entry) :=
  match c with
  | [] => None
  | e :: r =>
      if e_key e =? 0 then Some (set_val e v :: r)
      else match chain_replace_null r v with Some r' => Some (e :: r') | None => None end
  end.

Definition add_null_key (t : htable) (v : N) (a : alloc_st) : res (stat * htable * alloc_st) :=
  do chain <- of_opt OutOfBounds (getN (ht_buckets t) 0);
  match chain_replace_null chain v with
  | Some chain' =>
      do b' <- of_opt OutOfBounds (updN (ht_buckets t) 0 chain'); Ok (CC_OK, set_tbl t b' (ht_size t), a)
  | None =>
      match alloc (ht_mem t) SZ_ENTRY a with
      | (None, a1) => Ok (CC_ERR_ALLOC, t, a1)
      | (Some id, a1) =>
          do b' <- of_opt OutOfBounds (updN (ht_buckets t) 0 ({| e_key := 0; e_val := v; e_hash := 0; e_id := id |} :: chain));
          Ok (CC_OK, set_tbl t b' (ht_size t + 1), a1)
      end
  end.

Definition ht_add (t : htable) (k v : N) (a : alloc_st) : res (stat * htable * alloc_st) :=
  do (st, t1, a1) <- (if g_ht_add_resize (ht_size t) (ht_thr t)
                      then ht_resize t ((N.shiftl (ht_cap t) 1) mod W) a else Ok (CC_OK, t, a));
  if negb (stat_eqb st CC_OK) then Ok (st, t1, a1) else
  if k =? 0 then add_null_key t1 v a1 else
  let h := hash k in
  let i := N.land h (wsub (ht_cap t1) 1) in
  do chain <- of_opt OutOfBounds (getN (ht_buckets t1) i);
  match chain_replace chain k v with
  | Some chain' =>
      do b' <- of_opt OutOfBounds (updN (ht_buckets t1) i chain'); Ok (CC_OK, set_tbl t1 b' (ht_size t1), a1)
  | None =>
      match alloc (ht_mem t1) SZ_ENTRY a1 with
      | (None, a2) => Ok (CC_ERR_ALLOC, t1, a2)
      | (Some id, a2) =>
          do b' <- of_opt OutOfBounds (updN (ht_buckets t1) i ({| e_key := k; e_val := v; e_hash := h; e_id := id |} :: chain));
          Ok (CC_OK, set_tbl t1 b' (ht_size t1 + 1), a2)
      end
  end.

(** cc_hashtable_get / get_null_key: [bucket->key && key_cmp(bucket->key, key) == 0]. *)
Fixpoint chain_find (c : list entry) (k : N) : option entry :=
  match c with
  | [] => None
  | e :: r => if negb (e_key e =? 0) && keq (e_key e) k then Some e else chain_find r k
  end.
Fixpoint chain_find_null (c : list entry) : option entry :=
  match c with
  | [] => None
  | e :: r => if e_key e =? 0 then Some e else chain_find_null r
  end.
Definition table_index (t : htable) (k : N) : N := N.land (hash k) (wsub (ht_cap t) 1).

Definition ht_get (t : htable) (k : N) : res (stat * option N) :=
  if k =? 0 then
    do chain <- of_opt OutOfBounds (getN (ht_buckets t) 0);
    match chain_find_null chain with Some e => Ok (CC_OK, Some (e_val e)) | None => Ok (CC_ERR_KEY_NOT_FOUND, None) end
  else
    do chain <- of_opt OutOfBounds (getN (ht_buckets t) (table_index t k));
    match chain_find chain k with Some e => Ok (CC_OK, Some (e_val e)) | None => Ok (CC_ERR_KEY_NOT_FOUND, None) end.

Definition ht_contains_key (t : htable) (k : N) : res bool :=
  do (st, _) <- ht_get t k; Ok (stat_eqb st CC_OK).

(** cc_hashtable_remove / remove_null_key: [e->key && key_cmp(key, e->key) == 0]; unlink, free, size--. *)
Fixpoint chain_remove (c : list entry) (k : N) : option (entry * list entry) :=
  match c with
  | [] => None
  | e :: r =>
      if negb (e_key e =? 0) && keq k (e_key e) then Some (e, r)
      else match chain_remove r k with Some (x, r') => Some (x, e :: r') | None => None end
  end.
Fixpoint chain_remove_null (c : list entry) : option (entry * list entry) :=
  match c with
  | [] => None
  | e :: r =>
      if e_key e =? 0 then Some (e, r)
      else match chain_remove_null r with Some (x, r') => Some (x, e :: r') | None => None end
  end.

Definition ht_remove (t : htable) (k : N) (a : alloc_st) : res (stat * option N * htable * alloc_st) :=
  let i := if k =? 0 then 0 else table_index t k in
  do chain <- of_opt OutOfBounds (getN (ht_buckets t) i);
  match (if k =? 0 then chain_remove_null chain else chain_remove chain k) with
  | None => Ok (CC_ERR_KEY_NOT_FOUND, None, t, a)
  | Some (e, chain') =>
      do b' <- of_opt OutOfBounds (updN (ht_buckets t) i chain');
      do a1 <- release (ht_mem t) (e_id e) a;
      Ok (CC_OK, Some (e_val e), set_tbl t b' (ht_size t - 1), a1)
  end.

End WithHash.

(** cc_hashtable_remove_all: every entry freed, size-- each, bucket heads cleared. *)
Fixpoint free_chain (mem : tag) (c : list entry) (sz : N) (a : alloc_st) : res (N * alloc_st) :=
  match c with
  | [] => Ok (sz, a)
  | e :: r => do a1 <- release mem (e_id e) a; free_chain mem r (sz - 1) a1
  end.
Fixpoint free_buckets (mem : tag) (b : list (list entry)) (sz : N) (a : alloc_st) : res (N * alloc_st) :=
  match b with
  | [] => Ok (sz, a)
  | c :: r => do (sz1, a1) <- free_chain mem c sz a; free_buckets mem r sz1 a1
  end.
Definition ht_remove_all (t : htable) (a : alloc_st) : res (htable * alloc_st) :=
  do bs <- buckets_upto (ht_buckets t) (ht_cap t);
  do (sz, a1) <- free_buckets (ht_mem t) bs (ht_size t) a;
  Ok (set_tbl t (map (fun _ => []) bs ++ skipnN (ht_cap t) (ht_buckets t)) sz, a1).

(** cc_hashtable_destroy: entries, bucket array, header. *)
Definition ht_destroy (t : htable) (a : alloc_st) : res alloc_st :=
  do bs <- buckets_upto (ht_buckets t) (ht_cap t);
  do (_, a1) <- free_buckets (ht_mem t) bs 0 a;
  do a2 <- release (ht_mem t) (ht_blk t) a1;
  release (ht_mem t) (ht_hdr t) a2.

(** The CC_Array built by get_keys / get_values (cc_array_new_conf with the default factor 2,
    cc_array_add, expand_capacity, cc_array_destroy - only what these two functions call). *)
Record carray := { ar_items : list N; ar_cap : N; ar_hdr : N; ar_buf : N }.

Definition arr_new (mem : tag) (cap : N) (a : alloc_st) : res (stat * option carray * alloc_st) :=
  if (cap =? 0) || (CC_MAX_ELEMENTS / cap <=? DEFAULT_EXPANSION_FACTOR_num / DEFAULT_EXPANSION_FACTOR_den)
  then Ok (CC_ERR_INVALID_CAPACITY, None, a) else
  match alloc mem SZ_ARRAY a with
  | (None, a1) => Ok (CC_ERR_ALLOC, None, a1)
  | (Some h, a1) =>
      match alloc mem (wmul cap SZ_PTR) a1 with
      | (None, a2) => do a3 <- release mem h a2; Ok (CC_ERR_ALLOC, None, a3)
      | (Some b, a2) => Ok (CC_OK, Some {| ar_items := []; ar_cap := cap; ar_hdr := h; ar_buf := b |}, a2)
      end
  end.

Definition arr_expand (mem : tag) (ar : carray) (a : alloc_st) : res (stat * carray * alloc_st) :=
  if ar_cap ar =? CC_MAX_ELEMENTS then Ok (CC_ERR_MAX_CAPACITY, ar, a) else
  let nc := (ar_cap ar * DEFAULT_EXPANSION_FACTOR_num) / DEFAULT_EXPANSION_FACTOR_den in
  let nc := if nc <=? ar_cap ar then CC_MAX_ELEMENTS else nc in
  match alloc mem (wmul nc SZ_PTR) a with
  | (None, a1) => Ok (CC_ERR_ALLOC, ar, a1)
  | (Some b, a1) =>
      do a2 <- release mem (ar_buf ar) a1;
      Ok (CC_OK, {| ar_items := ar_items ar; ar_cap := nc; ar_hdr := ar_hdr ar; ar_buf := b |}, a2)
  end.

Definition arr_add (mem : tag) (ar : carray) (x : N) (a : alloc_st) : res (stat * carray * alloc_st) :=
  do (st, ar1, a1) <- (if g_ht_array_add_full (lenN (ar_items ar)) (ar_cap ar) then arr_expand mem ar a else Ok (CC_OK, ar, a));
  if negb (stat_eqb st CC_OK) then Ok (st, ar1, a1) else
  Ok (CC_OK, {| ar_items := ar_items ar1 ++ [x]; ar_cap := ar_cap ar1; ar_hdr := ar_hdr ar1; ar_buf := ar_buf ar1 |}, a1).

Definition arr_destroy (mem : tag) (ar : carray) (a : alloc_st) : res alloc_st :=
  do a1 <- release mem (ar_buf ar) a; release mem (ar_hdr ar) a1.

(** The double loop of get_keys / get_values over one projection [f] of the entries. *)
Fixpoint arr_add_all (mem : tag) (ar : carray) (xs : list N) (a : alloc_st) : res (stat * carray * alloc_st) :=
  match xs with
  | [] => Ok (CC_OK, ar, a)
  | x :: r =>
      do (st, ar1, a1) <- arr_add mem ar x a;
      if negb (stat_eqb st CC_OK) then Ok (st, ar1, a1) else arr_add_all mem ar1 r a1
  end.

Definition ht_collect (f : entry -> N) (t : htable) (a : alloc_st) : res (stat * option carray * alloc_st) :=
  let cap := if 0 <? ht_size t then ht_size t else 1 in
  do (st, oar, a1) <- arr_new (ht_mem t) cap a;
  match oar with
  | None => Ok (st, None, a1)
  | Some ar =>
      do bs <- buckets_upto (ht_buckets t) (ht_cap t);
      do (st2, ar2, a2) <- arr_add_all (ht_mem t) ar (map f (concat bs)) a1;
      if negb (stat_eqb st2 CC_OK) then do a3 <- arr_destroy (ht_mem t) ar2 a2; Ok (st2, None, a3)
      else Ok (CC_OK, Some ar2, a2)
  end.
Definition ht_get_keys := ht_collect e_key.
Definition ht_get_values := ht_collect e_val.

(** foreach_key / foreach_value: the arguments the callback receives, in call order. *)
Definition ht_foreach (f : entry -> N) (t : htable) : res (list N) :=
  do bs <- buckets_upto (ht_buckets t) (ht_cap t); Ok (map f (concat bs)).

(** Iterator {bucket_index, prev_entry, next_entry}; entry pointers are entry ids, 0 = NULL. *)
Record hiter := { it_bucket : N; it_prev : N; it_next : N }.

Fixpoint first_nonempty (bs : list (list entry)) (i dflt : N) : N * N :=
  match bs with
  | [] => (dflt, 0)
  | c :: r => match c with e :: _ => (i, e_id e) | [] => first_nonempty r (i + 1) dflt end
  end.

(** Dereferencing an entry pointer: the entry and its [next] field. *)
Fixpoint chain_locate (id : N) (c : list entry) : option (entry * N) :=
  match c with
  | [] => None
  | e :: r => if e_id e =? id then Some (e, match r with [] => 0 | e2 :: _ => e_id e2 end) else chain_locate id r
  end.
Fixpoint locate (id : N) (bs : list (list entry)) : option (entry * N) :=
  match bs with
  | [] => None
  | c :: r => match chain_locate id c with Some x => Some x | None => locate id r end
  end.

Definition ht_iter_init (t : htable) : res hiter :=
  do bs <- buckets_upto (ht_buckets t) (ht_cap t);
  let '(b, nx) := first_nonempty bs 0 0 in
  Ok {| it_bucket := b; it_prev := 0; it_next := nx |}.

Definition ht_iter_next (t : htable) (it : hiter) : res (stat * option (N * N) * hiter) :=
  if it_next it =? 0 then Ok (CC_ITER_END, None, it) else
  do (e, nx) <- of_opt Dangling (locate (it_next it) (ht_buckets t));
  if negb (nx =? 0) then
    Ok (CC_OK, Some (e_key e, e_val e), {| it_bucket := it_bucket it; it_prev := it_next it; it_next := nx |})
  else
    do bs <- buckets_upto (ht_buckets t) (ht_cap t);
    let start := wadd (it_bucket it) 1 in
    let '(b, nx2) := first_nonempty (skipnN start bs) start (it_bucket it) in
    Ok (CC_OK, Some (e_key e, e_val e), {| it_bucket := b; it_prev := it_next it; it_next := nx2 |}).

Section WithHash2.
Variable hash : N -> N.
Variable keq : N -> N -> bool.

(** cc_hashtable_iter_remove = cc_hashtable_remove(table, prev_entry->key, out). *)
Definition ht_iter_remove (t : htable) (it : hiter) (a : alloc_st) : res (stat * option N * htable * alloc_st) :=
  if it_prev it =? 0 then Fault NullDeref else
  do (e, _) <- of_opt Dangling (locate (it_prev it) (ht_buckets t));
  ht_remove hash keq t (e_key e) a.

(** A whole traversal that removes, through the iterator, every yielded entry whose key word is in
    [rm]. Result: the yields in order, the statuses of the removals in order. *)
Fixpoint iter_loop (fuel : nat) (t : htable) (it : hiter) (rm : list N) (a : alloc_st)
                   (ys : list (N * N)) (sts : list stat) : res (list (N * N) * list stat * htable * alloc_st) :=
  match fuel with
  | O => Fault OutOfFuel
  | S f =>
      do (st, y, it') <- ht_iter_next t it;
      match y with
      | None => Ok (rev ys, rev sts, t, a)
      | Some (k, v) =>
          if existsb (N.eqb k) rm then
            do (st2, _, t', a') <- ht_iter_remove t it' a;
            iter_loop f t' it' rm a' ((k, v) :: ys) (st2 :: sts)
          else iter_loop f t it' rm a ((k, v) :: ys) sts
      end
  end.
Definition ht_iter_all (t : htable) (rm : list N) (a : alloc_st) : res (list (N * N) * list stat * htable * alloc_st) :=
  do it <- ht_iter_init t;
  iter_loop (S (length (concat (ht_buckets t)))) t it rm a [] [].

(** Operations of the trace language and one step of the state machine. *)
Inductive ht_op :=
  | HAdd (k v : N) | HGet (k : N) | HContains (k : N) | HRemove (k : N) | HRemoveAll | HSize
  | HGetKeys | HGetValues | HForeachKey | HForeachValue | HIterAll (rm : list N).
(** status, scalar outs, enumerated keys/values (in enumeration order), enumerated bindings, statuses of
    the iterator removals. *)
Record ht_out := { o_st : stat; o_vals : list N; o_enum : list N; o_pairs : list (N * N); o_sts : list stat }.
Definition out_st (s : stat) : ht_out := {| o_st := s; o_vals := []; o_enum := []; o_pairs := []; o_sts := [] |}.
Definition out_val (s : stat) (v : option N) : ht_out :=
  {| o_st := s; o_vals := match v with Some x => [x] | None => [] end; o_enum := []; o_pairs := []; o_sts := [] |}.
Definition out_enum (s : stat) (l : list N) : ht_out := {| o_st := s; o_vals := []; o_enum := l; o_pairs := []; o_sts := [] |}.

Definition collect_step (f : entry -> N) (t : htable) (a : alloc_st) : res (ht_out * htable * alloc_st) :=
  do (st, oar, a1) <- ht_collect f t a;
  match oar with
  | None => Ok (out_st st, t, a1)
  | Some ar => do a2 <- arr_destroy (ht_mem t) ar a1; Ok (out_enum st (ar_items ar), t, a2)
  end.

Definition ht_step (t : htable) (o : ht_op) (a : alloc_st) : res (ht_out * htable * alloc_st) :=
  match o with
  | HAdd k v => do (st, t', a') <- ht_add hash keq t k v a; Ok (out_st st, t', a')
  | HGet k => do (st, v) <- ht_get hash keq t k; Ok (out_val st v, t, a)
  | HContains k => do b <- ht_contains_key hash keq t k; Ok (out_val CC_OK (Some (if b then 1 else 0)), t, a)
  | HRemove k => do (st, v, t', a') <- ht_remove hash keq t k a; Ok (out_val st v, t', a')
  | HRemoveAll => do (t', a') <- ht_remove_all t a; Ok (out_st CC_OK, t', a')
  | HSize => Ok (out_val CC_OK (Some (ht_size t)), t, a)
  | HGetKeys => collect_step e_key t a
  | HGetValues => collect_step e_val t a
  | HForeachKey => do l <- ht_foreach e_key t; Ok (out_enum CC_OK l, t, a)
  | HForeachValue => do l <- ht_foreach e_val t; Ok (out_enum CC_OK l, t, a)
  | HIterAll rm =>
      do (ys, sts, t', a') <- ht_iter_all t rm a;
      Ok ({| o_st := CC_OK; o_vals := []; o_enum := []; o_pairs := ys; o_sts := sts |}, t', a')
  end.

Fixpoint ht_run (t : htable) (ops : list ht_op) (a : alloc_st) : res (list ht_out * htable * alloc_st) :=
  match ops with
  | [] => Ok ([], t, a)
  | o :: r => do (out, t1, a1) <- ht_step t o a; do (outs, t2, a2) <- ht_run t1 r a1; Ok (out :: outs, t2, a2)
  end.

(** The ideal object: an association list on keys up to [keqn] (0 = NULL is equal only to itself). *)
Definition keqn (a b : N) : bool :=
  if a =? 0 then b =? 0 else if b =? 0 then false else keq a b.
Definition amap := list (N * N).

Fixpoint m_get (m : amap) (k : N) : option N :=
  match m with
  | [] => None
  | (k', v) :: r => if keqn k' k then Some v else m_get r k
  end.
(** Overwrite the value of the binding of [k] (the stored key stays). *)
Fixpoint m_set (m : amap) (k v : N) : option amap :=
  match m with
  | [] => None
  | (k', v') :: r =>
      if keqn k' k then Some ((k', v) :: r)
      else match m_set r k v with Some r' => Some ((k', v') :: r') | None => None end
  end.
Fixpoint m_del (m : amap) (k : N) : option (N * amap) :=
  match m with
  | [] => None
  | (k', v') :: r =>
      if keqn k' k then Some (v', r)
      else match m_del r k with Some (x, r') => Some (x, (k', v') :: r') | None => None end
  end.
Definition m_add (m : amap) (k v : N) : amap :=
  match m_set m k v with Some m' => m' | None => (k, v) :: m end.

(** One step of the ideal map. Enumerations list the bindings in the list's own order (compared up
    to permutation); the allocation-free statuses are the documented ones. *)
Definition spec_step (m : amap) (o : ht_op) : ht_out * amap :=
  match o with
  | HAdd k v => (out_st CC_OK, m_add m k v)
  | HGet k => (match m_get m k with Some v => out_val CC_OK (Some v) | None => out_val CC_ERR_KEY_NOT_FOUND None end, m)
  | HContains k => (out_val CC_OK (Some (match m_get m k with Some _ => 1 | None => 0 end)), m)
  | HRemove k => match m_del m k with
                 | Some (v, m') => (out_val CC_OK (Some v), m')
                 | None => (out_val CC_ERR_KEY_NOT_FOUND None, m)
                 end
  | HRemoveAll => (out_st CC_OK, [])
  | HSize => (out_val CC_OK (Some (lenN m)), m)
  | HGetKeys | HForeachKey => (out_enum CC_OK (map fst m), m)
  | HGetValues | HForeachValue => (out_enum CC_OK (map snd m), m)
  | HIterAll rm =>
      ({| o_st := CC_OK; o_vals := []; o_enum := []; o_pairs := m;
          o_sts := map (fun _ => CC_OK) (filter (fun kv => existsb (N.eqb (fst kv)) rm) m) |},
       filter (fun kv => negb (existsb (N.eqb (fst kv)) rm)) m)
  end.

(** CC_HashSet: header by mem_calloc, then the table; value = the dummy pointer 1. *)
Record hset := { hs_table : htable; hs_hdr : N }.
Definition hs_new (mem : tag) (initial num den seed : N) (a : alloc_st) : res (stat * option hset * alloc_st) :=
  match alloc mem SZ_SET a with
  | (None, a1) => Ok (CC_ERR_ALLOC, None, a1)
  | (Some h, a1) =>
      do (st, ot, a2) <- ht_new mem initial num den seed a1;
      match ot with
      | None => do a3 <- release mem h a2; Ok (st, None, a3)
      | Some t => Ok (CC_OK, Some {| hs_table := t; hs_hdr := h |}, a2)
      end
  end.
Definition hs_destroy (s : hset) (a : alloc_st) : res alloc_st :=
  do a1 <- ht_destroy (hs_table s) a; release (ht_mem (hs_table s)) (hs_hdr s) a1.

Inductive hs_op := SAdd (k : N) | SRemove (k : N) | SRemoveAll | SContains (k : N) | SSize | SForeach | SIterAll (rm : list N).
(** The set operation as the table operation the adapter calls. *)
Definition hs_table_op (o : hs_op) : ht_op :=
  match o with
  | SAdd k => HAdd k 1 | SRemove k => HRemove k | SRemoveAll => HRemoveAll | SContains k => HContains k
  | SSize => HSize | SForeach => HForeachKey | SIterAll rm => HIterAll rm
  end.
Definition hs_step (s : hset) (o : hs_op) (a : alloc_st) : res (ht_out * hset * alloc_st) :=
  do (out, t', a') <- ht_step (hs_table s) (hs_table_op o) a;
  Ok (out, {| hs_table := t'; hs_hdr := hs_hdr s |}, a').

(** The ideal set: a list of elements, pairwise different up to [keqn]. *)
Definition set_mem (l : list N) (k : N) : bool := existsb (fun x => keqn x k) l.
Fixpoint set_del (l : list N) (k : N) : option (list N) :=
  match l with
  | [] => None
  | x :: r => if keqn x k then Some r else match set_del r k with Some r' => Some (x :: r') | None => None end
  end.
Definition spec_set_step (l : list N) (o : hs_op) : ht_out * list N :=
  match o with
  | SAdd k => (out_st CC_OK, if set_mem l k then l else k :: l)
  | SRemove k => match set_del l k with
                 | Some l' => (out_val CC_OK (Some 1), l')
                 | None => (out_val CC_ERR_KEY_NOT_FOUND None, l)
                 end
  | SRemoveAll => (out_st CC_OK, [])
  | SContains k => (out_val CC_OK (Some (if set_mem l k then 1 else 0)), l)
  | SSize => (out_val CC_OK (Some (lenN l)), l)
  | SForeach => (out_enum CC_OK l, l)
  | SIterAll rm =>
      ({| o_st := CC_OK; o_vals := []; o_enum := []; o_pairs := map (fun k => (k, 1)) l;
          o_sts := map (fun _ => CC_OK) (filter (fun k => existsb (N.eqb k) rm) l) |},
       filter (fun k => negb (existsb (N.eqb k) rm)) l)
  end.

End WithHash2.
