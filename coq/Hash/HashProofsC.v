(** Hash table proofs, part C: new_conf, resize (nothing lost, duplicated or misplaced), the whole
    add, remove_all, destroy, and the load bound. *)
From Coq Require Import Permutation.
From CC Require Import Base.Prelude Base.ListMem Base.Alloc Base.AllocProofs.
From CC Require Import Generated.Status Generated.Constants Generated.Guards Hash.HashModel Hash.HashProofsA Hash.HashProofsB.
Local Open Scope N_scope.

(* ------------------------------------------------------------------------------------------ *)
(** * Hash-independent facts *)

Lemma buckets_upto_ok b cap : lenN b = cap -> buckets_upto b cap = Ok b.
Proof.
  intros H. unfold buckets_upto. replace (lenN b <? cap) with false by lia.
  rewrite firstnN_all by lia. reflexivity.
Qed.

Lemma concat_repeat_nil {A} n : concat (repeat (@nil A) n) = [].
Proof. induction n; cbn; auto. Qed.
Lemma concat_map_nil {A B} (l : list B) : concat (map (fun _ => @nil A) l) = [].
Proof. induction l; cbn; auto. Qed.
Lemma getN_repeatN_inv {A} (x : A) n j y : getN (repeatN x n) j = Some y -> y = x.
Proof. unfold getN, repeatN. intros H. apply nth_error_In, repeat_spec in H. assumption. Qed.

Lemma filter_notin_nil l : filter (notin []) l = l.
Proof. induction l as [|b l IH]; cbn; [reflexivity|]. rewrite IH. reflexivity. Qed.
Lemma own_nil_live mem a L0 : own mem [] a L0 -> live a = L0.
Proof. intros [_ _ _ _ H]. rewrite filter_notin_nil in H. assumption. Qed.
Lemma own_nil_intro mem a : ledger_ok a -> 0 < next_id a -> own mem [] a (live a).
Proof.
  intros H1 H2. constructor; try assumption; [constructor|intros ? []|apply filter_notin_nil].
Qed.

(** remove_all / destroy: the entry blocks are released one by one. *)
Lemma free_chain_ok mem c : forall sz a rest L0,
  own mem (map e_id c ++ rest) a L0 ->
  exists a', free_chain mem c sz a = Ok (sz - lenN c, a') /\ own mem rest a' L0 /\
             plan a' = plan a /\ limit a' = limit a /\ nreq a' = nreq a.
Proof.
  induction c as [|e c IH]; intros sz a rest L0 Ho; cbn [free_chain map app] in *.
  - exists a. rewrite N.sub_0_r. auto.
  - destruct (own_release _ _ _ _ _ Ho) as (a1 & -> & Ho1 & Hp1 & Hl1 & Hn1). cbn [bind].
    destruct (IH (sz - 1) a1 rest L0 Ho1) as (a2 & -> & Ho2 & Hp2 & Hl2 & Hn2).
    exists a2. rewrite lenN_cons. split; [do 2 f_equal; lia|]. split; [assumption|]. split; [congruence|]. split; congruence.
Qed.
Lemma free_buckets_ok mem bs : forall sz a rest L0,
  own mem (map e_id (concat bs) ++ rest) a L0 ->
  exists a', free_buckets mem bs sz a = Ok (sz - lenN (concat bs), a') /\ own mem rest a' L0 /\
             plan a' = plan a /\ limit a' = limit a /\ nreq a' = nreq a.
Proof.
  induction bs as [|c bs IH]; intros sz a rest L0 Ho; cbn [free_buckets concat] in *.
  - exists a. rewrite N.sub_0_r. auto.
  - rewrite map_app, <- app_assoc in Ho.
    destruct (free_chain_ok mem c sz a _ L0 Ho) as (a1 & -> & Ho1 & Hp1 & Hl1 & Hn1). cbn [bind].
    destruct (IH (sz - lenN c) a1 rest L0 Ho1) as (a2 & -> & Ho2 & Hp2 & Hl2 & Hn2).
    exists a2. rewrite lenN_app. split; [do 2 f_equal; lia|]. split; [assumption|]. split; [congruence|]. split; congruence.
Qed.

(** move_entries: a permutation that places every entry by its cached hash. *)
Lemma move_chain_ok (Q : N -> entry -> Prop) dsz q c : dsz = 2 ^ q -> q <= 31 -> forall dst,
  lenN dst = dsz ->
  (forall j ch e, getN dst j = Some ch -> In e ch -> Q j e) ->
  (forall e, In e c -> Q (bidx dsz e) e) ->
  exists dst', move_chain c dst dsz = Ok dst' /\ lenN dst' = dsz /\ Permutation (concat dst') (c ++ concat dst) /\
    (forall j ch e, getN dst' j = Some ch -> In e ch -> Q j e).
Proof.
  intros Hd Hq. induction c as [|e c IH]; intros dst Hl HQ Hc; cbn [move_chain].
  - exists dst. auto.
  - assert (HdW : 0 < dsz < W).
    { subst dsz. pose proof (pow2_pos q). pose proof (pow2_le_W q Hq). unfold W. lia. }
    rewrite wsub1 by lia. fold (bidx dsz e).
    assert (Hi : bidx dsz e < lenN dst) by (rewrite Hl; unfold bidx; subst dsz; apply land_mask_lt).
    destruct (getN_lt dst _ Hi) as [ch Hch]. rewrite Hch. cbn [of_opt bind].
    destruct (getN_split _ _ _ Hch) as (D1 & D2 & -> & Hl1). rewrite <- Hl1, updN_mid. cbn [of_opt bind].
    destruct (IH (D1 ++ (e :: ch) :: D2)) as (dst' & -> & Hl' & HP & HQ').
    + rewrite <- Hl. rewrite !lenN_app, !lenN_cons. reflexivity.
    + intros j ch' x Hg Hx. destruct (N.eq_dec j (lenN D1)) as [->|Hne].
      * rewrite getN_mid in Hg. inversion Hg; subst. destruct Hx as [<-|Hx].
        -- rewrite Hl1. apply Hc. left. reflexivity.
        -- apply (HQ (lenN D1) ch x); [apply getN_mid|assumption].
      * apply (HQ j ch' x); [|assumption].
        destruct (N.lt_ge_cases j (lenN D1)).
        -- rewrite getN_app1 in * by assumption. assumption.
        -- rewrite getN_app2 in * by assumption. unfold getN in *.
           replace (N.to_nat (j - lenN D1)) with (S (N.to_nat (j - lenN D1 - 1))) in * by lia. cbn in *. assumption.
    + intros x Hx. apply Hc. right. assumption.
    + exists dst'. split; [reflexivity|]. split; [assumption|]. split; [|assumption].
      eapply Permutation_trans; [exact HP|]. rewrite !concat_mid. cbn [app].
      rewrite !(app_assoc c). apply Permutation_sym. apply Permutation_middle.
Qed.

Lemma move_buckets_ok (Q : N -> entry -> Prop) dsz q src : dsz = 2 ^ q -> q <= 31 -> forall dst,
  lenN dst = dsz ->
  (forall j ch e, getN dst j = Some ch -> In e ch -> Q j e) ->
  (forall e, In e (concat src) -> Q (bidx dsz e) e) ->
  exists dst', move_buckets src dst dsz = Ok dst' /\ lenN dst' = dsz /\ Permutation (concat dst') (concat src ++ concat dst) /\
    (forall j ch e, getN dst' j = Some ch -> In e ch -> Q j e).
Proof.
  intros Hd Hq. induction src as [|c src IH]; intros dst Hl HQ Hc; cbn [move_buckets concat].
  - exists dst. auto.
  - destruct (move_chain_ok Q dsz q c Hd Hq dst Hl HQ) as (d1 & -> & Hl1 & HP1 & HQ1).
    { intros e He. apply Hc. cbn [concat]. apply in_app_iff. tauto. }
    cbn [bind]. destruct (IH d1 Hl1 HQ1) as (d2 & -> & Hl2 & HP2 & HQ2).
    { intros e He. apply Hc. cbn [concat]. apply in_app_iff. tauto. }
    exists d2. split; [reflexivity|]. split; [assumption|]. split; [|assumption].
    eapply Permutation_trans; [exact HP2|]. rewrite <- app_assoc.
    eapply Permutation_trans; [apply Permutation_app_head; exact HP1|].
    rewrite !app_assoc. apply Permutation_app_tail. apply Permutation_app_comm.
Qed.

(** The threshold product is monotone in the capacity. *)
Lemma lf_mul_double cap num den : 2 * lf_mul cap num den <= lf_mul (2 * cap) num den.
Proof.
  unfold lf_mul. destruct (N.eq_dec den 0) as [->|Hd]; [destruct (cap * num), (2 * cap * num); cbn; lia|].
  replace (2 * cap * num) with (cap * num * 2) by lia.
  pose proof (N.div_mod (cap * num) den Hd).
  apply N.div_le_lower_bound; [assumption|].
  pose proof (N.mod_lt (cap * num) den Hd). nia.
Qed.

Section HashProofsC.
Variable hash : N -> N.
Variable keq : N -> N -> bool.
Hypothesis keq_refl : forall a, a <> 0 -> keq a a = true.
Hypothesis keq_sym : forall a b, a <> 0 -> b <> 0 -> keq a b = keq b a.
Hypothesis keq_trans : forall a b c, a <> 0 -> b <> 0 -> c <> 0 -> keq a b = true -> keq b c = true -> keq a c = true.
Hypothesis hash_compat : forall a b, a <> 0 -> b <> 0 -> keq a b = true -> hash a = hash b.
Set Default Proof Using "keq_refl keq_sym keq_trans hash_compat".
Local Notation SP l := (l keq keq_refl keq_sym keq_trans) (only parsing).
Local Notation HP l := (l hash keq keq_refl keq_sym keq_trans hash_compat) (only parsing).
Local Notation ht_wf := (ht_wf hash keq).
Local Notation ht_inv := (ht_inv hash keq).
Local Notation khash := (khash hash).
Local Notation nodup_k := (nodup_k keq).
Local Notation m_add := (m_add keq).
Local Notation m_get := (m_get keq).
Local Notation ht_add := (ht_add hash keq).
Local Notation ht_remove := (ht_remove hash keq).

(* ------------------------------------------------------------------------------------------ *)
(** * new_conf *)

Theorem ht_new_spec mem initial num den seed a L0 :
  own mem [] a L0 ->
  exists st ot a', ht_new mem initial num den seed a = Ok (st, ot, a') /\
    match ot with
    | Some t => st = CC_OK /\ ht_inv L0 t a' /\ ht_abs t = [] /\ ht_size t = 0 /\ ht_cap t = round_pow_two initial /\
                ht_mem t = mem /\ ht_num t = num /\ ht_den t = den /\ limit a' = limit a /\ plan a' = tl (tl (plan a))
    | None => st = CC_ERR_ALLOC /\ own mem [] a' L0 /\ limit a' = limit a
    end.
Proof.
  intros Ho. unfold ht_new.
  destruct (alloc mem SZ_TABLE a) as [[h|] a1] eqn:E1.
  - destruct (own_alloc_some _ _ _ _ _ _ _ Ho E1) as (Ho1 & _ & _ & Hp1 & Hl1).
    destruct (alloc mem (wmul (round_pow_two initial) SZ_PTR) a1) as [[b|] a2] eqn:E2.
    + destruct (own_alloc_some _ _ _ _ _ _ _ Ho1 E2) as (Ho2 & _ & _ & Hp2 & Hl2).
      do 3 eexists. split; [reflexivity|]. split; [reflexivity|].
      assert (Hent : concat (repeatN (@nil entry) (round_pow_two initial)) = []) by apply concat_repeat_nil.
      split; [split|].
      * constructor; cbn [ht_cap ht_buckets ht_size ht_thr ht_num ht_den]; unfold keys, entries; cbn [ht_buckets].
        -- apply round_pow_two_pow.
        -- apply lenN_repeatN.
        -- intros j c e Hg Hin. apply getN_repeatN_inv in Hg. subst c. destruct Hin.
        -- rewrite Hent. exact I.
        -- rewrite Hent. reflexivity.
        -- reflexivity.
      * unfold ids, entries. cbn [ht_mem ht_hdr ht_blk ht_buckets]. rewrite Hent. cbn [map].
        eapply own_perm; [apply perm_swap|exact Ho2].
      * unfold ht_abs, entries. cbn [ht_buckets ht_size ht_cap ht_mem ht_num ht_den]. rewrite Hent.
        repeat split; try reflexivity; congruence.
    + destruct (own_alloc_none _ _ _ _ _ _ Ho1 E2) as (Ho2 & Hp2 & Hl2 & _).
      destruct (own_release _ _ _ _ _ Ho2) as (a3 & -> & Ho3 & _ & Hl3 & _). cbn [bind].
      do 3 eexists. split; [reflexivity|]. split; [reflexivity|]. split; [assumption|congruence].
  - destruct (own_alloc_none _ _ _ _ _ _ Ho E1) as (Ho1 & _ & Hl1 & _).
    do 3 eexists. split; [reflexivity|]. cbn. auto.
Qed.

(* ------------------------------------------------------------------------------------------ *)
(** * resize *)

Lemma entries_perm_wf t t' :
  ht_wf t -> Permutation (entries t') (entries t) -> nodup_k (keys t') /\ lenN (entries t') = lenN (entries t).
Proof.
  intros Hw P. split.
  - apply (SP nodup_k_perm (keys t)); [|apply (wf_nodup _ _ t Hw)]. unfold keys. apply Permutation_map, Permutation_sym, P.
  - unfold lenN. rewrite (Permutation_length P). reflexivity.
Qed.

Theorem ht_resize_spec L0 t a : ht_inv L0 t a ->
  exists st t' a', ht_resize t ((N.shiftl (ht_cap t) 1) mod W) a = Ok (st, t', a') /\ ht_inv L0 t' a' /\
    ht_num t' = ht_num t /\ ht_den t' = ht_den t /\ ht_mem t' = ht_mem t /\ ht_size t' = ht_size t /\ limit a' = limit a /\
    ((st = CC_OK /\ Permutation (entries t') (entries t) /\ ht_cap t' = 2 * ht_cap t /\ ht_cap t <> MAX_POW_TWO /\
      plan a' = tl (plan a))
     \/ (st = CC_ERR_ALLOC /\ t' = t /\ live a' = live a /\ plan a' = tl (plan a) /\ ht_cap t <> MAX_POW_TWO /\
         (plan a = [] -> limit a < 2 * ht_cap t * SZ_ENTRY))
     \/ (st = CC_ERR_MAX_CAPACITY /\ t' = t /\ a' = a /\ ht_cap t = MAX_POW_TWO)).
Proof.
  intros [Hw Ho]. unfold ht_resize, g_ht_resize_max.
  destruct (ht_cap t =? MAX_POW_TWO) eqn:Emax.
  - do 3 eexists. split; [reflexivity|]. split; [split; assumption|]. do 5 (split; [reflexivity|]).
    right. right. repeat split. lia.
  - destruct (wf_pow _ _ t Hw) as (p & Hp & Ecap).
    assert (Hp30 : p <= 30).
    { destruct (N.eq_dec p 31) as [->|]; [|lia]. rewrite Ecap, MAX_POW_TWO_eq in Emax. lia. }
    rewrite Ecap. rewrite shl1_pow2 by assumption. set (nc := 2 ^ (p + 1)).
    assert (Hnc : nc = 2 * ht_cap t) by (unfold nc; rewrite Ecap, N.pow_add_r; change (2 ^ 1) with 2; lia).
    destruct (alloc (ht_mem t) (wmul nc SZ_ENTRY) a) as [[nb|] a1] eqn:Ea.
    + destruct (own_alloc_some _ _ _ _ _ _ _ Ho Ea) as (Ho1 & Hfresh & _ & Hpl & Hlim).
      rewrite buckets_upto_ok by (rewrite <- Ecap; apply (wf_len _ _ t Hw)). cbn [bind].
      destruct (move_buckets_ok (fun j e => bidx nc e = j /\ e_hash e = khash (e_key e)) nc (p + 1) (ht_buckets t)
                  eq_refl ltac:(lia) (repeatN [] nc)) as (newb & -> & Hlen & HP & HQ).
      * apply lenN_repeatN.
      * intros j ch e Hg Hin. apply getN_repeatN_inv in Hg. subst ch. destruct Hin.
      * intros e He. split; [reflexivity|]. apply (HP wf_entry_hash t e Hw He).
      * cbn [bind]. unfold repeatN in HP. rewrite concat_repeat_nil, app_nil_r in HP. fold (entries t) in HP.
        assert (Hperm : Permutation (nb :: ids t) (ht_blk t :: ht_hdr t :: nb :: map e_id (concat newb))).
        { unfold ids. eapply Permutation_trans; [apply perm_swap|].
          eapply Permutation_trans; [apply perm_skip, perm_swap|].
          eapply Permutation_trans; [apply perm_swap|]. do 3 constructor. apply Permutation_map, Permutation_sym, HP. }
        destruct (own_release _ _ _ _ _ (own_perm _ _ _ _ _ Hperm Ho1)) as (a2 & -> & Ho2 & Hp2 & Hl2 & _). cbn [bind].
        do 3 eexists. split; [reflexivity|].
        set (t' := {| ht_buckets := newb; ht_cap := nc; ht_size := ht_size t;
                      ht_thr := lf_mul nc (ht_num t) (ht_den t); ht_num := ht_num t; ht_den := ht_den t;
                      ht_seed := ht_seed t; ht_hdr := ht_hdr t; ht_blk := nb; ht_mem := ht_mem t |}).
        assert (HP' : Permutation (entries t') (entries t)) by exact HP.
        destruct (entries_perm_wf t t' Hw HP') as (Hnd & Hlen').
        split; [split|].
        -- constructor; cbn [t' ht_cap ht_buckets ht_size ht_thr ht_num ht_den]; try assumption; try reflexivity.
           ++ exists (p + 1). split; [lia|reflexivity].
           ++ rewrite Hlen'. apply (wf_size _ _ t Hw).
        -- exact Ho2.
        -- cbn [t' ht_num ht_den ht_mem ht_size ht_cap]. do 4 (split; [reflexivity|]). split; [congruence|]. left.
           rewrite <- Ecap. split; [reflexivity|]. split; [assumption|]. split; [assumption|]. split; [lia|congruence].
    + destruct (own_alloc_none _ _ _ _ _ _ Ho Ea) as (Ho1 & Hpl & Hlim & Hlive).
      do 3 eexists. split; [reflexivity|]. split; [split; assumption|]. do 4 (split; [reflexivity|]). split; [assumption|].
      right. left. do 4 (split; [auto|]). split; [lia|]. intros Hpe.
      assert (HncW : nc * SZ_ENTRY < W).
      { unfold nc, SZ_ENTRY. pose proof (pow2_le_W (p + 1) ltac:(lia)). unfold W. lia. }
      unfold wmul in Ea. rewrite N.mod_small in Ea by assumption.
      destruct (N.lt_ge_cases (limit a) (nc * SZ_ENTRY)) as [Hlt|Hge]; [rewrite <- Ecap, <- Hnc; assumption|].
      destruct (alloc_grants (ht_mem t) (nc * SZ_ENTRY) a Hpe Hge) as (a3 & Ea3 & _). congruence.
Qed.

(* ------------------------------------------------------------------------------------------ *)
(** * add *)

Definition is_fail (s : stat) : Prop := s = CC_ERR_ALLOC \/ s = CC_ERR_MAX_CAPACITY.

Theorem ht_add_spec L0 t a k v : ht_inv L0 t a ->
  exists st t' a', ht_add t k v a = Ok (st, t', a') /\ ht_inv L0 t' a' /\
    ht_num t' = ht_num t /\ ht_den t' = ht_den t /\ ht_mem t' = ht_mem t /\ limit a' = limit a /\
    (plan a = [] -> plan a' = []) /\
    (* capacity: unchanged, or doubled exactly when the load threshold had been reached *)
    ((ht_cap t' = ht_cap t /\ (st = CC_OK -> ht_size t < ht_thr t)) \/
     (ht_cap t' = 2 * ht_cap t /\ ht_thr t <= ht_size t /\ ht_cap t <> MAX_POW_TWO)) /\
    ((st = CC_OK /\ Permutation (ht_abs t') (m_add (ht_abs t) k v) /\
      (ht_size t' = ht_size t \/ (ht_size t' = ht_size t + 1 /\ m_get (ht_abs t) k = None)))
     \/ (st = CC_ERR_ALLOC /\ Permutation (ht_abs t') (ht_abs t) /\ ht_size t' = ht_size t /\
         (plan a = [] -> limit a < 2 * ht_cap t * SZ_ENTRY))
     \/ (st = CC_ERR_MAX_CAPACITY /\ t' = t /\ a' = a /\ ht_cap t = MAX_POW_TWO /\ ht_thr t <= ht_size t)).
Proof.
  intros Hi. rewrite (HP ht_add_unfold). unfold g_ht_add_resize.
  destruct (ht_thr t <=? ht_size t) eqn:Eth.
  - destruct (ht_resize_spec L0 t a Hi) as (st & t1 & a1 & -> & Hi1 & Hn1 & Hd1 & Hm1 & Hs1 & Hl1 & Hcase). cbn [bind].
    destruct Hcase as [(-> & HP1 & Hc1 & Hmax & Hpl1)|[(-> & -> & Hlive & Hpl1 & Hmax & Hgr)|(-> & -> & -> & Hmax)]].
    + cbn [stat_eqb stat_code N.eqb negb]. destruct Hi1 as [Hw1 Ho1].
      rewrite (HP add_core_eq) by assumption.
      destruct (HP add_gen_spec L0 t1 a1 k v (conj Hw1 Ho1)) as (st & t' & a' & -> & Hi' & Hc' & Ht' & Hn' & Hd' & Hm' & Hcase).
      assert (Habs : Permutation (ht_abs t1) (ht_abs t)) by (apply Permutation_map; assumption).
      assert (Hnd1 : nodup_keys keq (ht_abs t1)).
      { unfold nodup_keys, ht_abs. rewrite map_map. apply (wf_nodup _ _ t1 Hw1). }
      do 3 eexists. split; [reflexivity|]. split; [assumption|]. split; [congruence|]. split; [congruence|]. split; [congruence|].
      destruct Hcase as [(-> & HPa & Hsz & Hpa & Hlim)|(-> & -> & Hlive & Hpl & Hlim & Hgr)].
      * split; [congruence|].
        split; [intros Hpe; rewrite Hpe in Hpl1; cbn in Hpl1; destruct Hpa as [Hq|Hq]; rewrite Hq, Hpl1; reflexivity|].
        split; [right; split; [congruence|split; [lia|assumption]]|]. left.
        split; [reflexivity|]. split.
        -- eapply Permutation_trans; [exact HPa|]. apply (SP m_add_perm); assumption.
        -- rewrite <- (SP m_get_perm _ _ k Hnd1 Habs). rewrite <- Hs1. assumption.
      * split; [congruence|].
        split; [intros Hpe; rewrite Hpe in Hpl1; cbn in Hpl1; rewrite Hpl, Hpl1; reflexivity|].
        split; [right; split; [congruence|split; [lia|assumption]]|]. right. left.
        split; [reflexivity|]. split; [assumption|]. split; [assumption|]. intros Hpe.
        (* the resize consumed the (empty) plan's first answer: the plan is still empty *)
        assert (Hp1e : plan a1 = []) by (rewrite Hpl1, Hpe; reflexivity).
        specialize (Hgr Hp1e). unfold SZ_ENTRY in *. destruct (HP wf_cap_bounds t (proj1 Hi)) as (H0 & _). lia.
    + cbn [stat_eqb stat_code N.eqb negb]. do 3 eexists. split; [reflexivity|]. split; [assumption|].
      do 3 (split; [reflexivity|]). split; [assumption|]. split; [intros Hpe; rewrite Hpl1, Hpe; reflexivity|].
      split; [left; split; [reflexivity|discriminate]|]. right. left.
      split; [reflexivity|]. split; [apply Permutation_refl|]. split; [reflexivity|assumption].
    + cbn [stat_eqb stat_code N.eqb negb]. do 3 eexists. split; [reflexivity|]. split; [assumption|].
      do 4 (split; [reflexivity|]). split; [auto|]. split; [left; split; [reflexivity|discriminate]|]. right. right.
      repeat split; try assumption. lia.
  - cbn [bind stat_eqb stat_code N.eqb negb]. destruct Hi as [Hw Ho].
    rewrite (HP add_core_eq) by assumption.
    destruct (HP add_gen_spec L0 t a k v (conj Hw Ho)) as (st & t' & a' & -> & Hi' & Hc' & Ht' & Hn' & Hd' & Hm' & Hcase).
    do 3 eexists. split; [reflexivity|]. split; [assumption|]. do 3 (split; [assumption|]).
    destruct Hcase as [(-> & HPa & Hsz & Hpa & Hlim)|(-> & -> & Hlive & Hpl & Hlim & Hgr)].
    + split; [assumption|]. split; [intros Hpe; destruct Hpa as [Hq|Hq]; rewrite Hq, Hpe; reflexivity|].
      split; [left; split; [assumption|intros _; lia]|]. left. auto.
    + split; [assumption|]. split; [intros Hpe; rewrite Hpl, Hpe; reflexivity|].
      split; [left; split; [reflexivity|discriminate]|]. right. left.
      split; [reflexivity|]. split; [apply Permutation_refl|]. split; [reflexivity|]. intros Hpe. specialize (Hgr Hpe).
      unfold SZ_ENTRY in *. destruct (HP wf_cap_bounds t Hw) as (H0 & _). lia.
Qed.

(* ------------------------------------------------------------------------------------------ *)
(** * remove *)

Theorem ht_remove_spec L0 t a k : ht_inv L0 t a ->
  exists st v t' a', ht_remove t k a = Ok (st, v, t', a') /\ ht_inv L0 t' a' /\
    ht_cap t' = ht_cap t /\ ht_thr t' = ht_thr t /\ ht_num t' = ht_num t /\ ht_den t' = ht_den t /\ ht_mem t' = ht_mem t /\
    plan a' = plan a /\ limit a' = limit a /\
    match m_del keq (ht_abs t) k with
    | Some (x, m') => st = CC_OK /\ v = Some x /\ ht_abs t' = m' /\ ht_size t' + 1 = ht_size t /\
                      exists B1 p1 e p2 B2, ht_buckets t = B1 ++ (p1 ++ e :: p2) :: B2 /\
                                            ht_buckets t' = B1 ++ (p1 ++ p2) :: B2 /\ mt keq k e = true /\
                                            (forall y, In y (concat B1 ++ p1) -> mt keq k y = false)
    | None => st = CC_ERR_KEY_NOT_FOUND /\ v = None /\ t' = t /\ a' = a
    end.
Proof.
  intros Hi. rewrite (HP ht_remove_eq) by apply Hi. apply (HP remove_gen_spec). assumption.
Qed.

(* ------------------------------------------------------------------------------------------ *)
(** * remove_all, destroy *)

Theorem ht_remove_all_spec L0 t a : ht_inv L0 t a ->
  exists t' a', ht_remove_all t a = Ok (t', a') /\ ht_inv L0 t' a' /\ ht_abs t' = [] /\ ht_size t' = 0 /\
    ht_cap t' = ht_cap t /\ ht_thr t' = ht_thr t /\ ht_num t' = ht_num t /\ ht_den t' = ht_den t /\ ht_mem t' = ht_mem t /\
    plan a' = plan a /\ limit a' = limit a.
Proof.
  intros [Hw Ho]. unfold ht_remove_all. rewrite buckets_upto_ok by apply (wf_len _ _ t Hw). cbn [bind].
  assert (Hperm : Permutation (ids t) (map e_id (concat (ht_buckets t)) ++ [ht_hdr t; ht_blk t])).
  { unfold ids, entries. change (ht_hdr t :: ht_blk t :: map e_id (concat (ht_buckets t)))
      with ([ht_hdr t; ht_blk t] ++ map e_id (concat (ht_buckets t))). apply Permutation_app_comm. }
  destruct (free_buckets_ok (ht_mem t) (ht_buckets t) (ht_size t) a _ L0 (own_perm _ _ _ _ _ Hperm Ho))
    as (a1 & -> & Ho1 & Hp1 & Hl1 & _). cbn [bind].
  rewrite skipnN_all by (rewrite (wf_len _ _ t Hw); lia). rewrite app_nil_r.
  do 2 eexists. split; [reflexivity|].
  assert (Hent : concat (map (fun _ : list entry => @nil entry) (ht_buckets t)) = []) by apply concat_map_nil.
  split; [split|].
  - destruct Hw as [Hpow Hlen Hpl Hnd Hsz Hthr].
    constructor; cbn [set_tbl ht_cap ht_buckets ht_size ht_thr ht_num ht_den]; unfold keys, entries; cbn [set_tbl ht_buckets];
      try assumption.
    + rewrite <- Hlen. unfold lenN. rewrite map_length. reflexivity.
    + intros j c e Hg Hin. unfold getN in Hg. rewrite nth_error_map in Hg.
      destruct (nth_error (ht_buckets t) (N.to_nat j)); cbn in Hg; [|discriminate]. inversion Hg; subst. destruct Hin.
    + rewrite Hent. exact I.
    + rewrite Hent, Hsz. fold (entries t). cbn. lia.
  - unfold ids, entries. cbn [set_tbl ht_mem ht_hdr ht_blk ht_buckets]. rewrite Hent. exact Ho1.
  - unfold ht_abs, entries. cbn [set_tbl ht_buckets ht_size ht_cap ht_thr ht_num ht_den ht_mem]. rewrite Hent.
    rewrite (wf_size _ _ t Hw). fold (entries t). repeat split; try reflexivity; try assumption. lia.
Qed.

Theorem ht_destroy_spec L0 t a : ht_inv L0 t a ->
  exists a', ht_destroy t a = Ok a' /\ live a' = L0 /\ own (ht_mem t) [] a' L0.
Proof.
  intros [Hw Ho]. unfold ht_destroy. rewrite buckets_upto_ok by apply (wf_len _ _ t Hw). cbn [bind].
  assert (Hperm : Permutation (ids t) (map e_id (concat (ht_buckets t)) ++ [ht_blk t; ht_hdr t])).
  { unfold ids, entries. eapply Permutation_trans; [apply perm_swap|].
    change (ht_blk t :: ht_hdr t :: map e_id (concat (ht_buckets t)))
      with ([ht_blk t; ht_hdr t] ++ map e_id (concat (ht_buckets t))). apply Permutation_app_comm. }
  destruct (free_buckets_ok (ht_mem t) (ht_buckets t) 0 a _ L0 (own_perm _ _ _ _ _ Hperm Ho))
    as (a1 & -> & Ho1 & _). cbn [bind].
  destruct (own_release _ _ _ _ _ Ho1) as (a2 & -> & Ho2 & _). cbn [bind].
  destruct (own_release _ _ _ _ _ Ho2) as (a3 & -> & Ho3 & _).
  exists a3. split; [reflexivity|]. split; [apply (own_nil_live _ _ _ Ho3)|assumption].
Qed.

(* ------------------------------------------------------------------------------------------ *)
(** * The load bound (C20) *)

(** [size <= threshold] after every operation, provided the table starts with [1 <= capacity * load]. *)
Definition load_ok (t : htable) : Prop := ht_size t <= ht_thr t /\ 1 <= ht_thr t.

Theorem ht_add_load L0 t a k v st t' a' :
  ht_inv L0 t a -> load_ok t -> ht_add t k v a = Ok (st, t', a') -> load_ok t'.
Proof.
  intros Hi [Hs H1] E. destruct (ht_add_spec L0 t a k v Hi) as (st0 & t0 & a0 & E0 & Hi' & Hn & Hd & _ & _ & _ & Hcap & Hcase).
  rewrite E in E0. inversion E0; subst st0 t0 a0; clear E0.
  pose proof (wf_thr _ _ t (proj1 Hi)) as Ht. pose proof (wf_thr _ _ t' (proj1 Hi')) as Ht'.
  unfold load_ok. rewrite Hn, Hd in Ht'.
  destruct Hcap as [(Hc & Hlt)|(Hc & Hge & _)].
  - rewrite Hc, <- Ht in Ht'. rewrite Ht'.
    destruct Hcase as [(-> & _ & [Hsz|(Hsz & _)])|[(_ & _ & Hsz & _)|(_ & -> & _)]]; try lia.
  - rewrite Hc in Ht'. pose proof (lf_mul_double (ht_cap t) (ht_num t) (ht_den t)) as Hdbl. rewrite <- Ht, <- Ht' in Hdbl.
    destruct Hcase as [(_ & _ & [Hsz|(Hsz & _)])|[(_ & _ & Hsz & _)|(_ & -> & _)]]; lia.
Qed.

End HashProofsC.
