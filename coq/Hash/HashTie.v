(** The model's [round_pow_two] is the function the translator reads off the source (Generated/Funcs.v,
    re-translated on every run and proved equal to this reference in Generated/SrcEq_hashtable.v). *)
From CC Require Import Base.Prelude Generated.Constants Generated.Guards Generated.Funcs Hash.HashModel.
Local Open Scope N_scope.

Lemma round_pow_two_is_source n : f_ht_round_pow_two n = round_pow_two n.
Proof.
  unfold f_ht_round_pow_two, round_pow_two, g_ht_rpt_max, g_ht_rpt_zero, smear. reflexivity.
Qed.
