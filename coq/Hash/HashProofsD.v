(** Hash table proofs, part D: enumerations (foreach, get_keys, get_values) and the iterator
    (init / next yield every entry once, in bucket order; removal through the iterator deletes exactly
    the yielded entry and leaves the rest of the traversal untouched). *)
From Coq Require Import Permutation.
From CC Require Import Base.Prelude Base.ListMem Base.Alloc Base.AllocProofs.
From CC Require Import Generated.Status Generated.Constants Generated.Guards.
From CC Require Import Hash.HashModel Hash.HashProofsA Hash.HashProofsB Hash.HashProofsC.
Local Open Scope N_scope.

(* ------------------------------------------------------------------------------------------ *)
(** * Two decompositions of one list *)

Lemma app_cons_eq_cases {A} (l1 : list A) a l2 : forall m1 b m2,
  l1 ++ a :: l2 = m1 ++ b :: m2 ->
  (exists M, m1 = l1 ++ a :: M /\ l2 = M ++ b :: m2) \/ (l1 = m1 /\ a = b /\ l2 = m2) \/
  (exists M, l1 = m1 ++ b :: M /\ m2 = M ++ a :: l2).
Proof.
  induction l1 as [|x l1 IH]; intros m1 b m2 H.
  - destruct m1 as [|y m1]; cbn in H; inversion H; subst.
    + right. left. auto.
    + left. exists m1. auto.
  - destruct m1 as [|y m1]; cbn in H; inversion H; subst.
    + right. right. exists l1. auto.
    + destruct (IH _ _ _ H2) as [(M & -> & ->)|[(-> & -> & ->)|(M & -> & ->)]].
      * left. exists M. auto.
      * right. left. auto.
      * right. right. exists M. auto.
Qed.

Lemma nodup_split_unique {A} (l1 : list A) a l2 m1 m2 :
  NoDup (l1 ++ a :: l2) -> l1 ++ a :: l2 = m1 ++ a :: m2 -> l1 = m1 /\ l2 = m2.
Proof.
  intros Hnd H. destruct (app_cons_eq_cases _ _ _ _ _ _ H) as [(M & -> & ->)|[(-> & _ & ->)|(M & -> & ->)]].
  - exfalso. apply NoDup_remove_2 in Hnd. apply Hnd. rewrite in_app_iff. right. apply in_elt.
  - auto.
  - exfalso. rewrite <- app_assoc in Hnd. cbn in Hnd. apply NoDup_remove_2 in Hnd. apply Hnd.
    rewrite in_app_iff. right. rewrite in_app_iff. right. left. reflexivity.
Qed.

Lemma filter_len_le {A} (f : A -> bool) l : (length (filter f l) <= length l)%nat.
Proof. induction l as [|x l IH]; cbn; [lia|]. destruct (f x); cbn; lia. Qed.
Lemma NoDup_app_l {A} (l1 l2 : list A) : NoDup (l1 ++ l2) -> NoDup l1.
Proof. induction l1; cbn; intros H; [constructor|]. inversion H; subst. constructor; [rewrite in_app_iff in *; tauto|auto]. Qed.
Lemma NoDup_app_r {A} (l1 l2 : list A) : NoDup (l1 ++ l2) -> NoDup l2.
Proof. induction l1; cbn; intros H; [assumption|]. inversion H; auto. Qed.
Lemma NoDup_app_disj {A} (l1 l2 : list A) x : NoDup (l1 ++ l2) -> In x l1 -> In x l2 -> False.
Proof.
  induction l1; cbn; intros H H1 H2; [assumption|]. inversion H; subst.
  destruct H1 as [->|H1]; [apply H4; rewrite in_app_iff; tauto|auto].
Qed.

(* ------------------------------------------------------------------------------------------ *)
(** * The CC_Array built by get_keys / get_values never grows *)

Lemma arr_add_all_ok mem xs : forall ar a,
  lenN (ar_items ar) + lenN xs <= ar_cap ar ->
  arr_add_all mem ar xs a =
  Ok (CC_OK, {| ar_items := ar_items ar ++ xs; ar_cap := ar_cap ar; ar_hdr := ar_hdr ar; ar_buf := ar_buf ar |}, a).
Proof.
  induction xs as [|x xs IH]; intros ar a H; cbn [arr_add_all].
  - rewrite app_nil_r. destruct ar; reflexivity.
  - rewrite lenN_cons in H. unfold arr_add, g_ht_array_add_full.
    replace (ar_cap ar <=? lenN (ar_items ar)) with false by lia. cbn [bind stat_eqb stat_code N.eqb negb].
    rewrite IH; cbn [ar_items ar_cap ar_hdr ar_buf].
    + rewrite <- app_assoc. reflexivity.
    + rewrite lenN_app, lenN_cons. cbn. lia.
Qed.

(** Allocating a block and releasing it again restores the ledger exactly. *)
Lemma alloc_release_live t n a id a1 a2 :
  alloc t n a = (Some id, a1) -> live a2 = live a1 -> exists a3, release t id a2 = Ok a3 /\ live a3 = live a.
Proof.
  intros E Hl. pose proof (alloc_cases t n a) as C. rewrite E in C. destruct C as (-> & Hl1 & _).
  rewrite Hl1 in Hl. destruct (release_head _ _ _ _ _ Hl) as (a3 & -> & Hl3 & _). eauto.
Qed.

(* ------------------------------------------------------------------------------------------ *)
(** * Iterator positions *)

Definition hd_id (c : list entry) : N := match c with [] => 0 | e :: _ => e_id e end.

(** [iter_pos bs it rem]: the iterator will still yield exactly [rem]. *)
Inductive iter_pos (bs : list (list entry)) (it : hiter) : list entry -> Prop :=
| ip_end : it_next it = 0 -> iter_pos bs it []
| ip_at B1 pre e c B2 :
    bs = B1 ++ (pre ++ e :: c) :: B2 -> it_bucket it = lenN B1 -> it_next it = e_id e ->
    iter_pos bs it (e :: c ++ concat B2).

Definition ids_ok (bs : list (list entry)) : Prop :=
  NoDup (map e_id (concat bs)) /\ forall e, In e (concat bs) -> e_id e <> 0.

Lemma chain_locate_none id c : (forall x, In x c -> e_id x <> id) -> chain_locate id c = None.
Proof.
  induction c as [|e c IH]; intros H; cbn; [reflexivity|].
  replace (e_id e =? id) with false by (specialize (H e (or_introl eq_refl)); lia).
  apply IH. intros x Hx. apply H. right. assumption.
Qed.
Lemma chain_locate_mid pre e c : (forall x, In x pre -> e_id x <> e_id e) ->
  chain_locate (e_id e) (pre ++ e :: c) = Some (e, hd_id c).
Proof.
  induction pre as [|p pre IH]; intros H; cbn.
  - rewrite N.eqb_refl. destruct c; reflexivity.
  - replace (e_id p =? e_id e) with false by (specialize (H p (or_introl eq_refl)); lia).
    apply IH. intros x Hx. apply H. right. assumption.
Qed.
Lemma locate_mid B1 pre e c B2 :
  NoDup (map e_id (concat (B1 ++ (pre ++ e :: c) :: B2))) ->
  locate (e_id e) (B1 ++ (pre ++ e :: c) :: B2) = Some (e, hd_id c).
Proof.
  rewrite concat_mid, !map_app. cbn [map]. intros Hnd.
  assert (H1 : forall x, In x (concat B1) -> e_id x <> e_id e).
  { intros x Hx Eq. eapply (NoDup_app_disj _ _ (e_id e) Hnd).
    - rewrite <- Eq. apply in_map. assumption.
    - rewrite in_app_iff. left. rewrite in_app_iff. right. left. reflexivity. }
  assert (H2 : forall x, In x pre -> e_id x <> e_id e).
  { intros x Hx Eq. apply NoDup_app_r, NoDup_app_l in Hnd.
    eapply (NoDup_app_disj _ _ (e_id e) Hnd); [rewrite <- Eq; apply in_map; assumption|left; reflexivity]. }
  clear Hnd. induction B1 as [|ch B1 IH]; cbn [app locate].
  - rewrite chain_locate_mid by assumption. reflexivity.
  - rewrite chain_locate_none.
    + apply IH. intros x Hx. apply H1. cbn [concat]. rewrite in_app_iff. tauto.
    + intros x Hx. apply H1. cbn [concat]. rewrite in_app_iff. tauto.
Qed.

Lemma first_nonempty_spec bs : forall i d,
  (concat bs = [] /\ first_nonempty bs i d = (d, 0)) \/
  (exists E1 e c E2, bs = E1 ++ (e :: c) :: E2 /\ concat E1 = [] /\ first_nonempty bs i d = (i + lenN E1, e_id e)).
Proof.
  induction bs as [|ch bs IH]; intros i d; cbn [first_nonempty concat].
  - left. auto.
  - destruct ch as [|e c].
    + destruct (IH (i + 1) d) as [(Hc & ->)|(E1 & e & c & E2 & -> & Hc & ->)].
      * left. auto.
      * right. exists ([] :: E1), e, c, E2. split; [reflexivity|]. split; [assumption|].
        rewrite lenN_cons. f_equal. lia.
    + right. exists [], e, c, bs. split; [reflexivity|]. split; [reflexivity|]. cbn. f_equal. lia.
Qed.

(** A fresh iterator stands before the first entry. *)
Lemma iter_init_pos t : lenN (ht_buckets t) = ht_cap t ->
  exists it, ht_iter_init t = Ok it /\ iter_pos (ht_buckets t) it (concat (ht_buckets t)) /\ it_prev it = 0.
Proof.
  intros Hl. unfold ht_iter_init. rewrite buckets_upto_ok by assumption. cbn [bind].
  destruct (first_nonempty_spec (ht_buckets t) 0 0) as [(Hc & ->)|(E1 & e & c & E2 & E & Hc & ->)].
  - eexists. split; [reflexivity|]. rewrite Hc. split; [apply ip_end|]; reflexivity.
  - eexists. split; [reflexivity|]. split; [|reflexivity].
    assert (Hc2 : concat (ht_buckets t) = e :: c ++ concat E2) by (rewrite E, concat_mid, Hc; reflexivity).
    rewrite Hc2. apply (ip_at _ _ E1 [] e c E2); [assumption|cbn; lia|reflexivity].
Qed.

(** One call of iter_next. *)
Lemma iter_next_spec t it rem :
  lenN (ht_buckets t) = ht_cap t -> ht_cap t < W - 1 -> ids_ok (ht_buckets t) -> iter_pos (ht_buckets t) it rem ->
  match rem with
  | [] => ht_iter_next t it = Ok (CC_ITER_END, None, it)
  | e :: r => exists it', ht_iter_next t it = Ok (CC_OK, Some (kv e), it') /\ iter_pos (ht_buckets t) it' r /\
                          it_prev it' = e_id e
  end.
Proof.
  intros Hl HW [Hnd Hnz] Hpos. destruct Hpos as [Hn|B1 pre e c B2 E Hb Hn]; unfold ht_iter_next.
  - rewrite Hn. reflexivity.
  - assert (He0 : e_id e <> 0).
    { apply Hnz. rewrite E, concat_mid. rewrite in_app_iff. right. rewrite in_app_iff. left. apply in_elt. }
    rewrite Hn. replace (e_id e =? 0) with false by lia.
    assert (Hloc : locate (e_id e) (ht_buckets t) = Some (e, hd_id c)).
    { rewrite E. apply locate_mid. rewrite <- E. assumption. }
    rewrite Hloc. cbn [of_opt bind].
    destruct c as [|e2 c]; cbn [hd_id].
    + (* last entry of its chain: find the next non-empty bucket *)
      cbn [N.eqb negb]. rewrite buckets_upto_ok by assumption. cbn [bind].
      assert (HB1 : lenN B1 < ht_cap t).
      { rewrite <- Hl, E. rewrite lenN_app, lenN_cons. lia. }
      rewrite Hb. unfold wadd. rewrite N.mod_small by lia.
      assert (Hsk : skipnN (lenN B1 + 1) (ht_buckets t) = B2) by (rewrite E; apply skipnN_mid).
      rewrite Hsk. cbn [app].
      destruct (first_nonempty_spec B2 (lenN B1 + 1) (lenN B1)) as [(Hc & ->)|(E1 & x & c2 & E2 & EB & Hc & ->)].
      * eexists. split; [reflexivity|]. rewrite Hc. split; [apply ip_end; reflexivity|reflexivity].
      * eexists. split; [reflexivity|]. split; [|reflexivity].
        rewrite EB, concat_mid, Hc. cbn [app].
        apply (ip_at _ _ (B1 ++ (pre ++ [e]) :: E1) [] x c2 E2); cbn [it_bucket it_next app].
        -- rewrite E, EB. rewrite <- app_assoc. reflexivity.
        -- rewrite lenN_app, lenN_cons. lia.
        -- reflexivity.
    + assert (He2 : e_id e2 <> 0).
      { apply Hnz. rewrite E, concat_mid. rewrite in_app_iff. right. rewrite in_app_iff. left.
        rewrite in_app_iff. right. right. left. reflexivity. }
      replace (e_id e2 =? 0) with false by lia. cbn [negb].
      eexists. split; [reflexivity|]. split; [|reflexivity]. cbn [app].
      apply (ip_at _ _ B1 (pre ++ [e]) e2 c B2); cbn [it_bucket it_next]; [|assumption|reflexivity].
      rewrite E. rewrite <- app_assoc. reflexivity.
Qed.

(** Removing an already visited entry from its chain does not disturb the position. *)
Lemma iter_pos_remove B1 p1 e p2 B2 it rem :
  NoDup (concat (B1 ++ (p1 ++ e :: p2) :: B2)) ->
  iter_pos (B1 ++ (p1 ++ e :: p2) :: B2) it rem -> ~ In e rem ->
  iter_pos (B1 ++ (p1 ++ p2) :: B2) it rem.
Proof.
  intros Hnd Hpos Hnin. inversion Hpos as [Hn|C1 pre x c C2 E Hb Hn Hrem]; subst.
  - apply ip_end. assumption.
  - destruct (app_cons_eq_cases _ _ _ _ _ _ E) as [(M & -> & ->)|[(-> & Hch & ->)|(M & -> & ->)]].
    + (* the removed entry sits in an earlier bucket *)
      replace ((B1 ++ (p1 ++ p2) :: M ++ (pre ++ x :: c) :: C2)) with ((B1 ++ (p1 ++ p2) :: M) ++ (pre ++ x :: c) :: C2)
        by (rewrite <- app_assoc; reflexivity).
      apply (ip_at _ _ (B1 ++ (p1 ++ p2) :: M) pre x c C2); [reflexivity| |assumption].
      rewrite Hb. rewrite !lenN_app, !lenN_cons. reflexivity.
    + (* same bucket: it precedes the position *)
      assert (Hpre : In e pre).
      { assert (Hin : In e (pre ++ x :: c)) by (rewrite <- Hch; apply in_elt).
        apply in_app_iff in Hin. destruct Hin as [Hin|Hin]; [assumption|].
        exfalso. apply Hnin. destruct Hin as [<-|Hin]; [left; reflexivity|right; rewrite in_app_iff; tauto]. }
      apply in_split in Hpre. destruct Hpre as (q1 & q2 & ->).
      rewrite <- app_assoc in Hch. cbn [app] in Hch.
      assert (Hndc : NoDup (p1 ++ e :: p2)).
      { rewrite concat_mid in Hnd. apply NoDup_app_r, NoDup_app_l in Hnd. assumption. }
      destruct (nodup_split_unique _ _ _ _ _ Hndc Hch) as (-> & ->).
      replace (q1 ++ q2 ++ x :: c) with ((q1 ++ q2) ++ x :: c) by (rewrite <- app_assoc; reflexivity).
      apply (ip_at _ _ C1 (q1 ++ q2) x c C2); [reflexivity|assumption|assumption].
    + (* a later bucket: the entry would still be ahead *)
      exfalso. apply Hnin. right. rewrite in_app_iff. right. rewrite concat_mid.
      rewrite in_app_iff. right. rewrite in_app_iff. left. apply in_elt.
Qed.

Section HashProofsD.
Variable hash : N -> N.
Variable keq : N -> N -> bool.
Hypothesis keq_refl : forall a, a <> 0 -> keq a a = true.
Hypothesis keq_sym : forall a b, a <> 0 -> b <> 0 -> keq a b = keq b a.
Hypothesis keq_trans : forall a b c, a <> 0 -> b <> 0 -> c <> 0 -> keq a b = true -> keq b c = true -> keq a c = true.
Hypothesis hash_compat : forall a b, a <> 0 -> b <> 0 -> keq a b = true -> hash a = hash b.
Set Default Proof Using "keq_refl keq_sym keq_trans hash_compat".
Local Notation SP l := (l keq keq_refl keq_sym keq_trans) (only parsing).
Local Notation HP l := (l hash keq keq_refl keq_sym keq_trans hash_compat) (only parsing).
Local Notation ht_wf := (ht_wf hash keq).
Local Notation ht_inv := (ht_inv hash keq).
Local Notation nodup_k := (nodup_k keq).
Local Notation keqn := (keqn keq).
Local Notation ht_remove := (ht_remove hash keq).
Local Notation ht_iter_remove := (ht_iter_remove hash keq).
Local Notation iter_loop := (iter_loop hash keq).
Local Notation ht_iter_all := (ht_iter_all hash keq).

(* ------------------------------------------------------------------------------------------ *)
(** * Enumerations *)

Theorem ht_foreach_spec f t : ht_wf t -> ht_foreach f t = Ok (map f (entries t)).
Proof. intros Hw. unfold ht_foreach. rewrite buckets_upto_ok by apply (wf_len _ _ t Hw). reflexivity. Qed.

(** get_keys / get_values: on success the array holds the projection of every entry in bucket order
    and owns two fresh blocks; on failure nothing is left allocated and the ledger is literally unchanged. *)
Theorem ht_collect_spec f L0 t a : ht_inv L0 t a ->
  exists st oar a', ht_collect f t a = Ok (st, oar, a') /\ limit a' = limit a /\ (plan a = [] -> plan a' = []) /\
    match oar with
    | Some ar => st = CC_OK /\ ar_items ar = map f (entries t) /\ ar_cap ar = (if 0 <? ht_size t then ht_size t else 1) /\
                 own (ht_mem t) (ar_buf ar :: ar_hdr ar :: ids t) a' L0 /\ plan a' = tl (tl (plan a))
    | None => (st = CC_ERR_ALLOC \/ (st = CC_ERR_INVALID_CAPACITY /\ 2 ^ 62 <= ht_size t /\ a' = a)) /\
              own (ht_mem t) (ids t) a' L0 /\ live a' = live a /\
              (plan a = [] -> st = CC_ERR_ALLOC -> limit a < SZ_ARRAY \/ limit a < 8 * ht_size t \/ W <= 8 * ht_size t)
    end.
Proof.
  intros [Hw Ho]. unfold ht_collect. set (cap := if 0 <? ht_size t then ht_size t else 1).
  assert (Hcap : 0 < cap /\ ht_size t <= cap /\ (cap = ht_size t \/ (cap = 1 /\ ht_size t = 0))) by (unfold cap; destruct (0 <? ht_size t) eqn:E; lia).
  unfold arr_new. replace (cap =? 0) with false by lia. cbn [orb].
  change (DEFAULT_EXPANSION_FACTOR_num / DEFAULT_EXPANSION_FACTOR_den) with 2.
  destruct (CC_MAX_ELEMENTS / cap <=? 2) eqn:Ebig.
  - cbn [bind]. do 3 eexists. split; [reflexivity|]. split; [reflexivity|]. split; [auto|]. split; [|split; [assumption|split; [reflexivity|]]].
    + right. split; [reflexivity|]. split; [|reflexivity].
      assert (Hq : CC_MAX_ELEMENTS / cap <= 2) by lia.
      assert (Hm : CC_MAX_ELEMENTS = 18446744073709551614) by reflexivity.
      assert (CC_MAX_ELEMENTS < cap * 3).
      { pose proof (N.div_mod CC_MAX_ELEMENTS cap ltac:(lia)). pose proof (N.mod_lt CC_MAX_ELEMENTS cap ltac:(lia)). nia. }
      change (2 ^ 62) with 4611686018427387904. lia.
    + intros _ Hst. discriminate.
  - destruct (alloc (ht_mem t) SZ_ARRAY a) as [[h|] a1] eqn:E1.
    + destruct (own_alloc_some _ _ _ _ _ _ _ Ho E1) as (Ho1 & _ & _ & Hp1 & Hl1).
      destruct (alloc (ht_mem t) (wmul cap SZ_PTR) a1) as [[b|] a2] eqn:E2.
      * destruct (own_alloc_some _ _ _ _ _ _ _ Ho1 E2) as (Ho2 & _ & _ & Hp2 & Hl2).
        cbn [bind]. rewrite buckets_upto_ok by apply (wf_len _ _ t Hw). cbn [bind]. fold (entries t).
        rewrite arr_add_all_ok.
        -- cbn [bind stat_eqb stat_code N.eqb negb ar_items app]. do 3 eexists. split; [reflexivity|].
           split; [congruence|]. split; [intros Hpe; rewrite Hp2, Hp1, Hpe; reflexivity|].
           cbn [ar_items ar_cap ar_buf ar_hdr]. split; [reflexivity|]. split; [reflexivity|].
           split; [reflexivity|]. split; [assumption|congruence].
        -- cbn [ar_items ar_cap]. unfold lenN at 1. cbn [length]. unfold lenN. rewrite map_length.
           fold (lenN (entries t)). rewrite <- (wf_size _ _ t Hw). lia.
      * destruct (own_alloc_none _ _ _ _ _ _ Ho1 E2) as (Ho2 & Hp2 & Hl2 & Hlive2).
        destruct (alloc_release_live _ _ _ _ _ _ E1 Hlive2) as (a3 & Er & Hlive3).
        destruct (own_release _ _ _ _ _ Ho2) as (a3' & Er' & Ho3 & Hp3 & Hl3 & _).
        rewrite Er in Er'. inversion Er'; subst a3'. rewrite Er. cbn [bind].
        do 3 eexists. split; [reflexivity|]. split; [congruence|].
        split; [intros Hpe; rewrite Hp3, Hp2, Hp1, Hpe; reflexivity|]. split; [left; reflexivity|].
        split; [assumption|]. split; [assumption|]. intros Hpe _.
        destruct (N.lt_ge_cases (8 * ht_size t) W) as [HW|HW]; [|tauto].
        assert (Hp1e : plan a1 = []) by (rewrite Hp1, Hpe; reflexivity).
        assert (Hsmall : cap * SZ_PTR < W) by (unfold SZ_PTR, W in *; lia).
        unfold wmul in E2. rewrite N.mod_small in E2 by assumption.
        destruct (N.lt_ge_cases (limit a1) (cap * SZ_PTR)) as [Hlt|Hge].
        -- rewrite Hl1 in Hlt. unfold SZ_PTR in Hlt. destruct Hcap as (_ & _ & [->|(-> & _)]); [lia|].
           left. unfold SZ_ARRAY. lia.
        -- destruct (alloc_grants (ht_mem t) (cap * SZ_PTR) a1 Hp1e Hge) as (a4 & Ea4 & _). congruence.
    + destruct (own_alloc_none _ _ _ _ _ _ Ho E1) as (Ho1 & Hp1 & Hl1 & Hlive1). cbn [bind].
      do 3 eexists. split; [reflexivity|]. split; [assumption|]. split; [intros Hpe; rewrite Hp1, Hpe; reflexivity|].
      split; [left; reflexivity|].
      split; [assumption|]. split; [assumption|]. intros Hpe _. left.
      destruct (N.lt_ge_cases (limit a) SZ_ARRAY) as [Hlt|Hge]; [assumption|].
      destruct (alloc_grants (ht_mem t) SZ_ARRAY a Hpe Hge) as (a4 & Ea4 & _). congruence.
Qed.

(** The step used by the trace language: build the array, read it, destroy it. *)
Theorem collect_step_spec f L0 t a : ht_inv L0 t a ->
  exists out a', collect_step f t a = Ok (out, t, a') /\ ht_inv L0 t a' /\ limit a' = limit a /\
    (plan a = [] -> plan a' = []) /\
    ((out = out_enum CC_OK (map f (entries t))) \/
     (out = out_st (o_st out) /\ (o_st out = CC_ERR_ALLOC \/ (o_st out = CC_ERR_INVALID_CAPACITY /\ 2 ^ 62 <= ht_size t)) /\
      live a' = live a /\
      (plan a = [] -> o_st out = CC_ERR_ALLOC -> limit a < SZ_ARRAY \/ limit a < 8 * ht_size t \/ W <= 8 * ht_size t))).
Proof.
  intros Hi. destruct (ht_collect_spec f L0 t a Hi) as (st & oar & a1 & E & Hl & Hpe1 & Hcase).
  unfold collect_step. rewrite E. cbn [bind]. destruct oar as [ar|].
  - destruct Hcase as (-> & Hitems & _ & Ho & _). unfold arr_destroy.
    destruct (own_release _ _ _ _ _ Ho) as (a2 & -> & Ho2 & Hp2 & Hl2 & _). cbn [bind].
    destruct (own_release _ _ _ _ _ Ho2) as (a3 & -> & Ho3 & Hp3 & Hl3 & _). cbn [bind].
    do 2 eexists. split; [reflexivity|]. split; [split; [apply Hi|assumption]|]. split; [congruence|].
    split; [intros Hpe; rewrite Hp3, Hp2; auto|].
    left. rewrite Hitems. reflexivity.
  - destruct Hcase as (Hst & Ho & Hlive & Hgr).
    do 2 eexists. split; [reflexivity|]. split; [split; [apply Hi|assumption]|]. split; [assumption|].
    split; [assumption|]. right. cbn [out_st o_st]. split; [reflexivity|]. split; [|split; assumption].
    destruct Hst as [->|(-> & H & _)]; auto.
Qed.

(* ------------------------------------------------------------------------------------------ *)
(** * The iterator on a table satisfying the invariant *)

Lemma inv_ids_ok L0 t a : ht_inv L0 t a -> ids_ok (ht_buckets t).
Proof.
  intros [Hw [[_ Hlt] _ Hnd Hlive _]]. unfold ids in *. split.
  - inversion Hnd as [|? ? _ Hnd']; subst. inversion Hnd'; subst. assumption.
  - intros e He Hz. destruct (Hlive (e_id e)) as [n Hn].
    + right. right. apply in_map. assumption.
    + apply Hlt in Hn. cbn in Hn. lia.
Qed.

Lemma inv_cap_small t : ht_wf t -> ht_cap t < W - 1.
Proof. intros Hw. destruct (HP wf_cap_bounds t Hw) as (_ & H & _). unfold W. lia. Qed.

(** iter_remove after a yield of [e]: exactly [e] leaves the table; the rest of the traversal stays. *)
Lemma iter_remove_spec L0 t a it vis e r :
  ht_inv L0 t a -> entries t = vis ++ e :: r -> iter_pos (ht_buckets t) it r -> it_prev it = e_id e ->
  exists t' a', ht_iter_remove t it a = Ok (CC_OK, Some (e_val e), t', a') /\ ht_inv L0 t' a' /\
    entries t' = vis ++ r /\ iter_pos (ht_buckets t') it r /\
    ht_cap t' = ht_cap t /\ ht_thr t' = ht_thr t /\ ht_num t' = ht_num t /\ ht_den t' = ht_den t /\ ht_mem t' = ht_mem t /\
    plan a' = plan a /\ limit a' = limit a.
Proof.
  intros Hi Hent Hpos Hprev. pose proof (inv_ids_ok _ _ _ Hi) as [Hnd Hnz]. destruct Hi as [Hw Ho].
  fold (entries t) in Hnd, Hnz.
  assert (Hin : In e (entries t)) by (rewrite Hent; apply in_elt).
  assert (HndE : NoDup (entries t)) by (eapply NoDup_map_inv; eassumption).
  unfold HashModel.ht_iter_remove. rewrite Hprev. replace (e_id e =? 0) with false by (specialize (Hnz e Hin); lia).
  (* the entry pointer is valid *)
  assert (Hloc : exists nx, locate (e_id e) (ht_buckets t) = Some (e, nx)).
  { unfold entries in Hin. apply in_concat in Hin. destruct Hin as (ch & Hch & Hech).
    apply in_split in Hch. destruct Hch as (B1 & B2 & EB). apply in_split in Hech. destruct Hech as (pre & c & ->).
    exists (hd_id c). rewrite EB. apply locate_mid. rewrite <- EB. assumption. }
  destruct Hloc as [nx ->]. cbn [of_opt bind].
  destruct (HP ht_remove_spec L0 t a (e_key e) (conj Hw Ho)) as (st & v & t' & a' & -> & Hi' & Hc & Ht & Hn & Hd & Hm & Hp & Hl & Hcase).
  (* the first entry matching e's key is e itself *)
  assert (Hself : mt keq (e_key e) e = true) by (unfold mt; apply (SP keqn_refl)).
  destruct (m_del keq (ht_abs t) (e_key e)) as [[x m']|] eqn:Edel.
  - destruct Hcase as (-> & -> & Habs & Hsz & B1 & p1 & e' & p2 & B2 & EB & EB' & Hm' & Hno).
    assert (Hent2 : entries t = (concat B1 ++ p1) ++ e' :: (p2 ++ concat B2)).
    { unfold entries. rewrite EB, concat_mid. rewrite <- !app_assoc. reflexivity. }
    assert (He' : e' = e).
    { rewrite Hent2 in Hin. apply in_app_iff in Hin. destruct Hin as [Hin|[Hin|Hin]].
      - rewrite (Hno e Hin) in Hself. discriminate.
      - assumption.
      - exfalso. pose proof (wf_nodup _ _ t Hw) as Hk. unfold keys in Hk. rewrite Hent2 in Hk.
        rewrite map_app in Hk. cbn [map] in Hk. apply (SP nodup_k_app) in Hk. destruct Hk as (_ & (Hk & _) & _).
        unfold mt in Hm'. rewrite (Hk (e_key e)) in Hm'; [discriminate|]. apply in_map. assumption. }
    subst e'. rewrite Hent in Hent2.
    pose proof HndE as HndV. rewrite Hent in HndV. destruct (nodup_split_unique _ _ _ _ _ HndV Hent2) as (Hv & Hr).
    assert (Hx : x = e_val e).
    { unfold ht_abs in Edel. rewrite Hent, map_app in Edel. cbn [map] in Edel. change (kv e) with (e_key e, e_val e) in Edel.
      rewrite (SP m_del_split) in Edel; [inversion Edel; reflexivity| |exact Hself].
      rewrite Hv. apply (HP nomatch_map). assumption. }
    subst x. do 2 eexists. split; [reflexivity|]. split; [assumption|].
    split; [unfold entries; rewrite EB', concat_mid; rewrite Hv, Hr; rewrite <- !app_assoc; reflexivity|].
    split; [|auto 10].
    rewrite EB'. apply (iter_pos_remove B1 p1 e p2 B2).
    + rewrite <- EB. exact HndE.
    + rewrite <- EB. assumption.
    + intros Hinr. apply NoDup_remove_2 in HndV. apply HndV. rewrite in_app_iff. tauto.
  - exfalso. destruct (SP match_cases (ht_abs t) (e_key e)) as [Hnm|(l1 & k' & v0 & l2 & E & Hnm & Hk)].
    + assert (keqn (fst (kv e)) (e_key e) = false) by (apply Hnm; unfold ht_abs; apply in_map; assumption).
      unfold mt in Hself. cbn in H. congruence.
    + rewrite E in Edel. rewrite (SP m_del_split) in Edel by assumption. discriminate.
Qed.

(** The whole traversal with removals. *)
Definition inrm (rm : list N) (k : N) : bool := existsb (N.eqb k) rm.

Lemma iter_loop_spec L0 rm : forall rem fuel t it a vis ys sts,
  ht_inv L0 t a -> entries t = vis ++ rem -> iter_pos (ht_buckets t) it rem -> (length rem < fuel)%nat ->
  exists t' a', iter_loop fuel t it rm a ys sts =
      Ok (rev ys ++ map kv rem, rev sts ++ map (fun _ => CC_OK) (filter (fun e => inrm rm (e_key e)) rem), t', a') /\
    ht_inv L0 t' a' /\ entries t' = vis ++ filter (fun e => negb (inrm rm (e_key e))) rem /\
    ht_cap t' = ht_cap t /\ ht_thr t' = ht_thr t /\ ht_num t' = ht_num t /\ ht_den t' = ht_den t /\ ht_mem t' = ht_mem t /\
    plan a' = plan a /\ limit a' = limit a.
Proof.
  induction rem as [|e r IH]; intros fuel t it a vis ys sts Hi Hent Hpos Hfuel;
    (destruct fuel as [|fuel]; [cbn in Hfuel; lia|]); cbn [HashModel.iter_loop].
  - pose proof (iter_next_spec t it [] (wf_len _ _ t (proj1 Hi)) (inv_cap_small t (proj1 Hi)) (inv_ids_ok _ _ _ Hi) Hpos) as Hn.
    cbn in Hn. rewrite Hn. cbn [bind]. do 2 eexists. split; [cbn; rewrite !app_nil_r; reflexivity|].
    split; [assumption|]. cbn. auto 10.
  - pose proof (iter_next_spec t it (e :: r) (wf_len _ _ t (proj1 Hi)) (inv_cap_small t (proj1 Hi)) (inv_ids_ok _ _ _ Hi) Hpos) as Hn.
    cbn in Hn. destruct Hn as (it' & -> & Hpos' & Hprev). cbn [bind kv]. fold (inrm rm (e_key e)).
    cbn [filter map]. destruct (inrm rm (e_key e)) eqn:Erm; cbn [negb].
    + destruct (iter_remove_spec L0 t a it' vis e r Hi Hent Hpos' Hprev)
        as (t1 & a1 & -> & Hi1 & Hent1 & Hpos1 & Hc1 & Ht1 & Hn1 & Hd1 & Hm1 & Hp1 & Hl1). cbn [bind].
      destruct (IH fuel t1 it' a1 vis ((e_key e, e_val e) :: ys) (CC_OK :: sts) Hi1 Hent1 Hpos1 ltac:(cbn in Hfuel; lia))
        as (t2 & a2 & -> & Hi2 & Hent2 & Hc2 & Ht2 & Hn2 & Hd2 & Hm2 & Hp2 & Hl2).
      do 2 eexists. split; [cbn [rev map]; rewrite <- !app_assoc; reflexivity|]. split; [assumption|].
      split; [assumption|]. repeat split; congruence.
    + destruct (IH fuel t it' a (vis ++ [e]) ((e_key e, e_val e) :: ys) sts Hi) as (t2 & a2 & -> & Hi2 & Hent2 & Hrest).
      * rewrite Hent, <- app_assoc. reflexivity.
      * assumption.
      * cbn in Hfuel. lia.
      * do 2 eexists. split; [cbn [rev map]; rewrite <- !app_assoc; reflexivity|]. split; [assumption|].
        split; [rewrite Hent2, <- app_assoc; reflexivity|assumption].
Qed.

Theorem ht_iter_all_spec L0 t a rm : ht_inv L0 t a ->
  exists t' a', ht_iter_all t rm a =
      Ok (ht_abs t, map (fun _ => CC_OK) (filter (fun kv => inrm rm (fst kv)) (ht_abs t)), t', a') /\
    ht_inv L0 t' a' /\ ht_abs t' = filter (fun kv => negb (inrm rm (fst kv))) (ht_abs t) /\
    ht_cap t' = ht_cap t /\ ht_thr t' = ht_thr t /\ ht_num t' = ht_num t /\ ht_den t' = ht_den t /\ ht_mem t' = ht_mem t /\
    plan a' = plan a /\ limit a' = limit a /\ ht_size t' <= ht_size t.
Proof.
  intros Hi. unfold HashModel.ht_iter_all.
  destruct (iter_init_pos t (wf_len _ _ t (proj1 Hi))) as (it & -> & Hpos & _). cbn [bind].
  destruct (iter_loop_spec L0 rm (entries t) (S (length (entries t))) t it a [] [] [] Hi eq_refl Hpos ltac:(lia))
    as (t' & a' & E & Hi' & Hent & Hrest).
  unfold entries in E at 1. rewrite E. cbn [rev app].
  assert (Hf : forall (g : N -> bool) (l : list entry), map kv (filter (fun e => g (e_key e)) l) = filter (fun x => g (fst x)) (map kv l)).
  { intros g l. induction l as [|x l IHl]; cbn; [reflexivity|]. destruct (g (e_key x)); cbn; rewrite IHl; reflexivity. }
  do 2 eexists. split.
  - unfold ht_abs. rewrite <- (Hf (inrm rm)). rewrite map_map. reflexivity.
  - split; [assumption|]. split.
    + unfold ht_abs. rewrite Hent. cbn [app]. apply (Hf (fun k => negb (inrm rm k))).
    + destruct Hrest as (H1 & H2 & H3 & H4 & H5 & H6 & H7). repeat split; try assumption.
      rewrite (wf_size _ _ t' (proj1 Hi')), (wf_size _ _ t (proj1 Hi)), Hent. cbn [app].
      unfold lenN. pose proof (filter_len_le (fun e => negb (inrm rm (e_key e))) (entries t)). lia.
Qed.

(** A traversal without removals leaves table and ledger literally unchanged. *)
Lemma iter_loop_norm : forall rem fuel t it a ys sts,
  lenN (ht_buckets t) = ht_cap t -> ht_cap t < W - 1 -> ids_ok (ht_buckets t) ->
  iter_pos (ht_buckets t) it rem -> (length rem < fuel)%nat ->
  iter_loop fuel t it [] a ys sts = Ok (rev ys ++ map kv rem, rev sts, t, a).
Proof.
  induction rem as [|e r IH]; intros fuel t it a ys sts Hl HW Hid Hpos Hfuel;
    (destruct fuel as [|fuel]; [cbn in Hfuel; lia|]); cbn [HashModel.iter_loop].
  - pose proof (iter_next_spec t it [] Hl HW Hid Hpos) as Hn. cbn in Hn. rewrite Hn. cbn [bind].
    cbn [map]. rewrite app_nil_r. reflexivity.
  - pose proof (iter_next_spec t it (e :: r) Hl HW Hid Hpos) as Hn. cbn in Hn.
    destruct Hn as (it' & -> & Hpos' & _). cbn [bind kv existsb].
    rewrite (IH fuel t it' a ((e_key e, e_val e) :: ys) sts Hl HW Hid Hpos') by (cbn in Hfuel; lia).
    cbn [rev map]. rewrite <- app_assoc. reflexivity.
Qed.
Lemma iter_init_pos_all L0 t a : ht_inv L0 t a ->
  exists ys, ht_iter_all t [] a = Ok (ys, [], t, a) /\ ys = ht_abs t.
Proof.
  intros Hi. unfold HashModel.ht_iter_all.
  destruct (iter_init_pos t (wf_len _ _ t (proj1 Hi))) as (it & -> & Hpos & _). cbn [bind].
  rewrite (iter_loop_norm (concat (ht_buckets t)) _ t it a [] [] (wf_len _ _ t (proj1 Hi)) (inv_cap_small t (proj1 Hi))
             (inv_ids_ok _ _ _ Hi) Hpos) by lia.
  cbn [rev app]. eexists. split; reflexivity.
Qed.

End HashProofsD.
