(** Hash table proofs, part F: CC_HashSet (a table whose values are the dummy pointer 1) refines the
    ideal set, for every hash function and comparator satisfying the hypotheses. *)
From Coq Require Import Permutation.
From CC Require Import Base.Prelude Base.ListMem Base.Alloc Base.AllocProofs.
From CC Require Import Generated.Status Generated.Constants Generated.Guards.
From CC Require Import Hash.HashModel Hash.HashProofsA Hash.HashProofsB Hash.HashProofsC Hash.HashProofsD Hash.HashProofsE.
Local Open Scope N_scope.

Definition k1 (k : N) : N * N := (k, 1).

Section SetSim.
Variable keq : N -> N -> bool.
Local Notation keqn := (keqn keq).

(** The map operations on a map whose values are all 1 are the set operations on its keys. *)
Lemma sim_get l k : m_get keq (map k1 l) k = if set_mem keq l k then Some 1 else None.
Proof.
  unfold set_mem. induction l as [|x l IH]; cbn; [reflexivity|]. destruct (keqn x k); cbn; [reflexivity|assumption].
Qed.
Lemma sim_set l k : m_set keq (map k1 l) k 1 = if set_mem keq l k then Some (map k1 l) else None.
Proof.
  unfold set_mem. induction l as [|x l IH]; cbn; [reflexivity|]. destruct (keqn x k); cbn; [reflexivity|].
  rewrite IH. destruct (existsb (fun x0 => keqn x0 k) l); reflexivity.
Qed.
Lemma sim_del l k : m_del keq (map k1 l) k = match set_del keq l k with Some l' => Some (1, map k1 l') | None => None end.
Proof.
  induction l as [|x l IH]; cbn; [reflexivity|]. destruct (keqn x k); cbn; [reflexivity|].
  rewrite IH. destruct (set_del keq l k); reflexivity.
Qed.
Lemma sim_filter (f : N -> bool) l : filter (fun kv => f (fst kv)) (map k1 l) = map k1 (filter f l).
Proof. induction l as [|x l IH]; cbn; [reflexivity|]. destruct (f x); cbn; rewrite IH; reflexivity. Qed.

Lemma sim_step l o :
  fst (spec_step keq (map k1 l) (hs_table_op o)) = fst (spec_set_step keq l o) /\
  snd (spec_step keq (map k1 l) (hs_table_op o)) = map k1 (snd (spec_set_step keq l o)).
Proof.
  destruct o as [k|k| |k| | |rm]; cbn [hs_table_op spec_step spec_set_step fst snd].
  - unfold m_add. rewrite sim_set. destruct (set_mem keq l k); auto.
  - rewrite sim_del. destruct (set_del keq l k); auto.
  - auto.
  - rewrite sim_get. destruct (set_mem keq l k); auto.
  - unfold lenN. rewrite map_length. auto.
  - rewrite map_map. cbn. rewrite map_id. auto.
  - split.
    + f_equal. rewrite (sim_filter (fun k => existsb (N.eqb k) rm)). rewrite map_map. reflexivity.
    + apply (sim_filter (fun k => negb (existsb (N.eqb k) rm))).
Qed.
End SetSim.

Section HashProofsF.
Variable hash : N -> N.
Variable keq : N -> N -> bool.
Hypothesis keq_refl : forall a, a <> 0 -> keq a a = true.
Hypothesis keq_sym : forall a b, a <> 0 -> b <> 0 -> keq a b = keq b a.
Hypothesis keq_trans : forall a b c, a <> 0 -> b <> 0 -> c <> 0 -> keq a b = true -> keq b c = true -> keq a c = true.
Hypothesis hash_compat : forall a b, a <> 0 -> b <> 0 -> keq a b = true -> hash a = hash b.
Set Default Proof Using "keq_refl keq_sym keq_trans hash_compat".
Local Notation SP l := (l keq keq_refl keq_sym keq_trans) (only parsing).
Local Notation HP l := (l hash keq keq_refl keq_sym keq_trans hash_compat) (only parsing).
Local Notation ht_inv := (ht_inv hash keq).
Local Notation hs_step := (hs_step hash keq).
Local Notation spec_set_step := (spec_set_step keq).

(** The set owns its header block besides what the table owns: seen from the table the header is
    part of the foreign ledger. All stored values are the dummy pointer. *)
Definition hs_inv (L0 : list block) (s : hset) (a : alloc_st) : Prop :=
  exists n La Lb, L0 = La ++ Lb /\
    ht_inv (La ++ {| b_id := hs_hdr s; b_tag := ht_mem (hs_table s); b_bytes := n |} :: Lb) (hs_table s) a /\
    Forall (fun e => e_val e = 1) (entries (hs_table s)).
Definition hs_abs (s : hset) : list N := keys (hs_table s).

Lemma abs_k1 t : Forall (fun e => e_val e = 1) (entries t) -> ht_abs t = map k1 (keys t).
Proof.
  unfold ht_abs, keys. induction (entries t) as [|e l IH]; intros H; cbn; [reflexivity|].
  inversion H; subst. rewrite IH by assumption. unfold kv, k1. congruence.
Qed.
Lemma vals1_of_abs t l : Permutation (ht_abs t) (map k1 l) -> Forall (fun e => e_val e = 1) (entries t) /\ Permutation (keys t) l.
Proof.
  intros P. split.
  - assert (H : Forall (fun kv => snd kv = 1) (ht_abs t)).
    { eapply Permutation_Forall; [apply Permutation_sym; eassumption|]. apply Forall_forall. intros x Hx.
      apply in_map_iff in Hx. destruct Hx as (k & <- & _). reflexivity. }
    unfold ht_abs in H. rewrite Forall_map in H. exact H.
  - apply (Permutation_map fst) in P. unfold ht_abs, keys in *. rewrite !map_map in P. cbn in P. rewrite map_id in P. exact P.
Qed.

Theorem hs_step_refines L0 s a o : hs_inv L0 s a ->
  exists out s' a', hs_step s o a = Ok (out, s', a') /\ hs_inv L0 s' a' /\
    ((out_equiv out (fst (spec_set_step (hs_abs s) o)) /\ Permutation (hs_abs s') (snd (spec_set_step (hs_abs s) o)))
     \/ ((exists k, o = SAdd k) /\ fail_stat (o_st out) /\ out = out_st (o_st out) /\ Permutation (hs_abs s') (hs_abs s))).
Proof.
  intros (n & La & Lb & -> & Hi & Hv). unfold HashModel.hs_step.
  destruct (HP ht_step_refines _ (hs_table s) a (hs_table_op o) Hi) as (out & t' & a' & -> & Hi' & _ & _ & Hm & _ & _ & _ & Hcase).
  cbn [bind]. pose proof (abs_k1 _ Hv) as Habs. rewrite Habs in Hcase.
  destruct (sim_step keq (keys (hs_table s)) o) as (Hs1 & Hs2). rewrite Hs1, Hs2 in Hcase.
  do 3 eexists. split; [reflexivity|].
  destruct Hcase as [(Hout & HP')|(Hma & Hf & Hout & HP' & _)].
  - destruct (vals1_of_abs _ _ HP') as (Hv' & Hk').
    split; [exists n, La, Lb; cbn [hs_table hs_hdr]; rewrite Hm; auto|]. left. split; assumption.
  - destruct (vals1_of_abs _ _ HP') as (Hv' & Hk').
    split; [exists n, La, Lb; cbn [hs_table hs_hdr]; rewrite Hm; auto|]. right.
    split; [destruct o; cbn in Hma; try discriminate; eauto|]. auto.
Qed.

Fixpoint hs_run (s : hset) (ops : list hs_op) (a : alloc_st) : res (list ht_out * hset * alloc_st) :=
  match ops with
  | [] => Ok ([], s, a)
  | o :: r => do (out, s1, a1) <- hs_step s o a; do (outs, s2, a2) <- hs_run s1 r a1; Ok (out :: outs, s2, a2)
  end.

Inductive set_run_rel : list N -> list hs_op -> list ht_out -> list N -> Prop :=
| sr_nil l : set_run_rel l [] [] l
| sr_ok l o out ops outs l' :
    out_equiv out (fst (spec_set_step l o)) -> set_run_rel (snd (spec_set_step l o)) ops outs l' ->
    set_run_rel l (o :: ops) (out :: outs) l'
| sr_fail l o out ops outs l' :
    (exists k, o = SAdd k) -> fail_stat (o_st out) -> out = out_st (o_st out) -> set_run_rel l ops outs l' ->
    set_run_rel l (o :: ops) (out :: outs) l'.

(** The ideal set step does not depend on the order of the elements (transported from the map). *)
Lemma spec_set_step_perm l1 l2 o : nodup_k keq l1 -> Permutation l1 l2 ->
  out_equiv (fst (spec_set_step l1 o)) (fst (spec_set_step l2 o)) /\
  Permutation (snd (spec_set_step l1 o)) (snd (spec_set_step l2 o)).
Proof.
  intros Hnd P.
  assert (Hnd' : nodup_keys keq (map k1 l1)).
  { unfold nodup_keys. rewrite map_map. cbn. rewrite map_id. assumption. }
  destruct (HP spec_step_perm (map k1 l1) (map k1 l2) (hs_table_op o) Hnd' (Permutation_map k1 P)) as (Ho & Hs).
  destruct (sim_step keq l1 o) as (A1 & A2). destruct (sim_step keq l2 o) as (B1 & B2).
  rewrite A1, B1 in Ho. rewrite A2, B2 in Hs. split; [assumption|].
  apply (Permutation_map fst) in Hs. rewrite !map_map in Hs. cbn in Hs. rewrite !map_id in Hs. assumption.
Qed.

Theorem hs_run_refines L0 ops : forall s a l,
  hs_inv L0 s a -> Permutation (hs_abs s) l ->
  exists outs s' a', hs_run s ops a = Ok (outs, s', a') /\ hs_inv L0 s' a' /\
    exists l', set_run_rel l ops outs l' /\ Permutation (hs_abs s') l'.
Proof.
  induction ops as [|o ops IH]; intros s a l Hi P; cbn [hs_run].
  - do 3 eexists. split; [reflexivity|]. split; [assumption|]. exists l. split; [constructor|assumption].
  - destruct (hs_step_refines L0 s a o Hi) as (out & s1 & a1 & -> & Hi1 & Hcase). cbn [bind].
    assert (Hnd : nodup_k keq (hs_abs s)).
    { destruct Hi as (n & La & Lb & _ & (Hw & _) & _). apply (wf_nodup _ _ _ Hw). }
    destruct Hcase as [(Hout & Habs)|(Hk & Hf & Hout & Habs)].
    + destruct (spec_set_step_perm _ _ o Hnd P) as (Ho2 & Hs2).
      destruct (IH s1 a1 _ Hi1 (Permutation_trans Habs Hs2)) as (outs & s2 & a2 & -> & Hi2 & l' & Hr & Hp).
      cbn [bind]. do 3 eexists. split; [reflexivity|]. split; [assumption|].
      exists l'. split; [|assumption]. apply sr_ok; [eapply out_equiv_trans; eassumption|assumption].
    + destruct (IH s1 a1 l Hi1 (Permutation_trans Habs P)) as (outs & s2 & a2 & -> & Hi2 & l' & Hr & Hp).
      cbn [bind]. do 3 eexists. split; [reflexivity|]. split; [assumption|].
      exists l'. split; [|assumption]. apply sr_fail; assumption.
Qed.

(** Constructor, any history, destructor: the ledger is back where it started. *)
Theorem hs_new_run_refines mem initial num den seed a ops :
  ledger_ok a -> 0 < next_id a ->
  exists st os a1, hs_new mem initial num den seed a = Ok (st, os, a1) /\
    match os with
    | None => st = CC_ERR_ALLOC /\ live a1 = live a
    | Some s =>
        st = CC_OK /\
        exists outs s' a', hs_run s ops a1 = Ok (outs, s', a') /\ hs_inv (live a) s' a' /\
          (exists l', set_run_rel [] ops outs l' /\ Permutation (hs_abs s') l') /\
          exists a'', hs_destroy s' a' = Ok a'' /\ live a'' = live a
    end.
Proof.
  intros H1 H2. unfold hs_new.
  pose proof (alloc_cases mem SZ_SET a) as C. destruct (alloc mem SZ_SET a) as [[h|] a0] eqn:E0.
  - destruct C as (-> & Hl0 & Hn0 & _). destruct (alloc_ledger_ok _ _ _ _ _ H1 H2 E0) as (H1' & H2').
    destruct (HP ht_new_spec mem initial num den seed a0 (live a0) (own_nil_intro mem a0 H1' H2')) as (st & ot & a1 & -> & Hcase).
    cbn [bind]. destruct ot as [t|].
    + destruct Hcase as (-> & Hi & Habs & _ & _ & Hm & _). do 3 eexists. split; [reflexivity|]. split; [reflexivity|].
      set (s := {| hs_table := t; hs_hdr := next_id a |}).
      assert (His : hs_inv (live a) s a1).
      { exists SZ_SET, [], (live a). split; [reflexivity|]. cbn [app hs_table hs_hdr s]. rewrite Hm, <- Hl0.
        split; [assumption|]. unfold ht_abs in Habs. apply map_eq_nil in Habs. rewrite Habs. constructor. }
      destruct (hs_run_refines (live a) ops s a1 [] His) as (outs & s' & a' & Er & His' & Hl').
      { unfold hs_abs, keys. unfold ht_abs in Habs. apply map_eq_nil in Habs. cbn [hs_table s]. rewrite Habs. constructor. }
      exists outs, s', a'. split; [assumption|]. split; [assumption|]. split; [assumption|].
      destruct His' as (n & La & Lb & EL & Hi' & _). unfold hs_destroy.
      destruct (HP ht_destroy_spec _ (hs_table s') a' Hi') as (a2 & -> & Hlive2 & Ho2). cbn [bind].
      destruct (release_in _ _ _ _ _ _ (own_ledger _ _ _ _ Ho2) Hlive2) as (a3 & -> & Hlive3 & _).
      exists a3. split; [reflexivity|]. congruence.
    + destruct Hcase as (-> & Ho & _). pose proof (own_nil_live _ _ _ Ho) as Hlive. rewrite Hl0 in Hlive.
      destruct (release_head _ _ _ _ _ Hlive) as (a3 & -> & Hl3 & _). cbn [bind].
      do 3 eexists. split; [reflexivity|]. cbn. auto.
  - destruct C as (Hl0 & _). do 3 eexists. split; [reflexivity|]. cbn. auto.
Qed.

End HashProofsF.
Unset Default Proof Using.
