(** Executable model of src/cc_array.c and src/cc_stack.c (definitions only).
    The buffer is represented by its live prefix [a_data] (the first [size] slots, all written) and the
    number of allocated slots [a_slots]; slots at or beyond [size] have no defined content, so a read there
    is [Fault Uninit] and an access at or beyond [a_slots] is [Fault OutOfBounds].
    memmove/memcpy on the pointer buffer are the corresponding list surgery on the prefix.
    The expansion factor is the rational a_num/a_den (T5 in DESIGN.md). *)
From CC Require Import Base.Prelude Base.Alloc Generated.Status Generated.Constants Generated.Guards.
Local Open Scope N_scope.

Definition SIZE_MAX : N := W - 1.
Definition ARRAY_HDR : N := 56.   (* sizeof(CC_Array) *)
Definition STACK_HDR : N := 32.   (* sizeof(CC_Stack) *)

Record arr := {
  a_data : list N; a_cap : N; a_slots : N; a_num : N; a_den : N;
  a_hdr : N; a_blk : N; a_mem : tag;
}.
Definition a_size (a : arr) : N := lenN (a_data a).

Definition set_data (a : arr) (d : list N) : arr :=
  {| a_data := d; a_cap := a_cap a; a_slots := a_slots a; a_num := a_num a; a_den := a_den a;
     a_hdr := a_hdr a; a_blk := a_blk a; a_mem := a_mem a |}.
Definition set_buf (a : arr) (cap slots blk : N) : arr :=
  {| a_data := a_data a; a_cap := cap; a_slots := slots; a_num := a_num a; a_den := a_den a;
     a_hdr := a_hdr a; a_blk := blk; a_mem := a_mem a |}.

(** list surgery *)
Definition insertN (l : list N) (i x : N) : list N := firstnN i l ++ x :: skipnN i l.
Definition removeN (l : list N) (i : N) : list N := firstnN i l ++ skipnN (i + 1) l.
Fixpoint index_of_nat (l : list N) (x : N) (k : nat) : option nat :=
  match l with [] => None | y :: t => if y =? x then Some k else index_of_nat t x (S k) end.
Definition index_ofN (l : list N) (x : N) : option N :=
  match index_of_nat l x 0 with Some k => Some (N.of_nat k) | None => None end.
Definition countN (l : list N) (x : N) : N := lenN (filter (fun y => y =? x) l).

(** cc_array_new_conf. [ex <= 1] falls back to the default factor; the capacity test is
    [!capacity || ex >= CC_MAX_ELEMENTS / capacity]. *)
Definition arr_new (mem : tag) (capacity num den : N) (al : alloc_st) : stat * option arr * alloc_st :=
  let '(n, d) := if num <=? den then (DEFAULT_EXPANSION_FACTOR_num, DEFAULT_EXPANSION_FACTOR_den) else (num, den) in
  if (capacity =? 0) || (d * (CC_MAX_ELEMENTS / capacity) <=? n) then (CC_ERR_INVALID_CAPACITY, None, al) else
  if g_array_new_bytes capacity SIZE_MAX then (CC_ERR_INVALID_CAPACITY, None, al) else   (* capacity * sizeof(void* ) must fit *)
  match alloc mem ARRAY_HDR al with
  | (None, a1) => (CC_ERR_ALLOC, None, a1)
  | (Some h, a1) =>
      match alloc mem (wmul capacity 8) a1 with
      | (None, a2) => match release mem h a2 with
                      | Ok a3 => (CC_ERR_ALLOC, None, a3)
                      | Fault _ => (CC_ERR_ALLOC, None, a2)
                      end
      | (Some b, a2) =>
          (CC_OK, Some {| a_data := []; a_cap := capacity; a_slots := wmul capacity 8 / 8; a_num := n; a_den := d;
                          a_hdr := h; a_blk := b; a_mem := mem |}, a2)
      end
  end.

Definition arr_destroy (a : arr) (al : alloc_st) : res alloc_st :=
  do a1 <- release (a_mem a) (a_blk a) al; release (a_mem a) (a_hdr a) a1.

(** expand_capacity (after the repair: the fields are committed only once the new buffer exists). *)
Definition arr_expand (a : arr) (al : alloc_st) : res (stat * arr * alloc_st) :=
  if g_array_expand_at_max (a_cap a) then Ok (CC_ERR_MAX_CAPACITY, a, al) else
  let new0 := (a_cap a * a_num a) / a_den a in
  let new := if g_array_expand_overflow new0 (a_cap a) then CC_MAX_ELEMENTS else new0 in
  if g_array_expand_bytes new SIZE_MAX then Ok (CC_ERR_ALLOC, a, al) else
  match alloc (a_mem a) (wmul new 8) al with
  | (None, a1) => Ok (CC_ERR_ALLOC, a, a1)
  | (Some b, a1) =>
      let slots := wmul new 8 / 8 in
      if slots <? a_size a then Fault OutOfBounds else      (* memcpy of [size] elements into the new buffer *)
      do a2 <- release (a_mem a) (a_blk a) a1;
      Ok (CC_OK, set_buf a new slots b, a2)
  end.

Definition write_ok (a : arr) (i : N) : bool := i <? a_slots a.

Definition arr_add (a : arr) (x : N) (al : alloc_st) : res (stat * arr * alloc_st) :=
  do (st, a1, al1) <- (if g_array_add_full (a_size a) (a_cap a) then arr_expand a al else Ok (CC_OK, a, al));
  match st with
  | CC_OK => if write_ok a1 (a_size a1) then Ok (CC_OK, set_data a1 (a_data a1 ++ [x]), al1) else Fault OutOfBounds
  | _ => Ok (st, a1, al1)
  end.

Definition arr_add_at (a : arr) (x i : N) (al : alloc_st) : res (stat * arr * alloc_st) :=
  if g_array_add_at_append i (a_size a) then arr_add a x al else
  if g_array_add_at_range i (a_size a) then Ok (CC_ERR_OUT_OF_RANGE, a, al) else
  do (st, a1, al1) <- (if g_array_add_at_full (a_size a) (a_cap a) then arr_expand a al else Ok (CC_OK, a, al));
  match st with
  | CC_OK => (* memmove(&buffer[i+1], &buffer[i], size - i) writes up to slot [size] *)
             if write_ok a1 (a_size a1) then Ok (CC_OK, set_data a1 (insertN (a_data a1) i x), al1) else Fault OutOfBounds
  | _ => Ok (st, a1, al1)
  end.

Definition arr_replace_at (a : arr) (x i : N) : stat * option N * arr :=
  if g_array_replace_at_range i (a_size a) then (CC_ERR_OUT_OF_RANGE, None, a) else
  match getN (a_data a) i, updN (a_data a) i x with
  | Some old, Some d => (CC_OK, Some old, set_data a d)
  | _, _ => (CC_ERR_OUT_OF_RANGE, None, a)         (* unreachable: guarded above *)
  end.

Definition arr_swap_at (a : arr) (i j : N) : stat * arr :=
  if g_array_swap_at_range i j (a_size a) then (CC_ERR_OUT_OF_RANGE, a) else
  match getN (a_data a) i, getN (a_data a) j with
  | Some x, Some y =>
      match updN (a_data a) i y with
      | Some d1 => match updN d1 j x with Some d2 => (CC_OK, set_data a d2) | None => (CC_ERR_OUT_OF_RANGE, a) end
      | None => (CC_ERR_OUT_OF_RANGE, a)
      end
  | _, _ => (CC_ERR_OUT_OF_RANGE, a)
  end.

Definition arr_remove_at (a : arr) (i : N) : stat * option N * arr :=
  if g_array_remove_at_range i (a_size a) then (CC_ERR_OUT_OF_RANGE, None, a) else
  match getN (a_data a) i with
  | Some old => (CC_OK, Some old, set_data a (removeN (a_data a) i))
  | None => (CC_ERR_OUT_OF_RANGE, None, a)
  end.

Definition arr_remove (a : arr) (x : N) : stat * option N * arr :=
  match index_ofN (a_data a) x with
  | None => (CC_ERR_VALUE_NOT_FOUND, None, a)
  | Some i => (CC_OK, Some x, set_data a (removeN (a_data a) i))
  end.

Definition arr_remove_last (a : arr) : stat * option N * arr := arr_remove_at a (wsub (a_size a) 1).
Definition arr_remove_all (a : arr) : arr := set_data a [].

Definition arr_get_at (a : arr) (i : N) : stat * option N :=
  if g_array_get_at_range i (a_size a) then (CC_ERR_OUT_OF_RANGE, None) else
  match getN (a_data a) i with Some v => (CC_OK, Some v) | None => (CC_ERR_OUT_OF_RANGE, None) end.
Definition arr_get_last (a : arr) : stat * option N :=
  if g_array_get_last_empty (a_size a) then (CC_ERR_VALUE_NOT_FOUND, None) else arr_get_at a (wsub (a_size a) 1).
Definition arr_index_of (a : arr) (x : N) : stat * option N :=
  match index_ofN (a_data a) x with Some i => (CC_OK, Some i) | None => (CC_ERR_OUT_OF_RANGE, None) end.
Definition arr_contains (a : arr) (x : N) : N := countN (a_data a) x.
Definition arr_contains_value (cmp : N -> N -> Z) (a : arr) (x : N) : N :=
  lenN (filter (fun y => (cmp x y =? 0)%Z) (a_data a)).

(** cc_array_reverse: the loop of swaps [i] <-> [size-1-i] for i < size/2, on explicit fuel. *)
Fixpoint rev_loop (fuel : nat) (d : list N) (i j : N) (half : N) : option (list N) :=
  match fuel with
  | O => Some d
  | S f =>
      if i <? half then
        match getN d i, getN d j with
        | Some x, Some y =>
            match updN d i y with
            | Some d1 => match updN d1 j x with Some d2 => rev_loop f d2 (i + 1) (wsub j 1) half | None => None end
            | None => None
            end
        | _, _ => None
        end
      else Some d
  end.
Definition arr_reverse (a : arr) : res arr :=
  if g_array_reverse_empty (a_size a) then Ok a else
  match rev_loop (N.to_nat (a_size a)) (a_data a) 0 (wsub (a_size a) 1) (a_size a / 2) with
  | Some d => Ok (set_data a d)
  | None => Fault OutOfBounds
  end.

(** cc_array_filter_mut: the backwards scan with the [rm]/[keep] cluster counters. [d] is the buffer
    prefix of the ORIGINAL length (the C loop shrinks [size] as it goes but keeps indexing the buffer);
    [size] is the current ar->size. memmove(&buf[i+1], &buf[i+1+rm], keep) = drop [rm] slots after [i]. *)
Definition drop_at (d : list N) (pos rm : N) : list N := firstnN pos d ++ skipnN (pos + rm) d.
Fixpoint fm_loop (pred : N -> bool) (idxs : list N) (d : list N) (size rm keep : N) : list N * N * N * N :=
  match idxs with
  | [] => (d, size, rm, keep)
  | i :: rest =>
      match getN d i with
      | None => (d, size, rm, keep)
      | Some x =>
          if negb (pred x) then fm_loop pred rest d size (rm + 1) keep
          else if 0 <? rm then
                 let d' := if 0 <? keep then drop_at d (i + 1) rm else d in
                 fm_loop pred rest d' (size - rm) 0 (keep + 1)
               else fm_loop pred rest d size rm (keep + 1)
      end
  end.
Definition arr_filter_mut (pred : N -> bool) (a : arr) : stat * arr :=
  if g_array_filter_mut_empty (a_size a) then (CC_ERR_OUT_OF_RANGE, a) else
  let idxs := rev (seqN 0 (a_size a)) in
  let '(d, size, rm, keep) := fm_loop pred idxs (a_data a) (a_size a) 0 0 in
  let '(d2, size2) := if 0 <? rm then (drop_at d 0 rm, size - rm) else (d, size) in
  (CC_OK, set_data a (firstnN size2 d2)).

(** cc_array_trim_capacity (after the repair: max 1 size slots). *)
Definition arr_trim (a : arr) (al : alloc_st) : res (stat * arr * alloc_st) :=
  let size := if a_size a <? 1 then 1 else a_size a in
  if g_array_trim_noop size (a_cap a) then Ok (CC_OK, a, al) else
  match alloc (a_mem a) (wmul size 8) al with
  | (None, a1) => Ok (CC_ERR_ALLOC, a, a1)
  | (Some b, a1) => do a2 <- release (a_mem a) (a_blk a) a1; Ok (CC_OK, set_buf a size (wmul size 8 / 8) b, a2)
  end.

(** derived arrays: header then buffer from the source's allocator family; the buffer has the source's capacity *)
Definition arr_derive (a : arr) (d : list N) (al : alloc_st) : res (stat * option arr * alloc_st) :=
  match alloc (a_mem a) ARRAY_HDR al with
  | (None, a1) => Ok (CC_ERR_ALLOC, None, a1)
  | (Some h, a1) =>
      match alloc (a_mem a) (wmul (a_cap a) 8) a1 with
      | (None, a2) => do a3 <- release (a_mem a) h a2; Ok (CC_ERR_ALLOC, None, a3)
      | (Some b, a2) =>
          if wmul (a_cap a) 8 / 8 <? lenN d then Fault OutOfBounds else
          Ok (CC_OK, Some {| a_data := d; a_cap := a_cap a; a_slots := wmul (a_cap a) 8 / 8; a_num := a_num a; a_den := a_den a;
                             a_hdr := h; a_blk := b; a_mem := a_mem a |}, a2)
      end
  end.
Definition arr_subarray (a : arr) (b e : N) (al : alloc_st) : res (stat * option arr * alloc_st) :=
  if g_array_subarray_range b e (a_size a) then Ok (CC_ERR_INVALID_RANGE, None, al)
  else arr_derive a (firstnN (e - b + 1) (skipnN b (a_data a))) al.
Definition arr_copy_shallow (a : arr) (al : alloc_st) := arr_derive a (a_data a) al.
Definition arr_copy_deep (cp : N -> N) (a : arr) (al : alloc_st) := arr_derive a (map cp (a_data a)) al.
Definition arr_filter (pred : N -> bool) (a : arr) (al : alloc_st) : res (stat * option arr * alloc_st) :=
  if g_array_filter_empty (a_size a) then Ok (CC_ERR_OUT_OF_RANGE, None, al)
  else arr_derive a (filter pred (a_data a)) al.

(** map: the visit order; reduce with a pure combining function (the C passes the result slot). *)
Definition arr_map_order (a : arr) : list N := a_data a.
Definition arr_reduce (fn : N -> N -> N) (a : arr) (r0 : N) : N :=
  match a_data a with
  | [] => r0
  | [x] => fn x 0
  | x :: y :: rest => fold_left fn rest (fn x y)
  end.
Definition arr_sort (sorter : list N -> list N) (a : arr) : arr := set_data a (sorter (a_data a)).

(** Iterator: {index, last_removed}. *)
Record aiter := { it_index : N; it_removed : bool }.
Definition it_init : aiter := {| it_index := 0; it_removed := false |}.
Definition it_next (a : arr) (it : aiter) : stat * option N * aiter :=
  if g_array_iter_next_end (it_index it) (a_size a) then (CC_ITER_END, None, it) else
  match getN (a_data a) (it_index it) with
  | Some v => (CC_OK, Some v, {| it_index := wadd (it_index it) 1; it_removed := false |})
  | None => (CC_ITER_END, None, it)
  end.
Definition it_remove (a : arr) (it : aiter) : stat * option N * arr * aiter :=
  if it_removed it then (CC_ERR_VALUE_NOT_FOUND, None, a, it) else
  match arr_remove_at a (wsub (it_index it) 1) with
  | (CC_OK, v, a') => (CC_OK, v, a', {| it_index := wsub (it_index it) 1; it_removed := true |})
  | (st, v, a') => (st, v, a', it)
  end.
Definition it_add (a : arr) (it : aiter) (x : N) (al : alloc_st) : res (stat * arr * aiter * alloc_st) :=
  do (st, a', al') <- arr_add_at a x (it_index it) al;
  match st with
  | CC_OK => Ok (CC_OK, a', {| it_index := wadd (it_index it) 1; it_removed := it_removed it |}, al')
  | _ => Ok (st, a', it, al')
  end.
Definition it_replace (a : arr) (it : aiter) (x : N) : stat * option N * arr := arr_replace_at a x (wsub (it_index it) 1).
Definition it_idx (it : aiter) : N := wsub (it_index it) 1.

(** Zip iterator over two arrays. *)
Definition zip_next (a1 a2 : arr) (it : aiter) : stat * option (N * N) * aiter :=
  if g_array_zip_next_end (it_index it) (a_size a1) (a_size a2) then (CC_ITER_END, None, it) else
  match getN (a_data a1) (it_index it), getN (a_data a2) (it_index it) with
  | Some x, Some y => (CC_OK, Some (x, y), {| it_index := wadd (it_index it) 1; it_removed := false |})
  | _, _ => (CC_ITER_END, None, it)
  end.
Definition zip_remove (a1 a2 : arr) (it : aiter) : stat * option (N * N) * arr * arr * aiter :=
  if g_array_zip_remove_range (it_index it) (a_size a1) (a_size a2) then (CC_ERR_OUT_OF_RANGE, None, a1, a2, it) else
  if it_removed it then (CC_ERR_VALUE_NOT_FOUND, None, a1, a2, it) else
  match arr_remove_at a1 (wsub (it_index it) 1), arr_remove_at a2 (wsub (it_index it) 1) with
  | (_, Some x, a1'), (_, Some y, a2') => (CC_OK, Some (x, y), a1', a2', {| it_index := wsub (it_index it) 1; it_removed := true |})
  | (_, _, a1'), (_, _, a2') => (CC_OK, None, a1', a2', {| it_index := wsub (it_index it) 1; it_removed := true |})
  end.
Definition zip_add (a1 a2 : arr) (it : aiter) (x y : N) (al : alloc_st) : res (stat * arr * arr * aiter * alloc_st) :=
  do (st1, b1, al1) <- (if a_size a1 =? a_cap a1 then arr_expand a1 al else Ok (CC_OK, a1, al));
  match st1 with
  | CC_OK =>
      do (st2, b2, al2) <- (if a_size a2 =? a_cap a2 then arr_expand a2 al1 else Ok (CC_OK, a2, al1));
      match st2 with
      | CC_OK =>
          do (_, c1, al3) <- arr_add_at b1 x (it_index it) al2;
          do (_, c2, al4) <- arr_add_at b2 y (it_index it) al3;
          Ok (CC_OK, c1, c2, {| it_index := wadd (it_index it) 1; it_removed := it_removed it |}, al4)
      | _ => Ok (CC_ERR_ALLOC, b1, b2, it, al2)
      end
  | _ => Ok (CC_ERR_ALLOC, b1, a2, it, al1)
  end.
Definition zip_replace (a1 a2 : arr) (it : aiter) (x y : N) : stat * option (N * N) * arr * arr :=
  if g_array_zip_replace_range (it_index it) (a_size a1) (a_size a2) then (CC_ERR_OUT_OF_RANGE, None, a1, a2) else
  match arr_replace_at a1 x (wsub (it_index it) 1), arr_replace_at a2 y (wsub (it_index it) 1) with
  | (_, Some o1, b1), (_, Some o2, b2) => (CC_OK, Some (o1, o2), b1, b2)
  | (_, _, b1), (_, _, b2) => (CC_OK, None, b1, b2)
  end.

(** CC_Stack: a header block around a CC_Array. *)
Record stack := { s_arr : arr; s_hdr : N; s_mem : tag }.
Definition stack_new (mem : tag) (capacity num den : N) (al : alloc_st) : res (stat * option stack * alloc_st) :=
  match alloc mem STACK_HDR al with
  | (None, a1) => Ok (CC_ERR_ALLOC, None, a1)
  | (Some h, a1) =>
      match arr_new mem capacity num den a1 with
      | (CC_OK, Some a, a2) => Ok (CC_OK, Some {| s_arr := a; s_hdr := h; s_mem := mem |}, a2)
      | (st, _, a2) => do a3 <- release mem h a2; Ok (st, None, a3)
      end
  end.
Definition stack_destroy (s : stack) (al : alloc_st) : res alloc_st :=
  do a1 <- arr_destroy (s_arr s) al; release (s_mem s) (s_hdr s) a1.
Definition with_arr (s : stack) (a : arr) : stack := {| s_arr := a; s_hdr := s_hdr s; s_mem := s_mem s |}.
Definition stack_push (s : stack) (x : N) (al : alloc_st) : res (stat * stack * alloc_st) :=
  do (st, a, al') <- arr_add (s_arr s) x al; Ok (st, with_arr s a, al').
Definition stack_pop (s : stack) : stat * option N * stack :=
  let '(st, v, a) := arr_remove_last (s_arr s) in (st, v, with_arr s a).
Definition stack_peek (s : stack) : stat * option N := arr_get_last (s_arr s).
(** cc_stack_filter (after the repair): a new stack from the source's allocators with the source array's
    capacity and the default factor, then one push per kept element. *)
Fixpoint push_all (s : stack) (xs : list N) (al : alloc_st) : res (stat * stack * alloc_st) :=
  match xs with
  | [] => Ok (CC_OK, s, al)
  | x :: t => do (st, s', al') <- stack_push s x al;
              match st with CC_OK => push_all s' t al' | _ => Ok (st, s', al') end
  end.
Definition stack_filter (pred : N -> bool) (s : stack) (al : alloc_st) : res (stat * option stack * alloc_st) :=
  if a_size (s_arr s) =? 0 then Ok (CC_ERR_OUT_OF_RANGE, None, al) else
  do (st, r, al1) <- stack_new (s_mem s) (a_cap (s_arr s)) DEFAULT_EXPANSION_FACTOR_num DEFAULT_EXPANSION_FACTOR_den al;
  match st, r with
  | CC_OK, Some ns =>
      do (st2, ns', al2) <- push_all ns (filter pred (a_data (s_arr s))) al1;
      match st2 with
      | CC_OK => Ok (CC_OK, Some ns', al2)
      | _ => do al3 <- stack_destroy ns' al2; Ok (st2, None, al3)
      end
  | _, _ => Ok (st, None, al1)
  end.

(** The single-array state machine used for histories. *)
Inductive arr_op :=
  | AAdd (x : N) | AAddAt (x i : N) | AReplaceAt (x i : N) | ASwapAt (i j : N) | ARemove (x : N) | ARemoveAt (i : N)
  | ARemoveLast | ARemoveAll | AGetAt (i : N) | AGetLast | AIndexOf (x : N) | AContains (x : N) | AReverse
  | AFilterMut | ATrim | ASize.
Inductive arr_out := AOut (st : stat) (v : option N).

Definition arr_step (pred : N -> bool) (a : arr) (o : arr_op) (al : alloc_st) : res (arr_out * arr * alloc_st) :=
  match o with
  | AAdd x => do (st, a', al') <- arr_add a x al; Ok (AOut st None, a', al')
  | AAddAt x i => do (st, a', al') <- arr_add_at a x i al; Ok (AOut st None, a', al')
  | AReplaceAt x i => let '(st, v, a') := arr_replace_at a x i in Ok (AOut st v, a', al)
  | ASwapAt i j => let '(st, a') := arr_swap_at a i j in Ok (AOut st None, a', al)
  | ARemove x => let '(st, v, a') := arr_remove a x in Ok (AOut st v, a', al)
  | ARemoveAt i => let '(st, v, a') := arr_remove_at a i in Ok (AOut st v, a', al)
  | ARemoveLast => let '(st, v, a') := arr_remove_last a in Ok (AOut st v, a', al)
  | ARemoveAll => Ok (AOut CC_OK None, arr_remove_all a, al)
  | AGetAt i => let '(st, v) := arr_get_at a i in Ok (AOut st v, a, al)
  | AGetLast => let '(st, v) := arr_get_last a in Ok (AOut st v, a, al)
  | AIndexOf x => let '(st, v) := arr_index_of a x in Ok (AOut st v, a, al)
  | AContains x => Ok (AOut CC_OK (Some (arr_contains a x)), a, al)
  | AReverse => do a' <- arr_reverse a; Ok (AOut CC_OK None, a', al)
  | AFilterMut => let '(st, a') := arr_filter_mut pred a in Ok (AOut st None, a', al)
  | ATrim => do (st, a', al') <- arr_trim a al; Ok (AOut st None, a', al')
  | ASize => Ok (AOut CC_OK (Some (a_size a)), a, al)
  end.

(** The ideal list. *)
Definition spec_step (pred : N -> bool) (l : list N) (o : arr_op) : arr_out * list N :=
  let n := lenN l in
  match o with
  | AAdd x => (AOut CC_OK None, l ++ [x])
  | AAddAt x i => if i <=? n then (AOut CC_OK None, insertN l i x) else (AOut CC_ERR_OUT_OF_RANGE None, l)
  | AReplaceAt x i => match getN l i, updN l i x with
                      | Some old, Some l' => (AOut CC_OK (Some old), l') | _, _ => (AOut CC_ERR_OUT_OF_RANGE None, l) end
  | ASwapAt i j => match getN l i, getN l j with
                   | Some x, Some y => match updN l i y with
                                       | Some l1 => match updN l1 j x with Some l2 => (AOut CC_OK None, l2) | None => (AOut CC_ERR_OUT_OF_RANGE None, l) end
                                       | None => (AOut CC_ERR_OUT_OF_RANGE None, l) end
                   | _, _ => (AOut CC_ERR_OUT_OF_RANGE None, l) end
  | ARemove x => match index_ofN l x with Some i => (AOut CC_OK (Some x), removeN l i) | None => (AOut CC_ERR_VALUE_NOT_FOUND None, l) end
  | ARemoveAt i => match getN l i with Some v => (AOut CC_OK (Some v), removeN l i) | None => (AOut CC_ERR_OUT_OF_RANGE None, l) end
  | ARemoveLast => match getN l (n - 1), (0 <? n) with
                   | Some v, true => (AOut CC_OK (Some v), removeN l (n - 1)) | _, _ => (AOut CC_ERR_OUT_OF_RANGE None, l) end
  | ARemoveAll => (AOut CC_OK None, [])
  | AGetAt i => match getN l i with Some v => (AOut CC_OK (Some v), l) | None => (AOut CC_ERR_OUT_OF_RANGE None, l) end
  | AGetLast => match getN l (n - 1), (0 <? n) with
                | Some v, true => (AOut CC_OK (Some v), l) | _, _ => (AOut CC_ERR_VALUE_NOT_FOUND None, l) end
  | AIndexOf x => match index_ofN l x with Some i => (AOut CC_OK (Some i), l) | None => (AOut CC_ERR_OUT_OF_RANGE None, l) end
  | AContains x => (AOut CC_OK (Some (countN l x)), l)
  | AReverse => (AOut CC_OK None, rev l)
  | AFilterMut => if n =? 0 then (AOut CC_ERR_OUT_OF_RANGE None, l) else (AOut CC_OK None, filter pred l)
  | ATrim => (AOut CC_OK None, l)
  | ASize => (AOut CC_OK (Some n), l)
  end.
