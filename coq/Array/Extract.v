(** Extraction of the array / stack model. ExtrOcamlBasic only; no Extract Constant. *)
From Coq Require Import Extraction ExtrOcamlBasic.
From CC Require Import Base.Prelude Base.Alloc Generated.Status Generated.Constants Generated.Guards Array.ArrayModel.
Extraction Language OCaml.
Extraction "model.ml"
  N.add N.mul N.sub N.div N.modulo N.eqb N.ltb N.leb N.of_nat N.to_nat N.land N.shiftl N.shiftr Z.of_N
  alloc_init alloc release count_tag is_live stat_code lenN getN
  arr_new arr_destroy arr_add arr_add_at arr_replace_at arr_swap_at arr_remove arr_remove_at arr_remove_last arr_remove_all
  arr_get_at arr_get_last arr_index_of arr_contains arr_contains_value arr_reverse arr_filter_mut arr_trim
  arr_subarray arr_copy_shallow arr_copy_deep arr_filter arr_map_order arr_reduce arr_sort a_size
  it_init it_next it_remove it_add it_replace it_idx zip_next zip_remove zip_add zip_replace
  stack_new stack_destroy stack_push stack_pop stack_peek stack_filter with_arr
  arr_step spec_step
  ARRAY_DEFAULT_CAPACITY ARRAY_DEFAULT_EXPANSION_FACTOR_num ARRAY_DEFAULT_EXPANSION_FACTOR_den
  SIZED_DEFAULT_CAPACITY SIZED_DEFAULT_EXPANSION_FACTOR_num SIZED_DEFAULT_EXPANSION_FACTOR_den.
