(** Further array/stack theorems used by the cross-cutting properties: derived arrays (C15), inert errors
    and generated guards (C16), iterators (C07), stack LIFO (C09), sorting glue (C18), growth (C20). *)
From Coq Require Import Permutation Sorted.
From CC Require Import Base.Prelude Base.ListMem Base.Alloc Base.AllocProofs Base.Ledger.
From CC Require Import Generated.Status Generated.Constants Generated.Guards.
From CC Require Import Array.ArrayModel Array.ArrayProofs Array.ArrayLoops Array.ArrayRefine.
Local Open Scope N_scope.

(** ------------------------------------------------------------------ C15: derived arrays *)
(** [arr_derive]: the common tail of subarray / copy_shallow / copy_deep / filter. The result holds exactly
    [d], inherits capacity, factor and allocator family, satisfies the invariant (so every later history on
    it is refined, in particular it can grow), the source is untouched and keeps its invariant; a refused
    request leaves the ledger as it was. *)
Lemma derive_spec a d al :
  arr_inv a al -> lim_ok a al -> lenN d <= a_cap a ->
  exists st r al', arr_derive a d al = Ok (st, r, al') /\
    match r with
    | Some b => st = CC_OK /\ a_data b = d /\ a_cap b = a_cap a /\ a_num b = a_num a /\ a_den b = a_den a /\
                a_mem b = a_mem a /\ arr_inv b al' /\ lim_ok b al' /\ arr_inv a al' /\ lim_ok a al' /\
                a_hdr b <> a_hdr a /\ a_hdr b <> a_blk a /\ a_blk b <> a_hdr a /\ a_blk b <> a_blk a
    | None => st = CC_ERR_ALLOC /\ live al' = live al /\ arr_inv a al' /\ lim_ok a al'
    end.
Proof.
  intros Hi Hl Hd. pose proof (inv_capW a al Hi Hl) as [HcW HsW].
  destruct Hi as [Hs Hc Hb Hsl Hdn Hn Hw Hh Hk Hx]. destruct Hl as [L1 L2]. unfold arr_derive.
  assert (Hfresh : a_blk a < next_id al /\ a_hdr a < next_id al) by (split; eapply owned_bound; eauto).
  destruct (alloc (a_mem a) ARRAY_HDR al) as [[h|] a1] eqn:E1.
  - destruct (alloc_wf _ _ _ _ _ Hw E1) as (Hw1 & Hlim1 & Hq1 & -> & Hlive1 & Hnid1 & _).
    destruct (wmul8 (a_cap a) HcW) as [Hw8 Hw8d]. rewrite Hw8d, Hw8.
    destruct (alloc (a_mem a) (a_cap a * 8) a1) as [[b|] a2] eqn:E2.
    + destruct (alloc_wf _ _ _ _ _ Hw1 E2) as (Hw2 & Hlim2 & Hq2 & -> & Hlive2 & Hnid2 & Hgr).
      replace (a_cap a <? lenN d) with false by lia.
      do 3 eexists. split; [reflexivity|]. cbn [a_data a_cap a_slots a_num a_den a_hdr a_blk a_mem].
      assert (Ho1 : owned (a_mem a) (a_hdr a) a2) by (eapply owned_alloc; [eapply owned_alloc; eauto|eauto]).
      assert (Ho2 : owned (a_mem a) (a_blk a) a2) by (eapply owned_alloc; [eapply owned_alloc; eauto|eauto]).
      assert (Hlim : limit a2 = limit al) by congruence.
      assert (Hinvb : arr_inv {| a_data := d; a_cap := a_cap a; a_slots := a_cap a; a_num := a_num a; a_den := a_den a;
                                 a_hdr := next_id al; a_blk := next_id a1; a_mem := a_mem a |} a2).
      { constructor; cbn [a_data a_cap a_slots a_num a_den a_hdr a_blk a_mem]; auto; try lia.
        all: try (unfold a_size; cbn [a_data]; lia).
        all: try (rewrite Hlim; lia).
        - eapply owned_alloc; [eapply owned_new; eauto|eauto].
        - eapply owned_new; eauto. }
      assert (Hinva : arr_inv a a2) by (constructor; auto; rewrite Hlim; assumption).
      repeat apply conj; auto; try lia; try (rewrite Hlim; assumption).
    + destruct (alloc_wf _ _ _ _ _ Hw1 E2) as (Hw2 & Hlim2 & Hq2 & Hlive2 & Hnid2).
      rewrite Hlive1 in Hlive2.
      destruct (release_head _ _ _ _ _ Hlive2) as (a3 & -> & Hl3 & Hn3 & Hlim3 & _). cbn [bind].
      do 3 eexists. split; [reflexivity|]. repeat apply conj; auto.
      * constructor; auto; try (rewrite Hlim3, Hlim2, Hlim1; assumption).
        -- destruct Hw as [Hnd Hbd]. split; [unfold ids_nodup; rewrite Hl3; exact Hnd|].
           intros b. rewrite Hl3, Hn3, Hnid2, Hnid1. intros Hin. apply Hbd in Hin. lia.
        -- destruct Hh as (b & H1 & H2 & H3). exists b. rewrite Hl3. auto.
        -- destruct Hk as (b & H1 & H2 & H3). exists b. rewrite Hl3. auto.
      * rewrite Hlim3, Hlim2, Hlim1; exact L1.
      * rewrite Hlim3, Hlim2, Hlim1; exact L2.
  - destruct (alloc_wf _ _ _ _ _ Hw E1) as (Hw1 & Hlim1 & Hq1 & Hlive1 & Hnid1).
    do 3 eexists. split; [reflexivity|]. repeat apply conj; auto.
    + constructor; auto; try (rewrite Hlim1; assumption).
      * destruct Hh as (b & H1 & H2 & H3). exists b. rewrite Hlive1. auto.
      * destruct Hk as (b & H1 & H2 & H3). exists b. rewrite Hlive1. auto.
    + rewrite Hlim1; exact L1.
    + rewrite Hlim1; exact L2.
Qed.

Lemma lenN_firstnN_le (l : list N) n : lenN (firstnN n l) <= lenN l.
Proof. unfold lenN, firstnN. rewrite firstn_length. lia. Qed.
Lemma lenN_map (f : N -> N) l : lenN (map f l) = lenN l.
Proof. unfold lenN. rewrite map_length. reflexivity. Qed.

(** What each derived-array builder puts into the result. *)
Definition derived_content (pred : N -> bool) (cp : N -> N) (kind : N) (b e : N) (l : list N) : list N :=
  if kind =? 0 then firstnN (e - b + 1) (skipnN b l)          (* subarray b e *)
  else if kind =? 1 then l                                      (* copy_shallow *)
  else if kind =? 2 then map cp l                               (* copy_deep *)
  else filter pred l.                                           (* filter *)

Theorem subarray_spec a b e al :
  arr_inv a al -> lim_ok a al -> b < W -> e < W ->
  exists st r al', arr_subarray a b e al = Ok (st, r, al') /\
    if (b <=? e) && (e <? a_size a) then
      match r with
      | Some s => st = CC_OK /\ a_data s = firstnN (e - b + 1) (skipnN b (a_data a)) /\ arr_inv s al' /\ lim_ok s al' /\
                  arr_inv a al' /\ a_mem s = a_mem a /\ a_num s = a_num a /\ a_den s = a_den a
      | None => st = CC_ERR_ALLOC /\ live al' = live al /\ arr_inv a al'
      end
    else st = CC_ERR_INVALID_RANGE /\ r = None /\ al' = al.
Proof.
  intros Hi Hl Hb He. unfold arr_subarray, g_array_subarray_range.
  destruct ((e <? b) || (a_size a <=? e)) eqn:Eg.
  - do 3 eexists. split; [reflexivity|].
    replace ((b <=? e) && (e <? a_size a)) with false; auto.
    symmetry. apply andb_false_iff. apply orb_true_iff in Eg. destruct Eg; [left|right]; lia.
  - apply orb_false_iff in Eg. destruct Eg as [E1 E2].
    replace ((b <=? e) && (e <? a_size a)) with true by (symmetry; apply andb_true_iff; split; lia).
    pose proof (ai_size _ _ Hi).
    destruct (derive_spec a (firstnN (e - b + 1) (skipnN b (a_data a))) al Hi Hl) as (st & r & al' & -> & Hr).
    + eapply N.le_trans; [apply lenN_firstnN_le|]. rewrite lenN_skipnN. unfold a_size in *. lia.
    + do 3 eexists. split; [reflexivity|]. destruct r as [s|]; intuition.
Qed.

Theorem copy_shallow_spec a al :
  arr_inv a al -> lim_ok a al ->
  exists st r al', arr_copy_shallow a al = Ok (st, r, al') /\
    match r with
    | Some s => st = CC_OK /\ a_data s = a_data a /\ a_cap s = a_cap a /\ arr_inv s al' /\ lim_ok s al' /\ arr_inv a al' /\
                a_mem s = a_mem a /\ a_num s = a_num a /\ a_den s = a_den a
    | None => st = CC_ERR_ALLOC /\ live al' = live al /\ arr_inv a al'
    end.
Proof.
  intros Hi Hl. unfold arr_copy_shallow.
  destruct (derive_spec a (a_data a) al Hi Hl) as (st & r & al' & -> & Hr); [apply (ai_size _ _ Hi)|].
  do 3 eexists. split; [reflexivity|]. destruct r as [s|]; intuition.
Qed.

Theorem copy_deep_spec cp a al :
  arr_inv a al -> lim_ok a al ->
  exists st r al', arr_copy_deep cp a al = Ok (st, r, al') /\
    match r with
    | Some s => st = CC_OK /\ a_data s = map cp (a_data a) /\ arr_inv s al' /\ lim_ok s al' /\ arr_inv a al' /\ a_mem s = a_mem a
    | None => st = CC_ERR_ALLOC /\ live al' = live al /\ arr_inv a al'
    end.
Proof.
  intros Hi Hl. unfold arr_copy_deep.
  destruct (derive_spec a (map cp (a_data a)) al Hi Hl) as (st & r & al' & -> & Hr); [rewrite lenN_map; apply (ai_size _ _ Hi)|].
  do 3 eexists. split; [reflexivity|]. destruct r as [s|]; intuition.
Qed.

Theorem filter_spec pred a al :
  arr_inv a al -> lim_ok a al ->
  exists st r al', arr_filter pred a al = Ok (st, r, al') /\
    if a_size a =? 0 then st = CC_ERR_OUT_OF_RANGE /\ r = None /\ al' = al else
    match r with
    | Some s => st = CC_OK /\ a_data s = filter pred (a_data a) /\ arr_inv s al' /\ lim_ok s al' /\ arr_inv a al' /\ a_mem s = a_mem a
    | None => st = CC_ERR_ALLOC /\ live al' = live al /\ arr_inv a al'
    end.
Proof.
  intros Hi Hl. unfold arr_filter, g_array_filter_empty.
  destruct (a_size a =? 0) eqn:E.
  - do 3 eexists. split; [reflexivity|]. auto.
  - destruct (derive_spec a (filter pred (a_data a)) al Hi Hl) as (st & r & al' & -> & Hr).
    + eapply N.le_trans; [apply lenN_filter_le|apply (ai_size _ _ Hi)].
    + do 3 eexists. split; [reflexivity|]. destruct r as [s|]; intuition.
Qed.

(** ------------------------------------------------------------------ C16: rejected operations are inert *)
Lemma set_data_same a : set_data a (a_data a) = a.
Proof. destruct a; reflexivity. Qed.

(** Any step that reports a status other than CC_OK returns the very same array; unless it was a refused
    allocation it also leaves the ledger untouched. *)
Theorem arr_err_inert pred a o al out a' al' :
  arr_inv a al -> lim_ok a al -> op_ok o ->
  arr_step pred a o al = Ok (out, a', al') ->
  (forall v, out <> AOut CC_OK v) -> a' = a /\ (al' = al \/ (allocating o = true /\ refused_once al al')).
Proof.
  intros Hi Hl Hop Hs Hne. pose proof (inv_capW a al Hi Hl) as [HcW HsW].
  destruct o as [x|x i|x i|i j|x|i| | |i| |x|x| | | |]; cbn [arr_step op_ok allocating] in *.
  - destruct (add_spec a x al Hi Hl) as (st & b & bl & Heq & Ho). rewrite Heq in Hs. cbn [bind] in Hs. inversion Hs; subst.
    unfold alloc_outcome in Ho. destruct Ho as [(-> & _)|(-> & -> & Hr)]; [exfalso; eapply Hne; reflexivity|auto].
  - destruct (add_at_spec a x i al Hi Hl Hop) as (st & b & bl & Heq & Ho). rewrite Heq in Hs. cbn [bind] in Hs. inversion Hs; subst.
    destruct (i <=? a_size a).
    + unfold alloc_outcome in Ho. destruct Ho as [(-> & _)|(-> & -> & Hr)]; [exfalso; eapply Hne; reflexivity|auto].
    + destruct Ho as (_ & -> & ->). auto.
  - rewrite replace_at_spec in Hs by assumption.
    destruct (getN (a_data a) i); [destruct (updN (a_data a) i x)|]; inversion Hs; subst; auto; exfalso; eapply Hne; reflexivity.
  - destruct Hop. rewrite swap_at_spec in Hs by assumption.
    destruct (getN (a_data a) i) as [vx|]; [destruct (getN (a_data a) j) as [vy|]; [destruct (updN (a_data a) i vy) as [l1|]; [destruct (updN l1 j vx)|]|]|];
      inversion Hs; subst; auto; exfalso; eapply Hne; reflexivity.
  - unfold arr_remove in Hs. destruct (index_ofN (a_data a) x); inversion Hs; subst; auto; exfalso; eapply Hne; reflexivity.
  - rewrite remove_at_spec in Hs by assumption.
    destruct (getN (a_data a) i); inversion Hs; subst; auto; exfalso; eapply Hne; reflexivity.
  - rewrite remove_last_spec in Hs by assumption.
    destruct (getN (a_data a) (a_size a - 1)); [destruct (0 <? a_size a)|]; inversion Hs; subst; auto; exfalso; eapply Hne; reflexivity.
  - inversion Hs; subst. exfalso; eapply Hne; reflexivity.
  - rewrite get_at_spec in Hs by assumption. destruct (getN (a_data a) i); inversion Hs; subst; auto.
  - rewrite get_last_spec in Hs by assumption.
    destruct (getN (a_data a) (a_size a - 1)); [destruct (0 <? a_size a)|]; inversion Hs; subst; auto.
  - unfold arr_index_of in Hs. destruct (index_ofN (a_data a) x); inversion Hs; subst; auto.
  - inversion Hs; subst; auto.
  - rewrite reverse_spec in Hs by assumption. cbn [bind] in Hs. inversion Hs; subst. exfalso; eapply Hne; reflexivity.
  - destruct (N.eq_dec (a_size a) 0) as [E|E].
    + unfold arr_filter_mut, g_array_filter_mut_empty in Hs. rewrite E in Hs. cbn in Hs. inversion Hs; subst; auto.
    + rewrite (filter_mut_spec pred a E) in Hs. inversion Hs; subst. exfalso; eapply Hne; reflexivity.
  - destruct (trim_spec a al Hi Hl) as (st & b & bl & Heq & Ho). rewrite Heq in Hs. cbn [bind] in Hs. inversion Hs; subst.
    destruct Ho as [(-> & _)|(-> & -> & Hr)]; [exfalso; eapply Hne; reflexivity|auto].
  - inversion Hs; subst; auto.
Qed.

(** The generated range guards reject exactly the indices outside [0, size), for all values below 2^64. *)
Theorem array_guards : forall i j n,
  (g_array_replace_at_range i n = true <-> n <= i) /\
  (g_array_remove_at_range i n = true <-> n <= i) /\
  (g_array_get_at_range i n = true <-> n <= i) /\
  (g_array_swap_at_range i j n = true <-> (n <= i \/ n <= j)) /\
  (g_array_subarray_range i j n = true <-> (j < i \/ n <= j)) /\
  (g_array_iter_next_end i n = true <-> n <= i).
Proof.
  intros i j n. unfold g_array_replace_at_range, g_array_remove_at_range, g_array_get_at_range, g_array_swap_at_range,
    g_array_subarray_range, g_array_iter_next_end.
  repeat apply conj; rewrite ?orb_true_iff, ?N.leb_le, ?N.ltb_lt; tauto.
Qed.

(** ------------------------------------------------------------------ C07: the array iterator *)
Lemma skipnN_removeN (l : list N) k : k < lenN l -> skipnN k (removeN l k) = skipnN (k + 1) l.
Proof.
  intros H. unfold removeN, skipnN, firstnN. rewrite skipn_app, firstn_length.
  replace (Nat.min (N.to_nat k) (length l)) with (N.to_nat k) by (unfold lenN in H; lia).
  rewrite skipn_all2 by (rewrite firstn_length; unfold lenN in H; lia). rewrite Nat.sub_diag. reflexivity.
Qed.
Lemma firstnN_removeN (l : list N) k : k < lenN l -> firstnN k (removeN l k) = firstnN k l.
Proof.
  intros H. unfold removeN, firstnN. rewrite firstn_app, firstn_length.
  replace (Nat.min (N.to_nat k) (length l)) with (N.to_nat k) by (unfold lenN in H; lia).
  rewrite Nat.sub_diag, firstn_O, app_nil_r. rewrite firstn_firstn. f_equal. lia.
Qed.
Lemma skipnN_insertN (l : list N) k x : k <= lenN l -> skipnN (k + 1) (insertN l k x) = skipnN k l.
Proof.
  intros H. unfold insertN, skipnN, firstnN. rewrite skipn_app, firstn_length.
  replace (Nat.min (N.to_nat k) (length l)) with (N.to_nat k) by (unfold lenN in H; lia).
  rewrite skipn_all2 by (rewrite firstn_length; unfold lenN in H; lia).
  replace (N.to_nat (k + 1) - N.to_nat k)%nat with 1%nat by lia. reflexivity.
Qed.
Lemma firstnN_insertN (l : list N) k x : k <= lenN l -> firstnN k (insertN l k x) = firstnN k l.
Proof.
  intros H. unfold insertN, firstnN. rewrite firstn_app, firstn_length.
  replace (Nat.min (N.to_nat k) (length l)) with (N.to_nat k) by (unfold lenN in H; lia).
  rewrite Nat.sub_diag, firstn_O, app_nil_r. rewrite firstn_firstn. f_equal. lia.
Qed.

(** next: yields the element under the cursor and advances, or reports the end - at every fill level. *)
Theorem it_next_spec a it :
  a_size a < W ->
  it_next a it = match getN (a_data a) (it_index it) with
                 | Some v => (CC_OK, Some v, {| it_index := wadd (it_index it) 1; it_removed := false |})
                 | None => (CC_ITER_END, None, it) end.
Proof.
  intros Hs. unfold it_next, g_array_iter_next_end. destruct (a_size a <=? it_index it) eqn:E; [|reflexivity].
  rewrite (proj2 (getN_None_ge _ _)) by (unfold a_size in *; lia). reflexivity.
Qed.

(** A traversal from cursor position [k] yields exactly the elements from [k] on, in order, then the end. *)
Fixpoint it_collect (fuel : nat) (a : arr) (it : aiter) : list N :=
  match fuel with
  | O => []
  | S f => match it_next a it with (CC_OK, Some v, it') => v :: it_collect f a it' | _ => [] end
  end.
Theorem it_collect_spec fuel : forall a it,
  a_size a < W -> (N.to_nat (a_size a - it_index it) <= fuel)%nat ->
  it_collect fuel a it = skipnN (it_index it) (a_data a).
Proof.
  induction fuel as [|f IH]; intros a it Hs Hf.
  - cbn. unfold skipnN. rewrite skipn_all2; [reflexivity|]. unfold a_size, lenN in *. lia.
  - cbn [it_collect]. rewrite it_next_spec by assumption.
    destruct (getN (a_data a) (it_index it)) as [v|] eqn:Eg.
    + pose proof (getN_Some_lt _ _ _ Eg) as Hlt. rewrite IH; cbn [it_index]; auto.
      * rewrite wadd1 by (unfold a_size in *; lia). unfold skipnN, getN in *.
        replace (N.to_nat (it_index it + 1)) with (S (N.to_nat (it_index it))) by lia.
        symmetry. apply skipn_nth. assumption.
      * rewrite wadd1 by (unfold a_size in *; lia). unfold a_size in *. lia.
    + apply getN_None_ge in Eg. unfold skipnN. rewrite skipn_all2; [reflexivity|]. unfold lenN in *. lia.
Qed.
Corollary it_fresh_complete a : a_size a < W -> it_collect (N.to_nat (a_size a)) a it_init = a_data a.
Proof. intros Hs. rewrite it_collect_spec by (cbn; auto; lia). reflexivity. Qed.

(** remove directly after a yield (cursor k >= 1, nothing removed since): removes exactly the yielded
    element (position k-1), everything before and after it is untouched, and the cursor moves back so that
    the rest of the traversal is exactly the not-yet-visited original elements. *)
Theorem it_remove_spec a it :
  a_size a < W -> it_removed it = false -> 0 < it_index it -> it_index it <= a_size a ->
  exists v, getN (a_data a) (it_index it - 1) = Some v /\
    it_remove a it = (CC_OK, Some v, set_data a (removeN (a_data a) (it_index it - 1)),
                      {| it_index := it_index it - 1; it_removed := true |}) /\
    skipnN (it_index it - 1) (removeN (a_data a) (it_index it - 1)) = skipnN (it_index it) (a_data a) /\
    firstnN (it_index it - 1) (removeN (a_data a) (it_index it - 1)) = firstnN (it_index it - 1) (a_data a).
Proof.
  intros Hs Hr Hp Hle. unfold it_remove. rewrite Hr. rewrite wsub1 by lia.
  rewrite remove_at_spec by lia.
  destruct (getN_lt (a_data a) (it_index it - 1)) as [v Hv]; [unfold a_size in *; lia|].
  exists v. rewrite Hv. repeat apply conj; auto.
  - rewrite skipnN_removeN by (unfold a_size in *; lia). f_equal. lia.
  - apply firstnN_removeN. unfold a_size in *. lia.
Qed.

(** add after a yield: the element is inserted at the cursor (right after the yielded element), the cursor
    steps over it, the rest of the traversal is unchanged; a refused growth changes nothing - cursor included. *)
Theorem it_add_spec a it x al :
  arr_inv a al -> lim_ok a al -> it_index it <= a_size a ->
  exists st a' it' al', it_add a it x al = Ok (st, a', it', al') /\
    ((st = CC_OK /\ a_data a' = insertN (a_data a) (it_index it) x /\ it_index it' = it_index it + 1 /\
      it_removed it' = it_removed it /\ arr_inv a' al' /\ lim_ok a' al' /\
      skipnN (it_index it') (a_data a') = skipnN (it_index it) (a_data a) /\
      firstnN (it_index it) (a_data a') = firstnN (it_index it) (a_data a)) \/
     (st = CC_ERR_ALLOC /\ a' = a /\ it' = it /\ refused_once al al')).
Proof.
  intros Hi Hl Hle. pose proof (inv_capW a al Hi Hl) as [HcW HsW]. pose proof (ai_size _ _ Hi) as Hsz. unfold it_add.
  destruct (add_at_spec a x (it_index it) al Hi Hl) as (st & a' & al' & -> & Ho); [lia|]. cbn [bind].
  replace (it_index it <=? a_size a) with true in Ho by lia. unfold alloc_outcome in Ho.
  destruct Ho as [(-> & Hd & Hi' & Hl' & _)|(-> & -> & Hr)].
  - do 4 eexists. split; [reflexivity|]. left. cbn [it_index it_removed]. rewrite wadd1 by (unfold W in *; lia).
    repeat apply conj; auto; try apply Hl'.
    + rewrite Hd. apply skipnN_insertN. unfold a_size in *. lia.
    + rewrite Hd. apply firstnN_insertN. unfold a_size in *. lia.
  - do 4 eexists. split; [reflexivity|]. right. auto.
Qed.

Theorem it_replace_spec a it x :
  a_size a < W -> 0 < it_index it -> it_index it <= a_size a ->
  exists old l', getN (a_data a) (it_index it - 1) = Some old /\ updN (a_data a) (it_index it - 1) x = Some l' /\
    it_replace a it x = (CC_OK, Some old, set_data a l') /\ it_idx it = it_index it - 1.
Proof.
  intros Hs Hp Hle. unfold it_replace, it_idx. rewrite wsub1 by lia. rewrite replace_at_spec by lia.
  destruct (getN_lt (a_data a) (it_index it - 1)) as [old Ho]; [unfold a_size in *; lia|].
  destruct (updN_lt (a_data a) (it_index it - 1) x) as [l' Hu]; [unfold a_size in *; lia|].
  exists old, l'. rewrite Ho, Hu. auto.
Qed.

(** zip: advances both arrays in lockstep and stops at the shorter one. *)
Theorem zip_next_spec a1 a2 it :
  a_size a1 < W -> a_size a2 < W ->
  zip_next a1 a2 it = match getN (a_data a1) (it_index it), getN (a_data a2) (it_index it) with
                      | Some x, Some y => (CC_OK, Some (x, y), {| it_index := wadd (it_index it) 1; it_removed := false |})
                      | _, _ => (CC_ITER_END, None, it) end.
Proof.
  intros H1 H2. unfold zip_next, g_array_zip_next_end.
  destruct ((a_size a1 <=? it_index it) || (a_size a2 <=? it_index it)) eqn:E; [|reflexivity].
  apply orb_true_iff in E. destruct E as [E|E].
  - rewrite (proj2 (getN_None_ge (a_data a1) _)) by (unfold a_size in *; lia). reflexivity.
  - rewrite (proj2 (getN_None_ge (a_data a2) _)) by (unfold a_size in *; lia). destruct (getN (a_data a1) (it_index it)); reflexivity.
Qed.

(** ------------------------------------------------------------------ C09: CC_Stack is LIFO *)
(** The abstract stack is the array contents, bottom first. *)
Theorem stack_push_spec s x al :
  arr_inv (s_arr s) al -> lim_ok (s_arr s) al ->
  exists st s' al', stack_push s x al = Ok (st, s', al') /\
    ((st = CC_OK /\ a_data (s_arr s') = a_data (s_arr s) ++ [x] /\ arr_inv (s_arr s') al' /\ lim_ok (s_arr s') al' /\
      s_hdr s' = s_hdr s /\ s_mem s' = s_mem s) \/
     (st = CC_ERR_ALLOC /\ s' = s /\ refused_once al al')).
Proof.
  intros Hi Hl. unfold stack_push.
  destruct (add_spec (s_arr s) x al Hi Hl) as (st & a' & al' & -> & Ho). cbn [bind]. unfold alloc_outcome in Ho.
  destruct Ho as [(-> & Hd & Hi' & Hl' & _)|(-> & -> & Hr)].
  - do 3 eexists. split; [reflexivity|]. left. cbn. repeat apply conj; auto; apply Hl'.
  - do 3 eexists. split; [reflexivity|]. right. destruct s; auto.
Qed.

Theorem stack_pop_spec s :
  a_size (s_arr s) < W ->
  stack_pop s = match rev (a_data (s_arr s)) with
                | top :: rest => (CC_OK, Some top, with_arr s (set_data (s_arr s) (rev rest)))
                | [] => (CC_ERR_OUT_OF_RANGE, None, s) end.
Proof.
  intros Hs. unfold stack_pop. rewrite remove_last_spec by assumption.
  destruct (rev (a_data (s_arr s))) as [|top rest] eqn:Er.
  - assert (Ed : a_data (s_arr s) = []) by (apply (f_equal (@rev N)) in Er; rewrite rev_involutive in Er; exact Er).
    unfold a_size. rewrite Ed. cbn. destruct s; reflexivity.
  - assert (Ed : a_data (s_arr s) = rev rest ++ [top]) by (apply (f_equal (@rev N)) in Er; rewrite rev_involutive in Er; exact Er).
    unfold a_size. rewrite Ed. set (l := rev rest).
    rewrite lenN_app. change (lenN [top]) with 1. replace (lenN l + 1 - 1) with (lenN l) by lia.
    rewrite getN_app_mid. replace (0 <? lenN l + 1) with true by lia.
    f_equal. f_equal. f_equal.
    unfold removeN, firstnN, skipnN, lenN. rewrite Nat2N.id. rewrite firstn_app, firstn_all, Nat.sub_diag, firstn_O, app_nil_r.
    rewrite skipn_all2 by (rewrite app_length; cbn; lia). apply app_nil_r.
Qed.

Theorem stack_peek_spec s :
  a_size (s_arr s) < W ->
  stack_peek s = match rev (a_data (s_arr s)) with
                 | top :: _ => (CC_OK, Some top) | [] => (CC_ERR_VALUE_NOT_FOUND, None) end.
Proof.
  intros Hs. unfold stack_peek. rewrite get_last_spec by assumption.
  destruct (rev (a_data (s_arr s))) as [|top rest] eqn:Er.
  - assert (Ed : a_data (s_arr s) = []) by (apply (f_equal (@rev N)) in Er; rewrite rev_involutive in Er; exact Er).
    unfold a_size. rewrite Ed. reflexivity.
  - assert (Ed : a_data (s_arr s) = rev rest ++ [top]) by (apply (f_equal (@rev N)) in Er; rewrite rev_involutive in Er; exact Er).
    unfold a_size. rewrite Ed. set (l := rev rest).
    rewrite lenN_app. change (lenN [top]) with 1. replace (lenN l + 1 - 1) with (lenN l) by lia.
    rewrite getN_app_mid. replace (0 <? lenN l + 1) with true by lia. reflexivity.
Qed.

(** ------------------------------------------------------------------ C18: sorting glue *)
(** cc_array_sort hands the live prefix to qsort and nothing else: under the hypothesis that the sorter
    returns a sorted permutation, so is the array; size, capacity and blocks are unchanged. *)
Theorem arr_sort_spec (sorter : list N -> list N) (le : N -> N -> Prop) a :
  (forall l, Permutation l (sorter l) /\ Sorted le (sorter l)) ->
  Permutation (a_data a) (a_data (arr_sort sorter a)) /\ Sorted le (a_data (arr_sort sorter a)) /\
  a_size (arr_sort sorter a) = a_size a /\ a_cap (arr_sort sorter a) = a_cap a /\
  (a_size a <= 1 -> a_data (arr_sort sorter a) = a_data a).
Proof.
  intros H. destruct (H (a_data a)) as [Hp Hs]. cbn. repeat apply conj; auto.
  - unfold a_size, lenN. cbn. rewrite (Permutation_length Hp). reflexivity.
  - intros Hle. unfold a_size, lenN in Hle. destruct (a_data a) as [|x [|y t]] eqn:E; cbn in Hle; try lia.
    + apply Permutation_nil in Hp. assumption.
    + apply Permutation_length_1_inv in Hp. assumption.
Qed.

(** ------------------------------------------------------------------ C20: capacity facts *)
Theorem arr_size_le_capacity a al : arr_inv a al -> a_size a <= a_cap a /\ 1 <= a_cap a.
Proof. intros Hi. split; [apply (ai_size _ _ Hi)|pose proof (ai_cap _ _ Hi); lia]. Qed.

(** One growth step multiplies the capacity by at least (num+den)/(2 den) when capacity*(num-den) >= 2 den:
    c*num/den >= c*(num+den)/(2den). Iterating gives the geometric lower bound, hence O(log n) reallocations. *)
Lemma growth_rate c num den :
  0 < den -> den < num -> 2 * den <= c * (num - den) -> c * (num + den) <= (c * num / den) * (2 * den).
Proof.
  intros Hd Hn Hc.
  assert (H1 : c * num < (c * num / den + 1) * den).
  { pose proof (N.mul_succ_div_gt (c * num) den). lia. }
  nia.
Qed.

(** ------------------------------------------------------------------ C14: only the container's own allocator family *)
(** Every block that an array operation adds to the ledger carries the array's tag; releases are checked
    by the ledger itself (a release through the other family is [Fault BadFree], and no step faults). *)
Definition only_own_tag (mem : tag) (al al' : alloc_st) : Prop :=
  forall b, In b (live al') -> In b (live al) \/ b_tag b = mem.

Lemma only_own_refl mem al : only_own_tag mem al al.
Proof. intros b Hb; left; assumption. Qed.
Lemma only_own_trans mem a1 a2 a3 : only_own_tag mem a1 a2 -> only_own_tag mem a2 a3 -> only_own_tag mem a1 a3.
Proof. intros H1 H2 b Hb. destruct (H2 b Hb) as [H|H]; [apply H1; assumption|right; assumption]. Qed.

Lemma expand_tags a al st a' al' : arr_expand a al = Ok (st, a', al') -> only_own_tag (a_mem a) al al' /\ a_mem a' = a_mem a.
Proof.
  unfold arr_expand. destruct (g_array_expand_at_max (a_cap a)); [intros H; inversion H; subst; split; [apply only_own_refl|reflexivity]|].
  set (new := if g_array_expand_overflow _ _ then _ else _).
  destruct (g_array_expand_bytes new SIZE_MAX); [intros H; inversion H; subst; split; [apply only_own_refl|reflexivity]|].
  destruct (alloc (a_mem a) (wmul new 8) al) as [[b|] a1] eqn:Ea.
  - destruct (wmul new 8 / 8 <? a_size a); [discriminate|].
    destruct (release (a_mem a) (a_blk a) a1) as [a2|] eqn:Er; cbn [bind]; [|discriminate].
    intros H; inversion H; subst. split; [|reflexivity].
    intros x Hx. apply (release_incl _ _ _ _ Er) in Hx. eapply alloc_new_tag; eauto.
  - intros H; inversion H; subst. split; [|reflexivity]. intros x Hx. eapply alloc_new_tag; eauto.
Qed.

Lemma add_tags a x al st a' al' : arr_add a x al = Ok (st, a', al') -> only_own_tag (a_mem a) al al' /\ a_mem a' = a_mem a.
Proof.
  unfold arr_add. destruct (g_array_add_full _ _).
  - destruct (arr_expand a al) as [[[st1 a1] al1]|] eqn:Ee; cbn [bind]; [|discriminate].
    destruct (expand_tags _ _ _ _ _ Ee) as [Ht Hm].
    destruct st1; [|intros H; inversion H; subst; auto ..].
    destruct (write_ok a1 (a_size a1)); [|discriminate]. intros H; inversion H; subst. auto.
  - cbn [bind]. destruct (write_ok a (a_size a)); [|discriminate]. intros H; inversion H; subst. split; [apply only_own_refl|reflexivity].
Qed.

Lemma add_at_tags a x i al st a' al' : arr_add_at a x i al = Ok (st, a', al') -> only_own_tag (a_mem a) al al' /\ a_mem a' = a_mem a.
Proof.
  unfold arr_add_at. destruct (g_array_add_at_append _ _); [apply add_tags|].
  destruct (g_array_add_at_range _ _); [intros H; inversion H; subst; split; [apply only_own_refl|reflexivity]|].
  destruct (g_array_add_at_full _ _).
  - destruct (arr_expand a al) as [[[st1 a1] al1]|] eqn:Ee; cbn [bind]; [|discriminate].
    destruct (expand_tags _ _ _ _ _ Ee) as [Ht Hm].
    destruct st1; [|intros H; inversion H; subst; auto ..].
    destruct (write_ok a1 (a_size a1)); [|discriminate]. intros H; inversion H; subst. auto.
  - cbn [bind]. destruct (write_ok a (a_size a)); [|discriminate]. intros H; inversion H; subst. split; [apply only_own_refl|reflexivity].
Qed.

Lemma trim_tags a al st a' al' : arr_trim a al = Ok (st, a', al') -> only_own_tag (a_mem a) al al' /\ a_mem a' = a_mem a.
Proof.
  unfold arr_trim. destruct (g_array_trim_noop _ _); [intros H; inversion H; subst; split; [apply only_own_refl|reflexivity]|].
  set (size := if a_size a <? 1 then 1 else a_size a).
  destruct (alloc (a_mem a) (wmul size 8) al) as [[b|] a1] eqn:Ea.
  - destruct (release (a_mem a) (a_blk a) a1) as [a2|] eqn:Er; cbn [bind]; [|discriminate].
    intros H; inversion H; subst. split; [|reflexivity].
    intros x Hx. apply (release_incl _ _ _ _ Er) in Hx. eapply alloc_new_tag; eauto.
  - intros H; inversion H; subst. split; [|reflexivity]. intros x Hx. eapply alloc_new_tag; eauto.
Qed.

Theorem arr_step_tags pred a o al out a' al' :
  arr_step pred a o al = Ok (out, a', al') -> only_own_tag (a_mem a) al al' /\ a_mem a' = a_mem a.
Proof.
  destruct o; cbn [arr_step].
  - destruct (arr_add a x al) as [[[st a1] al1]|] eqn:E; cbn [bind]; [|discriminate]. intros H; inversion H; subst. eapply add_tags; eauto.
  - destruct (arr_add_at a x i al) as [[[st a1] al1]|] eqn:E; cbn [bind]; [|discriminate]. intros H; inversion H; subst. eapply add_at_tags; eauto.
  - destruct (arr_replace_at a x i) as [[st v] a1] eqn:E. intros H; inversion H; subst. split; [apply only_own_refl|].
    unfold arr_replace_at in E. destruct (g_array_replace_at_range _ _); [inversion E; reflexivity|].
    destruct (getN _ _); [destruct (updN _ _ _)|]; inversion E; reflexivity.
  - destruct (arr_swap_at a i j) as [st a1] eqn:E. intros H; inversion H; subst. split; [apply only_own_refl|].
    unfold arr_swap_at in E. destruct (g_array_swap_at_range _ _ _); [inversion E; reflexivity|].
    destruct (getN (a_data a) i); [destruct (getN (a_data a) j); [destruct (updN _ _ _) as [d1|]; [destruct (updN d1 _ _)|]|]|]; inversion E; reflexivity.
  - destruct (arr_remove a x) as [[st v] a1] eqn:E. intros H; inversion H; subst. split; [apply only_own_refl|].
    unfold arr_remove in E. destruct (index_ofN _ _); inversion E; reflexivity.
  - destruct (arr_remove_at a i) as [[st v] a1] eqn:E. intros H; inversion H; subst. split; [apply only_own_refl|].
    unfold arr_remove_at in E. destruct (g_array_remove_at_range _ _); [inversion E; reflexivity|]. destruct (getN _ _); inversion E; reflexivity.
  - destruct (arr_remove_last a) as [[st v] a1] eqn:E. intros H; inversion H; subst. split; [apply only_own_refl|].
    unfold arr_remove_last, arr_remove_at in E. destruct (g_array_remove_at_range _ _); [inversion E; reflexivity|]. destruct (getN _ _); inversion E; reflexivity.
  - intros H; inversion H; subst. split; [apply only_own_refl|reflexivity].
  - destruct (arr_get_at a i) as [st v]. intros H; inversion H; subst. split; [apply only_own_refl|reflexivity].
  - destruct (arr_get_last a) as [st v]. intros H; inversion H; subst. split; [apply only_own_refl|reflexivity].
  - destruct (arr_index_of a x) as [st v]. intros H; inversion H; subst. split; [apply only_own_refl|reflexivity].
  - intros H; inversion H; subst. split; [apply only_own_refl|reflexivity].
  - destruct (arr_reverse a) as [a1|] eqn:E; cbn [bind]; [|discriminate]. intros H; inversion H; subst. split; [apply only_own_refl|].
    unfold arr_reverse in E. destruct (g_array_reverse_empty _); [inversion E; reflexivity|]. destruct (rev_loop _ _ _ _ _); inversion E; reflexivity.
  - destruct (arr_filter_mut pred a) as [st a1] eqn:E. intros H; inversion H; subst. split; [apply only_own_refl|].
    unfold arr_filter_mut in E. destruct (g_array_filter_mut_empty _); [inversion E; reflexivity|].
    destruct (fm_loop _ _ _ _ _ _) as [[[d sz] rm] keep]. destruct (0 <? rm); inversion E; reflexivity.
  - destruct (arr_trim a al) as [[[st a1] al1]|] eqn:E; cbn [bind]; [|discriminate]. intros H; inversion H; subst. eapply trim_tags; eauto.
  - intros H; inversion H; subst. split; [apply only_own_refl|reflexivity].
Qed.

Theorem arr_run_tags pred ops : forall a al outs a' al',
  arr_run pred a ops al = Ok (outs, a', al') -> only_own_tag (a_mem a) al al' /\ a_mem a' = a_mem a.
Proof.
  induction ops as [|o t IH]; intros a al outs a' al'; cbn [arr_run].
  - intros H; inversion H; subst. split; [apply only_own_refl|reflexivity].
  - destruct (arr_step pred a o al) as [[[out a1] al1]|] eqn:Es; cbn [bind]; [|discriminate].
    destruct (arr_run pred a1 t al1) as [[[outs1 a2] al2]|] eqn:Er; cbn [bind]; [|discriminate].
    intros H; inversion H; subst. destruct (arr_step_tags _ _ _ _ _ _ _ Es) as [T1 M1]. destruct (IH _ _ _ _ _ Er) as [T2 M2].
    split; [|congruence]. eapply only_own_trans; eauto. rewrite <- M1. exact T2.
Qed.

Theorem derive_tags a d al st r al' :
  arr_derive a d al = Ok (st, r, al') -> only_own_tag (a_mem a) al al' /\ (forall b, r = Some b -> a_mem b = a_mem a).
Proof.
  unfold arr_derive. destruct (alloc (a_mem a) ARRAY_HDR al) as [[h|] a1] eqn:E1.
  - destruct (alloc (a_mem a) (wmul (a_cap a) 8) a1) as [[bk|] a2] eqn:E2.
    + destruct (wmul (a_cap a) 8 / 8 <? lenN d); [discriminate|]. intros H; inversion H; subst. split.
      * intros x Hx. destruct (alloc_new_tag _ _ _ _ _ E2 x Hx) as [Hy|Hy]; [|right; assumption]. eapply alloc_new_tag; eauto.
      * intros b Hb; inversion Hb; reflexivity.
    + destruct (release (a_mem a) h a2) as [a3|] eqn:Er; cbn [bind]; [|discriminate]. intros H; inversion H; subst. split; [|discriminate].
      intros x Hx. apply (release_incl _ _ _ _ Er) in Hx. destruct (alloc_new_tag _ _ _ _ _ E2 x Hx) as [Hy|Hy]; [|right; assumption]. eapply alloc_new_tag; eauto.
  - intros H; inversion H; subst. split; [|discriminate]. intros x Hx. eapply alloc_new_tag; eauto.
Qed.

(** Known finding D11 (stated as a refuted theorem): "an add on an array that the allocator never refuses
    succeeds" is false when capacity*(factor-1) < 1. With capacity 1 and factor 3/2 the computed new capacity
    floor(1*3/2) = 1 is not larger than the old one, the code takes that for an overflow and asks for
    CC_MAX_ELEMENTS slots, which no allocator grants: the second add fails although every reasonable request
    would have been granted (empty fault plan, limit 2^40). The positive growth theorems carry the premise that
    excludes it ([expand_spec] needs nothing, but its success branch is unreachable here; [growth_rate] states
    2*den <= c*(num-den)). *)
Theorem arr_growth_stuck_refuted :
  exists a al x, plan al = [] /\ limit al = 1099511627776 /\ a_size a = 1 /\ a_cap a = 1 /\
    (exists a' al', arr_add a x al = Ok (CC_ERR_ALLOC, a', al') /\ a' = a).
Proof.
  pose (al0 := alloc_init [] 1099511627776).
  destruct (arr_new Conf 1 3 2 al0) as [[st r] al1] eqn:E. vm_compute in E.
  exists {| a_data := [7]; a_cap := 1; a_slots := 1; a_num := 3; a_den := 2; a_hdr := 1; a_blk := 2; a_mem := Conf |}.
  exists {| plan := []; limit := 1099511627776; next_id := 3;
            live := [{| b_id := 2; b_tag := Conf; b_bytes := 8 |}; {| b_id := 1; b_tag := Conf; b_bytes := 56 |}]; nreq := 2 |}.
  exists 9. repeat split. do 2 eexists. split; [vm_compute; reflexivity|reflexivity].
Qed.
