(** Further array/stack theorems used by the cross-cutting properties: derived arrays (C15), inert errors
    and generated guards (C16), iterators (C07), stack LIFO (C09), sorting glue (C18), growth (C20). *)
From Coq Require Import Permutation Sorted.
From CC Require Import Base.Prelude Base.ListMem Base.Alloc Base.AllocProofs Base.Ledger.
From CC Require Import Generated.Status Generated.Constants Generated.Guards.
From CC Require Import Array.ArrayModel Array.ArrayProofs Array.ArrayLoops Array.ArrayRefine.
Local Open Scope N_scope.

(** ------------------------------------------------------------------ C15: derived arrays *)
(** [arr_derive]: the common tail of subarray / copy_shallow / copy_deep / filter. The result holds exactly
    [d], inherits capacity, factor and allocator family, satisfies the invariant (so every later history on
    it is refined, in particular it can grow), the source is untouched and keeps its invariant; a refused
    request leaves the ledger as it was. *)
Lemma derive_spec a d al :
  arr_inv a al -> lim_ok a al -> lenN d <= a_cap a ->
  exists st r al', arr_derive a d al = Ok (st, r, al') /\
    match r with
    | Some b => st = CC_OK /\ a_data b = d /\ a_cap b = a_cap a /\ a_num b = a_num a /\ a_den b = a_den a /\
                a_mem b = a_mem a /\ arr_inv b al' /\ lim_ok b al' /\ arr_inv a al' /\ lim_ok a al' /\
                a_hdr b <> a_hdr a /\ a_hdr b <> a_blk a /\ a_blk b <> a_hdr a /\ a_blk b <> a_blk a
    | None => st = CC_ERR_ALLOC /\ live al' = live al /\ arr_inv a al' /\ lim_ok a al'
    end.
Proof.
  intros Hi Hl Hd. pose proof (inv_capW a al Hi Hl) as [HcW HsW].
  destruct Hi as [Hs Hc Hb Hsl Hdn Hn Hw Hh Hk Hx]. destruct Hl as [L1 L2]. unfold arr_derive.
  assert (Hfresh : a_blk a < next_id al /\ a_hdr a < next_id al) by (split; eapply owned_bound; eauto).
  destruct (alloc (a_mem a) ARRAY_HDR al) as [[h|] a1] eqn:E1.
  - destruct (alloc_wf _ _ _ _ _ Hw E1) as (Hw1 & Hlim1 & Hq1 & -> & Hlive1 & Hnid1 & _).
    destruct (wmul8 (a_cap a) HcW) as [Hw8 Hw8d]. rewrite Hw8d, Hw8.
    destruct (alloc (a_mem a) (a_cap a * 8) a1) as [[b|] a2] eqn:E2.
    + destruct (alloc_wf _ _ _ _ _ Hw1 E2) as (Hw2 & Hlim2 & Hq2 & -> & Hlive2 & Hnid2 & Hgr).
      replace (a_cap a <? lenN d) with false by lia.
      do 3 eexists. split; [reflexivity|]. cbn [a_data a_cap a_slots a_num a_den a_hdr a_blk a_mem].
      assert (Ho1 : owned (a_mem a) (a_hdr a) a2) by (eapply owned_alloc; [eapply owned_alloc; eauto|eauto]).
      assert (Ho2 : owned (a_mem a) (a_blk a) a2) by (eapply owned_alloc; [eapply owned_alloc; eauto|eauto]).
      assert (Hlim : limit a2 = limit al) by congruence.
      assert (Hinvb : arr_inv {| a_data := d; a_cap := a_cap a; a_slots := a_cap a; a_num := a_num a; a_den := a_den a;
                                 a_hdr := next_id al; a_blk := next_id a1; a_mem := a_mem a |} a2).
      { constructor; cbn [a_data a_cap a_slots a_num a_den a_hdr a_blk a_mem]; auto; try lia.
        all: try (unfold a_size; cbn [a_data]; lia).
        all: try (rewrite Hlim; lia).
        - eapply owned_alloc; [eapply owned_new; eauto|eauto].
        - eapply owned_new; eauto. }
      assert (Hinva : arr_inv a a2) by (constructor; auto; rewrite Hlim; assumption).
      repeat apply conj; auto; try lia; try (rewrite Hlim; assumption).
    + destruct (alloc_wf _ _ _ _ _ Hw1 E2) as (Hw2 & Hlim2 & Hq2 & Hlive2 & Hnid2).
      rewrite Hlive1 in Hlive2.
      destruct (release_head _ _ _ _ _ Hlive2) as (a3 & -> & Hl3 & Hn3 & Hlim3 & _). cbn [bind].
      do 3 eexists. split; [reflexivity|]. repeat apply conj; auto.
      * constructor; auto; try (rewrite Hlim3, Hlim2, Hlim1; assumption).
        -- destruct Hw as [Hnd Hbd]. split; [unfold ids_nodup; rewrite Hl3; exact Hnd|].
           intros b. rewrite Hl3, Hn3, Hnid2, Hnid1. intros Hin. apply Hbd in Hin. lia.
        -- destruct Hh as (b & H1 & H2 & H3). exists b. rewrite Hl3. auto.
        -- destruct Hk as (b & H1 & H2 & H3). exists b. rewrite Hl3. auto.
      * rewrite Hlim3, Hlim2, Hlim1; exact L1.
      * rewrite Hlim3, Hlim2, Hlim1; exact L2.
  - destruct (alloc_wf _ _ _ _ _ Hw E1) as (Hw1 & Hlim1 & Hq1 & Hlive1 & Hnid1).
    do 3 eexists. split; [reflexivity|]. repeat apply conj; auto.
    + constructor; auto; try (rewrite Hlim1; assumption).
      * destruct Hh as (b & H1 & H2 & H3). exists b. rewrite Hlive1. auto.
      * destruct Hk as (b & H1 & H2 & H3). exists b. rewrite Hlive1. auto.
    + rewrite Hlim1; exact L1.
    + rewrite Hlim1; exact L2.
Qed.
