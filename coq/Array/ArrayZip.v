(** Zip-iterator mutators of CC_Array (cc_array_zip_iter_remove / replace / add): what they do to BOTH arrays
    directly after a yield, stated against the two contents lists.  (The single-array iterator is in ArrayMore.) *)
From CC Require Import Base.Prelude Base.ListMem Base.Alloc Base.Ledger Generated.Status Generated.Constants Generated.Guards.
From CC Require Import Array.ArrayModel Array.ArrayProofs Array.ArrayMore.
Local Open Scope N_scope.

(** remove directly after a yield (cursor k >= 1 inside both arrays, nothing removed since): the yielded pair
    (position k-1 of each array) is returned and removed from both arrays, every other element of either array
    keeps its relative place, and the cursor moves back by one so that the rest of the traversal is exactly the
    not-yet-visited pairs. *)
Theorem zip_remove_spec a1 a2 it :
  a_size a1 < W -> a_size a2 < W -> it_removed it = false ->
  0 < it_index it -> it_index it <= a_size a1 -> it_index it <= a_size a2 ->
  exists x y, getN (a_data a1) (it_index it - 1) = Some x /\ getN (a_data a2) (it_index it - 1) = Some y /\
    zip_remove a1 a2 it = (CC_OK, Some (x, y),
                           set_data a1 (removeN (a_data a1) (it_index it - 1)),
                           set_data a2 (removeN (a_data a2) (it_index it - 1)),
                           {| it_index := it_index it - 1; it_removed := true |}) /\
    skipnN (it_index it - 1) (removeN (a_data a1) (it_index it - 1)) = skipnN (it_index it) (a_data a1) /\
    skipnN (it_index it - 1) (removeN (a_data a2) (it_index it - 1)) = skipnN (it_index it) (a_data a2) /\
    firstnN (it_index it - 1) (removeN (a_data a1) (it_index it - 1)) = firstnN (it_index it - 1) (a_data a1) /\
    firstnN (it_index it - 1) (removeN (a_data a2) (it_index it - 1)) = firstnN (it_index it - 1) (a_data a2).
Proof.
  intros H1 H2 Hr Hp Hl1 Hl2. unfold zip_remove, g_array_zip_remove_range.
  rewrite wsub1 by lia. rewrite Hr.
  replace ((a_size a1 <=? it_index it - 1) || (a_size a2 <=? it_index it - 1)) with false
    by (symmetry; apply orb_false_iff; split; apply N.leb_gt; lia).
  rewrite !remove_at_spec by lia.
  destruct (getN_lt (a_data a1) (it_index it - 1)) as [x Hx]; [unfold a_size in *; lia|].
  destruct (getN_lt (a_data a2) (it_index it - 1)) as [y Hy]; [unfold a_size in *; lia|].
  exists x, y. rewrite Hx, Hy. repeat apply conj; auto.
  - rewrite skipnN_removeN by (unfold a_size in *; lia). f_equal. lia.
  - rewrite skipnN_removeN by (unfold a_size in *; lia). f_equal. lia.
  - apply firstnN_removeN. unfold a_size in *. lia.
  - apply firstnN_removeN. unfold a_size in *. lia.
Qed.

(** a second remove without a new yield is refused and changes nothing *)
Theorem zip_remove_twice a1 a2 it :
  a_size a1 < W -> a_size a2 < W -> it_removed it = true ->
  it_index it < a_size a1 -> it_index it < a_size a2 -> 0 < it_index it ->
  zip_remove a1 a2 it = (CC_ERR_VALUE_NOT_FOUND, None, a1, a2, it).
Proof.
  intros H1 H2 Hr Hl1 Hl2 Hp. unfold zip_remove, g_array_zip_remove_range. rewrite wsub1 by lia. rewrite Hr.
  replace ((a_size a1 <=? it_index it - 1) || (a_size a2 <=? it_index it - 1)) with false
    by (symmetry; apply orb_false_iff; split; apply N.leb_gt; lia).
  reflexivity.
Qed.

(** replace directly after a yield: the yielded pair is returned and overwritten in place in both arrays;
    sizes and every other slot are unchanged. *)
Theorem zip_replace_spec a1 a2 it x y :
  a_size a1 < W -> a_size a2 < W -> 0 < it_index it -> it_index it <= a_size a1 -> it_index it <= a_size a2 ->
  exists o1 o2 l1 l2,
    getN (a_data a1) (it_index it - 1) = Some o1 /\ getN (a_data a2) (it_index it - 1) = Some o2 /\
    updN (a_data a1) (it_index it - 1) x = Some l1 /\ updN (a_data a2) (it_index it - 1) y = Some l2 /\
    zip_replace a1 a2 it x y = (CC_OK, Some (o1, o2), set_data a1 l1, set_data a2 l2) /\
    lenN l1 = a_size a1 /\ lenN l2 = a_size a2 /\
    (forall j, j <> it_index it - 1 -> getN l1 j = getN (a_data a1) j /\ getN l2 j = getN (a_data a2) j).
Proof.
  intros H1 H2 Hp Hl1 Hl2. unfold zip_replace, g_array_zip_replace_range. rewrite wsub1 by lia.
  replace ((a_size a1 <=? it_index it - 1) || (a_size a2 <=? it_index it - 1)) with false
    by (symmetry; apply orb_false_iff; split; apply N.leb_gt; lia).
  rewrite !replace_at_spec by lia.
  destruct (getN_lt (a_data a1) (it_index it - 1)) as [o1 Ho1]; [unfold a_size in *; lia|].
  destruct (getN_lt (a_data a2) (it_index it - 1)) as [o2 Ho2]; [unfold a_size in *; lia|].
  destruct (updN_lt (a_data a1) (it_index it - 1) x) as [l1 Hu1]; [unfold a_size in *; lia|].
  destruct (updN_lt (a_data a2) (it_index it - 1) y) as [l2 Hu2]; [unfold a_size in *; lia|].
  exists o1, o2, l1, l2. rewrite Ho1, Ho2, Hu1, Hu2. repeat apply conj; auto.
  - unfold a_size. eapply lenN_updN; eauto.
  - unfold a_size. eapply lenN_updN; eauto.
  - intros j Hj. split; eapply getN_updN_other; eauto.
Qed.

(** out of range (no pair has been yielded yet, or the cursor is beyond the shorter array): both refuse *)
Theorem zip_mutators_range a1 a2 it x y :
  a_size a1 < W -> a_size a2 < W -> it_index it < W ->
  (it_index it = 0 \/ a_size a1 < it_index it \/ a_size a2 < it_index it) ->
  zip_remove a1 a2 it = (CC_ERR_OUT_OF_RANGE, None, a1, a2, it) /\
  zip_replace a1 a2 it x y = (CC_ERR_OUT_OF_RANGE, None, a1, a2).
Proof.
  intros H1 H2 Hw Hc. unfold zip_remove, zip_replace, g_array_zip_remove_range, g_array_zip_replace_range.
  assert (E : (a_size a1 <=? wsub (it_index it) 1) || (a_size a2 <=? wsub (it_index it) 1) = true).
  { apply orb_true_iff. destruct Hc as [Hc|[Hc|Hc]].
    - rewrite Hc, wsub0. left. apply N.leb_le. lia.
    - left. rewrite wsub1 by lia. apply N.leb_le. lia.
    - right. rewrite wsub1 by lia. apply N.leb_le. lia. }
  rewrite E. split; reflexivity.
Qed.

(** * zip add: two arrays that live in the same ledger *)

(** the part of another container's invariant that depends on the ledger is preserved by anything that keeps the
    ledger well formed, its limit, and the container's two blocks *)
Lemma inv_frame a al al' :
  arr_inv a al -> ledger_wf al' -> limit al' = limit al ->
  owned (a_mem a) (a_hdr a) al' -> owned (a_mem a) (a_blk a) al' -> arr_inv a al'.
Proof.
  intros [Hs Hc Hb Hsl Hd Hn Hw Hh Hk Hx] Hw' Hl Hh' Hk'. constructor; auto. rewrite Hl. assumption.
Qed.
Lemma lim_frame a al al' : lim_ok a al -> limit al' = limit al -> lim_ok a al'.
Proof. intros [L1 L2] H. split; rewrite H; assumption. Qed.

(** expand_capacity touches only its own buffer block: every other owned block stays owned *)
Lemma expand_frame a al st a' al' :
  arr_inv a al -> lim_ok a al -> arr_expand a al = Ok (st, a', al') ->
  ledger_wf al' /\ limit al' = limit al /\
  (forall m b, owned m b al -> b <> a_blk a -> owned m b al') /\
  (st = CC_OK -> a_blk a' = next_id al /\ a_hdr a' = a_hdr a) /\ (st <> CC_OK -> a' = a).
Proof.
  intros Hi Hl. pose proof (inv_capW a al Hi Hl) as [HcW HsW].
  destruct Hi as [Hs Hc Hb Hsl Hd Hn Hw Hh Hk Hx]. destruct Hl as [L1 L2].
  unfold arr_expand.
  destruct (g_array_expand_at_max (a_cap a)).
  { intros H; inversion H; subst; clear H. split; [assumption|]. split; [reflexivity|]. split; [auto|].
    split; [intros E; discriminate E|intros _; reflexivity]. }
  set (new := if g_array_expand_overflow _ _ then _ else _).
  destruct (g_array_expand_bytes new SIZE_MAX).
  { intros H; inversion H; subst; clear H. split; [assumption|]. split; [reflexivity|]. split; [auto|].
    split; [intros E; discriminate E|intros _; reflexivity]. }
  destruct (alloc (a_mem a) (wmul new 8) al) as [[b|] a1] eqn:Ea.
  - destruct (alloc_wf _ _ _ _ _ Hw Ea) as (Hw1 & Hlim & Hq & -> & Hlive & Hnid & Hgr).
    destruct (wmul new 8 / 8 <? a_size a); [discriminate|].
    assert (Hk1 : owned (a_mem a) (a_blk a) a1) by (eapply owned_alloc; eauto).
    destruct (release_owned _ _ _ Hw1 Hk1) as (a2 & -> & Hw2 & Hn2 & Hl2 & Hq2 & _ & Hiff). cbn [bind].
    intros H; inversion H; subst; clear H. split; [assumption|]. split; [congruence|]. split.
    + intros m b Ho Hne. apply (owned_after_release _ _ a1 al' (a_blk a) Hiff); [eapply owned_alloc; eauto|assumption].
    + split; [intros _; split; reflexivity|intros E; exfalso; apply E; reflexivity].
  - destruct (alloc_wf _ _ _ _ _ Hw Ea) as (Hw1 & Hlim & Hq & Hlive & Hnid).
    intros H; inversion H; subst; clear H. split; [assumption|]. split; [assumption|]. split.
    + intros m b Ho _. eapply owned_alloc; eauto.
    + split; [intros E; discriminate E|intros _; reflexivity].
Qed.

(** an insertion into an array with room never consults the allocator *)
Lemma add_at_room a x i al :
  arr_inv a al -> lim_ok a al -> i <= a_size a -> a_size a < a_cap a ->
  arr_add_at a x i al = Ok (CC_OK, set_data a (insertN (a_data a) i x), al).
Proof.
  intros Hi Hl Hle Hroom. pose proof (inv_capW a al Hi Hl) as [HcW HsW].
  pose proof (ai_slots _ _ Hi) as Hsl.
  unfold arr_add_at, g_array_add_at_append.
  destruct (i =? a_size a) eqn:Eeq.
  - assert (i = a_size a) by lia. subst i.
    unfold arr_add, g_array_add_full. replace (a_cap a <=? a_size a) with false by lia. cbn [bind].
    unfold write_ok. rewrite Hsl. replace (a_size a <? a_cap a) with true by lia.
    unfold a_size. rewrite insertN_end. reflexivity.
  - assert (Hne : i <> a_size a) by lia.
    pose proof (add_at_range_spec i (a_size a) HsW ltac:(lia) Hne) as G.
    destruct (g_array_add_at_range i (a_size a)) eqn:Er; [pose proof (proj1 G eq_refl); lia|].
    unfold g_array_add_at_full. replace (a_cap a <=? a_size a) with false by lia. cbn [bind].
    unfold write_ok. rewrite Hsl. replace (a_size a <? a_cap a) with true by lia. reflexivity.
Qed.

(** the "make room" step of zip add for one array *)
Lemma ensure_room a al :
  arr_inv a al -> lim_ok a al ->
  exists st b al', (if a_size a =? a_cap a then arr_expand a al else Ok (CC_OK, a, al)) = Ok (st, b, al') /\
    ledger_wf al' /\ limit al' = limit al /\
    (forall m k, owned m k al -> k <> a_blk a -> owned m k al') /\
    ((st = CC_OK /\ arr_inv b al' /\ lim_ok b al' /\ a_data b = a_data a /\ a_size b < a_cap b /\
      a_hdr b = a_hdr a /\ (a_blk b = a_blk a \/ a_blk b = next_id al)) \/
     (st = CC_ERR_ALLOC /\ b = a /\ refused_once al al')).
Proof.
  intros Hi Hl. pose proof (ai_size _ _ Hi) as Hsz.
  destruct (a_size a =? a_cap a) eqn:E.
  - destruct (expand_spec a al Hi Hl) as (st & b & al' & Ee & Ho).
    destruct (expand_frame a al st b al' Hi Hl Ee) as (Fw & Fl & Fo & Fok & Fne).
    exists st, b, al'. split; [exact Ee|]. split; [exact Fw|]. split; [exact Fl|]. split; [exact Fo|].
    destruct Ho as [(-> & Hi' & Hl' & Hd & Hgt & _ & _ & _ & Hh)|(-> & -> & Hr)].
    + left. destruct (Fok eq_refl) as [Fb _].
      split; [reflexivity|]. split; [exact Hi'|]. split; [exact Hl'|]. split; [exact Hd|].
      split; [unfold a_size in *; rewrite Hd; lia|]. split; [exact Hh|right; exact Fb].
    + right. auto.
  - exists CC_OK, a, al. split; [reflexivity|]. split; [exact (ai_wf _ _ Hi)|]. split; [reflexivity|].
    split; [auto|]. left.
    split; [reflexivity|]. split; [exact Hi|]. split; [exact Hl|]. split; [reflexivity|].
    split; [lia|]. split; [reflexivity|left; reflexivity].
Qed.

(** zip add directly after a yield (cursor inside both arrays), the two arrays being separate containers in one
    ledger: either both arrays receive their element at the cursor - everything before it untouched, everything
    after it shifted by one - and the cursor steps over the new pair, or an allocation was refused and the
    CONTENTS of both arrays and the cursor are unchanged (the first array may keep a grown capacity). *)
Theorem zip_add_spec a1 a2 it x y al :
  arr_inv a1 al -> lim_ok a1 al -> arr_inv a2 al -> lim_ok a2 al ->
  a_blk a1 <> a_hdr a2 -> a_blk a1 <> a_blk a2 -> a_blk a2 <> a_hdr a1 ->
  it_index it <= a_size a1 -> it_index it <= a_size a2 ->
  exists st b1 b2 it' al', zip_add a1 a2 it x y al = Ok (st, b1, b2, it', al') /\
    ((st = CC_OK /\ a_data b1 = insertN (a_data a1) (it_index it) x /\ a_data b2 = insertN (a_data a2) (it_index it) y /\
      it_index it' = it_index it + 1 /\ it_removed it' = it_removed it /\ arr_inv b1 al' /\ arr_inv b2 al') \/
     (st = CC_ERR_ALLOC /\ a_data b1 = a_data a1 /\ a_data b2 = a_data a2 /\ it' = it /\ arr_inv b1 al' /\ arr_inv b2 al')).
Proof.
  intros Hi1 Hl1 Hi2 Hl2 S1 S2 S3 Hk1 Hk2. unfold zip_add.
  pose proof (inv_capW a1 al Hi1 Hl1) as [HcW1 HsW1]. pose proof (ai_size _ _ Hi1) as Hsz1.
  destruct (ensure_room a1 al Hi1 Hl1) as (st1 & b1 & al1 & -> & Fw1 & Fl1 & Fo1 & [(-> & Hb1 & Lb1 & Hd1 & Hroom1 & Hh1 & Hblk1)|(-> & -> & Hr1)]);
    cbn [bind].
  2: { do 5 eexists. split; [reflexivity|]. right. repeat apply conj; auto.
       - eapply inv_refused; eauto.
       - eapply inv_refused; eauto. }
  (* the second array is untouched by the first one's growth *)
  assert (Hi2' : arr_inv a2 al1).
  { apply (inv_frame a2 al al1 Hi2 Fw1 Fl1); apply Fo1; try apply Hi2; congruence. }
  assert (Hl2' : lim_ok a2 al1) by (eapply lim_frame; eauto).
  assert (Hsep : a_blk b1 <> a_blk a2 /\ a_hdr b1 <> a_blk a2).
  { split; [|congruence]. destruct Hblk1 as [->| ->]; [assumption|].
    pose proof (owned_bound _ _ _ (ai_wf _ _ Hi2) (ai_blk _ _ Hi2)). lia. }
  destruct (ensure_room a2 al1 Hi2' Hl2') as (st2 & b2 & al2 & -> & Fw2 & Fl2 & Fo2 & [(-> & Hb2 & Lb2 & Hd2 & Hroom2 & Hh2 & Hblk2)|(-> & -> & Hr2)]);
    cbn [bind].
  2: { do 5 eexists. split; [reflexivity|]. right. repeat apply conj; auto.
       - eapply inv_refused; eauto.
       - eapply inv_refused; eauto. }
  assert (Hb1' : arr_inv b1 al2).
  { apply (inv_frame b1 al1 al2 Hb1 Fw2 Fl2); apply Fo2; try apply Hb1; destruct Hsep; congruence. }
  assert (Lb1' : lim_ok b1 al2) by (eapply lim_frame; eauto).
  assert (Hk1' : it_index it <= a_size b1) by (unfold a_size in *; rewrite Hd1; exact Hk1).
  assert (Hk2' : it_index it <= a_size b2) by (unfold a_size in *; rewrite Hd2; exact Hk2).
  rewrite (add_at_room b1 x (it_index it) al2 Hb1' Lb1' Hk1' Hroom1). cbn [bind].
  rewrite (add_at_room b2 y (it_index it) al2 Hb2 Lb2 Hk2' Hroom2). cbn [bind].
  do 5 eexists. split; [reflexivity|]. left. cbn [it_index it_removed set_data a_data].
  rewrite wadd1 by (unfold W in *; lia).
  split; [reflexivity|]. split; [rewrite Hd1; reflexivity|]. split; [rewrite Hd2; reflexivity|].
  split; [reflexivity|]. split; [reflexivity|]. split.
  - apply inv_set_data; [assumption|]. unfold a_size in *. rewrite lenN_insertN by lia. lia.
  - apply inv_set_data; [assumption|]. unfold a_size in *. rewrite lenN_insertN by lia. lia.
Qed.
