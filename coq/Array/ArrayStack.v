(** cc_stack_filter: the derived stack holds exactly the kept elements in the source's order, in blocks of its
    own taken from the source's allocator family; the source is untouched; a refused allocation leaves nothing
    behind.  (cc_stack_filter_mut is cc_array_filter_mut on the inner array: ArrayLoops.) *)
From CC Require Import Base.Prelude Base.ListMem Base.Alloc Base.AllocProofs Base.Ledger Generated.Status Generated.Constants Generated.Guards.
From CC Require Import Array.ArrayModel Array.ArrayProofs Array.ArrayMore Array.ArrayRefine Array.ArrayZip.
Local Open Scope N_scope.

(** pushing onto an array with room never consults the allocator *)
Lemma add_room a x al :
  arr_inv a al -> lim_ok a al -> a_size a < a_cap a ->
  arr_add a x al = Ok (CC_OK, set_data a (a_data a ++ [x]), al).
Proof.
  intros Hi Hl Hroom. pose proof (add_at_room a x (a_size a) al Hi Hl (N.le_refl _) Hroom) as H.
  unfold arr_add_at, g_array_add_at_append in H. rewrite N.eqb_refl in H. rewrite H.
  unfold a_size. rewrite insertN_end. reflexivity.
Qed.

Lemma push_all_room : forall xs s al,
  arr_inv (s_arr s) al -> lim_ok (s_arr s) al -> a_size (s_arr s) + lenN xs <= a_cap (s_arr s) ->
  push_all s xs al = Ok (CC_OK, with_arr s (set_data (s_arr s) (a_data (s_arr s) ++ xs)), al).
Proof.
  induction xs as [|x t IH]; intros s al Hi Hl Hfit; cbn [push_all].
  - rewrite app_nil_r. destruct s as [a h m]; destruct a; reflexivity.
  - assert (Hlen : lenN (x :: t) = lenN t + 1) by (unfold lenN; cbn [length]; lia).
    unfold stack_push. rewrite (add_room (s_arr s) x al Hi Hl) by lia. cbn [bind].
    assert (Hi' : arr_inv (set_data (s_arr s) (a_data (s_arr s) ++ [x])) al).
    { apply inv_set_data; [assumption|]. rewrite lenN_app. unfold a_size in *. unfold lenN at 2. cbn [length]. lia. }
    rewrite (IH (with_arr s (set_data (s_arr s) (a_data (s_arr s) ++ [x]))) al); cbn [with_arr s_arr set_data a_data a_cap].
    + rewrite <- app_assoc. reflexivity.
    + exact Hi'.
    + exact Hl.
    + unfold a_size in *. cbn [set_data a_data]. rewrite lenN_app. unfold lenN at 2. cbn [length]. lia.
Qed.

Theorem stack_filter_spec pred s al :
  arr_inv (s_arr s) al -> lim_ok (s_arr s) al -> limit al * 2 < W ->
  exists st r al', stack_filter pred s al = Ok (st, r, al') /\
    (a_size (s_arr s) = 0 -> st = CC_ERR_OUT_OF_RANGE /\ r = None /\ al' = al) /\
    (0 < a_size (s_arr s) ->
       (st = CC_OK /\ exists ns, r = Some ns /\ a_data (s_arr ns) = filter pred (a_data (s_arr s)) /\
                                 a_cap (s_arr ns) = a_cap (s_arr s) /\ arr_inv (s_arr ns) al' /\
                                 s_mem ns = s_mem s /\ a_mem (s_arr ns) = s_mem s /\
                                 owned (s_mem s) (s_hdr ns) al' /\ s_hdr ns = next_id al) \/
       (st = CC_ERR_ALLOC /\ r = None /\ live al' = live al)).
Proof.
  intros Hi Hl Hl2x. pose proof (inv_capW _ _ Hi Hl) as [HcW HsW]. pose proof (ai_wf _ _ Hi) as Hw.
  unfold stack_filter.
  destruct (a_size (s_arr s) =? 0) eqn:E0.
  { do 3 eexists. split; [reflexivity|]. split; [auto|]. intros H. apply N.eqb_eq in E0. lia. }
  apply N.eqb_neq in E0. unfold stack_new.
  destruct (alloc (s_mem s) STACK_HDR al) as [[h|] a1] eqn:Eh.
  2: { destruct (alloc_wf _ _ _ _ _ Hw Eh) as (_ & _ & _ & Hlive & _). cbn [bind].
       do 3 eexists. split; [reflexivity|]. split; [intros H; lia|]. intros _. right. auto. }
  destruct (alloc_wf _ _ _ _ _ Hw Eh) as (Hw1 & Hlim1 & Hq1 & -> & Hlive1 & Hnid1 & _).
  destruct (arr_new (s_mem s) (a_cap (s_arr s)) DEFAULT_EXPANSION_FACTOR_num DEFAULT_EXPANSION_FACTOR_den a1) as [[st0 r0] a2] eqn:En.
  assert (Hden : 0 < DEFAULT_EXPANSION_FACTOR_den) by (vm_compute; reflexivity).
  pose proof (arr_new_spec _ _ _ _ _ _ _ _ Hw1 HcW Hden En) as S.
  destruct r0 as [na|].
  - destruct S as (-> & Hd0 & Hc0 & Hin & Hm0 & Hf0). cbn [bind].
    set (ns := {| s_arr := na; s_hdr := next_id al; s_mem := s_mem s |}).
    assert (Hln : lim_ok na a2).
    { destruct Hl as [L1 L2]. inversion Hf0 as [[Hnum Hdenq]].
      assert (Hl2 : limit a2 = limit al).
      { unfold arr_new in En.
        destruct (if DEFAULT_EXPANSION_FACTOR_num <=? DEFAULT_EXPANSION_FACTOR_den then _ else _) as [n d].
        destruct ((a_cap (s_arr s) =? 0) || (d * (CC_MAX_ELEMENTS / a_cap (s_arr s)) <=? n)); [inversion En|].
        destruct (g_array_new_bytes (a_cap (s_arr s)) SIZE_MAX); [inversion En|].
        destruct (alloc (s_mem s) ARRAY_HDR a1) as [[hh|] b1] eqn:E1; [|inversion En].
        destruct (alloc_wf _ _ _ _ _ Hw1 E1) as (Hwb & Hlb & _).
        destruct (alloc (s_mem s) (wmul (a_cap (s_arr s)) 8) b1) as [[bb|] b2] eqn:E2.
        - destruct (alloc_wf _ _ _ _ _ Hwb E2) as (_ & Hlb2 & _). inversion En; subst. congruence.
        - destruct (release (s_mem s) hh b2); inversion En. }
      split; rewrite Hl2.
      - destruct (DEFAULT_EXPANSION_FACTOR_num <=? DEFAULT_EXPANSION_FACTOR_den) eqn:Ed; [vm_compute in Ed; discriminate|].
        inversion Hf0. rewrite H0, H1. unfold DEFAULT_EXPANSION_FACTOR_num, DEFAULT_EXPANSION_FACTOR_den. unfold W in *. lia.
      - assumption. }
    assert (Hfit : a_size (s_arr ns) + lenN (filter pred (a_data (s_arr s))) <= a_cap (s_arr ns)).
    { cbn [ns s_arr]. unfold a_size. rewrite Hd0, Hc0. pose proof (lenN_filter_le pred (a_data (s_arr s))).
      pose proof (ai_size _ _ Hi). unfold a_size in *. unfold lenN at 1. cbn [length]. lia. }
    rewrite (push_all_room (filter pred (a_data (s_arr s))) ns a2 Hin Hln Hfit). cbn [bind].
    do 3 eexists. split; [reflexivity|]. split; [intros H; lia|]. intros _. left. split; [reflexivity|].
    eexists. split; [reflexivity|]. cbn [with_arr s_arr s_hdr s_mem set_data a_data a_cap a_mem ns].
    rewrite Hd0. cbn [app]. repeat apply conj; auto.
    + apply inv_set_data; [assumption|]. rewrite Hc0. pose proof (lenN_filter_le pred (a_data (s_arr s))).
      pose proof (ai_size _ _ Hi). unfold a_size in *. lia.
    + (* the header block of the new stack is still owned after the array's two allocations *)
      unfold arr_new in En.
      destruct (if DEFAULT_EXPANSION_FACTOR_num <=? DEFAULT_EXPANSION_FACTOR_den then _ else _) as [n d].
      destruct ((a_cap (s_arr s) =? 0) || (d * (CC_MAX_ELEMENTS / a_cap (s_arr s)) <=? n)); [inversion En|].
      destruct (g_array_new_bytes (a_cap (s_arr s)) SIZE_MAX); [inversion En|].
      destruct (alloc (s_mem s) ARRAY_HDR a1) as [[hh|] b1] eqn:E1; [|inversion En].
      destruct (alloc (s_mem s) (wmul (a_cap (s_arr s)) 8) b1) as [[bb|] b2] eqn:E2.
      * inversion En; subst. eapply owned_alloc; [eapply owned_alloc; [eapply owned_new; eauto|eauto]|eauto].
      * destruct (release (s_mem s) hh b2); inversion En.
  - (* the inner array could not be created: the header is given back *)
    destruct S as [(-> & ->)|(-> & Hlive2)].
    + (* INVALID_CAPACITY cannot happen for a capacity that already exists; still, nothing is left behind *)
      assert (Hrel : exists a3, release (s_mem s) (next_id al) a1 = Ok a3 /\ live a3 = live al).
      { destruct (release_head (s_mem s) (next_id al) STACK_HDR (live al) a1 Hlive1) as (a3 & -> & Hl3 & _). eauto. }
      destruct Hrel as (a3 & -> & Hl3). cbn [bind].
      do 3 eexists. split; [reflexivity|]. split; [intros H; lia|]. intros _. right.
      exfalso. unfold arr_new in En.
      destruct (DEFAULT_EXPANSION_FACTOR_num <=? DEFAULT_EXPANSION_FACTOR_den) eqn:Ed; [vm_compute in Ed; discriminate|].
      assert (Hbad : (a_cap (s_arr s) =? 0) || (DEFAULT_EXPANSION_FACTOR_den * (CC_MAX_ELEMENTS / a_cap (s_arr s)) <=? DEFAULT_EXPANSION_FACTOR_num) = false).
      { apply orb_false_iff. pose proof (ai_cap _ _ Hi). split; [apply N.eqb_neq; lia|]. apply N.leb_gt.
        rewrite CC_MAX_val. unfold DEFAULT_EXPANSION_FACTOR_num, DEFAULT_EXPANSION_FACTOR_den.
        assert (8 <= (W - 2) / a_cap (s_arr s)) by (apply N.div_le_lower_bound; unfold W in *; lia). lia. }
      rewrite Hbad in En.
      assert (Hby : g_array_new_bytes (a_cap (s_arr s)) SIZE_MAX = false)
        by (unfold g_array_new_bytes, SIZE_MAX; apply N.ltb_ge; unfold W in *; lia).
      rewrite Hby in En.
      destruct (alloc (s_mem s) ARRAY_HDR a1) as [[hh|] b1]; [|inversion En].
      destruct (alloc (s_mem s) (wmul (a_cap (s_arr s)) 8) b1) as [[bb|] b2]; [inversion En|].
      destruct (release (s_mem s) hh b2); inversion En.
    + rewrite Hlive1 in Hlive2.
      destruct (release_head (s_mem s) (next_id al) STACK_HDR (live al) a2 Hlive2) as (a3 & -> & Hl3 & _). cbn [bind].
      do 3 eexists. split; [reflexivity|]. split; [intros H; lia|]. intros _. right. auto.
Qed.
