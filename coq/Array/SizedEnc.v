(** CC_ArraySized is replayed against the CC_Array model: an element of [k] bytes is the little-endian image of a
    number below 256^k (harness/sized.c [enc] / [dec]).  This file proves the glue sound: the encoding is a
    bijection between those numbers and the k-byte strings, so "the stored bytes are equal" (what the library's
    memcmp-style loops decide) is the same as "the numbers are equal" (what the model and the ideal list decide),
    and an element read back decodes to the number that was stored. *)
From CC Require Import Base.Prelude.
Local Open Scope N_scope.

Fixpoint enc (k : nat) (x : N) : list N :=
  match k with O => [] | S k' => x mod 256 :: enc k' (x / 256) end.
Fixpoint dec (l : list N) : N :=
  match l with [] => 0 | b :: t => b + 256 * dec t end.

Lemma enc_length k : forall x, length (enc k x) = k.
Proof. induction k as [|k IH]; intros x; cbn [enc length]; [reflexivity|rewrite IH; reflexivity]. Qed.

Lemma enc_bytes k : forall x, Forall (fun b => b < 256) (enc k x).
Proof.
  induction k as [|k IH]; intros x; cbn [enc]; constructor; [apply N.mod_lt; lia|apply IH].
Qed.

Lemma dec_enc k : forall x, x < 256 ^ N.of_nat k -> dec (enc k x) = x.
Proof.
  induction k as [|k IH]; intros x Hx.
  - cbn in Hx. cbn [enc dec]. lia.
  - cbn [enc dec]. rewrite IH.
    + pose proof (N.div_mod x 256 ltac:(lia)). lia.
    + rewrite Nat2N.inj_succ, N.pow_succ_r' in Hx. apply N.div_lt_upper_bound; lia.
Qed.

Theorem enc_inj k x y : x < 256 ^ N.of_nat k -> y < 256 ^ N.of_nat k -> enc k x = enc k y -> x = y.
Proof. intros Hx Hy E. rewrite <- (dec_enc k x Hx), <- (dec_enc k y Hy), E. reflexivity. Qed.

(** every k-byte string is the image of exactly one number below 256^k *)
Lemma dec_bound l : Forall (fun b => b < 256) l -> dec l < 256 ^ N.of_nat (length l).
Proof.
  induction l as [|b t IH]; intros H; [cbn; lia|].
  inversion H as [|? ? Hb Ht]; subst. specialize (IH Ht). cbn [dec length].
  rewrite Nat2N.inj_succ, N.pow_succ_r'. lia.
Qed.
Lemma enc_dec l : Forall (fun b => b < 256) l -> enc (length l) (dec l) = l.
Proof.
  induction l as [|b t IH]; intros H; [reflexivity|].
  inversion H as [|? ? Hb Ht]; subst. cbn [dec length enc].
  replace ((b + 256 * dec t) mod 256) with b.
  - replace ((b + 256 * dec t) / 256) with (dec t); [rewrite (IH Ht); reflexivity|].
    symmetry. rewrite N.mul_comm, N.div_add by lia. rewrite N.div_small by assumption. lia.
  - symmetry. rewrite N.mul_comm, N.mod_add by lia. apply N.mod_small. assumption.
Qed.

(** equality of stored elements, byte by byte, decides equality of the numbers the traces talk about *)
Corollary enc_eq_iff k x y : x < 256 ^ N.of_nat k -> y < 256 ^ N.of_nat k -> (enc k x = enc k y <-> x = y).
Proof. intros Hx Hy. split; [apply enc_inj; assumption|intros ->; reflexivity]. Qed.

Example enc_zero_prefix : enc 3 0 <> enc 3 256 /\ enc 3 256 = [0; 1; 0] /\ dec [0; 1; 0] = 256.
Proof. repeat split; try reflexivity. discriminate. Qed.
