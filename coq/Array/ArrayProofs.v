(** Invariant and refinement proofs for the array model (everything except the two loops, which are in
    ArrayLoops.v). Since the model keeps the live prefix as a list, the abstraction function is [a_data]. *)
From CC Require Import Base.Prelude Base.ListMem Base.Alloc Base.AllocProofs Base.Ledger.
From CC Require Import Generated.Status Generated.Constants Generated.Guards Array.ArrayModel.
Local Open Scope N_scope.

Lemma CC_MAX_val : CC_MAX_ELEMENTS = W - 2. Proof. reflexivity. Qed.

Lemma wsub1 n : 0 < n -> n < W -> wsub n 1 = n - 1.
Proof.
  intros H1 H2. unfold wsub. change (1 mod W) with 1.
  replace (n + W - 1) with ((n - 1) + 1 * W) by lia. rewrite N.mod_add by (unfold W; lia).
  apply N.mod_small. lia.
Qed.
Lemma wsub0 : wsub 0 1 = W - 1. Proof. reflexivity. Qed.
Lemma wadd1 n : n + 1 < W -> wadd n 1 = n + 1.
Proof. intros H. unfold wadd. apply N.mod_small. assumption. Qed.
Lemma wmul8 n : n * 8 < W -> wmul n 8 = n * 8 /\ wmul n 8 / 8 = n.
Proof. intros H. unfold wmul. rewrite N.mod_small by assumption. split; [reflexivity|]. apply N.div_mul. lia. Qed.

(** What the allocator configuration must satisfy for the growth arithmetic not to wrap: every granted
    request is at most [limit] bytes; [limit * factor] and [limit + 16] stay below 2^64. *)
Definition lim_ok (a : arr) (al : alloc_st) : Prop :=
  limit al * a_num a < W * a_den a /\ limit al < W - 16.

Record arr_inv (a : arr) (al : alloc_st) : Prop := {
  ai_size : a_size a <= a_cap a;
  ai_cap : 0 < a_cap a;
  ai_bytes : a_cap a * 8 <= limit al;
  ai_slots : a_slots a = a_cap a;
  ai_den : 0 < a_den a;
  ai_num : a_den a < a_num a;
  ai_wf : ledger_wf al;
  ai_hdr : owned (a_mem a) (a_hdr a) al;
  ai_blk : owned (a_mem a) (a_blk a) al;
  ai_distinct : a_hdr a <> a_blk a;
}.

Lemma inv_capW a al : arr_inv a al -> lim_ok a al -> a_cap a * 8 < W /\ a_size a < W.
Proof. intros [Hs Hc Hb Hsl Hd Hn _ _ _ _] [L1 L2]. unfold W in *. lia. Qed.

Lemma inv_set_data a al d : arr_inv a al -> lenN d <= a_cap a -> arr_inv (set_data a d) al.
Proof. intros [Hs Hc Hb Hsl Hd Hn Hw Hh Hk Hx] H. constructor; cbn; auto. Qed.

(** list facts *)
Lemma lenN_firstnN (l : list N) n : n <= lenN l -> lenN (firstnN n l) = n.
Proof. unfold lenN, firstnN. intros H. rewrite firstn_length_le by lia. lia. Qed.
Lemma lenN_skipnN (l : list N) n : lenN (skipnN n l) = lenN l - n.
Proof. unfold lenN, skipnN. rewrite skipn_length. lia. Qed.
Lemma lenN_insertN l i x : i <= lenN l -> lenN (insertN l i x) = lenN l + 1.
Proof. intros H. unfold insertN. rewrite lenN_app, lenN_cons, lenN_firstnN, lenN_skipnN by assumption. lia. Qed.
Lemma lenN_removeN l i : i < lenN l -> lenN (removeN l i) = lenN l - 1.
Proof. intros H. unfold removeN. rewrite lenN_app, lenN_firstnN, lenN_skipnN by lia. lia. Qed.
Lemma lenN_rev (l : list N) : lenN (rev l) = lenN l.
Proof. unfold lenN. rewrite rev_length. reflexivity. Qed.
Lemma lenN_filter_le (f : N -> bool) l : lenN (filter f l) <= lenN l.
Proof. unfold lenN. induction l as [|x t IH]; cbn; [lia|]. destruct (f x); cbn; lia. Qed.
Lemma insertN_end l x : insertN l (lenN l) x = l ++ [x].
Proof. unfold insertN, firstnN, skipnN, lenN. rewrite Nat2N.id, firstn_all, skipn_all. reflexivity. Qed.

Lemma index_of_nat_bound l x k j : index_of_nat l x k = Some j -> (k <= j < k + length l)%nat.
Proof.
  revert k; induction l as [|y t IH]; intros k H; cbn in H; [discriminate|].
  destruct (y =? x); [inversion H; cbn; lia|]. apply IH in H. cbn. lia.
Qed.
Lemma index_ofN_lt l x i : index_ofN l x = Some i -> i < lenN l.
Proof.
  unfold index_ofN, lenN. destruct (index_of_nat l x 0) as [k|] eqn:E; [|discriminate].
  intros H; inversion H; subst. apply index_of_nat_bound in E. lia.
Qed.

(** What an allocating operation may have done to the ledger when it did not succeed: at most one request
    was made and refused (none when the byte size of the buffer is not representable: the request is then
    not even made); nothing else moved. *)
Definition refused_once (al al' : alloc_st) : Prop :=
  live al' = live al /\ next_id al' = next_id al /\ nreq al <= nreq al' <= nreq al + 1 /\ limit al' = limit al.

(** expand_capacity under the invariant: no fault; either the capacity grew strictly (old buffer released,
    new one owned) with the contents untouched, or the allocator refused the request and nothing but the
    request counter changed. ERR_MAX_CAPACITY is unreachable: CC_MAX_ELEMENTS slots never fit the limit. *)
Lemma expand_spec a al :
  arr_inv a al -> lim_ok a al ->
  exists st a' al', arr_expand a al = Ok (st, a', al') /\
    ((st = CC_OK /\ arr_inv a' al' /\ lim_ok a' al' /\ a_data a' = a_data a /\ a_cap a < a_cap a' /\
      a_cap a' = a_cap a * a_num a / a_den a /\ nreq al' = nreq al + 1 /\ a_mem a' = a_mem a /\ a_hdr a' = a_hdr a) \/
     (st = CC_ERR_ALLOC /\ a' = a /\ refused_once al al')).
Proof.
  intros Hi Hl. pose proof (inv_capW a al Hi Hl) as [HcW HsW].
  destruct Hi as [Hs Hc Hb Hsl Hd Hn Hw Hh Hk Hx]. destruct Hl as [L1 L2].
  unfold arr_expand, g_array_expand_at_max, g_array_expand_overflow. rewrite CC_MAX_val.
  replace (a_cap a =? W - 2) with false by (unfold W in *; lia).
  set (new0 := a_cap a * a_num a / a_den a).
  set (new := if new0 <=? a_cap a then W - 2 else new0).
  unfold g_array_expand_bytes, SIZE_MAX.
  destruct (((W - 1) / 8) <? new) eqn:Eby.
  { do 3 eexists. split; [reflexivity|]. right. repeat apply conj; auto; lia. }
  destruct (alloc (a_mem a) (wmul new 8) al) as [[b|] a1] eqn:Ea.
  - destruct (alloc_wf _ _ _ _ _ Hw Ea) as (Hw1 & Hlim & Hq & -> & Hlive & Hnid & Hgr).
    assert (Hnew : new = new0 /\ a_cap a < new0).
    { subst new. destruct (new0 <=? a_cap a) eqn:E; [|lia]. exfalso.
      assert (wmul (W - 2) 8 = W - 16) by reflexivity. unfold W in *. lia. }
    destruct Hnew as [Hnew Hgt]. rewrite Hnew in *.
    assert (Hn8 : new0 * 8 < W).
    { subst new0. assert (a_cap a * a_num a / a_den a * 8 <= a_cap a * 8 * a_num a / a_den a).
      { replace (a_cap a * 8 * a_num a) with (a_cap a * a_num a * 8) by lia.
        apply N.div_le_lower_bound; [lia|].
        replace (a_den a * (a_cap a * a_num a / a_den a * 8)) with ((a_den a * (a_cap a * a_num a / a_den a)) * 8) by lia.
        apply N.mul_le_mono_r. apply N.mul_div_le. lia. }
      assert (a_cap a * 8 * a_num a / a_den a < W); [|lia].
      apply N.div_lt_upper_bound; [lia|].
      assert (a_cap a * 8 * a_num a <= limit al * a_num a) by (apply N.mul_le_mono_r; assumption). lia. }
    destruct (wmul8 new0 Hn8) as [Hw8 Hw8d]. rewrite Hw8 in Hgr. rewrite Hw8d.
    replace (new0 <? a_size a) with false by lia.
    assert (Hk1 : owned (a_mem a) (a_blk a) a1) by (eapply owned_alloc; eauto).
    destruct (release_owned _ _ _ Hw1 Hk1) as (a2 & -> & Hw2 & Hn2 & Hl2 & Hq2 & _ & Hiff). cbn [bind].
    do 3 eexists. split; [reflexivity|]. left. split; [reflexivity|].
    assert (Hfresh : a_blk a < next_id al /\ a_hdr a < next_id al) by (split; eapply owned_bound; eauto).
    assert (Hinv : arr_inv (set_buf a new0 new0 (next_id al)) a2).
    { constructor; cbn [set_buf a_data a_cap a_slots a_num a_den a_hdr a_blk a_mem]; auto.
      all: try (unfold a_size in *; cbn [set_buf a_data] in *; lia).
      all: try (rewrite Hl2, Hlim; lia).
      all: try (apply (owned_after_release _ _ a1 a2 (a_blk a) Hiff); [eapply owned_alloc; eauto|assumption]).
      all: try (apply (owned_after_release _ _ a1 a2 (a_blk a) Hiff); [eapply owned_new; eauto|lia]). }
    repeat apply conj; cbn [set_buf a_data a_cap a_slots a_num a_den a_hdr a_blk a_mem]; auto; try lia.
  - destruct (alloc_wf _ _ _ _ _ Hw Ea) as (Hw1 & Hlim & Hq & Hlive & Hnid).
    do 3 eexists. split; [reflexivity|]. right. repeat apply conj; auto; lia.
Qed.

Lemma inv_refused a al al' : arr_inv a al -> refused_once al al' -> arr_inv a al'.
Proof.
  intros [Hs Hc Hb Hsl Hd Hn [Hw1 Hw2] Hh Hk Hx] (Hl & Hn' & Hq & Hlim).
  constructor; auto; try (rewrite Hlim; assumption).
  - split; [unfold ids_nodup; rewrite Hl; exact Hw1|intros b; rewrite Hl, Hn'; apply Hw2].
  - destruct Hh as (b & H1 & H2 & H3). exists b. rewrite Hl. auto.
  - destruct Hk as (b & H1 & H2 & H3). exists b. rewrite Hl. auto.
Qed.
Lemma lim_refused a al al' : lim_ok a al -> refused_once al al' -> lim_ok a al'.
Proof. intros [L1 L2] (_ & _ & _ & Hlim). split; rewrite Hlim; assumption. Qed.

(** The step relation of allocating operations, shared by add / add_at / iter_add / push. *)
Definition alloc_outcome (a a' : arr) (al al' : alloc_st) (st : stat) (d' : list N) : Prop :=
  (st = CC_OK /\ a_data a' = d' /\ arr_inv a' al' /\ lim_ok a' al' /\ a_mem a' = a_mem a /\ a_hdr a' = a_hdr a) \/
  (st = CC_ERR_ALLOC /\ a' = a /\ refused_once al al').

Lemma lim_set_data a al d : lim_ok a al -> lim_ok (set_data a d) al.
Proof. intros H; exact H. Qed.

Lemma add_spec a x al :
  arr_inv a al -> lim_ok a al ->
  exists st a' al', arr_add a x al = Ok (st, a', al') /\ alloc_outcome a a' al al' st (a_data a ++ [x]).
Proof.
  intros Hi Hl. unfold arr_add, g_array_add_full.
  destruct (a_cap a <=? a_size a) eqn:Efull.
  - destruct (expand_spec a al Hi Hl) as (st & a1 & al1 & -> & [(-> & Hi1 & Hl1 & Hd & Hgt & _ & _ & Hm & Hh)|(-> & -> & Href)]); cbn [bind].
    + unfold write_ok. rewrite (ai_slots _ _ Hi1). assert (a_size a1 = a_size a) by (unfold a_size; rewrite Hd; reflexivity).
      pose proof (ai_size _ _ Hi). replace (a_size a1 <? a_cap a1) with true by lia.
      do 3 eexists. split; [reflexivity|]. left. repeat apply conj; auto.
      all: try (cbn; rewrite ?Hd; reflexivity).
      all: try (apply lim_set_data; assumption). all: try (apply Hl1). all: try (apply Hl).
      apply inv_set_data; auto. rewrite lenN_app, Hd. change (lenN [x]) with 1. unfold a_size in *. lia.
    + do 3 eexists. split; [reflexivity|]. right. auto.
  - cbn [bind]. unfold write_ok. rewrite (ai_slots _ _ Hi). replace (a_size a <? a_cap a) with true by lia.
    do 3 eexists. split; [reflexivity|]. left. repeat apply conj; auto.
    all: try (apply lim_set_data; assumption). all: try (apply Hl1). all: try (apply Hl).
    apply inv_set_data; auto. rewrite lenN_app. change (lenN [x]) with 1. unfold a_size in *. lia.
Qed.

(** The generated range guard of add_at, for every index of the size_t domain: after the [index == size]
    test, it rejects exactly the indices beyond the size. *)
Lemma add_at_range_spec i n : n < W -> i < W -> i <> n -> (g_array_add_at_range i n = true <-> n < i).
Proof.
  intros Hn Hi Hne. unfold g_array_add_at_range.
  destruct (N.eq_dec n 0) as [->|Hn0].
  - rewrite wsub0. replace (0 =? 0) with true by reflexivity. cbn [andb].
    replace (W - 1 <? i) with false by lia. rewrite orb_false_r. rewrite negb_true_iff, N.eqb_neq. lia.
  - rewrite wsub1 by lia. replace (n =? 0) with false by lia. cbn [andb orb]. rewrite N.ltb_lt. lia.
Qed.

Lemma add_at_spec a x i al :
  arr_inv a al -> lim_ok a al -> i < W ->
  exists st a' al', arr_add_at a x i al = Ok (st, a', al') /\
    (if i <=? a_size a then alloc_outcome a a' al al' st (insertN (a_data a) i x)
     else st = CC_ERR_OUT_OF_RANGE /\ a' = a /\ al' = al).
Proof.
  intros Hi Hl HiW. pose proof (inv_capW a al Hi Hl) as [HcW HsW].
  unfold arr_add_at, g_array_add_at_append.
  destruct (i =? a_size a) eqn:Eeq.
  - assert (i = a_size a) by lia. subst i. replace (a_size a <=? a_size a) with true by lia.
    destruct (add_spec a x al Hi Hl) as (st & a' & al' & -> & Ho). do 3 eexists. split; [reflexivity|].
    unfold a_size. rewrite insertN_end. exact Ho.
  - assert (Hne : i <> a_size a) by lia.
    pose proof (add_at_range_spec i (a_size a) HsW HiW Hne) as G.
    destruct (g_array_add_at_range i (a_size a)) eqn:Er.
    + assert (a_size a < i) by (apply G; reflexivity). replace (i <=? a_size a) with false by lia.
      do 3 eexists. split; [reflexivity|]. auto.
    + assert (i < a_size a) by (destruct (N.lt_ge_cases i (a_size a)); [assumption|]; assert (a_size a < i) by lia; apply G in H0; congruence).
      replace (i <=? a_size a) with true by lia. unfold g_array_add_at_full.
      destruct (a_cap a <=? a_size a) eqn:Efull.
      * destruct (expand_spec a al Hi Hl) as (st & a1 & al1 & -> & [(-> & Hi1 & Hl1 & Hd & Hgt & _ & _ & Hm & Hh)|(-> & -> & Href)]); cbn [bind].
        -- unfold write_ok. rewrite (ai_slots _ _ Hi1). assert (a_size a1 = a_size a) by (unfold a_size; rewrite Hd; reflexivity).
           pose proof (ai_size _ _ Hi). replace (a_size a1 <? a_cap a1) with true by lia.
           do 3 eexists. split; [reflexivity|]. left. repeat apply conj; auto.
           all: try (cbn; rewrite ?Hd; reflexivity).
           all: try (apply lim_set_data; assumption). all: try (apply Hl1). all: try (apply Hl).
           apply inv_set_data; auto. rewrite lenN_insertN by (rewrite Hd; unfold a_size in *; lia). rewrite Hd. unfold a_size in *. lia.
        -- do 3 eexists. split; [reflexivity|]. right. auto.
      * cbn [bind]. unfold write_ok. rewrite (ai_slots _ _ Hi). replace (a_size a <? a_cap a) with true by lia.
        do 3 eexists. split; [reflexivity|]. left. repeat apply conj; auto.
        all: try (apply lim_set_data; assumption). all: try (apply Hl1). all: try (apply Hl).
        apply inv_set_data; auto. rewrite lenN_insertN by (unfold a_size in *; lia). unfold a_size in *. lia.
Qed.

(** trim_capacity: capacity becomes max 1 size (never below the size), contents untouched; a refused
    request changes nothing. *)
Lemma trim_spec a al :
  arr_inv a al -> lim_ok a al ->
  exists st a' al', arr_trim a al = Ok (st, a', al') /\
    ((st = CC_OK /\ arr_inv a' al' /\ lim_ok a' al' /\ a_data a' = a_data a /\ a_cap a' = N.max 1 (a_size a) /\
      a_mem a' = a_mem a /\ a_hdr a' = a_hdr a) \/
     (st = CC_ERR_ALLOC /\ a' = a /\ refused_once al al')).
Proof.
  intros Hi Hl. pose proof (inv_capW a al Hi Hl) as [HcW HsW].
  destruct Hi as [Hs Hc Hb Hsl Hd Hn Hw Hh Hk Hx]. destruct Hl as [L1 L2].
  unfold arr_trim, g_array_trim_noop.
  set (size := if a_size a <? 1 then 1 else a_size a).
  assert (Hsz : size = N.max 1 (a_size a)) by (subst size; destruct (a_size a <? 1) eqn:E; lia).
  destruct (size =? a_cap a) eqn:Enoop.
  - do 3 eexists. split; [reflexivity|]. left. repeat apply conj; auto; try lia. constructor; auto.
  - assert (Hs8 : size * 8 < W) by lia. destruct (wmul8 size Hs8) as [Hw8 Hw8d]. rewrite Hw8d, Hw8.
    destruct (alloc (a_mem a) (size * 8) al) as [[b|] a1] eqn:Ea.
    + destruct (alloc_wf _ _ _ _ _ Hw Ea) as (Hw1 & Hlim & Hq & -> & Hlive & Hnid & Hgr).
      assert (Hk1 : owned (a_mem a) (a_blk a) a1) by (eapply owned_alloc; eauto).
      destruct (release_owned _ _ _ Hw1 Hk1) as (a2 & -> & Hw2 & Hn2 & Hl2 & Hq2 & _ & Hiff). cbn [bind].
      assert (Hfresh : a_blk a < next_id al /\ a_hdr a < next_id al) by (split; eapply owned_bound; eauto).
      do 3 eexists. split; [reflexivity|]. left. split; [reflexivity|].
      assert (Hinv : arr_inv (set_buf a size size (next_id al)) a2).
      { constructor; cbn [set_buf a_data a_cap a_slots a_num a_den a_hdr a_blk a_mem]; auto.
        all: try (unfold a_size in *; cbn [set_buf a_data] in *; lia).
        all: try (rewrite Hl2, Hlim; lia).
        all: try (apply (owned_after_release _ _ a1 a2 (a_blk a) Hiff); [eapply owned_alloc; eauto|assumption]).
        all: try (apply (owned_after_release _ _ a1 a2 (a_blk a) Hiff); [eapply owned_new; eauto|lia]). }
      repeat apply conj; cbn [set_buf a_data a_cap a_slots a_num a_den a_hdr a_blk a_mem]; auto; try lia.
      all: rewrite Hl2, Hlim; assumption.
    + destruct (alloc_wf _ _ _ _ _ Hw Ea) as (Hw1 & Hlim & Hq & Hlive & Hnid).
      do 3 eexists. split; [reflexivity|]. right. repeat apply conj; auto; try lia.
Qed.

(** The non-allocating operations coincide with the ideal list, for every index below 2^64. *)
Lemma replace_at_spec a x i : a_size a < W -> i < W ->
  arr_replace_at a x i = match getN (a_data a) i, updN (a_data a) i x with
                         | Some old, Some l' => (CC_OK, Some old, set_data a l')
                         | _, _ => (CC_ERR_OUT_OF_RANGE, None, a) end.
Proof.
  intros Hs Hi. unfold arr_replace_at, g_array_replace_at_range, a_size in *.
  destruct (lenN (a_data a) <=? i) eqn:E.
  - rewrite (proj2 (getN_None_ge _ _)) by lia. reflexivity.
  - destruct (getN (a_data a) i); [destruct (updN (a_data a) i x)|]; reflexivity.
Qed.

Lemma swap_at_spec a i j : a_size a < W -> i < W -> j < W ->
  arr_swap_at a i j = match getN (a_data a) i, getN (a_data a) j with
                      | Some x, Some y => match updN (a_data a) i y with
                                          | Some l1 => match updN l1 j x with Some l2 => (CC_OK, set_data a l2) | None => (CC_ERR_OUT_OF_RANGE, a) end
                                          | None => (CC_ERR_OUT_OF_RANGE, a) end
                      | _, _ => (CC_ERR_OUT_OF_RANGE, a) end.
Proof.
  intros Hs Hi Hj. unfold arr_swap_at, g_array_swap_at_range, a_size in *.
  destruct ((lenN (a_data a) <=? i) || (lenN (a_data a) <=? j)) eqn:E; [|reflexivity].
  apply orb_true_iff in E. destruct E as [E|E].
  - rewrite (proj2 (getN_None_ge _ _)) by lia. reflexivity.
  - rewrite (proj2 (getN_None_ge (a_data a) j)) by lia. destruct (getN (a_data a) i); reflexivity.
Qed.

Lemma remove_at_spec a i : a_size a < W -> i < W ->
  arr_remove_at a i = match getN (a_data a) i with
                      | Some v => (CC_OK, Some v, set_data a (removeN (a_data a) i))
                      | None => (CC_ERR_OUT_OF_RANGE, None, a) end.
Proof.
  intros Hs Hi. unfold arr_remove_at, g_array_remove_at_range, a_size in *.
  destruct (lenN (a_data a) <=? i) eqn:E; [|reflexivity].
  rewrite (proj2 (getN_None_ge _ _)) by lia. reflexivity.
Qed.

Lemma get_at_spec a i : a_size a < W -> i < W ->
  arr_get_at a i = match getN (a_data a) i with Some v => (CC_OK, Some v) | None => (CC_ERR_OUT_OF_RANGE, None) end.
Proof.
  intros Hs Hi. unfold arr_get_at, g_array_get_at_range, a_size in *.
  destruct (lenN (a_data a) <=? i) eqn:E; [|reflexivity].
  rewrite (proj2 (getN_None_ge _ _)) by lia. reflexivity.
Qed.

Lemma size0_nil a : a_size a = 0 -> a_data a = [].
Proof. unfold a_size, lenN. destruct (a_data a); cbn; [reflexivity|lia]. Qed.

Lemma remove_last_spec a : a_size a < W ->
  arr_remove_last a = match getN (a_data a) (a_size a - 1), (0 <? a_size a) with
                      | Some v, true => (CC_OK, Some v, set_data a (removeN (a_data a) (a_size a - 1)))
                      | _, _ => (CC_ERR_OUT_OF_RANGE, None, a) end.
Proof.
  intros Hs. unfold arr_remove_last. destruct (N.eq_dec (a_size a) 0) as [E|E].
  - rewrite E. rewrite wsub0. rewrite remove_at_spec by (unfold W in *; lia).
    rewrite (size0_nil a E). reflexivity.
  - rewrite wsub1 by lia. rewrite remove_at_spec by lia. replace (0 <? a_size a) with true by lia.
    destruct (getN (a_data a) (a_size a - 1)); reflexivity.
Qed.

Lemma get_last_spec a : a_size a < W ->
  arr_get_last a = match getN (a_data a) (a_size a - 1), (0 <? a_size a) with
                   | Some v, true => (CC_OK, Some v) | _, _ => (CC_ERR_VALUE_NOT_FOUND, None) end.
Proof.
  intros Hs. unfold arr_get_last, g_array_get_last_empty. destruct (N.eq_dec (a_size a) 0) as [E|E].
  - rewrite E. rewrite (size0_nil a E). reflexivity.
  - replace (a_size a =? 0) with false by lia. rewrite wsub1 by lia. rewrite get_at_spec by lia.
    replace (0 <? a_size a) with true by lia.
    destruct (getN_lt (a_data a) (a_size a - 1)) as [v Hv]; [unfold a_size in *; lia|]. rewrite Hv. reflexivity.
Qed.
