(** Step and history refinement of the array model against the ideal list. *)
From CC Require Import Base.Prelude Base.ListMem Base.Alloc Base.AllocProofs Base.Ledger.
From CC Require Import Generated.Status Generated.Constants Generated.Guards.
From CC Require Import Array.ArrayModel Array.ArrayProofs Array.ArrayLoops.
Local Open Scope N_scope.

Ltac fin := repeat apply conj; auto; try (intros; discriminate); try (match goal with H : lim_ok _ _ |- _ => apply H end).

Definition op_ok (o : arr_op) : Prop :=
  match o with
  | AAddAt _ i | AReplaceAt _ i | ARemoveAt i | AGetAt i => i < W
  | ASwapAt i j => i < W /\ j < W
  | _ => True
  end.
Definition allocating (o : arr_op) : bool :=
  match o with AAdd _ | AAddAt _ _ | ATrim => true | _ => false end.

Lemma updN_len (l : list N) i x l' : updN l i x = Some l' -> lenN l' = lenN l.
Proof. apply lenN_updN. Qed.

Theorem arr_step_refines pred a o al :
  arr_inv a al -> lim_ok a al -> op_ok o ->
  exists out a' al', arr_step pred a o al = Ok (out, a', al') /\
    (((out, a_data a') = spec_step pred (a_data a) o /\ arr_inv a' al' /\ lim_ok a' al' /\
      (allocating o = false -> al' = al)) \/
     (allocating o = true /\ out = AOut CC_ERR_ALLOC None /\ a' = a /\ refused_once al al')).
Proof.
  intros Hi Hl Hop. pose proof (inv_capW a al Hi Hl) as [HcW HsW]. pose proof (ai_size _ _ Hi) as Hsz.
  assert (Hkeep : forall d, lenN d <= lenN (a_data a) -> arr_inv (set_data a d) al /\ lim_ok (set_data a d) al).
  { intros d Hd. split; [apply inv_set_data; auto; unfold a_size in *; lia|exact Hl]. }
  destruct o as [x|x i|x i|i j|x|i| | |i| |x|x| | | |]; cbn [arr_step spec_step op_ok allocating] in *.
  - (* add *)
    destruct (add_spec a x al Hi Hl) as (st & a' & al' & Heq & Ho). rewrite Heq. unfold alloc_outcome in Ho.
    destruct Ho as [(-> & Hd & Hi' & Hl' & _)|(-> & -> & Hr)]; cbn [bind].
    + do 3 eexists. split; [reflexivity|]. left. rewrite Hd. fin.
    + do 3 eexists. split; [reflexivity|]. right. auto.
  - (* add_at *)
    destruct (add_at_spec a x i al Hi Hl Hop) as (st & a' & al' & Heq & Ho). rewrite Heq. unfold alloc_outcome in Ho. cbn [bind].
    fold (a_size a). destruct (i <=? a_size a) eqn:Ei.
    + destruct Ho as [(-> & Hd & Hi' & Hl' & _)|(-> & -> & Hr)].
      * do 3 eexists. split; [reflexivity|]. left. rewrite Hd. fin.
      * do 3 eexists. split; [reflexivity|]. right. auto.
    + destruct Ho as (-> & -> & ->). do 3 eexists. split; [reflexivity|]. left. fin.
  - (* replace_at *)
    rewrite replace_at_spec by assumption.
    destruct (getN (a_data a) i) as [old|] eqn:Eg; [destruct (updN (a_data a) i x) as [l'|] eqn:Eu|];
      do 3 eexists; (split; [reflexivity|]); left; cbn [a_data set_data]; fin.
    all: try (apply Hkeep; rewrite (updN_len _ _ _ _ Eu); lia).
  - (* swap_at *)
    destruct Hop as [Hi1 Hj1]. rewrite swap_at_spec by assumption.
    destruct (getN (a_data a) i) as [vx|] eqn:Eg1; [destruct (getN (a_data a) j) as [vy|] eqn:Eg2;
      [destruct (updN (a_data a) i vy) as [l1|] eqn:Eu1; [destruct (updN l1 j vx) as [l2|] eqn:Eu2|]|]|];
      do 3 eexists; (split; [reflexivity|]); left; cbn [a_data set_data]; fin.
    all: try (apply Hkeep; rewrite (updN_len _ _ _ _ Eu2), (updN_len _ _ _ _ Eu1); lia).
  - (* remove *)
    unfold arr_remove. destruct (index_ofN (a_data a) x) as [k|] eqn:Ek;
      do 3 eexists; (split; [reflexivity|]); left; cbn [a_data set_data]; fin.
    all: try (apply Hkeep; rewrite lenN_removeN by (eapply index_ofN_lt; eauto); lia).
  - (* remove_at *)
    rewrite remove_at_spec by assumption.
    destruct (getN (a_data a) i) as [v|] eqn:Eg;
      do 3 eexists; (split; [reflexivity|]); left; cbn [a_data set_data]; fin.
    all: try (apply Hkeep; rewrite lenN_removeN by (eapply getN_Some_lt; eauto); lia).
  - (* remove_last *)
    rewrite remove_last_spec by assumption. unfold a_size.
    destruct (getN (a_data a) (lenN (a_data a) - 1)) as [v|] eqn:Eg; [destruct (0 <? lenN (a_data a)) eqn:Ep|];
      do 3 eexists; (split; [reflexivity|]); left; cbn [a_data set_data]; fin.
    all: try (apply Hkeep; rewrite lenN_removeN by (eapply getN_Some_lt; eauto); lia).
    all: destruct (0 <? lenN (a_data a)); reflexivity.
  - (* remove_all *)
    do 3 eexists. split; [reflexivity|]. left. cbn. fin. all: apply Hkeep; cbn; lia.
  - (* get_at *)
    rewrite get_at_spec by assumption.
    destruct (getN (a_data a) i); do 3 eexists; (split; [reflexivity|]); left; fin.
  - (* get_last *)
    rewrite get_last_spec by assumption. unfold a_size.
    destruct (getN (a_data a) (lenN (a_data a) - 1)); [destruct (0 <? lenN (a_data a))|];
      do 3 eexists; (split; [reflexivity|]); left; fin.
  - (* index_of *)
    unfold arr_index_of. destruct (index_ofN (a_data a) x);
      do 3 eexists; (split; [reflexivity|]); left; fin.
  - (* contains *)
    do 3 eexists. split; [reflexivity|]. left. fin.
  - (* reverse *)
    rewrite reverse_spec by assumption. cbn [bind].
    do 3 eexists. split; [reflexivity|]. left. cbn [a_data set_data]. fin.
    all: apply Hkeep; rewrite lenN_rev; lia.
  - (* filter_mut *)
    destruct (N.eq_dec (a_size a) 0) as [E|E].
    + unfold arr_filter_mut, g_array_filter_mut_empty. rewrite E. cbn.
      do 3 eexists. split; [reflexivity|]. left. unfold a_size in E. rewrite E. cbn. fin.
    + rewrite (filter_mut_spec pred a E).
      do 3 eexists. split; [reflexivity|]. left. cbn [a_data set_data]. unfold a_size in E.
      replace (lenN (a_data a) =? 0) with false by lia. fin.
      all: apply Hkeep; apply lenN_filter_le.
  - (* trim *)
    destruct (trim_spec a al Hi Hl) as (st & a' & al' & -> & [(-> & Hi' & Hl' & Hd & _)|(-> & -> & Hr)]); cbn [bind].
    + do 3 eexists. split; [reflexivity|]. left. rewrite Hd. fin.
    + do 3 eexists. split; [reflexivity|]. right. auto.
  - (* size *)
    do 3 eexists. split; [reflexivity|]. left. fin.
Qed.

(** Histories: every operation either acts as on the ideal list or is a refused allocation that changes
    nothing. *)
Fixpoint arr_run (pred : N -> bool) (a : arr) (ops : list arr_op) (al : alloc_st) : res (list arr_out * arr * alloc_st) :=
  match ops with
  | [] => Ok ([], a, al)
  | o :: t => do (out, a1, al1) <- arr_step pred a o al;
              do (outs, a2, al2) <- arr_run pred a1 t al1; Ok (out :: outs, a2, al2)
  end.

Inductive ideal_run (pred : N -> bool) : list N -> list arr_op -> list arr_out -> list N -> Prop :=
  | ir_nil l : ideal_run pred l [] [] l
  | ir_step l o t out l1 outs l2 :
      spec_step pred l o = (out, l1) -> ideal_run pred l1 t outs l2 -> ideal_run pred l (o :: t) (out :: outs) l2
  | ir_refused l o t outs l2 :
      allocating o = true -> ideal_run pred l t outs l2 -> ideal_run pred l (o :: t) (AOut CC_ERR_ALLOC None :: outs) l2.

Theorem arr_run_refines pred ops : forall a al,
  arr_inv a al -> lim_ok a al -> Forall op_ok ops ->
  exists outs a' al', arr_run pred a ops al = Ok (outs, a', al') /\ arr_inv a' al' /\ lim_ok a' al' /\
                      ideal_run pred (a_data a) ops outs (a_data a').
Proof.
  induction ops as [|o t IH]; intros a al Hi Hl Hops; cbn [arr_run].
  - do 3 eexists. split; [reflexivity|]. split; [assumption|]. split; [assumption|]. constructor.
  - inversion Hops as [|? ? Ho Ht]; subst.
    destruct (arr_step_refines pred a o al Hi Hl Ho) as (out & a1 & al1 & -> & Hcase). cbn [bind].
    destruct Hcase as [(Hs & Hi1 & Hl1 & _)|(Ha & -> & -> & Hr)].
    + destruct (IH a1 al1 Hi1 Hl1 Ht) as (outs & a2 & al2 & -> & Hi2 & Hl2 & Hr2). cbn [bind].
      do 3 eexists. split; [reflexivity|]. split; [assumption|]. split; [assumption|]. eapply ir_step; eauto.
    + assert (Hi1 : arr_inv a al1) by (eapply inv_refused; eauto).
      assert (Hl1 : lim_ok a al1) by (eapply lim_refused; eauto).
      destruct (IH a al1 Hi1 Hl1 Ht) as (outs & a2 & al2 & -> & Hi2 & Hl2 & Hr2). cbn [bind].
      do 3 eexists. split; [reflexivity|]. split; [assumption|]. split; [assumption|]. eapply ir_refused; eauto.
Qed.

(** The constructor: a capacity of 0, or one whose product with the factor would overflow, is rejected;
    otherwise the result is an empty array satisfying the invariant, or ERR_ALLOC with nothing left behind. *)
Theorem arr_new_spec mem capacity num den al st r al' :
  ledger_wf al -> capacity * 8 < W -> 0 < den ->
  arr_new mem capacity num den al = (st, r, al') ->
  match r with
  | Some a => st = CC_OK /\ a_data a = [] /\ a_cap a = capacity /\ arr_inv a al' /\ a_mem a = mem /\
              (a_num a, a_den a) = (if num <=? den then (DEFAULT_EXPANSION_FACTOR_num, DEFAULT_EXPANSION_FACTOR_den) else (num, den))
  | None => (st = CC_ERR_INVALID_CAPACITY /\ al' = al) \/ (st = CC_ERR_ALLOC /\ live al' = live al)
  end.
Proof.
  intros Hw Hc Hden. unfold arr_new.
  destruct (if num <=? den then (DEFAULT_EXPANSION_FACTOR_num, DEFAULT_EXPANSION_FACTOR_den) else (num, den)) as [n d] eqn:End.
  assert (Hnd : 0 < d /\ d < n).
  { destruct (num <=? den) eqn:E; inversion End; subst; [unfold DEFAULT_EXPANSION_FACTOR_num, DEFAULT_EXPANSION_FACTOR_den; lia|lia]. }
  destruct ((capacity =? 0) || (d * (CC_MAX_ELEMENTS / capacity) <=? n)) eqn:Einv.
  { intros H; inversion H; subst. left; auto. }
  apply orb_false_iff in Einv. destruct Einv as [Ec0 _].
  unfold g_array_new_bytes, SIZE_MAX.
  replace ((W - 1) / 8 <? capacity) with false by (unfold W in *; lia).
  destruct (alloc mem ARRAY_HDR al) as [[h|] a1] eqn:E1.
  - destruct (alloc_wf _ _ _ _ _ Hw E1) as (Hw1 & Hlim1 & Hq1 & -> & Hlive1 & Hnid1 & _).
    destruct (wmul8 capacity Hc) as [Hw8 Hw8d]. rewrite Hw8d, Hw8.
    destruct (alloc mem (capacity * 8) a1) as [[b|] a2] eqn:E2.
    + destruct (alloc_wf _ _ _ _ _ Hw1 E2) as (Hw2 & Hlim2 & Hq2 & -> & Hlive2 & Hnid2 & Hgr).
      intros H; inversion H; subst; clear H. repeat apply conj; auto.
      constructor; cbn [a_data a_cap a_slots a_num a_den a_hdr a_blk a_mem]; auto; try lia.
      all: try (unfold a_size; cbn; lia).
      all: try (rewrite Hlim2; lia).
      * eapply owned_alloc; [eapply owned_new; eauto|eauto].
      * eapply owned_new; eauto.
    + destruct (alloc_wf _ _ _ _ _ Hw1 E2) as (Hw2 & Hlim2 & Hq2 & Hlive2 & Hnid2).
      rewrite Hlive1 in Hlive2. destruct (release_head _ _ _ _ _ Hlive2) as (a3 & -> & Hl3 & _).
      intros H; inversion H; subst. right; auto.
  - destruct (alloc_wf _ _ _ _ _ Hw E1) as (_ & _ & _ & Hlive & _).
    intros H; inversion H; subst. right; auto.
Qed.

Theorem arr_destroy_spec a al :
  arr_inv a al -> exists al', arr_destroy a al = Ok al' /\
    (forall b, In b (live al') <-> In b (live al) /\ b_id b <> a_blk a /\ b_id b <> a_hdr a).
Proof.
  intros [Hs Hc Hb Hsl Hd Hn Hw Hh Hk Hx]. unfold arr_destroy.
  destruct (release_owned _ _ _ Hw Hk) as (a1 & -> & Hw1 & _ & _ & _ & _ & Hiff1). cbn [bind].
  assert (Hh1 : owned (a_mem a) (a_hdr a) a1) by (eapply owned_after_release; eauto).
  destruct (release_owned _ _ _ Hw1 Hh1) as (a2 & -> & _ & _ & _ & _ & _ & Hiff2).
  eexists; split; [reflexivity|]. intros b. rewrite Hiff2, Hiff1. tauto.
Qed.

(** Since the byte-size repair the constructor is total over every machine-word capacity: the hypothesis
    [capacity * 8 < W] of [arr_new_spec] is no longer an assumption about the caller - a capacity whose buffer
    size in bytes is not representable is refused with nothing allocated. *)
Theorem arr_new_total mem capacity num den al st r al' :
  ledger_wf al -> 0 < den ->
  arr_new mem capacity num den al = (st, r, al') ->
  match r with
  | Some a => st = CC_OK /\ a_data a = [] /\ a_cap a = capacity /\ arr_inv a al' /\ a_mem a = mem /\ capacity * 8 < W /\
              (a_num a, a_den a) = (if num <=? den then (DEFAULT_EXPANSION_FACTOR_num, DEFAULT_EXPANSION_FACTOR_den) else (num, den))
  | None => (st = CC_ERR_INVALID_CAPACITY /\ al' = al) \/ (st = CC_ERR_ALLOC /\ live al' = live al)
  end.
Proof.
  intros Hw Hd H. destruct (g_array_new_bytes capacity SIZE_MAX) eqn:E.
  - unfold arr_new in H.
    destruct (if num <=? den then (DEFAULT_EXPANSION_FACTOR_num, DEFAULT_EXPANSION_FACTOR_den) else (num, den)) as [n d].
    destruct ((capacity =? 0) || (d * (CC_MAX_ELEMENTS / capacity) <=? n)); [|rewrite E in H]; inversion H; subst; left; auto.
  - assert (Hc : capacity * 8 < W) by (unfold g_array_new_bytes, SIZE_MAX in E; unfold W in *; lia).
    pose proof (arr_new_spec mem capacity num den al st r al' Hw Hc Hd H) as S.
    destruct r as [a|]; [|exact S]. destruct S as (S1 & S2 & S3 & S4 & S5 & S6). repeat apply conj; auto.
Qed.

Example arr_new_total_witness :
  fst (fst (arr_new Conf 2305843009213693952 2 1 (alloc_init [] 1099511627776))) = CC_ERR_INVALID_CAPACITY /\
  fst (fst (arr_new Conf 2305843009213693951 2 1 (alloc_init [] 1099511627776))) = CC_ERR_ALLOC /\
  fst (fst (arr_new Conf 4 2 1 (alloc_init [] 1099511627776))) = CC_OK.
Proof. vm_compute. repeat split. Qed.
