(** The two hand-written loops of cc_array.c: reverse (swap loop) = [rev], filter_mut (backwards cluster
    scan) = [filter]. *)
From CC Require Import Base.Prelude Base.ListMem Generated.Status Generated.Guards Array.ArrayModel Array.ArrayProofs.
Local Open Scope N_scope.

Lemma getN_app_mid (pre : list N) x post : getN (pre ++ x :: post) (lenN pre) = Some x.
Proof. unfold getN, lenN. rewrite Nat2N.id. rewrite nth_error_app2 by lia. rewrite Nat.sub_diag. reflexivity. Qed.
Lemma updN_app_mid (pre : list N) x post v : updN (pre ++ x :: post) (lenN pre) v = Some (pre ++ v :: post).
Proof.
  unfold updN, lenN. rewrite Nat2N.id. induction pre as [|p t IH]; cbn; [reflexivity|]. rewrite IH. reflexivity.
Qed.

Lemma rev_loop_spec fuel : forall pre mid post i,
  lenN pre = i -> lenN post = i -> (length mid / 2 <= fuel)%nat -> 2 * i + lenN mid < W ->
  rev_loop fuel (pre ++ mid ++ post) i (i + lenN mid - 1) ((2 * i + lenN mid) / 2) = Some (pre ++ rev mid ++ post).
Proof.
  induction fuel as [|f IH]; intros pre mid post i Hpre Hpost Hfuel HW.
  - (* no fuel needed: mid has at most one element *)
    assert (Hm : (length mid <= 1)%nat).
    { destruct (Nat.le_gt_cases (length mid) 1) as [|Hgt]; [assumption|]. exfalso.
      assert (1 <= length mid / 2)%nat by (apply Nat.div_le_lower_bound; lia). lia. }
    cbn [rev_loop]. destruct mid as [|x [|y m]]; cbn [length] in Hm; try lia; reflexivity.
  - cbn [rev_loop]. destruct mid as [|x mid'].
    + cbn [app rev lenN length]. replace ((2 * i + lenN []) / 2) with i.
      2:{ change (lenN (@nil N)) with 0. rewrite N.add_0_r, N.mul_comm, N.div_mul by lia. reflexivity. }
      replace (i <? i) with false by lia. reflexivity.
    + destruct (exists_last (l := x :: mid')) as (m & y & E); [discriminate|].
      destruct m as [|x' m'].
      * (* single element *)
        cbn in E. injection E as Ex Em. subst x mid'. change (lenN [y]) with 1.
        replace ((2 * i + 1) / 2) with i.
        2:{ symmetry. replace (2 * i + 1) with (1 + i * 2) by lia. rewrite N.div_add by lia. reflexivity. }
        replace (i <? i) with false by lia. reflexivity.
      * cbn in E. injection E as Ex Em. subst x' mid'.
        assert (HfuelN : (length m' / 2 + 1 <= S f)%nat).
        { replace (length (x :: m' ++ [y])) with (length m' + 1 * 2)%nat in Hfuel by (cbn [length]; rewrite app_length; cbn [length]; lia).
          rewrite Nat.div_add in Hfuel by lia. exact Hfuel. }
        assert (Hlen : lenN (x :: m' ++ [y]) = lenN m' + 2).
        { rewrite lenN_cons, lenN_app. change (lenN [y]) with 1. lia. }
        rewrite Hlen in *.
        assert (Hhalf : (2 * i + (lenN m' + 2)) / 2 = i + 1 + lenN m' / 2).
        { replace (2 * i + (lenN m' + 2)) with (lenN m' + (i + 1) * 2) by lia. rewrite N.div_add by lia. lia. }
        rewrite Hhalf. replace (i <? i + 1 + lenN m' / 2) with true by lia.
        (* reads *)
        replace (pre ++ (x :: m' ++ [y]) ++ post) with (pre ++ x :: (m' ++ [y] ++ post)) by (cbn; rewrite <- !app_assoc; reflexivity).
        rewrite <- Hpre at 1. rewrite getN_app_mid.
        replace (pre ++ x :: m' ++ [y] ++ post) with ((pre ++ x :: m') ++ y :: post) by (rewrite <- !app_assoc; reflexivity).
        assert (Hj : i + (lenN m' + 2) - 1 = lenN (pre ++ x :: m')) by (rewrite lenN_app, lenN_cons; lia).
        rewrite Hj. rewrite getN_app_mid.
        (* writes *)
        replace ((pre ++ x :: m') ++ y :: post) with (pre ++ x :: (m' ++ y :: post)) by (rewrite <- !app_assoc; reflexivity).
        rewrite <- Hpre at 1. rewrite updN_app_mid.
        replace (pre ++ y :: m' ++ y :: post) with ((pre ++ y :: m') ++ y :: post) by (rewrite <- !app_assoc; reflexivity).
        replace (lenN (pre ++ x :: m')) with (lenN (pre ++ y :: m')) by (rewrite !lenN_app, !lenN_cons; reflexivity).
        rewrite updN_app_mid.
        (* recursive call *)
        replace ((pre ++ y :: m') ++ x :: post) with ((pre ++ [y]) ++ m' ++ (x :: post)) by (rewrite <- !app_assoc; reflexivity).
        assert (Hjw : wsub (lenN (pre ++ y :: m')) 1 = (i + 1) + lenN m' - 1).
        { rewrite lenN_app, lenN_cons. rewrite wsub1 by lia. lia. }
        rewrite Hjw.
        replace (i + 1 + lenN m' / 2) with ((2 * (i + 1) + lenN m') / 2).
        2:{ replace (2 * (i + 1) + lenN m') with (lenN m' + (i + 1) * 2) by lia. rewrite N.div_add by lia. lia. }
        rewrite IH.
        -- cbn [rev]. rewrite rev_app_distr. cbn [rev app]. rewrite <- !app_assoc. reflexivity.
        -- rewrite lenN_app. change (lenN [y]) with 1. lia.
        -- rewrite lenN_cons. lia.
        -- lia.
        -- lia.
Qed.

Theorem reverse_spec a : a_size a < W -> arr_reverse a = Ok (set_data a (rev (a_data a))).
Proof.
  intros Hs. unfold arr_reverse, g_array_reverse_empty.
  destruct (a_size a =? 0) eqn:E.
  - assert (Hn : a_data a = []) by (apply size0_nil; lia). rewrite Hn. destruct a; cbn in *. subst. reflexivity.
  - rewrite wsub1 by lia.
    pose proof (rev_loop_spec (N.to_nat (a_size a)) [] (a_data a) [] 0) as R.
    cbn [app lenN length] in R. rewrite app_nil_r in R. change (N.of_nat 0) with 0 in R.
    rewrite N.mul_0_r, !N.add_0_l in R. fold (a_size a) in R. rewrite R; auto.
    + rewrite app_nil_r. reflexivity.
    + unfold a_size, lenN. rewrite Nat2N.id. apply Nat.div_le_upper_bound; lia.
Qed.

(** filter_mut *)
Lemma firstnN_of_nat (l : list N) k : firstnN (N.of_nat k) l = firstn k l.
Proof. unfold firstnN. rewrite Nat2N.id. reflexivity. Qed.
Lemma skipnN_of_nat (l : list N) k : skipnN (N.of_nat k) l = skipn k l.
Proof. unfold skipnN. rewrite Nat2N.id. reflexivity. Qed.
Lemma getN_of_nat (l : list N) k : getN l (N.of_nat k) = nth_error l k.
Proof. unfold getN. rewrite Nat2N.id. reflexivity. Qed.
Lemma rev_seqN_S k : rev (seqN 0 (N.of_nat (S k))) = N.of_nat k :: rev (seqN 0 (N.of_nat k)).
Proof.
  replace (N.of_nat (S k)) with (N.of_nat k + 1) by lia. rewrite seqN_S, rev_app_distr. cbn [rev app]. f_equal.
Qed.
Lemma filter_none (pred : N -> bool) l : Forall (fun x => pred x = false) l -> filter pred l = [].
Proof. induction 1 as [|x t Hx _ IH]; cbn; [reflexivity|]. rewrite Hx. exact IH. Qed.
Lemma firstn_S_nth (l : list N) k x : nth_error l k = Some x -> firstn (S k) l = firstn k l ++ [x].
Proof.
  revert k; induction l as [|y t IH]; intros [|k] H; cbn in *; try discriminate.
  - inversion H; reflexivity.
  - f_equal. apply IH. assumption.
Qed.
Lemma skipn_nth (l : list N) k x : nth_error l k = Some x -> skipn k l = x :: skipn (S k) l.
Proof.
  revert k; induction l as [|y t IH]; intros [|k] H; cbn in *; try discriminate.
  - inversion H; reflexivity.
  - apply IH. assumption.
Qed.

Lemma nth_error_firstn_lt (l : list N) n k : (k < n)%nat -> nth_error (firstn n l) k = nth_error l k.
Proof.
  revert n k; induction l as [|y t IH]; intros [|n] [|k] H; cbn; try reflexivity; try lia.
  apply IH. lia.
Qed.

Lemma skipn_skipn' (l : list N) a b : skipn a (skipn b l) = skipn (b + a) l.
Proof.
  revert l; induction b as [|b IH]; intros l; cbn [skipn Nat.add]; [reflexivity|].
  destruct l as [|y t]; [destruct a; reflexivity|]. apply IH.
Qed.

Section FilterMut.
Variable pred : N -> bool.
Variable l : list N.

Lemma fm_loop_spec m : forall rm kept junk,
  (m + rm <= length l)%nat ->
  kept = filter pred (skipn (m + rm) l) ->
  Forall (fun x => pred x = false) (firstn rm (skipn m l)) ->
  exists rm' kept' junk',
    fm_loop pred (rev (seqN 0 (N.of_nat m))) (firstn (m + rm) l ++ kept ++ junk)
            (N.of_nat (m + rm + length kept)) (N.of_nat rm) (N.of_nat (length kept))
    = (firstn rm' l ++ kept' ++ junk', N.of_nat (rm' + length kept'), N.of_nat rm', N.of_nat (length kept')) /\
    kept' = filter pred (skipn rm' l) /\ Forall (fun x => pred x = false) (firstn rm' l) /\ (rm' <= length l)%nat.
Proof.
  induction m as [|m IH]; intros rm kept junk Hlen Hk Hf.
  - cbn [N.of_nat seqN]. change (rev (seqN 0 0)) with (@nil N). cbn [fm_loop].
    exists rm, kept, junk. cbn [Nat.add] in *. repeat apply conj; auto.
  - rewrite rev_seqN_S. cbn [fm_loop].
    assert (Hx : exists x, nth_error l m = Some x).
    { destruct (nth_error l m) eqn:E; [eauto|]. apply nth_error_None in E. lia. }
    destruct Hx as [x Hx].
    assert (Hget : getN (firstn (S m + rm) l ++ kept ++ junk) (N.of_nat m) = Some x).
    { rewrite getN_of_nat. rewrite nth_error_app1 by (rewrite firstn_length; lia).
      rewrite nth_error_firstn_lt by lia. exact Hx. }
    rewrite Hget.
    destruct (pred x) eqn:Ep; cbn [negb].
    + (* kept element *)
      destruct rm as [|rm0].
      * (* no pending cluster *)
        change (0 <? N.of_nat 0) with false.
        rewrite Nat.add_0_r in *.
        specialize (IH 0%nat (x :: kept) junk).
        rewrite Nat.add_0_r in IH.
        replace (firstn (S m) l ++ kept ++ junk) with (firstn m l ++ (x :: kept) ++ junk)
          by (rewrite (firstn_S_nth _ _ _ Hx), <- app_assoc; reflexivity).
        replace (N.of_nat (S m + length kept)) with (N.of_nat (m + length (x :: kept))) by (cbn [length]; lia).
        replace (N.of_nat (length kept) + 1) with (N.of_nat (length (x :: kept))) by (cbn [length]; lia).
        apply IH; [lia| |constructor].
        rewrite (skipn_nth _ _ _ Hx). cbn [filter]. rewrite Ep. f_equal. exact Hk.
      * replace (0 <? N.of_nat (S rm0)) with true by lia.
        (* the pending cluster fails the predicate, so it contributes nothing to the filter *)
        assert (Hk' : filter pred (skipn (S m) l) = kept).
        { rewrite <- (firstn_skipn (S rm0) (skipn (S m) l)). rewrite filter_app.
          assert (Hf2 : Forall (fun y => pred y = false) (firstn (S rm0) (skipn (S m) l))) by exact Hf.
          rewrite (filter_none _ _ Hf2). cbn [app]. rewrite skipn_skipn'. rewrite Hk. reflexivity. }
        specialize (IH 0%nat (x :: kept)).
        replace (m + 0)%nat with m in IH by lia.
        destruct kept as [|k0 kept0] eqn:Ekept.
        -- (* keep = 0: no memmove, the cluster stays behind as junk *)
           change (0 <? N.of_nat (length (@nil N))) with false.
           specialize (IH (skipn (S m) (firstn (S m + S rm0) l) ++ junk)).
           replace (firstn (S m + S rm0) l ++ [] ++ junk) with (firstn m l ++ [x] ++ (skipn (S m) (firstn (S m + S rm0) l) ++ junk)).
           2:{ cbn [app]. rewrite <- (firstn_skipn (S m) (firstn (S m + S rm0) l)) at 2.
               rewrite firstn_firstn. replace (Nat.min (S m) (S m + S rm0)) with (S m) by lia.
               rewrite (firstn_S_nth _ _ _ Hx). rewrite <- !app_assoc. reflexivity. }
           replace (N.of_nat (S m + S rm0 + length (@nil N)) - N.of_nat (S rm0)) with (N.of_nat (m + length [x])) by (cbn [length]; lia).
           replace (N.of_nat (length (@nil N)) + 1) with (N.of_nat (length [x])) by (cbn [length]; lia).
           change (N.of_nat 0) with 0 in IH.
           apply IH; [lia| |constructor].
           rewrite (skipn_nth _ _ _ Hx). cbn [filter]. rewrite Ep. f_equal. symmetry. exact Hk'.
        -- replace (0 <? N.of_nat (length (k0 :: kept0))) with true by (cbn [length]; lia).
           specialize (IH junk).
           assert (Hdrop : drop_at (firstn (S m + S rm0) l ++ (k0 :: kept0) ++ junk) (N.of_nat m + 1) (N.of_nat (S rm0))
                           = firstn m l ++ (x :: k0 :: kept0) ++ junk).
           { unfold drop_at. replace (N.of_nat m + 1) with (N.of_nat (S m)) by lia.
             replace (N.of_nat (S m) + N.of_nat (S rm0)) with (N.of_nat (S m + S rm0)) by lia.
             rewrite firstnN_of_nat, skipnN_of_nat.
             rewrite firstn_app, firstn_firstn, firstn_length. replace (Nat.min (S m) (S m + S rm0)) with (S m) by lia.
             replace (S m - Nat.min (S m + S rm0) (length l))%nat with 0%nat by lia. rewrite firstn_O, app_nil_r.
             rewrite skipn_app, firstn_length. replace (Nat.min (S m + S rm0) (length l)) with (S m + S rm0)%nat by lia.
             rewrite skipn_all2 by (rewrite firstn_length; lia). rewrite Nat.sub_diag, skipn_O. cbn [app].
             rewrite (firstn_S_nth _ _ _ Hx). rewrite <- !app_assoc. reflexivity. }
           rewrite Hdrop.
           replace (N.of_nat (S m + S rm0 + length (k0 :: kept0)) - N.of_nat (S rm0)) with (N.of_nat (m + length (x :: k0 :: kept0))) by (cbn [length]; lia).
           replace (N.of_nat (length (k0 :: kept0)) + 1) with (N.of_nat (length (x :: k0 :: kept0))) by (cbn [length]; lia).
           change (N.of_nat 0) with 0 in IH.
           apply IH; [lia| |constructor].
           rewrite (skipn_nth _ _ _ Hx). cbn [filter]. rewrite Ep. f_equal. symmetry. exact Hk'.
    + (* rejected element: extend the pending cluster *)
      specialize (IH (S rm) kept junk).
      replace (m + S rm)%nat with (S m + rm)%nat in IH by lia.
      replace (N.of_nat rm + 1) with (N.of_nat (S rm)) by lia.
      apply IH; [lia|exact Hk|].
      rewrite (skipn_nth _ _ _ Hx). cbn [firstn]. constructor; [exact Ep|exact Hf].
Qed.
End FilterMut.

Theorem filter_mut_spec pred a :
  a_size a <> 0 -> arr_filter_mut pred a = (CC_OK, set_data a (filter pred (a_data a))).
Proof.
  intros Hne. unfold arr_filter_mut, g_array_filter_mut_empty.
  replace (a_size a =? 0) with false by lia.
  set (l := a_data a).
  destruct (fm_loop_spec pred l (length l) 0 [] []) as (rm' & kept' & junk' & Hloop & Hk & Hf & Hle).
  - lia.
  - rewrite Nat.add_0_r, skipn_all. reflexivity.
  - constructor.
  - rewrite Nat.add_0_r, firstn_all in Hloop. cbn [app length] in Hloop. rewrite Nat.add_0_r, app_nil_r in Hloop.
    change (N.of_nat 0) with 0 in Hloop. unfold a_size, lenN. fold l. rewrite Hloop.
    assert (Hfil : filter pred l = kept').
    { rewrite <- (firstn_skipn rm' l) at 1. rewrite filter_app, (filter_none _ _ Hf). cbn [app]. symmetry; exact Hk. }
    destruct rm' as [|r0].
    + change (0 <? N.of_nat 0) with false. cbn [firstn app Nat.add].
      rewrite firstnN_of_nat. rewrite firstn_app, firstn_all, Nat.sub_diag. cbn [firstn]. rewrite app_nil_r. rewrite Hfil. reflexivity.
    + replace (0 <? N.of_nat (S r0)) with true by lia.
      unfold drop_at. change (firstnN 0 _) with (@nil N). cbn [app]. rewrite N.add_0_l.
      rewrite skipnN_of_nat. rewrite skipn_app, firstn_length. replace (Nat.min (S r0) (length l)) with (S r0) by lia.
      rewrite skipn_all2 by (rewrite firstn_length; lia). rewrite Nat.sub_diag. cbn [skipn app].
      replace (N.of_nat (S r0 + length kept') - N.of_nat (S r0)) with (N.of_nat (length kept')) by lia.
      rewrite firstnN_of_nat. rewrite firstn_app, firstn_all, Nat.sub_diag. cbn [firstn]. rewrite app_nil_r. rewrite Hfil. reflexivity.
Qed.
