(** C10 - CC_PQueue always yields a maximal element and conserves its contents.
    Only statements, each closed by [exact]; proofs live in PQueue/PQueueProofs.v and PQueueProofs2.v.

    [cmp_preorder cmp]: the user's comparator is a total preorder (totality and transitivity of
    [cmp a b >= 0]) with sign antisymmetry [cmp a b > 0 <-> cmp b a < 0].
    [pq_inv cmp lim s]: size <= capacity = allocated slots, the first [size] slots written, heap order,
    factor > 1, and the allocator-limit side conditions (see PQueueProofs2.v header): capacity*8 <= lim,
    lim * factor < 2^64, lim < 2^64 - 16.   [pq_led lim L0 s a]: the ledger holds exactly the queue's
    header and buffer, both with the queue's own tag, on top of what was live before the constructor.
    [pq_abs s]: the first [size] slots as a list (the held multiset, up to [Permutation]).
    [bag_step] / [bag_run]: the ideal bag whose pop/top yield any maximal element. *)
From Coq Require Import Permutation Sorted.
From CC Require Import Base.Prelude Base.Alloc Generated.Status.
From CC Require Import PQueue.PQueueModel PQueue.PQueueProofs PQueue.PQueueProofs2.
Local Open Scope N_scope.

(** The invariant, spelled out. *)
Theorem C10_inv_meaning : forall cmp lim s, pq_inv cmp lim s ->
  pq_size s <= pq_cap s /\ lenN (pq_buf s) = pq_cap s /\ 1 <= pq_cap s /\
  (forall i, i < pq_size s -> exists v, getN (pq_buf s) i = Some (Some v)) /\
  (forall i, 0 < i < pq_size s -> (cmp (sl (pq_buf s) ((i - 1) / 2)) (sl (pq_buf s) i) >= 0)%Z).
Proof. exact pqT_inv_meaning. Qed.
Print Assumptions C10_inv_meaning.

(** Every operation (push, pop, pop with NULL out, top), from every state satisfying the invariant -
    any size, capacity, factor, buffer contents - returns (no fault), preserves the invariant and the
    ledger shape, behaves as the ideal bag, and is inert on every non-OK status. *)
Theorem C10_heap_inv_preserved : forall cmp, cmp_preorder cmp -> forall lim L0 s o a,
  pq_inv cmp lim s -> pq_led lim L0 s a ->
  exists out s' a', pq_step cmp s o a = Ok (out, s', a') /\ pq_inv cmp lim s' /\ pq_led lim L0 s' a'.
Proof. exact pqT_heap_inv_preserved. Qed.
Print Assumptions C10_heap_inv_preserved.

Theorem C10_step_refines : forall cmp, cmp_preorder cmp -> forall lim L0 s o a,
  pq_inv cmp lim s -> pq_led lim L0 s a ->
  exists out s' a', pq_step cmp s o a = Ok (out, s', a') /\ pq_inv cmp lim s' /\ pq_led lim L0 s' a' /\
    bag_step cmp (pq_abs s) o out (pq_abs s') /\
    (out_ok out = false -> s' = s /\ live a' = live a).
Proof. exact pqT_step_refines. Qed.
Print Assumptions C10_step_refines.

(** top returns a held element that is maximal among the held elements. *)
Theorem C10_top_max : forall cmp, cmp_preorder cmp -> forall lim s, pq_inv cmp lim s -> 0 < pq_size s ->
  exists x, pq_top s = Ok (CC_OK, Some x) /\ In x (pq_abs s) /\ forall y, In y (pq_abs s) -> (cmp x y >= 0)%Z.
Proof. exact pqT_top_max. Qed.
Print Assumptions C10_top_max.

(** pop returns such a maximal element and removes exactly that one element. *)
Theorem C10_pop : forall cmp, cmp_preorder cmp -> forall lim s, pq_inv cmp lim s -> 0 < pq_size s ->
  exists x s', pq_pop cmp true s = Ok (CC_OK, Some x, s') /\ pq_inv cmp lim s' /\
    In x (pq_abs s) /\ (forall y, In y (pq_abs s) -> (cmp x y >= 0)%Z) /\
    Permutation (pq_abs s) (x :: pq_abs s') /\ pq_size s' = pq_size s - 1 /\
    pq_cap s' = pq_cap s /\ pq_blk s' = pq_blk s /\ pq_hdr s' = pq_hdr s.
Proof. exact pqT_pop. Qed.
Print Assumptions C10_pop.

(** push adds exactly the pushed element, or fails with ERR_ALLOC / ERR_MAX_CAPACITY changing nothing
    (neither the queue nor the set of live blocks): allocation-failure atomicity. *)
Theorem C10_push : forall cmp, cmp_preorder cmp -> forall lim L0 s x a, pq_inv cmp lim s -> pq_led lim L0 s a ->
  exists st s' a', pq_push cmp s x a = Ok (st, s', a') /\ pq_led lim L0 s' a' /\
    ((st = CC_OK /\ pq_inv cmp lim s' /\ Permutation (pq_abs s') (x :: pq_abs s) /\ pq_size s' = pq_size s + 1) \/
     ((st = CC_ERR_ALLOC \/ st = CC_ERR_MAX_CAPACITY) /\ s' = s /\ live a' = live a)).
Proof. exact pqT_push. Qed.
Print Assumptions C10_push.

Theorem C10_push_room : forall cmp, cmp_preorder cmp -> forall lim s x a, pq_inv cmp lim s -> pq_size s < pq_cap s ->
  exists s', pq_push cmp s x a = Ok (CC_OK, s', a) /\ pq_inv cmp lim s' /\ Permutation (pq_abs s') (x :: pq_abs s).
Proof. exact pqT_push_room. Qed.
Print Assumptions C10_push_room.

(** top / pop on an empty queue: ERR_OUT_OF_RANGE, full state unchanged. *)
Theorem C10_empty_inert : forall cmp lim s w, pq_inv cmp lim s -> pq_size s = 0 ->
  pq_top s = Ok (CC_ERR_OUT_OF_RANGE, None) /\ pq_pop cmp w s = Ok (CC_ERR_OUT_OF_RANGE, None, s) /\
  (forall a, pq_step cmp s PPop a = Ok (POut CC_ERR_OUT_OF_RANGE None, s, a)) /\
  (forall a, pq_step cmp s PTop a = Ok (POut CC_ERR_OUT_OF_RANGE None, s, a)).
Proof. exact pqT_empty_inert. Qed.
Print Assumptions C10_empty_inert.

(** Every history from the constructor - any capacity >= 1 (capacity 0 is refused by pq_new), any
    factor, any allocator plan - runs without fault and refines the ideal bag. *)
Theorem C10_run_refines : forall cmp, cmp_preorder cmp -> forall mem c n d a st s a' ops,
  c * 8 < W -> limit a < W - 16 -> limit a * fst (pq_factor n d) < W * snd (pq_factor n d) -> 0 < d ->
  pq_new mem c n d a = Ok (st, Some s, a') ->
  exists outs s' a'', pq_run cmp s a' ops = Ok (outs, s', a'') /\ pq_inv cmp (limit a) s' /\
    pq_led (limit a) (live a) s' a'' /\ bag_run cmp [] ops outs (pq_abs s').
Proof. exact pqT_run_refines. Qed.
Print Assumptions C10_run_refines.

(** The held multiset equals successful pushes minus successful pops. *)
Theorem C10_run_conserves : forall cmp, cmp_preorder cmp -> forall mem c n d a st s a' ops,
  c * 8 < W -> limit a < W - 16 -> limit a * fst (pq_factor n d) < W * snd (pq_factor n d) -> 0 < d ->
  pq_new mem c n d a = Ok (st, Some s, a') ->
  exists outs s' a'' unreported, pq_run cmp s a' ops = Ok (outs, s', a'') /\
    length unreported = popped_null ops outs /\
    Permutation (pq_abs s' ++ popped ops outs ++ unreported) (pushed_ok ops outs).
Proof. exact pqT_run_conserves. Qed.
Print Assumptions C10_run_conserves.

(** Popping until empty returns the held multiset in non-increasing order. *)
Theorem C10_drain_sorted : forall cmp, cmp_preorder cmp -> forall lim fuel s, pq_inv cmp lim s -> pq_size s <= N.of_nat fuel ->
  exists l s', pq_drain cmp fuel s = Ok (l, s') /\ pq_inv cmp lim s' /\ pq_size s' = 0 /\
    Permutation l (pq_abs s) /\ StronglySorted (fun x y => (cmp x y >= 0)%Z) l.
Proof. exact pqT_drain_sorted. Qed.
Print Assumptions C10_drain_sorted.

(** Any history, then popping until empty: every pushed element comes out exactly once. *)
Theorem C10_run_drain : forall cmp, cmp_preorder cmp -> forall mem c n d a st s a' ops,
  c * 8 < W -> limit a < W - 16 -> limit a * fst (pq_factor n d) < W * snd (pq_factor n d) -> 0 < d ->
  pq_new mem c n d a = Ok (st, Some s, a') ->
  exists outs s1 a1 unreported l s2,
    pq_run cmp s a' ops = Ok (outs, s1, a1) /\ pq_drain cmp (N.to_nat (pq_size s1)) s1 = Ok (l, s2) /\
    pq_size s2 = 0 /\ StronglySorted (fun x y => (cmp x y >= 0)%Z) l /\
    length unreported = popped_null ops outs /\
    Permutation (l ++ popped ops outs ++ unreported) (pushed_ok ops outs).
Proof. exact pqT_run_drain. Qed.
Print Assumptions C10_run_drain.

(** The explicit fuel of the sift-up loop, of heapify and of the drain never runs out (no fault of any kind). *)
Theorem C10_fuel_suffices : forall cmp, cmp_preorder cmp -> forall lim L0 s o a, pq_inv cmp lim s -> pq_led lim L0 s a ->
  (forall f, pq_step cmp s o a <> Fault f) /\ (forall f fuel, pq_size s <= N.of_nat fuel -> pq_drain cmp fuel s <> Fault f).
Proof. exact pqT_fuel_suffices. Qed.
Print Assumptions C10_fuel_suffices.

(** After any history, destroy / destroy_cb return the ledger to its state before the constructor;
    destroy_cb passes each held element to the callback exactly once. *)
Theorem C10_run_destroy : forall cmp, cmp_preorder cmp -> forall mem c n d a st s a' ops,
  c * 8 < W -> limit a < W - 16 -> limit a * fst (pq_factor n d) < W * snd (pq_factor n d) -> 0 < d ->
  pq_new mem c n d a = Ok (st, Some s, a') ->
  exists outs s1 a1 a2 a3, pq_run cmp s a' ops = Ok (outs, s1, a1) /\
    pq_destroy s1 a1 = Ok a2 /\ live a2 = live a /\
    pq_destroy_cb s1 a1 = Ok (pq_abs s1, a3) /\ live a3 = live a.
Proof. exact pqT_run_destroy. Qed.
Print Assumptions C10_run_destroy.

(** "Any growth settings": D11 of DESIGN.md.  When (size_t)(capacity * factor) <= capacity (capacity 1 with
    factor 3/2) a full queue can never grow although the allocator grants every request it is asked:
    the statement "push succeeds whenever the allocator grants" is refuted, and holds under the
    exact guard capacity < capacity*num/den, i.e. 1 <= capacity * (factor - 1). *)
Theorem C10_growth_stuck_refuted : forall cmp,
  exists s a x a', plan a = [] /\ pq_size s = 1 /\ pq_inv cmp (limit a) s /\ pq_led (limit a) [] s a /\
    pq_push cmp s x a = Ok (CC_ERR_ALLOC, s, a') /\ plan a' = [] /\ live a' = live a.
Proof. exact pq_growth_stuck_refuted. Qed.
Print Assumptions C10_growth_stuck_refuted.

Theorem C10_push_grows_partial : forall cmp, cmp_preorder cmp -> forall lim L0 s x a, pq_inv cmp lim s -> pq_led lim L0 s a ->
  pq_cap s < pq_cap s * pq_num s / pq_den s -> plan a = [] -> pq_cap s * pq_num s / pq_den s * 8 <= lim ->
  exists s' a', pq_push cmp s x a = Ok (CC_OK, s', a') /\ pq_inv cmp lim s' /\ Permutation (pq_abs s') (x :: pq_abs s).
Proof. exact pqT_push_grows_partial. Qed.
Print Assumptions C10_push_grows_partial.

Theorem C10_push_stuck : forall cmp, cmp_preorder cmp -> forall lim L0 s x a, pq_inv cmp lim s -> pq_led lim L0 s a ->
  pq_size s = pq_cap s -> pq_cap s * pq_num s / pq_den s <= pq_cap s ->
  exists a', pq_push cmp s x a = Ok (CC_ERR_ALLOC, s, a') /\ pq_led lim L0 s a' /\ live a' = live a.
Proof. exact pqT_push_stuck. Qed.
Print Assumptions C10_push_stuck.

(** Non-vacuity: the comparator "priority = value / 16" satisfies the hypotheses, and a state with
    duplicates, ties (50 and 49 have priority 3; 33 and 35 priority 2), spare and unwritten capacity
    satisfies the invariant. *)
Example C10_inv_nonvacuous :
  cmp_preorder cmp16 /\
  pq_inv cmp16 (2 ^ 40)
    {| pq_size := 5; pq_cap := 8; pq_num := 3; pq_den := 2;
       pq_buf := [Some 50; Some 49; Some 33; Some 17; Some 35; None; None; None];
       pq_hdr := 1; pq_blk := 2; pq_mem := Conf |}.
Proof.
  split; [exact cmp16_preorder|].
  constructor; cbn [pq_size pq_cap pq_num pq_den pq_buf]; unfold W; try lia.
  - reflexivity.
  - intros i Hi. assert (H : i = 0 \/ i = 1 \/ i = 2 \/ i = 3 \/ i = 4) by lia.
    destruct H as [ -> | [ -> | [ -> | [ -> | -> ] ] ] ]; vm_compute; eauto.
  - intros k Hk. assert (H : k = 1 \/ k = 2 \/ k = 3 \/ k = 4) by lia.
    destruct H as [ -> | [ -> | [ -> | -> ] ] ]; vm_compute; discriminate.
Qed.
