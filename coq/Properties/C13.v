(** C13 - CC_DynamicPool: disjoint in-bounds blocks, expansion, alignment, full release.
    A pointer is (page id, offset in the page payload). [dp_ok p a] = model invariant + the pool owns
    its header and pages in the ledger [a] + ledger ids are fresh. [dp_pre p] = what the documented
    contract asks of the configuration: a non-zero boundary in padded mode and a representable next
    page size. Statements only. *)
From CC Require Import Base.Prelude Base.Alloc Generated.Status.
From CC Require Import DPool.DPoolModel DPool.DPoolProofs DPool.DPoolLedger.
Local Open Scope N_scope.

(** malloc, every request size: a granted block lies in the newest page ([off + n <= page size]), above
    every live block of that page (disjoint; blocks of other pages are in other pages), earlier blocks
    and older pages are untouched (the block list only grows at the head, the page list is unchanged or
    extended by exactly one new page obtained from the pool's own allocator, and only when the pool is
    not fixed), padded blocks of non-zero size start on the boundary, and a refusal changes nothing. *)
Theorem C13_malloc : forall p n a,
  dp_inv p a -> dp_pre p ->
  exists r p' a', dp_malloc p n a = Ok (r, p', a') /\ dp_inv p' a' /\
    match r with
    | Some (pg, off) =>
        pg = top_page p' /\ off + n <= dp_top p' /\
        (exists len, n <= len /\ off + len <= dp_top p' /\ dp_blocks p' = (pg, off, len) :: dp_blocks p) /\
        (forall o l, In (pg, o, l) (dp_blocks p) -> o + l <= off) /\
        (dp_pages p' = dp_pages p \/
         (dp_fixed p = false /\ live a' = {| b_id := pg; b_tag := dp_mem p; b_bytes := (dp_top p * dp_num p) / dp_den p + PAGE_HDR |} :: live a /\
          dp_pages p' = (pg, (dp_top p * dp_num p) / dp_den p) :: dp_pages p)) /\
        (dp_packed p = false -> 0 < n -> off mod dp_boundary p = 0)
    | None => p' = p /\ live a' = live a
    end.
Proof. exact dp_malloc_spec. Qed.
Print Assumptions C13_malloc.

Theorem C13_calloc : forall p c n a,
  (W <= c * n -> dp_calloc p c n a = Ok (None, p, a)) /\
  (c * n < W -> dp_calloc p c n a = dp_malloc p (c * n) a).
Proof. exact dp_calloc_spec. Qed.
Print Assumptions C13_calloc.

(** All live blocks of any state satisfying the invariant: pairwise disjoint, each inside a page the pool owns. *)
Theorem C13_disjoint_inside : forall p a,
  dp_inv p a -> disj (dp_blocks p) /\
  (forall pg o l, In (pg, o, l) (dp_blocks p) -> exists sz, In (pg, sz) (dp_pages p) /\ o + l <= sz).
Proof. exact dp_blocks_disjoint. Qed.
Print Assumptions C13_disjoint_inside.

Theorem C13_fixed_bound : forall p a,
  dp_inv p a -> dp_fixed p = true ->
  (exists id, dp_pages p = [(id, dp_top p)]) /\
  (forall pg o l, In (pg, o, l) (dp_blocks p) -> pg = top_page p /\ o + l <= dp_top p) /\
  fold_right (fun b acc => snd b + acc) 0 (in_page (top_page p) (dp_blocks p)) <= dp_top p.
Proof. exact dp_fixed_bound. Qed.
Print Assumptions C13_fixed_bound.

Theorem C13_accounting : forall p a,
  dp_inv p a -> older_sum (dp_pages p) + dp_top p < W ->
  dp_used p = dp_free p + older_sum (dp_pages p) /\
  dp_free p + dp_free_bytes p = dp_top p /\
  fold_right (fun b acc => snd b + acc) 0 (in_page (top_page p) (dp_blocks p)) = dp_free p.
Proof. exact dp_accounting. Qed.
Print Assumptions C13_accounting.

Theorem C13_free_other : forall p page off,
  (page <> top_page p \/ off <> dp_high p) -> dp_free_ptr p page off = p.
Proof. exact dp_free_other. Qed.
Print Assumptions C13_free_other.

(** reset: exactly the oldest page remains, empty, with its original size; every newer page has been
    released once (no [Fault BadFree]) and is gone from the ledger; nothing else in the ledger moved. *)
Theorem C13_reset : forall p a,
  dp_inv p a -> dp_owns p a ->
  exists p' a', dp_reset p a = Ok (p', a') /\
    dp_pages p' = [last (dp_pages p) (0, 0)] /\ dp_top p' = snd (last (dp_pages p) (0, 0)) /\
    dp_free p' = 0 /\ dp_high p' = 0 /\ dp_blocks p' = [] /\
    (forall b, In b (live a') <-> In b (live a) /\ ~ In (b_id b) (map fst (removelast (dp_pages p)))) /\
    ids_nodup a' /\ next_id a' = next_id a /\ dp_hdr p' = dp_hdr p /\ dp_mem p' = dp_mem p /\
    dp_inv p' a'.
Proof. exact dp_reset_spec. Qed.
Print Assumptions C13_reset.

(** destroy: the header and every page are released exactly once; nothing else in the ledger moved. *)
Theorem C13_destroy : forall p a,
  dp_inv p a -> dp_owns p a ->
  exists a', dp_destroy p a = Ok a' /\
    (forall b, In b (live a') <-> In b (live a) /\ b_id b <> dp_hdr p /\ ~ In (b_id b) (map fst (dp_pages p))).
Proof. exact dp_destroy_spec. Qed.
Print Assumptions C13_destroy.

(** The constructor establishes, and every history of malloc/calloc/free/reset preserves, the invariant
    and the ownership record, with no fault, as long as the contract precondition holds at each step. *)
Theorem C13_new : forall mem fixed packed num den boundary size a st r a',
  ids_nodup a -> ids_bounded a -> size + PAGE_HDR < W ->
  dp_new mem fixed packed num den boundary size a = (st, r, a') ->
  match r with
  | Some p => st = CC_OK /\ dp_ok p a' /\ dp_top p = size /\ dp_free p = 0 /\ dp_blocks p = [] /\
              (exists id, dp_pages p = [(id, size)]) /\ dp_fixed p = fixed /\ dp_packed p = packed /\
              dp_num p = num /\ dp_den p = den /\ dp_boundary p = boundary /\ dp_mem p = mem
  | None => st = CC_ERR_ALLOC /\ live a' = live a
  end.
Proof. exact dp_new_spec. Qed.
Print Assumptions C13_new.

Theorem C13_run : forall ops p a,
  dp_ok p a -> pre_along p a ops -> exists p' a', dp_run p a ops = Ok (p', a') /\ dp_ok p' a'.
Proof. exact dp_run_ok. Qed.
Print Assumptions C13_run.

Example C13_inv_nonvacuous :
  dp_inv {| dp_fixed := false; dp_packed := false; dp_num := 3; dp_den := 2; dp_boundary := 4; dp_top := 24;
            dp_pages := [(5, 24); (2, 16)]; dp_high := 8; dp_free := 12; dp_hdr := 1; dp_mem := Conf;
            dp_blocks := [(5, 8, 4); (5, 0, 8); (2, 0, 16)] |}
         {| plan := []; limit := 100; next_id := 9; live := []; nreq := 0 |}.
Proof.
  constructor; cbn; unfold W; try lia; auto.
  - eauto.
  - left; eauto.
  - intros pg o l [E|[E|[E|[]]]]; inversion E; subst; [exists 24|exists 24|exists 16]; (split; [tauto|lia]).
  - repeat split; try tauto; intros o' l' H; repeat (destruct H as [H|H]; [inversion H; subst; lia|]); tauto.
  - repeat split; try tauto; intros o' l' H; repeat (destruct H as [H|H]; [inversion H; subst; lia|]); tauto.
  - intros id sz H; repeat (destruct H as [H|H]; [inversion H; subst; lia|]); tauto.
Qed.
