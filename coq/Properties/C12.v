(** C12 - CC_StaticPool hands out disjoint in-bounds blocks with exact accounting.
    Offsets are relative to the start of the caller's region (data_buf + offset), so "all offsets"
    is built in; the region size is any value below 2^64. Statements only. *)
From CC Require Import Base.Prelude Base.ListMem Generated.Guards SPool.SPoolModel SPool.SPoolProofs.
Local Open Scope N_scope.

(** malloc, for every request size in the size_t domain: a granted block is [free, free+n), inside the
    region, above every live block (hence disjoint from all of them); a request that does not fit
    returns NULL and changes nothing. *)
Theorem C12_malloc : forall p n,
  sp_inv p ->
  match sp_malloc p n with
  | (Some off, p') =>
      n <= sp_size p - sp_free p /\ off = sp_free p /\ off + n <= sp_size p /\
      (forall o l, In (o, l) (sp_blocks p) -> o + l <= off) /\
      sp_blocks p' = (off, n) :: sp_blocks p /\ sp_free p' = sp_free p + n /\ sp_mem p' = sp_mem p /\
      sp_size p' = sp_size p /\ sp_inv p'
  | (None, p') => sp_size p - sp_free p < n /\ p' = p
  end.
Proof. exact sp_malloc_spec. Qed.
Print Assumptions C12_malloc.

(** calloc: placement as malloc(count*size), the block reads as zero, bytes outside it are untouched,
    and a product that is not representable is refused without any change. *)
Theorem C12_calloc : forall p c n,
  sp_inv p ->
  match sp_calloc p c n with
  | (Some off, p') =>
      c * n < W /\ off = sp_free p /\ off + c * n <= sp_size p /\
      (forall o l, In (o, l) (sp_blocks p) -> o + l <= off) /\
      sp_blocks p' = (off, c * n) :: sp_blocks p /\ sp_free p' = sp_free p + c * n /\
      all_zero (sp_mem p') off (c * n) = true /\
      (forall i, i < off \/ off + c * n <= i -> getN (sp_mem p') i = getN (sp_mem p) i) /\
      sp_inv p'
  | (None, p') => p' = p
  end.
Proof. exact sp_calloc_spec. Qed.
Print Assumptions C12_calloc.

Theorem C12_free_other : forall p ptr, ptr <> sp_high p -> sp_free_ptr p ptr = p.
Proof. exact sp_free_other. Qed.
Print Assumptions C12_free_other.

Theorem C12_free_top_restores : forall p n off p',
  sp_inv p -> sp_malloc p n = (Some off, p') ->
  let p'' := sp_free_ptr p' off in
  sp_free p'' = sp_free p /\ sp_blocks p'' = sp_blocks p /\ sp_mem p'' = sp_mem p /\ sp_size p'' = sp_size p.
Proof. exact sp_malloc_free_restores. Qed.
Print Assumptions C12_free_top_restores.

Theorem C12_reset : forall p, sp_inv p -> sp_inv (sp_reset p) /\ sp_free (sp_reset p) = 0 /\ sp_blocks (sp_reset p) = [].
Proof. exact sp_reset_spec. Qed.
Print Assumptions C12_reset.

Theorem C12_accounting : forall p,
  sp_inv p -> sp_used p + sp_free_bytes p = sp_size p /\ sp_used p = sum_lens (sp_blocks p).
Proof. exact sp_accounting. Qed.
Print Assumptions C12_accounting.

(** Every history of malloc/calloc/free/reset/user writes from a fresh pool of any size: the live
    blocks are pairwise disjoint, inside the region, and the accounting identities hold. *)
Theorem C12_reachable : forall size mem ops,
  size < W -> lenN mem = size ->
  let p := sp_run (sp_new size mem) ops in
  disjoint_sorted (sp_blocks p) /\ (forall o l, In (o, l) (sp_blocks p) -> o + l <= size) /\
  sp_used p + sp_free_bytes p = size /\ sp_used p = sum_lens (sp_blocks p).
Proof. exact sp_reachable_blocks. Qed.
Print Assumptions C12_reachable.

Example C12_inv_nonvacuous :
  sp_inv {| sp_size := 16; sp_high := 8; sp_free := 12; sp_mem := repeatN 0 16; sp_blocks := [(8, 4); (0, 8)] |}.
Proof. constructor; cbn; unfold W; try lia; auto. left; eauto. Qed.
