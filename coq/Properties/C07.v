(** C07 - iterators traverse completely and in order; one-step mutation is safe.
    Per engine, the concrete iterator (index cursor; bucket cursor; zipper position with arrival direction; key
    cursor) is related to an ideal cursor over the abstract object: next yields the element under the cursor or
    ITER_END; a fresh iterator yields exactly the abstraction (sequence order for array/deque/stack/queue,
    ascending key order for the tree, some permutation for hash table and TST) at every fill level including
    exactly full and wrapped; remove / replace / add directly after a yield affect exactly that position and
    the rest of the traversal is exactly the not-yet-visited original elements; the reported index is the yielded
    element's position; zip iterators advance in lockstep and stop at the shorter container.
    CC_Deque's iter_add / zip_iter_add inherit the known cc_deque_add_at defect (D17): their lemma carries the
    model's branch guard.
    (statements printed by Coq from the lemmas they are proved by - tools/mkprop.py; statements only) *)
From Coq Require Import Permutation Sorted.
From CC Require Import Base.Prelude Base.Alloc Base.Ledger Generated.Status Generated.Constants Generated.Guards.
From CC Require Import Rbuf.RbufModel SPool.SPoolModel DPool.DPoolModel Array.ArrayModel Deque.DequeModel PQueue.PQueueModel Hash.HashModel Tst.TstModel Tree.TreeModel List_.ListModel SList.SListModel.
From CC Require Import Array.ArrayMore Array.ArrayZip Deque.DequeProofs5 Hash.HashProofsD List_.ListProofs11 List_.ListProofs7 SList.SListProofs6 SList.SListProofs8 Tree.TreeTheorems Tst.TstProofs3 Tst.TstProofs4.
Local Open Scope N_scope.

(** CC_Array / CC_Stack (the stack iterator is the array iterator) *)
Theorem C07_array_next :
  forall (a : arr) (it : aiter),
         a_size a < W ->
         ArrayModel.it_next a it =
         match getN (a_data a) (ArrayModel.it_index it) with
         | Some v =>
             (CC_OK, Some v, {| ArrayModel.it_index := wadd (ArrayModel.it_index it) 1; it_removed := false |})
         | None => (CC_ITER_END, None, it)
         end.
Proof. exact CC.Array.ArrayMore.it_next_spec. Qed.
Print Assumptions C07_array_next.

(** a traversal from cursor k yields exactly the elements from k on *)
Theorem C07_array_traversal :
  forall (fuel : nat) (a : arr) (it : aiter),
         a_size a < W ->
         (N.to_nat (a_size a - ArrayModel.it_index it) <= fuel)%nat ->
         it_collect fuel a it = skipnN (ArrayModel.it_index it) (a_data a).
Proof. exact CC.Array.ArrayMore.it_collect_spec. Qed.
Print Assumptions C07_array_traversal.

Theorem C07_array_fresh_complete :
  forall a : arr, a_size a < W -> it_collect (N.to_nat (a_size a)) a it_init = a_data a.
Proof. exact CC.Array.ArrayMore.it_fresh_complete. Qed.
Print Assumptions C07_array_fresh_complete.

(** remove after a yield: exactly that element; prefix and not-yet-visited suffix unchanged; cursor steps back *)
Theorem C07_array_remove :
  forall (a : arr) (it : aiter),
         a_size a < W ->
         it_removed it = false ->
         0 < ArrayModel.it_index it ->
         ArrayModel.it_index it <= a_size a ->
         exists v : N,
           getN (a_data a) (ArrayModel.it_index it - 1) = Some v /\
           it_remove a it =
           (CC_OK, Some v, ArrayModel.set_data a (removeN (a_data a) (ArrayModel.it_index it - 1)),
            {| ArrayModel.it_index := ArrayModel.it_index it - 1; it_removed := true |}) /\
           skipnN (ArrayModel.it_index it - 1) (removeN (a_data a) (ArrayModel.it_index it - 1)) =
           skipnN (ArrayModel.it_index it) (a_data a) /\
           firstnN (ArrayModel.it_index it - 1) (removeN (a_data a) (ArrayModel.it_index it - 1)) =
           firstnN (ArrayModel.it_index it - 1) (a_data a).
Proof. exact CC.Array.ArrayMore.it_remove_spec. Qed.
Print Assumptions C07_array_remove.

(** add after a yield: inserted at the cursor, cursor steps over it, suffix unchanged; refused growth: nothing moves *)
Theorem C07_array_add :
  forall (a : arr) (it : aiter) (x : N) (al : alloc_st),
         ArrayProofs.arr_inv a al ->
         ArrayProofs.lim_ok a al ->
         ArrayModel.it_index it <= a_size a ->
         exists (st : stat) (a' : arr) (it' : aiter) (al' : alloc_st),
           it_add a it x al = Ok (st, a', it', al') /\
           (st = CC_OK /\
            a_data a' = insertN (a_data a) (ArrayModel.it_index it) x /\
            ArrayModel.it_index it' = ArrayModel.it_index it + 1 /\
            it_removed it' = it_removed it /\
            ArrayProofs.arr_inv a' al' /\
            ArrayProofs.lim_ok a' al' /\
            skipnN (ArrayModel.it_index it') (a_data a') = skipnN (ArrayModel.it_index it) (a_data a) /\
            firstnN (ArrayModel.it_index it) (a_data a') = firstnN (ArrayModel.it_index it) (a_data a) \/
            st = CC_ERR_ALLOC /\ a' = a /\ it' = it /\ ArrayProofs.refused_once al al').
Proof. exact CC.Array.ArrayMore.it_add_spec. Qed.
Print Assumptions C07_array_add.

(** replace and index refer to the yielded element's position *)
Theorem C07_array_replace_index :
  forall (a : arr) (it : aiter) (x : N),
         a_size a < W ->
         0 < ArrayModel.it_index it ->
         ArrayModel.it_index it <= a_size a ->
         exists (old : N) (l' : list N),
           getN (a_data a) (ArrayModel.it_index it - 1) = Some old /\
           updN (a_data a) (ArrayModel.it_index it - 1) x = Some l' /\
           it_replace a it x = (CC_OK, Some old, ArrayModel.set_data a l') /\
           it_idx it = ArrayModel.it_index it - 1.
Proof. exact CC.Array.ArrayMore.it_replace_spec. Qed.
Print Assumptions C07_array_replace_index.

(** zip: lockstep, stops at the shorter array *)
Theorem C07_array_zip_next :
  forall (a1 a2 : arr) (it : aiter),
         a_size a1 < W ->
         a_size a2 < W ->
         ArrayModel.zip_next a1 a2 it =
         match getN (a_data a1) (ArrayModel.it_index it) with
         | Some x =>
             match getN (a_data a2) (ArrayModel.it_index it) with
             | Some y =>
                 (CC_OK, Some (x, y),
                  {| ArrayModel.it_index := wadd (ArrayModel.it_index it) 1; it_removed := false |})
             | None => (CC_ITER_END, None, it)
             end
         | None => (CC_ITER_END, None, it)
         end.
Proof. exact CC.Array.ArrayMore.zip_next_spec. Qed.
Print Assumptions C07_array_zip_next.

(** zip remove after a yield: exactly the yielded pair leaves both arrays, the traversal continues with the unvisited pairs *)
Theorem C07_array_zip_remove :
  forall (a1 a2 : arr) (it : aiter),
         a_size a1 < W ->
         a_size a2 < W ->
         it_removed it = false ->
         0 < ArrayModel.it_index it ->
         ArrayModel.it_index it <= a_size a1 ->
         ArrayModel.it_index it <= a_size a2 ->
         exists x y : N,
           getN (a_data a1) (ArrayModel.it_index it - 1) = Some x /\
           getN (a_data a2) (ArrayModel.it_index it - 1) = Some y /\
           ArrayModel.zip_remove a1 a2 it =
           (CC_OK, Some (x, y), ArrayModel.set_data a1 (removeN (a_data a1) (ArrayModel.it_index it - 1)),
            ArrayModel.set_data a2 (removeN (a_data a2) (ArrayModel.it_index it - 1)),
            {| ArrayModel.it_index := ArrayModel.it_index it - 1; it_removed := true |}) /\
           skipnN (ArrayModel.it_index it - 1) (removeN (a_data a1) (ArrayModel.it_index it - 1)) =
           skipnN (ArrayModel.it_index it) (a_data a1) /\
           skipnN (ArrayModel.it_index it - 1) (removeN (a_data a2) (ArrayModel.it_index it - 1)) =
           skipnN (ArrayModel.it_index it) (a_data a2) /\
           firstnN (ArrayModel.it_index it - 1) (removeN (a_data a1) (ArrayModel.it_index it - 1)) =
           firstnN (ArrayModel.it_index it - 1) (a_data a1) /\
           firstnN (ArrayModel.it_index it - 1) (removeN (a_data a2) (ArrayModel.it_index it - 1)) =
           firstnN (ArrayModel.it_index it - 1) (a_data a2).
Proof. exact CC.Array.ArrayZip.zip_remove_spec. Qed.
Print Assumptions C07_array_zip_remove.

(** zip remove twice without a new yield is refused *)
Theorem C07_array_zip_remove_twice :
  forall (a1 a2 : arr) (it : aiter),
         a_size a1 < W ->
         a_size a2 < W ->
         it_removed it = true ->
         ArrayModel.it_index it < a_size a1 ->
         ArrayModel.it_index it < a_size a2 ->
         0 < ArrayModel.it_index it ->
         ArrayModel.zip_remove a1 a2 it = (CC_ERR_VALUE_NOT_FOUND, None, a1, a2, it).
Proof. exact CC.Array.ArrayZip.zip_remove_twice. Qed.
Print Assumptions C07_array_zip_remove_twice.

(** zip replace after a yield: the yielded pair is overwritten in place in both arrays, nothing else changes *)
Theorem C07_array_zip_replace :
  forall (a1 a2 : arr) (it : aiter) (x y : N),
         a_size a1 < W ->
         a_size a2 < W ->
         0 < ArrayModel.it_index it ->
         ArrayModel.it_index it <= a_size a1 ->
         ArrayModel.it_index it <= a_size a2 ->
         exists (o1 o2 : N) (l1 l2 : list N),
           getN (a_data a1) (ArrayModel.it_index it - 1) = Some o1 /\
           getN (a_data a2) (ArrayModel.it_index it - 1) = Some o2 /\
           updN (a_data a1) (ArrayModel.it_index it - 1) x = Some l1 /\
           updN (a_data a2) (ArrayModel.it_index it - 1) y = Some l2 /\
           ArrayModel.zip_replace a1 a2 it x y =
           (CC_OK, Some (o1, o2), ArrayModel.set_data a1 l1, ArrayModel.set_data a2 l2) /\
           lenN l1 = a_size a1 /\
           lenN l2 = a_size a2 /\
           (forall j : N,
            j <> ArrayModel.it_index it - 1 -> getN l1 j = getN (a_data a1) j /\ getN l2 j = getN (a_data a2) j).
Proof. exact CC.Array.ArrayZip.zip_replace_spec. Qed.
Print Assumptions C07_array_zip_replace.

(** zip remove/replace before any yield or beyond the shorter array are refused and change nothing *)
Theorem C07_array_zip_range :
  forall (a1 a2 : arr) (it : aiter) (x y : N),
         a_size a1 < W ->
         a_size a2 < W ->
         ArrayModel.it_index it < W ->
         ArrayModel.it_index it = 0 \/ a_size a1 < ArrayModel.it_index it \/ a_size a2 < ArrayModel.it_index it ->
         ArrayModel.zip_remove a1 a2 it = (CC_ERR_OUT_OF_RANGE, None, a1, a2, it) /\
         ArrayModel.zip_replace a1 a2 it x y = (CC_ERR_OUT_OF_RANGE, None, a1, a2).
Proof. exact CC.Array.ArrayZip.zip_mutators_range. Qed.
Print Assumptions C07_array_zip_range.

(** zip add after a yield: both arrays receive their element at the cursor and the cursor steps over the pair; a refused allocation leaves both contents and the cursor unchanged *)
Theorem C07_array_zip_add :
  forall (a1 a2 : arr) (it : aiter) (x y : N) (al : alloc_st),
         ArrayProofs.arr_inv a1 al ->
         ArrayProofs.lim_ok a1 al ->
         ArrayProofs.arr_inv a2 al ->
         ArrayProofs.lim_ok a2 al ->
         a_blk a1 <> a_hdr a2 ->
         a_blk a1 <> a_blk a2 ->
         a_blk a2 <> a_hdr a1 ->
         ArrayModel.it_index it <= a_size a1 ->
         ArrayModel.it_index it <= a_size a2 ->
         exists (st : stat) (b1 b2 : arr) (it' : aiter) (al' : alloc_st),
           ArrayModel.zip_add a1 a2 it x y al = Ok (st, b1, b2, it', al') /\
           (st = CC_OK /\
            a_data b1 = insertN (a_data a1) (ArrayModel.it_index it) x /\
            a_data b2 = insertN (a_data a2) (ArrayModel.it_index it) y /\
            ArrayModel.it_index it' = ArrayModel.it_index it + 1 /\
            it_removed it' = it_removed it /\ ArrayProofs.arr_inv b1 al' /\ ArrayProofs.arr_inv b2 al' \/
            st = CC_ERR_ALLOC /\
            a_data b1 = a_data a1 /\
            a_data b2 = a_data a2 /\ it' = it /\ ArrayProofs.arr_inv b1 al' /\ ArrayProofs.arr_inv b2 al').
Proof. exact CC.Array.ArrayZip.zip_add_spec. Qed.
Print Assumptions C07_array_zip_add.

(** CC_Deque / CC_Queue, every layout *)
Theorem C07_deque_next :
  forall (d : deque) (l : list N) (it : dq_iter),
         DequeProofs.dq_wf d -> DequeProofs.repr d l -> dq_iter_next d it = Ok (spec_iter_next l it).
Proof. exact CC.Deque.DequeProofs5.iter_next_refines. Qed.
Print Assumptions C07_deque_next.

(** including exactly full and wrapped deques *)
Theorem C07_deque_fresh_complete :
  forall d : deque,
         DequeProofs.dq_inv d ->
         iter_collect d dq_iter_init (S (N.to_nat (dq_size d))) =
         Ok
           (DequeProofs.dq_abs d, CC_ITER_END, {| DequeModel.it_index := dq_size d; it_last_removed := false |}).
Proof. exact CC.Deque.DequeProofs5.iter_fresh_complete. Qed.
Print Assumptions C07_deque_fresh_complete.

Theorem C07_deque_remove :
  forall (d : deque) (l : list N) (it : dq_iter),
         DequeProofs.dq_wf d ->
         DequeProofs.repr d l ->
         let (p, it') := spec_iter_remove l it in
         let (p0, l') := p in
         let (st, out) := p0 in
         exists d' : deque,
           dq_iter_remove d it = Ok (st, out, d', it') /\
           DequeProofs.dq_wf d' /\ DequeProofs.repr d' l' /\ DequeProofs2.frame d d' /\ (st <> CC_OK -> d' = d).
Proof. exact CC.Deque.DequeProofs5.iter_remove_refines. Qed.
Print Assumptions C07_deque_remove.

Theorem C07_deque_replace :
  forall (d : deque) (l : list N) (it : dq_iter) (x : N),
         DequeProofs.dq_wf d ->
         DequeProofs.repr d l ->
         let (p, l') := spec_iter_replace l it x in
         let (st, out) := p in
         exists d' : deque,
           dq_iter_replace d it x = Ok (st, out, d') /\
           DequeProofs.dq_wf d' /\ DequeProofs.repr d' l' /\ DequeProofs2.frame d d' /\ (st <> CC_OK -> d' = d).
Proof. exact CC.Deque.DequeProofs5.iter_replace_refines. Qed.
Print Assumptions C07_deque_replace.

(** under the add_at branch guard (known finding D17 otherwise) *)
Theorem C07_deque_add_partial :
  forall (d : deque) (l : list N) (it : dq_iter) (x : N) (a : alloc_st),
         DequeProofs.dq_wf d ->
         DequeProofs.repr d l ->
         DequeProofs.owns d a ->
         add_at_branch_ok d (DequeModel.it_index it) = true ->
         exists (st : stat) (d' : deque) (it' : dq_iter) (a' : alloc_st),
           dq_iter_add d it x a = Ok (st, d', it', a') /\
           (let (p, it0) := spec_iter_add l it x in
            let (st0, l') := p in
            st = st0 /\
            it' = it0 /\
            (st0 = CC_OK -> DequeProofs.dq_wf d' /\ DequeProofs.repr d' l' /\ DequeProofs.owns d' a') /\
            (st0 <> CC_OK -> d' = d /\ a' = a) \/
            st = CC_ERR_ALLOC /\ st0 = CC_OK /\ it' = it /\ d' = d /\ live a' = live a).
Proof. exact CC.Deque.DequeProofs5.iter_add_refines. Qed.
Print Assumptions C07_deque_add_partial.

Theorem C07_deque_index :
  forall it : dq_iter,
         0 < DequeModel.it_index it ->
         DequeModel.it_index it < W -> dq_iter_index it = DequeModel.it_index it - 1.
Proof. exact CC.Deque.DequeProofs5.iter_index_spec. Qed.
Print Assumptions C07_deque_index.

Theorem C07_deque_zip_next :
  forall (d1 : deque) (l1 : list N) (d2 : deque) (l2 : list N) (it : dq_iter),
         DequeProofs.dq_wf d1 ->
         DequeProofs.repr d1 l1 ->
         DequeProofs.dq_wf d2 ->
         DequeProofs.repr d2 l2 ->
         dq_zip_next d1 d2 it =
         Ok
           match nthN l1 (DequeModel.it_index it) with
           | Some x =>
               match nthN l2 (DequeModel.it_index it) with
               | Some y =>
                   (CC_OK, Some (x, y),
                    {| DequeModel.it_index := DequeModel.it_index it + 1; it_last_removed := false |})
               | None => (CC_ITER_END, None, it)
               end
           | None => (CC_ITER_END, None, it)
           end.
Proof. exact CC.Deque.DequeProofs5.zip_next_refines. Qed.
Print Assumptions C07_deque_zip_next.

Theorem C07_deque_zip_remove :
  forall (d1 : deque) (l1 : list N) (d2 : deque) (l2 : list N) (it : dq_iter),
         DequeProofs.dq_wf d1 ->
         DequeProofs.repr d1 l1 ->
         DequeProofs.dq_wf d2 ->
         DequeProofs.repr d2 l2 ->
         let i := wsub (DequeModel.it_index it) 1 in
         if it_last_removed it
         then dq_zip_remove d1 d2 it = Ok (CC_ERR_VALUE_NOT_FOUND, None, d1, d2, it)
         else
          match getN l1 i with
          | Some x =>
              match getN l2 i with
              | Some y =>
                  exists d1' d2' : deque,
                    dq_zip_remove d1 d2 it =
                    Ok (CC_OK, Some (x, y), d1', d2', {| DequeModel.it_index := i; it_last_removed := true |}) /\
                    DequeProofs.dq_wf d1' /\
                    DequeProofs.repr d1' (del l1 i) /\
                    DequeProofs2.frame d1 d1' /\
                    DequeProofs.dq_wf d2' /\ DequeProofs.repr d2' (del l2 i) /\ DequeProofs2.frame d2 d2'
              | None => dq_zip_remove d1 d2 it = Ok (CC_ERR_OUT_OF_RANGE, None, d1, d2, it)
              end
          | None => dq_zip_remove d1 d2 it = Ok (CC_ERR_OUT_OF_RANGE, None, d1, d2, it)
          end.
Proof. exact CC.Deque.DequeProofs5.zip_remove_refines. Qed.
Print Assumptions C07_deque_zip_remove.

Theorem C07_deque_zip_replace :
  forall (d1 : deque) (l1 : list N) (d2 : deque) (l2 : list N) (it : dq_iter) (e1 e2 : N),
         DequeProofs.dq_wf d1 ->
         DequeProofs.repr d1 l1 ->
         DequeProofs.dq_wf d2 ->
         DequeProofs.repr d2 l2 ->
         let i := wsub (DequeModel.it_index it) 1 in
         match getN l1 i with
         | Some x =>
             match getN l2 i with
             | Some y =>
                 exists d1' d2' : deque,
                   dq_zip_replace d1 d2 it e1 e2 = Ok (CC_OK, Some (x, y), d1', d2') /\
                   DequeProofs.dq_wf d1' /\
                   DequeProofs.repr d1' (repl l1 i e1) /\
                   DequeProofs2.frame d1 d1' /\
                   DequeProofs.dq_wf d2' /\ DequeProofs.repr d2' (repl l2 i e2) /\ DequeProofs2.frame d2 d2'
             | None => dq_zip_replace d1 d2 it e1 e2 = Ok (CC_ERR_OUT_OF_RANGE, None, d1, d2)
             end
         | None => dq_zip_replace d1 d2 it e1 e2 = Ok (CC_ERR_OUT_OF_RANGE, None, d1, d2)
         end.
Proof. exact CC.Deque.DequeProofs5.zip_replace_refines. Qed.
Print Assumptions C07_deque_zip_replace.

(** CC_HashTable / CC_HashSet: some order, each entry once *)
Theorem C07_hashtable_next :
  forall (t : htable) (it : hiter) (rem : list HashModel.entry),
         lenN (ht_buckets t) = ht_cap t ->
         ht_cap t < W - 1 ->
         ids_ok (ht_buckets t) ->
         iter_pos (ht_buckets t) it rem ->
         match rem with
         | [] => ht_iter_next t it = Ok (CC_ITER_END, None, it)
         | e :: r =>
             exists it' : hiter,
               ht_iter_next t it = Ok (CC_OK, Some (HashProofsB.kv e), it') /\
               iter_pos (ht_buckets t) it' r /\ HashModel.it_prev it' = e_id e
         end.
Proof. exact CC.Hash.HashProofsD.iter_next_spec. Qed.
Print Assumptions C07_hashtable_next.

(** removal through the iterator deletes exactly the yielded key; the rest of the traversal is unaffected *)
Theorem C07_hashtable_remove :
  forall (hash : N -> N) (keq : N -> N -> bool),
         (forall a : N, a <> 0 -> keq a a = true) ->
         (forall a b : N, a <> 0 -> b <> 0 -> keq a b = keq b a) ->
         (forall a b c : N, a <> 0 -> b <> 0 -> c <> 0 -> keq a b = true -> keq b c = true -> keq a c = true) ->
         (forall a b : N, a <> 0 -> b <> 0 -> keq a b = true -> hash a = hash b) ->
         forall (L0 : list block) (t : htable) (a : alloc_st) (it : hiter) (vis : list HashModel.entry)
           (e : HashModel.entry) (r : list HashModel.entry),
         HashProofsB.ht_inv hash keq L0 t a ->
         HashProofsB.entries t = vis ++ e :: r ->
         iter_pos (ht_buckets t) it r ->
         HashModel.it_prev it = e_id e ->
         exists (t' : htable) (a' : alloc_st),
           ht_iter_remove hash keq t it a = Ok (CC_OK, Some (e_val e), t', a') /\
           HashProofsB.ht_inv hash keq L0 t' a' /\
           HashProofsB.entries t' = vis ++ r /\
           iter_pos (ht_buckets t') it r /\
           ht_cap t' = ht_cap t /\
           ht_thr t' = ht_thr t /\
           ht_num t' = ht_num t /\
           ht_den t' = ht_den t /\ ht_mem t' = ht_mem t /\ plan a' = plan a /\ limit a' = limit a.
Proof. exact CC.Hash.HashProofsD.iter_remove_spec. Qed.
Print Assumptions C07_hashtable_remove.

Theorem C07_hashtable_traversal :
  forall (hash : N -> N) (keq : N -> N -> bool),
         (forall a : N, a <> 0 -> keq a a = true) ->
         (forall a b : N, a <> 0 -> b <> 0 -> keq a b = keq b a) ->
         (forall a b c : N, a <> 0 -> b <> 0 -> c <> 0 -> keq a b = true -> keq b c = true -> keq a c = true) ->
         (forall a b : N, a <> 0 -> b <> 0 -> keq a b = true -> hash a = hash b) ->
         forall (L0 : list block) (t : htable) (a : alloc_st) (rm : list N),
         HashProofsB.ht_inv hash keq L0 t a ->
         exists (t' : htable) (a' : alloc_st),
           ht_iter_all hash keq t rm a =
           Ok
             (HashProofsB.ht_abs t,
              map (fun _ : N * N => CC_OK) (filter (fun kv : N * N => inrm rm (fst kv)) (HashProofsB.ht_abs t)),
              t', a') /\
           HashProofsB.ht_inv hash keq L0 t' a' /\
           HashProofsB.ht_abs t' = filter (fun kv : N * N => negb (inrm rm (fst kv))) (HashProofsB.ht_abs t) /\
           ht_cap t' = ht_cap t /\
           ht_thr t' = ht_thr t /\
           ht_num t' = ht_num t /\
           ht_den t' = ht_den t /\
           ht_mem t' = ht_mem t /\ plan a' = plan a /\ limit a' = limit a /\ ht_size t' <= ht_size t.
Proof. exact CC.Hash.HashProofsD.ht_iter_all_spec. Qed.
Print Assumptions C07_hashtable_traversal.

(** CC_TSTTable: pre-order automaton, each key once *)
Theorem C07_tst_next :
  forall (t : tst) (it : TstModel.iter) (R : list entry),
         it_valid t it R ->
         match R with
         | [] =>
             exists it' : TstModel.iter,
               tst_iter_next t it = Ok (CC_ITER_END, None, it') /\
               it_valid t it' [] /\ TstModel.it_cur it' = None /\ TstModel.it_next it' = None
         | e :: R' =>
             exists (it' : TstModel.iter) (pe : list TstModel.dir),
               tst_iter_next t it = Ok (CC_OK, entry_out (Some e), it') /\
               it_valid t it' R' /\
               TstModel.it_cur it' = Some pe /\
               (exists (id c : N) (l m r : tst), node_at t (rev pe) = Some (Node id c (Some e) l m r))
         end.
Proof. exact CC.Tst.TstProofs3.iter_next_spec. Qed.
Print Assumptions C07_tst_next.

Theorem C07_tst_remove :
  forall (base : list N) (s : table) (a : alloc_st) (m : list (key * N)) (it : TstModel.iter)
           (done : list entry) (e : entry) (R' : list entry) (pe : list TstModel.dir) 
           (id c : N) (l mm r : tst),
         TstProofs2.tst_inv base s a ->
         TstProofs2.tst_rel (t_root s) m ->
         it_ok (t_root s) it (done ++ [e]) R' ->
         TstModel.it_cur it = Some pe ->
         node_at (t_root s) (rev pe) = Some (Node id c (Some e) l mm r) ->
         exists (s' : table) (it2 : TstModel.iter) (a' : alloc_st),
           tst_iter_remove s it a = Ok (CC_OK, Some (TstProofs1.eval e), s', it2, a') /\
           TstProofs2.tst_inv base s' a' /\
           TstProofs2.tst_rel (t_root s') (spec_del m (TstProofs1.ekey e)) /\
           assoc m (TstProofs1.ekey e) = Some (TstProofs1.eval e) /\
           t_size s' = t_size s - 1 /\
           0 < t_size s /\
           TstProofs1.entries (t_root s') = done ++ R' /\
           match R' with
           | [] =>
               exists it3 : TstModel.iter,
                 tst_iter_next (t_root s') it2 = Ok (CC_ITER_END, None, it3) /\
                 it_ok (t_root s') it3 done [] /\ TstModel.it_cur it3 = None
           | e2 :: R'' =>
               exists (it3 : TstModel.iter) (pe2 : list TstModel.dir),
                 tst_iter_next (t_root s') it2 = Ok (CC_OK, entry_out (Some e2), it3) /\
                 it_ok (t_root s') it3 (done ++ [e2]) R'' /\
                 TstModel.it_cur it3 = Some pe2 /\
                 (exists (id2 c2 : N) (l2 m2 r2 : tst),
                    node_at (t_root s') (rev pe2) = Some (Node id2 c2 (Some e2) l2 m2 r2))
           end.
Proof. exact CC.Tst.TstProofs4.iter_remove_spec. Qed.
Print Assumptions C07_tst_remove.

Theorem C07_tst_enumeration :
  forall (base : list N) (s : table) (a : alloc_st) (m : list (key * N)),
         TstProofs2.tst_inv base s a ->
         TstProofs2.tst_rel (t_root s) m ->
         exists l : list (key * N),
           tst_enum (t_root s) = Ok l /\ Permutation l m /\ NoDup (map fst l) /\ lenN l = t_size s.
Proof. exact CC.Tst.TstProofs3.tst_enumeration. Qed.
Print Assumptions C07_tst_enumeration.

(** CC_TreeTable / CC_TreeSet: every key once, strictly ascending, then ITER_END *)
Theorem C07_treetable_inorder :
  forall cmp : N -> N -> comparison,
         cmp_ok cmp ->
         forall (s : ttable) (a : alloc_st),
         TreeProofsTable.tt_inv cmp s a ->
         let l := elems (tt_tree s) in
         StronglySorted (fun x y : N => cmp x y = Lt) (map fst l) /\
         tt_step cmp s a OForeachKey = Ok (mk_out CC_OK (map fst l) 0, s, a) /\
         tt_step cmp s a OForeachValue = Ok (mk_out CC_OK (map snd l) 0, s, a) /\
         (exists (outs : list tt_out) (s' : ttable) (a' : alloc_st),
            tt_run cmp s a (OIterInit :: repeat OIterNext (length l) ++ [OIterNext]) = Ok (outs, s', a') /\
            map (fun o : tt_out => (o_st o, o_vals o)) outs =
            (CC_OK, []) :: map (fun b : N * N => (CC_OK, [fst b; snd b])) l ++ [(CC_ITER_END, [])] /\
            TreeProofsTable.tt_inv cmp s' a' /\ elems (tt_tree s') = l).
Proof. exact CC.Tree.TreeTheorems.T_inorder. Qed.
Print Assumptions C07_treetable_inorder.

Theorem C07_treetable_remove :
  forall cmp : N -> N -> comparison,
         cmp_ok cmp ->
         forall (s : ttable) (a : alloc_st) (k : N) (nx : option N),
         TreeProofsTable.tt_inv cmp s a ->
         N.of_nat (tsize (tt_tree s)) + 1 < W ->
         tt_iter s = Some {| it_cur := CNode k; TreeModel.it_next := nx |} ->
         exists (v : N) (s' : ttable) (a' : alloc_st),
           assoc_eqb k (elems (tt_tree s)) = Some (k, v) /\
           tt_step cmp s a OIterRemove = Ok (mk_out CC_OK [v] 0, s', a') /\
           TreeProofsTable.tt_inv cmp s' a' /\
           elems (tt_tree s') = remove_eqb k (elems (tt_tree s)) /\
           tt_iter s' = Some {| it_cur := CNull; TreeModel.it_next := nx |} /\
           tt_step cmp s' a' OIterRemove = Ok (mk_out CC_ERR_KEY_NOT_FOUND [] 0, s', a').
Proof. exact CC.Tree.TreeTheorems.T_iter_remove. Qed.
Print Assumptions C07_treetable_remove.

(** CC_List forward iterator *)
Theorem C07_list_next_yield :
  forall (s : clist) (it : iter) (done : list (N * N)) (x d : N) (t : list (N * N)),
         ListHeap.lrep s (done ++ (x, d) :: t) ->
         it_pos it done ((x, d) :: t) ->
         exists it' : iter,
           iter_next s it = Ok (CC_OK, d, it') /\ it_pos it' (done ++ [(x, d)]) t /\ it_last it' = x.
Proof. exact CC.List_.ListProofs7.iter_next_yield. Qed.
Print Assumptions C07_list_next_yield.

Theorem C07_list_next_end :
  forall (s : clist) (it : iter) (done : list (N * N)),
         it_pos it done [] -> iter_next s it = Ok (CC_ITER_END, 0, it).
Proof. exact CC.List_.ListProofs7.iter_next_end. Qed.
Print Assumptions C07_list_next_end.

Theorem C07_list_fresh_complete :
  forall (s : clist) (l : list (N * N)),
         ListHeap.lrep s l -> iter_drain (S (length l)) s (iter_init s) = Ok (map snd l, CC_ITER_END).
Proof. exact CC.List_.ListProofs7.iter_fresh_complete. Qed.
Print Assumptions C07_list_fresh_complete.

Theorem C07_list_index :
  forall (it : iter) (done : list (N * N)) (x d : N) (rest : list (N * N)),
         it_pos it (done ++ [(x, d)]) rest -> lenN (done ++ [(x, d)]) < W -> iter_index it = lenN done.
Proof. exact CC.List_.ListProofs7.iter_index_spec. Qed.
Print Assumptions C07_list_index.

Theorem C07_list_replace :
  forall (s : clist) (it : iter) (done : list (N * N)) (x d : N) (rest : list (N * N)) (v : N),
         ListHeap.lrep s (done ++ (x, d) :: rest) ->
         it_last it = x ->
         exists s' : clist,
           iter_replace s it v = Ok (CC_OK, d, s') /\
           ListHeap.lrep s' (done ++ (x, v) :: rest) /\ ListProofs1.same_hdr s s'.
Proof. exact CC.List_.ListProofs7.iter_replace_spec. Qed.
Print Assumptions C07_list_replace.

Theorem C07_list_remove :
  forall (s : clist) (it : iter) (done : list (N * N)) (x d : N) (rest : list (N * N)) 
           (a : alloc_st) (F : list block),
         ListHeap.lrep s (done ++ (x, d) :: rest) ->
         ListProofs1.lown a s (done ++ (x, d) :: rest) F ->
         it_pos it (done ++ [(x, d)]) rest ->
         it_last it = x ->
         lenN (done ++ [(x, d)]) < W ->
         exists (s' : clist) (it' : iter) (a' : alloc_st),
           iter_remove s it a = Ok (CC_OK, d, s', it', a') /\
           ListHeap.lrep s' (done ++ rest) /\
           ListProofs1.lown a' s' (done ++ rest) F /\
           it_pos it' done rest /\ it_last it' = 0 /\ ListProofs1.same_hdr s s' /\ ListHeap.aframe a a'.
Proof. exact CC.List_.ListProofs7.iter_remove_spec. Qed.
Print Assumptions C07_list_remove.

(** add after a yield (any number of adds: the last added comes first), tail kept correct *)
Theorem C07_list_add :
  forall (s : clist) (it : iter) (done : list (N * N)) (x d : N) (added rest : list (N * N))
           (a : alloc_st) (F : list block) (v : N),
         ListHeap.lrep s (done ++ (x, d) :: added ++ rest) ->
         ListProofs1.lown a s (done ++ (x, d) :: added ++ rest) F ->
         it_pos it (done ++ (x, d) :: added) rest ->
         it_last it = x ->
         let (o, a1) := alloc (l_mem s) NODE_BYTES a in
         match o with
         | Some id =>
             exists (s' : clist) (it' : iter),
               iter_add s it v a = Ok (CC_OK, s', it', a1) /\
               ListHeap.lrep s' (done ++ (x, d) :: (id, v) :: added ++ rest) /\
               ListProofs1.lown a1 s' (done ++ (x, d) :: (id, v) :: added ++ rest) F /\
               it_pos it' (done ++ (x, d) :: (id, v) :: added) rest /\
               it_last it' = x /\ ListProofs1.same_hdr s s' /\ ListHeap.aframe a a1
         | None =>
             iter_add s it v a = Ok (CC_ERR_ALLOC, s, it, a1) /\
             ListProofs1.lown a1 s (done ++ (x, d) :: added ++ rest) F /\
             live a1 = live a /\ ListHeap.aframe a a1 /\ (plan a <> [] \/ limit a < NODE_BYTES)
         end.
Proof. exact CC.List_.ListProofs7.iter_add_spec. Qed.
Print Assumptions C07_list_add.

(** CC_List descending iterator: the exact reverse *)
Theorem C07_list_diter_fresh_complete :
  forall (s : clist) (l : list (N * N)),
         ListHeap.lrep s l ->
         lenN l < W -> diter_drain (S (length l)) s (diter_init s) = Ok (rev (map snd l), CC_ITER_END).
Proof. exact CC.List_.ListProofs7.diter_fresh_complete. Qed.
Print Assumptions C07_list_diter_fresh_complete.

Theorem C07_list_diter_index :
  forall (it : iter) (rest done : list (N * N)), dit_pos it rest done -> diter_index it = lenN rest.
Proof. exact CC.List_.ListProofs7.diter_index_spec. Qed.
Print Assumptions C07_list_diter_index.

Theorem C07_list_diter_remove :
  forall (s : clist) (it : iter) (rest : list (N * N)) (x d : N) (done : list (N * N)) 
           (a : alloc_st) (F : list block),
         ListHeap.lrep s (rest ++ (x, d) :: done) ->
         ListProofs1.lown a s (rest ++ (x, d) :: done) F ->
         dit_pos it rest ((x, d) :: done) ->
         it_last it = x ->
         exists (s' : clist) (it' : iter) (a' : alloc_st),
           diter_remove s it a = Ok (CC_OK, d, s', it', a') /\
           ListHeap.lrep s' (rest ++ done) /\
           ListProofs1.lown a' s' (rest ++ done) F /\
           dit_pos it' rest done /\ it_last it' = 0 /\ ListProofs1.same_hdr s s' /\ ListHeap.aframe a a'.
Proof. exact CC.List_.ListProofs7.diter_remove_spec. Qed.
Print Assumptions C07_list_diter_remove.

Theorem C07_list_diter_add :
  forall (s : clist) (it : iter) (rest : list (N * N)) (x d : N) (done : list (N * N)) 
           (a : alloc_st) (F : list block) (v : N),
         ListHeap.lrep s (rest ++ (x, d) :: done) ->
         ListProofs1.lown a s (rest ++ (x, d) :: done) F ->
         dit_pos it rest ((x, d) :: done) ->
         it_last it = x ->
         let (o, a1) := alloc (l_mem s) NODE_BYTES a in
         match o with
         | Some id =>
             exists (s' : clist) (it' : iter),
               diter_add s it v a = Ok (CC_OK, s', it', a1) /\
               ListHeap.lrep s' (rest ++ (id, v) :: (x, d) :: done) /\
               ListProofs1.lown a1 s' (rest ++ (id, v) :: (x, d) :: done) F /\
               dit_pos it' rest ((id, v) :: (x, d) :: done) /\
               it_last it' = id /\ ListProofs1.same_hdr s s' /\ ListHeap.aframe a a1
         | None =>
             diter_add s it v a = Ok (CC_ERR_ALLOC, s, it, a1) /\
             ListProofs1.lown a1 s (rest ++ (x, d) :: done) F /\
             live a1 = live a /\ ListHeap.aframe a a1 /\ (plan a <> [] \/ limit a < NODE_BYTES)
         end.
Proof. exact CC.List_.ListProofs7.diter_add_spec. Qed.
Print Assumptions C07_list_diter_add.

(** CC_List zip iterator: lockstep *)
Theorem C07_list_zip_next_yield :
  forall (s1 s2 : clist) (z : ziter) (done1 : list (N * N)) (x1 d1 : N) (t1 done2 : list (N * N))
           (x2 d2 : N) (t2 : list (N * N)),
         ListHeap.lrep s1 (done1 ++ (x1, d1) :: t1) ->
         ListHeap.lrep s2 (done2 ++ (x2, d2) :: t2) ->
         zip_pos z done1 ((x1, d1) :: t1) done2 ((x2, d2) :: t2) ->
         exists z' : ziter,
           zip_next s1 s2 z = Ok (CC_OK, d1, d2, z') /\
           zip_pos z' (done1 ++ [(x1, d1)]) t1 (done2 ++ [(x2, d2)]) t2 /\ z1_last z' = x1 /\ z2_last z' = x2.
Proof. exact CC.List_.ListProofs7.zip_next_yield. Qed.
Print Assumptions C07_list_zip_next_yield.

(** stops at the shorter list *)
Theorem C07_list_zip_fresh_complete :
  forall (s1 : clist) (l1 : list (N * N)) (s2 : clist) (l2 : list (N * N)),
         ListHeap.lrep s1 l1 ->
         ListHeap.lrep s2 l2 ->
         zip_drain (S (Nat.min (length l1) (length l2))) s1 s2 (zip_init s1 s2) =
         Ok (combine (map snd l1) (map snd l2), CC_ITER_END).
Proof. exact CC.List_.ListProofs7.zip_fresh_complete. Qed.
Print Assumptions C07_list_zip_fresh_complete.

(** zip replace after a yield: the yielded pair is overwritten in place, both lists keep their nodes, order and size *)
Theorem C07_list_zip_replace :
  forall (s1 s2 : clist) (z : ziter) (done1 : list (N * N)) (x1 d1 : N) (rest1 done2 : list (N * N))
           (x2 d2 : N) (rest2 : list (N * N)) (e1 e2 : N),
         ListHeap.lrep s1 (done1 ++ (x1, d1) :: rest1) ->
         ListHeap.lrep s2 (done2 ++ (x2, d2) :: rest2) ->
         z1_last z = x1 ->
         z2_last z = x2 ->
         exists s1' s2' : clist,
           zip_replace s1 s2 z e1 e2 = Ok (CC_OK, d1, d2, s1', s2') /\
           ListHeap.lrep s1' (done1 ++ (x1, e1) :: rest1) /\
           ListHeap.lrep s2' (done2 ++ (x2, e2) :: rest2) /\
           ListProofs1.same_hdr s1 s1' /\ ListProofs1.same_hdr s2 s2'.
Proof. exact CC.List_.ListProofs11.zip_replace_spec. Qed.
Print Assumptions C07_list_zip_replace.

(** no yielded pair (before the first next, after a remove): refused, nothing changes *)
Theorem C07_list_zip_replace_none :
  forall (s1 s2 : clist) (z : ziter) (e1 e2 : N),
         z1_last z = 0 \/ z2_last z = 0 ->
         zip_replace s1 s2 z e1 e2 = Ok (CC_ERR_VALUE_NOT_FOUND, 0, 0, s1, s2).
Proof. exact CC.List_.ListProofs11.zip_replace_none. Qed.
Print Assumptions C07_list_zip_replace_none.

Theorem C07_list_zip_remove_none :
  forall (s1 s2 : clist) (z : ziter) (a : alloc_st),
         z1_last z = 0 \/ z2_last z = 0 ->
         zip_remove s1 s2 z a = Ok (CC_ERR_VALUE_NOT_FOUND, 0, 0, s1, s2, z, a).
Proof. exact CC.List_.ListProofs11.zip_remove_none. Qed.
Print Assumptions C07_list_zip_remove_none.

(** zip add after a yield: each list gets its element in a fresh node of its own family directly behind the yielded node; if either node is refused nothing has changed *)
Theorem C07_list_zip_add :
  forall (s1 s2 : clist) (z : ziter) (done1 : list (N * N)) (x1 d1 : N)
           (added1 rest1 done2 : list (N * N)) (x2 d2 : N) (added2 rest2 : list (N * N)) 
           (a : alloc_st) (F : list block) (e1 e2 : N),
         ListHeap.lrep s1 (done1 ++ (x1, d1) :: added1 ++ rest1) ->
         ListHeap.lrep s2 (done2 ++ (x2, d2) :: added2 ++ rest2) ->
         ListHeap.lok a ->
         Permutation (live a)
           (ListHeap.blocks s1 (done1 ++ (x1, d1) :: added1 ++ rest1) ++
            ListHeap.blocks s2 (done2 ++ (x2, d2) :: added2 ++ rest2) ++ F) ->
         z1_last z = x1 ->
         z2_last z = x2 ->
         exists (st : stat) (s1' s2' : clist) (z' : ziter) (a' : alloc_st),
           zip_add s1 s2 z e1 e2 a = Ok (st, s1', s2', z', a') /\
           (st = CC_OK /\
            (exists id1 id2 : N,
               ListHeap.lrep s1' (done1 ++ (x1, d1) :: (id1, e1) :: added1 ++ rest1) /\
               ListHeap.lrep s2' (done2 ++ (x2, d2) :: (id2, e2) :: added2 ++ rest2) /\
               ListHeap.lok a' /\
               Permutation (live a')
                 (ListHeap.blocks s1' (done1 ++ (x1, d1) :: (id1, e1) :: added1 ++ rest1) ++
                  ListHeap.blocks s2' (done2 ++ (x2, d2) :: (id2, e2) :: added2 ++ rest2) ++ F) /\
               ListProofs1.same_hdr s1 s1' /\
               ListProofs1.same_hdr s2 s2' /\
               z_index z' = z_index z + 1 /\
               z1_last z' = x1 /\ z2_last z' = x2 /\ z1_next z' = z1_next z /\ z2_next z' = z2_next z) \/
            st = CC_ERR_ALLOC /\ s1' = s1 /\ s2' = s2 /\ z' = z /\ live a' = live a).
Proof. exact CC.List_.ListProofs11.zip_add_spec. Qed.
Print Assumptions C07_list_zip_add.

(** zip remove after a yield: exactly the two yielded nodes leave their lists and the ledger; the traversal position is unchanged and there is no current pair any more *)
Theorem C07_list_zip_remove :
  forall (s1 s2 : clist) (z : ziter) (done1 : list (N * N)) (x1 d1 : N) (rest1 done2 : list (N * N))
           (x2 d2 : N) (rest2 : list (N * N)) (a : alloc_st) (F : list block),
         ListHeap.lrep s1 (done1 ++ (x1, d1) :: rest1) ->
         ListHeap.lrep s2 (done2 ++ (x2, d2) :: rest2) ->
         ListHeap.lok a ->
         Permutation (live a)
           (ListHeap.blocks s1 (done1 ++ (x1, d1) :: rest1) ++
            ListHeap.blocks s2 (done2 ++ (x2, d2) :: rest2) ++ F) ->
         z1_last z = x1 ->
         z2_last z = x2 ->
         exists (s1' s2' : clist) (z' : ziter) (a' : alloc_st),
           zip_remove s1 s2 z a = Ok (CC_OK, d1, d2, s1', s2', z', a') /\
           ListHeap.lrep s1' (done1 ++ rest1) /\
           ListHeap.lrep s2' (done2 ++ rest2) /\
           ListHeap.lok a' /\
           Permutation (live a')
             (ListHeap.blocks s1' (done1 ++ rest1) ++ ListHeap.blocks s2' (done2 ++ rest2) ++ F) /\
           ListProofs1.same_hdr s1 s1' /\
           ListProofs1.same_hdr s2 s2' /\
           plan a' = plan a /\
           z1_last z' = 0 /\
           z2_last z' = 0 /\
           z1_next z' = z1_next z /\ z2_next z' = z2_next z /\ z_index z' = wsub (z_index z) 1.
Proof. exact CC.List_.ListProofs11.zip_remove_spec. Qed.
Print Assumptions C07_list_zip_remove.

(** CC_SList forward iterator *)
Theorem C07_slist_next_yield :
  forall (s : slist) (it : siter) (done : list (N * N)) (x d : N) (t : list (N * N)),
         SListHeap.srep s (done ++ (x, d) :: t) ->
         sit_pos it done ((x, d) :: t) ->
         exists it' : siter,
           siter_next s it = Ok (CC_OK, d, it') /\
           sit_pos it' (done ++ [(x, d)]) t /\ si_current it' = x /\ si_prev it' = ListHeap.last_id done 0.
Proof. exact CC.SList.SListProofs6.siter_next_yield. Qed.
Print Assumptions C07_slist_next_yield.

Theorem C07_slist_fresh_complete :
  forall (s : slist) (l : list (N * N)),
         SListHeap.srep s l -> siter_drain (S (length l)) s (siter_init s) = Ok (map snd l, CC_ITER_END).
Proof. exact CC.SList.SListProofs6.siter_fresh_complete. Qed.
Print Assumptions C07_slist_fresh_complete.

Theorem C07_slist_index :
  forall (it : siter) (done : list (N * N)) (x d : N) (rest : list (N * N)),
         sit_pos it (done ++ [(x, d)]) rest -> lenN (done ++ [(x, d)]) < W -> siter_index it = lenN done.
Proof. exact CC.SList.SListProofs6.siter_index_spec. Qed.
Print Assumptions C07_slist_index.

Theorem C07_slist_replace :
  forall (s : slist) (it : siter) (done : list (N * N)) (x d : N) (rest : list (N * N)) (v : N),
         SListHeap.srep s (done ++ (x, d) :: rest) ->
         si_current it = x ->
         exists s' : slist,
           siter_replace s it v = Ok (CC_OK, d, s') /\
           SListHeap.srep s' (done ++ (x, v) :: rest) /\ SListProofs1.ssame_hdr s s'.
Proof. exact CC.SList.SListProofs6.siter_replace_spec. Qed.
Print Assumptions C07_slist_replace.

Theorem C07_slist_remove :
  forall (s : slist) (it : siter) (done : list (N * N)) (x d : N) (rest : list (N * N)) 
           (a : alloc_st) (F : list block),
         SListHeap.srep s (done ++ (x, d) :: rest) ->
         SListProofs1.slown a s (done ++ (x, d) :: rest) F ->
         sit_pos it (done ++ [(x, d)]) rest ->
         si_current it = x ->
         lenN (done ++ [(x, d)]) < W ->
         exists (s' : slist) (it' : siter) (a' : alloc_st),
           siter_remove s it a = Ok (CC_OK, d, s', it', a') /\
           SListHeap.srep s' (done ++ rest) /\
           SListProofs1.slown a' s' (done ++ rest) F /\
           sit_pos it' done rest /\ si_current it' = 0 /\ SListProofs1.ssame_hdr s s' /\ ListHeap.aframe a a'.
Proof. exact CC.SList.SListProofs6.siter_remove_spec. Qed.
Print Assumptions C07_slist_remove.

Theorem C07_slist_add :
  forall (s : slist) (it : siter) (D : list (N * N)) (x d : N) (Added rest : list (N * N))
           (a : alloc_st) (F : list block) (v : N),
         SListHeap.srep s (D ++ (x, d) :: Added ++ rest) ->
         SListProofs1.slown a s (D ++ (x, d) :: Added ++ rest) F ->
         sit_pos it (D ++ (x, d) :: Added) rest ->
         si_current it = x ->
         let (o, a1) := alloc (sl_mem s) SNODE_BYTES a in
         match o with
         | Some id =>
             exists (s' : slist) (it' : siter),
               siter_add s it v a = Ok (CC_OK, s', it', a1) /\
               SListHeap.srep s' (D ++ (x, d) :: (id, v) :: Added ++ rest) /\
               SListProofs1.slown a1 s' (D ++ (x, d) :: (id, v) :: Added ++ rest) F /\
               sit_pos it' (D ++ (x, d) :: (id, v) :: Added) rest /\
               si_current it' = x /\
               si_prev it' = si_prev it /\ SListProofs1.ssame_hdr s s' /\ ListHeap.aframe a a1
         | None =>
             siter_add s it v a = Ok (CC_ERR_ALLOC, s, it, a1) /\
             SListProofs1.slown a1 s (D ++ (x, d) :: Added ++ rest) F /\
             live a1 = live a /\ ListHeap.aframe a a1 /\ (plan a <> [] \/ limit a < SNODE_BYTES)
         end.
Proof. exact CC.SList.SListProofs6.siter_add_spec. Qed.
Print Assumptions C07_slist_add.

(** CC_SList zip replace after a yield: the yielded pair is overwritten in place, both lists keep their nodes, order and size *)
Theorem C07_slist_zip_replace :
  forall (s1 s2 : slist) (z : sziter) (done1 : list (N * N)) (x1 d1 : N) (rest1 done2 : list (N * N))
           (x2 d2 : N) (rest2 : list (N * N)) (e1 e2 : N),
         SListHeap.srep s1 (done1 ++ (x1, d1) :: rest1) ->
         SListHeap.srep s2 (done2 ++ (x2, d2) :: rest2) ->
         sz1_current z = x1 ->
         sz2_current z = x2 ->
         exists s1' s2' : slist,
           szip_replace s1 s2 z e1 e2 = Ok (CC_OK, d1, d2, s1', s2') /\
           SListHeap.srep s1' (done1 ++ (x1, e1) :: rest1) /\
           SListHeap.srep s2' (done2 ++ (x2, e2) :: rest2) /\
           SListProofs1.ssame_hdr s1 s1' /\ SListProofs1.ssame_hdr s2 s2'.
Proof. exact CC.SList.SListProofs8.szip_replace_spec. Qed.
Print Assumptions C07_slist_zip_replace.

Theorem C07_slist_zip_replace_none :
  forall (s1 s2 : slist) (z : sziter) (e1 e2 : N),
         sz1_current z = 0 \/ sz2_current z = 0 ->
         szip_replace s1 s2 z e1 e2 = Ok (CC_ERR_VALUE_NOT_FOUND, 0, 0, s1, s2).
Proof. exact CC.SList.SListProofs8.szip_replace_none. Qed.
Print Assumptions C07_slist_zip_replace_none.

Theorem C07_slist_zip_remove_none :
  forall (s1 s2 : slist) (z : sziter) (a : alloc_st),
         sz1_current z = 0 \/ sz2_current z = 0 ->
         szip_remove s1 s2 z a = Ok (CC_ERR_VALUE_NOT_FOUND, 0, 0, s1, s2, z, a).
Proof. exact CC.SList.SListProofs8.szip_remove_none. Qed.
Print Assumptions C07_slist_zip_remove_none.

(** CC_SList zip add after a yield: each list gets its element in a fresh node of its own family directly behind the yielded node; a refusal changes nothing *)
Theorem C07_slist_zip_add :
  forall (s1 s2 : slist) (z : sziter) (D1 : list (N * N)) (x1 d1 : N) (A1 rest1 D2 : list (N * N))
           (x2 d2 : N) (A2 rest2 : list (N * N)) (a : alloc_st) (F : list block) (e1 e2 : N),
         SListHeap.srep s1 (D1 ++ (x1, d1) :: A1 ++ rest1) ->
         SListHeap.srep s2 (D2 ++ (x2, d2) :: A2 ++ rest2) ->
         ListHeap.lok a ->
         Permutation (live a)
           (SListHeap.sblocks s1 (D1 ++ (x1, d1) :: A1 ++ rest1) ++
            SListHeap.sblocks s2 (D2 ++ (x2, d2) :: A2 ++ rest2) ++ F) ->
         sz1_current z = x1 ->
         sz2_current z = x2 ->
         exists (st : stat) (s1' s2' : slist) (z' : sziter) (a' : alloc_st),
           szip_add s1 s2 z e1 e2 a = Ok (st, s1', s2', z', a') /\
           (st = CC_OK /\
            (exists id1 id2 : N,
               SListHeap.srep s1' (D1 ++ (x1, d1) :: (id1, e1) :: A1 ++ rest1) /\
               SListHeap.srep s2' (D2 ++ (x2, d2) :: (id2, e2) :: A2 ++ rest2) /\
               ListHeap.lok a' /\
               Permutation (live a')
                 (SListHeap.sblocks s1' (D1 ++ (x1, d1) :: (id1, e1) :: A1 ++ rest1) ++
                  SListHeap.sblocks s2' (D2 ++ (x2, d2) :: (id2, e2) :: A2 ++ rest2) ++ F) /\
               SListProofs1.ssame_hdr s1 s1' /\
               SListProofs1.ssame_hdr s2 s2' /\
               sz_index z' = sz_index z + 1 /\
               sz1_current z' = x1 /\
               sz2_current z' = x2 /\
               sz1_next z' = sz1_next z /\
               sz2_next z' = sz2_next z /\ sz1_prev z' = sz1_prev z /\ sz2_prev z' = sz2_prev z) \/
            st = CC_ERR_ALLOC /\ s1' = s1 /\ s2' = s2 /\ z' = z /\ live a' = live a).
Proof. exact CC.SList.SListProofs8.szip_add_spec. Qed.
Print Assumptions C07_slist_zip_add.

(** CC_SList zip remove after a yield: exactly the two yielded nodes leave their lists and the ledger *)
Theorem C07_slist_zip_remove :
  forall (s1 s2 : slist) (z : sziter) (done1 : list (N * N)) (x1 d1 : N) (rest1 done2 : list (N * N))
           (x2 d2 : N) (rest2 : list (N * N)) (a : alloc_st) (F : list block),
         SListHeap.srep s1 (done1 ++ (x1, d1) :: rest1) ->
         SListHeap.srep s2 (done2 ++ (x2, d2) :: rest2) ->
         ListHeap.lok a ->
         Permutation (live a)
           (SListHeap.sblocks s1 (done1 ++ (x1, d1) :: rest1) ++
            SListHeap.sblocks s2 (done2 ++ (x2, d2) :: rest2) ++ F) ->
         sz1_current z = x1 ->
         sz2_current z = x2 ->
         sz1_prev z = ListHeap.last_id done1 0 ->
         sz2_prev z = ListHeap.last_id done2 0 ->
         exists (s1' s2' : slist) (z' : sziter) (a' : alloc_st),
           szip_remove s1 s2 z a = Ok (CC_OK, d1, d2, s1', s2', z', a') /\
           SListHeap.srep s1' (done1 ++ rest1) /\
           SListHeap.srep s2' (done2 ++ rest2) /\
           ListHeap.lok a' /\
           Permutation (live a')
             (SListHeap.sblocks s1' (done1 ++ rest1) ++ SListHeap.sblocks s2' (done2 ++ rest2) ++ F) /\
           SListProofs1.ssame_hdr s1 s1' /\
           SListProofs1.ssame_hdr s2 s2' /\
           plan a' = plan a /\
           sz1_current z' = 0 /\
           sz2_current z' = 0 /\
           sz1_next z' = sz1_next z /\ sz2_next z' = sz2_next z /\ sz_index z' = wsub (sz_index z) 1.
Proof. exact CC.SList.SListProofs8.szip_remove_spec. Qed.
Print Assumptions C07_slist_zip_remove.

Theorem C07_slist_zip_fresh_complete :
  forall (s1 : slist) (l1 : list (N * N)) (s2 : slist) (l2 : list (N * N)),
         SListHeap.srep s1 l1 ->
         SListHeap.srep s2 l2 ->
         szip_drain (S (Nat.min (length l1) (length l2))) s1 s2 (szip_init s1 s2) =
         Ok (combine (map snd l1) (map snd l2), CC_ITER_END).
Proof. exact CC.SList.SListProofs6.szip_fresh_complete. Qed.
Print Assumptions C07_slist_zip_fresh_complete.

