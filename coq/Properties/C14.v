(** C14 - containers use only their configured allocators.
    Every block in the ledger carries the family (Conf = the triple passed in the *_conf struct, Libc = malloc /
    calloc / free named directly in the C text) through which it was requested, and a release through the other
    family is a model fault. Per engine: every block an operation adds carries the container's own tag, derived
    containers inherit it, and - since no step faults (C06) - every release went through the same family.
    The tag in the model is a transcription of which identifier the C text calls; what makes that transcription
    checked is the correspondence run, where the library's malloc/calloc/free are macro-redirected to a second
    ledger and every trace is run with a custom triple: any traffic on the wrong ledger is a mismatch.
    (statements printed by Coq from the lemmas they are proved by - tools/mkprop.py; statements only) *)
From Coq Require Import Permutation Sorted.
From CC Require Import Base.Prelude Base.Alloc Base.Ledger Generated.Status Generated.Constants Generated.Guards.
From CC Require Import Rbuf.RbufModel SPool.SPoolModel DPool.DPoolModel Array.ArrayModel Deque.DequeModel PQueue.PQueueModel Hash.HashModel Tst.TstModel Tree.TreeModel List_.ListModel SList.SListModel.
From CC Require Import Array.ArrayMore DPool.DPoolProofs Deque.DequeProofs5 Hash.HashProofsE List_.ListProofs6 PQueue.PQueueProofs2 Rbuf.RbufProofs SList.SListProofs5 Tst.TstProofs4.
Local Open Scope N_scope.

(** CC_Array: one operation *)
Theorem C14_array_step :
  forall (pred : N -> bool) (a : arr) (o : arr_op) (al : alloc_st) (out : arr_out) 
           (a' : arr) (al' : alloc_st),
         arr_step pred a o al = Ok (out, a', al') -> only_own_tag (a_mem a) al al' /\ a_mem a' = a_mem a.
Proof. exact CC.Array.ArrayMore.arr_step_tags. Qed.
Print Assumptions C14_array_step.

(** CC_Array: all histories *)
Theorem C14_array_run :
  forall (pred : N -> bool) (ops : list arr_op) (a : arr) (al : alloc_st) (outs : list arr_out)
           (a' : arr) (al' : alloc_st),
         ArrayRefine.arr_run pred a ops al = Ok (outs, a', al') ->
         only_own_tag (a_mem a) al al' /\ a_mem a' = a_mem a.
Proof. exact CC.Array.ArrayMore.arr_run_tags. Qed.
Print Assumptions C14_array_run.

(** CC_Array: subarray / copies / filter allocate with the source's family and the result inherits it *)
Theorem C14_array_derive :
  forall (a : arr) (d : list N) (al : alloc_st) (st : stat) (r : option arr) (al' : alloc_st),
         arr_derive a d al = Ok (st, r, al') ->
         only_own_tag (a_mem a) al al' /\ (forall b : arr, r = Some b -> a_mem b = a_mem a).
Proof. exact CC.Array.ArrayMore.derive_tags. Qed.
Print Assumptions C14_array_derive.

(** CC_Deque *)
Theorem C14_deque_run :
  forall (ops : list dq_op) (d : deque) (a : alloc_st) (outs : list dq_out) (d' : deque) (a' : alloc_st),
         DequeProofs.dq_inv d ->
         DequeProofs.owns d a ->
         DequeProofs4.ops_ok d a ops ->
         dq_run d a ops = Ok (outs, d', a') ->
         residue d' a' = residue d a /\
         dq_hdr d' = dq_hdr d /\
         dq_mem d' = dq_mem d /\
         (forall b : block, In b (live a') -> In b (live a) \/ b_tag b = dq_mem d) /\
         DequeProofs.owns d' a' /\ DequeProofs.dq_inv d'.
Proof. exact CC.Deque.DequeProofs5.deque_run_ledger. Qed.
Print Assumptions C14_deque_run.

(** CC_PQueue *)
Theorem C14_pqueue_run :
  forall cmp : N -> N -> Z,
         cmp_preorder cmp ->
         forall (mem : tag) (c n d : N) (a : alloc_st) (st : stat) (s : pq) (a' : alloc_st) (ops : list pq_op),
         c * 8 < W ->
         limit a < W - 16 ->
         limit a * fst (pq_factor n d) < W * snd (pq_factor n d) ->
         0 < d ->
         pq_new mem c n d a = Ok (st, Some s, a') ->
         exists (outs : list pq_out) (s' : pq) (a'' : alloc_st) (b1 b2 : block),
           pq_run cmp s a' ops = Ok (outs, s', a'') /\
           live a'' = b1 :: b2 :: live a /\
           b_tag b1 = mem /\ b_tag b2 = mem /\ b_bytes b1 = pq_cap s' * 8 /\ pq_size s' <= pq_cap s'.
Proof. exact CC.PQueue.PQueueProofs2.pqT_run_tags. Qed.
Print Assumptions C14_pqueue_run.

(** CC_HashTable (incl. the arrays built by get_keys / get_values) *)
Theorem C14_hashtable :
  forall (hash : N -> N) (keq : N -> N -> bool),
         (forall a : N, a <> 0 -> keq a a = true) ->
         (forall a b : N, a <> 0 -> b <> 0 -> keq a b = keq b a) ->
         (forall a b c : N, a <> 0 -> b <> 0 -> c <> 0 -> keq a b = true -> keq b c = true -> keq a c = true) ->
         (forall a b : N, a <> 0 -> b <> 0 -> keq a b = true -> hash a = hash b) ->
         forall (L0 : list block) (t : htable) (a : alloc_st),
         HashProofsB.ht_inv hash keq L0 t a -> forall b : block, In b (live a) -> In b L0 \/ b_tag b = ht_mem t.
Proof. exact CC.Hash.HashProofsE.ht_tags. Qed.
Print Assumptions C14_hashtable.

(** CC_TSTTable *)
Theorem C14_tst_step :
  forall (s : table) (a : alloc_st) (o : tst_op) (out : tst_out) (s' : table) (a' : alloc_st),
         tst_step s a o = Ok (out, s', a') -> others (t_mem s) a' = others (t_mem s) a /\ t_mem s' = t_mem s.
Proof. exact CC.Tst.TstProofs4.tst_step_tags. Qed.
Print Assumptions C14_tst_step.

Theorem C14_tst_new :
  forall (mem : tag) (a : alloc_st) (st : stat) (os : option table) (a1 : alloc_st),
         tst_new mem a = (st, os, a1) ->
         others mem a1 = others mem a /\ (forall s : table, os = Some s -> t_mem s = mem).
Proof. exact CC.Tst.TstProofs4.tst_new_tags. Qed.
Print Assumptions C14_tst_new.

Theorem C14_tst_destroy :
  forall (s : table) (a a' : alloc_st),
         tst_destroy s a = Ok a' -> others (t_mem s) a' = others (t_mem s) a.
Proof. exact CC.Tst.TstProofs4.tst_destroy_tags. Qed.
Print Assumptions C14_tst_destroy.

(** CC_Rbuf: both blocks requested and released with the configured family *)
Theorem C14_rbuf :
  forall (mem : tag) (c : N) (a : alloc_st) (st : stat) (r : rbuf) (a' : alloc_st),
         rb_new mem c a = Ok (st, Some r, a') ->
         exists a'' : alloc_st, rb_destroy r a' = Ok a'' /\ live a'' = live a.
Proof. exact CC.Rbuf.RbufProofs.rb_new_destroy_balanced. Qed.
Print Assumptions C14_rbuf.

(** CC_DynamicPool: new pages are requested from the pool's own family *)
Theorem C14_dpool_malloc :
  forall (p : dpool) (n : N) (a : alloc_st),
         dp_inv p a ->
         dp_pre p ->
         exists (r : option (N * N)) (p' : dpool) (a' : alloc_st),
           dp_malloc p n a = Ok (r, p', a') /\
           dp_inv p' a' /\
           match r with
           | Some (pg, off) =>
               pg = top_page p' /\
               off + n <= dp_top p' /\
               (exists len : N,
                  n <= len /\ off + len <= dp_top p' /\ dp_blocks p' = (pg, off, len) :: dp_blocks p) /\
               (forall o l : N, In (pg, o, l) (dp_blocks p) -> o + l <= off) /\
               (dp_pages p' = dp_pages p \/
                dp_fixed p = false /\
                live a' =
                {| b_id := pg; b_tag := dp_mem p; b_bytes := dp_top p * dp_num p / dp_den p + PAGE_HDR |}
                :: live a /\ dp_pages p' = (pg, dp_top p * dp_num p / dp_den p) :: dp_pages p) /\
               (dp_packed p = false -> 0 < n -> off mod dp_boundary p = 0)
           | None => p' = p /\ live a' = live a
           end.
Proof. exact CC.DPool.DPoolProofs.dp_malloc_spec. Qed.
Print Assumptions C14_dpool_malloc.

(** CC_List: derived lists are built with the source's allocator family (contents, result well formed, tag) *)
Theorem C14_list_copy :
  forall (f : N -> N) (keep : N -> bool) (s : clist) (l : list (N * N)) (a : alloc_st),
         ListHeap.lrep s l ->
         ListHeap.lok a ->
         exists r : stat * option clist * alloc_st,
           cl_copy_with f keep s a = Ok r /\
           derived_ok (map f (filter keep (map snd l))) (l_mem s) a (live a) r.
Proof. exact CC.List_.ListProofs6.copy_with_spec. Qed.
Print Assumptions C14_list_copy.

Theorem C14_list_filter :
  forall (pred : N -> bool) (s : clist) (l : list (N * N)) (a : alloc_st),
         ListHeap.lrep s l ->
         ListHeap.lok a ->
         l <> [] ->
         exists r : stat * option clist * alloc_st,
           cl_filter pred s a = Ok r /\ derived_ok (filter pred (map snd l)) (l_mem s) a (live a) r.
Proof. exact CC.List_.ListProofs6.filter_spec. Qed.
Print Assumptions C14_list_filter.

(** CC_SList *)
Theorem C14_slist_copy :
  forall (f : N -> N) (keep : N -> bool) (s : slist) (l : list (N * N)) (a : alloc_st),
         SListHeap.srep s l ->
         ListHeap.lok a ->
         exists r : stat * option slist * alloc_st,
           sl_copy_with f keep s a = Ok r /\
           sderived_ok (map f (filter keep (map snd l))) (sl_mem s) a (live a) r.
Proof. exact CC.SList.SListProofs5.scopy_with_spec. Qed.
Print Assumptions C14_slist_copy.

Theorem C14_slist_filter :
  forall (pred : N -> bool) (s : slist) (l : list (N * N)) (a : alloc_st),
         SListHeap.srep s l ->
         ListHeap.lok a ->
         l <> [] ->
         exists r : stat * option slist * alloc_st,
           sl_filter pred s a = Ok r /\ sderived_ok (filter pred (map snd l)) (sl_mem s) a (live a) r.
Proof. exact CC.SList.SListProofs5.sfilter_spec. Qed.
Print Assumptions C14_slist_filter.

Theorem C14_slist_sublist :
  forall (s : slist) (l1 mid l3 : list (N * N)) (a : alloc_st),
         SListHeap.srep s (l1 ++ mid ++ l3) ->
         ListHeap.lok a ->
         mid <> [] ->
         exists r : stat * option slist * alloc_st,
           sl_sublist s (lenN l1) (lenN l1 + lenN mid - 1) a = Ok r /\
           sderived_ok (map snd mid) (sl_mem s) a (live a) r.
Proof. exact CC.SList.SListProofs5.ssublist_spec. Qed.
Print Assumptions C14_slist_sublist.

