(** C11 - CC_TSTTable is an exact string-keyed map.
    Only statements, each closed by [exact]; proofs live in Tst/TstProofs{1,2,3,4}.v.
    Keys are byte lists ([wf_key]: non-empty, every byte < 256; bytes >= 128 compare as negative,
    as C's signed [char] does).  The ideal object is an association list without duplicate keys
    ([spec_step]); [tst_rel t m] says that [m] has no duplicate keys and that looking up any
    well-formed key in the tree gives what [m] gives.  [tst_inv base s a]: the structural invariant
    of the tree, size = number of stored entries, and the allocation ledger holds exactly the
    table's blocks (header, one per node, one per entry) on top of [base]. *)
From CC Require Import Base.Prelude Base.Alloc Base.AllocProofs Generated.Status.
From CC Require Import Tst.TstModel Tst.TstProofs1 Tst.TstProofs2 Tst.TstProofs3 Tst.TstProofs4.
From Coq Require Import Permutation.
Local Open Scope N_scope.

(** Every operation keeps the invariant: every stored key spells the path to its node, no dead
    branches (a node without children ends a key), size = number of nodes carrying data, no key twice. *)
Theorem C11_inv_preserved : forall base s a m o,
  tst_inv base s a -> tst_rel (t_root s) m -> op_wf o -> t_size s + 1 < W ->
  exists out s' a', tst_step s a o = Ok (out, s', a') /\ tst_inv base s' a' /\
    spell [] (t_root s') /\ nodead (t_root s') /\ t_size s' = count_eow (t_root s') /\
    NoDup (map ekey (entries (t_root s'))).
Proof. exact tst_inv_preserved. Qed.
Print Assumptions C11_inv_preserved.

(** One step from any state satisfying the invariant, any fault plan: add-or-replace / get /
    contains / remove / remove_all / size answer exactly as the ideal map (status, out-value) and
    the new state represents the ideal map's new content; the only other possibility is an add
    refused by the allocator, which returns CC_ERR_ALLOC and leaves the *whole* state and the
    ledger as they were; without a fault plan that does not happen.  No step faults. *)
Theorem C11_step_refines : forall base s a m o,
  tst_inv base s a -> tst_rel (t_root s) m -> op_wf o -> t_size s + 1 < W ->
  exists out s' a', tst_step s a o = Ok (out, s', a') /\ tst_inv base s' a' /\
    t_mem s' = t_mem s /\ t_hdr s' = t_hdr s /\ t_size s' <= t_size s + 1 /\
    ((out = fst (spec_step m o) /\ tst_rel (t_root s') (snd (spec_step m o))) \/
     ((exists k v, o = TAdd k v) /\ out = OStat CC_ERR_ALLOC /\ s' = s /\ Permutation (live_ids a') (live_ids a))) /\
    (plan a = [] -> SZ_NODE <= limit a ->
       out = fst (spec_step m o) /\ tst_rel (t_root s') (snd (spec_step m o)) /\ plan a' = [] /\ limit a' = limit a).
Proof. exact tst_step_refines. Qed.
Print Assumptions C11_step_refines.

(** All histories from cc_tsttable_new_conf, any fault plan: the run never faults, its outputs follow
    the ideal map (a refused add is skipped by the ideal map), and with no fault plan they are exactly
    the ideal map's outputs. *)
Theorem C11_run_refines : forall mem a st s a1 ops,
  ledger_ok a -> 0 < next_id a -> tst_new mem a = (st, Some s, a1) -> Forall op_wf ops -> lenN ops < W ->
  exists outs s' a', tst_run s a1 ops = Ok (outs, s', a') /\ tst_inv (live_ids a) s' a' /\
    (exists mf, follows [] ops outs mf /\ tst_rel (t_root s') mf) /\
    (plan a1 = [] -> SZ_NODE <= limit a1 -> (outs, snd (spec_run [] ops)) = spec_run [] ops /\ tst_rel (t_root s') (snd (spec_run [] ops))).
Proof. exact tst_new_run_refines. Qed.
Print Assumptions C11_run_refines.

(** Removing k (found or not) changes the lookup of no other key. *)
Theorem C11_remove_frame : forall base s a k k' st v s' a',
  tst_inv base s a -> wf_key k -> wf_key k' -> k' <> k ->
  tst_remove s k a = Ok (st, v, s', a') -> tst_get s' k' = tst_get s k' /\ tst_contains s' k' = tst_contains s k'.
Proof. exact tst_remove_frame. Qed.
Print Assumptions C11_remove_frame.

(** size = number of distinct keys present. *)
Theorem C11_size : forall base s a m,
  tst_inv base s a -> tst_rel (t_root s) m -> t_size s = lenN m /\ NoDup (map fst m).
Proof. exact tst_size_is_count. Qed.
Print Assumptions C11_size.

(** foreach_key / foreach_value / a fresh iterator run to CC_ITER_END (the four-way arrival-direction
    automaton) terminate within their fuel, never fault, and yield the stored entries in pre-order ... *)
Theorem C11_iteration_order : forall t, tst_enum t = Ok (map kv (entries t)).
Proof. exact tst_enum_entries. Qed.
Print Assumptions C11_iteration_order.

(** ... which is each present key exactly once, with its current value. *)
Theorem C11_enumeration : forall base s a m,
  tst_inv base s a -> tst_rel (t_root s) m ->
  exists l, tst_enum (t_root s) = Ok l /\ Permutation l m /\ NoDup (map fst l) /\ lenN l = t_size s.
Proof. exact tst_enumeration. Qed.
Print Assumptions C11_enumeration.

(** One call of cc_tsttable_iter_next from any reachable iterator state: the next entry in pre-order
    (and the iterator's current node is the node holding it), or CC_ITER_END when nothing is left. *)
Theorem C11_iter_next : forall t it R, it_valid t it R ->
  match R with
  | [] => exists it', tst_iter_next t it = Ok (CC_ITER_END, None, it') /\ it_valid t it' [] /\ it_cur it' = None /\ it_next it' = None
  | e :: R' => exists it' pe, tst_iter_next t it = Ok (CC_OK, entry_out (Some e), it') /\ it_valid t it' R' /\
                 it_cur it' = Some pe /\ (exists id c l m r, node_at t (rev pe) = Some (Node id c (Some e) l m r))
  end.
Proof. exact iter_next_spec. Qed.
Print Assumptions C11_iter_next.

(** cc_tsttable_iter_remove after a yield of [e] ([done]: what was yielded before): it returns e's value,
    removes exactly e's key from the table (the ideal map loses that key; invariant, ledger and size follow),
    and the iterator is not invalidated: the next cc_tsttable_iter_next answers (from the cached status) with
    the entry that followed e in the old tree, read from the *new* tree, resp. CC_ITER_END, and the iterator
    is then a regular iterator over the new tree with exactly the not-yet-yielded entries left -
    so [C11_iter_next] and this theorem apply again (each present key exactly once, also with removals). *)
Theorem C11_iter_remove : forall base s a m it done e R' pe id c l mm r,
  tst_inv base s a -> tst_rel (t_root s) m ->
  it_ok (t_root s) it (done ++ [e]) R' -> it_cur it = Some pe ->
  node_at (t_root s) (rev pe) = Some (Node id c (Some e) l mm r) ->
  exists s' it2 a', tst_iter_remove s it a = Ok (CC_OK, Some (eval e), s', it2, a') /\
    tst_inv base s' a' /\ tst_rel (t_root s') (spec_del m (ekey e)) /\ assoc m (ekey e) = Some (eval e) /\
    t_size s' = t_size s - 1 /\ 0 < t_size s /\ entries (t_root s') = done ++ R' /\
    match R' with
    | [] => exists it3, tst_iter_next (t_root s') it2 = Ok (CC_ITER_END, None, it3) /\
                        it_ok (t_root s') it3 done [] /\ it_cur it3 = None
    | e2 :: R'' => exists it3 pe2, tst_iter_next (t_root s') it2 = Ok (CC_OK, entry_out (Some e2), it3) /\
                     it_ok (t_root s') it3 (done ++ [e2]) R'' /\ it_cur it3 = Some pe2 /\
                     (exists id2 c2 l2 m2 r2, node_at (t_root s') (rev pe2) = Some (Node id2 c2 (Some e2) l2 m2 r2))
    end.
Proof. exact iter_remove_spec. Qed.
Print Assumptions C11_iter_remove.

(** the same bookkeeping for plain iteration: a fresh iterator has yielded nothing, every next moves one
    entry from "left" to "done" *)
Theorem C11_iter_progress : forall t it done R, it_ok t it done R ->
  match R with
  | [] => exists it', tst_iter_next t it = Ok (CC_ITER_END, None, it') /\ it_ok t it' done [] /\ it_cur it' = None
  | e :: R' => exists it' pe, tst_iter_next t it = Ok (CC_OK, entry_out (Some e), it') /\ it_ok t it' (done ++ [e]) R' /\
                 it_cur it' = Some pe /\ (exists id c l m r, node_at t (rev pe) = Some (Node id c (Some e) l m r))
  end.
Proof. exact iter_next_ok. Qed.
Print Assumptions C11_iter_progress.

Theorem C11_iter_fresh : forall t, it_ok t (iter_init t) [] (entries t).
Proof. exact iter_init_ok. Qed.
Print Assumptions C11_iter_fresh.

(** D30 (stays in the code): the empty key lands on the root node. add "a"->1, add ""->2: the table
    now answers 2 for "a" and has size 1, the ideal map answers 1 and has size 2. *)
Theorem C11_empty_key_refuted :
  exists s1 a1 s2 a2 s3 a3,
    tst_new Conf ek_alloc = (CC_OK, Some s1, a1) /\
    tst_add s1 [97] 1 a1 = Ok (CC_OK, s2, a2) /\
    tst_add s2 [] 2 a2 = Ok (CC_OK, s3, a3) /\
    tst_get s3 [97] = (CC_OK, Some 2) /\
    t_size s3 = 1 /\
    assoc (spec_put (spec_put [] [97] 1) [] 2) [97] = Some 1 /\ lenN (spec_put (spec_put [] [97] 1) [] 2) = 2.
Proof. exact tst_empty_key_refuted. Qed.
Print Assumptions C11_empty_key_refuted.

(** Offered to the cross-cutting properties. C08: a refused add is atomic, ledger included. *)
Theorem C11_add_alloc_atomic : forall base s a k v s' a',
  tst_inv base s a -> wf_key k -> t_size s + 1 < W ->
  tst_add s k v a = Ok (CC_ERR_ALLOC, s', a') -> s' = s /\ Permutation (live_ids a') (live_ids a) /\ tst_inv base s' a'.
Proof. exact tst_add_alloc_atomic. Qed.
Print Assumptions C11_add_alloc_atomic.

(** C16: get / contains / remove of a missing key change nothing. *)
Theorem C11_missing_key_inert : forall base s a k,
  tst_inv base s a -> wf_key k -> lookup (t_root s) k = None ->
  tst_remove s k a = Ok (CC_ERR_KEY_NOT_FOUND, None, s, a) /\ tst_get s k = (CC_ERR_KEY_NOT_FOUND, None) /\ tst_contains s k = false.
Proof. exact tst_remove_missing_inert. Qed.
Print Assumptions C11_missing_key_inert.

(** C06: remove_all releases every node and entry exactly once; destroy after any history returns the
    ledger to what was live before the table was created. *)
Theorem C11_remove_all_balanced : forall base s a,
  tst_inv base s a -> exists s' a', tst_remove_all s a = Ok (s', a') /\ tst_inv base s' a' /\
    t_root s' = Leaf /\ t_size s' = 0 /\ Permutation (live_ids a') (t_hdr s :: base).
Proof. exact tst_remove_all_balanced. Qed.
Print Assumptions C11_remove_all_balanced.

Theorem C11_destroy_balanced : forall mem a st s a1 ops outs s' a',
  ledger_ok a -> 0 < next_id a -> tst_new mem a = (st, Some s, a1) -> Forall op_wf ops -> lenN ops < W ->
  tst_run s a1 ops = Ok (outs, s', a') ->
  exists a'', tst_destroy s' a' = Ok a'' /\ Permutation (live_ids a'') (live_ids a).
Proof. exact tst_new_destroy_balanced. Qed.
Print Assumptions C11_destroy_balanced.

(** C14: blocks of the other allocator family are neither created nor released nor changed by any
    operation (constructor, every step, iter_remove, destroy); the table keeps its family. *)
Theorem C11_step_tags : forall s a o out s' a',
  tst_step s a o = Ok (out, s', a') -> others (t_mem s) a' = others (t_mem s) a /\ t_mem s' = t_mem s.
Proof. exact tst_step_tags. Qed.
Print Assumptions C11_step_tags.

Theorem C11_new_tags : forall mem a st os a1,
  tst_new mem a = (st, os, a1) -> others mem a1 = others mem a /\ (forall s, os = Some s -> t_mem s = mem).
Proof. exact tst_new_tags. Qed.
Print Assumptions C11_new_tags.

Theorem C11_destroy_tags : forall s a a', tst_destroy s a = Ok a' -> others (t_mem s) a' = others (t_mem s) a.
Proof. exact tst_destroy_tags. Qed.
Print Assumptions C11_destroy_tags.

Theorem C11_iter_remove_tags : forall s it a st v s' it' a',
  tst_iter_remove s it a = Ok (st, v, s', it', a') -> others (t_mem s) a' = others (t_mem s) a /\ t_mem s' = t_mem s.
Proof. exact tst_iter_remove_tags. Qed.
Print Assumptions C11_iter_remove_tags.

(** Non-vacuity: a state with a key, an extension of it and a byte >= 128 (sorted to the left)
    satisfies the invariant and represents the three-key map. *)
Example C11_inv_nonvacuous : tst_inv [] ex_table ex_alloc /\ tst_rel (t_root ex_table) ex_map.
Proof. exact ex_state_ok. Qed.
