(** C16 - rejected operations are inert, for every argument value.
    Per engine: (a) any step whose status is not CC_OK returns the very same state (whole model state, not just
    the abstraction); (b) the range guards *as generated from the C source on this run* reject exactly the
    arguments outside the documented range, for all index and size values (the model's indices are unbounded N, the
    guards use 64-bit wrap-around arithmetic where the C does). Editing a comparison in the C source changes the
    generated definition and fails the corresponding guard theorem at build time.
    (statements printed by Coq from the lemmas they are proved by - tools/mkprop.py; statements only) *)
From Coq Require Import Permutation Sorted.
From CC Require Import Base.Prelude Base.Alloc Base.Ledger Generated.Status Generated.Guards.
From CC Require Import Array.ArrayModel Array.ArrayProofs Array.ArrayRefine Array.ArrayMore.
From CC Require Import Deque.DequeModel Deque.DequeProofs Deque.DequeProofs2 Deque.DequeProofs3 Deque.DequeProofs4 Deque.DequeProofs5.
From CC Require Import PQueue.PQueueModel PQueue.PQueueProofs PQueue.PQueueProofs2.
From CC Require Import Hash.HashModel Hash.HashProofsA Hash.HashProofsB Hash.HashProofsC Hash.HashProofsD Hash.HashProofsE.
From CC Require Import Tst.TstModel Tst.TstProofs1 Tst.TstProofs2 Tst.TstProofs3 Tst.TstProofs4.
From CC Require Import Rbuf.RbufModel Rbuf.RbufProofs List_.ListModel SList.SListModel.
From CC Require Import Array.ArrayMore Array.ArrayProofs Deque.DequeProofs5 Hash.HashProofsE List_.ListProofs8 PQueue.PQueueProofs2 Rbuf.RbufProofs SList.SListProofs7 Tst.TstProofs2.
Local Open Scope N_scope.

(** CC_Array: a non-OK status returns the same array; the ledger is untouched unless the error is a refused allocation *)
Theorem C16_array_inert :
  forall (pred : N -> bool) (a : arr) (o : arr_op) (al : alloc_st) (out : arr_out) 
           (a' : arr) (al' : alloc_st),
         arr_inv a al ->
         lim_ok a al ->
         ArrayRefine.op_ok o ->
         arr_step pred a o al = Ok (out, a', al') ->
         (forall v : option N, out <> AOut CC_OK v) ->
         a' = a /\ (al' = al \/ ArrayRefine.allocating o = true /\ refused_once al al').
Proof. exact CC.Array.ArrayMore.arr_err_inert. Qed.
Print Assumptions C16_array_inert.

(** CC_Array: generated range guards of replace_at / remove_at / get_at / swap_at / subarray / iter_next *)
Theorem C16_array_guards :
  forall i j n : N,
         (g_array_replace_at_range i n = true <-> n <= i) /\
         (g_array_remove_at_range i n = true <-> n <= i) /\
         (g_array_get_at_range i n = true <-> n <= i) /\
         (g_array_swap_at_range i j n = true <-> n <= i \/ n <= j) /\
         (g_array_subarray_range i j n = true <-> j < i \/ n <= j) /\
         (g_array_iter_next_end i n = true <-> n <= i).
Proof. exact CC.Array.ArrayMore.array_guards. Qed.
Print Assumptions C16_array_guards.

(** CC_Array: add_at accepts [0,size] (appending at size is documented) and nothing else, including on the empty array where size-1 wraps *)
Theorem C16_array_add_at_guard :
  forall i n : N, n < W -> i < W -> i <> n -> g_array_add_at_range i n = true <-> n < i.
Proof. exact CC.Array.ArrayProofs.add_at_range_spec. Qed.
Print Assumptions C16_array_add_at_guard.

(** CC_Deque: a non-OK status returns the same deque *)
Theorem C16_deque_inert :
  forall (d : deque) (a : alloc_st) (o : dq_op) (st : stat) (vs : list N) (d' : deque) (a' : alloc_st),
         dq_inv d ->
         owns d a ->
         op_ok d o ->
         dq_step d a o = Ok (DOut st vs, d', a') ->
         st <> CC_OK -> d' = d /\ live a' = live a /\ (st <> CC_ERR_ALLOC -> a' = a) /\ dq_inv d' /\ owns d' a'.
Proof. exact CC.Deque.DequeProofs5.deque_err_inert. Qed.
Print Assumptions C16_deque_inert.

(** CC_Deque: generated guards: positions [0,size) only *)
Theorem C16_deque_add_at_guard :
  forall i size : N, g_deque_add_at_range i size = true <-> ~ i < size.
Proof. exact CC.Deque.DequeProofs5.g_deque_add_at_range_spec. Qed.
Print Assumptions C16_deque_add_at_guard.

Theorem C16_deque_replace_at_guard :
  forall i size : N, g_deque_replace_at_range i size = true <-> ~ i < size.
Proof. exact CC.Deque.DequeProofs5.g_deque_replace_at_range_spec. Qed.
Print Assumptions C16_deque_replace_at_guard.

Theorem C16_deque_remove_at_guard :
  forall i size : N, g_deque_remove_at_range i size = true <-> ~ i < size.
Proof. exact CC.Deque.DequeProofs5.g_deque_remove_at_range_spec. Qed.
Print Assumptions C16_deque_remove_at_guard.

Theorem C16_deque_get_at_guard :
  forall i size : N, g_deque_get_at_range i size = true <-> ~ i < size.
Proof. exact CC.Deque.DequeProofs5.g_deque_get_at_range_spec. Qed.
Print Assumptions C16_deque_get_at_guard.

(** CC_Deque: first/last access and removal on the empty deque *)
Theorem C16_deque_empty_guards :
  forall size : N,
         (g_deque_get_first_empty size = true <-> size = 0) /\
         (g_deque_get_last_empty size = true <-> size = 0) /\
         (g_deque_remove_first_empty size = true <-> size = 0) /\
         (g_deque_remove_last_empty size = true <-> size = 0).
Proof. exact CC.Deque.DequeProofs5.g_deque_empty_guards. Qed.
Print Assumptions C16_deque_empty_guards.

(** CC_PQueue: top/pop on empty and failed pushes leave the queue unchanged *)
Theorem C16_pqueue_inert :
  forall cmp : N -> N -> Z,
         cmp_preorder cmp ->
         forall (lim : N) (L0 : list block) (s : pq) (o : pq_op) (a : alloc_st) (out : pq_out) 
           (s' : pq) (a' : alloc_st),
         pq_inv cmp lim s ->
         pq_led lim L0 s a ->
         pq_step cmp s o a = Ok (out, s', a') -> out_ok out = false -> s' = s /\ live a' = live a.
Proof. exact CC.PQueue.PQueueProofs2.pqT_err_inert. Qed.
Print Assumptions C16_pqueue_inert.

Theorem C16_pqueue_top_guard :
  forall size : N, g_pq_top_empty size = true <-> size = 0.
Proof. exact CC.PQueue.PQueueProofs2.pq_guard_top_empty. Qed.
Print Assumptions C16_pqueue_top_guard.

Theorem C16_pqueue_pop_guard :
  forall size : N, g_pq_pop_empty size = true <-> size = 0.
Proof. exact CC.PQueue.PQueueProofs2.pq_guard_pop_empty. Qed.
Print Assumptions C16_pqueue_pop_guard.

(** CC_HashTable: removing / getting a key that is not present *)
Theorem C16_hashtable_remove_missing :
  forall (hash : N -> N) (keq : N -> N -> bool),
         (forall a : N, a <> 0 -> keq a a = true) ->
         (forall a b : N, a <> 0 -> b <> 0 -> keq a b = keq b a) ->
         (forall a b c : N, a <> 0 -> b <> 0 -> c <> 0 -> keq a b = true -> keq b c = true -> keq a c = true) ->
         (forall a b : N, a <> 0 -> b <> 0 -> keq a b = true -> hash a = hash b) ->
         forall (L0 : list block) (t : htable) (a : alloc_st) (k : N),
         ht_inv hash keq L0 t a ->
         m_get keq (ht_abs t) k = None -> ht_remove hash keq t k a = Ok (CC_ERR_KEY_NOT_FOUND, None, t, a).
Proof. exact CC.Hash.HashProofsE.ht_remove_missing_inert. Qed.
Print Assumptions C16_hashtable_remove_missing.

Theorem C16_hashtable_get_missing :
  forall (hash : N -> N) (keq : N -> N -> bool),
         (forall a : N, a <> 0 -> keq a a = true) ->
         (forall a b : N, a <> 0 -> b <> 0 -> keq a b = keq b a) ->
         (forall a b c : N, a <> 0 -> b <> 0 -> c <> 0 -> keq a b = true -> keq b c = true -> keq a c = true) ->
         (forall a b : N, a <> 0 -> b <> 0 -> keq a b = true -> hash a = hash b) ->
         forall (L0 : list block) (t : htable) (a : alloc_st) (k : N),
         ht_inv hash keq L0 t a ->
         m_get keq (ht_abs t) k = None -> ht_get hash keq t k = Ok (CC_ERR_KEY_NOT_FOUND, None).
Proof. exact CC.Hash.HashProofsE.ht_get_missing. Qed.
Print Assumptions C16_hashtable_get_missing.

(** CC_TSTTable: get/remove of a missing key *)
Theorem C16_tst_missing :
  forall (base : list N) (s : table) (a : alloc_st) (k : key),
         tst_inv base s a ->
         wf_key k ->
         lookup (t_root s) k = None ->
         tst_remove s k a = Ok (CC_ERR_KEY_NOT_FOUND, None, s, a) /\
         tst_get s k = (CC_ERR_KEY_NOT_FOUND, None) /\ tst_contains s k = false.
Proof. exact CC.Tst.TstProofs2.tst_remove_missing_inert. Qed.
Print Assumptions C16_tst_missing.

(** CC_Rbuf: dequeue on empty *)
Theorem C16_rbuf_dequeue_empty :
  forall r : rbuf, rb_inv r -> rb_size r = 0 -> rb_dequeue r = Ok (CC_ERR_OUT_OF_RANGE, None, r).
Proof. exact CC.Rbuf.RbufProofs.rb_dequeue_empty_inert. Qed.
Print Assumptions C16_rbuf_dequeue_empty.

(** CC_List: every non-OK status leaves both lists unchanged *)
Theorem C16_list_frame :
  forall (cmp : N -> N -> comparison) (pred : N -> bool) (w : world) (hd : hnd) 
           (o : lop) (out : lout) (w' : world),
         ListProofs4.winv w -> cl_step cmp pred w hd o = Ok (out, w') -> frame_ok w w' out.
Proof. exact CC.List_.ListProofs8.step_frame. Qed.
Print Assumptions C16_list_frame.

(** CC_SList *)
Theorem C16_slist_frame :
  forall (cmp : N -> N -> comparison) (pred : N -> bool) (w : sworld) (hd : shnd) 
           (o : sop) (out : sout) (w' : sworld),
         SListProofs3.swinv w -> sl_step cmp pred w hd o = Ok (out, w') -> sframe_ok w w' out.
Proof. exact CC.SList.SListProofs7.sstep_frame. Qed.
Print Assumptions C16_slist_frame.

(** CC_List generated guards: get/replace/remove/add at index need [0,size); add_all_at / splice_at accept [0,size] *)
Theorem C16_list_get_node_guard :
  forall hdr index size : N,
         hdr <> 0 -> g_list_get_node_at_range hdr index size = true <-> size <= index.
Proof. exact CC.List_.ListProofs8.g_get_node_at_range_iff. Qed.
Print Assumptions C16_list_get_node_guard.

Theorem C16_list_add_all_at_guard :
  forall index size : N, g_list_add_all_at_range index size = true <-> size < index.
Proof. exact CC.List_.ListProofs8.g_add_all_at_range_iff. Qed.
Print Assumptions C16_list_add_all_at_guard.

Theorem C16_list_splice_at_guard :
  forall index size : N, g_list_splice_at_range index size = true <-> size < index.
Proof. exact CC.List_.ListProofs8.g_splice_at_range_iff. Qed.
Print Assumptions C16_list_splice_at_guard.

Theorem C16_list_sublist_guard :
  forall b e size : N, g_list_sublist_range b e size = true <-> e < b \/ size <= e.
Proof. exact CC.List_.ListProofs8.g_sublist_range_iff. Qed.
Print Assumptions C16_list_sublist_guard.

(** CC_SList generated guards *)
Theorem C16_slist_get_node_guard :
  forall index size : N, g_slist_get_node_at_range index size = true <-> size <= index.
Proof. exact CC.SList.SListProofs7.g_slist_get_node_at_range_iff. Qed.
Print Assumptions C16_slist_get_node_guard.

Theorem C16_slist_splice_at_guard :
  forall index size : N, g_slist_splice_at_range index size = true <-> size <= index.
Proof. exact CC.SList.SListProofs7.g_slist_splice_at_range_iff. Qed.
Print Assumptions C16_slist_splice_at_guard.

Theorem C16_slist_sublist_guard :
  forall b e size : N, g_slist_sublist_range b e size = true <-> e < b \/ size <= e.
Proof. exact CC.SList.SListProofs7.g_slist_sublist_range_iff. Qed.
Print Assumptions C16_slist_sublist_guard.

