(** C04 - placeholder while the engine is being built. *)
From CC Require Import Base.Prelude.
