(** C04 - CC_List and CC_SList behave as ideal sequences, including the bulk operations.
    Only statements, each closed by [exact]; proofs live in List_/ListProofs*.v and SList/SListProofs*.v.

    Vocabulary (List_/ListModel.v, List_/ListProofs4.v): a [world] is two lists [wa], [wb] and the allocation ledger
    [wal]; [cl_step cmp pred w hd o] runs operation [o] on the list named by [hd] (the bulk operations take the other
    list as their source); [wabs w] is the pair of forward traversals; [spec_step] is the ideal pair of sequences,
    whose flag [fl] says "the allocator refused inside this operation" (an allocating operation then reports
    CC_ERR_ALLOC and changes nothing). [winv w]: both lists are well formed (below) and the ledger holds exactly
    their headers and nodes. The two lists may use different allocator families; only the move operations
    splice / splice_at need them to agree ([mem_ok w o]), because they hand the source's nodes to the destination. *)
From CC Require Import Base.Prelude Base.Alloc Base.AllocProofs Generated.Status.
From CC Require Import List_.ListModel List_.ListHeap List_.ListProofs1 List_.ListProofs4 List_.ListProofs5 List_.ListProofs10.
From CC Require Import SList.SListModel SList.SListHeap SList.SListProofs1 SList.SListProofs3 SList.SListProofs4.
Local Open Scope N_scope.

(** The invariant is preserved by every operation on either handle, with every argument, and no operation faults. *)
Theorem C04_list_wf_preserved : forall cmp pred w hd o,
  winv w -> mem_ok w o -> exists out w', cl_step cmp pred w hd o = Ok (out, w') /\ winv w'.
Proof. exact list_wf_preserved. Qed.
Print Assumptions C04_list_wf_preserved.

(** What the invariant says: a duplicate-free sequence of non-null node ids, head = first, tail = last, next links it
    forward and prev backward with NULL at both ends ([dseg]), size = its length, the heap holds exactly these nodes,
    and the abstraction is the sequence of their data. *)
Theorem C04_list_wf_explicit : forall w, winv w ->
  (exists l : list (N * N),
     NoDup (map fst l) /\ ~ In 0 (map fst l) /\
     l_head (wa w) = first_id l 0 /\ l_tail (wa w) = last_id l 0 /\ l_size (wa w) = lenN l /\
     dseg (l_heap (wa w)) 0 l 0 /\ (forall x, hget (l_heap (wa w)) x <> None <-> In x (map fst l)) /\
     cl_abs (wa w) = map snd l) /\
  (exists l : list (N * N),
     NoDup (map fst l) /\ ~ In 0 (map fst l) /\
     l_head (wb w) = first_id l 0 /\ l_tail (wb w) = last_id l 0 /\ l_size (wb w) = lenN l /\
     dseg (l_heap (wb w)) 0 l 0 /\ (forall x, hget (l_heap (wb w)) x <> None <-> In x (map fst l)) /\
     cl_abs (wb w) = map snd l).
Proof. exact winv_list_wf. Qed.
Print Assumptions C04_list_wf_explicit.

(** Every operation (add_first/last/at, remove/at/first/last/all/all_cb, replace_at, get_first/last/at, index_of,
    contains, contains_value, size, to_array, foreach, reverse, filter_mut, add_all, add_all_at, splice, splice_at),
    every index in N, any comparator and predicate: exact status, out-values and both sequences of the ideal object;
    a refusal is reported only when the allocator did refuse a request of this operation. *)
Theorem C04_list_step_refines : forall cmp pred w hd o, winv w -> mem_ok w o ->
  exists out w' fl, cl_step cmp pred w hd o = Ok (out, w') /\
    (winv w' /\ l_mem (wa w') = l_mem (wa w) /\ l_mem (wb w') = l_mem (wb w)) /\
    (out, wabs w') = spec_step cmp pred (wabs w) hd o fl /\ aframe (wal w) (wal w') /\
    (fl = true -> plan (wal w) <> [] \/ limit (wal w) < req_bytes (psel (wabs w) hd) o).
Proof. exact list_step_refines. Qed.
Print Assumptions C04_list_step_refines.

(** add_all / add_all_at leave the whole state of the source list untouched; splice / splice_at leave it empty (or
    untouched when the source was empty or the index rejected); the destination is the ideal insertion. *)
Theorem C04_list_bulk : forall cmp pred w hd o, winv w -> mem_ok w o ->
  exists out w' fl, cl_step cmp pred w hd o = Ok (out, w') /\ winv w' /\
    (out, wabs w') = spec_step cmp pred (wabs w) hd o fl /\
    match o with
    | OAddAll | OAddAllAt _ => wget w' (wother hd) = wget w (wother hd)
    | OSplice | OSpliceAt _ =>
        wget w' (wother hd) = wget w (wother hd) \/
        (wget w' (wother hd) = emptied (wget w (wother hd)) /\ cl_abs (wget w' (wother hd)) = [] /\ cl_size (wget w' (wother hd)) = 0)
    | _ => True
    end.
Proof. exact list_bulk. Qed.
Print Assumptions C04_list_bulk.

(** The backward traversal (from tail over prev) is the mirror image of the forward one (from head over next). *)
Theorem C04_list_mirror : forall w, winv w ->
  cl_back (wa w) = rev (cl_abs (wa w)) /\ cl_back (wb w) = rev (cl_abs (wb w)).
Proof. exact list_mirror. Qed.
Print Assumptions C04_list_mirror.

(** All histories on the two lists from the constructor, under any fault plan and any pair of allocator families
    (equal families are required only if the history contains a splice); with an exhausted plan a refusal happens
    only for a request above the allocator's limit ([fls_ok]). *)
Theorem C04_list_run_refines : forall cmp pred mema memb a0 sa a1 sb a2 ops,
  lok a0 -> live a0 = [] -> cl_new mema a0 = (CC_OK, Some sa, a1) -> cl_new memb a1 = (CC_OK, Some sb, a2) ->
  (has_splice ops = true -> mema = memb) ->
  exists outs w' fls, cl_run cmp pred {| wa := sa; wb := sb; wal := a2 |} ops = Ok (outs, w') /\ winv w' /\
    length fls = length ops /\ (outs, wabs w') = spec_run cmp pred ([], []) ops fls /\
    (plan a0 = [] -> fls_ok cmp pred (limit a0) ([], []) ops fls).
Proof. exact list_new_run_refines. Qed.
Print Assumptions C04_list_run_refines.

(** Non-vacuity: a reachable state with three and one elements, the lists using different allocator families. *)
Example C04_list_inv_nonvacuous : exists w, winv w /\ wabs w = ([3; 1; 2; 7], [7]).
Proof.
  destruct (cl_new Conf (alloc_init [] W)) as [[st1 [sa|]] a1] eqn:E1; [|vm_compute in E1; discriminate].
  destruct (cl_new Libc a1) as [[st2 [sb|]] a2] eqn:E2; [|vm_compute in E1; inversion E1; subst; vm_compute in E2; discriminate].
  assert (st1 = CC_OK /\ st2 = CC_OK) as [-> ->].
  { vm_compute in E1. inversion E1; subst. vm_compute in E2. inversion E2; subst. auto. }
  assert (Hk : lok (alloc_init [] W)) by (split; [apply ledger_ok_init|cbn; lia]).
  destruct (list_new_run_refines cmp_val pred_even Conf Libc (alloc_init [] W) sa a1 sb a2
              [(HA, OAddLast 1); (HA, OAddLast 2); (HB, OAddFirst 7); (HA, OAddFirst 3); (HA, OAddAll)]
              Hk eq_refl E1 E2 ltac:(discriminate)) as (outs & w' & fls & E & Hw & _).
  exists w'. split; [exact Hw|].
  vm_compute in E1. inversion E1; subst. vm_compute in E2. inversion E2; subst. vm_compute in E. inversion E; subst. reflexivity.
Qed.

(* ================================================================================================ CC_SList *)
(** The singly linked list: same vocabulary with an [s] prefix (SList/SListModel.v, SList/SListProofs3.v). The ideal
    object differs where the documented contract differs: add_all_at / splice_at need index < size, to_array of an
    empty list is an empty array, index_of compares pointers. There is no backward traversal. As for the list,
    only splice / splice_at need both lists to use the same allocator family ([smem_ok]). *)

Theorem C04_slist_wf_preserved : forall cmp pred w hd o,
  swinv w -> smem_ok w o -> exists out w', sl_step cmp pred w hd o = Ok (out, w') /\ swinv w'.
Proof. exact slist_wf_preserved. Qed.
Print Assumptions C04_slist_wf_preserved.

(** A duplicate-free sequence of non-null node ids, head = first, tail = last, next links it forward and ends in
    NULL ([sseg]), size = its length, the heap holds exactly these nodes. *)
Theorem C04_slist_wf_explicit : forall w, swinv w ->
  (exists l : list (N * N),
     NoDup (map fst l) /\ ~ In 0 (map fst l) /\
     sl_head (swa w) = first_id l 0 /\ sl_tail (swa w) = last_id l 0 /\ sl_size (swa w) = lenN l /\
     sseg (sl_heap (swa w)) l 0 /\ (forall x, shget (sl_heap (swa w)) x <> None <-> In x (map fst l)) /\
     sl_abs (swa w) = map snd l) /\
  (exists l : list (N * N),
     NoDup (map fst l) /\ ~ In 0 (map fst l) /\
     sl_head (swb w) = first_id l 0 /\ sl_tail (swb w) = last_id l 0 /\ sl_size (swb w) = lenN l /\
     sseg (sl_heap (swb w)) l 0 /\ (forall x, shget (sl_heap (swb w)) x <> None <-> In x (map fst l)) /\
     sl_abs (swb w) = map snd l).
Proof. exact swinv_slist_wf. Qed.
Print Assumptions C04_slist_wf_explicit.

Theorem C04_slist_step_refines : forall cmp pred w hd o, swinv w -> smem_ok w o ->
  exists out w' fl, sl_step cmp pred w hd o = Ok (out, w') /\ swinv w' /\
    (out, swabs w') = sspec_step cmp pred (swabs w) hd o fl /\ aframe (swal w) (swal w') /\
    (fl = true -> plan (swal w) <> [] \/ limit (swal w) < sreq_bytes (spsel (swabs w) hd) o) /\
    (sl_mem (swa w') = sl_mem (swa w) /\ sl_mem (swb w') = sl_mem (swb w)).
Proof. exact slist_step_refines. Qed.
Print Assumptions C04_slist_step_refines.

Theorem C04_slist_bulk : forall cmp pred w hd o, swinv w -> smem_ok w o ->
  exists out w' fl, sl_step cmp pred w hd o = Ok (out, w') /\ swinv w' /\
    (out, swabs w') = sspec_step cmp pred (swabs w) hd o fl /\
    match o with
    | SAddAll | SAddAllAt _ => swget w' (swother hd) = swget w (swother hd)
    | SSplice | SSpliceAt _ =>
        swget w' (swother hd) = swget w (swother hd) \/
        (swget w' (swother hd) = semptied (swget w (swother hd)) /\ sl_abs (swget w' (swother hd)) = [] /\
         sl_get_size (swget w' (swother hd)) = 0)
    | _ => True
    end.
Proof. exact slist_bulk. Qed.
Print Assumptions C04_slist_bulk.

Theorem C04_slist_run_refines : forall cmp pred mema memb a0 sa a1 sb a2 ops,
  lok a0 -> live a0 = [] -> sl_new mema a0 = (CC_OK, Some sa, a1) -> sl_new memb a1 = (CC_OK, Some sb, a2) ->
  (shas_splice ops = true -> mema = memb) ->
  exists outs w' fls, sl_run cmp pred {| swa := sa; swb := sb; swal := a2 |} ops = Ok (outs, w') /\ swinv w' /\
    length fls = length ops /\ (outs, swabs w') = sspec_run cmp pred ([], []) ops fls /\
    (plan a0 = [] -> sfls_ok cmp pred (limit a0) ([], []) ops fls).
Proof. exact slist_new_run_refines. Qed.
Print Assumptions C04_slist_run_refines.

(** cc_list_reduce on a well-formed list: refused when empty, [fn x NULL] for one element, otherwise the left fold
    over the elements in list order, each visited exactly once. *)
Theorem C04_list_reduce : forall fn s, lwf s ->
  cl_reduce fn s = Ok (match cl_abs s with
                       | [] => (CC_ERR_OUT_OF_RANGE, 0)
                       | [x] => (CC_OK, fn x 0)
                       | x :: y :: rest => (CC_OK, fold_left fn rest (fn x y))
                       end).
Proof. exact reduce_abs. Qed.
Print Assumptions C04_list_reduce.

Example C04_slist_inv_nonvacuous : exists w, swinv w /\ swabs w = ([3; 1; 2; 7], [7]).
Proof.
  destruct (sl_new Conf (alloc_init [] W)) as [[st1 [sa|]] a1] eqn:E1; [|vm_compute in E1; discriminate].
  destruct (sl_new Libc a1) as [[st2 [sb|]] a2] eqn:E2; [|vm_compute in E1; inversion E1; subst; vm_compute in E2; discriminate].
  assert (st1 = CC_OK /\ st2 = CC_OK) as [-> ->].
  { vm_compute in E1. inversion E1; subst. vm_compute in E2. inversion E2; subst. auto. }
  assert (Hk : lok (alloc_init [] W)) by (split; [apply ledger_ok_init|cbn; lia]).
  destruct (slist_new_run_refines cmp_val pred_even Conf Libc (alloc_init [] W) sa a1 sb a2
              [(SHA, SAddLast 1); (SHA, SAddLast 2); (SHB, SAddFirst 7); (SHA, SAddFirst 3); (SHA, SAddAll)]
              Hk eq_refl E1 E2 ltac:(cbn; discriminate)) as (outs & w' & fls & E & Hw & _).
  exists w'. split; [exact Hw|].
  vm_compute in E1. inversion E1; subst. vm_compute in E2. inversion E2; subst. vm_compute in E. inversion E; subst. reflexivity.
Qed.
