(** C19 - CC_Rbuf is a bounded FIFO that overwrites only the oldest item.
    Only statements, each closed by [exact]; proofs live in Rbuf/RbufProofs.v. *)
From CC Require Import Base.Prelude Base.Alloc Generated.Status Rbuf.RbufModel Rbuf.RbufProofs.
Local Open Scope N_scope.

(** Every history, from the constructor, any capacity >= 1 (capacity*8 must be a representable
    allocation size): statuses, out-values and the held items are those of the bounded FIFO,
    and no step faults (the run returns [Ok]). *)
Theorem C19_run_refines : forall mem c a st r a' ops,
  0 < c -> c * 8 < W -> rb_new mem c a = Ok (st, Some r, a') ->
  exists outs r', rb_run r ops = Ok (outs, r') /\ rb_inv r' /\ (outs, rb_abs r') = spec_run c [] ops.
Proof. exact rb_new_run_refines. Qed.
Print Assumptions C19_run_refines.

(** One step from any state satisfying the invariant (every layout: any tail, any fill level). *)
Theorem C19_step_refines : forall r o,
  rb_inv r ->
  exists out r', rb_step r o = Ok (out, r') /\ rb_inv r' /\ rb_cap r' = rb_cap r /\
                 (out, rb_abs r') = spec_step (rb_cap r) (rb_abs r) o.
Proof. exact rb_step_refines. Qed.
Print Assumptions C19_step_refines.

Theorem C19_size_is_count : forall r, rb_inv r -> rb_size r = lenN (rb_abs r) /\ rb_size r <= rb_cap r.
Proof. exact rb_size_is_count. Qed.
Print Assumptions C19_size_is_count.

Theorem C19_dequeue_empty_inert : forall r,
  rb_inv r -> rb_size r = 0 -> rb_dequeue r = Ok (CC_ERR_OUT_OF_RANGE, None, r).
Proof. exact rb_dequeue_empty_inert. Qed.
Print Assumptions C19_dequeue_empty_inert.

(** Non-vacuity: a wrapped, exactly full state satisfies the invariant. *)
Example C19_inv_nonvacuous :
  rb_inv {| rb_buf := [Some 7; Some 8; Some 9]; rb_head := 2; rb_tail := 2; rb_size := 3; rb_cap := 3;
            rb_hdr := 1; rb_blk := 2; rb_mem := Conf |}.
Proof.
  constructor; cbn; unfold W; try lia.
  intros i Hi. assert (H : i = 0 \/ i = 1 \/ i = 2) by lia.
  destruct H as [ -> | [ -> | -> ] ]; vm_compute; eauto.
Qed.
