(** C05 - CC_Deque is an ideal double-ended sequence in every physical layout (statements only). *)
From CC Require Import Base.Prelude Base.Alloc Generated.Status Deque.DequeModel.
