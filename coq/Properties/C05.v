(** C05 - CC_Deque is an ideal double-ended sequence in every physical layout.
    Only statements, each closed by [exact]; the proofs live in Deque/DequeProofs*.v.
    State-level theorems quantify over every layout: any capacity 2^k (k <= 31), any [first], any fill
    level, through the invariant [dq_inv]; [owns d a] says that the header and the buffer of [d] are
    live blocks of the ledger [a] (needed because growth and trimming release the old buffer). *)
From CC Require Import Base.Prelude Base.Alloc Base.AllocProofs Generated.Status Generated.Constants.
From CC Require Import Deque.DequeModel Deque.DequeProofs Deque.DequeProofs2 Deque.DequeProofs3 Deque.DequeProofs4.
Local Open Scope N_scope.

(** The invariant (capacity = 2^k = number of allocated slots, cursors in range, last = (first + size)
    mod capacity, live slots written) is preserved by every operation; for add_at under the branch guard. *)
Theorem C05_inv_preserved : forall d a o out d' a',
  dq_inv d -> owns d a -> op_ok d o -> dq_step d a o = Ok (out, d', a') ->
  dq_inv d' /\ owns d' a' /\ dq_hdr d' = dq_hdr d /\ dq_mem d' = dq_mem d.
Proof. exact dq_step_inv. Qed.
Print Assumptions C05_inv_preserved.

(** Index i always refers to the i-th element from the front: get_at answers from the abstraction, for every
    index of the whole domain, and reads slot (first + i) mod capacity. *)
Theorem C05_index : forall d, dq_inv d ->
  (forall i, dq_get_at d i = Ok (match getN (dq_abs d) i with
                                 | Some v => (CC_OK, Some v) | None => (CC_ERR_OUT_OF_RANGE, None) end)) /\
  (forall i, i < dq_size d ->
     phys d i = (dq_first d + i) mod dq_cap d /\ getN (dq_slots d) (phys d i) = Some (getN (dq_abs d) i)) /\
  lenN (dq_abs d) = dq_size d.
Proof. exact dq_index. Qed.
Print Assumptions C05_index.

(** Every operation except add_at: no fault, the invariant again, and status, out-values and content are
    those of the ideal list - or, for the allocating ones, CC_ERR_ALLOC with the whole state unchanged. *)
Theorem C05_step_refines : forall d a o,
  dq_inv d -> owns d a -> (forall x i, o <> OAddAt x i) ->
  exists out d' a', dq_step d a o = Ok (out, d', a') /\ step_post d a o out d' a'.
Proof. exact dq_step_refines_no_add_at. Qed.
Print Assumptions C05_step_refines.

(** add_at refines the ideal insertion in the branches index 0 / plain right shift / wrapped right shift with
    two free slots (the model's own classifier, evaluated on the layout after a possible growth). *)
Theorem C05_add_at_partial : forall d a x i,
  dq_inv d -> owns d a -> add_at_branch_ok d i = true ->
  exists out d' a', dq_step d a (OAddAt x i) = Ok (out, d', a') /\ step_post d a (OAddAt x i) out d' a'.
Proof. exact deque_add_at_partial. Qed.
Print Assumptions C05_add_at_partial.

(** ... and not in general: a reachable state and an index in range where the result is not the ideal
    insertion (capacity 8, [1;2;3;4] from slot 0, add_at 9 1 gives [1;2;9;3;4]). *)
Theorem C05_add_at_refuted :
  exists d a x i, dq_inv d /\ owns d a /\ i < dq_size d /\
    exists d' a', dq_add_at d x i a = Ok (CC_OK, d', a') /\ dq_abs d' <> ins (dq_abs d) i x /\
                  add_at_branch_ok d i = false.
Proof. exact deque_add_at_refuted. Qed.
Print Assumptions C05_add_at_refuted.

(** Growth, trimming and copying preserve the element order (and the invariant); a copy holds the
    [cp] images in source order. *)
Theorem C05_growth_trim_copy_preserve : forall d a, dq_inv d -> owns d a ->
  (forall st d' a', dq_expand d a = Ok (st, d', a') ->
     dq_inv d' /\ dq_abs d' = dq_abs d /\ owns d' a' /\ (st = CC_OK -> dq_cap d' = 2 * dq_cap d) /\ (st <> CC_OK -> d' = d)) /\
  (forall st d' a', dq_trim d a = Ok (st, d', a') ->
     dq_inv d' /\ dq_abs d' = dq_abs d /\ owns d' a' /\ (st = CC_OK \/ st = CC_ERR_ALLOC /\ d' = d) /\
     (st = CC_OK -> dq_cap d' = if dq_cap d =? dq_size d then dq_cap d else upper_pow_two (dq_size d))) /\
  (forall cp st d2 a', dq_copy d cp a = Ok (st, Some d2, a') ->
     dq_inv d2 /\ dq_abs d2 = copy_image cp (dq_abs d) /\ owns d2 a' /\ owns d a' /\ dq_cap d2 = dq_cap d /\ dq_mem d2 = dq_mem d).
Proof. exact growth_trim_copy_preserve. Qed.
Print Assumptions C05_growth_trim_copy_preserve.

(** upper_pow_two (the or-shift cascade) returns the least power of two >= n for 0 < n <= MAX_POW_TWO. *)
Theorem C05_upper_pow_two : forall n, 0 < n -> n <= MAX_POW_TWO ->
  exists k, k <= 31 /\ upper_pow_two n = 2 ^ k /\ n <= 2 ^ k /\ forall k', n <= 2 ^ k' -> k <= k'.
Proof. exact upper_pow_two_spec. Qed.
Print Assumptions C05_upper_pow_two.

(** Every history from cc_deque_new_conf, for every configured capacity (0, powers of two or not, beyond
    MAX_POW_TWO), every allocator family and every refusal pattern: no fault, and the outputs and the final
    content are those of the ideal list run, with CC_ERR_ALLOC answers as stutters.  [ops_ok] restricts
    add_at to its correct branches along the run; histories without add_at satisfy it ([no_add_at_ok]). *)
Theorem C05_run_refines : forall mem capacity a ops st d a1,
  ledger_ok a -> 0 < next_id a ->
  dq_new_conf mem capacity a = Ok (st, Some d, a1) -> ops_ok d a1 ops ->
  dq_inv d /\ dq_abs d = [] /\
  exists outs d' a', dq_run d a1 ops = Ok (outs, d', a') /\ dq_inv d' /\ owns d' a' /\
                     (outs, dq_abs d') = spec_run [] ops (map is_alloc_err outs).
Proof. exact dq_new_run_refines. Qed.
Print Assumptions C05_run_refines.

Theorem C05_run_no_add_at : forall ops, no_add_at ops -> forall d a, ops_ok d a ops.
Proof. exact no_add_at_ok. Qed.
Print Assumptions C05_run_no_add_at.

(** Non-vacuity: an exactly full, wrapped layout (capacity 4, first = 3) satisfies the invariant. *)
Example C05_inv_nonvacuous :
  dq_inv {| dq_size := 4; dq_cap := 4; dq_first := 3; dq_last := 3;
            dq_slots := [Some 12; Some 13; Some 14; Some 11]; dq_hdr := 1; dq_buf := 2; dq_mem := Conf |}.
Proof.
  constructor.
  - constructor; cbn; try lia; try reflexivity. exists 2. split; [lia|reflexivity].
  - cbn [dq_size dq_first dq_cap dq_slots]. intros i Hi.
    assert (H : i = 0 \/ i = 1 \/ i = 2 \/ i = 3) by lia.
    destruct H as [ -> | [ -> | [ -> | -> ] ] ]; vm_compute; eauto.
Qed.
