(** C02 - CC_HashTable / CC_HashSet are exact maps / sets under every configuration.
    Only statements, each closed by [exact]; proofs live in Hash/HashProofs*.v.

    In every theorem [hash : N -> N] (seed and key length already applied) and [keq : N -> N -> bool]
    ([keq a b = true] iff [key_cmp(a, b) == 0]) are universally quantified; the only premises on them are
    that the comparator is an equivalence on non-NULL keys and that equal keys hash equally. A hash
    function sending every key to one bucket satisfies them. The NULL key is the word 0, equal only to
    itself ([keqn]). [L0] is the part of the allocation ledger that does not belong to the table. *)
From Coq Require Import Permutation.
From CC Require Import Base.Prelude Base.ListMem Base.Alloc Base.AllocProofs Generated.Status Generated.Constants.
From CC Require Import Hash.HashModel Hash.HashProofsA Hash.HashProofsB Hash.HashProofsC Hash.HashProofsD
                       Hash.HashProofsE Hash.HashProofsF.
Local Open Scope N_scope.

Section C02.
Variable hash : N -> N.
Variable keq : N -> N -> bool.
Hypothesis keq_refl : forall a, a <> 0 -> keq a a = true.
Hypothesis keq_sym : forall a b, a <> 0 -> b <> 0 -> keq a b = keq b a.
Hypothesis keq_trans : forall a b c, a <> 0 -> b <> 0 -> c <> 0 -> keq a b = true -> keq b c = true -> keq a c = true.
Hypothesis hash_compat : forall a b, a <> 0 -> b <> 0 -> keq a b = true -> hash a = hash b.

(** What the invariant says: capacity = 2^p = number of buckets; every entry sits in the bucket selected
    by its cached hash, which is the hash of its key (0 for the NULL key, hence only in bucket 0); keys
    pairwise different up to the comparator across the whole table; size = number of entries; header,
    bucket array and one block per entry are live, distinct and carry the table's allocator tag. *)
Theorem C02_inv_facts : forall L0 t a, ht_inv hash keq L0 t a ->
  (exists p, p <= 31 /\ ht_cap t = 2 ^ p) /\ lenN (ht_buckets t) = ht_cap t /\
  (forall j c e, getN (ht_buckets t) j = Some c -> In e c ->
     N.land (e_hash e) (ht_cap t - 1) = j /\ e_hash e = (if e_key e =? 0 then 0 else hash (e_key e)) /\
     (e_key e = 0 -> j = 0)) /\
  nodup_k keq (keys t) /\ ht_size t = lenN (entries t) /\ nodup_keys keq (ht_abs t) /\
  (forall id, In id (ids t) -> exists n, In {| b_id := id; b_tag := ht_mem t; b_bytes := n |} (live a)) /\ NoDup (ids t).
Proof. exact (ht_inv_facts hash keq keq_refl keq_sym keq_trans hash_compat). Qed.

(** One operation from ANY state satisfying the invariant (any capacity, load factor, chain layout): it
    does not fault, keeps the invariant, and either answers and changes the abstract map exactly as the
    ideal association map does (enumerations up to order), or - only add / get_keys / get_values - reports
    an allocation failure / the capacity ceiling and leaves the abstract map as it was. *)
Theorem C02_step_refines : forall L0 t a o, ht_inv hash keq L0 t a ->
  exists out t' a', ht_step hash keq t o a = Ok (out, t', a') /\ ht_inv hash keq L0 t' a' /\
    ht_num t' = ht_num t /\ ht_den t' = ht_den t /\ ht_mem t' = ht_mem t /\ limit a' = limit a /\
    (plan a = [] -> plan a' = []) /\ ht_size t' <= ht_size t + 1 /\
    ((out_equiv out (fst (spec_step keq (ht_abs t) o)) /\ Permutation (ht_abs t') (snd (spec_step keq (ht_abs t) o)))
     \/ (may_alloc o = true /\ fail_stat (o_st out) /\ out = out_st (o_st out) /\
         Permutation (ht_abs t') (ht_abs t) /\ ht_size t' = ht_size t /\
         (plan a = [] -> 2 ^ 37 <= limit a -> ht_size t < 2 ^ 32 ->
          o_st out = CC_ERR_MAX_CAPACITY /\ ht_cap t = MAX_POW_TWO /\ ht_thr t <= ht_size t))).
Proof. exact (ht_step_refines hash keq keq_refl keq_sym keq_trans hash_compat). Qed.

(** The invariant is preserved by every operation (corollary, stated on its own). *)
Theorem C02_inv_preserved : forall L0 t a o out t' a', ht_inv hash keq L0 t a ->
  ht_step hash keq t o a = Ok (out, t', a') -> ht_inv hash keq L0 t' a'.
Proof. exact (ht_step_inv hash keq keq_refl keq_sym keq_trans hash_compat). Qed.

(** Lookups are those of the ideal map. *)
Theorem C02_get : forall t k, ht_wf hash keq t ->
  ht_get hash keq t k = Ok (match m_get keq (ht_abs t) k with Some v => (CC_OK, Some v) | None => (CC_ERR_KEY_NOT_FOUND, None) end).
Proof. exact (ht_get_spec hash keq keq_refl keq_sym keq_trans hash_compat). Qed.

(** A successful resize keeps exactly the same bindings: the abstract map is a permutation of the old one
    (nothing lost or duplicated), the new table satisfies the invariant at the doubled capacity (nothing
    misplaced), every lookup answers as before. *)
Theorem C02_resize_preserves : forall L0 t a nc t' a',
  ht_inv hash keq L0 t a -> nc = (N.shiftl (ht_cap t) 1) mod W -> ht_resize t nc a = Ok (CC_OK, t', a') ->
  ht_inv hash keq L0 t' a' /\ Permutation (ht_abs t') (ht_abs t) /\ ht_size t' = ht_size t /\ ht_cap t' = 2 * ht_cap t /\
  (forall k, ht_get hash keq t' k = ht_get hash keq t k).
Proof. exact (ht_resize_preserves hash keq keq_refl keq_sym keq_trans hash_compat). Qed.

(** get_keys / get_values / foreach_key / foreach_value / a full iterator traversal list exactly the
    bindings of the ideal map, each key once. *)
Theorem C02_enumeration : forall L0 t a m, ht_inv hash keq L0 t a -> Permutation (ht_abs t) m ->
  nodup_k keq (map fst m) /\
  (exists ks, ht_foreach e_key t = Ok ks /\ Permutation ks (map fst m)) /\
  (exists vs, ht_foreach e_val t = Ok vs /\ Permutation vs (map snd m)) /\
  (forall st ar a', ht_get_keys t a = Ok (st, Some ar, a') -> st = CC_OK /\ Permutation (ar_items ar) (map fst m)) /\
  (forall st ar a', ht_get_values t a = Ok (st, Some ar, a') -> st = CC_OK /\ Permutation (ar_items ar) (map snd m)) /\
  (exists ys, ht_iter_all hash keq t [] a = Ok (ys, [], t, a) /\ Permutation ys m).
Proof. exact (ht_enumeration hash keq keq_refl keq_sym keq_trans hash_compat). Qed.

(** Iterator, step by step: a fresh iterator stands before all entries; [iter_next] yields the next
    not-yet-visited entry (ITER_END when none is left). *)
Theorem C02_iter_fresh : forall t, lenN (ht_buckets t) = ht_cap t ->
  exists it, ht_iter_init t = Ok it /\ iter_pos (ht_buckets t) it (concat (ht_buckets t)) /\ it_prev it = 0.
Proof. exact iter_init_pos. Qed.
Theorem C02_iter_next : forall t it rem,
  lenN (ht_buckets t) = ht_cap t -> ht_cap t < W - 1 -> ids_ok (ht_buckets t) -> iter_pos (ht_buckets t) it rem ->
  match rem with
  | [] => ht_iter_next t it = Ok (CC_ITER_END, None, it)
  | e :: r => exists it', ht_iter_next t it = Ok (CC_OK, Some (kv e), it') /\ iter_pos (ht_buckets t) it' r /\
                          it_prev it' = e_id e
  end.
Proof. exact iter_next_spec. Qed.

(** Removal through the iterator right after the yield of [e]: exactly [e] is deleted (the entries before
    and after it are untouched, in order) and the iterator will still yield exactly the not-yet-visited
    entries [r]. *)
Theorem C02_iter_remove : forall L0 t a it vis e r,
  ht_inv hash keq L0 t a -> entries t = vis ++ e :: r -> iter_pos (ht_buckets t) it r -> it_prev it = e_id e ->
  exists t' a', ht_iter_remove hash keq t it a = Ok (CC_OK, Some (e_val e), t', a') /\ ht_inv hash keq L0 t' a' /\
    entries t' = vis ++ r /\ iter_pos (ht_buckets t') it r /\
    ht_cap t' = ht_cap t /\ ht_thr t' = ht_thr t /\ ht_num t' = ht_num t /\ ht_den t' = ht_den t /\ ht_mem t' = ht_mem t /\
    plan a' = plan a /\ limit a' = limit a.
Proof. exact (iter_remove_spec hash keq keq_refl keq_sym keq_trans hash_compat). Qed.

(** A whole traversal removing the yielded entries whose key is in [rm]: every binding is yielded once,
    every removal succeeds, exactly the listed keys are gone afterwards. *)
Theorem C02_iter_traversal : forall L0 t a rm, ht_inv hash keq L0 t a ->
  exists t' a', ht_iter_all hash keq t rm a =
      Ok (ht_abs t, map (fun _ => CC_OK) (filter (fun kv => inrm rm (fst kv)) (ht_abs t)), t', a') /\
    ht_inv hash keq L0 t' a' /\ ht_abs t' = filter (fun kv => negb (inrm rm (fst kv))) (ht_abs t) /\
    ht_cap t' = ht_cap t /\ ht_thr t' = ht_thr t /\ ht_num t' = ht_num t /\ ht_den t' = ht_den t /\ ht_mem t' = ht_mem t /\
    plan a' = plan a /\ limit a' = limit a /\ ht_size t' <= ht_size t.
Proof. exact (ht_iter_all_spec hash keq keq_refl keq_sym keq_trans hash_compat). Qed.

(** Histories from any state whose abstract map is (a permutation of) [m]. *)
Theorem C02_run_refines_from : forall L0 ops t a m,
  ht_inv hash keq L0 t a -> Permutation (ht_abs t) m ->
  exists outs t' a', ht_run hash keq t ops a = Ok (outs, t', a') /\ ht_inv hash keq L0 t' a' /\
    ht_num t' = ht_num t /\ ht_den t' = ht_den t /\ ht_mem t' = ht_mem t /\
    exists m', run_rel keq m ops outs m' /\ Permutation (ht_abs t') m'.
Proof. exact (ht_run_refines hash keq keq_refl keq_sym keq_trans hash_compat). Qed.

(** Histories from the constructor: every initial capacity (0 .. 2^64-1, rounded as round_pow_two does),
    load factor num/den, seed, allocator family, fault plan. The run never faults, its outputs are those of
    the ideal map started empty (allocating operations may report failure and then change nothing), and
    destroy returns the ledger to what it was before the constructor. *)
Theorem C02_run_refines : forall mem initial num den seed a ops,
  ledger_ok a -> 0 < next_id a ->
  exists st ot a1, ht_new mem initial num den seed a = Ok (st, ot, a1) /\
    match ot with
    | None => st = CC_ERR_ALLOC /\ live a1 = live a
    | Some t =>
        st = CC_OK /\ ht_cap t = round_pow_two initial /\
        exists outs t' a', ht_run hash keq t ops a1 = Ok (outs, t', a') /\ ht_inv hash keq (live a) t' a' /\
          (exists m', run_rel keq [] ops outs m' /\ Permutation (ht_abs t') m') /\
          exists a'', ht_destroy t' a' = Ok a'' /\ live a'' = live a
    end.
Proof. exact (ht_new_run_refines hash keq keq_refl keq_sym keq_trans hash_compat). Qed.

(** ... and the failure alternative is not a loophole: when the allocator grants every request (empty
    plan, limit >= 2^37 bytes) and fewer than 2^32 entries are ever held, no operation reports an allocation
    failure; the only non-ideal status left is CC_ERR_MAX_CAPACITY at capacity 2^31. *)
Theorem C02_no_spurious_failure : forall L0 ops t a outs t' a',
  ht_inv hash keq L0 t a -> plan a = [] -> 2 ^ 37 <= limit a -> ht_size t + lenN ops < 2 ^ 32 ->
  ht_run hash keq t ops a = Ok (outs, t', a') ->
  Forall (fun out => fail_stat (o_st out) -> o_st out = CC_ERR_MAX_CAPACITY) outs.
Proof. exact (ht_run_no_spurious_failure hash keq keq_refl keq_sym keq_trans hash_compat). Qed.

(** CC_HashSet: one step, and whole histories from cc_hashset_new_conf to cc_hashset_destroy. *)
Theorem C02_hashset_refines : forall L0 s a o, hs_inv hash keq L0 s a ->
  exists out s' a', hs_step hash keq s o a = Ok (out, s', a') /\ hs_inv hash keq L0 s' a' /\
    ((out_equiv out (fst (spec_set_step keq (hs_abs s) o)) /\ Permutation (hs_abs s') (snd (spec_set_step keq (hs_abs s) o)))
     \/ ((exists k, o = SAdd k) /\ fail_stat (o_st out) /\ out = out_st (o_st out) /\ Permutation (hs_abs s') (hs_abs s))).
Proof. exact (hs_step_refines hash keq keq_refl keq_sym keq_trans hash_compat). Qed.

Theorem C02_hashset_run_refines : forall mem initial num den seed a ops,
  ledger_ok a -> 0 < next_id a ->
  exists st os a1, hs_new mem initial num den seed a = Ok (st, os, a1) /\
    match os with
    | None => st = CC_ERR_ALLOC /\ live a1 = live a
    | Some s =>
        st = CC_OK /\
        exists outs s' a', hs_run hash keq s ops a1 = Ok (outs, s', a') /\ hs_inv hash keq (live a) s' a' /\
          (exists l', set_run_rel keq [] ops outs l' /\ Permutation (hs_abs s') l') /\
          exists a'', hs_destroy s' a' = Ok a'' /\ live a'' = live a
    end.
Proof. exact (hs_new_run_refines hash keq keq_refl keq_sym keq_trans hash_compat). Qed.

End C02.

Print Assumptions C02_inv_facts.
Print Assumptions C02_step_refines.
Print Assumptions C02_inv_preserved.
Print Assumptions C02_get.
Print Assumptions C02_resize_preserves.
Print Assumptions C02_enumeration.
Print Assumptions C02_iter_fresh.
Print Assumptions C02_iter_next.
Print Assumptions C02_iter_remove.
Print Assumptions C02_iter_traversal.
Print Assumptions C02_run_refines_from.
Print Assumptions C02_run_refines.
Print Assumptions C02_no_spurious_failure.
Print Assumptions C02_hashset_refines.
Print Assumptions C02_hashset_run_refines.

(** Non-vacuity: with the constant hash (every key in one bucket) and pointer identity as comparator the
    hypotheses hold, and the table reached from capacity 1 / load factor 3/4 by inserting 4, 8, NULL, 5
    (three resizes on the way) satisfies the invariant with all four entries in ONE chain of an 8-bucket table. *)
Example C02_inv_nonvacuous :
  exists t a, ht_inv (fun _ => 0) N.eqb [] t a /\ ht_size t = 4 /\ ht_cap t = 8 /\
              map (fun c => lenN c) (ht_buckets t) = [4; 0; 0; 0; 0; 0; 0; 0] /\ In (0, 3) (ht_abs t).
Proof.
  assert (R : forall a, a <> 0 -> N.eqb a a = true) by (intros; apply N.eqb_refl).
  assert (S : forall a b, a <> 0 -> b <> 0 -> N.eqb a b = N.eqb b a) by (intros; apply N.eqb_sym).
  assert (T : forall a b c, a <> 0 -> b <> 0 -> c <> 0 -> N.eqb a b = true -> N.eqb b c = true -> N.eqb a c = true).
  { intros a b c _ _ _ H1 H2. apply N.eqb_eq in H1, H2. apply N.eqb_eq. congruence. }
  assert (H : forall a b : N, a <> 0 -> b <> 0 -> N.eqb a b = true -> (fun _ : N => 0) a = (fun _ : N => 0) b) by reflexivity.
  destruct (C02_run_refines (fun _ => 0) N.eqb R S T H Conf 1 3 4 0 (alloc_init [] (2 ^ 40))
              [HAdd 4 1; HAdd 8 2; HAdd 0 3; HAdd 5 4] (ledger_ok_init _ _) ltac:(cbn; lia))
    as (st & ot & a1 & E & Hcase).
  vm_compute in E. inversion E; subst; clear E.
  destruct Hcase as (_ & _ & outs & t' & a' & Er & Hi & _).
  vm_compute in Er. inversion Er; subst; clear Er.
  do 2 eexists. split; [exact Hi|]. vm_compute. auto 10.
Qed.
