(** C17 - CC_TreeTable stays balanced: logarithmic comparisons for every history.
    Only statements, each closed by [exact]; proofs live in Tree/TreeProofs*.v (collected in Tree/TreeTheorems.v).
    [cmp_ok cmp]: the comparator is a strict total order up to its equivalence (reflexive-zero, antisymmetric
    sign, transitive, equal keys compare alike).  [rb_inv]: root black, no red-red, equal black heights,
    strictly ascending in-order keys.  [o_cmps out] is the number of comparator calls made by the call. *)
From Coq Require Import Sorted.
From CC Require Import Base.Prelude Base.Alloc Base.AllocProofs Generated.Status Tree.TreeModel.
From CC Require Import Tree.TreeProofsInv Tree.TreeProofsTable Tree.TreeProofsRun Tree.TreeTheorems.
Local Open Scope nat_scope.

(** State level: a red-black tree of n keys has height at most 2*floor(log2(n+1)). *)
Theorem C17_height : forall cmp, cmp_ok cmp -> forall t,
  rb_inv cmp t -> height t <= 2 * Nat.log2 (tsize t + 1).
Proof. exact T_height. Qed.
Print Assumptions C17_height.

(** The run-time validator applied to the dumped C tree decides exactly [rb_inv]. *)
Theorem C17_rb_inv_b : forall cmp, cmp_ok cmp -> forall t, rb_inv_b cmp t = true <-> rb_inv cmp t.
Proof. exact T_rb_inv_b. Qed.
Print Assumptions C17_rb_inv_b.

(** Every public call on a table holding n keys: lookup / removal make at most [height] comparator calls,
    insertion at most [height + 1]; hence at most 2*floor(log2(n+1)) + 2 (n = keys before the call). *)
Theorem C17_cmp_calls : forall cmp, cmp_ok cmp -> forall s a o out s' a',
  tt_inv cmp s a -> tt_step cmp s a o = Ok (out, s', a') ->
  N.to_nat (o_cmps out) <= height (tt_tree s) + (match o with OAdd _ _ => 1 | _ => 0 end) /\
  height (tt_tree s) <= 2 * Nat.log2 (tsize (tt_tree s) + 1) /\
  N.to_nat (o_cmps out) <= 2 * Nat.log2 (tsize (tt_tree s) + 1) + 2.
Proof. exact T_cmp_calls. Qed.
Print Assumptions C17_cmp_calls.

(** Insertion (new key or replacement, granted or refused allocation) preserves the red-black invariant. *)
Theorem C17_add_rb : forall cmp, cmp_ok cmp -> forall s a k v out s' a',
  tt_inv cmp s a -> (N.of_nat (tsize (tt_tree s)) + 1 < W)%N ->
  tt_step cmp s a (OAdd k v) = Ok (out, s', a') -> rb_inv cmp (tt_tree s') /\ tt_inv cmp s' a'.
Proof. exact T_add_rb. Qed.
Print Assumptions C17_add_rb.

(** Removal by key, of the first / last entry, of everything, and through the iterator preserves it. *)
Theorem C17_remove_rb : forall cmp, cmp_ok cmp -> forall s a o out s' a',
  is_removal o = true -> tt_inv cmp s a -> (N.of_nat (tsize (tt_tree s)) + 1 < W)%N ->
  tt_step cmp s a o = Ok (out, s', a') -> rb_inv cmp (tt_tree s') /\ tt_inv cmp s' a'.
Proof. exact T_remove_rb. Qed.
Print Assumptions C17_remove_rb.

(** All histories (any operations, any fault plan) from the empty table: after every operation the tree is
    red-black and the call stayed within the bound.  [run_balanced] unfolds the history step by step. *)
Theorem C17_run_balanced : forall cmp, cmp_ok cmp -> forall mem a0 st s a ops,
  ledger_ok a0 -> (0 < next_id a0)%N -> tt_new mem a0 = Ok (st, Some s, a) ->
  (N.of_nat (length ops) < W)%N -> run_balanced cmp s a ops.
Proof. exact T_new_run_balanced. Qed.
Print Assumptions C17_run_balanced.

(** ... and from any state satisfying the invariant. *)
Theorem C17_run_balanced_from : forall cmp, cmp_ok cmp -> forall ops s a,
  tt_inv cmp s a -> (N.of_nat (tsize (tt_tree s)) + N.of_nat (length ops) < W)%N -> run_balanced cmp s a ops.
Proof. exact T_run_balanced. Qed.
Print Assumptions C17_run_balanced_from.

(** Non-vacuity: the usual order on machine words is an admissible comparator, and a 6-key tree with red
    nodes on both sides satisfies the invariant. *)
Example C17_nonvacuous :
  cmp_ok N.compare /\
  rb_inv N.compare (T B (T R (T B L 1 0 L) 2 0 (T B L 3 0 L)) 4 0 (T B L 5 0 (T R L 6 0 L)))%N.
Proof.
  split; [exact N_compare_ok|]. apply (T_rb_inv_b N.compare N_compare_ok). vm_compute. reflexivity.
Qed.
