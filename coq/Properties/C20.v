(** C20 - growth is geometric and capacity invariants always hold.
    size <= capacity is part of every buffer engine's invariant; deque and hash-table capacities are powers of
    two; trimming yields max 1 size (array) / the next power of two (deque) and preserves contents; a hash table
    holds at most capacity x load-factor entries after every insertion provided 1 <= capacity x load-factor
    (refuted below that: known finding D38). Geometric growth: one expansion multiplies the capacity by the
    factor (array/pqueue: floor(c*num/den), at least c*(num+den)/(2den) once c*(num-den) >= 2den; deque and
    hash table: exactly 2), so k expansions reach c*r^k and n appends need O(log n) reallocations; the exact
    number of buffer allocations is compared between model and code by the ledger's request counter.
    (statements printed by Coq from the lemmas they are proved by - tools/mkprop.py; statements only) *)
From Coq Require Import Permutation Sorted.
From CC Require Import Base.Prelude Base.Alloc Base.Ledger Generated.Status Generated.Constants Generated.Guards Generated.Funcs.
From CC Require Import Rbuf.RbufModel SPool.SPoolModel DPool.DPoolModel Array.ArrayModel Deque.DequeModel PQueue.PQueueModel Hash.HashModel Tst.TstModel Tree.TreeModel.
From CC Require Import Array.ArrayMore Array.ArrayProofs Deque.DequeProofs5 Deque.DequeTie Hash.HashProofsE Hash.HashTie PQueue.PQueueProofs2.
Local Open Scope N_scope.

Theorem C20_array_size_le_capacity :
  forall (a : arr) (al : alloc_st), arr_inv a al -> a_size a <= a_cap a /\ 1 <= a_cap a.
Proof. exact CC.Array.ArrayMore.arr_size_le_capacity. Qed.
Print Assumptions C20_array_size_le_capacity.

(** capacity' = floor(capacity*num/den) > capacity, contents unchanged *)
Theorem C20_array_growth :
  forall (a : arr) (al : alloc_st),
         arr_inv a al ->
         lim_ok a al ->
         exists (st : stat) (a' : arr) (al' : alloc_st),
           ArrayModel.arr_expand a al = Ok (st, a', al') /\
           (st = CC_OK /\
            arr_inv a' al' /\
            lim_ok a' al' /\
            a_data a' = a_data a /\
            a_cap a < a_cap a' /\
            a_cap a' = a_cap a * a_num a / a_den a /\
            nreq al' = nreq al + 1 /\ a_mem a' = a_mem a /\ a_hdr a' = a_hdr a \/
            st = CC_ERR_ALLOC /\ a' = a /\ refused_once al al').
Proof. exact CC.Array.ArrayProofs.expand_spec. Qed.
Print Assumptions C20_array_growth.

(** the per-step growth factor *)
Theorem C20_array_growth_rate :
  forall c num den : N,
         0 < den -> den < num -> 2 * den <= c * (num - den) -> c * (num + den) <= c * num / den * (2 * den).
Proof. exact CC.Array.ArrayMore.growth_rate. Qed.
Print Assumptions C20_array_growth_rate.

(** trim: capacity = max 1 size *)
Theorem C20_array_trim :
  forall (a : arr) (al : alloc_st),
         arr_inv a al ->
         lim_ok a al ->
         exists (st : stat) (a' : arr) (al' : alloc_st),
           arr_trim a al = Ok (st, a', al') /\
           (st = CC_OK /\
            arr_inv a' al' /\
            lim_ok a' al' /\
            a_data a' = a_data a /\ a_cap a' = N.max 1 (a_size a) /\ a_mem a' = a_mem a /\ a_hdr a' = a_hdr a \/
            st = CC_ERR_ALLOC /\ a' = a /\ refused_once al al').
Proof. exact CC.Array.ArrayProofs.trim_spec. Qed.
Print Assumptions C20_array_trim.

(** known finding D11 (array) *)
Theorem C20_array_stuck_refuted :
  exists (a : arr) (al : alloc_st) (x : N),
           plan al = [] /\
           limit al = 1099511627776 /\
           a_size a = 1 /\
           a_cap a = 1 /\
           (exists (a' : arr) (al' : alloc_st),
              ArrayModel.arr_add a x al = Ok (CC_ERR_ALLOC, a', al') /\ a' = a).
Proof. exact CC.Array.ArrayMore.arr_growth_stuck_refuted. Qed.
Print Assumptions C20_array_stuck_refuted.

Theorem C20_pqueue_size_le_capacity :
  forall (cmp : N -> N -> Z) (lim : N) (s : pq),
         pq_inv cmp lim s -> pq_size s <= pq_cap s /\ lenN (pq_buf s) = pq_cap s.
Proof. exact CC.PQueue.PQueueProofs2.pqT_size_le_capacity. Qed.
Print Assumptions C20_pqueue_size_le_capacity.

Theorem C20_pqueue_growth_rate :
  forall cmp : N -> N -> Z,
         (forall a b : N, (cmp a b >= 0)%Z \/ (cmp b a >= 0)%Z) ->
         (forall a b c : N, (cmp a b >= 0)%Z -> (cmp b c >= 0)%Z -> (cmp a c >= 0)%Z) ->
         (forall a b : N, (cmp a b > 0)%Z <-> (cmp b a < 0)%Z) ->
         forall num den c : N,
         0 < den ->
         den < num ->
         2 * den <= c * (num - den) ->
         c * (num + den) <= grow_cap num den c * (2 * den) /\ 2 * den <= grow_cap num den c * (num - den).
Proof. exact CC.PQueue.PQueueProofs2.grow_cap_rate. Qed.
Print Assumptions C20_pqueue_growth_rate.

(** k expansions: c*(num+den)^k <= cap_k*(2den)^k *)
Theorem C20_pqueue_growth_iter :
  forall cmp : N -> N -> Z,
         (forall a b : N, (cmp a b >= 0)%Z \/ (cmp b a >= 0)%Z) ->
         (forall a b c : N, (cmp a b >= 0)%Z -> (cmp b c >= 0)%Z -> (cmp a c >= 0)%Z) ->
         (forall a b : N, (cmp a b > 0)%Z <-> (cmp b a < 0)%Z) ->
         forall (num den c : N) (k : nat),
         0 < den ->
         den < num ->
         2 * den <= c * (num - den) ->
         c * (num + den) ^ N.of_nat k <= Nat.iter k (grow_cap num den) c * (2 * den) ^ N.of_nat k.
Proof. exact CC.PQueue.PQueueProofs2.grow_cap_iter. Qed.
Print Assumptions C20_pqueue_growth_iter.

(** known finding D11: with capacity*(factor-1) < 1 the computed capacity does not grow and the next push fails forever *)
Theorem C20_pqueue_stuck_refuted :
  forall cmp : N -> N -> Z,
         exists (s : pq) (a : alloc_st) (x : N) (a' : alloc_st),
           plan a = [] /\
           pq_size s = 1 /\
           pq_inv cmp (limit a) s /\
           pq_led (limit a) [] s a /\
           pq_push cmp s x a = Ok (CC_ERR_ALLOC, s, a') /\ plan a' = [] /\ live a' = live a.
Proof. exact CC.PQueue.PQueueProofs2.pq_growth_stuck_refuted. Qed.
Print Assumptions C20_pqueue_stuck_refuted.

(** size <= capacity = 2^k *)
Theorem C20_deque_capacity :
  forall d : deque,
         DequeProofs.dq_inv d ->
         dq_size d <= dq_cap d /\
         (exists k : N, k <= 31 /\ dq_cap d = 2 ^ k) /\ lenN (dq_slots d) = dq_cap d /\ dq_cap d <= MAX_POW_TWO.
Proof. exact CC.Deque.DequeProofs5.deque_capacity_facts. Qed.
Print Assumptions C20_deque_capacity.

Theorem C20_deque_trim :
  forall (d : deque) (a : alloc_st) (st : stat) (d' : deque) (a' : alloc_st),
         DequeProofs.dq_inv d ->
         DequeProofs.owns d a ->
         dq_trim d a = Ok (st, d', a') ->
         st = CC_OK ->
         dq_cap d' = (if dq_cap d =? dq_size d then dq_cap d else upper_pow_two (dq_size d)) /\
         dq_size d' <= dq_cap d' /\ DequeProofs.dq_abs d' = DequeProofs.dq_abs d /\ dq_size d' = dq_size d.
Proof. exact CC.Deque.DequeProofs5.deque_trim_capacity. Qed.
Print Assumptions C20_deque_trim.

Theorem C20_deque_growth :
  forall (d : deque) (a : alloc_st) (st : stat) (d' : deque) (a' : alloc_st),
         DequeProofs.dq_inv d ->
         DequeProofs.owns d a ->
         dq_expand d a = Ok (st, d', a') -> st = CC_OK -> dq_cap d' = 2 * dq_cap d /\ nreq a' = nreq a + 1.
Proof. exact CC.Deque.DequeProofs5.deque_growth_doubles. Qed.
Print Assumptions C20_deque_growth.

Theorem C20_hashtable_pow2 :
  forall (hash : N -> N) (keq : N -> N -> bool),
         (forall a : N, a <> 0 -> keq a a = true) ->
         (forall a b : N, a <> 0 -> b <> 0 -> keq a b = keq b a) ->
         (forall a b c : N, a <> 0 -> b <> 0 -> c <> 0 -> keq a b = true -> keq b c = true -> keq a c = true) ->
         (forall a b : N, a <> 0 -> b <> 0 -> keq a b = true -> hash a = hash b) ->
         forall (L0 : list block) (t : htable) (a : alloc_st),
         HashProofsB.ht_inv hash keq L0 t a ->
         exists p : N,
           p <= 31 /\
           ht_cap t = 2 ^ p /\
           lenN (ht_buckets t) = ht_cap t /\ ht_thr t = lf_mul (ht_cap t) (ht_num t) (ht_den t).
Proof. exact CC.Hash.HashProofsE.ht_cap_pow2. Qed.
Print Assumptions C20_hashtable_pow2.

(** the model's round_pow_two is the whole-function translation of the source's (re-translated and compared on every run: Generated/SrcEq_hashtable.v) *)
Theorem C20_hashtable_round_pow_two_source :
  forall n : N, f_ht_round_pow_two n = round_pow_two n.
Proof. exact CC.Hash.HashTie.round_pow_two_is_source. Qed.
Print Assumptions C20_hashtable_round_pow_two_source.

(** the model's upper_pow_two is the whole-function translation of the source's (Generated/SrcEq_deque.v) *)
Theorem C20_deque_upper_pow_two_source :
  forall n : N, f_deque_upper_pow_two n = upper_pow_two n.
Proof. exact CC.Deque.DequeTie.upper_pow_two_is_source. Qed.
Print Assumptions C20_deque_upper_pow_two_source.

(** size <= threshold after every add, for all histories, under 1 <= threshold *)
Theorem C20_hashtable_load :
  forall (hash : N -> N) (keq : N -> N -> bool),
         (forall a : N, a <> 0 -> keq a a = true) ->
         (forall a b : N, a <> 0 -> b <> 0 -> keq a b = keq b a) ->
         (forall a b c : N, a <> 0 -> b <> 0 -> c <> 0 -> keq a b = true -> keq b c = true -> keq a c = true) ->
         (forall a b : N, a <> 0 -> b <> 0 -> keq a b = true -> hash a = hash b) ->
         forall (L0 : list block) (ops : list ht_op) (t : htable) (a : alloc_st) (outs : list ht_out)
           (t' : htable) (a' : alloc_st),
         HashProofsB.ht_inv hash keq L0 t a ->
         HashProofsC.load_ok t -> ht_run hash keq t ops a = Ok (outs, t', a') -> HashProofsC.load_ok t'.
Proof. exact CC.Hash.HashProofsE.ht_run_load. Qed.
Print Assumptions C20_hashtable_load.

(** known finding D38 *)
Theorem C20_hashtable_load_refuted :
  exists (t : htable) (a : alloc_st) (out : ht_out) (t' : htable) (a' : alloc_st),
           ht_new Conf 1 1 4 0 (alloc_init [] (2 ^ 40)) = Ok (CC_OK, Some t, a) /\
           ht_step (fun k : N => k) N.eqb t (HAdd 5 50) a = Ok (out, t', a') /\
           HashModel.o_st out = CC_OK /\ ht_thr t' < ht_size t'.
Proof. exact CC.Hash.HashProofsE.ht_load_refuted. Qed.
Print Assumptions C20_hashtable_load_refuted.

