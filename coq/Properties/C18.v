(** C18 - sorting yields an ordered permutation; the in-place list sort is stable.
    cc_array_sort / cc_array_sized_sort / cc_list_sort / cc_slist_sort delegate to libc qsort, which is not
    verified: it is a function parameter [sorter] with the hypothesis that it returns a sorted permutation (T6).
    What is proved is the glue: the array hands exactly its live prefix to the sorter; the lists copy their
    elements to a temporary array, sort it, and write the values back through the nodes in order - so under the
    hypothesis the container holds a sorted permutation, its size / ends / links are unchanged, and the early exits
    (empty list: ERR_INVALID_RANGE for cc_list, single-element slist: OK) change nothing.
    cc_list_sort_in_place is the library's own merge sort (split on sizes n/2, n/2 + n%2; merge by moving
    right-partition nodes in front of the left cursor with link_behind): transcribed literally and proved equal
    to the stable insertion sort of the old sequence under a total-preorder comparator - hence sorted, a
    permutation, stable, and the list is well formed afterwards (size, head, tail, next and prev chains).
    (statements printed by Coq from the lemmas they are proved by - tools/mkprop.py; statements only) *)
From Coq Require Import Permutation Sorted.
From CC Require Import Base.Prelude Base.Alloc Base.Ledger Generated.Status Generated.Constants Generated.Guards.
From CC Require Import Array.ArrayModel List_.ListModel SList.SListModel.
From CC Require Import Array.ArrayMore List_.ListProofs8 List_.ListProofs9 SList.SListProofs7.
Local Open Scope N_scope.

(** CC_Array (and CC_ArraySized, replayed against the same model) *)
Theorem C18_array_sort :
  forall (sorter : list N -> list N) (le : N -> N -> Prop) (a : arr),
         (forall l : list N, Permutation l (sorter l) /\ Sorted le (sorter l)) ->
         Permutation (a_data a) (a_data (arr_sort sorter a)) /\
         Sorted le (a_data (arr_sort sorter a)) /\
         a_size (arr_sort sorter a) = a_size a /\
         a_cap (arr_sort sorter a) = a_cap a /\ (a_size a <= 1 -> a_data (arr_sort sorter a) = a_data a).
Proof. exact CC.Array.ArrayMore.arr_sort_spec. Qed.
Print Assumptions C18_array_sort.

(** CC_List sort: to_array + sorter + write-back *)
Theorem C18_list_sort :
  forall sorter : list N -> list N,
         (forall l : list N, Permutation (sorter l) l) ->
         forall (s : clist) (l : list (N * N)) (a : alloc_st) (F : list block),
         ListHeap.lrep s l ->
         ListProofs1.lown a s l F ->
         l <> [] ->
         let (o, a1) := alloc (l_mem s) (l_size s * 8) a in
         match o with
         | Some _ =>
             exists (s' : clist) (a' : alloc_st),
               cl_sort sorter s a = Ok (CC_OK, s', a') /\
               ListHeap.lrep s' (combine (ListHeap.ids l) (sorter (map snd l))) /\
               cl_abs s' = sorter (map snd l) /\
               ListProofs1.lown a' s' (combine (ListHeap.ids l) (sorter (map snd l))) F /\
               live a' = live a /\ ListProofs1.same_hdr s s' /\ ListHeap.aframe a a'
         | None =>
             cl_sort sorter s a = Ok (CC_ERR_ALLOC, s, a1) /\
             ListProofs1.lown a1 s l F /\ live a1 = live a /\ ListHeap.aframe a a1
         end.
Proof. exact CC.List_.ListProofs8.sort_spec. Qed.
Print Assumptions C18_list_sort.

Theorem C18_list_sort_empty :
  forall (sorter : list N -> list N) (s : clist) (a : alloc_st),
         ListHeap.lrep s [] -> cl_sort sorter s a = Ok (CC_ERR_INVALID_RANGE, s, a).
Proof. exact CC.List_.ListProofs8.sort_empty. Qed.
Print Assumptions C18_list_sort_empty.

Theorem C18_list_sort_sorted_perm :
  forall sorter : list N -> list N,
         (forall l : list N, Permutation (sorter l) l) ->
         forall (le : N -> N -> Prop) (s : clist) (l : list (N * N)) (a : alloc_st) (F : list block),
         (forall v : list N, Sorted le (sorter v)) ->
         ListHeap.lrep s l ->
         ListProofs1.lown a s l F ->
         l <> [] ->
         forall (blk : N) (a1 : alloc_st),
         alloc (l_mem s) (l_size s * 8) a = (Some blk, a1) ->
         exists (s' : clist) (a' : alloc_st),
           cl_sort sorter s a = Ok (CC_OK, s', a') /\
           Sorted le (cl_abs s') /\ Permutation (cl_abs s') (cl_abs s) /\ ListHeap.lwf s'.
Proof. exact CC.List_.ListProofs8.sort_sorted_perm. Qed.
Print Assumptions C18_list_sort_sorted_perm.

(** cc_list_sort_in_place = stable insertion sort of the old sequence, list well formed *)
Theorem C18_list_sort_in_place :
  forall cmp : N -> N -> comparison,
         (forall x y : N, le_cmp (cmp x y) = false -> le_cmp (cmp y x) = true) ->
         (forall x y z : N, le_cmp (cmp x y) = true -> le_cmp (cmp y z) = true -> le_cmp (cmp x z) = true) ->
         forall (s : clist) (l : list (N * N)),
         ListHeap.lrep s l ->
         exists s' : clist,
           cl_sort_in_place cmp s = Ok s' /\
           ListHeap.lrep s' (isortp cmp l) /\ cl_abs s' = isort cmp (cl_abs s) /\ ListProofs1.same_hdr s s'.
Proof. exact CC.List_.ListProofs9.sort_in_place_spec. Qed.
Print Assumptions C18_list_sort_in_place.

Theorem C18_list_sort_in_place_sorted_perm :
  forall cmp : N -> N -> comparison,
         (forall x y : N, le_cmp (cmp x y) = false -> le_cmp (cmp y x) = true) ->
         (forall x y z : N, le_cmp (cmp x y) = true -> le_cmp (cmp y z) = true -> le_cmp (cmp x z) = true) ->
         forall (s : clist) (l : list (N * N)),
         ListHeap.lrep s l ->
         exists s' : clist,
           cl_sort_in_place cmp s = Ok s' /\
           ListHeap.lwf s' /\
           Sorted (fun a b : N => le_cmp (cmp a b) = true) (cl_abs s') /\ Permutation (cl_abs s') (cl_abs s).
Proof. exact CC.List_.ListProofs9.sort_in_place_sorted_perm. Qed.
Print Assumptions C18_list_sort_in_place_sorted_perm.

(** CC_SList sort *)
Theorem C18_slist_sort :
  forall sorter : list N -> list N,
         (forall l : list N, Permutation (sorter l) l) ->
         forall (s : slist) (l : list (N * N)) (a : alloc_st) (F : list block),
         SListHeap.srep s l ->
         SListProofs1.slown a s l F ->
         lenN l <> 1 ->
         let (o, a1) := alloc (sl_mem s) (wmul (sl_size s) 8) a in
         match o with
         | Some _ =>
             exists (s' : slist) (a' : alloc_st),
               sl_sort sorter s a = Ok (CC_OK, s', a') /\
               SListHeap.srep s' (combine (ListHeap.ids l) (sorter (map snd l))) /\
               sl_abs s' = sorter (map snd l) /\
               SListProofs1.slown a' s' (combine (ListHeap.ids l) (sorter (map snd l))) F /\
               live a' = live a /\ SListProofs1.ssame_hdr s s' /\ ListHeap.aframe a a'
         | None =>
             sl_sort sorter s a = Ok (CC_ERR_ALLOC, s, a1) /\
             SListProofs1.slown a1 s l F /\ live a1 = live a /\ ListHeap.aframe a a1
         end.
Proof. exact CC.SList.SListProofs7.ssort_spec. Qed.
Print Assumptions C18_slist_sort.

Theorem C18_slist_sort_single :
  forall sorter : list N -> list N,
         (forall l : list N, Permutation (sorter l) l) ->
         forall (s : slist) (x d : N) (a : alloc_st),
         SListHeap.srep s [(x, d)] -> sl_sort sorter s a = Ok (CC_OK, s, a) /\ sorter [d] = [d].
Proof. exact CC.SList.SListProofs7.ssort_single. Qed.
Print Assumptions C18_slist_sort_single.

Theorem C18_slist_sort_sorted_perm :
  forall sorter : list N -> list N,
         (forall l : list N, Permutation (sorter l) l) ->
         forall (le : N -> N -> Prop) (s : slist) (l : list (N * N)) (a : alloc_st) (F : list block),
         (forall v : list N, Sorted le (sorter v)) ->
         SListHeap.srep s l ->
         SListProofs1.slown a s l F ->
         lenN l <> 1 ->
         forall (blk : N) (a1 : alloc_st),
         alloc (sl_mem s) (wmul (sl_size s) 8) a = (Some blk, a1) ->
         exists (s' : slist) (a' : alloc_st),
           sl_sort sorter s a = Ok (CC_OK, s', a') /\
           Sorted le (sl_abs s') /\
           Permutation (sl_abs s') (sl_abs s) /\ (exists l' : list (N * N), SListHeap.srep s' l').
Proof. exact CC.SList.SListProofs7.ssort_sorted_perm. Qed.
Print Assumptions C18_slist_sort_sorted_perm.

