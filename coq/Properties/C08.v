(** C08 - a failed allocation is atomic: error status, nothing changed, nothing leaked.
    The allocator of every model is a ledger with a fault plan: any request can be refused, for every plan (a
    universally quantified list of answers, so 'the k-th allocation fails for every k' and every combination of
    failures is covered by the quantifier). Per engine: when the operation reports the allocation error, the
    whole model state is the state before the call (not merely the abstraction), the live blocks are the same,
    and the invariant still holds - so by the refinement theorems every later operation behaves as if the failed
    call had never happened. Constructors and derived-container builders return no object and leave the ledger
    as it was.
    (statements printed by Coq from the lemmas they are proved by - tools/mkprop.py; statements only) *)
From Coq Require Import Permutation Sorted.
From CC Require Import Base.Prelude Base.Alloc Base.Ledger Generated.Status Generated.Constants Generated.Guards.
From CC Require Import Rbuf.RbufModel SPool.SPoolModel DPool.DPoolModel Array.ArrayModel Deque.DequeModel PQueue.PQueueModel Hash.HashModel Tst.TstModel Tree.TreeModel List_.ListModel SList.SListModel.
From CC Require Import Array.ArrayMore Array.ArrayProofs Array.ArrayRefine DPool.DPoolLedger Deque.DequeProofs3 Deque.DequeProofs4 Deque.DequeProofs5 Hash.HashProofsE List_.ListProofs6 List_.ListProofs8 PQueue.PQueueProofs2 Rbuf.RbufProofs SList.SListProofs7 Tree.TreeTheorems Tst.TstProofs2.
Local Open Scope N_scope.

(** CC_Array growth: new buffer first, commit after; refusal = same array, one refused request *)
Theorem C08_array_growth :
  forall (a : arr) (al : alloc_st),
         arr_inv a al ->
         lim_ok a al ->
         exists (st : stat) (a' : arr) (al' : alloc_st),
           ArrayModel.arr_expand a al = Ok (st, a', al') /\
           (st = CC_OK /\
            arr_inv a' al' /\
            lim_ok a' al' /\
            a_data a' = a_data a /\
            a_cap a < a_cap a' /\
            a_cap a' = a_cap a * a_num a / a_den a /\
            nreq al' = nreq al + 1 /\ a_mem a' = a_mem a /\ a_hdr a' = a_hdr a \/
            st = CC_ERR_ALLOC /\ a' = a /\ refused_once al al').
Proof. exact CC.Array.ArrayProofs.expand_spec. Qed.
Print Assumptions C08_array_growth.

(** CC_Array add / add_at / trim / iterator add: the same *)
Theorem C08_array_add :
  forall (a : arr) (x : N) (al : alloc_st),
         arr_inv a al ->
         lim_ok a al ->
         exists (st : stat) (a' : arr) (al' : alloc_st),
           ArrayModel.arr_add a x al = Ok (st, a', al') /\ alloc_outcome a a' al al' st (a_data a ++ [x]).
Proof. exact CC.Array.ArrayProofs.add_spec. Qed.
Print Assumptions C08_array_add.

Theorem C08_array_add_at :
  forall (a : arr) (x i : N) (al : alloc_st),
         arr_inv a al ->
         lim_ok a al ->
         i < W ->
         exists (st : stat) (a' : arr) (al' : alloc_st),
           arr_add_at a x i al = Ok (st, a', al') /\
           (if i <=? a_size a
            then alloc_outcome a a' al al' st (insertN (a_data a) i x)
            else st = CC_ERR_OUT_OF_RANGE /\ a' = a /\ al' = al).
Proof. exact CC.Array.ArrayProofs.add_at_spec. Qed.
Print Assumptions C08_array_add_at.

Theorem C08_array_trim :
  forall (a : arr) (al : alloc_st),
         arr_inv a al ->
         lim_ok a al ->
         exists (st : stat) (a' : arr) (al' : alloc_st),
           arr_trim a al = Ok (st, a', al') /\
           (st = CC_OK /\
            arr_inv a' al' /\
            lim_ok a' al' /\
            a_data a' = a_data a /\ a_cap a' = N.max 1 (a_size a) /\ a_mem a' = a_mem a /\ a_hdr a' = a_hdr a \/
            st = CC_ERR_ALLOC /\ a' = a /\ refused_once al al').
Proof. exact CC.Array.ArrayProofs.trim_spec. Qed.
Print Assumptions C08_array_trim.

(** the iterator's cursor is not advanced when the insertion is refused *)
Theorem C08_array_iter_add :
  forall (a : arr) (it : aiter) (x : N) (al : alloc_st),
         arr_inv a al ->
         lim_ok a al ->
         ArrayModel.it_index it <= a_size a ->
         exists (st : stat) (a' : arr) (it' : aiter) (al' : alloc_st),
           it_add a it x al = Ok (st, a', it', al') /\
           (st = CC_OK /\
            a_data a' = insertN (a_data a) (ArrayModel.it_index it) x /\
            ArrayModel.it_index it' = ArrayModel.it_index it + 1 /\
            it_removed it' = it_removed it /\
            arr_inv a' al' /\
            lim_ok a' al' /\
            skipnN (ArrayModel.it_index it') (a_data a') = skipnN (ArrayModel.it_index it) (a_data a) /\
            firstnN (ArrayModel.it_index it) (a_data a') = firstnN (ArrayModel.it_index it) (a_data a) \/
            st = CC_ERR_ALLOC /\ a' = a /\ it' = it /\ refused_once al al').
Proof. exact CC.Array.ArrayMore.it_add_spec. Qed.
Print Assumptions C08_array_iter_add.

(** constructor: no object, ledger unchanged *)
Theorem C08_array_new :
  forall (mem : tag) (capacity num den : N) (al : alloc_st) (st : stat) (r : option arr)
           (al' : alloc_st),
         ledger_wf al ->
         capacity * 8 < W ->
         0 < den ->
         ArrayModel.arr_new mem capacity num den al = (st, r, al') ->
         match r with
         | Some a =>
             st = CC_OK /\
             a_data a = [] /\
             a_cap a = capacity /\
             arr_inv a al' /\
             a_mem a = mem /\
             (a_num a, a_den a) =
             (if num <=? den then (DEFAULT_EXPANSION_FACTOR_num, DEFAULT_EXPANSION_FACTOR_den) else (num, den))
         | None => st = CC_ERR_INVALID_CAPACITY /\ al' = al \/ st = CC_ERR_ALLOC /\ live al' = live al
         end.
Proof. exact CC.Array.ArrayRefine.arr_new_spec. Qed.
Print Assumptions C08_array_new.

(** subarray / copy_shallow / copy_deep / filter: no object, ledger unchanged, source invariant kept *)
Theorem C08_array_derive :
  forall (a : arr) (d : list N) (al : alloc_st),
         arr_inv a al ->
         lim_ok a al ->
         lenN d <= a_cap a ->
         exists (st : stat) (r : option arr) (al' : alloc_st),
           arr_derive a d al = Ok (st, r, al') /\
           match r with
           | Some b =>
               st = CC_OK /\
               a_data b = d /\
               a_cap b = a_cap a /\
               a_num b = a_num a /\
               a_den b = a_den a /\
               a_mem b = a_mem a /\
               arr_inv b al' /\
               lim_ok b al' /\
               arr_inv a al' /\
               lim_ok a al' /\
               a_hdr b <> a_hdr a /\ a_hdr b <> a_blk a /\ a_blk b <> a_hdr a /\ a_blk b <> a_blk a
           | None => st = CC_ERR_ALLOC /\ live al' = live al /\ arr_inv a al' /\ lim_ok a al'
           end.
Proof. exact CC.Array.ArrayMore.derive_spec. Qed.
Print Assumptions C08_array_derive.

(** CC_Stack push *)
Theorem C08_stack_push :
  forall (s : stack) (x : N) (al : alloc_st),
         arr_inv (s_arr s) al ->
         lim_ok (s_arr s) al ->
         exists (st : stat) (s' : stack) (al' : alloc_st),
           stack_push s x al = Ok (st, s', al') /\
           (st = CC_OK /\
            a_data (s_arr s') = a_data (s_arr s) ++ [x] /\
            arr_inv (s_arr s') al' /\ lim_ok (s_arr s') al' /\ s_hdr s' = s_hdr s /\ s_mem s' = s_mem s \/
            st = CC_ERR_ALLOC /\ s' = s /\ refused_once al al').
Proof. exact CC.Array.ArrayMore.stack_push_spec. Qed.
Print Assumptions C08_stack_push.

(** CC_Deque: every allocating operation *)
Theorem C08_deque :
  forall (d : deque) (a : alloc_st) (o : dq_op) (vs : list N) (d' : deque) (a' : alloc_st),
         DequeProofs.dq_inv d ->
         DequeProofs.owns d a ->
         op_ok d o ->
         dq_step d a o = Ok (DOut CC_ERR_ALLOC vs, d', a') ->
         d' = d /\
         DequeProofs.dq_abs d' = DequeProofs.dq_abs d /\
         live a' = live a /\ DequeProofs.dq_inv d' /\ DequeProofs.owns d' a'.
Proof. exact CC.Deque.DequeProofs5.deque_alloc_atomic. Qed.
Print Assumptions C08_deque.

(** CC_Deque constructor *)
Theorem C08_deque_new :
  forall (mem : tag) (capacity : N) (a : alloc_st),
         AllocProofs.ledger_ok a ->
         0 < next_id a ->
         exists (st : stat) (r : option deque) (a' : alloc_st),
           dq_new_conf mem capacity a = Ok (st, r, a') /\
           match r with
           | Some d =>
               st = CC_OK /\
               DequeProofs.dq_wf d /\
               DequeProofs.repr d [] /\
               DequeProofs.owns d a' /\
               dq_mem d = mem /\
               dq_cap d = upper_pow_two capacity /\
               dq_size d = 0 /\
               dq_hdr d = next_id a /\
               dq_buf d = next_id a + 1 /\
               live a' =
               {| b_id := dq_buf d; b_tag := mem; b_bytes := wmul (upper_pow_two capacity) 8 |}
               :: {| b_id := dq_hdr d; b_tag := mem; b_bytes := 1 * SIZEOF_DEQUE |} :: live a
           | None => st = CC_ERR_ALLOC /\ live a' = live a /\ AllocProofs.ledger_ok a' /\ 0 < next_id a'
           end.
Proof. exact CC.Deque.DequeProofs3.new_conf_spec. Qed.
Print Assumptions C08_deque_new.

(** CC_Deque copies and filter *)
Theorem C08_deque_copy :
  forall (d : deque) (l : list N) (cp : option (N -> N)) (a : alloc_st),
         DequeProofs.dq_wf d ->
         DequeProofs.repr d l ->
         DequeProofs.owns d a ->
         exists (st : stat) (r : option deque) (a' : alloc_st),
           dq_copy d cp a = Ok (st, r, a') /\
           match r with
           | Some d2 =>
               st = CC_OK /\
               DequeProofs.dq_wf d2 /\
               DequeProofs.repr d2 (copy_image cp l) /\
               DequeProofs.owns d2 a' /\
               DequeProofs.owns d a' /\
               dq_mem d2 = dq_mem d /\
               dq_cap d2 = dq_cap d /\
               dq_size d2 = dq_size d /\
               dq_first d2 = 0 /\
               live a' =
               {| b_id := dq_buf d2; b_tag := dq_mem d; b_bytes := wmul (dq_cap d) 8 |}
               :: {| b_id := dq_hdr d2; b_tag := dq_mem d; b_bytes := SIZEOF_DEQUE |} :: live a
           | None => st = CC_ERR_ALLOC /\ live a' = live a /\ DequeProofs.owns d a'
           end.
Proof. exact CC.Deque.DequeProofs3.copy_spec. Qed.
Print Assumptions C08_deque_copy.

Theorem C08_deque_filter :
  forall (d : deque) (l : list N) (pred : N -> bool) (a : alloc_st),
         DequeProofs.dq_wf d ->
         DequeProofs.repr d l ->
         DequeProofs.owns d a ->
         exists (st : stat) (r : option deque) (a' : alloc_st),
           dq_filter d pred a = Ok (st, r, a') /\
           match r with
           | Some f =>
               st = CC_OK /\
               l <> [] /\
               DequeProofs.dq_wf f /\
               DequeProofs.repr f (filter pred l) /\
               DequeProofs.owns f a' /\ DequeProofs.owns d a' /\ dq_mem f = dq_mem d /\ dq_cap f = dq_cap d
           | None =>
               st = CC_ERR_OUT_OF_RANGE /\ l = [] /\ a' = a \/
               st = CC_ERR_ALLOC /\ live a' = live a /\ DequeProofs.owns d a'
           end.
Proof. exact CC.Deque.DequeProofs4.filter_spec. Qed.
Print Assumptions C08_deque_filter.

(** CC_Queue constructor (wrapper released when the inner deque cannot be built) *)
Theorem C08_queue_new :
  forall (mem : tag) (capacity : N) (a : alloc_st),
         AllocProofs.ledger_ok a ->
         0 < next_id a ->
         exists (st : stat) (r : option queue) (a' : alloc_st),
           q_new_conf mem capacity a = Ok (st, r, a') /\
           match r with
           | Some q =>
               st = CC_OK /\
               q_inv q /\
               q_abs q = [] /\
               q_owns q a' /\
               q_mem q = mem /\
               live a' =
               {| b_id := dq_buf (q_d q); b_tag := mem; b_bytes := wmul (upper_pow_two capacity) 8 |}
               :: {| b_id := dq_hdr (q_d q); b_tag := mem; b_bytes := 1 * SIZEOF_DEQUE |}
                  :: {| b_id := q_hdr q; b_tag := mem; b_bytes := 1 * SIZEOF_QUEUE |} :: live a /\
               q_hdr q = next_id a
           | None => st = CC_ERR_ALLOC /\ live a' = live a
           end.
Proof. exact CC.Deque.DequeProofs5.q_new_conf_spec. Qed.
Print Assumptions C08_queue_new.

(** CC_PQueue push *)
Theorem C08_pqueue :
  forall cmp : N -> N -> Z,
         cmp_preorder cmp ->
         forall (lim : N) (L0 : list block) (s : pq) (x : N) (a : alloc_st) (st : stat) 
           (s' : pq) (a' : alloc_st),
         pq_inv cmp lim s ->
         pq_led lim L0 s a ->
         pq_push cmp s x a = Ok (st, s', a') ->
         st <> CC_OK -> s' = s /\ live a' = live a /\ pq_inv cmp lim s' /\ pq_led lim L0 s' a'.
Proof. exact CC.PQueue.PQueueProofs2.pqT_alloc_atomic. Qed.
Print Assumptions C08_pqueue.

Theorem C08_pqueue_new :
  forall (mem : tag) (c n d : N) (a : alloc_st) (st : stat) (a' : alloc_st),
         pq_new mem c n d a = Ok (st, None, a') ->
         st = CC_ERR_INVALID_CAPACITY /\ a' = a \/ st = CC_ERR_ALLOC /\ live a' = live a.
Proof. exact CC.PQueue.PQueueProofs2.pq_new_refused_clean. Qed.
Print Assumptions C08_pqueue_new.

(** CC_HashTable add: the entry allocation may fail after a successful resize - the abstract map, every lookup and the invariant are preserved *)
Theorem C08_hashtable_add :
  forall (hash : N -> N) (keq : N -> N -> bool),
         (forall a : N, a <> 0 -> keq a a = true) ->
         (forall a b : N, a <> 0 -> b <> 0 -> keq a b = keq b a) ->
         (forall a b c : N, a <> 0 -> b <> 0 -> c <> 0 -> keq a b = true -> keq b c = true -> keq a c = true) ->
         (forall a b : N, a <> 0 -> b <> 0 -> keq a b = true -> hash a = hash b) ->
         forall (L0 : list block) (t : htable) (a : alloc_st) (k v : N) (t' : htable) (a' : alloc_st),
         HashProofsB.ht_inv hash keq L0 t a ->
         ht_add hash keq t k v a = Ok (CC_ERR_ALLOC, t', a') ->
         HashProofsB.ht_inv hash keq L0 t' a' /\
         Permutation (HashProofsB.ht_abs t') (HashProofsB.ht_abs t) /\
         ht_size t' = ht_size t /\
         (forall x : N, ht_get hash keq t' x = ht_get hash keq t x) /\ lenN (live a') = lenN (live a).
Proof. exact CC.Hash.HashProofsE.ht_add_alloc_atomic. Qed.
Print Assumptions C08_hashtable_add.

(** CC_HashTable get_keys / get_values *)
Theorem C08_hashtable_collect :
  forall (hash : N -> N) (keq : N -> N -> bool),
         (forall a : N, a <> 0 -> keq a a = true) ->
         (forall a b : N, a <> 0 -> b <> 0 -> keq a b = keq b a) ->
         (forall a b c : N, a <> 0 -> b <> 0 -> c <> 0 -> keq a b = true -> keq b c = true -> keq a c = true) ->
         (forall a b : N, a <> 0 -> b <> 0 -> keq a b = true -> hash a = hash b) ->
         forall (f : HashModel.entry -> N) (L0 : list block) (t : htable) (a : alloc_st) 
           (st : stat) (a' : alloc_st),
         HashProofsB.ht_inv hash keq L0 t a ->
         ht_collect f t a = Ok (st, None, a') ->
         live a' = live a /\ HashProofsB.ht_inv hash keq L0 t a' /\ st <> CC_OK.
Proof. exact CC.Hash.HashProofsE.ht_collect_alloc_atomic. Qed.
Print Assumptions C08_hashtable_collect.

(** CC_TSTTable add: the partially built chain is released *)
Theorem C08_tst_add :
  forall (base : list N) (s : table) (a : alloc_st) (k : key) (v : N) (s' : table) (a' : alloc_st),
         tst_inv base s a ->
         TstProofs1.wf_key k ->
         t_size s + 1 < W ->
         tst_add s k v a = Ok (CC_ERR_ALLOC, s', a') ->
         s' = s /\ Permutation (live_ids a') (live_ids a) /\ tst_inv base s' a'.
Proof. exact CC.Tst.TstProofs2.tst_add_alloc_atomic. Qed.
Print Assumptions C08_tst_add.

(** CC_TreeTable: ERR_ALLOC only from add, state unchanged (part of the step theorem) *)
Theorem C08_treetable :
  forall cmp : N -> N -> comparison,
         cmp_ok cmp ->
         forall (s : ttable) (a : alloc_st) (o : tt_op),
         TreeProofsTable.tt_inv cmp s a ->
         N.of_nat (tsize (tt_tree s)) + 1 < W ->
         TreeProofsTable.op_ok s o ->
         exists (out : tt_out) (s' : ttable) (a' : alloc_st),
           tt_step cmp s a o = Ok (out, s', a') /\
           TreeProofsTable.tt_inv cmp s' a' /\ TreeProofsTable.refines_step cmp s o out s'.
Proof. exact CC.Tree.TreeTheorems.T_step_refines. Qed.
Print Assumptions C08_treetable.

(** CC_Rbuf constructor *)
Theorem C08_rbuf_new :
  forall (mem : tag) (c : N) (a : alloc_st) (st : stat) (a' : alloc_st),
         rb_new mem c a = Ok (st, None, a') -> st = CC_ERR_ALLOC /\ live a' = live a.
Proof. exact CC.Rbuf.RbufProofs.rb_new_refused_clean. Qed.
Print Assumptions C08_rbuf_new.

(** CC_DynamicPool constructor; a refused page request makes malloc return NULL with the pool unchanged (C13_malloc) *)
Theorem C08_dpool_new :
  forall (mem : tag) (fixed packed : bool) (num den boundary size : N) (a : alloc_st) 
           (st : stat) (r : option dpool) (a' : alloc_st),
         ids_nodup a ->
         ids_bounded a ->
         size + PAGE_HDR < W ->
         dp_new mem fixed packed num den boundary size a = (st, r, a') ->
         match r with
         | Some p =>
             st = CC_OK /\
             dp_ok p a' /\
             dp_top p = size /\
             dp_free p = 0 /\
             dp_blocks p = [] /\
             (exists id : N, dp_pages p = [(id, size)]) /\
             dp_fixed p = fixed /\
             dp_packed p = packed /\
             dp_num p = num /\ dp_den p = den /\ dp_boundary p = boundary /\ dp_mem p = mem
         | None => st = CC_ERR_ALLOC /\ live a' = live a
         end.
Proof. exact CC.DPool.DPoolLedger.dp_new_spec. Qed.
Print Assumptions C08_dpool_new.

(** CC_List: any step with a non-OK status (incl. ERR_ALLOC in add, add_at, add_all's external chain, iterator add) leaves both lists and the live blocks equal *)
Theorem C08_list_frame :
  forall (cmp : N -> N -> comparison) (pred : N -> bool) (w : world) (hd : hnd) 
           (o : lop) (out : lout) (w' : world),
         ListProofs4.winv w -> cl_step cmp pred w hd o = Ok (out, w') -> frame_ok w w' out.
Proof. exact CC.List_.ListProofs8.step_frame. Qed.
Print Assumptions C08_list_frame.

(** CC_SList *)
Theorem C08_slist_frame :
  forall (cmp : N -> N -> comparison) (pred : N -> bool) (w : sworld) (hd : shnd) 
           (o : sop) (out : sout) (w' : sworld),
         SListProofs3.swinv w -> sl_step cmp pred w hd o = Ok (out, w') -> sframe_ok w w' out.
Proof. exact CC.SList.SListProofs7.sstep_frame. Qed.
Print Assumptions C08_slist_frame.

(** CC_List copies / filter / sublist: a refusal part-way releases the partial result *)
Theorem C08_list_copy :
  forall (f : N -> N) (keep : N -> bool) (s : clist) (l : list (N * N)) (a : alloc_st),
         ListHeap.lrep s l ->
         ListHeap.lok a ->
         exists r : stat * option clist * alloc_st,
           cl_copy_with f keep s a = Ok r /\
           derived_ok (map f (filter keep (map snd l))) (l_mem s) a (live a) r.
Proof. exact CC.List_.ListProofs6.copy_with_spec. Qed.
Print Assumptions C08_list_copy.

Theorem C08_list_sublist :
  forall (s : clist) (l1 mid l3 : list (N * N)) (a : alloc_st),
         ListHeap.lrep s (l1 ++ mid ++ l3) ->
         ListHeap.lok a ->
         mid <> [] ->
         exists r : stat * option clist * alloc_st,
           cl_sublist s (lenN l1) (lenN l1 + lenN mid - 1) a = Ok r /\
           derived_ok (map snd mid) (l_mem s) a (live a) r.
Proof. exact CC.List_.ListProofs6.sublist_spec. Qed.
Print Assumptions C08_list_sublist.

