(** C09 - CC_Stack is LIFO and CC_Queue is FIFO.
    Stack: the abstract stack is the array contents, bottom first; push appends, pop/peek take the last element,
    errors on empty leave the stack unchanged (pop returns the same stack). Queue: enqueue = add_first and
    poll = remove_last of the deque model, refined against the ideal list by the deque theorems (none of
    these operations touches the defective add_at branches), for all histories, growth steps and wrap-arounds.
    (statements printed by Coq from the lemmas they are proved by - tools/mkprop.py; statements only) *)
From Coq Require Import Permutation Sorted.
From CC Require Import Base.Prelude Base.Alloc Base.Ledger Generated.Status Generated.Guards.
From CC Require Import Array.ArrayModel Array.ArrayProofs Array.ArrayRefine Array.ArrayMore Array.ArrayStack.
From CC Require Import Deque.DequeModel Deque.DequeProofs Deque.DequeProofs2 Deque.DequeProofs3 Deque.DequeProofs4 Deque.DequeProofs5.
Local Open Scope N_scope.

(** push: the new element becomes the top; a refused growth leaves the stack unchanged *)
Theorem C09_stack_push :
  forall (s : stack) (x : N) (al : alloc_st),
         arr_inv (s_arr s) al ->
         lim_ok (s_arr s) al ->
         exists (st : stat) (s' : stack) (al' : alloc_st),
           stack_push s x al = Ok (st, s', al') /\
           (st = CC_OK /\
            a_data (s_arr s') = a_data (s_arr s) ++ [x] /\
            arr_inv (s_arr s') al' /\ lim_ok (s_arr s') al' /\ s_hdr s' = s_hdr s /\ s_mem s' = s_mem s \/
            st = CC_ERR_ALLOC /\ s' = s /\ refused_once al al').
Proof. exact CC.Array.ArrayMore.stack_push_spec. Qed.
Print Assumptions C09_stack_push.

(** pop returns and removes the most recently pushed element not yet popped; empty: error, same stack *)
Theorem C09_stack_pop :
  forall s : stack,
         a_size (s_arr s) < W ->
         stack_pop s =
         match rev (a_data (s_arr s)) with
         | [] => (CC_ERR_OUT_OF_RANGE, None, s)
         | top :: rest => (CC_OK, Some top, with_arr s (set_data (s_arr s) (rev rest)))
         end.
Proof. exact CC.Array.ArrayMore.stack_pop_spec. Qed.
Print Assumptions C09_stack_pop.

(** peek returns that same element without change *)
Theorem C09_stack_peek :
  forall s : stack,
         a_size (s_arr s) < W ->
         stack_peek s =
         match rev (a_data (s_arr s)) with
         | [] => (CC_ERR_VALUE_NOT_FOUND, None)
         | top :: _ => (CC_OK, Some top)
         end.
Proof. exact CC.Array.ArrayMore.stack_peek_spec. Qed.
Print Assumptions C09_stack_peek.

(** filter: the derived stack holds the kept elements bottom to top (so it pops them in the same relative order) *)
Theorem C09_stack_filter :
  forall (pred : N -> bool) (s : stack) (al : alloc_st),
         arr_inv (s_arr s) al ->
         lim_ok (s_arr s) al ->
         limit al * 2 < W ->
         exists (st : stat) (r : option stack) (al' : alloc_st),
           stack_filter pred s al = Ok (st, r, al') /\
           (a_size (s_arr s) = 0 -> st = CC_ERR_OUT_OF_RANGE /\ r = None /\ al' = al) /\
           (0 < a_size (s_arr s) ->
            st = CC_OK /\
            (exists ns : stack,
               r = Some ns /\
               a_data (s_arr ns) = filter pred (a_data (s_arr s)) /\
               a_cap (s_arr ns) = a_cap (s_arr s) /\
               arr_inv (s_arr ns) al' /\
               s_mem ns = s_mem s /\
               a_mem (s_arr ns) = s_mem s /\ owned (s_mem s) (s_hdr ns) al' /\ s_hdr ns = next_id al) \/
            st = CC_ERR_ALLOC /\ r = None /\ live al' = live al).
Proof. exact CC.Array.ArrayStack.stack_filter_spec. Qed.
Print Assumptions C09_stack_filter.

(** iteration over the underlying array observes exactly the live elements, bottom to top *)
Theorem C09_stack_iter :
  forall a : arr, a_size a < W -> it_collect (N.to_nat (a_size a)) a it_init = a_data a.
Proof. exact CC.Array.ArrayMore.it_fresh_complete. Qed.
Print Assumptions C09_stack_iter.

(** one queue operation refines the ideal FIFO list *)
Theorem C09_queue_step_refines :
  forall (q : queue) (a : alloc_st) (o : q_op),
         q_inv q ->
         q_owns q a ->
         exists (out : dq_out) (q' : queue) (a' : alloc_st),
           q_step q a o = Ok (out, q', a') /\
           q_inv q' /\
           q_owns q' a' /\
           q_hdr q' = q_hdr q /\
           q_mem q' = q_mem q /\
           ((out, q_abs q') = spec_q_step (q_abs q) o \/
            out = DOut CC_ERR_ALLOC [] /\ q' = q /\ live a' = live a /\ (exists x : N, o = QEnq x)).
Proof. exact CC.Deque.DequeProofs5.queue_step_refines. Qed.
Print Assumptions C09_queue_step_refines.

(** all enqueue/poll/peek histories *)
Theorem C09_queue_run_refines :
  forall (ops : list q_op) (q : queue) (a : alloc_st),
         q_inv q ->
         q_owns q a ->
         exists (outs : list dq_out) (q' : queue) (a' : alloc_st),
           q_run q a ops = Ok (outs, q', a') /\
           q_inv q' /\ q_owns q' a' /\ (outs, q_abs q') = spec_q_run (q_abs q) ops (map is_alloc_err outs).
Proof. exact CC.Deque.DequeProofs5.queue_run_refines. Qed.
Print Assumptions C09_queue_run_refines.

(** constructor, any capacity; a refusal leaves nothing behind *)
Theorem C09_queue_new :
  forall (mem : tag) (capacity : N) (a : alloc_st),
         AllocProofs.ledger_ok a ->
         0 < next_id a ->
         exists (st : stat) (r : option queue) (a' : alloc_st),
           q_new_conf mem capacity a = Ok (st, r, a') /\
           match r with
           | Some q =>
               st = CC_OK /\
               q_inv q /\
               q_abs q = [] /\
               q_owns q a' /\
               q_mem q = mem /\
               live a' =
               {| b_id := dq_buf (q_d q); b_tag := mem; b_bytes := wmul (upper_pow_two capacity) 8 |}
               :: {| b_id := dq_hdr (q_d q); b_tag := mem; b_bytes := 1 * SIZEOF_DEQUE |}
                  :: {| b_id := q_hdr q; b_tag := mem; b_bytes := 1 * SIZEOF_QUEUE |} :: live a /\
               q_hdr q = next_id a
           | None => st = CC_ERR_ALLOC /\ live a' = live a
           end.
Proof. exact CC.Deque.DequeProofs5.q_new_conf_spec. Qed.
Print Assumptions C09_queue_new.

(** destroy releases the wrapper and the deque *)
Theorem C09_queue_destroy :
  forall (q : queue) (a : alloc_st),
         q_owns q a ->
         exists a' : alloc_st, q_destroy q a = Ok a' /\ live a' = without (q_hdr q) (residue (q_d q) a).
Proof. exact CC.Deque.DequeProofs5.q_destroy_spec. Qed.
Print Assumptions C09_queue_destroy.

