(** C15 - derived containers are exact and independent.
    Content: the result holds exactly the selected elements in source order (copy function images for deep
    copies). Source: unchanged and still satisfying its invariant. Usability: the result satisfies the engine
    invariant with the source's configuration (capacity, expansion factor, allocator family), so every later
    history on it is refined by the engine's refinement theorem - in particular it can grow. Independence of the
    two afterwards cannot be expressed in a functional model (no shared buffer exists there); it is tied by
    two-handle correspondence traces that mutate and destroy either side and re-observe the other.
    (statements printed by Coq from the lemmas they are proved by - tools/mkprop.py; statements only) *)
From Coq Require Import Permutation Sorted.
From CC Require Import Base.Prelude Base.Alloc Base.Ledger Generated.Status Generated.Constants Generated.Guards.
From CC Require Import Rbuf.RbufModel SPool.SPoolModel DPool.DPoolModel Array.ArrayModel Deque.DequeModel PQueue.PQueueModel Hash.HashModel Tst.TstModel Tree.TreeModel List_.ListModel SList.SListModel.
From CC Require Import Array.ArrayMore Array.ArrayStack Deque.DequeProofs3 Deque.DequeProofs4 Hash.HashProofsD Hash.HashProofsE List_.ListProofs6 SList.SListProofs5.
Local Open Scope N_scope.

(** CC_Array subarray: all b, e below 2^64; invalid ranges rejected with nothing allocated *)
Theorem C15_array_subarray :
  forall (a : arr) (b e : N) (al : alloc_st),
         ArrayProofs.arr_inv a al ->
         ArrayProofs.lim_ok a al ->
         b < W ->
         e < W ->
         exists (st : stat) (r : option arr) (al' : alloc_st),
           arr_subarray a b e al = Ok (st, r, al') /\
           (if (b <=? e) && (e <? a_size a)
            then
             match r with
             | Some s =>
                 st = CC_OK /\
                 a_data s = firstnN (e - b + 1) (skipnN b (a_data a)) /\
                 ArrayProofs.arr_inv s al' /\
                 ArrayProofs.lim_ok s al' /\
                 ArrayProofs.arr_inv a al' /\ a_mem s = a_mem a /\ a_num s = a_num a /\ a_den s = a_den a
             | None => st = CC_ERR_ALLOC /\ live al' = live al /\ ArrayProofs.arr_inv a al'
             end
            else st = CC_ERR_INVALID_RANGE /\ r = None /\ al' = al).
Proof. exact CC.Array.ArrayMore.subarray_spec. Qed.
Print Assumptions C15_array_subarray.

Theorem C15_array_copy_shallow :
  forall (a : arr) (al : alloc_st),
         ArrayProofs.arr_inv a al ->
         ArrayProofs.lim_ok a al ->
         exists (st : stat) (r : option arr) (al' : alloc_st),
           arr_copy_shallow a al = Ok (st, r, al') /\
           match r with
           | Some s =>
               st = CC_OK /\
               a_data s = a_data a /\
               a_cap s = a_cap a /\
               ArrayProofs.arr_inv s al' /\
               ArrayProofs.lim_ok s al' /\
               ArrayProofs.arr_inv a al' /\ a_mem s = a_mem a /\ a_num s = a_num a /\ a_den s = a_den a
           | None => st = CC_ERR_ALLOC /\ live al' = live al /\ ArrayProofs.arr_inv a al'
           end.
Proof. exact CC.Array.ArrayMore.copy_shallow_spec. Qed.
Print Assumptions C15_array_copy_shallow.

Theorem C15_array_copy_deep :
  forall (cp : N -> N) (a : arr) (al : alloc_st),
         ArrayProofs.arr_inv a al ->
         ArrayProofs.lim_ok a al ->
         exists (st : stat) (r : option arr) (al' : alloc_st),
           arr_copy_deep cp a al = Ok (st, r, al') /\
           match r with
           | Some s =>
               st = CC_OK /\
               a_data s = map cp (a_data a) /\
               ArrayProofs.arr_inv s al' /\
               ArrayProofs.lim_ok s al' /\ ArrayProofs.arr_inv a al' /\ a_mem s = a_mem a
           | None => st = CC_ERR_ALLOC /\ live al' = live al /\ ArrayProofs.arr_inv a al'
           end.
Proof. exact CC.Array.ArrayMore.copy_deep_spec. Qed.
Print Assumptions C15_array_copy_deep.

Theorem C15_array_filter :
  forall (pred : N -> bool) (a : arr) (al : alloc_st),
         ArrayProofs.arr_inv a al ->
         ArrayProofs.lim_ok a al ->
         exists (st : stat) (r : option arr) (al' : alloc_st),
           arr_filter pred a al = Ok (st, r, al') /\
           (if a_size a =? 0
            then st = CC_ERR_OUT_OF_RANGE /\ r = None /\ al' = al
            else
             match r with
             | Some s =>
                 st = CC_OK /\
                 a_data s = filter pred (a_data a) /\
                 ArrayProofs.arr_inv s al' /\
                 ArrayProofs.lim_ok s al' /\ ArrayProofs.arr_inv a al' /\ a_mem s = a_mem a
             | None => st = CC_ERR_ALLOC /\ live al' = live al /\ ArrayProofs.arr_inv a al'
             end).
Proof. exact CC.Array.ArrayMore.filter_spec. Qed.
Print Assumptions C15_array_filter.

(** CC_Stack filter: a stack of its own (fresh header and array blocks from the source's allocator family, the source's capacity) holding exactly the kept elements in order; empty source rejected; a refused allocation leaves nothing behind *)
Theorem C15_stack_filter :
  forall (pred : N -> bool) (s : stack) (al : alloc_st),
         ArrayProofs.arr_inv (s_arr s) al ->
         ArrayProofs.lim_ok (s_arr s) al ->
         limit al * 2 < W ->
         exists (st : stat) (r : option stack) (al' : alloc_st),
           stack_filter pred s al = Ok (st, r, al') /\
           (a_size (s_arr s) = 0 -> st = CC_ERR_OUT_OF_RANGE /\ r = None /\ al' = al) /\
           (0 < a_size (s_arr s) ->
            st = CC_OK /\
            (exists ns : stack,
               r = Some ns /\
               a_data (s_arr ns) = filter pred (a_data (s_arr s)) /\
               a_cap (s_arr ns) = a_cap (s_arr s) /\
               ArrayProofs.arr_inv (s_arr ns) al' /\
               s_mem ns = s_mem s /\
               a_mem (s_arr ns) = s_mem s /\ owned (s_mem s) (s_hdr ns) al' /\ s_hdr ns = next_id al) \/
            st = CC_ERR_ALLOC /\ r = None /\ live al' = live al).
Proof. exact CC.Array.ArrayStack.stack_filter_spec. Qed.
Print Assumptions C15_stack_filter.

(** CC_Deque copy_shallow / copy_deep from every layout (linearised, order preserved) *)
Theorem C15_deque_copy :
  forall (d : deque) (l : list N) (cp : option (N -> N)) (a : alloc_st),
         DequeProofs.dq_wf d ->
         DequeProofs.repr d l ->
         DequeProofs.owns d a ->
         exists (st : stat) (r : option deque) (a' : alloc_st),
           dq_copy d cp a = Ok (st, r, a') /\
           match r with
           | Some d2 =>
               st = CC_OK /\
               DequeProofs.dq_wf d2 /\
               DequeProofs.repr d2 (copy_image cp l) /\
               DequeProofs.owns d2 a' /\
               DequeProofs.owns d a' /\
               dq_mem d2 = dq_mem d /\
               dq_cap d2 = dq_cap d /\
               dq_size d2 = dq_size d /\
               dq_first d2 = 0 /\
               live a' =
               {| b_id := dq_buf d2; b_tag := dq_mem d; b_bytes := wmul (dq_cap d) 8 |}
               :: {| b_id := dq_hdr d2; b_tag := dq_mem d; b_bytes := SIZEOF_DEQUE |} :: live a
           | None => st = CC_ERR_ALLOC /\ live a' = live a /\ DequeProofs.owns d a'
           end.
Proof. exact CC.Deque.DequeProofs3.copy_spec. Qed.
Print Assumptions C15_deque_copy.

Theorem C15_deque_filter :
  forall (d : deque) (l : list N) (pred : N -> bool) (a : alloc_st),
         DequeProofs.dq_wf d ->
         DequeProofs.repr d l ->
         DequeProofs.owns d a ->
         exists (st : stat) (r : option deque) (a' : alloc_st),
           dq_filter d pred a = Ok (st, r, a') /\
           match r with
           | Some f =>
               st = CC_OK /\
               l <> [] /\
               DequeProofs.dq_wf f /\
               DequeProofs.repr f (filter pred l) /\
               DequeProofs.owns f a' /\ DequeProofs.owns d a' /\ dq_mem f = dq_mem d /\ dq_cap f = dq_cap d
           | None =>
               st = CC_ERR_OUT_OF_RANGE /\ l = [] /\ a' = a \/
               st = CC_ERR_ALLOC /\ live a' = live a /\ DequeProofs.owns d a'
           end.
Proof. exact CC.Deque.DequeProofs4.filter_spec. Qed.
Print Assumptions C15_deque_filter.

(** CC_HashTable get_keys / get_values: exactly the bindings, table unchanged *)
Theorem C15_hashtable_keys_values :
  forall (hash : N -> N) (keq : N -> N -> bool),
         (forall a : N, a <> 0 -> keq a a = true) ->
         (forall a b : N, a <> 0 -> b <> 0 -> keq a b = keq b a) ->
         (forall a b c : N, a <> 0 -> b <> 0 -> c <> 0 -> keq a b = true -> keq b c = true -> keq a c = true) ->
         (forall a b : N, a <> 0 -> b <> 0 -> keq a b = true -> hash a = hash b) ->
         forall (f : HashModel.entry -> N) (L0 : list block) (t : htable) (a : alloc_st) 
           (st : stat) (ar : carray) (a' : alloc_st),
         HashProofsB.ht_inv hash keq L0 t a ->
         ht_collect f t a = Ok (st, Some ar, a') ->
         st = CC_OK /\
         ar_items ar = map f (HashProofsB.entries t) /\
         lenN (ar_items ar) = ht_size t /\
         ar_cap ar = (if 0 <? ht_size t then ht_size t else 1) /\
         lenN (ar_items ar) <= ar_cap ar /\
         HashProofsA.own (ht_mem t) (ar_buf ar :: ar_hdr ar :: HashProofsB.ids t) a' L0.
Proof. exact CC.Hash.HashProofsE.ht_collect_content. Qed.
Print Assumptions C15_hashtable_keys_values.

Theorem C15_hashtable_collect :
  forall (hash : N -> N) (keq : N -> N -> bool),
         (forall a : N, a <> 0 -> keq a a = true) ->
         (forall a b : N, a <> 0 -> b <> 0 -> keq a b = keq b a) ->
         (forall a b c : N, a <> 0 -> b <> 0 -> c <> 0 -> keq a b = true -> keq b c = true -> keq a c = true) ->
         (forall a b : N, a <> 0 -> b <> 0 -> keq a b = true -> hash a = hash b) ->
         forall (f : HashModel.entry -> N) (L0 : list block) (t : htable) (a : alloc_st),
         HashProofsB.ht_inv hash keq L0 t a ->
         exists (st : stat) (oar : option carray) (a' : alloc_st),
           ht_collect f t a = Ok (st, oar, a') /\
           limit a' = limit a /\
           (plan a = [] -> plan a' = []) /\
           match oar with
           | Some ar =>
               st = CC_OK /\
               ar_items ar = map f (HashProofsB.entries t) /\
               ar_cap ar = (if 0 <? ht_size t then ht_size t else 1) /\
               HashProofsA.own (ht_mem t) (ar_buf ar :: ar_hdr ar :: HashProofsB.ids t) a' L0 /\
               plan a' = tl (tl (plan a))
           | None =>
               (st = CC_ERR_ALLOC \/ st = CC_ERR_INVALID_CAPACITY /\ 2 ^ 62 <= ht_size t /\ a' = a) /\
               HashProofsA.own (ht_mem t) (HashProofsB.ids t) a' L0 /\
               live a' = live a /\
               (plan a = [] ->
                st = CC_ERR_ALLOC -> limit a < SZ_ARRAY \/ limit a < 8 * ht_size t \/ W <= 8 * ht_size t)
           end.
Proof. exact CC.Hash.HashProofsD.ht_collect_spec. Qed.
Print Assumptions C15_hashtable_collect.

(** CC_List sublist / copy_shallow / copy_deep / filter *)
Theorem C15_list_sublist :
  forall (s : clist) (l1 mid l3 : list (N * N)) (a : alloc_st),
         ListHeap.lrep s (l1 ++ mid ++ l3) ->
         ListHeap.lok a ->
         mid <> [] ->
         exists r : stat * option clist * alloc_st,
           cl_sublist s (lenN l1) (lenN l1 + lenN mid - 1) a = Ok r /\
           derived_ok (map snd mid) (l_mem s) a (live a) r.
Proof. exact CC.List_.ListProofs6.sublist_spec. Qed.
Print Assumptions C15_list_sublist.

Theorem C15_list_copy :
  forall (f : N -> N) (keep : N -> bool) (s : clist) (l : list (N * N)) (a : alloc_st),
         ListHeap.lrep s l ->
         ListHeap.lok a ->
         exists r : stat * option clist * alloc_st,
           cl_copy_with f keep s a = Ok r /\
           derived_ok (map f (filter keep (map snd l))) (l_mem s) a (live a) r.
Proof. exact CC.List_.ListProofs6.copy_with_spec. Qed.
Print Assumptions C15_list_copy.

Theorem C15_list_filter :
  forall (pred : N -> bool) (s : clist) (l : list (N * N)) (a : alloc_st),
         ListHeap.lrep s l ->
         ListHeap.lok a ->
         l <> [] ->
         exists r : stat * option clist * alloc_st,
           cl_filter pred s a = Ok r /\ derived_ok (filter pred (map snd l)) (l_mem s) a (live a) r.
Proof. exact CC.List_.ListProofs6.filter_spec. Qed.
Print Assumptions C15_list_filter.

(** CC_SList *)
Theorem C15_slist_sublist :
  forall (s : slist) (l1 mid l3 : list (N * N)) (a : alloc_st),
         SListHeap.srep s (l1 ++ mid ++ l3) ->
         ListHeap.lok a ->
         mid <> [] ->
         exists r : stat * option slist * alloc_st,
           sl_sublist s (lenN l1) (lenN l1 + lenN mid - 1) a = Ok r /\
           sderived_ok (map snd mid) (sl_mem s) a (live a) r.
Proof. exact CC.SList.SListProofs5.ssublist_spec. Qed.
Print Assumptions C15_slist_sublist.

Theorem C15_slist_copy :
  forall (f : N -> N) (keep : N -> bool) (s : slist) (l : list (N * N)) (a : alloc_st),
         SListHeap.srep s l ->
         ListHeap.lok a ->
         exists r : stat * option slist * alloc_st,
           sl_copy_with f keep s a = Ok r /\
           sderived_ok (map f (filter keep (map snd l))) (sl_mem s) a (live a) r.
Proof. exact CC.SList.SListProofs5.scopy_with_spec. Qed.
Print Assumptions C15_slist_copy.

Theorem C15_slist_filter :
  forall (pred : N -> bool) (s : slist) (l : list (N * N)) (a : alloc_st),
         SListHeap.srep s l ->
         ListHeap.lok a ->
         l <> [] ->
         exists r : stat * option slist * alloc_st,
           sl_filter pred s a = Ok r /\ sderived_ok (filter pred (map snd l)) (sl_mem s) a (live a) r.
Proof. exact CC.SList.SListProofs5.sfilter_spec. Qed.
Print Assumptions C15_slist_filter.

