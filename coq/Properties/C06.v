(** C06 - memory safety and leak freedom on every contract-respecting history (the part a model can carry).
    Every engine model executes the C algorithm against explicit memory: checked buffer indices (an access at or
    beyond the allocated slot count, a read of a never-written slot, a NULL or dangling node) and a ledger of
    blocks (a release of a block that is not live, or through the other allocator family) make the step return
    [Fault]. The theorems say: from any state satisfying the invariant - hence after any history from the
    constructor - no operation faults, and destroy returns the ledger to its state before the constructor (each
    block released exactly once; a second release would be a fault). What ties this to the compiled code is the
    correspondence run under AddressSanitizer/UBSan, where a model [Fault] must coincide with a sanitizer abort.
    (statements printed by Coq from the lemmas they are proved by - tools/mkprop.py; statements only) *)
From Coq Require Import Permutation Sorted.
From CC Require Import Base.Prelude Base.Alloc Base.Ledger Generated.Status Generated.Constants Generated.Guards.
From CC Require Import Rbuf.RbufModel SPool.SPoolModel DPool.DPoolModel Array.ArrayModel Deque.DequeModel PQueue.PQueueModel Hash.HashModel Tst.TstModel Tree.TreeModel List_.ListModel SList.SListModel.
From CC Require Import Array.ArrayMore Array.ArrayRefine DPool.DPoolLedger Deque.DequeProofs5 Hash.HashProofsE List_.ListProofs5 List_.ListProofs6 PQueue.PQueueProofs2 Rbuf.RbufProofs SList.SListProofs5 SPool.SPoolProofs Tree.TreeTheorems Tst.TstProofs2.
Local Open Scope N_scope.

(** CC_Rbuf: no history faults *)
Theorem C06_rbuf_no_fault :
  forall (ops : list rb_op) (r : rbuf), rb_inv r -> forall f : fault, rb_run r ops <> Fault f.
Proof. exact CC.Rbuf.RbufProofs.rb_run_no_fault. Qed.
Print Assumptions C06_rbuf_no_fault.

(** CC_Rbuf: destroy releases exactly the two blocks of the constructor *)
Theorem C06_rbuf_balanced :
  forall (mem : tag) (c : N) (a : alloc_st) (st : stat) (r : rbuf) (a' : alloc_st),
         rb_new mem c a = Ok (st, Some r, a') ->
         exists a'' : alloc_st, rb_destroy r a' = Ok a'' /\ live a'' = live a.
Proof. exact CC.Rbuf.RbufProofs.rb_new_destroy_balanced. Qed.
Print Assumptions C06_rbuf_balanced.

(** CC_Array: every history returns Ok (no fault) and keeps the ownership invariant *)
Theorem C06_array_run :
  forall (pred : N -> bool) (ops : list arr_op) (a : arr) (al : alloc_st),
         ArrayProofs.arr_inv a al ->
         ArrayProofs.lim_ok a al ->
         Forall op_ok ops ->
         exists (outs : list arr_out) (a' : arr) (al' : alloc_st),
           arr_run pred a ops al = Ok (outs, a', al') /\
           ArrayProofs.arr_inv a' al' /\
           ArrayProofs.lim_ok a' al' /\ ideal_run pred (a_data a) ops outs (a_data a').
Proof. exact CC.Array.ArrayRefine.arr_run_refines. Qed.
Print Assumptions C06_array_run.

(** CC_Array: the constructor over EVERY machine-word capacity (since fix 9e3425e a capacity whose byte size overflows is refused; before, capacity 2^61 gave a 0-byte buffer) *)
Theorem C06_array_new_total :
  forall (mem : tag) (capacity num den : N) (al : alloc_st) (st : stat) (r : option arr)
           (al' : alloc_st),
         ledger_wf al ->
         0 < den ->
         ArrayModel.arr_new mem capacity num den al = (st, r, al') ->
         match r with
         | Some a =>
             st = CC_OK /\
             a_data a = [] /\
             a_cap a = capacity /\
             ArrayProofs.arr_inv a al' /\
             a_mem a = mem /\
             capacity * 8 < W /\
             (a_num a, a_den a) =
             (if num <=? den then (DEFAULT_EXPANSION_FACTOR_num, DEFAULT_EXPANSION_FACTOR_den) else (num, den))
         | None => st = CC_ERR_INVALID_CAPACITY /\ al' = al \/ st = CC_ERR_ALLOC /\ live al' = live al
         end.
Proof. exact CC.Array.ArrayRefine.arr_new_total. Qed.
Print Assumptions C06_array_new_total.

(** CC_Array: destroy releases header and buffer, nothing else *)
Theorem C06_array_destroy :
  forall (a : arr) (al : alloc_st),
         ArrayProofs.arr_inv a al ->
         exists al' : alloc_st,
           ArrayModel.arr_destroy a al = Ok al' /\
           (forall b : block, In b (live al') <-> In b (live al) /\ b_id b <> a_blk a /\ b_id b <> a_hdr a).
Proof. exact CC.Array.ArrayRefine.arr_destroy_spec. Qed.
Print Assumptions C06_array_destroy.

(** CC_Array: derived arrays own two fresh blocks; a refused request leaves the ledger as it was *)
Theorem C06_array_derive :
  forall (a : arr) (d : list N) (al : alloc_st),
         ArrayProofs.arr_inv a al ->
         ArrayProofs.lim_ok a al ->
         lenN d <= a_cap a ->
         exists (st : stat) (r : option arr) (al' : alloc_st),
           arr_derive a d al = Ok (st, r, al') /\
           match r with
           | Some b =>
               st = CC_OK /\
               a_data b = d /\
               a_cap b = a_cap a /\
               a_num b = a_num a /\
               a_den b = a_den a /\
               a_mem b = a_mem a /\
               ArrayProofs.arr_inv b al' /\
               ArrayProofs.lim_ok b al' /\
               ArrayProofs.arr_inv a al' /\
               ArrayProofs.lim_ok a al' /\
               a_hdr b <> a_hdr a /\ a_hdr b <> a_blk a /\ a_blk b <> a_hdr a /\ a_blk b <> a_blk a
           | None =>
               st = CC_ERR_ALLOC /\ live al' = live al /\ ArrayProofs.arr_inv a al' /\ ArrayProofs.lim_ok a al'
           end.
Proof. exact CC.Array.ArrayMore.derive_spec. Qed.
Print Assumptions C06_array_derive.

(** CC_Deque: no step faults (add_at only in the branches the model classifies as sound) *)
Theorem C06_deque_no_fault :
  forall (d : deque) (a : alloc_st) (o : dq_op) (f : fault),
         DequeProofs.dq_inv d -> DequeProofs.owns d a -> DequeProofs4.op_ok d o -> dq_step d a o <> Fault f.
Proof. exact CC.Deque.DequeProofs5.deque_step_no_fault. Qed.
Print Assumptions C06_deque_no_fault.

(** CC_Deque: constructor, any history, destroy: the ledger is back where it started *)
Theorem C06_deque_life :
  forall (mem : tag) (capacity : N) (a : alloc_st) (ops : list dq_op) (st : stat) 
           (d : deque) (a1 : alloc_st) (outs : list dq_out) (d' : deque) (a' : alloc_st),
         AllocProofs.ledger_ok a ->
         0 < next_id a ->
         dq_new_conf mem capacity a = Ok (st, Some d, a1) ->
         DequeProofs4.ops_ok d a1 ops ->
         dq_run d a1 ops = Ok (outs, d', a') ->
         exists a'' : alloc_st, dq_destroy d' a' = Ok a'' /\ live a'' = live a.
Proof. exact CC.Deque.DequeProofs5.deque_life_balanced. Qed.
Print Assumptions C06_deque_life.

(** CC_Deque: destroy_cb hands each held element to the callback once, in order *)
Theorem C06_deque_destroy_cb :
  forall (d : deque) (a : alloc_st),
         DequeProofs.dq_inv d ->
         DequeProofs.owns d a ->
         exists a' : alloc_st, dq_destroy_cb d a = Ok (DequeProofs.dq_abs d, a') /\ live a' = residue d a.
Proof. exact CC.Deque.DequeProofs5.destroy_cb_spec. Qed.
Print Assumptions C06_deque_destroy_cb.

(** CC_PQueue: no fault of any kind (heapify's recursion included) *)
Theorem C06_pqueue_no_fault :
  forall cmp : N -> N -> Z,
         cmp_preorder cmp ->
         forall (lim : N) (L0 : list block) (s : pq) (o : pq_op) (a : alloc_st),
         pq_inv cmp lim s ->
         pq_led lim L0 s a ->
         (forall f : fault, pq_step cmp s o a <> Fault f) /\
         (forall (f : fault) (fuel : nat), pq_size s <= N.of_nat fuel -> pq_drain cmp fuel s <> Fault f).
Proof. exact CC.PQueue.PQueueProofs2.pqT_fuel_suffices. Qed.
Print Assumptions C06_pqueue_no_fault.

(** CC_PQueue: the constructor never faults, whatever the capacity and factor *)
Theorem C06_pqueue_new_no_fault :
  forall (mem : tag) (c n d : N) (a : alloc_st) (f : fault), pq_new mem c n d a <> Fault f.
Proof. exact CC.PQueue.PQueueProofs2.pq_new_no_fault. Qed.
Print Assumptions C06_pqueue_new_no_fault.

(** CC_PQueue: every history from the constructor, with no assumption on the capacity's byte size *)
Theorem C06_pqueue_new_total :
  forall cmp : N -> N -> Z,
         (forall a b : N, (cmp a b >= 0)%Z \/ (cmp b a >= 0)%Z) ->
         (forall a b c : N, (cmp a b >= 0)%Z -> (cmp b c >= 0)%Z -> (cmp a c >= 0)%Z) ->
         (forall a b : N, (cmp a b > 0)%Z <-> (cmp b a < 0)%Z) ->
         forall (mem : tag) (c n d : N) (a : alloc_st) (st : stat) (s : pq) (a' : alloc_st) (ops : list pq_op),
         limit a < W - 16 ->
         limit a * fst (pq_factor n d) < W * snd (pq_factor n d) ->
         0 < d ->
         pq_new mem c n d a = Ok (st, Some s, a') ->
         exists (outs : list pq_out) (s' : pq) (a'' : alloc_st),
           pq_run cmp s a' ops = Ok (outs, s', a'') /\
           pq_inv cmp (limit a) s' /\ pq_led (limit a) (live a) s' a'' /\ bag_run cmp [] ops outs (pq_abs s').
Proof. exact CC.PQueue.PQueueProofs2.pq_new_run_refines_total. Qed.
Print Assumptions C06_pqueue_new_total.

(** CC_PQueue: destroy after any history; destroy_cb calls the callback once per element *)
Theorem C06_pqueue_destroy :
  forall cmp : N -> N -> Z,
         cmp_preorder cmp ->
         forall (mem : tag) (c n d : N) (a : alloc_st) (st : stat) (s : pq) (a' : alloc_st) (ops : list pq_op),
         c * 8 < W ->
         limit a < W - 16 ->
         limit a * fst (pq_factor n d) < W * snd (pq_factor n d) ->
         0 < d ->
         pq_new mem c n d a = Ok (st, Some s, a') ->
         exists (outs : list pq_out) (s1 : pq) (a1 a2 a3 : alloc_st),
           pq_run cmp s a' ops = Ok (outs, s1, a1) /\
           pq_destroy s1 a1 = Ok a2 /\
           live a2 = live a /\ pq_destroy_cb s1 a1 = Ok (pq_abs s1, a3) /\ live a3 = live a.
Proof. exact CC.PQueue.PQueueProofs2.pqT_run_destroy. Qed.
Print Assumptions C06_pqueue_destroy.

(** CC_HashTable: no history faults *)
Theorem C06_hashtable_no_fault :
  forall (hash : N -> N) (keq : N -> N -> bool),
         (forall a : N, a <> 0 -> keq a a = true) ->
         (forall a b : N, a <> 0 -> b <> 0 -> keq a b = keq b a) ->
         (forall a b c : N, a <> 0 -> b <> 0 -> c <> 0 -> keq a b = true -> keq b c = true -> keq a c = true) ->
         (forall a b : N, a <> 0 -> b <> 0 -> keq a b = true -> hash a = hash b) ->
         forall (L0 : list block) (ops : list ht_op) (t : htable) (a : alloc_st),
         HashProofsB.ht_inv hash keq L0 t a -> forall f : fault, ht_run hash keq t ops a <> Fault f.
Proof. exact CC.Hash.HashProofsE.ht_run_no_fault. Qed.
Print Assumptions C06_hashtable_no_fault.

(** CC_HashTable: destroy releases header, bucket array and every entry *)
Theorem C06_hashtable_destroy :
  forall (hash : N -> N) (keq : N -> N -> bool),
         (forall a : N, a <> 0 -> keq a a = true) ->
         (forall a b : N, a <> 0 -> b <> 0 -> keq a b = keq b a) ->
         (forall a b c : N, a <> 0 -> b <> 0 -> c <> 0 -> keq a b = true -> keq b c = true -> keq a c = true) ->
         (forall a b : N, a <> 0 -> b <> 0 -> keq a b = true -> hash a = hash b) ->
         forall (L0 : list block) (t : htable) (a : alloc_st),
         HashProofsB.ht_inv hash keq L0 t a -> exists a' : alloc_st, ht_destroy t a = Ok a' /\ live a' = L0.
Proof. exact CC.Hash.HashProofsE.ht_destroy_balanced. Qed.
Print Assumptions C06_hashtable_destroy.

(** CC_TSTTable: remove_all / destroy release every node and every entry *)
Theorem C06_tst_remove_all :
  forall (base : list N) (s : table) (a : alloc_st),
         tst_inv base s a ->
         exists (s' : table) (a' : alloc_st),
           tst_remove_all s a = Ok (s', a') /\
           tst_inv base s' a' /\
           t_root s' = Leaf /\ t_size s' = 0 /\ Permutation (live_ids a') (t_hdr s :: base).
Proof. exact CC.Tst.TstProofs2.tst_remove_all_balanced. Qed.
Print Assumptions C06_tst_remove_all.

Theorem C06_tst_destroy :
  forall (mem : tag) (a : alloc_st) (st : stat) (s : table) (a1 : alloc_st) 
           (ops : list tst_op) (outs : list tst_out) (s' : table) (a' : alloc_st),
         AllocProofs.ledger_ok a ->
         0 < next_id a ->
         tst_new mem a = (st, Some s, a1) ->
         Forall op_wf ops ->
         lenN ops < W ->
         tst_run s a1 ops = Ok (outs, s', a') ->
         exists a'' : alloc_st, tst_destroy s' a' = Ok a'' /\ Permutation (live_ids a'') (live_ids a).
Proof. exact CC.Tst.TstProofs2.tst_new_destroy_balanced. Qed.
Print Assumptions C06_tst_destroy.

(** CC_TreeTable: every history returns Ok *)
Theorem C06_treetable_run :
  forall cmp : N -> N -> comparison,
         cmp_ok cmp ->
         forall (ops : list tt_op) (s : ttable) (a : alloc_st) (outs : list tt_out) 
           (s' : ttable) (a' : alloc_st),
         TreeProofsTable.tt_inv cmp s a ->
         N.of_nat (tsize (tt_tree s)) + N.of_nat (length ops) < W ->
         tt_run cmp s a ops = Ok (outs, s', a') ->
         TreeProofsTable.tt_inv cmp s' a' /\
         (map (fun o : tt_out => (o_st o, o_vals o)) outs, TreeProofsTable.abs s') =
         spec_run_d cmp (TreeProofsTable.abs s) ops (map o_st outs).
Proof. exact CC.Tree.TreeTheorems.T_run_refines. Qed.
Print Assumptions C06_treetable_run.

(** CC_DynamicPool: every history keeps the invariant and the ownership of its pages *)
Theorem C06_dpool_run :
  forall (ops : list dp_op) (p : dpool) (a : alloc_st),
         dp_ok p a ->
         pre_along p a ops -> exists (p' : dpool) (a' : alloc_st), dp_run p a ops = Ok (p', a') /\ dp_ok p' a'.
Proof. exact CC.DPool.DPoolLedger.dp_run_ok. Qed.
Print Assumptions C06_dpool_run.

(** CC_DynamicPool: destroy releases the header and every page exactly once *)
Theorem C06_dpool_destroy :
  forall (p : dpool) (a : alloc_st),
         DPoolProofs.dp_inv p a ->
         dp_owns p a ->
         exists a' : alloc_st,
           dp_destroy p a = Ok a' /\
           (forall b : block,
            In b (live a') <-> In b (live a) /\ b_id b <> dp_hdr p /\ ~ In (b_id b) (map fst (dp_pages p))).
Proof. exact CC.DPool.DPoolLedger.dp_destroy_spec. Qed.
Print Assumptions C06_dpool_destroy.

(** CC_DynamicPool: reset releases every page but the oldest, exactly once *)
Theorem C06_dpool_reset :
  forall (p : dpool) (a : alloc_st),
         DPoolProofs.dp_inv p a ->
         dp_owns p a ->
         exists (p' : dpool) (a' : alloc_st),
           dp_reset p a = Ok (p', a') /\
           dp_pages p' = [last (dp_pages p) (0, 0)] /\
           dp_top p' = snd (last (dp_pages p) (0, 0)) /\
           dp_free p' = 0 /\
           dp_high p' = 0 /\
           dp_blocks p' = [] /\
           (forall b : block,
            In b (live a') <-> In b (live a) /\ ~ In (b_id b) (map fst (removelast (dp_pages p)))) /\
           ids_nodup a' /\
           next_id a' = next_id a /\ dp_hdr p' = dp_hdr p /\ dp_mem p' = dp_mem p /\ DPoolProofs.dp_inv p' a'.
Proof. exact CC.DPool.DPoolLedger.dp_reset_spec. Qed.
Print Assumptions C06_dpool_reset.

(** CC_StaticPool: every history keeps blocks inside the caller's region *)
Theorem C06_spool_run :
  forall (ops : list sp_op) (p : spool), sp_inv p -> sp_inv (sp_run p ops).
Proof. exact CC.SPool.SPoolProofs.sp_run_inv. Qed.
Print Assumptions C06_spool_run.

(** CC_List: destroy releases the header and every node exactly once *)
Theorem C06_list_destroy :
  forall (s : clist) (l : list (N * N)) (a : alloc_st) (F : list block),
         ListHeap.lrep s l ->
         ListProofs1.lown a s l F ->
         exists a' : alloc_st,
           cl_destroy s a = Ok a' /\
           Permutation (live a') F /\ ListHeap.lok a' /\ ListHeap.aframe a a' /\ plan a' = plan a.
Proof. exact CC.List_.ListProofs6.destroy_spec. Qed.
Print Assumptions C06_list_destroy.

(** CC_List: destroy_cb / remove_all_cb call the callback once per element, in order *)
Theorem C06_list_destroy_cb :
  forall (s : clist) (l : list (N * N)) (a : alloc_st) (F : list block),
         ListHeap.lrep s l ->
         ListProofs1.lown a s l F ->
         exists a' : alloc_st,
           cl_destroy_cb s a = Ok (a', map snd l) /\
           Permutation (live a') F /\ ListHeap.lok a' /\ ListHeap.aframe a a'.
Proof. exact CC.List_.ListProofs6.destroy_cb_spec. Qed.
Print Assumptions C06_list_destroy_cb.

(** CC_List: every two-list history returns Ok (no NULL / dangling node access in the explicit node heap) *)
Theorem C06_list_run :
  forall (cmp : N -> N -> comparison) (pred : N -> bool) (ops : list (hnd * lop)) (w : world),
         ListProofs4.winv w ->
         (has_splice ops = true -> l_mem (wa w) = l_mem (wb w)) ->
         exists (outs : list lout) (w' : world) (fls : list bool),
           cl_run cmp pred w ops = Ok (outs, w') /\
           ListProofs4.winv w' /\
           length fls = length ops /\
           (outs, ListProofs4.wabs w') = ListModel.spec_run cmp pred (ListProofs4.wabs w) ops fls /\
           ListHeap.aframe (wal w) (wal w') /\
           (plan (wal w) = [] -> fls_ok cmp pred (limit (wal w)) (ListProofs4.wabs w) ops fls).
Proof. exact CC.List_.ListProofs5.list_run_refines. Qed.
Print Assumptions C06_list_run.

(** CC_SList *)
Theorem C06_slist_destroy :
  forall (s : slist) (l : list (N * N)) (a : alloc_st) (F : list block),
         SListHeap.srep s l ->
         SListProofs1.slown a s l F ->
         exists a' : alloc_st,
           sl_destroy s a = Ok a' /\
           Permutation (live a') F /\ ListHeap.lok a' /\ ListHeap.aframe a a' /\ plan a' = plan a.
Proof. exact CC.SList.SListProofs5.sdestroy_spec. Qed.
Print Assumptions C06_slist_destroy.

Theorem C06_slist_destroy_cb :
  forall (s : slist) (l : list (N * N)) (a : alloc_st) (F : list block),
         SListHeap.srep s l ->
         SListProofs1.slown a s l F ->
         exists a' : alloc_st,
           sl_destroy_cb s a = Ok (a', map snd l) /\
           Permutation (live a') F /\ ListHeap.lok a' /\ ListHeap.aframe a a' /\ plan a' = plan a.
Proof. exact CC.SList.SListProofs5.sdestroy_cb_spec. Qed.
Print Assumptions C06_slist_destroy_cb.

