(** C03 - CC_TreeTable / CC_TreeSet are exact ordered maps / sets.
    Only statements, each closed by [exact]; proofs live in Tree/TreeProofs*.v (collected in Tree/TreeTheorems.v).
    The ideal object is an association list strictly sorted by the comparator ([spec_step], TreeModel.v) with the
    same key-based cursor; [abs s] = (in-order bindings of the tree, cursor).  [refines_step]: either the
    call reported a refused allocation (only [add] can) and the abstract state is unchanged, or status,
    out-values and new abstract state are exactly the ideal step's.  [op_ok] is the documented iterator
    contract (initialised iterator; iter_remove only after an iter_next). *)
From Coq Require Import Sorted.
From CC Require Import Base.Prelude Base.Alloc Base.AllocProofs Generated.Status Tree.TreeModel.
From CC Require Import Tree.TreeProofsInv Tree.TreeProofsTable Tree.TreeProofsRun Tree.TreeProofsSet Tree.TreeTheorems.
Local Open Scope nat_scope.

(** In-order keys are strictly ascending (hence distinct), the size field counts them, the tree is red-black. *)
Theorem C03_bst_inv : forall cmp, cmp_ok cmp -> forall s a,
  tt_inv cmp s a ->
  StronglySorted (fun x y => cmp x y = Lt) (keys (tt_tree s)) /\ NoDup (keys (tt_tree s)) /\
  tt_size s = lenN (elems (tt_tree s)) /\ rb_inv cmp (tt_tree s).
Proof. exact T_bst_inv. Qed.
Print Assumptions C03_bst_inv.

(** The constructor yields the empty map. *)
Theorem C03_new : forall cmp, cmp_ok cmp -> forall mem a0 st s a,
  ledger_ok a0 -> (0 < next_id a0)%N -> tt_new mem a0 = Ok (st, Some s, a) ->
  st = CC_OK /\ tt_inv cmp s a /\ abs s = ([], None) /\ tt_tree s = L.
Proof. exact T_new_inv. Qed.
Print Assumptions C03_new.

(** One step of any operation (add-or-replace, get, contains_key/value, remove, remove_first/last/all, first/last
    key/value, greater_than/lesser_than, size, foreach, iterator init/next/remove) from any state satisfying
    the invariant: the model does not fault, keeps the invariant, and refines the ideal map with exact statuses. *)
Theorem C03_step_refines : forall cmp, cmp_ok cmp -> forall s a o,
  tt_inv cmp s a -> (N.of_nat (tsize (tt_tree s)) + 1 < W)%N -> op_ok s o ->
  exists out s' a', tt_step cmp s a o = Ok (out, s', a') /\ tt_inv cmp s' a' /\ refines_step cmp s o out s'.
Proof. exact T_step_refines. Qed.
Print Assumptions C03_step_refines.

(** All histories, any fault plan: the statuses / out-values and the final abstract state are those of the ideal
    map driven through the same operations (a refused allocation leaves it unchanged). *)
Theorem C03_run_refines : forall cmp, cmp_ok cmp -> forall mem a0 st s a ops outs s' a',
  ledger_ok a0 -> (0 < next_id a0)%N -> tt_new mem a0 = Ok (st, Some s, a) ->
  (N.of_nat (length ops) < W)%N ->
  tt_run cmp s a ops = Ok (outs, s', a') ->
  tt_inv cmp s' a' /\
  (map (fun o => (o_st o, o_vals o)) outs, abs s') = spec_run_d cmp ([], None) ops (map o_st outs).
Proof. exact T_new_run_refines. Qed.
Print Assumptions C03_run_refines.

Theorem C03_run_refines_from : forall cmp, cmp_ok cmp -> forall ops s a outs s' a',
  tt_inv cmp s a -> (N.of_nat (tsize (tt_tree s)) + N.of_nat (length ops) < W)%N ->
  tt_run cmp s a ops = Ok (outs, s', a') ->
  tt_inv cmp s' a' /\
  (map (fun o => (o_st o, o_vals o)) outs, abs s') = spec_run_d cmp (abs s) ops (map o_st outs).
Proof. exact T_run_refines. Qed.
Print Assumptions C03_run_refines_from.

(** With an allocator that grants every node request the run is exactly the ideal map's run: ERR_ALLOC never
    appears, so "always fail" does not refine the ideal map. *)
Theorem C03_run_refines_granted : forall cmp, cmp_ok cmp -> forall ops s a outs s' a',
  tt_inv cmp s a -> (N.of_nat (tsize (tt_tree s)) + N.of_nat (length ops) < W)%N ->
  plan a = [] -> (SIZEOF_RBNODE <= limit a)%N ->
  tt_run cmp s a ops = Ok (outs, s', a') ->
  tt_inv cmp s' a' /\ (map (fun o => (o_st o, o_vals o)) outs, abs s') = spec_run cmp (abs s) ops.
Proof. exact T_run_refines_granted. Qed.
Print Assumptions C03_run_refines_granted.

(** In-order enumeration: foreach_key / foreach_value hand over the bindings in strictly ascending key order,
    and a fresh iterator yields every binding exactly once in that order, then ITER_END. *)
Theorem C03_inorder : forall cmp, cmp_ok cmp -> forall s a,
  tt_inv cmp s a ->
  let l := elems (tt_tree s) in
  StronglySorted (fun x y => cmp x y = Lt) (map fst l) /\
  tt_step cmp s a OForeachKey = Ok (mk_out CC_OK (map fst l) 0, s, a) /\
  tt_step cmp s a OForeachValue = Ok (mk_out CC_OK (map snd l) 0, s, a) /\
  exists outs s' a',
    tt_run cmp s a (OIterInit :: repeat OIterNext (length l) ++ [OIterNext]) = Ok (outs, s', a') /\
    map (fun o => (o_st o, o_vals o)) outs =
      (CC_OK, []) :: map (fun b => (CC_OK, [fst b; snd b])) l ++ [(CC_ITER_END, [])] /\
    tt_inv cmp s' a' /\ elems (tt_tree s') = l.
Proof. exact T_inorder. Qed.
Print Assumptions C03_inorder.

(** Removal through the iterator deletes exactly the entry yielded last and reports its value; the pending
    successor is kept; a second removal reports KEY_NOT_FOUND and changes nothing. *)
Theorem C03_iter_remove : forall cmp, cmp_ok cmp -> forall s a k nx,
  tt_inv cmp s a -> (N.of_nat (tsize (tt_tree s)) + 1 < W)%N ->
  tt_iter s = Some {| it_cur := CNode k; it_next := nx |} ->
  exists v s' a',
    assoc_eqb k (elems (tt_tree s)) = Some (k, v) /\
    tt_step cmp s a OIterRemove = Ok (mk_out CC_OK [v] 0, s', a') /\ tt_inv cmp s' a' /\
    elems (tt_tree s') = remove_eqb k (elems (tt_tree s)) /\
    tt_iter s' = Some {| it_cur := CNull; it_next := nx |} /\
    tt_step cmp s' a' OIterRemove = Ok (mk_out CC_ERR_KEY_NOT_FOUND [] 0, s', a').
Proof. exact T_iter_remove. Qed.
Print Assumptions C03_iter_remove.

(** CC_TreeSet: constructor, one step, all histories - the wrappers' answers are the ideal map's answers passed
    through the status translation of cc_treeset.c, and every stored value is the dummy. *)
Theorem C03_treeset_new : forall cmp, cmp_ok cmp -> forall mem a0 st s a,
  ledger_ok a0 -> (0 < next_id a0)%N -> ts_new mem a0 = Ok (st, Some s, a) ->
  st = CC_OK /\ ts_inv cmp s a /\ abs (ts_tab s) = ([], None).
Proof. exact T_set_new_inv. Qed.
Print Assumptions C03_treeset_new.

Theorem C03_treeset_refines : forall cmp, cmp_ok cmp -> forall s a o,
  ts_inv cmp s a -> (N.of_nat (tsize (tt_tree (ts_tab s))) + 1 < W)%N -> op_ok (ts_tab s) (ts_to_tt o) ->
  exists out s' a', ts_step cmp s a o = Ok (out, s', a') /\ ts_inv cmp s' a' /\ ts_hdr s' = ts_hdr s /\
                    ts_refines cmp s o out s'.
Proof. exact T_set_step_refines. Qed.
Print Assumptions C03_treeset_refines.

Theorem C03_treeset_run_refines : forall cmp, cmp_ok cmp -> forall ops s a outs s' a',
  ts_inv cmp s a -> (N.of_nat (tsize (tt_tree (ts_tab s))) + N.of_nat (length ops) < W)%N ->
  ts_run cmp s a ops = Ok (outs, s', a') ->
  ts_inv cmp s' a' /\ ts_hdr s' = ts_hdr s /\
  (map (fun o => (o_st o, o_vals o)) outs, abs (ts_tab s')) = ts_spec_run_d cmp (abs (ts_tab s)) ops (map o_st outs).
Proof. exact T_set_run_refines. Qed.
Print Assumptions C03_treeset_run_refines.

(** Non-vacuity: a concrete table reached through the constructor, three insertions and a two-children
    removal satisfies the invariant and holds exactly the two remaining bindings. *)
Example C03_nonvacuous :
  exists s a, tt_inv N.compare s a /\ elems (tt_tree s) = [(1, 10); (3, 30)]%N /\ tt_size s = 2%N.
Proof.
  pose (x := tt_new Conf (alloc_init [] 1000)).
  assert (En : tt_new Conf (alloc_init [] 1000) = x) by reflexivity. vm_compute in x. subst x.
  apply (T_new_inv N.compare N_compare_ok) in En; [|apply ledger_ok_init|reflexivity].
  destruct En as (_ & I & _ & _).
  match type of I with TreeProofsTable.tt_inv _ ?s0 ?a0 =>
    pose (y := tt_run N.compare s0 a0 [OAdd 2 20; OAdd 1 10; OAdd 3 30; ORemove 2]%N);
    assert (Er : tt_run N.compare s0 a0 [OAdd 2 20; OAdd 1 10; OAdd 3 30; ORemove 2]%N = y) by reflexivity
  end.
  vm_compute in y. subst y.
  apply (T_run_refines N.compare N_compare_ok) in Er; [|exact I|vm_compute; reflexivity].
  destruct Er as (I' & _). do 2 eexists. split; [exact I'|]. split; reflexivity.
Qed.
