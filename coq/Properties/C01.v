(** C01 - dynamic arrays behave as ideal sequences (CC_Array; CC_Stack shares the model).
    The model keeps the live prefix of the buffer as a list, so the abstraction of a state is [a_data].
    [arr_inv a al]: size <= capacity, capacity >= 1, the buffer fits the allocator's limit, factor > 1, and
    the header and buffer blocks are owned in the ledger [al]. [lim_ok]: limit * factor and limit + 16 stay
    below 2^64 (growth arithmetic cannot wrap). [op_ok]: index arguments are below 2^64, i.e. the whole
    size_t domain. Statements only; proofs are in Array/*.v. *)
From CC Require Import Base.Prelude Base.Alloc Base.Ledger Generated.Status Generated.Constants Generated.Guards.
From CC Require Import Array.ArrayModel Array.ArrayProofs Array.ArrayLoops Array.ArrayRefine Array.SizedEnc.
Local Open Scope N_scope.

(** One operation from any state satisfying the invariant, any predicate, any element values (duplicates
    and NULL = 0 included), any index below 2^64: no fault, and either the status, out-value and new contents
    are exactly those of the ideal list (the invariant is preserved; operations that do not allocate leave
    the ledger untouched), or - only for add / add_at / trim - the status is ERR_ALLOC, the array is
    literally unchanged and the ledger shows exactly one refused request. *)
Theorem C01_step_refines : forall pred a o al,
  arr_inv a al -> lim_ok a al -> op_ok o ->
  exists out a' al', arr_step pred a o al = Ok (out, a', al') /\
    (((out, a_data a') = spec_step pred (a_data a) o /\ arr_inv a' al' /\ lim_ok a' al' /\
      (allocating o = false -> al' = al)) \/
     (allocating o = true /\ out = AOut CC_ERR_ALLOC None /\ a' = a /\ refused_once al al')).
Proof. exact arr_step_refines. Qed.
Print Assumptions C01_step_refines.

(** All finite histories. *)
Theorem C01_run_refines : forall pred ops a al,
  arr_inv a al -> lim_ok a al -> Forall op_ok ops ->
  exists outs a' al', arr_run pred a ops al = Ok (outs, a', al') /\ arr_inv a' al' /\ lim_ok a' al' /\
                      ideal_run pred (a_data a) ops outs (a_data a').
Proof. exact arr_run_refines. Qed.
Print Assumptions C01_run_refines.

(** The constructor, every capacity whose byte size is representable and every factor (<= 1 falls back to
    the generated default). *)
Theorem C01_new : forall mem capacity num den al st r al',
  ledger_wf al -> capacity * 8 < W -> 0 < den ->
  arr_new mem capacity num den al = (st, r, al') ->
  match r with
  | Some a => st = CC_OK /\ a_data a = [] /\ a_cap a = capacity /\ arr_inv a al' /\ a_mem a = mem /\
              (a_num a, a_den a) = (if num <=? den then (DEFAULT_EXPANSION_FACTOR_num, DEFAULT_EXPANSION_FACTOR_den) else (num, den))
  | None => (st = CC_ERR_INVALID_CAPACITY /\ al' = al) \/ (st = CC_ERR_ALLOC /\ live al' = live al)
  end.
Proof. exact arr_new_spec. Qed.
Print Assumptions C01_new.

(** Growing and trimming never change the contents. *)
Theorem C01_growth_preserves : forall a al,
  arr_inv a al -> lim_ok a al ->
  exists st a' al', arr_expand a al = Ok (st, a', al') /\
    ((st = CC_OK /\ arr_inv a' al' /\ lim_ok a' al' /\ a_data a' = a_data a /\ a_cap a < a_cap a' /\
      a_cap a' = a_cap a * a_num a / a_den a /\ nreq al' = nreq al + 1 /\ a_mem a' = a_mem a /\ a_hdr a' = a_hdr a) \/
     (st = CC_ERR_ALLOC /\ a' = a /\ refused_once al al')).
Proof. exact expand_spec. Qed.
Print Assumptions C01_growth_preserves.

Theorem C01_trim_preserves : forall a al,
  arr_inv a al -> lim_ok a al ->
  exists st a' al', arr_trim a al = Ok (st, a', al') /\
    ((st = CC_OK /\ arr_inv a' al' /\ lim_ok a' al' /\ a_data a' = a_data a /\ a_cap a' = N.max 1 (a_size a) /\
      a_mem a' = a_mem a /\ a_hdr a' = a_hdr a) \/
     (st = CC_ERR_ALLOC /\ a' = a /\ refused_once al al')).
Proof. exact trim_spec. Qed.
Print Assumptions C01_trim_preserves.

(** The two hand-written loops. *)
Theorem C01_reverse : forall a, a_size a < W -> arr_reverse a = Ok (set_data a (rev (a_data a))).
Proof. exact reverse_spec. Qed.
Print Assumptions C01_reverse.

Theorem C01_filter_mut : forall pred a,
  a_size a <> 0 -> arr_filter_mut pred a = (CC_OK, set_data a (filter pred (a_data a))).
Proof. exact filter_mut_spec. Qed.
Print Assumptions C01_filter_mut.

(** The range guard of add_at as generated from the C source: after the [index == size] test it rejects
    exactly the indices beyond the size, for every index and size below 2^64 (size - 1 on an empty array wraps). *)
Theorem C01_add_at_guard : forall i n, n < W -> i < W -> i <> n -> (g_array_add_at_range i n = true <-> n < i).
Proof. exact add_at_range_spec. Qed.
Print Assumptions C01_add_at_guard.

Theorem C01_destroy : forall a al,
  arr_inv a al -> exists al', arr_destroy a al = Ok al' /\
    (forall b, In b (live al') <-> In b (live al) /\ b_id b <> a_blk a /\ b_id b <> a_hdr a).
Proof. exact arr_destroy_spec. Qed.
Print Assumptions C01_destroy.

(** CC_ArraySized is checked against this same model: an element of k bytes is the little-endian image [enc k x] of a
    number x < 256^k (harness/sized.c). The encoding is a bijection, so byte-wise equality of stored elements (what
    the library's comparison loops decide) is equality of the numbers the model and the ideal list talk about, and a
    stored element reads back as the number that was stored. *)
Theorem C01_sized_encoding_injective : forall k x y,
  x < 256 ^ N.of_nat k -> y < 256 ^ N.of_nat k -> (enc k x = enc k y <-> x = y).
Proof. exact enc_eq_iff. Qed.
Print Assumptions C01_sized_encoding_injective.

Theorem C01_sized_encoding_roundtrip : forall k x, x < 256 ^ N.of_nat k -> dec (enc k x) = x.
Proof. exact dec_enc. Qed.
Print Assumptions C01_sized_encoding_roundtrip.

Theorem C01_sized_encoding_onto : forall l, Forall (fun b => b < 256) l -> enc (length l) (dec l) = l.
Proof. exact enc_dec. Qed.
Print Assumptions C01_sized_encoding_onto.

(** Non-vacuity: a concrete full array under a concrete ledger satisfies the premises. *)
Example C01_inv_nonvacuous :
  let al := {| plan := []; limit := 1099511627776; next_id := 3;
               live := [{| b_id := 2; b_tag := Conf; b_bytes := 16 |}; {| b_id := 1; b_tag := Conf; b_bytes := 56 |}]; nreq := 2 |} in
  let a := {| a_data := [5; 0]; a_cap := 2; a_slots := 2; a_num := 3; a_den := 2; a_hdr := 1; a_blk := 2; a_mem := Conf |} in
  arr_inv a al /\ lim_ok a al.
Proof.
  cbv zeta. split.
  - constructor; cbn; try lia.
    + split; [repeat constructor; cbn; intuition lia|]. intros b [<-|[<-|[]]]; cbn; lia.
    + eexists. split; [right; left; reflexivity|]. split; reflexivity.
    + eexists. split; [left; reflexivity|]. split; reflexivity.
  - split; cbn; unfold W; lia.
Qed.
