(** Doubly linked list: cc_list_reduce - the fold the callback computes, against the contents list. *)
From CC Require Import Base.Prelude Base.ListMem Base.Alloc Base.AllocProofs.
From CC Require Import Generated.Status Generated.Guards List_.ListModel List_.ListHeap List_.ListProofs1.
Local Open Scope N_scope.

(** [cc_list_reduce]: empty list - refused; one element [x] - [fn x NULL]; otherwise the left fold
    [fn (... (fn (fn x0 x1) x2) ...) xn], visiting every element exactly once in list order. No node outside the
    list is read (the walk returns [Ok]). *)
Theorem reduce_spec fn s l : lrep s l ->
  cl_reduce fn s = Ok (match map snd l with
                       | [] => (CC_ERR_OUT_OF_RANGE, 0)
                       | [x] => (CC_OK, fn x 0)
                       | x :: y :: rest => (CC_OK, fold_left fn rest (fn x y))
                       end).
Proof.
  intros R. unfold cl_reduce. rewrite (rep_size _ _ R), (rep_head _ _ R).
  pose proof (rep_seg _ _ R) as Hs. pose proof (rep_nz _ _ R) as Hnz.
  assert (Hfuel : (length l < fuel_of s)%nat) by (unfold fuel_of; rewrite (rep_size _ _ R), lenN_length; lia).
  destruct l as [|[x d] t].
  - reflexivity.
  - assert (Hl : lenN ((x, d) :: t) = lenN t + 1) by (unfold lenN; cbn [length]; lia).
    replace (lenN ((x, d) :: t) =? 0) with false by lia.
    cbn [first_id]. destruct (nz_tail _ _ _ Hnz) as [Hx0 Hnz']. destruct Hs as [Hx Ht].
    rewrite (load_ok _ _ _ Hx0 Hx). cbn [bind n_data n_next].
    destruct t as [|[y e] t'].
    + replace (lenN [(x, d)] =? 1) with true by reflexivity. reflexivity.
    + assert (Hl2 : lenN ((y, e) :: t') = lenN t' + 1) by (unfold lenN; cbn [length]; lia).
      replace (lenN ((x, d) :: (y, e) :: t') =? 1) with false by lia.
      cbn [first_id]. destruct (nz_tail _ _ _ Hnz') as [Hy0 Hnz'']. destruct Ht as [Hy Ht'].
      rewrite (load_ok _ _ _ Hy0 Hy). cbn [bind n_data n_next].
      rewrite (walk_data_seg (fuel_of s) (l_heap s) y t' Ht' Hnz'') by (cbn [length] in Hfuel; lia).
      cbn [bind map snd]. reflexivity.
Qed.

(** in terms of the list's own abstraction *)
Corollary reduce_abs fn s : lwf s ->
  cl_reduce fn s = Ok (match cl_abs s with
                       | [] => (CC_ERR_OUT_OF_RANGE, 0)
                       | [x] => (CC_OK, fn x 0)
                       | x :: y :: rest => (CC_OK, fold_left fn rest (fn x y))
                       end).
Proof. intros R. rewrite (lrep_abs _ _ R). apply reduce_spec. exact R. Qed.
