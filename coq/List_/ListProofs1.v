(** Doubly linked list: the core single-element operations on the representation invariant. *)
From Coq Require Import Permutation.
From CC Require Import Base.Prelude Base.ListMem Base.Alloc Base.AllocProofs.
From CC Require Import Generated.Status Generated.Guards List_.ListModel List_.ListHeap.
Local Open Scope N_scope.

Definition same_hdr (s s' : clist) : Prop := l_hdr s' = l_hdr s /\ l_mem s' = l_mem s.
Lemma same_hdr_refl s : same_hdr s s. Proof. split; reflexivity. Qed.
Lemma same_hdr_upd s a b c d : same_hdr s (upd s a b c d). Proof. split; reflexivity. Qed.
Global Hint Resolve same_hdr_refl same_hdr_upd : core.

Definition lown (a : alloc_st) (s : clist) (l : list (N * N)) (F : list block) : Prop := lok a /\ owns a s l F.

Lemma blocks_same s s' l : same_hdr s s' -> blocks s' l = blocks s l.
Proof. intros [H1 H2]. unfold blocks, hblk. rewrite H1, H2. reflexivity. Qed.

Lemma owns_perm a s s' l l' F : owns a s l F -> same_hdr s s' -> Permutation (ids l') (ids l) -> owns a s' l' F.
Proof.
  unfold owns. intros Ho Hs Hp. rewrite (blocks_same _ _ _ Hs). eapply Permutation_trans; [exact Ho|].
  apply Permutation_app_tail. unfold blocks. constructor. apply Permutation_map, Permutation_sym, Hp.
Qed.

Lemma owns_insert a a1 s s' l l' F id :
  owns a s l F -> live a1 = nblk (l_mem s) id :: live a -> same_hdr s s' -> Permutation (ids l') (id :: ids l) ->
  owns a1 s' l' F.
Proof.
  unfold owns. intros Ho Hl Hs Hp. rewrite (blocks_same _ _ _ Hs), Hl. unfold blocks in *.
  eapply Permutation_trans; [apply perm_skip; exact Ho|]. cbn [app].
  eapply Permutation_trans; [apply perm_swap|]. apply perm_skip.
  change (nblk (l_mem s) id :: map (nblk (l_mem s)) (ids l) ++ F) with (map (nblk (l_mem s)) (id :: ids l) ++ F).
  apply Permutation_app_tail, Permutation_map, Permutation_sym, Hp.
Qed.

Lemma owns_release a s s' l l' F id :
  lok a -> owns a s l F -> same_hdr s s' -> Permutation (ids l) (id :: ids l') ->
  exists a', release (l_mem s) id a = Ok a' /\ lok a' /\ owns a' s' l' F /\ aframe a a' /\ plan a' = plan a.
Proof.
  unfold owns. intros Hk Ho Hs Hp.
  assert (HP : Permutation (live a) (nblk (l_mem s) id :: (blocks s l' ++ F))).
  { eapply Permutation_trans; [exact Ho|]. unfold blocks. cbn [app].
    eapply Permutation_trans; [|apply perm_swap]. apply perm_skip.
    change (nblk (l_mem s) id :: map (nblk (l_mem s)) (ids l') ++ F) with (map (nblk (l_mem s)) (id :: ids l') ++ F).
    apply Permutation_app_tail, Permutation_map, Hp. }
  destruct (release_perm _ _ _ _ _ HP Hk) as (a' & Hr & Hl & Hk' & Hf & _ & Hpl).
  exists a'. rewrite (blocks_same _ _ _ Hs). auto.
Qed.

(** Facts about a fresh id. *)
Lemma fresh_facts a s l F id :
  lown a s l F -> ~ In id (map b_id (live a)) -> ~ In id (ids l) /\ id <> l_hdr s.
Proof. intros [_ Ho]. apply (owns_fresh a s l F id Ho). Qed.

Lemma lrep_dom_fresh s l id : lrep s l -> ~ In id (ids l) -> hget (l_heap s) id = None.
Proof.
  intros R Hni. destruct (hget (l_heap s) id) eqn:E; [|reflexivity].
  exfalso. apply Hni, (rep_dom _ _ R). congruence.
Qed.

Lemma lrep_nil_size s l : lrep s l -> (l_size s =? 0) = true -> l = [].
Proof.
  intros R H. pose proof (rep_size _ _ R) as Hs. destruct l; [reflexivity|]. rewrite lenN_cons in Hs. lia.
Qed.
Lemma lrep_size_pos s l : lrep s l -> (l_size s =? 0) = false -> l <> [].
Proof. intros R H ->. pose proof (rep_size _ _ R) as Hs. cbn in Hs. lia. Qed.

(** Unconditional forms of the boundary writes. *)
Lemma set_next_last h p l n v :
  l <> [] -> NoDup (ids l) -> ~ In 0 (ids l) -> dseg h p l n ->
  exists h', set_next h (last_id l 0) v = Ok h' /\ dseg h' p l v /\
             (forall j, j <> last_id l 0 -> hget h' j = hget h j) /\ (forall j, hget h' j <> None <-> hget h j <> None).
Proof.
  intros Hne Hnd Hnz Hs. destruct (cond_set_next_last h p l n v Hnd Hnz Hs) as (h' & E & H1 & H2 & _ & H4).
  assert (Hl : last_id l 0 <> 0) by (rewrite last_id_nil_iff; assumption).
  replace (last_id l 0 =? 0) with false in E by lia. cbn [negb] in E. eauto.
Qed.
Lemma set_prev_first h p l n v :
  l <> [] -> NoDup (ids l) -> ~ In 0 (ids l) -> dseg h p l n ->
  exists h', set_prev h (first_id l 0) v = Ok h' /\ dseg h' v l n /\
             (forall j, j <> first_id l 0 -> hget h' j = hget h j) /\ (forall j, hget h' j <> None <-> hget h j <> None).
Proof.
  intros Hne Hnd Hnz Hs. destruct (cond_set_prev_first h p l n v Hnd Hnz Hs) as (h' & E & H1 & H2 & _ & H4).
  assert (Hl : first_id l 0 <> 0) by (rewrite first_id_nil_iff; assumption).
  replace (first_id l 0 =? 0) with false in E by lia. cbn [negb] in E. eauto.
Qed.

(* ------------------------------------------------------------------------------------------ add_last / add_first *)
Lemma add_last_spec s l a F x :
  lrep s l -> lown a s l F ->
  match alloc (l_mem s) NODE_BYTES a with
  | (Some id, a1) => exists s', cl_add_last s x a = Ok (CC_OK, s', a1) /\ lrep s' (l ++ [(id, x)]) /\
                                lown a1 s' (l ++ [(id, x)]) F /\ same_hdr s s' /\ aframe a a1
  | (None, a1) => cl_add_last s x a = Ok (CC_ERR_ALLOC, s, a1) /\ lown a1 s l F /\ live a1 = live a /\ aframe a a1 /\
                  (plan a <> [] \/ limit a < NODE_BYTES)
  end.
Proof.
  intros R [Hk Ho]. unfold cl_add_last.
  destruct (alloc (l_mem s) NODE_BYTES a) as [[id|] a1] eqn:E.
  2:{ destruct (alloc_none _ _ _ _ E Hk) as (Hl & Hk1 & Hf & Hw). split; [reflexivity|].
      split; [split; [assumption|unfold owns; rewrite Hl; exact Ho]|auto]. }
  destruct (alloc_some _ _ _ _ _ E Hk) as (_ & Hl & Hk1 & Hf & Hid0 & Hfr).
  destruct (fresh_facts _ _ _ _ _ (conj Hk Ho) Hfr) as [Hni Hnh].
  pose proof (lrep_dom_fresh _ _ _ R Hni) as Hnone.
  assert (Hown : lown a1 (upd s (l_size s + 1) (l_head s) id (l_heap s)) (l ++ [(id, x)]) F).
  { split; [assumption|]. eapply owns_insert; eauto. rewrite ids_app. cbn [ids map fst].
    apply Permutation_sym, Permutation_cons_append. }
  destruct (l_size s =? 0) eqn:Esz.
  - (* empty list *)
    pose proof (lrep_nil_size _ _ R Esz) as ->. cbn [app] in *.
    eexists; split; [reflexivity|]. split; [|split; [|auto]].
    + constructor; cbn [upd l_heap l_head l_tail l_size l_hdr ids map fst first_id last_id dseg].
      * constructor; [intros []|constructor].
      * intros [H|[]]. congruence.
      * split; [|exact I]. rewrite hget_hset_same. reflexivity.
      * reflexivity.
      * reflexivity.
      * rewrite (rep_size _ _ R). reflexivity.
      * intros y Hy. rewrite hget_hset in Hy. destruct (id =? y) eqn:Ey; [left; lia|].
        exfalso. apply (rep_dom _ _ R) in Hy. destruct Hy.
      * apply (rep_hdr _ _ R).
    + destruct Hown as [Hk' Ho']. split; [assumption|]. eapply owns_perm; [exact Ho'|split; reflexivity|reflexivity].
  - (* non-empty: link after the tail *)
    pose proof (lrep_size_pos _ _ R Esz) as Hne.
    set (h0 := hset (l_heap s) id (fresh_node x)).
    assert (Ht : l_tail s = last_id l 0) by apply R.
    assert (Htin : In (last_id l 0) (ids l)) by (apply last_id_in; assumption).
    assert (Htid : last_id l 0 <> id) by (intros E2; apply Hni; rewrite <- E2; exact Htin).
    rewrite (set_prev_ok h0 id (fresh_node x)) by (try assumption; apply hget_hset_same).
    cbn [bind fresh_node n_data n_prev n_next].
    set (h1 := hset h0 id _).
    assert (Hs1 : dseg h1 0 l 0).
    { eapply dseg_ext; [|exact (rep_seg _ _ R)]. intros y Hy. unfold h1, h0.
      rewrite !hget_hset_other; [reflexivity| |]; intros ->; contradiction. }
    rewrite Ht.
    destruct (set_next_last h1 0 l 0 id Hne (rep_nodup _ _ R) (rep_nz _ _ R) Hs1) as (h2 & E2 & Hs2 & Hfr2 & Hdom2).
    rewrite E2. cbn [bind].
    eexists; split; [reflexivity|]. split; [|split; [|auto]].
    + constructor; cbn [upd l_heap l_head l_tail l_size l_hdr].
      * rewrite ids_app. apply nodup_app. split; [apply R|]. split; [constructor; [intros []|constructor]|].
        intros y Hy [<-|[]]. contradiction.
      * rewrite ids_app. intros H0. apply in_app_or in H0. destruct H0 as [H0|[H0|[]]]; [exact (rep_nz _ _ R H0)|]. cbn in H0. congruence.
      * apply dseg_app. cbn [first_id dseg]. split; [exact Hs2|]. split; [|exact I].
        rewrite Hfr2 by congruence. unfold h1. rewrite hget_hset_same, Ht. reflexivity.
      * rewrite first_id_app, (rep_head _ _ R). apply first_id_d_irrel. assumption.
      * rewrite last_id_snoc. reflexivity.
      * rewrite lenN_app, (rep_size _ _ R). reflexivity.
      * intros y Hy. rewrite ids_app. apply in_or_app. apply Hdom2 in Hy. unfold h1, h0 in Hy.
        destruct (N.eq_dec id y) as [<-|Hne2]; [right; left; reflexivity|].
        rewrite !hget_hset_other in Hy by assumption. left. apply (rep_dom _ _ R). exact Hy.
      * apply (rep_hdr _ _ R).
    + destruct Hown as [Hk' Ho']. split; [assumption|]. eapply owns_perm; [exact Ho'|split; reflexivity|reflexivity].
Qed.

Lemma add_first_spec s l a F x :
  lrep s l -> lown a s l F ->
  match alloc (l_mem s) NODE_BYTES a with
  | (Some id, a1) => exists s', cl_add_first s x a = Ok (CC_OK, s', a1) /\ lrep s' ((id, x) :: l) /\
                                lown a1 s' ((id, x) :: l) F /\ same_hdr s s' /\ aframe a a1
  | (None, a1) => cl_add_first s x a = Ok (CC_ERR_ALLOC, s, a1) /\ lown a1 s l F /\ live a1 = live a /\ aframe a a1 /\
                  (plan a <> [] \/ limit a < NODE_BYTES)
  end.
Proof.
  intros R [Hk Ho]. unfold cl_add_first.
  destruct (alloc (l_mem s) NODE_BYTES a) as [[id|] a1] eqn:E.
  2:{ destruct (alloc_none _ _ _ _ E Hk) as (Hl & Hk1 & Hf & Hw). split; [reflexivity|].
      split; [split; [assumption|unfold owns; rewrite Hl; exact Ho]|auto]. }
  destruct (alloc_some _ _ _ _ _ E Hk) as (_ & Hl & Hk1 & Hf & Hid0 & Hfr).
  destruct (fresh_facts _ _ _ _ _ (conj Hk Ho) Hfr) as [Hni Hnh].
  pose proof (lrep_dom_fresh _ _ _ R Hni) as Hnone.
  assert (Hown : forall s', same_hdr s s' -> lown a1 s' ((id, x) :: l) F).
  { intros s' Hs'. split; [assumption|]. eapply owns_insert; eauto. }
  destruct (l_size s =? 0) eqn:Esz.
  - pose proof (lrep_nil_size _ _ R Esz) as ->.
    eexists; split; [reflexivity|]. split; [|split; [|auto]]; [|apply Hown; auto].
    constructor; cbn [upd l_heap l_head l_tail l_size l_hdr ids map fst first_id last_id dseg].
    + constructor; [intros []|constructor].
    + intros [H|[]]. congruence.
    + split; [|exact I]. rewrite hget_hset_same. reflexivity.
    + reflexivity.
    + reflexivity.
    + rewrite (rep_size _ _ R). reflexivity.
    + intros y Hy. rewrite hget_hset in Hy. destruct (id =? y) eqn:Ey; [left; lia|].
      exfalso. apply (rep_dom _ _ R) in Hy. destruct Hy.
    + apply (rep_hdr _ _ R).
  - pose proof (lrep_size_pos _ _ R Esz) as Hne.
    set (h0 := hset (l_heap s) id (fresh_node x)).
    assert (Hh : l_head s = first_id l 0) by apply R.
    assert (Hhin : In (first_id l 0) (ids l)) by (apply first_id_in; assumption).
    assert (Hhid : first_id l 0 <> id) by (intros E2; apply Hni; rewrite <- E2; exact Hhin).
    rewrite (set_next_ok h0 id (fresh_node x)) by (try assumption; apply hget_hset_same).
    cbn [bind fresh_node n_data n_prev n_next].
    set (h1 := hset h0 id _).
    assert (Hs1 : dseg h1 0 l 0).
    { eapply dseg_ext; [|exact (rep_seg _ _ R)]. intros y Hy. unfold h1, h0.
      rewrite !hget_hset_other; [reflexivity| |]; intros ->; contradiction. }
    rewrite Hh.
    destruct (set_prev_first h1 0 l 0 id Hne (rep_nodup _ _ R) (rep_nz _ _ R) Hs1) as (h2 & E2 & Hs2 & Hfr2 & Hdom2).
    rewrite E2. cbn [bind].
    eexists; split; [reflexivity|]. split; [|split; [|auto]]; [|apply Hown; auto].
    constructor; cbn [upd l_heap l_head l_tail l_size l_hdr ids map fst first_id last_id dseg].
    + constructor; [exact Hni|apply R].
    + intros [H0|H0]; [congruence|exact (rep_nz _ _ R H0)].
    + split; [|exact Hs2]. rewrite Hfr2 by congruence. unfold h1. rewrite hget_hset_same, Hh. reflexivity.
    + reflexivity.
    + rewrite (rep_tail _ _ R). apply last_id_d_irrel. assumption.
    + rewrite lenN_cons, (rep_size _ _ R). reflexivity.
    + intros y Hy. apply Hdom2 in Hy. unfold h1, h0 in Hy.
      destruct (N.eq_dec id y) as [<-|Hne2]; [left; reflexivity|].
      rewrite !hget_hset_other in Hy by assumption. right. apply (rep_dom _ _ R). exact Hy.
    + apply (rep_hdr _ _ R).
Qed.

(* ------------------------------------------------------------------------------------------ get_node_at *)
(** What get_node_at needs (the heap may hold other nodes as well). *)
Record lshape (s : clist) (l : list (N * N)) : Prop := {
  sh_nz : ~ In 0 (ids l);
  sh_seg : dseg (l_heap s) 0 l 0;
  sh_head : l_head s = first_id l 0;
  sh_tail : l_tail s = last_id l 0;
  sh_size : l_size s = lenN l;
  sh_hdr : l_hdr s <> 0;
}.
Lemma lrep_shape s l : lrep s l -> lshape s l.
Proof. intros R. constructor; apply R. Qed.

Lemma get_node_at_shape s l1 x d l2 :
  lshape s (l1 ++ (x, d) :: l2) -> get_node_at s (lenN l1) = Ok (CC_OK, x).
Proof.
  intros R. unfold get_node_at, g_list_get_node_at_range, g_list_get_node_at_front.
  pose proof (sh_size _ _ R) as Hsz. rewrite lenN_app, lenN_cons in Hsz.
  pose proof (sh_hdr _ _ R) as Hh.
  replace (l_hdr s =? 0) with false by lia. cbn [negb orb].
  replace (l_size s <=? lenN l1) with false by lia.
  pose proof (sh_nz _ _ R) as Hnz. rewrite ids_app in Hnz.
  destruct (lenN l1 <? l_size s / 2) eqn:Ed.
  - rewrite lenN_length, (sh_head _ _ R).
    rewrite (walk_next_seg _ 0 l1 ((x, d) :: l2) 0); [reflexivity| |exact (sh_seg _ _ R)].
    intros H0; apply Hnz, in_or_app; left; exact H0.
  - replace (N.to_nat (l_size s - 1 - lenN l1)) with (length l2) by (rewrite Hsz; unfold lenN; lia).
    rewrite (sh_tail _ _ R).
    change (l1 ++ (x, d) :: l2) with (l1 ++ [(x, d)] ++ l2). rewrite app_assoc.
    rewrite (walk_prev_seg _ 0 (l1 ++ [(x, d)]) l2 0).
    + rewrite last_id_snoc. reflexivity.
    + intros H0; apply Hnz, in_or_app; right; right; exact H0.
    + rewrite <- app_assoc. exact (sh_seg _ _ R).
Qed.
Lemma get_node_at_in s l1 x d l2 :
  lrep s (l1 ++ (x, d) :: l2) -> get_node_at s (lenN l1) = Ok (CC_OK, x).
Proof. intros R. apply get_node_at_shape with (d := d) (l2 := l2). apply lrep_shape, R. Qed.
Lemma get_node_at_out_shape s l i : lshape s l -> lenN l <= i -> get_node_at s i = Ok (CC_ERR_OUT_OF_RANGE, 0).
Proof.
  intros R Hi. unfold get_node_at, g_list_get_node_at_range. rewrite (sh_size _ _ R).
  replace (lenN l <=? i) with true by lia. rewrite orb_true_r. reflexivity.
Qed.
Lemma get_node_at_out s l i : lrep s l -> lenN l <= i -> get_node_at s i = Ok (CC_ERR_OUT_OF_RANGE, 0).
Proof.
  intros R Hi. unfold get_node_at, g_list_get_node_at_range. rewrite (rep_size _ _ R).
  replace (lenN l <=? i) with true by lia. rewrite orb_true_r. reflexivity.
Qed.

(* ------------------------------------------------------------------------------------------ link_behind, add_at *)
Lemma in_ids_app_mid y l1 (x d : N) l2 : In y (ids (l1 ++ (x, d) :: l2)) <-> y = x \/ In y (ids (l1 ++ l2)).
Proof. rewrite !ids_app, !in_app_iff. cbn [ids map fst In]. intuition. Qed.

Lemma link_behind_fresh h l1 b db l2 n id x :
  NoDup (ids (l1 ++ (b, db) :: l2)) -> ~ In 0 (ids (l1 ++ (b, db) :: l2)) -> dseg h 0 (l1 ++ (b, db) :: l2) n ->
  id <> 0 -> ~ In id (ids (l1 ++ (b, db) :: l2)) -> hget h id = Some (fresh_node x) ->
  exists h', link_behind h b id = Ok h' /\ dseg h' 0 (l1 ++ (id, x) :: (b, db) :: l2) n /\
             (forall j, hget h' j <> None <-> hget h j <> None).
Proof.
  intros Hnd Hnz Hs Hid0 Hni Hid.
  destruct (nodup_mid _ _ _ _ Hnd) as (Hnd1 & Hnd2 & Hb1 & Hb2 & Hdis & _).
  assert (Hb0 : b <> 0) by (intros ->; apply Hnz; rewrite ids_app; apply in_or_app; right; left; reflexivity).
  assert (Hbid : b <> id) by (intros ->; apply Hni; rewrite ids_app; apply in_or_app; right; left; reflexivity).
  assert (Hnz1 : ~ In 0 (ids l1)) by (intros H0; apply Hnz; rewrite ids_app; apply in_or_app; left; exact H0).
  assert (Hni1 : ~ In id (ids l1)) by (intros H0; apply Hni; rewrite ids_app; apply in_or_app; left; exact H0).
  assert (Hni2 : ~ In id (ids l2)) by (intros H0; apply Hni; rewrite ids_app; apply in_or_app; right; right; exact H0).
  pose proof (dseg_mid _ _ _ _ _ _ _ Hs) as Hb.
  apply dseg_app in Hs. cbn [dseg first_id] in Hs. destruct Hs as (Hs1 & _ & Hs2).
  unfold link_behind. rewrite (load_ok _ _ _ Hid0 Hid). cbn [bind fresh_node n_next n_prev N.eqb negb].
  rewrite (load_ok _ _ _ Hid0 Hid). cbn [bind fresh_node n_next n_prev N.eqb negb].
  rewrite (load_ok _ _ _ Hb0 Hb). cbn [bind n_prev].
  destruct (last_id l1 0 =? 0) eqn:Ep.
  - (* base is the head *)
    assert (l1 = []) by (apply last_id_nil_iff; [assumption|lia]). subst l1. cbn [app last_id] in *.
    rewrite (set_prev_ok h id (fresh_node x)) by assumption. cbn [bind fresh_node n_data n_next].
    rewrite (set_next_ok _ id _ b Hid0 (hget_hset_same _ _ _)). cbn [bind n_data n_prev].
    rewrite (set_prev_ok _ b _ id Hb0) by (rewrite !hget_hset_other by congruence; exact Hb). cbn [bind n_data n_next].
    eexists; split; [reflexivity|]. split.
    + cbn [dseg first_id]. split; [|split].
      * rewrite hget_hset_other by congruence. rewrite hget_hset_same. reflexivity.
      * rewrite hget_hset_same. reflexivity.
      * eapply dseg_ext; [|exact Hs2]. intros y Hy.
        rewrite !hget_hset_other; [reflexivity| | |]; intros ->; contradiction.
    + intros j. rewrite !hget_hset.
      destruct (b =? j) eqn:E1; [assert (b = j) by lia; subst j; rewrite Hb; split; discriminate|].
      destruct (id =? j) eqn:E2; [assert (id = j) by lia; subst j; rewrite Hid; split; discriminate|]. tauto.
  - (* base has a predecessor *)
    assert (Hp0 : last_id l1 0 <> 0) by lia.
    assert (Hne1 : l1 <> []) by (intros ->; cbn in Hp0; congruence).
    assert (Hpin : In (last_id l1 0) (ids l1)) by (apply last_id_in; assumption).
    assert (Hpid : last_id l1 0 <> id) by (intros E; apply Hni1; rewrite <- E; exact Hpin).
    assert (Hpb : last_id l1 0 <> b) by (intros E; apply Hb1; rewrite <- E; exact Hpin).
    rewrite (set_prev_ok h id (fresh_node x)) by assumption. cbn [bind fresh_node n_data n_next].
    set (h3 := hset h id _).
    rewrite (load_ok h3 id _ Hid0 (hget_hset_same _ _ _)). cbn [bind n_prev].
    assert (Hs3 : dseg h3 0 l1 b).
    { eapply dseg_ext; [|exact Hs1]. intros y Hy. unfold h3. apply hget_hset_other. intros ->; contradiction. }
    destruct (set_next_last h3 0 l1 b id Hne1 Hnd1 Hnz1 Hs3) as (h4 & E4 & Hs4 & Hfr4 & Hdom4).
    rewrite E4. cbn [bind].
    assert (H4id : hget h4 id = Some {| n_data := x; n_prev := last_id l1 0; n_next := 0 |}).
    { rewrite Hfr4 by congruence. unfold h3. apply hget_hset_same. }
    rewrite (set_next_ok h4 id _ b Hid0 H4id). cbn [bind n_data n_prev].
    assert (H5b : hget (hset h4 id {| n_data := x; n_prev := last_id l1 0; n_next := b |}) b =
                  Some {| n_data := db; n_prev := last_id l1 0; n_next := first_id l2 n |}).
    { rewrite hget_hset_other by congruence. rewrite Hfr4 by congruence. unfold h3. rewrite hget_hset_other by congruence. exact Hb. }
    rewrite (set_prev_ok _ b _ id Hb0 H5b). cbn [bind n_data n_next].
    eexists; split; [reflexivity|]. split.
    + apply dseg_app. cbn [dseg first_id]. split; [|split; [|split]].
      * eapply dseg_ext; [|exact Hs4]. intros y Hy.
        rewrite !hget_hset_other; [reflexivity| |]; intros ->; contradiction.
      * rewrite hget_hset_other by congruence. rewrite hget_hset_same. reflexivity.
      * rewrite hget_hset_same. reflexivity.
      * eapply dseg_ext; [|exact Hs2]. intros y Hy.
        rewrite !hget_hset_other; [| |]; try (intros ->; contradiction).
        rewrite Hfr4 by (intros ->; exact (Hdis _ Hpin Hy)).
        unfold h3. apply hget_hset_other. intros ->; contradiction.
    + intros j. rewrite !hget_hset.
      destruct (b =? j) eqn:E1; [assert (b = j) by lia; subst j; rewrite Hb; split; discriminate|].
      destruct (id =? j) eqn:E2; [assert (id = j) by lia; subst j; rewrite Hid; split; discriminate|].
      rewrite Hdom4. unfold h3. rewrite hget_hset, E2. tauto.
Qed.

Lemma add_at_spec s l1 b db l2 a F x :
  lrep s (l1 ++ (b, db) :: l2) -> lown a s (l1 ++ (b, db) :: l2) F ->
  match alloc (l_mem s) NODE_BYTES a with
  | (Some id, a1) => exists s', cl_add_at s x (lenN l1) a = Ok (CC_OK, s', a1) /\ lrep s' (l1 ++ (id, x) :: (b, db) :: l2) /\
                                lown a1 s' (l1 ++ (id, x) :: (b, db) :: l2) F /\ same_hdr s s' /\ aframe a a1
  | (None, a1) => cl_add_at s x (lenN l1) a = Ok (CC_ERR_ALLOC, s, a1) /\ lown a1 s (l1 ++ (b, db) :: l2) F /\ live a1 = live a /\
                  aframe a a1 /\ (plan a <> [] \/ limit a < NODE_BYTES)
  end.
Proof.
  intros R [Hk Ho]. unfold cl_add_at. rewrite (get_node_at_in _ _ _ _ _ R). cbn [bind is_ok negb].
  destruct (alloc (l_mem s) NODE_BYTES a) as [[id|] a1] eqn:E.
  2:{ destruct (alloc_none _ _ _ _ E Hk) as (Hl & Hk1 & Hf & Hw). split; [reflexivity|].
      split; [split; [assumption|unfold owns; rewrite Hl; exact Ho]|auto]. }
  destruct (alloc_some _ _ _ _ _ E Hk) as (_ & Hl & Hk1 & Hf & Hid0 & Hfr).
  destruct (fresh_facts _ _ _ _ _ (conj Hk Ho) Hfr) as [Hni Hnh].
  pose proof (lrep_dom_fresh _ _ _ R Hni) as Hnone.
  set (h0 := hset (l_heap s) id (fresh_node x)).
  assert (Hs0 : dseg h0 0 (l1 ++ (b, db) :: l2) 0).
  { eapply dseg_ext; [|exact (rep_seg _ _ R)]. intros y Hy. unfold h0. apply hget_hset_other. intros ->; contradiction. }
  destruct (link_behind_fresh h0 l1 b db l2 0 id x (rep_nodup _ _ R) (rep_nz _ _ R) Hs0 Hid0 Hni (hget_hset_same _ _ _))
    as (h1 & E1 & Hs1 & Hdom1).
  rewrite E1. cbn [bind].
  eexists; split; [reflexivity|].
  assert (Hperm : Permutation (ids (l1 ++ (id, x) :: (b, db) :: l2)) (id :: ids (l1 ++ (b, db) :: l2))).
  { rewrite !ids_app. cbn [ids map fst]. apply Permutation_sym, Permutation_middle. }
  split; [|split; [|auto]].
  - constructor; cbn [upd l_heap l_head l_tail l_size l_hdr].
    + eapply Permutation_NoDup; [apply Permutation_sym, Hperm|]. constructor; [exact Hni|apply R].
    + intros H0. apply in_ids_app_mid in H0. destruct H0 as [H0|H0]; [congruence|].
      apply (rep_nz _ _ R). rewrite ids_app in *. exact H0.
    + exact Hs1.
    + rewrite first_id_app. cbn [first_id]. destruct l1 as [|[y dy] t].
      * cbn [lenN length N.of_nat N.eqb]. reflexivity.
      * replace (lenN ((y, dy) :: t) =? 0) with false by (rewrite lenN_cons; lia).
        rewrite (rep_head _ _ R). reflexivity.
    + rewrite (rep_tail _ _ R), !last_id_app. reflexivity.
    + rewrite (rep_size _ _ R), !lenN_app, !lenN_cons. lia.
    + intros y Hy. apply Hdom1 in Hy. unfold h0 in Hy. apply in_ids_app_mid.
      destruct (N.eq_dec id y) as [<-|Hne2]; [left; reflexivity|]. right.
      rewrite hget_hset_other in Hy by assumption. apply (rep_dom _ _ R) in Hy. rewrite ids_app in *. exact Hy.
    + apply (rep_hdr _ _ R).
  - split; [assumption|]. eapply owns_insert; eauto.
Qed.

(* ------------------------------------------------------------------------------------------ unlinkn *)
Lemma unlinkn_spec s l1 x d l2 a F :
  lrep s (l1 ++ (x, d) :: l2) -> lown a s (l1 ++ (x, d) :: l2) F ->
  exists s' a', unlinkn s x a = Ok (d, s', a') /\ lrep s' (l1 ++ l2) /\ lown a' s' (l1 ++ l2) F /\
                same_hdr s s' /\ aframe a a' /\ plan a' = plan a.
Proof.
  intros R [Hk Ho].
  destruct (nodup_mid _ _ _ _ (rep_nodup _ _ R)) as (Hnd1 & Hnd2 & Hx1 & Hx2 & Hdis & Hnd12).
  pose proof (rep_nz _ _ R) as Hnz.
  assert (Hx0 : x <> 0) by (intros ->; apply Hnz; rewrite ids_app; apply in_or_app; right; left; reflexivity).
  assert (Hnz1 : ~ In 0 (ids l1)) by (intros H0; apply Hnz; rewrite ids_app; apply in_or_app; left; exact H0).
  assert (Hnz2 : ~ In 0 (ids l2)) by (intros H0; apply Hnz; rewrite ids_app; apply in_or_app; right; right; exact H0).
  pose proof (dseg_mid _ _ _ _ _ _ _ (rep_seg _ _ R)) as Hx.
  pose proof (rep_seg _ _ R) as Hs. apply dseg_app in Hs. cbn [dseg first_id] in Hs. destruct Hs as (Hs1 & _ & Hs2).
  assert (Hxp : x <> last_id l1 0).
  { destruct l1 as [|p1 t1]; [cbn; congruence|]. intros E. apply Hx1. rewrite E. apply last_id_in. discriminate. }
  assert (Hxn : x <> first_id l2 0).
  { destruct l2 as [|p2 t2]; [cbn; congruence|]. intros E. apply Hx2. rewrite E. apply first_id_in. discriminate. }
  unfold unlinkn. rewrite (load_ok _ _ _ Hx0 Hx). cbn [bind n_prev n_next n_data].
  destruct (cond_set_next_last (l_heap s) 0 l1 x (first_id l2 0) Hnd1 Hnz1 Hs1) as (h1 & E1 & Hs1' & Hfr1 & _ & Hdom1).
  rewrite E1. cbn [bind].
  assert (Hx' : hget h1 x = Some {| n_data := d; n_prev := last_id l1 0; n_next := first_id l2 0 |}).
  { rewrite Hfr1 by exact Hxp. exact Hx. }
  rewrite (load_ok _ _ _ Hx0 Hx'). cbn [bind n_prev n_next n_data].
  assert (Hs2' : dseg h1 x l2 0).
  { eapply dseg_ext; [|exact Hs2]. intros y Hy. apply Hfr1. intros ->.
    destruct l1 as [|p1 t1]; [cbn in Hy; exact (Hnz2 Hy)|].
    eapply Hdis; [|exact Hy]. apply last_id_in. discriminate. }
  destruct (cond_set_prev_first h1 x l2 0 (last_id l1 0) Hnd2 Hnz2 Hs2') as (h2 & E2 & Hs2'' & Hfr2 & _ & Hdom2).
  rewrite E2. cbn [bind].
  assert (Hperm : Permutation (ids (l1 ++ (x, d) :: l2)) (x :: ids (l1 ++ l2))).
  { rewrite !ids_app. cbn [ids map fst]. apply Permutation_sym, Permutation_middle. }
  set (s' := upd s (l_size s - 1) (if last_id l1 0 =? 0 then first_id l2 0 else l_head s)
                 (if first_id l2 0 =? 0 then last_id l1 0 else l_tail s) (hdel h2 x)).
  destruct (owns_release a s s' _ (l1 ++ l2) F x Hk Ho (same_hdr_upd _ _ _ _ _) Hperm) as (a' & Hr & Hk' & Ho' & Hf & Hpl).
  rewrite Hr. cbn [bind].
  exists s', a'. split; [reflexivity|]. split; [|split; [split; assumption|unfold s'; auto]].
  constructor; unfold s'; cbn [upd l_heap l_head l_tail l_size l_hdr].
  - exact Hnd12.
  - rewrite ids_app. intros H0. apply in_app_or in H0. tauto.
  - apply dseg_app. split.
    + eapply dseg_ext; [|exact Hs1']. intros y Hy. rewrite hget_hdel_other by (intros ->; contradiction).
      apply Hfr2. intros ->. destruct l2 as [|p2 t2]; [cbn in Hy; exact (Hnz1 Hy)|].
      eapply Hdis; [exact Hy|]. apply first_id_in. discriminate.
    + eapply dseg_ext; [|exact Hs2'']. intros y Hy. apply hget_hdel_other. intros ->; contradiction.
  - rewrite first_id_app. destruct l1 as [|[p1 d1] t1]; [reflexivity|].
    cbn [first_id]. replace (last_id ((p1, d1) :: t1) 0 =? 0) with false.
    + rewrite (rep_head _ _ R). reflexivity.
    + symmetry. apply N.eqb_neq. rewrite last_id_nil_iff by assumption. discriminate.
  - rewrite last_id_app. destruct l2 as [|[p2 d2] t2]; [reflexivity|].
    cbn [first_id]. replace (p2 =? 0) with false by (symmetry; apply N.eqb_neq; intros ->; apply Hnz2; left; reflexivity).
    rewrite (rep_tail _ _ R), last_id_app. reflexivity.
  - rewrite (rep_size _ _ R), !lenN_app, lenN_cons. lia.
  - intros y Hy. rewrite hget_hdel in Hy. destruct (x =? y) eqn:Exy; [congruence|].
    apply Hdom2, Hdom1, (rep_dom _ _ R), in_ids_app_mid in Hy. destruct Hy as [->|Hy]; [lia|exact Hy].
  - apply (rep_hdr _ _ R).
Qed.

(* ------------------------------------------------------------------------------------------ read-only walks *)
Lemma nz_tail (x d : N) t : ~ In 0 (ids ((x, d) :: t)) -> x <> 0 /\ ~ In 0 (ids t).
Proof. cbn [ids map fst In]. intros H. split; [intros ->; apply H; left; reflexivity|intros H0; apply H; right; exact H0]. Qed.

Lemma walk_data_seg fuel h p l : dseg h p l 0 -> ~ In 0 (ids l) -> (length l < fuel)%nat ->
  walk_data fuel h (first_id l 0) = Ok (map snd l).
Proof.
  revert p fuel; induction l as [|[x d] t IH]; intros p fuel Hs Hnz Hf.
  - destruct fuel; reflexivity.
  - destruct fuel as [|f]; [cbn in Hf; lia|]. cbn [walk_data first_id]. destruct (nz_tail _ _ _ Hnz) as [Hx0 Hnz'].
    replace (x =? 0) with false by lia. destruct Hs as [Hx Ht]. rewrite (load_ok _ _ _ Hx0 Hx). cbn [bind n_next n_data].
    rewrite (IH x f Ht Hnz') by (cbn in Hf; lia). reflexivity.
Qed.

Lemma read_n_seg h p l1 l2 n : dseg h p (l1 ++ l2) n -> ~ In 0 (ids l1) ->
  read_n (length l1) h (first_id (l1 ++ l2) n) = Ok (map snd l1).
Proof.
  revert p; induction l1 as [|[x d] t IH]; intros p Hs Hnz; [reflexivity|].
  cbn [length read_n app first_id]. destruct (nz_tail _ _ _ Hnz) as [Hx0 Hnz'].
  destruct Hs as [Hx Ht]. rewrite (load_ok _ _ _ Hx0 Hx). cbn [bind n_next n_data].
  rewrite (IH x Ht Hnz'). reflexivity.
Qed.

Fixpoint find_id (x : N) (l : list (N * N)) : N :=
  match l with [] => 0 | (y, d) :: t => if d =? x then y else find_id x t end.

Lemma get_node_loop_seg fuel h p l x : dseg h p l 0 -> ~ In 0 (ids l) -> (length l < fuel)%nat ->
  get_node_loop fuel h (first_id l 0) x = Ok (find_id x l).
Proof.
  revert p fuel; induction l as [|[y d] t IH]; intros p fuel Hs Hnz Hf.
  - destruct fuel; reflexivity.
  - destruct fuel as [|f]; [cbn in Hf; lia|]. cbn [get_node_loop first_id find_id]. destruct (nz_tail _ _ _ Hnz) as [Hy0 Hnz'].
    replace (y =? 0) with false by lia. destruct Hs as [Hy Ht]. rewrite (load_ok _ _ _ Hy0 Hy). cbn [bind n_next n_data].
    destruct (d =? x); [reflexivity|]. apply (IH y f Ht Hnz'). cbn in Hf; lia.
Qed.

Lemma find_id_split x l : ~ In 0 (ids l) ->
  match remove_first_eq x (map snd l) with
  | None => find_id x l = 0
  | Some r => find_id x l <> 0 /\ exists l1 l2, l = l1 ++ (find_id x l, x) :: l2 /\ r = map snd (l1 ++ l2)
  end.
Proof.
  induction l as [|[y d] t IH]; intros Hnz; cbn [map snd remove_first_eq find_id]; [reflexivity|].
  destruct (nz_tail _ _ _ Hnz) as [Hy0 Hnz'].
  destruct (d =? x) eqn:E.
  - assert (d = x) by lia; subst d. split; [assumption|]. exists [], t. split; reflexivity.
  - specialize (IH Hnz'). destruct (remove_first_eq x (map snd t)) as [r|]; [|exact IH].
    destruct IH as (Hn0 & l1 & l2 & E1 & E2). split; [assumption|].
    exists ((y, d) :: l1), l2. cbn [app map snd]. rewrite <- E1, E2. split; reflexivity.
Qed.

Lemma index_of_loop_seg cmp fuel h p l x i : dseg h p l 0 -> ~ In 0 (ids l) -> (length l < fuel)%nat ->
  index_of_loop fuel cmp h (first_id l 0) x i =
  Ok (match find_index (fun y => is_eq (cmp y x)) (map snd l) i with Some k => (CC_OK, k) | None => (CC_ERR_OUT_OF_RANGE, 0) end).
Proof.
  revert p fuel i; induction l as [|[y d] t IH]; intros p fuel i Hs Hnz Hf.
  - destruct fuel; reflexivity.
  - destruct fuel as [|f]; [cbn in Hf; lia|]. cbn [index_of_loop first_id find_index map snd]. destruct (nz_tail _ _ _ Hnz) as [Hy0 Hnz'].
    replace (y =? 0) with false by lia. destruct Hs as [Hy Ht]. rewrite (load_ok _ _ _ Hy0 Hy). cbn [bind n_next n_data].
    destruct (is_eq (cmp d x)); [reflexivity|]. apply (IH y f (i + 1) Ht Hnz'). cbn in Hf; lia.
Qed.

Lemma fuel_of_gt s l : lrep s l -> (length l < fuel_of s)%nat.
Proof. intros R. unfold fuel_of. rewrite (rep_size _ _ R), lenN_length. lia. Qed.

(* ------------------------------------------------------------------------------------------ loops of unlinkn *)
Lemma unlink_all_loop_spec cb l : forall fuel s a F log,
  lrep s l -> lown a s l F -> (length l < fuel)%nat ->
  exists s' a', unlink_all_loop fuel cb s (l_head s) a log = Ok (s', a', log ++ (if cb then map snd l else [])) /\
                lrep s' [] /\ lown a' s' [] F /\ same_hdr s s' /\ aframe a a' /\ plan a' = plan a.
Proof.
  induction l as [|[x d] t IH]; intros fuel s a F log R Hown Hf.
  - rewrite (rep_head _ _ R). cbn [first_id]. destruct fuel; cbn [unlink_all_loop N.eqb].
    + exists s, a. rewrite app_nil_end at 1. destruct cb; rewrite <- ?app_nil_end; auto 10 using aframe_refl.
    + exists s, a. destruct cb; cbn [map]; rewrite <- ?app_nil_end; auto 10 using aframe_refl.
  - destruct fuel as [|f]; [cbn in Hf; lia|]. cbn [unlink_all_loop].
    rewrite (rep_head _ _ R). cbn [first_id]. destruct (nz_tail _ _ _ (rep_nz _ _ R)) as [Hx0 Hnz'].
    replace (x =? 0) with false by lia.
    pose proof (rep_seg _ _ R) as Hs. destruct Hs as [Hx Ht]. rewrite (load_ok _ _ _ Hx0 Hx). cbn [bind n_next n_data].
    destruct (unlinkn_spec s [] x d t a F R Hown) as (s1 & a1 & E1 & R1 & Hown1 & Hh1 & Hf1 & Hp1).
    rewrite E1. cbn [bind app] in *.
    destruct (IH f s1 a1 F (if cb then log ++ [d] else log) R1 Hown1 ltac:(cbn in Hf; lia))
      as (s2 & a2 & E2 & R2 & Hown2 & Hh2 & Hf2 & Hp2).
    rewrite (rep_head _ _ R1) in E2. rewrite E2.
    exists s2, a2. split.
    + destruct cb; cbn [map snd]; rewrite <- ?app_assoc; reflexivity.
    + split; [assumption|]. split; [assumption|]. split; [destruct Hh1, Hh2; split; congruence|].
      split; [eapply aframe_trans; eassumption|congruence].
Qed.

Lemma filter_snd pred (l : list (N * N)) : map snd (filter (fun p => pred (snd p)) l) = filter pred (map snd l).
Proof. induction l as [|[x d] t IH]; cbn; [reflexivity|]. destruct (pred d); cbn; rewrite IH; reflexivity. Qed.

Lemma filter_mut_loop_spec pred rest : forall fuel done s a F,
  lrep s (done ++ rest) -> lown a s (done ++ rest) F -> (length rest < fuel)%nat ->
  exists s' a', filter_mut_loop fuel pred s (first_id rest 0) a = Ok (s', a') /\
                lrep s' (done ++ filter (fun p => pred (snd p)) rest) /\
                lown a' s' (done ++ filter (fun p => pred (snd p)) rest) F /\ same_hdr s s' /\ aframe a a' /\ plan a' = plan a.
Proof.
  induction rest as [|[x d] t IH]; intros fuel done s a F R Hown Hf.
  - cbn [first_id filter]. destruct fuel; cbn [filter_mut_loop N.eqb]; exists s, a; auto 10 using aframe_refl.
  - destruct fuel as [|f]; [cbn in Hf; lia|]. cbn [filter_mut_loop first_id filter snd].
    pose proof (rep_nz _ _ R) as Hnz.
    assert (Hx0 : x <> 0) by (intros ->; apply Hnz; rewrite ids_app; apply in_or_app; right; left; reflexivity).
    replace (x =? 0) with false by lia.
    pose proof (dseg_mid _ _ _ _ _ _ _ (rep_seg _ _ R)) as Hx. rewrite (load_ok _ _ _ Hx0 Hx). cbn [bind n_next n_data].
    destruct (pred d) eqn:Ep; cbn [negb].
    + cbn [bind]. change (done ++ (x, d) :: t) with (done ++ [(x, d)] ++ t) in R, Hown. rewrite app_assoc in R, Hown.
      destruct (IH f (done ++ [(x, d)]) s a F R Hown ltac:(cbn in Hf; lia)) as (s2 & a2 & E2 & R2 & Hown2 & Hrest).
      rewrite E2. exists s2, a2. rewrite <- app_assoc in R2, Hown2. auto.
    + destruct (unlinkn_spec s done x d t a F R Hown) as (s1 & a1 & E1 & R1 & Hown1 & Hh1 & Hf1 & Hp1).
      rewrite E1. cbn [bind].
      destruct (IH f done s1 a1 F R1 Hown1 ltac:(cbn in Hf; lia)) as (s2 & a2 & E2 & R2 & Hown2 & Hh2 & Hf2 & Hp2).
      rewrite E2. exists s2, a2. split; [reflexivity|]. split; [assumption|]. split; [assumption|].
      split; [destruct Hh1, Hh2; split; congruence|]. split; [eapply aframe_trans; eassumption|congruence].
Qed.
