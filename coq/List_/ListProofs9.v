(** Doubly linked list: cc_list_sort_in_place (C18) - the hand-written split/merge on node links. *)
From Coq Require Import Permutation Sorted.
From CC Require Import Base.Prelude Base.ListMem Base.Alloc Base.AllocProofs.
From CC Require Import Generated.Status Generated.Guards List_.ListModel List_.ListHeap List_.ListProofs1 List_.ListProofs2
  List_.ListProofs3.
Local Open Scope N_scope.

(* ------------------------------------------------------------------------------------------ link_behind moving a later node *)
(** [ins] sits somewhere after [base]; it is unlinked and re-linked directly in front of [base]. *)
Lemma link_behind_move h P b db M i di S :
  NoDup (ids (P ++ (b, db) :: M ++ (i, di) :: S)) -> ~ In 0 (ids (P ++ (b, db) :: M ++ (i, di) :: S)) ->
  dseg h 0 (P ++ (b, db) :: M ++ (i, di) :: S) 0 ->
  exists h', link_behind h b i = Ok h' /\ dseg h' 0 (P ++ (i, di) :: (b, db) :: M ++ S) 0 /\ dom_eq h h'.
Proof.
  intros Hnd Hnz Hs.
  set (BM := (b, db) :: M).
  assert (E0 : P ++ (b, db) :: M ++ (i, di) :: S = P ++ BM ++ (i, di) :: S) by reflexivity.
  rewrite E0 in Hnd, Hnz, Hs.
  assert (HBM : BM <> []) by discriminate.
  rewrite !ids_app in Hnd, Hnz. cbn [ids map fst] in Hnd, Hnz. fold (ids S) in Hnd, Hnz. fold (ids BM) in Hnd, Hnz.
  apply nodup_app in Hnd. destruct Hnd as (HndP & Hnd2 & HdP). apply nodup_app in Hnd2. destruct Hnd2 as (HndBM & Hnd3 & HdBM).
  apply NoDup_cons_iff in Hnd3. destruct Hnd3 as [HiS HndS].
  rewrite !in_app_iff in Hnz. cbn [In] in Hnz.
  assert (Hi0 : i <> 0) by tauto.
  assert (HnzP : ~ In 0 (ids P)) by tauto. assert (HnzBM : ~ In 0 (ids BM)) by tauto. assert (HnzS : ~ In 0 (ids S)) by tauto.
  assert (HiP : ~ In i (ids P)) by (intros H; apply (HdP i H); apply in_or_app; right; left; reflexivity).
  assert (HiBM : ~ In i (ids BM)) by (intros H; apply (HdBM i H); left; reflexivity).
  assert (HdPBM : forall z, In z (ids P) -> ~ In z (ids BM)) by (intros z Hz Hin; apply (HdP z Hz); apply in_or_app; left; exact Hin).
  assert (HdPS : forall z, In z (ids P) -> ~ In z (ids S)) by (intros z Hz Hin; apply (HdP z Hz); apply in_or_app; right; right; exact Hin).
  assert (HdBMS : forall z, In z (ids BM) -> ~ In z (ids S)) by (intros z Hz Hin; apply (HdBM z Hz); right; exact Hin).
  assert (HdBMP : forall z, In z (ids BM) -> ~ In z (ids P)) by (intros z Hz Hin; exact (HdPBM z Hin Hz)).
  assert (HdSP : forall z, In z (ids S) -> ~ In z (ids P)) by (intros z Hz Hin; exact (HdPS z Hin Hz)).
  assert (HdSBM : forall z, In z (ids S) -> ~ In z (ids BM)) by (intros z Hz Hin; exact (HdBMS z Hin Hz)).
  assert (Hb0 : b <> 0) by (intros ->; apply HnzBM; left; reflexivity).
  assert (Hbi : b <> i) by (intros ->; apply HiBM; left; reflexivity).
  assert (HbP : ~ In b (ids P)) by (apply HdBMP; left; reflexivity).
  assert (HbS : ~ In b (ids S)) by (apply HdBMS; left; reflexivity).
  pose proof (last_notin BM i HiBM Hi0) as HlBMi. pose proof (first_notin S i HiS Hi0) as HfSi.
  pose proof (last_notin P i HiP Hi0) as HlPi. pose proof (last_notin P b HbP Hb0) as HlPb.
  pose proof (first_notin S b HbS Hb0) as HfSb.
  pose proof (first_notin_seg S BM HdSBM HnzBM) as HfSBM. pose proof (first_notin_seg S P HdSP HnzP) as HfSP.
  pose proof (last_notin_seg BM S HdBMS HnzS) as HlBMS. pose proof (last_notin_seg BM P HdBMP HnzP) as HlBMP.
  pose proof (last_notin_seg P BM HdPBM HnzBM) as HlPBM. pose proof (last_notin_seg P S HdPS HnzS) as HlPS.
  assert (HlBM0 : last_id BM 0 <> 0) by (rewrite last_id_nil_iff; assumption).
  (* pieces *)
  apply dseg_app in Hs. destruct Hs as (HsP & HsR). apply dseg_app in HsR. cbn [dseg first_id] in HsR. destruct HsR as (HsBM & Hins & HsS).
  rewrite (last_id_d_irrel BM (last_id P 0) 0 HBM) in Hins.
  assert (Hb : hget h b = Some {| n_data := db; n_prev := last_id P 0; n_next := first_id (M ++ [(i, di)]) 0 |}).
  { unfold BM in HsBM. cbn [dseg] in HsBM. destruct HsBM as [Hb _]. rewrite Hb. do 2 f_equal.
    destruct M as [|[m dm] M']; reflexivity. }
  unfold link_behind. rewrite (load_ok _ _ _ Hi0 Hins). cbn [bind n_next n_prev].
  (* 1: ins->next->prev = ins->prev *)
  destruct (cond_set_prev_first h i S 0 (last_id BM 0) HndS HnzS HsS) as (h1 & E1 & HsS1 & Hfr1 & _ & Hd1).
  rewrite E1. cbn [bind].
  assert (Hins1 : hget h1 i = Some {| n_data := di; n_prev := last_id BM 0; n_next := first_id S 0 |}) by (rewrite Hfr1 by congruence; exact Hins).
  rewrite (load_ok _ _ _ Hi0 Hins1). cbn [bind n_next n_prev].
  replace (last_id BM 0 =? 0) with false by lia. cbn [negb].
  (* 2: ins->prev->next = ins->next *)
  assert (HsBM1 : dseg h1 (last_id P 0) BM i).
  { eapply dseg_ext; [|exact HsBM]. intros z Hz. apply Hfr1. intros ->; contradiction. }
  destruct (set_next_last h1 (last_id P 0) BM i (first_id S 0) HBM HndBM HnzBM HsBM1) as (h2 & E2 & HsBM2 & Hfr2 & Hd2).
  rewrite E2. cbn [bind].
  assert (Hb2 : exists nb, hget h2 b = Some nb /\ n_prev nb = last_id P 0 /\ n_data nb = db).
  { unfold BM in HsBM2. cbn [dseg] in HsBM2. destruct HsBM2 as [Hb2 _]. eexists. split; [exact Hb2|]. auto. }
  destruct Hb2 as (nb & Hb2 & Hnbp & Hnbd). rewrite (load_ok _ _ _ Hb0 Hb2). cbn [bind]. rewrite Hnbp.
  assert (Hins2 : hget h2 i = Some {| n_data := di; n_prev := last_id BM 0; n_next := first_id S 0 |}) by (rewrite Hfr2 by congruence; exact Hins1).
  assert (HsP2 : dseg h2 0 P b).
  { eapply dseg_ext; [|exact HsP]. intros z Hz. rewrite Hfr2 by (intros ->; contradiction). apply Hfr1. intros ->; contradiction. }
  assert (HsS2 : dseg h2 (last_id BM 0) S 0).
  { eapply dseg_ext; [|exact HsS1]. intros z Hz. apply Hfr2. intros ->; contradiction. }
  assert (Hgoal : forall h5, hget h5 i = Some {| n_data := di; n_prev := last_id P 0; n_next := b |} ->
            dseg h5 0 P i -> (forall z, z <> i -> ~ In z (ids P) -> hget h5 z = hget h2 z) ->
            exists h', set_prev h5 b i = Ok h' /\ dseg h' 0 (P ++ (i, di) :: BM ++ S) 0 /\ dom_eq h5 h').
  { intros h5 Hi5 HsP5 Hfr5.
    assert (Hb5 : hget h5 b = Some nb) by (rewrite Hfr5 by auto; exact Hb2).
    rewrite (set_prev_ok _ _ _ _ Hb0 Hb5). eexists. split; [reflexivity|]. split; [|eapply dom_eq_hset; exact Hb5].
    apply dseg_app. cbn [dseg first_id]. split; [|split].
    - eapply dseg_ext; [|exact HsP5]. intros z Hz. apply hget_hset_other. intros ->; contradiction.
    - rewrite hget_hset_other by congruence. exact Hi5.
    - apply dseg_app. split.
      + unfold BM in *. cbn [dseg first_id] in HsBM2 |- *. destruct HsBM2 as [Hb2' HsM2]. split.
        * rewrite hget_hset_same. rewrite Hb2 in Hb2'. inversion Hb2'; subst nb. cbn [n_data n_next]. reflexivity.
        * eapply dseg_ext; [|exact HsM2]. intros z Hz.
          assert (Hzb : z <> b).
          { intros ->. cbn [ids map fst] in HndBM. apply NoDup_cons_iff in HndBM. tauto. }
          rewrite hget_hset_other by congruence. apply Hfr5; [intros ->; apply HiBM; right; exact Hz|].
          apply HdBMP. right; exact Hz.
      + eapply dseg_ext; [|exact HsS2]. intros z Hz. rewrite hget_hset_other by (intros ->; contradiction).
        apply Hfr5; [intros ->; contradiction|]. apply HdSP. exact Hz. }
  destruct (last_id P 0 =? 0) eqn:Ep.
  - (* base is the first node *)
    assert (P = []) by (apply last_id_nil_iff; [assumption|lia]). subst P. cbn [app last_id] in *.
    rewrite (set_prev_ok _ _ _ _ Hi0 Hins2). cbn [bind n_data n_next].
    rewrite (set_next_ok _ i _ b Hi0 (hget_hset_same _ _ _)). cbn [bind n_data n_prev].
    set (h4 := hset (hset h2 i _) i _).
    destruct (Hgoal h4) as (h' & E' & Hs' & Hd').
    + unfold h4. apply hget_hset_same.
    + exact I.
    + intros z Hz _. unfold h4. rewrite !hget_hset_other by congruence. reflexivity.
    + rewrite E'. exists h'. split; [reflexivity|]. split; [exact Hs'|].
      eapply dom_eq_trans; [exact Hd1|]. eapply dom_eq_trans; [exact Hd2|].
      eapply dom_eq_trans; [eapply dom_eq_hset; exact Hins2|]. eapply dom_eq_trans; [eapply dom_eq_hset; apply hget_hset_same|exact Hd'].
  - assert (Hp0 : last_id P 0 <> 0) by lia.
    assert (HP : P <> []) by (intros ->; cbn in Hp0; congruence).
    rewrite (set_prev_ok _ _ _ _ Hi0 Hins2). cbn [bind n_data n_next].
    set (h3 := hset h2 i _).
    rewrite (load_ok h3 i _ Hi0 (hget_hset_same _ _ _)). cbn [bind n_prev].
    assert (HsP3 : dseg h3 0 P b) by (eapply dseg_ext; [|exact HsP2]; intros z Hz; unfold h3; apply hget_hset_other; intros ->; contradiction).
    destruct (set_next_last h3 0 P b i HP HndP HnzP HsP3) as (h4 & E4 & HsP4 & Hfr4 & Hd4).
    rewrite E4. cbn [bind].
    assert (Hi4 : hget h4 i = Some {| n_data := di; n_prev := last_id P 0; n_next := first_id S 0 |}).
    { rewrite Hfr4 by congruence. unfold h3. apply hget_hset_same. }
    rewrite (set_next_ok _ _ _ b Hi0 Hi4). cbn [bind n_data n_prev].
    set (h5 := hset h4 i _).
    destruct (Hgoal h5) as (h' & E' & Hs' & Hd').
    + unfold h5. apply hget_hset_same.
    + eapply dseg_ext; [|exact HsP4]. intros z Hz. unfold h5. apply hget_hset_other. intros ->; contradiction.
    + intros z Hz HzP. unfold h5. rewrite hget_hset_other by congruence.
      rewrite Hfr4 by (intros ->; apply HzP; apply last_id_in; exact HP). unfold h3. apply hget_hset_other. congruence.
    + rewrite E'. exists h'. split; [reflexivity|]. split; [exact Hs'|].
      eapply dom_eq_trans; [exact Hd1|]. eapply dom_eq_trans; [exact Hd2|].
      eapply dom_eq_trans; [eapply dom_eq_hset; exact Hins2|]. eapply dom_eq_trans; [exact Hd4|].
      eapply dom_eq_trans; [eapply dom_eq_hset; exact Hi4|exact Hd'].
Qed.

(* ------------------------------------------------------------------------------------------ the merge loop *)
Section Merge.
Variable cmp : N -> N -> comparison.
Hypothesis cmp_refl : forall x, le_cmp (cmp x x) = true.

(** The ideal stable merge on (id, data) sequences: on ties the left element goes first. *)
Fixpoint smerge (L : list (N * N)) : list (N * N) -> list (N * N) :=
  fix inner (R : list (N * N)) : list (N * N) :=
    match L, R with
    | [], _ => R
    | _, [] => L
    | x :: L', y :: R' => if le_cmp (cmp (snd x) (snd y)) then x :: smerge L' R else y :: inner R'
    end.

Lemma smerge_nil_l R : smerge [] R = R. Proof. destruct R; reflexivity. Qed.
Lemma smerge_nil_r L : smerge L [] = L. Proof. destruct L; reflexivity. Qed.
Lemma smerge_cons x L y R :
  smerge (x :: L) (y :: R) = if le_cmp (cmp (snd x) (snd y)) then x :: smerge L (y :: R) else y :: smerge (x :: L) R.
Proof. reflexivity. Qed.

Lemma walk_to_last h p l n : l <> [] -> ~ In 0 (ids l) -> dseg h p l n ->
  walk_next h (first_id l 0) (N.to_nat (lenN l - 1)) = Ok (last_id l 0).
Proof.
  intros Hl Hnz Hs. destruct (exists_last Hl) as (l0 & [z dz] & ->).
  replace (N.to_nat (lenN (l0 ++ [(z, dz)]) - 1)) with (length l0) by (rewrite lenN_app, lenN_cons; unfold lenN; cbn; lia).
  rewrite (first_id_d_irrel (l0 ++ [(z, dz)]) 0 n) by (destruct l0; discriminate).
  rewrite (walk_next_seg h p l0 [(z, dz)] n); [rewrite last_id_snoc; reflexivity| |exact Hs].
  intros H0. apply Hnz. rewrite ids_app. apply in_or_app. left; exact H0.
Qed.

Lemma merge_loop_spec : forall k h PRE Done Lr Rr POST size l_size r_size i l r left right,
  Rr <> [] -> (length Lr + length Rr <= k)%nat ->
  i = lenN Done -> l + lenN Lr = l_size -> r + lenN Rr = r_size -> i = l + r -> size = r_size + l_size ->
  1 <= l_size -> l_size <= r_size -> r_size <= l_size + 1 ->
  left = first_id (Done ++ Lr ++ Rr) 0 -> (i = 0 -> right = first_id Rr 0) ->
  NoDup (ids (PRE ++ Done ++ Lr ++ Rr ++ POST)) -> ~ In 0 (ids (PRE ++ Done ++ Lr ++ Rr ++ POST)) ->
  dseg h 0 (PRE ++ Done ++ Lr ++ Rr ++ POST) 0 ->
  exists left' right' h',
    merge_loop k cmp h size l_size r_size i l r (first_id (Lr ++ Rr) 0) (first_id Rr 0) left right = Ok (left', right', h') /\
    dseg h' 0 (PRE ++ (Done ++ smerge Lr Rr) ++ POST) 0 /\
    left' = first_id (Done ++ smerge Lr Rr) 0 /\ right' = last_id (Done ++ smerge Lr Rr) 0 /\ dom_eq h h'.
Proof.
  induction k as [|k IH]; intros h PRE Done Lr Rr POST size l_size r_size i l r left right HRr Hk Hi Hl Hr Hilr Hsize H1 H2 H3 Hleft Hright Hnd Hnz Hs.
  { destruct Rr; [congruence|]. cbn in Hk. lia. }
  destruct Rr as [|[y dy] Rr']; [congruence|]. clear HRr.
  assert (Hy0 : y <> 0).
  { intros ->. apply Hnz. rewrite !ids_app. do 3 (apply in_or_app; right). apply in_or_app. left. left. reflexivity. }
  (* the big segment, re-associated around y *)
  assert (Ey : PRE ++ Done ++ Lr ++ ((y, dy) :: Rr') ++ POST = (PRE ++ Done ++ Lr) ++ (y, dy) :: (Rr' ++ POST)).
  { rewrite <- !app_assoc. reflexivity. }
  pose proof Hs as Hsy. rewrite Ey in Hsy. pose proof (dseg_mid _ _ _ _ _ _ _ Hsy) as Hy.
  cbn [merge_loop first_id].
  destruct Lr as [|[x dx] Lr'].
  - (* A: the left part is used up; l_part = r_part *)
    cbn [app first_id]. rewrite (load_ok _ _ _ Hy0 Hy). cbn [bind n_data]. rewrite cmp_refl.
    unfold g_list_merge_pair, g_list_merge_left_done.
    cbn [lenN length N.of_nat] in Hl. replace (i =? 0) with false by (rewrite lenN_cons in Hr; lia). cbn [andb].
    replace (l =? l_size) with true by lia.
    assert (Hseg : dseg h (last_id (PRE ++ Done) 0) ((y, dy) :: Rr') (first_id POST 0)).
    { assert (E3 : PRE ++ Done ++ [] ++ ((y, dy) :: Rr') ++ POST = (PRE ++ Done) ++ ((y, dy) :: Rr') ++ POST)
        by (rewrite <- !app_assoc; reflexivity).
      rewrite E3 in Hs. apply dseg_app in Hs. destruct Hs as [_ Hs]. apply dseg_app in Hs. destruct Hs as [Hs _]. exact Hs. }
    assert (Hnzr : ~ In 0 (ids ((y, dy) :: Rr'))).
    { intros H0. apply Hnz. rewrite !ids_app. do 3 (apply in_or_app; right). apply in_or_app. left. exact H0. }
    replace (r_size - 1 - r) with (lenN ((y, dy) :: Rr') - 1) by lia.
    change y with (first_id ((y, dy) :: Rr') 0) at 1.
    rewrite (walk_to_last h _ ((y, dy) :: Rr') _ ltac:(discriminate) Hnzr Hseg). cbn [bind].
    do 3 eexists. split; [reflexivity|]. rewrite smerge_nil_l. cbn [app] in *. rewrite <- app_assoc.
    split; [exact Hs|]. split; [exact Hleft|]. split; [|apply dom_eq_refl].
    rewrite last_id_app. symmetry. apply last_id_d_irrel. discriminate.
  - (* both parts non-empty *)
    assert (Hx0 : x <> 0).
    { intros ->. apply Hnz. rewrite !ids_app. do 2 (apply in_or_app; right). apply in_or_app. left. left. reflexivity. }
    assert (Ex : PRE ++ Done ++ ((x, dx) :: Lr') ++ ((y, dy) :: Rr') ++ POST = (PRE ++ Done) ++ (x, dx) :: (Lr' ++ (y, dy) :: Rr' ++ POST)).
    { rewrite <- !app_assoc. reflexivity. }
    pose proof Hs as Hsx. rewrite Ex in Hsx. pose proof (dseg_mid _ _ _ _ _ _ _ Hsx) as Hx.
    cbn [app first_id]. rewrite (load_ok _ _ _ Hx0 Hx), (load_ok _ _ _ Hy0 Hy). cbn [bind n_data n_next].
    rewrite smerge_cons. cbn [snd].
    rewrite !lenN_cons in *.
    destruct (le_cmp (cmp dx dy)) eqn:Ec.
    + (* B: the left element stays *)
      unfold g_list_merge_pair, g_list_merge_left_done.
      destruct ((i =? 0) && (size =? 2)) eqn:Epair.
      * (* the two-element shortcut *)
        assert (i = 0 /\ size = 2) as [Hi0 Hs2] by lia.
        assert (Done = []) by (destruct Done; [reflexivity|rewrite lenN_cons in Hi; lia]). subst Done.
        assert (Lr' = []) by (destruct Lr'; [reflexivity|rewrite lenN_cons in Hl; lia]). subst Lr'.
        assert (Rr' = []) by (destruct Rr'; [reflexivity|rewrite lenN_cons in Hr; lia]). subst Rr'.
        do 3 eexists. split; [reflexivity|]. rewrite smerge_nil_l. cbn [app] in *.
        split; [exact Hs|]. split; [exact Hleft|]. split; [|apply dom_eq_refl]. rewrite (Hright Hi0). reflexivity.
      * replace (l =? l_size) with false by lia.
        destruct (IH h PRE (Done ++ [(x, dx)]) Lr' ((y, dy) :: Rr') POST size l_size r_size (i + 1) (l + 1) r left right)
          as (left' & right' & h' & E & Hs' & Hl' & Hr' & Hd'); try lia; try discriminate.
        -- cbn [length] in Hk |- *. lia.
        -- rewrite lenN_app, lenN_cons. cbn. lia.
        -- rewrite lenN_cons. lia.
        -- rewrite Hleft, <- !app_assoc. reflexivity.
        -- rewrite <- !app_assoc. cbn [app]. exact Hnd.
        -- rewrite <- !app_assoc. cbn [app]. exact Hnz.
        -- rewrite <- !app_assoc. cbn [app]. exact Hs.
        -- replace (first_id (Lr' ++ (y, dy) :: Rr' ++ POST) 0) with (first_id (Lr' ++ (y, dy) :: Rr') 0)
             by (rewrite !first_id_app; reflexivity).
           cbn [first_id] in E. rewrite E. do 3 eexists. split; [reflexivity|].
           repeat rewrite <- app_assoc in Hs'. repeat rewrite <- app_assoc in Hl'. repeat rewrite <- app_assoc in Hr'. cbn [app] in Hs', Hl', Hr'. rewrite <- !app_assoc. cbn [app].
           split; [exact Hs'|]. split; [exact Hl'|]. split; [exact Hr'|exact Hd'].
    + (* C: the right element moves in front of the left cursor *)
      assert (Emv : PRE ++ Done ++ ((x, dx) :: Lr') ++ ((y, dy) :: Rr') ++ POST = (PRE ++ Done) ++ (x, dx) :: Lr' ++ (y, dy) :: (Rr' ++ POST)).
      { rewrite <- !app_assoc. reflexivity. }
      rewrite Emv in Hnd, Hnz, Hs.
      destruct (link_behind_move h (PRE ++ Done) x dx Lr' y dy (Rr' ++ POST) Hnd Hnz Hs) as (h1 & E1 & Hs1 & Hd1).
      rewrite E1. cbn [bind]. unfold g_list_merge_pair2, g_list_merge_right_done.
      assert (Hperm : Permutation (ids ((PRE ++ Done) ++ (y, dy) :: (x, dx) :: Lr' ++ Rr' ++ POST))
                                  (ids ((PRE ++ Done) ++ (x, dx) :: Lr' ++ (y, dy) :: Rr' ++ POST))).
      { apply Permutation_map. apply Permutation_app_head.
        change ((x, dx) :: Lr' ++ (y, dy) :: Rr' ++ POST) with (((x, dx) :: Lr') ++ (y, dy) :: Rr' ++ POST).
        change ((y, dy) :: (x, dx) :: Lr' ++ Rr' ++ POST) with ((y, dy) :: ((x, dx) :: Lr') ++ Rr' ++ POST). apply Permutation_middle. }
      assert (Hnd1 : NoDup (ids ((PRE ++ Done) ++ (y, dy) :: (x, dx) :: Lr' ++ Rr' ++ POST))).
      { eapply Permutation_NoDup; [apply Permutation_sym, Hperm|exact Hnd]. }
      assert (Hnz1 : ~ In 0 (ids ((PRE ++ Done) ++ (y, dy) :: (x, dx) :: Lr' ++ Rr' ++ POST))).
      { intros H0. apply Hnz. eapply Permutation_in; [exact Hperm|exact H0]. }
      destruct ((i =? 0) && (size =? 2)) eqn:Epair.
      * assert (i = 0 /\ size = 2) as [Hi0 Hs2] by lia.
        assert (Done = []) by (destruct Done; [reflexivity|rewrite lenN_cons in Hi; lia]). subst Done.
        assert (Lr' = []) by (destruct Lr'; [reflexivity|rewrite lenN_cons in Hl; lia]). subst Lr'.
        assert (Rr' = []) by (destruct Rr'; [reflexivity|rewrite lenN_cons in Hr; lia]). subst Rr'.
        do 3 eexists. split; [reflexivity|]. rewrite smerge_nil_r. rewrite app_nil_r in *. cbn [app] in *.
        split; [exact Hs1|]. auto.
      * destruct (r + 1 =? r_size) eqn:Erd.
        -- (* the right part is used up *)
           assert (Rr' = []) by (destruct Rr'; [reflexivity|rewrite lenN_cons in Hr; lia]). subst Rr'.
           assert (Hi1 : i <> 0).
           { intros Hi0. assert (r = 0) by lia. assert (r_size = 1) by lia. assert (l_size = 1) by lia. lia. }
           assert (Hseg : dseg h1 y ((x, dx) :: Lr') (first_id POST 0)).
           { pose proof Hs1 as Hq. apply dseg_app in Hq. destruct Hq as [_ Hq]. cbn [dseg app first_id] in Hq. destruct Hq as (_ & Hx1 & Hq).
             cbn [dseg]. rewrite first_id_app in Hx1. split; [exact Hx1|]. apply dseg_app in Hq. tauto. }
           assert (Hnzl : ~ In 0 (ids ((x, dx) :: Lr'))).
           { intros H0. apply Hnz1. rewrite !ids_app. apply in_or_app. right. cbn [ids map fst]. right.
             change (x :: map fst (Lr' ++ [] ++ POST)) with (ids (((x, dx) :: Lr') ++ [] ++ POST)). rewrite ids_app. apply in_or_app. left; exact H0. }
           replace (l_size - 1 - l) with (lenN ((x, dx) :: Lr') - 1) by (rewrite lenN_cons; lia).
           change x with (first_id ((x, dx) :: Lr') 0) at 1.
           rewrite (walk_to_last h1 _ ((x, dx) :: Lr') _ ltac:(discriminate) Hnzl Hseg). cbn [bind].
           do 3 eexists. split; [reflexivity|]. rewrite smerge_nil_r. cbn [app] in *.
           split; [rewrite <- !app_assoc in Hs1 |- *; exact Hs1|].
           split; [|split; [|exact Hd1]].
           ++ rewrite Hleft. destruct Done as [|[dn dd] Done']; [cbn in Hi; lia|reflexivity].
           ++ rewrite last_id_app. reflexivity.
        -- (* continue with the next right element *)
           assert (HRr' : Rr' <> []) by (intros ->; cbn in Hr; lia).
           destruct (IH h1 PRE (Done ++ [(y, dy)]) ((x, dx) :: Lr') Rr' POST size l_size r_size (i + 1) l (r + 1)
                       (if i =? 0 then y else left) right)
             as (left' & right' & h' & E & Hs' & Hl' & Hr' & Hd'); try lia; try assumption.
           ++ cbn [length] in Hk |- *. lia.
           ++ rewrite lenN_app, lenN_cons. cbn. lia.
           ++ rewrite lenN_cons. lia.
           ++ destruct (i =? 0) eqn:Ei0.
              ** assert (Done = []) by (destruct Done; [reflexivity|rewrite lenN_cons in Hi; lia]). subst Done. reflexivity.
              ** rewrite Hleft. destruct Done as [|[dn dd] Done']; [cbn in Hi; lia|reflexivity].
           ++ rewrite <- !app_assoc. cbn [app]. rewrite <- !app_assoc in Hnd1. exact Hnd1.
           ++ rewrite <- !app_assoc. cbn [app]. rewrite <- !app_assoc in Hnz1. exact Hnz1.
           ++ rewrite <- !app_assoc. cbn [app]. rewrite <- !app_assoc in Hs1. exact Hs1.
           ++ replace (first_id (Rr' ++ POST) 0) with (first_id Rr' 0) by (rewrite first_id_app; apply first_id_d_irrel; exact HRr').
              cbn [app first_id] in E. rewrite E. do 3 eexists. split; [reflexivity|].
              repeat rewrite <- app_assoc in Hs'. repeat rewrite <- app_assoc in Hl'. repeat rewrite <- app_assoc in Hr'. cbn [app] in Hs', Hl', Hr'. rewrite <- !app_assoc. cbn [app].
              split; [exact Hs'|]. split; [exact Hl'|]. split; [exact Hr'|]. eapply dom_eq_trans; eassumption.
Qed.
End Merge.

(* ------------------------------------------------------------------------------------------ merge, split *)
Section SortInPlace.
Variable cmp : N -> N -> comparison.
(** The comparator is a total preorder ("<= 0" is total and transitive). *)
Hypothesis cmp_total : forall x y, le_cmp (cmp x y) = false -> le_cmp (cmp y x) = true.
Hypothesis cmp_trans : forall x y z, le_cmp (cmp x y) = true -> le_cmp (cmp y z) = true -> le_cmp (cmp x z) = true.

Lemma cmp_refl : forall x, le_cmp (cmp x x) = true.
Proof. intros x. destruct (le_cmp (cmp x x)) eqn:E; [reflexivity|]. pose proof (cmp_total x x E). congruence. Qed.

Notation smerge := (smerge cmp).

Lemma smerge_perm L : forall R, Permutation (smerge L R) (L ++ R).
Proof.
  induction L as [|x L IHL]; intros R; [rewrite smerge_nil_l; reflexivity|].
  induction R as [|y R IHR]; [rewrite smerge_nil_r, app_nil_r; reflexivity|].
  rewrite smerge_cons. destruct (le_cmp (cmp (snd x) (snd y))).
  - cbn [app]. apply perm_skip. apply IHL.
  - eapply Permutation_trans; [apply perm_skip; exact IHR|]. cbn [app].
    change (y :: x :: L ++ R) with (y :: (x :: L) ++ R). change (x :: L ++ y :: R) with ((x :: L) ++ y :: R). apply Permutation_middle.
Qed.

(** The ideal result: merge sort with the split sizes of the C code ([n/2] and the rest). *)
Fixpoint msort (fuel : nat) (l : list (N * N)) : list (N * N) :=
  if lenN l <? 2 then l else
  match fuel with
  | O => l
  | S f => smerge (msort f (firstn (length l / 2) l)) (msort f (skipn (length l / 2) l))
  end.

Lemma msort_perm fuel : forall l, Permutation (msort fuel l) l.
Proof.
  induction fuel as [|f IH]; intros l; cbn [msort]; destruct (lenN l <? 2); try reflexivity.
  eapply Permutation_trans; [apply smerge_perm|]. eapply Permutation_trans; [apply Permutation_app; apply IH|].
  rewrite firstn_skipn. reflexivity.
Qed.
Lemma msort_length fuel l : length (msort fuel l) = length l.
Proof. apply Permutation_length, msort_perm. Qed.
Lemma msort_ids_perm fuel l : Permutation (ids (msort fuel l)) (ids l).
Proof. apply Permutation_map, msort_perm. Qed.

Lemma merge_spec h PRE L R POST :
  L <> [] -> R <> [] -> lenN L <= lenN R -> lenN R <= lenN L + 1 ->
  NoDup (ids (PRE ++ L ++ R ++ POST)) -> ~ In 0 (ids (PRE ++ L ++ R ++ POST)) -> dseg h 0 (PRE ++ L ++ R ++ POST) 0 ->
  exists h', merge cmp h (first_id L 0) (first_id R 0) (lenN L) (lenN R) =
             Ok (first_id (smerge L R) 0, last_id (smerge L R) 0, h') /\
             dseg h' 0 (PRE ++ smerge L R ++ POST) 0 /\ dom_eq h h'.
Proof.
  intros HL HR H2 H3 Hnd Hnz Hs. unfold merge.
  destruct (merge_loop_spec cmp cmp_refl (N.to_nat (lenN R + lenN L)) h PRE [] L R POST (lenN R + lenN L) (lenN L) (lenN R) 0 0 0
              (first_id L 0) (first_id R 0) HR) as (left' & right' & h' & E & Hs' & Hl' & Hr' & Hd'); try reflexivity; try lia; try assumption.
  - unfold lenN. lia.
  - destruct L; [congruence|rewrite lenN_cons; lia].
  - cbn [app]. rewrite first_id_app. apply first_id_d_irrel. exact HL.
  - rewrite first_id_app, (first_id_d_irrel L _ 0 HL) in E. rewrite E. cbn [app] in *. subst left' right'.
    exists h'. auto.
Qed.

Lemma half_sizes n : 2 <= n -> 1 <= n / 2 /\ n / 2 <= n / 2 + n mod 2 /\ n / 2 + n mod 2 <= n / 2 + 1 /\ n / 2 + (n / 2 + n mod 2) = n.
Proof. intros H. pose proof (N.div_mod n 2 ltac:(lia)). pose proof (N.mod_lt n 2 ltac:(lia)). lia. Qed.

(** split on the section [SEC] of the list: the section ends up merge-sorted, everything else is untouched. *)
Lemma split_spec : forall fuel s PRE SEC POST,
  (length SEC <= fuel)%nat ->
  NoDup (ids (PRE ++ SEC ++ POST)) -> ~ In 0 (ids (PRE ++ SEC ++ POST)) -> dseg (l_heap s) 0 (PRE ++ SEC ++ POST) 0 ->
  exists s', split fuel cmp s (first_id (SEC ++ POST) 0) (lenN SEC) = Ok (first_id (msort fuel SEC ++ POST) 0, s') /\
             dseg (l_heap s') 0 (PRE ++ msort fuel SEC ++ POST) 0 /\ dom_eq (l_heap s) (l_heap s') /\
             l_size s' = l_size s /\ same_hdr s s' /\
             (2 <= lenN SEC -> l_head s' = first_id (msort fuel SEC) 0 /\ l_tail s' = last_id (msort fuel SEC) 0) /\
             (lenN SEC < 2 -> s' = s).
Proof.
  induction fuel as [|f IH]; intros s PRE SEC POST Hf Hnd Hnz Hs.
  - assert (SEC = []) by (destruct SEC; [reflexivity|cbn in Hf; lia]). subst SEC.
    exists s. cbn. split; [reflexivity|]. split; [exact Hs|]. split; [apply dom_eq_refl|]. split; [reflexivity|]. split; [auto|]. split; [lia|reflexivity].
  - cbn [split msort]. unfold g_list_split_base. destruct (lenN SEC <? 2) eqn:E2.
    + exists s. split; [reflexivity|]. split; [exact Hs|]. split; [apply dom_eq_refl|]. split; [reflexivity|]. split; [auto|]. split; [lia|reflexivity].
    + assert (Hn2 : 2 <= lenN SEC) by lia.
      destruct (half_sizes (lenN SEC) Hn2) as (Hh1 & Hh2 & Hh3 & Hh4).
      set (n := (length SEC / 2)%nat).
      assert (En : lenN SEC / 2 = N.of_nat n).
      { unfold n, lenN. rewrite Nat2N.inj_div. reflexivity. }
      set (L := firstn n SEC). set (R := skipn n SEC).
      assert (ESEC : SEC = L ++ R) by (symmetry; apply firstn_skipn).
      assert (HlenL : lenN L = lenN SEC / 2).
      { unfold L, lenN at 1. rewrite firstn_length_le; [symmetry; exact En|]. unfold n. apply Nat.div_le_upper_bound; lia. }
      assert (HlenR : lenN R = lenN SEC / 2 + lenN SEC mod 2).
      { assert (lenN SEC = lenN L + lenN R) by (rewrite ESEC at 1; apply lenN_app). lia. }
      assert (HL : L <> []) by (intros E0; rewrite E0 in HlenL; cbn in HlenL; lia).
      assert (HR : R <> []) by (intros E0; rewrite E0 in HlenR; cbn in HlenR; lia).
      assert (HfL : (length L <= f)%nat) by (unfold lenN in *; lia).
      assert (HfR : (length R <= f)%nat) by (unfold lenN in *; lia).
      assert (H23 : lenN L <= lenN R /\ lenN R <= lenN L + 1) by lia.
      remember (lenN SEC) as sz eqn:Esz. clearbody L R. clear n En. subst SEC.
      rewrite <- !app_assoc in Hnd, Hnz, Hs |- *.
      (* center *)
      assert (HnzL : ~ In 0 (ids L)) by (intros H0; apply Hnz; rewrite !ids_app; apply in_or_app; right; apply in_or_app; left; exact H0).
      assert (Hcenter : walk_next (l_heap s) (first_id (L ++ R ++ POST) 0) (N.to_nat (sz / 2)) = Ok (first_id (R ++ POST) 0)).
      { rewrite <- HlenL, lenN_length.
        pose proof Hs as Hs0. apply dseg_app in Hs0. destruct Hs0 as [_ Hs0].
        exact (walk_next_seg _ _ L (R ++ POST) 0 HnzL Hs0). }
      rewrite Hcenter. cbn [bind].
      (* left half *)
      destruct (IH s PRE L (R ++ POST) HfL Hnd Hnz Hs) as (s1 & E1 & Hs1 & Hd1 & Hsz1 & Hh1' & _ & _).
      rewrite <- HlenR, <- HlenL. rewrite E1. cbn [bind].
      set (L' := msort f L) in *.
      assert (HpL : Permutation (ids (PRE ++ L' ++ R ++ POST)) (ids (PRE ++ L ++ R ++ POST))).
      { rewrite !ids_app. apply Permutation_app_head, Permutation_app_tail, msort_ids_perm. }
      assert (Hnd1 : NoDup (ids ((PRE ++ L') ++ R ++ POST))).
      { rewrite <- app_assoc. eapply Permutation_NoDup; [apply Permutation_sym, HpL|exact Hnd]. }
      assert (Hnz1 : ~ In 0 (ids ((PRE ++ L') ++ R ++ POST))).
      { rewrite <- app_assoc. intros H0. apply Hnz. eapply Permutation_in; [exact HpL|exact H0]. }
      pose proof Hs1 as Hs1'. rewrite app_assoc in Hs1'.
      (* right half *)
      destruct (IH s1 (PRE ++ L') R POST HfR Hnd1 Hnz1 Hs1') as (s2 & E2' & Hs2 & Hd2 & Hsz2 & Hh2' & _ & _).
      rewrite E2'. cbn [bind].
      set (R' := msort f R) in *.
      assert (HL' : L' <> []) by (intros E0; apply (f_equal (@length _)) in E0; unfold L' in E0; rewrite msort_length in E0; destruct L; [congruence|discriminate]).
      assert (HR' : R' <> []) by (intros E0; apply (f_equal (@length _)) in E0; unfold R' in E0; rewrite msort_length in E0; destruct R; [congruence|discriminate]).
      assert (HlenL' : lenN L' = lenN L) by (unfold lenN, L'; rewrite msort_length; reflexivity).
      assert (HlenR' : lenN R' = lenN R) by (unfold lenN, R'; rewrite msort_length; reflexivity).
      assert (HpR : Permutation (ids (PRE ++ L' ++ R' ++ POST)) (ids ((PRE ++ L') ++ R ++ POST))).
      { rewrite <- app_assoc. rewrite !ids_app. do 2 apply Permutation_app_head. apply Permutation_app_tail, msort_ids_perm. }
      assert (Hnd2 : NoDup (ids (PRE ++ L' ++ R' ++ POST))) by (eapply Permutation_NoDup; [apply Permutation_sym, HpR|exact Hnd1]).
      assert (Hnz2 : ~ In 0 (ids (PRE ++ L' ++ R' ++ POST))) by (intros H0; apply Hnz1; eapply Permutation_in; [exact HpR|exact H0]).
      rewrite <- app_assoc in Hs2.
      (* merge *)
      rewrite (first_id_app L' (R ++ POST)), (first_id_d_irrel L' _ 0 HL').
      rewrite (first_id_app R' POST), (first_id_d_irrel R' _ 0 HR').
      rewrite <- HlenL', <- HlenR'.
      destruct (merge_spec (l_heap s2) PRE L' R' POST HL' HR' ltac:(lia) ltac:(lia) Hnd2 Hnz2 Hs2) as (h3 & E3 & Hs3 & Hd3).
      rewrite E3. cbn [bind].
      assert (Hne : smerge L' R' <> []).
      { intros E0. apply (f_equal (@length _)) in E0. rewrite (Permutation_length (smerge_perm L' R')), app_length in E0.
        destruct L'; [congruence|discriminate]. }
      eexists. split; [rewrite first_id_app, (first_id_d_irrel _ (first_id POST 0) 0 Hne); reflexivity|].
      cbn [upd l_heap l_head l_tail l_size l_hdr]. split; [exact Hs3|].
      split; [eapply dom_eq_trans; [exact Hd1|eapply dom_eq_trans; eassumption]|].
      split; [congruence|]. split; [destruct Hh1', Hh2'; split; cbn; congruence|]. split; [auto|lia].
Qed.

(* ------------------------------------------------------------------------------------------ merge sort = stable insertion sort *)
Definition lep (a b : N * N) : bool := le_cmp (cmp (snd a) (snd b)).
Fixpoint insertp (x : N * N) (l : list (N * N)) : list (N * N) :=
  match l with [] => [x] | y :: t => if lep x y then x :: l else y :: insertp x t end.
Definition isortp (l : list (N * N)) : list (N * N) := fold_right insertp [] l.

Lemma smerge_single x B : smerge [x] B = insertp x B.
Proof.
  induction B as [|y B IH]; [reflexivity|]. rewrite smerge_cons. cbn [insertp]. unfold lep.
  destruct (le_cmp (cmp (snd x) (snd y))); [rewrite smerge_nil_l; reflexivity|rewrite IH; reflexivity].
Qed.

Lemma smerge_insert x A : forall B, smerge (insertp x A) B = insertp x (smerge A B).
Proof.
  induction A as [|a A IHA]; intros B.
  - rewrite smerge_nil_l. apply smerge_single.
  - cbn [insertp]. destruct (lep x a) eqn:Exa.
    + induction B as [|b B IHB]; [rewrite !smerge_nil_r; cbn [insertp]; rewrite Exa; reflexivity|].
      rewrite (smerge_cons cmp x (a :: A) b B), (smerge_cons cmp a A b B). fold (lep x b). fold (lep a b).
      destruct (lep a b) eqn:Eab.
      * cbn [insertp]. rewrite Exa. replace (lep x b) with true by (symmetry; eapply cmp_trans; eassumption).
        try (rewrite smerge_cons; fold (lep a b); rewrite Eab). reflexivity.
      * cbn [insertp]. destruct (lep x b) eqn:Exb.
        -- try (rewrite smerge_cons; fold (lep a b); rewrite Eab). reflexivity.
        -- rewrite IHB. reflexivity.
    + induction B as [|b B IHB]; [rewrite !smerge_nil_r; cbn [insertp]; rewrite Exa; reflexivity|].
      rewrite (smerge_cons cmp a (insertp x A) b B), (smerge_cons cmp a A b B). fold (lep a b).
      destruct (lep a b) eqn:Eab.
      * cbn [insertp]. rewrite Exa. rewrite IHA. reflexivity.
      * cbn [insertp]. destruct (lep x b) eqn:Exb.
        -- exfalso. assert (lep b a = true) by (apply cmp_total; exact Eab).
           assert (lep x a = true) by (eapply cmp_trans; eassumption). congruence.
        -- rewrite IHB. reflexivity.
Qed.

Lemma smerge_isort L R : smerge (isortp L) (isortp R) = isortp (L ++ R).
Proof.
  induction L as [|x L IH]; [apply smerge_nil_l|]. cbn [isortp fold_right app]. fold (isortp L). fold (isortp (L ++ R)).
  rewrite smerge_insert, IH. reflexivity.
Qed.

Lemma msort_isort : forall fuel l, (length l <= fuel)%nat -> msort fuel l = isortp l.
Proof.
  induction fuel as [|f IH]; intros l Hf.
  - destruct l; [reflexivity|cbn in Hf; lia].
  - cbn [msort]. destruct (lenN l <? 2) eqn:E2.
    + destruct l as [|a [|b t]]; [reflexivity|reflexivity|]. rewrite !lenN_cons in E2. lia.
    + assert (H2 : (2 <= length l)%nat) by (unfold lenN in E2; lia).
      assert (Hd : (length l / 2 < length l)%nat) by (apply Nat.div_lt; lia).
      assert (Hd1 : (1 <= length l / 2)%nat) by (apply Nat.div_le_lower_bound; lia).
      rewrite !IH.
      * rewrite smerge_isort, firstn_skipn. reflexivity.
      * rewrite skipn_length. lia.
      * rewrite firstn_length. lia.
Qed.

(** The stable insertion sort on (id, data) pairs is the model's [isort] on the data. *)
Lemma insertp_snd x l : map snd (insertp x l) = insert_sorted cmp (snd x) (map snd l).
Proof. induction l as [|y t IH]; [reflexivity|]. cbn [insertp map insert_sorted]. unfold lep. destruct (le_cmp _); cbn [map]; [reflexivity|rewrite IH; reflexivity]. Qed.
Lemma isortp_snd l : map snd (isortp l) = isort cmp (map snd l).
Proof. induction l as [|x t IH]; [reflexivity|]. cbn [isortp fold_right map]. fold (isortp t). rewrite insertp_snd, IH. reflexivity. Qed.

Lemma insertp_perm x l : Permutation (insertp x l) (x :: l).
Proof.
  induction l as [|y t IH]; [reflexivity|]. cbn [insertp]. destruct (lep x y); [reflexivity|].
  eapply Permutation_trans; [apply perm_skip, IH|apply perm_swap].
Qed.
Lemma isortp_perm l : Permutation (isortp l) l.
Proof. induction l as [|x t IH]; [reflexivity|]. cbn [isortp fold_right]. fold (isortp t). eapply Permutation_trans; [apply insertp_perm|apply perm_skip, IH]. Qed.

Lemma insertp_sorted x l : Sorted (fun a b => lep a b = true) l -> Sorted (fun a b => lep a b = true) (insertp x l).
Proof.
  induction l as [|y t IH]; intros Hs; [repeat constructor|]. cbn [insertp]. destruct (lep x y) eqn:E.
  - constructor; [exact Hs|constructor; exact E].
  - inversion Hs as [|? ? Hst Hhd]; subst. constructor; [apply IH; exact Hst|].
    destruct t as [|z t']; cbn [insertp]; [constructor; apply cmp_total; exact E|].
    destruct (lep x z); constructor; [apply cmp_total; exact E|]. inversion Hhd; assumption.
Qed.
Lemma isortp_sorted l : Sorted (fun a b => lep a b = true) (isortp l).
Proof. induction l as [|x t IH]; [constructor|]. cbn [isortp fold_right]. fold (isortp t). apply insertp_sorted, IH. Qed.

(* ------------------------------------------------------------------------------------------ cc_list_sort_in_place *)
(** The list ends up as the stable sort of what it was: sorted, a permutation, elements that compare equal keep
    their relative order (it IS the stable insertion sort of the old sequence), and the list is well formed. *)
Theorem sort_in_place_spec s l :
  lrep s l ->
  exists s', cl_sort_in_place cmp s = Ok s' /\ lrep s' (isortp l) /\ cl_abs s' = isort cmp (cl_abs s) /\ same_hdr s s'.
Proof.
  intros R. unfold cl_sort_in_place.
  pose proof (split_spec (fuel_of s) s [] l []) as H. cbn [app] in H. rewrite !app_nil_r in H.
  destruct (H ltac:(unfold fuel_of; rewrite (rep_size _ _ R), lenN_length; lia) (rep_nodup _ _ R) (rep_nz _ _ R) (rep_seg _ _ R))
    as (s' & E & Hs' & Hd & Hsz & Hh & Hht & Hsmall).
  rewrite (rep_head _ _ R), (rep_size _ _ R). rewrite E. cbn [bind]. exists s'. split; [reflexivity|].
  assert (Em : msort (fuel_of s) l = isortp l).
  { apply msort_isort. unfold fuel_of. rewrite (rep_size _ _ R), lenN_length. lia. }
  rewrite Em in *.
  assert (R' : lrep s' (isortp l)).
  { destruct (N.lt_ge_cases (lenN l) 2) as [Hlt|Hge].
    - rewrite (Hsmall Hlt). replace (isortp l) with l; [exact R|].
      destruct l as [|a [|b t]]; [reflexivity|reflexivity|]. rewrite !lenN_cons in Hlt. lia.
    - destruct (Hht Hge) as [Hhd Htl]. constructor.
      + eapply Permutation_NoDup; [apply Permutation_sym, Permutation_map, isortp_perm|apply R].
      + intros H0. apply (rep_nz _ _ R). eapply Permutation_in; [apply Permutation_map, isortp_perm|exact H0].
      + exact Hs'.
      + exact Hhd.
      + exact Htl.
      + rewrite Hsz, (rep_size _ _ R). unfold lenN. rewrite (Permutation_length (isortp_perm l)). reflexivity.
      + intros y Hy. apply Hd in Hy. apply (rep_dom _ _ R) in Hy. eapply Permutation_in; [apply Permutation_sym, Permutation_map, isortp_perm|exact Hy].
      + destruct Hh as [Hh1 _]. rewrite Hh1. apply R. }
  split; [exact R'|]. split; [|exact Hh]. rewrite (lrep_abs _ _ R'), (lrep_abs _ _ R). apply isortp_snd.
Qed.

(** Sorted and a permutation, at the level of the abstraction. *)
Corollary sort_in_place_sorted_perm s l :
  lrep s l ->
  exists s', cl_sort_in_place cmp s = Ok s' /\ lwf s' /\
             Sorted (fun a b => le_cmp (cmp a b) = true) (cl_abs s') /\ Permutation (cl_abs s') (cl_abs s).
Proof.
  intros R. destruct (sort_in_place_spec s l R) as (s' & E & R' & Ha & _). exists s'. split; [exact E|].
  split; [apply lwf_iff; eauto|]. rewrite (lrep_abs _ _ R'), (lrep_abs _ _ R). split.
  - pose proof (isortp_sorted l) as Hs. clear - Hs. induction Hs as [|a t Hst IH Hhd]; [constructor|]. cbn [map]. constructor; [exact IH|].
    destruct Hhd; cbn [map]; constructor. assumption.
  - apply Permutation_map, isortp_perm.
Qed.
End SortInPlace.
