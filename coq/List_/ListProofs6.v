(** Doubly linked list: destroy (C06), derived containers (C15/C14), failure atomicity of the copies (C08). *)
From Coq Require Import Permutation.
From CC Require Import Base.Prelude Base.ListMem Base.Alloc Base.AllocProofs.
From CC Require Import Generated.Status Generated.Guards List_.ListModel List_.ListHeap List_.ListProofs1 List_.ListProofs2
  List_.ListProofs3 List_.ListProofs4.
Local Open Scope N_scope.

(* ------------------------------------------------------------------------------------------ destroy *)
(** remove_all_cb: every node released, the callback sees every element once, in list order. *)
Lemma remove_all_cb_spec cb s l a F :
  lrep s l -> lown a s l F -> l <> [] ->
  exists s' a', cl_remove_all_cb cb s a = Ok (CC_OK, s', a', if cb then map snd l else []) /\
                lrep s' [] /\ lown a' s' [] F /\ same_hdr s s' /\ aframe a a' /\ plan a' = plan a.
Proof.
  intros R Hown Hl. unfold cl_remove_all_cb, unlinkn_all.
  replace (l_size s =? 0) with false by (symmetry; apply N.eqb_neq; rewrite (rep_size _ _ R); destruct l; [congruence|rewrite lenN_cons; lia]).
  destruct (unlink_all_loop_spec cb l (fuel_of s) s a F [] R Hown (fuel_of_gt _ _ R)) as (s1 & a1 & E & R1 & Hown1 & Hh & Hf & Hp).
  rewrite E. cbn [bind app]. exists (upd s1 (l_size s1) 0 0 (l_heap s1)), a1. split; [reflexivity|].
  split; [constructor; cbn; try apply R1; reflexivity|]. split; [exact Hown1|]. split; [exact Hh|]. auto.
Qed.
Lemma remove_all_cb_empty cb s a : lrep s [] -> cl_remove_all_cb cb s a = Ok (CC_ERR_VALUE_NOT_FOUND, s, a, []).
Proof. intros R. unfold cl_remove_all_cb, unlinkn_all. rewrite (rep_size _ _ R). reflexivity. Qed.

(** destroy: afterwards the ledger holds none of this list's blocks (each was released exactly once: a second
    release of the same id would be a [BadFree] fault). *)
Lemma destroy_spec s l a F :
  lrep s l -> lown a s l F ->
  exists a', cl_destroy s a = Ok a' /\ Permutation (live a') F /\ lok a' /\ aframe a a' /\ plan a' = plan a.
Proof.
  intros R Hown. unfold cl_destroy.
  assert (Hrel : forall s1 a1, lrep s1 [] -> lown a1 s1 [] F -> same_hdr s s1 -> aframe a a1 -> plan a1 = plan a ->
            exists a', release (l_mem s1) (l_hdr s1) a1 = Ok a' /\ Permutation (live a') F /\ lok a' /\ aframe a a' /\ plan a' = plan a).
  { intros s1 a1 R1 [Hk1 Ho1] Hh Hf Hp. unfold owns, blocks in Ho1. cbn [ids map app] in Ho1.
    destruct (release_perm _ _ _ _ _ Ho1 Hk1) as (a' & Er & HP & Hk' & Hf' & _ & Hp').
    exists a'. split; [exact Er|]. split; [exact HP|]. split; [exact Hk'|]. split; [eapply aframe_trans; eassumption|congruence]. }
  destruct l as [|p t].
  - rewrite (rep_size _ _ R). cbn [lenN length N.of_nat N.ltb N.compare bind].
    apply Hrel; auto using aframe_refl.
  - rewrite (rep_size _ _ R), lenN_cons. replace (0 <? lenN t + 1) with true by lia.
    destruct (remove_all_cb_spec false s (p :: t) a F R Hown ltac:(discriminate)) as (s1 & a1 & E & R1 & Hown1 & Hh & Hf & Hp).
    unfold cl_remove_all. rewrite E. cbn [bind]. apply Hrel; assumption.
Qed.

Lemma destroy_cb_spec s l a F :
  lrep s l -> lown a s l F ->
  exists a', cl_destroy_cb s a = Ok (a', map snd l) /\ Permutation (live a') F /\ lok a' /\ aframe a a'.
Proof.
  intros R [Hk Ho]. unfold cl_destroy_cb. destruct l as [|p t].
  - rewrite (remove_all_cb_empty _ _ _ R). cbn [bind]. unfold owns, blocks in Ho. cbn [ids map app] in Ho.
    destruct (release_perm _ _ _ _ _ Ho Hk) as (a' & Er & HP & Hk' & Hf' & _). rewrite Er. cbn [bind map]. eauto.
  - destruct (remove_all_cb_spec true s (p :: t) a F R (conj Hk Ho) ltac:(discriminate)) as (s1 & a1 & E & R1 & [Hk1 Ho1] & Hh & Hf & Hp).
    rewrite E. cbn [bind]. unfold owns, blocks in Ho1. cbn [ids map app] in Ho1.
    destruct (release_perm _ _ _ _ _ Ho1 Hk1) as (a' & Er & HP & Hk' & Hf' & _). rewrite Er. cbn [bind].
    exists a'. split; [reflexivity|]. split; [exact HP|]. split; [exact Hk'|eapply aframe_trans; eassumption].
Qed.

(* ------------------------------------------------------------------------------------------ derived containers *)
(** Outcome of building a derived list [cp] on top of the ledger frame [F]: either the list with the wanted contents,
    well formed, owning exactly its own blocks (of its own allocator family); or CC_ERR_ALLOC with every block of
    the partial copy released again. The source is an argument that is not returned: it cannot change. *)
Definition derived_ok (want : list N) (mem : tag) (a : alloc_st) (F : list block)
  (r : stat * option clist * alloc_st) : Prop :=
  let '(st, o, a') := r in
  aframe a a' /\ lok a' /\
  match o with
  | Some cp => st = CC_OK /\ l_mem cp = mem /\ exists lc, lrep cp lc /\ map snd lc = want /\ owns a' cp lc F
  | None => st = CC_ERR_ALLOC /\ Permutation (live a') F /\ (plan a <> [] \/ limit a < HDR_BYTES)
  end.

Lemma copy_loop_w_spec f keep src rest : forall fuel p cp lc a F a0,
  dseg src p rest 0 -> ~ In 0 (ids rest) -> (length rest < fuel)%nat ->
  lrep cp lc -> lown a cp lc F -> aframe a0 a ->
  exists r, copy_loop_w fuel f keep src (first_id rest 0) cp a = Ok r /\
            derived_ok (map snd lc ++ map f (filter keep (map snd rest))) (l_mem cp) a0 F r.
Proof.
  induction rest as [|[x d] t IH]; intros fuel p cp lc a F a0 Hs Hnz Hfu R Hown Hf0.
  - cbn [first_id]. destruct fuel; cbn [copy_loop_w N.eqb]; eexists; (split; [reflexivity|]); cbn [derived_ok map filter];
      (split; [assumption|]); (split; [apply Hown|]); (split; [reflexivity|]); (split; [reflexivity|]);
      exists lc; rewrite app_nil_r; (split; [assumption|]); (split; [reflexivity|apply Hown]).
  - destruct fuel as [|fu]; [cbn in Hfu; lia|]. cbn [copy_loop_w first_id].
    destruct (nz_tail _ _ _ Hnz) as [Hx0 Hnz']. replace (x =? 0) with false by lia.
    destruct Hs as [Hx Ht]. rewrite (load_ok _ _ _ Hx0 Hx). cbn [bind n_data n_next map filter snd].
    destruct (keep d) eqn:Ek; cbn [map].
    + pose proof (add_last_spec cp lc a F (f d) R Hown) as Hadd. unfold cl_add.
      destruct (alloc (l_mem cp) NODE_BYTES a) as [[id|] a1] eqn:Ea.
      * destruct Hadd as (cp' & E & R' & Hown' & Hh & Hf). rewrite E. cbn [bind is_ok].
        destruct (IH fu x cp' (lc ++ [(id, f d)]) a1 F a0 Ht Hnz' ltac:(cbn in Hfu; lia) R' Hown' (aframe_trans _ _ _ Hf0 Hf)) as (r & Er & Hr).
        rewrite Er. exists r. split; [reflexivity|]. rewrite map_app in Hr. cbn [map snd] in Hr. rewrite <- app_assoc in Hr. cbn [app] in Hr.
        destruct Hh as [_ Hm]. rewrite Hm in Hr. exact Hr.
      * destruct Hadd as (E & Hown' & Hl & Hf & Hw). rewrite E. cbn [bind is_ok].
        destruct (destroy_spec cp lc a1 F R Hown') as (a2 & Ed & HP & Hk2 & Hf2 & _). rewrite Ed. cbn [bind].
        eexists. split; [reflexivity|]. cbn [derived_ok]. split; [eapply aframe_trans; [exact Hf0|eapply aframe_trans; eassumption]|].
        split; [exact Hk2|]. split; [reflexivity|]. split; [exact HP|].
        destruct Hw as [Hw|Hw]; [left; intros Hp; apply Hw, (af_plan _ _ Hf0), Hp|right; rewrite (af_limit _ _ Hf0) in Hw; unfold NODE_BYTES, HDR_BYTES in *; lia].
    + apply (IH fu x cp lc a F a0 Ht Hnz' ltac:(cbn in Hfu; lia) R Hown Hf0).
Qed.

Lemma new_list_spec mem a :
  lok a ->
  match cl_new mem a with
  | (st, Some cp, a1) => st = CC_OK /\ l_mem cp = mem /\ lrep cp [] /\ lown a1 cp [] (live a) /\ aframe a a1
  | (st, None, a1) => st = CC_ERR_ALLOC /\ live a1 = live a /\ lok a1 /\ aframe a a1 /\ (plan a <> [] \/ limit a < HDR_BYTES)
  end.
Proof.
  intros Hk. unfold cl_new. destruct (alloc mem HDR_BYTES a) as [[h|] a1] eqn:Ea.
  - destruct (alloc_some _ _ _ _ _ Ea Hk) as (_ & Hl & Hk1 & Hf & Hh0 & _).
    split; [reflexivity|]. split; [reflexivity|]. split.
    + constructor; cbn; auto; try constructor; try (intros y Hy; congruence).
    + split; [|exact Hf]. split; [exact Hk1|]. unfold owns, blocks, hblk. cbn. rewrite Hl. reflexivity.
  - destruct (alloc_none _ _ _ _ Ea Hk) as (Hl & Hk1 & Hf & Hw). auto.
Qed.

(** copy_shallow / copy_deep / filter (the non-empty case): contents [map f (filter keep abs)]. *)
Lemma copy_with_spec f keep s l a :
  lrep s l -> lok a ->
  exists r, cl_copy_with f keep s a = Ok r /\ derived_ok (map f (filter keep (map snd l))) (l_mem s) a (live a) r.
Proof.
  intros R Hk. unfold cl_copy_with. pose proof (new_list_spec (l_mem s) a Hk) as Hn.
  destruct (cl_new (l_mem s) a) as [[st [cp|]] a1].
  - destruct Hn as (-> & Hm & Rc & Hown & Hf). rewrite (rep_head _ _ R).
    destruct (copy_loop_w_spec f keep (l_heap s) l (fuel_of s) 0 cp [] a1 (live a) a (rep_seg _ _ R) (rep_nz _ _ R) (fuel_of_gt _ _ R) Rc Hown Hf)
      as (r & Er & Hr). rewrite Er. exists r. split; [reflexivity|]. rewrite Hm in Hr. exact Hr.
  - destruct Hn as (-> & Hl & Hk1 & Hf & Hw). eexists. split; [reflexivity|]. cbn [derived_ok].
    split; [exact Hf|]. split; [exact Hk1|]. split; [reflexivity|]. split; [rewrite Hl; reflexivity|exact Hw].
Qed.

Lemma filter_empty_spec pred s a : lrep s [] -> cl_filter pred s a = Ok (CC_ERR_OUT_OF_RANGE, None, a).
Proof. intros R. unfold cl_filter. rewrite (rep_size _ _ R). reflexivity. Qed.
Lemma filter_spec pred s l a :
  lrep s l -> lok a -> l <> [] ->
  exists r, cl_filter pred s a = Ok r /\ derived_ok (filter pred (map snd l)) (l_mem s) a (live a) r.
Proof.
  intros R Hk Hl. unfold cl_filter.
  replace (l_size s =? 0) with false by (symmetry; apply N.eqb_neq; rewrite (rep_size _ _ R); destruct l; [congruence|rewrite lenN_cons; lia]).
  destruct (copy_with_spec (fun x => x) pred s l a R Hk) as (r & E & Hr). rewrite map_id in Hr. eauto.
Qed.

(** sublist(b, e): the elements b..e inclusive. *)
Lemma copy_loop_n_spec src mid : forall p rest cp lc a F a0,
  dseg src p (mid ++ rest) 0 -> ~ In 0 (ids mid) -> lrep cp lc -> lown a cp lc F -> aframe a0 a ->
  exists r, copy_loop_n (length mid) src (first_id (mid ++ rest) 0) cp a = Ok r /\
            derived_ok (map snd lc ++ map snd mid) (l_mem cp) a0 F r.
Proof.
  induction mid as [|[x d] t IH]; intros p rest cp lc a F a0 Hs Hnz R Hown Hf0.
  - cbn [length copy_loop_n]. eexists; split; [reflexivity|]. cbn [derived_ok map]. split; [assumption|]. split; [apply Hown|].
    split; [reflexivity|]. split; [reflexivity|]. exists lc. rewrite app_nil_r. split; [assumption|]. split; [reflexivity|apply Hown].
  - cbn [length copy_loop_n app first_id]. destruct (nz_tail _ _ _ Hnz) as [Hx0 Hnz'].
    cbn [app dseg] in Hs. destruct Hs as [Hx Ht]. rewrite (load_ok _ _ _ Hx0 Hx). cbn [bind n_data n_next map snd].
    pose proof (add_last_spec cp lc a F d R Hown) as Hadd. unfold cl_add.
    destruct (alloc (l_mem cp) NODE_BYTES a) as [[id|] a1] eqn:Ea.
    + destruct Hadd as (cp' & E & R' & Hown' & Hh & Hf). rewrite E. cbn [bind is_ok].
      destruct (IH x rest cp' (lc ++ [(id, d)]) a1 F a0 Ht Hnz' R' Hown' (aframe_trans _ _ _ Hf0 Hf)) as (r & Er & Hr).
      rewrite Er. exists r. split; [reflexivity|]. rewrite map_app in Hr. cbn [map snd] in Hr. rewrite <- app_assoc in Hr. cbn [app] in Hr.
      destruct Hh as [_ Hm]. rewrite Hm in Hr. exact Hr.
    + destruct Hadd as (E & Hown' & Hl & Hf & Hw). rewrite E. cbn [bind is_ok].
      destruct (destroy_spec cp lc a1 F R Hown') as (a2 & Ed & HP & Hk2 & Hf2 & _). rewrite Ed. cbn [bind].
      eexists. split; [reflexivity|]. cbn [derived_ok]. split; [eapply aframe_trans; [exact Hf0|eapply aframe_trans; eassumption]|].
      split; [exact Hk2|]. split; [reflexivity|]. split; [exact HP|].
      destruct Hw as [Hw|Hw]; [left; intros Hp; apply Hw, (af_plan _ _ Hf0), Hp|right; rewrite (af_limit _ _ Hf0) in Hw; unfold NODE_BYTES, HDR_BYTES in *; lia].
Qed.

Lemma sublist_range_guard b e size : g_list_sublist_range b e size = true <-> (e < b \/ size <= e).
Proof. unfold g_list_sublist_range. lia. Qed.

Lemma sublist_out s l b e a : lrep s l -> (e < b \/ lenN l <= e) -> cl_sublist s b e a = Ok (CC_ERR_INVALID_RANGE, None, a).
Proof.
  intros R H. unfold cl_sublist. replace (g_list_sublist_range b e (l_size s)) with true; [reflexivity|].
  symmetry. apply sublist_range_guard. rewrite (rep_size _ _ R). exact H.
Qed.
Lemma sublist_spec s l1 mid l3 a :
  lrep s (l1 ++ mid ++ l3) -> lok a -> mid <> [] ->
  exists r, cl_sublist s (lenN l1) (lenN l1 + lenN mid - 1) a = Ok r /\ derived_ok (map snd mid) (l_mem s) a (live a) r.
Proof.
  intros R Hk Hmid. unfold cl_sublist.
  assert (Hlm : 0 < lenN mid) by (destruct mid; [congruence|rewrite lenN_cons; lia]).
  replace (g_list_sublist_range (lenN l1) (lenN l1 + lenN mid - 1) (l_size s)) with false.
  2:{ symmetry. apply not_true_iff_false. rewrite sublist_range_guard, (rep_size _ _ R), !lenN_app. lia. }
  pose proof (new_list_spec (l_mem s) a Hk) as Hn.
  destruct (cl_new (l_mem s) a) as [[st [sub|]] a1].
  - destruct Hn as (-> & Hm & Rc & Hown & Hf).
    destruct mid as [|[x d] mt]; [congruence|].
    rewrite (get_node_at_in s l1 x d (mt ++ l3)) by exact R. cbn [bind is_ok negb].
    replace (N.to_nat (lenN l1 + lenN ((x, d) :: mt) - 1 - lenN l1 + 1)) with (length ((x, d) :: mt)) by (unfold lenN; cbn [length]; lia).
    pose proof (rep_seg _ _ R) as Hs. apply dseg_app in Hs. destruct Hs as [_ Hs].
    assert (Hnzm : ~ In 0 (ids ((x, d) :: mt))).
    { intros H0. apply (rep_nz _ _ R). rewrite !ids_app. apply in_or_app. right. apply in_or_app. left. exact H0. }
    destruct (copy_loop_n_spec (l_heap s) ((x, d) :: mt) _ l3 sub [] a1 (live a) a Hs Hnzm Rc Hown Hf) as (r & Er & Hr).
    cbn [app first_id] in Er. rewrite Er. exists r. split; [reflexivity|]. rewrite Hm in Hr. exact Hr.
  - destruct Hn as (-> & Hl & Hk1 & Hf & Hw). eexists. split; [reflexivity|]. cbn [derived_ok].
    split; [exact Hf|]. split; [exact Hk1|]. split; [reflexivity|]. split; [rewrite Hl; reflexivity|exact Hw].
Qed.
