(** Doubly linked list: zip-iterator replace - both yielded elements are overwritten in place, nothing else moves. *)
From CC Require Import Base.Prelude Base.ListMem Base.Alloc Base.AllocProofs.
From CC Require Import Generated.Status Generated.Guards List_.ListModel List_.ListHeap List_.ListProofs1 List_.ListProofs2
  List_.ListProofs3 List_.ListProofs7.
Local Open Scope N_scope.

(** What [iter_replace] computes, read back from its specification: the node's old data and the new heap. *)
Lemma iter_replace_parts s done x d rest v :
  lrep s (done ++ (x, d) :: rest) ->
  exists n h, load (l_heap s) x = Ok n /\ n_data n = d /\ set_data (l_heap s) x v = Ok h /\
              lrep (upd s (l_size s) (l_head s) (l_tail s) h) (done ++ (x, v) :: rest) /\
              same_hdr s (upd s (l_size s) (l_head s) (l_tail s) h).
Proof.
  intros R.
  destruct (iter_replace_spec s {| it_index := 0; it_last := x; it_next := 0 |} done x d rest v R eq_refl) as (s' & E & R' & Hh).
  unfold iter_replace in E. cbn [it_last] in E.
  assert (Hx0 : x <> 0) by (intros ->; apply (rep_nz _ _ R); rewrite ids_app; apply in_or_app; right; left; reflexivity).
  replace (x =? 0) with false in E by lia.
  destruct (load (l_heap s) x) as [n|]; [|discriminate]. cbn [bind] in E.
  destruct (set_data (l_heap s) x v) as [h|]; [|discriminate]. cbn [bind] in E.
  inversion E; subst. exists n, h. auto.
Qed.

(** zip replace directly after a yield of the pair at nodes [x1], [x2]: the old pair is returned, exactly those two
    elements change, both lists keep their shape (same nodes, same order, same size). *)
Theorem zip_replace_spec s1 s2 z done1 x1 d1 rest1 done2 x2 d2 rest2 e1 e2 :
  lrep s1 (done1 ++ (x1, d1) :: rest1) -> lrep s2 (done2 ++ (x2, d2) :: rest2) ->
  z1_last z = x1 -> z2_last z = x2 ->
  exists s1' s2', zip_replace s1 s2 z e1 e2 = Ok (CC_OK, d1, d2, s1', s2') /\
    lrep s1' (done1 ++ (x1, e1) :: rest1) /\ lrep s2' (done2 ++ (x2, e2) :: rest2) /\
    same_hdr s1 s1' /\ same_hdr s2 s2'.
Proof.
  intros R1 R2 H1 H2. unfold zip_replace. rewrite H1, H2.
  assert (Hx1 : x1 <> 0) by (intros ->; apply (rep_nz _ _ R1); rewrite ids_app; apply in_or_app; right; left; reflexivity).
  assert (Hx2 : x2 <> 0) by (intros ->; apply (rep_nz _ _ R2); rewrite ids_app; apply in_or_app; right; left; reflexivity).
  replace (x1 =? 0) with false by lia. replace (x2 =? 0) with false by lia. cbn [orb].
  destruct (iter_replace_parts s1 done1 x1 d1 rest1 e1 R1) as (n1 & h1 & L1 & D1 & S1 & R1' & Hh1).
  destruct (iter_replace_parts s2 done2 x2 d2 rest2 e2 R2) as (n2 & h2 & L2 & D2 & S2 & R2' & Hh2).
  rewrite L1, L2, S1, S2. cbn [bind]. rewrite D1, D2.
  do 2 eexists. split; [reflexivity|]. auto.
Qed.

(** before any yield, and after a zip remove, there is no pair to act on: refused, nothing changes *)
Lemma zip_replace_none s1 s2 z e1 e2 : z1_last z = 0 \/ z2_last z = 0 ->
  zip_replace s1 s2 z e1 e2 = Ok (CC_ERR_VALUE_NOT_FOUND, 0, 0, s1, s2).
Proof. intros [H|H]; unfold zip_replace; rewrite H; cbn [N.eqb orb]; [reflexivity|rewrite orb_true_r; reflexivity]. Qed.
Lemma zip_remove_none s1 s2 z a : z1_last z = 0 \/ z2_last z = 0 ->
  zip_remove s1 s2 z a = Ok (CC_ERR_VALUE_NOT_FOUND, 0, 0, s1, s2, z, a).
Proof. intros [H|H]; unfold zip_remove; rewrite H; cbn [N.eqb orb]; [reflexivity|rewrite orb_true_r; reflexivity]. Qed.

(** zip remove directly after a yield of the pair at nodes [x1], [x2]: exactly those two nodes leave their lists
    (each released once, through its own list's allocator family), every other node and the rest of the ledger
    ([F]) stay, the old pair is returned, and the iterator has no current pair any more - so a second remove or a
    replace without a new next is refused ([zip_remove_none], [zip_replace_none]) - while its position in the
    traversal (the two next pointers) is unchanged. *)
From Coq Require Import Permutation.
Theorem zip_remove_spec s1 s2 z done1 x1 d1 rest1 done2 x2 d2 rest2 a F :
  lrep s1 (done1 ++ (x1, d1) :: rest1) -> lrep s2 (done2 ++ (x2, d2) :: rest2) -> lok a ->
  Permutation (live a) (blocks s1 (done1 ++ (x1, d1) :: rest1) ++ blocks s2 (done2 ++ (x2, d2) :: rest2) ++ F) ->
  z1_last z = x1 -> z2_last z = x2 ->
  exists s1' s2' z' a', zip_remove s1 s2 z a = Ok (CC_OK, d1, d2, s1', s2', z', a') /\
    lrep s1' (done1 ++ rest1) /\ lrep s2' (done2 ++ rest2) /\ lok a' /\
    Permutation (live a') (blocks s1' (done1 ++ rest1) ++ blocks s2' (done2 ++ rest2) ++ F) /\
    same_hdr s1 s1' /\ same_hdr s2 s2' /\ plan a' = plan a /\
    z1_last z' = 0 /\ z2_last z' = 0 /\ z1_next z' = z1_next z /\ z2_next z' = z2_next z /\ z_index z' = wsub (z_index z) 1.
Proof.
  intros R1 R2 Hk Hp H1 H2. unfold zip_remove. rewrite H1, H2.
  assert (Hx1 : x1 <> 0) by (intros ->; apply (rep_nz _ _ R1); rewrite ids_app; apply in_or_app; right; left; reflexivity).
  assert (Hx2 : x2 <> 0) by (intros ->; apply (rep_nz _ _ R2); rewrite ids_app; apply in_or_app; right; left; reflexivity).
  replace (x1 =? 0) with false by lia. replace (x2 =? 0) with false by lia. cbn [orb].
  destruct (unlinkn_spec s1 done1 x1 d1 rest1 a _ R1 (conj Hk Hp)) as (s1' & a1 & E1 & R1' & [Hk1 Ho1] & Hh1 & Hf1 & Hpl1).
  rewrite E1. cbn [bind].
  assert (Ho2 : owns a1 s2 (done2 ++ (x2, d2) :: rest2) (blocks s1' (done1 ++ rest1) ++ F)).
  { unfold owns in *. eapply Permutation_trans; [exact Ho1|]. apply Permutation_app_swap_app. }
  destruct (unlinkn_spec s2 done2 x2 d2 rest2 a1 _ R2 (conj Hk1 Ho2)) as (s2' & a2 & E2 & R2' & [Hk2 Ho2'] & Hh2 & Hf2 & Hpl2).
  rewrite E2. cbn [bind].
  do 4 eexists. split; [reflexivity|]. cbn [z1_last z2_last z1_next z2_next z_index].
  split; [exact R1'|]. split; [exact R2'|]. split; [exact Hk2|]. split.
  { unfold owns in Ho2'. eapply Permutation_trans; [exact Ho2'|]. apply Permutation_app_swap_app. }
  split; [exact Hh1|]. split; [exact Hh2|]. split; [congruence|]. auto 10.
Qed.

(** * zip add *)
(** What [iter_add] computes once its node has been granted, read back from its specification. *)
Lemma iter_add_parts s done x d added rest a F v id a1 :
  lrep s (done ++ (x, d) :: added ++ rest) -> lown a s (done ++ (x, d) :: added ++ rest) F ->
  alloc (l_mem s) NODE_BYTES a = (Some id, a1) ->
  exists h nn, link_after (hset (l_heap s) id (fresh_node v)) x id = Ok h /\ load h id = Ok nn /\
    let s' := upd s (l_size s + 1) (l_head s) (if n_next nn =? 0 then id else l_tail s) h in
    lrep s' (done ++ (x, d) :: (id, v) :: added ++ rest) /\ lown a1 s' (done ++ (x, d) :: (id, v) :: added ++ rest) F /\
    same_hdr s s'.
Proof.
  intros R Ho Ea.
  pose (it := {| it_index := lenN (done ++ (x, d) :: added); it_last := x; it_next := first_id rest 0 |}).
  assert (Hp : it_pos it (done ++ (x, d) :: added) rest) by (constructor; reflexivity).
  pose proof (iter_add_spec s it done x d added rest a F v R Ho Hp eq_refl) as S. rewrite Ea in S.
  destruct S as (s' & it' & E & R' & Ho' & _ & _ & Hh & _).
  unfold iter_add in E. rewrite Ea in E. cbn [it_last it] in E.
  destruct (link_after (hset (l_heap s) id (fresh_node v)) x id) as [h|] eqn:EL; [|discriminate]. cbn [bind] in E.
  destruct (load h id) as [nn|] eqn:EN; [|discriminate]. cbn [bind] in E.
  inversion E; subst. exists h, nn. cbv zeta. auto.
Qed.

(** zip add after a yield of the pair at nodes [x1], [x2] ([added1], [added2]: what was already added through the
    iterator since that yield): each list receives its element in a fresh node of its own allocator family directly
    behind the yielded node, the index steps over the new pair while the traversal position (next pointers) and the
    yielded pair stay; if either node is refused nothing at all has changed - lists, iterator, live blocks. *)
Theorem zip_add_spec s1 s2 z done1 x1 d1 added1 rest1 done2 x2 d2 added2 rest2 a F e1 e2 :
  lrep s1 (done1 ++ (x1, d1) :: added1 ++ rest1) -> lrep s2 (done2 ++ (x2, d2) :: added2 ++ rest2) -> lok a ->
  Permutation (live a) (blocks s1 (done1 ++ (x1, d1) :: added1 ++ rest1) ++ blocks s2 (done2 ++ (x2, d2) :: added2 ++ rest2) ++ F) ->
  z1_last z = x1 -> z2_last z = x2 ->
  exists st s1' s2' z' a', zip_add s1 s2 z e1 e2 a = Ok (st, s1', s2', z', a') /\
    ((st = CC_OK /\ exists id1 id2,
        lrep s1' (done1 ++ (x1, d1) :: (id1, e1) :: added1 ++ rest1) /\
        lrep s2' (done2 ++ (x2, d2) :: (id2, e2) :: added2 ++ rest2) /\ lok a' /\
        Permutation (live a') (blocks s1' (done1 ++ (x1, d1) :: (id1, e1) :: added1 ++ rest1) ++
                               blocks s2' (done2 ++ (x2, d2) :: (id2, e2) :: added2 ++ rest2) ++ F) /\
        same_hdr s1 s1' /\ same_hdr s2 s2' /\
        z_index z' = z_index z + 1 /\ z1_last z' = x1 /\ z2_last z' = x2 /\ z1_next z' = z1_next z /\ z2_next z' = z2_next z) \/
     (st = CC_ERR_ALLOC /\ s1' = s1 /\ s2' = s2 /\ z' = z /\ live a' = live a)).
Proof.
  intros R1 R2 Hk Hp H1 H2. unfold zip_add. rewrite H1, H2.
  destruct (alloc (l_mem s1) NODE_BYTES a) as [[id1|] a1] eqn:E1.
  2:{ destruct (alloc_none _ _ _ _ E1 Hk) as (Hl1 & _). do 5 eexists. split; [reflexivity|]. right. auto. }
  destruct (alloc_some _ _ _ _ _ E1 Hk) as (Hid1 & Hl1 & Hk1 & _).
  destruct (alloc (l_mem s2) NODE_BYTES a1) as [[id2|] a2] eqn:E2.
  2:{ destruct (alloc_none _ _ _ _ E2 Hk1) as (Hl2 & _). rewrite Hl1 in Hl2.
      destruct (release_head _ _ _ _ _ Hl2) as (a3 & -> & Hl3 & _). cbn [bind].
      do 5 eexists. split; [reflexivity|]. right. auto. }
  destruct (iter_add_parts s1 done1 x1 d1 added1 rest1 a _ e1 id1 a1 R1 (conj Hk Hp) E1) as (h1 & nn1 & L1 & N1 & R1' & [Hk1' Ho1] & Hh1).
  assert (Ho2 : owns a1 s2 (done2 ++ (x2, d2) :: added2 ++ rest2)
                  (blocks (upd s1 (l_size s1 + 1) (l_head s1) (if n_next nn1 =? 0 then id1 else l_tail s1) h1)
                          (done1 ++ (x1, d1) :: (id1, e1) :: added1 ++ rest1) ++ F)).
  { unfold owns in *. eapply Permutation_trans; [exact Ho1|]. apply Permutation_app_swap_app. }
  destruct (iter_add_parts s2 done2 x2 d2 added2 rest2 a1 _ e2 id2 a2 R2 (conj Hk1 Ho2) E2) as (h2 & nn2 & L2 & N2 & R2' & [Hk2' Ho2'] & Hh2).
  rewrite L1. cbn [bind]. rewrite L2. cbn [bind]. rewrite N1. cbn [bind]. rewrite N2. cbn [bind].
  do 5 eexists. split; [reflexivity|]. left. split; [reflexivity|]. exists id1, id2.
  cbn [z_index z1_last z2_last z1_next z2_next].
  split; [exact R1'|]. split; [exact R2'|]. split; [exact Hk2'|]. split.
  { unfold owns in Ho2'. eapply Permutation_trans; [exact Ho2'|]. apply Permutation_app_swap_app. }
  split; [exact Hh1|]. split; [exact Hh2|]. auto 10.
Qed.
