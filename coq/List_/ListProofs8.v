(** Doubly linked list: cc_list_sort (C18, first half), inertness of rejected operations (C16) and
    atomicity of refused allocations (C08) for the operations of the state machine. *)
From Coq Require Import Permutation Sorted.
From CC Require Import Base.Prelude Base.ListMem Base.Alloc Base.AllocProofs.
From CC Require Import Generated.Status Generated.Guards List_.ListModel List_.ListHeap List_.ListProofs1 List_.ListProofs2
  List_.ListProofs3 List_.ListProofs4 List_.ListProofs5.
Local Open Scope N_scope.

(* ------------------------------------------------------------------------------------------ write-back loop of sort *)
Lemma ids_combine (l : list (N * N)) (vs : list N) : length vs = length l -> ids (combine (ids l) vs) = ids l.
Proof.
  revert vs; induction l as [|[x d] t IH]; intros [|v vs] H; cbn in *; try reflexivity; try discriminate.
  f_equal. apply IH. lia.
Qed.
Lemma snd_combine (l : list (N * N)) (vs : list N) : length vs = length l -> map snd (combine (ids l) vs) = vs.
Proof.
  revert vs; induction l as [|[x d] t IH]; intros [|v vs] H; cbn in *; try reflexivity; try discriminate.
  f_equal. apply IH. lia.
Qed.
Lemma first_id_combine (l : list (N * N)) vs n : length vs = length l -> first_id (combine (ids l) vs) n = first_id l n.
Proof. destruct l as [|[x d] t]; destruct vs; cbn; intros; try reflexivity; discriminate. Qed.
Lemma last_id_combine (l : list (N * N)) vs n : length vs = length l -> last_id (combine (ids l) vs) n = last_id l n.
Proof.
  revert vs n; induction l as [|[x d] t IH]; intros [|v vs] n H; cbn in *; try reflexivity; try discriminate.
  apply IH. lia.
Qed.

Lemma write_back_spec rest : forall pre vs h p n,
  length vs = length rest -> dseg h p rest n -> NoDup (ids rest) -> ~ In 0 (ids rest) ->
  exists h', write_back (length rest) (lenN pre) (pre ++ vs) h (first_id rest n) = Ok h' /\
             dseg h' p (combine (ids rest) vs) n /\ (forall j, ~ In j (ids rest) -> hget h' j = hget h j) /\ dom_eq h h'.
Proof.
  induction rest as [|[x d] t IH]; intros pre vs h p n Hlen Hs Hnd Hnz.
  - exists h. cbn. auto using dom_eq_refl.
  - destruct vs as [|v vs]; [discriminate|]. destruct (nz_tail _ _ _ Hnz) as [Hx0 Hnz'].
    cbn [length write_back first_id ids map fst combine dseg] in Hlen, Hs, Hnd |- *.
    apply NoDup_cons_iff in Hnd. destruct Hnd as [Hxt Hnd'].
    rewrite getN_app_mid. cbn [of_opt bind]. destruct Hs as [Hx Ht].
    rewrite (load_ok _ _ _ Hx0 Hx), (set_data_ok _ _ _ _ Hx0 Hx). cbn [bind n_next n_prev n_data].
    set (h1 := hset h x _).
    assert (Ht1 : dseg h1 x t n) by (eapply dseg_ext; [|exact Ht]; intros y Hy; unfold h1; apply hget_hset_other; intros ->; contradiction).
    replace (lenN pre + 1) with (lenN (pre ++ [v])) by (rewrite lenN_app; reflexivity).
    change (pre ++ v :: vs) with (pre ++ [v] ++ vs). rewrite app_assoc.
    destruct (IH (pre ++ [v]) vs h1 x n ltac:(lia) Ht1 Hnd' Hnz') as (h' & E & Hs' & Hfr & Hd).
    rewrite E. exists h'. split; [reflexivity|]. split; [|split].
    + split; [|exact Hs']. rewrite Hfr by exact Hxt. unfold h1. rewrite hget_hset_same.
      rewrite first_id_combine by lia. reflexivity.
    + intros j Hj. rewrite Hfr by (intros Hin; apply Hj; right; exact Hin). unfold h1. apply hget_hset_other. intros ->; apply Hj; left; reflexivity.
    + eapply dom_eq_trans; [eapply dom_eq_hset; exact Hx|exact Hd].
Qed.

Section Sort.
Variable sorter : list N -> list N.
Hypothesis sorter_perm : forall l, Permutation (sorter l) l.

Lemma sort_spec s l a F :
  lrep s l -> lown a s l F -> l <> [] ->
  match alloc (l_mem s) (l_size s * 8) a with
  | (Some blk, a1) => exists s' a', cl_sort sorter s a = Ok (CC_OK, s', a') /\
        lrep s' (combine (ids l) (sorter (map snd l))) /\ cl_abs s' = sorter (map snd l) /\
        lown a' s' (combine (ids l) (sorter (map snd l))) F /\ live a' = live a /\ same_hdr s s' /\ aframe a a'
  | (None, a1) => cl_sort sorter s a = Ok (CC_ERR_ALLOC, s, a1) /\ lown a1 s l F /\ live a1 = live a /\ aframe a a1
  end.
Proof.
  intros R [Hk Ho] Hl. unfold cl_sort. rewrite (to_array_ok s l a R Hl).
  destruct (alloc (l_mem s) (l_size s * 8) a) as [[blk|] a1] eqn:Ea; cbn [bind is_ok negb].
  - destruct (alloc_some _ _ _ _ _ Ea Hk) as (_ & Hl1 & Hk1 & Hf1 & Hb0 & Hfr).
    assert (Hlen : length (sorter (map snd l)) = length l).
    { rewrite (Permutation_length (sorter_perm (map snd l))). apply map_length. }
    rewrite (rep_size _ _ R), lenN_length, (rep_head _ _ R).
    destruct (write_back_spec l [] (sorter (map snd l)) (l_heap s) 0 0 Hlen (rep_seg _ _ R) (rep_nodup _ _ R) (rep_nz _ _ R))
      as (h' & E & Hs' & Hfr' & Hd).
    cbn [app lenN length N.of_nat] in E. rewrite E. cbn [bind].
    destruct (release_split (l_mem s) blk a1 [] _ (live a) Hl1 ltac:(intros []) Hk1) as (a2 & Er & Hl2 & Hk2 & Hf2 & _).
    rewrite Er. cbn [bind app] in *.
    assert (R' : lrep (upd s (lenN l) (first_id l 0) (l_tail s) h') (combine (ids l) (sorter (map snd l)))).
    { constructor; cbn [upd l_heap l_head l_tail l_size l_hdr].
      - rewrite ids_combine by exact Hlen. apply R.
      - rewrite ids_combine by exact Hlen. apply R.
      - exact Hs'.
      - rewrite first_id_combine by exact Hlen. reflexivity.
      - rewrite last_id_combine by exact Hlen. apply R.
      - unfold lenN. rewrite combine_length. unfold ids. rewrite map_length, Hlen, Nat.min_id. reflexivity.
      - intros y Hy. rewrite ids_combine by exact Hlen. apply (rep_dom _ _ R), Hd, Hy.
      - apply R. }
    do 2 eexists. split; [reflexivity|]. split; [exact R'|]. split; [rewrite (lrep_abs _ _ R'); apply snd_combine; exact Hlen|].
    split; [|split; [exact Hl2|split; [split; reflexivity|eapply aframe_trans; eassumption]]].
    split; [exact Hk2|]. unfold owns. rewrite Hl2. eapply Permutation_trans; [exact Ho|].
    unfold blocks, hblk. cbn [upd l_hdr l_mem]. rewrite ids_combine by exact Hlen. reflexivity.
  - destruct (alloc_none _ _ _ _ Ea Hk) as (Hl1 & Hk1 & Hf1 & _).
    split; [reflexivity|]. split; [split; [assumption|unfold owns; rewrite Hl1; exact Ho]|auto].
Qed.

Lemma sort_empty s a : lrep s [] -> cl_sort sorter s a = Ok (CC_ERR_INVALID_RANGE, s, a).
Proof. intros R. unfold cl_sort, cl_to_array. rewrite (rep_size _ _ R). reflexivity. Qed.

(** With a sorter that sorts (the libc assumption T6), the list ends up sorted and is a permutation of what it was. *)
Corollary sort_sorted_perm (le : N -> N -> Prop) s l a F :
  (forall v, Sorted le (sorter v)) -> lrep s l -> lown a s l F -> l <> [] ->
  forall blk a1, alloc (l_mem s) (l_size s * 8) a = (Some blk, a1) ->
  exists s' a', cl_sort sorter s a = Ok (CC_OK, s', a') /\ Sorted le (cl_abs s') /\ Permutation (cl_abs s') (cl_abs s) /\ lwf s'.
Proof.
  intros Hsorted R Hown Hl blk a1 Ea. pose proof (sort_spec s l a F R Hown Hl) as H. rewrite Ea in H.
  destruct H as (s' & a' & E & R' & Ha & _). exists s', a'. split; [exact E|]. rewrite Ha, (lrep_abs _ _ R).
  split; [apply Hsorted|]. split; [apply sorter_perm|]. apply lwf_iff. eauto.
Qed.
End Sort.

(* ------------------------------------------------------------------------------------------ rejected operations are inert *)
Lemma alloc_none_live t n a a1 : alloc t n a = (None, a1) -> live a1 = live a.
Proof. intros E. pose proof (alloc_cases t n a) as C. rewrite E in C. tauto. Qed.

Section Frame.
Variable cmp : N -> N -> comparison.
Variable pred : N -> bool.

(** A status other than CC_OK leaves both lists exactly as they were (all fields, the whole heap) and the ledger's
    live blocks unchanged; only the allocator's request counter / plan position may have moved. *)
Definition frame_ok (w w' : world) (out : lout) : Prop :=
  match out with LOut st _ => st <> CC_OK -> wa w' = wa w /\ wb w' = wb w /\ live (wal w') = live (wal w) end.

Lemma bind_assoc {A B C} (m : res A) (f : A -> res B) (g : B -> res C) :
  bind (bind m f) g = bind m (fun x => bind (f x) g).
Proof. destruct m; reflexivity. Qed.
Lemma bind_if {A B} (c : bool) (m1 m2 : res A) (g : A -> res B) :
  bind (if c then m1 else m2) g = if c then bind m1 g else bind m2 g.
Proof. destruct c; reflexivity. Qed.

Ltac frame_step E :=
  repeat (first
    [ rewrite bind_assoc in E
    | rewrite bind_if in E
    | match type of E with
      | context [match alloc ?t ?n ?a with _ => _ end] => let Ea := fresh "Ea" in destruct (alloc t n a) as [[?id|] ?a1] eqn:Ea
      | context [if ?c then _ else _] => destruct c eqn:?
      | (do _ <- ?x; _) = _ => let r := fresh "r" in destruct x as [r|] eqn:?; cbn [bind] in E; [repeat (let q := fresh "q" in destruct r as [r q])|discriminate]
      end ]; cbn [bind] in E).

Lemma bulk_frame s1 A B l2 a F st s1' a' : bulk_ok s1 A B l2 a F st s1' a' -> st <> CC_OK -> s1' = s1 /\ live a' = live a.
Proof. intros (_ & _ & [(-> & _)|(_ & -> & Hl & _)]) Hne; [congruence|auto]. Qed.

Theorem step_frame_HA w o out w' : winv w -> cl_step cmp pred w HA o = Ok (out, w') -> frame_ok w w' out.
Proof.
  intros [Hk (la & lb & R1 & R2 & HP)] E. destruct w as [s1 s2 a]. cbn [wa wb wal] in *.
  assert (Hown : lown a s1 la (blocks s2 lb)) by (split; assumption).
  destruct o; cbn [cl_step wget wother wset wset2 wa wb wal] in E.
  (* the bulk copies need the invariant (cleanup of the external chain) *)
  23:{ destruct lb as [|q tb].
       - rewrite (add_all_empty_src _ _ _ R2) in E. cbn [bind] in E. inversion E; subst. intros H; congruence.
       - destruct (add_all_spec s1 la s2 (q :: tb) a _ R1 R2 Hown ltac:(discriminate)) as (st & s1' & a' & E1 & Hb).
         rewrite E1 in E. cbn [bind] in E. inversion E; subst. intros Hne. destruct (bulk_frame _ _ _ _ _ _ _ _ _ Hb Hne) as [-> Hl]. auto. }
  23:{ destruct lb as [|q tb].
       - rewrite (add_all_at_empty_src _ _ _ _ R2) in E. cbn [bind] in E. inversion E; subst. intros H; congruence.
       - destruct (N.ltb_spec (lenN la) i) as [Hi|Hi].
         + rewrite (add_all_at_out s1 la s2 (q :: tb) a i R1 R2 ltac:(discriminate) Hi) in E. cbn [bind] in E. inversion E; subst. intros _; auto.
         + assert (Hsp : exists A B, la = A ++ B /\ lenN A = i).
           { destruct (N.eq_dec i (lenN la)) as [->|Hne]; [exists la, []; rewrite app_nil_r; auto|].
             destruct (split_at la i ltac:(lia)) as (l1 & x & l2 & -> & <-). exists l1, (x :: l2). auto. }
           destruct Hsp as (A & B & -> & <-).
           destruct (add_all_at_spec s1 A B s2 (q :: tb) a _ R1 R2 Hown ltac:(discriminate)) as (st & s1' & a' & E1 & Hb).
           rewrite E1 in E. cbn [bind] in E. inversion E; subst. intros Hne. destruct (bulk_frame _ _ _ _ _ _ _ _ _ Hb Hne) as [-> Hl]. auto. }
  (* everything else: by inspection of the code, every non-OK return hands back the unchanged list *)
  all: unfold cl_add, cl_add_first, cl_add_last, cl_add_at, cl_remove, cl_remove_at, cl_remove_first, cl_remove_last,
         cl_remove_all, cl_remove_all_cb, unlinkn_all, cl_replace_at, cl_get_first, cl_get_last, cl_get_at, cl_index_of,
         cl_contains, cl_contains_value, cl_to_array, cl_foreach, cl_reverse, cl_filter_mut, cl_splice, cl_splice_at, splice_between in E.
  all: frame_step E.
  all: try discriminate.
  all: try (inversion E; subst; cbn [frame_ok wa wb wal]; intros Hne; try congruence;
            repeat split; try reflexivity; try (eapply alloc_none_live; eassumption); fail).
  all: try (inversion E; subst; cbn [frame_ok wa wb wal vals1 is_ok]; intros Hne; exfalso; apply Hne; reflexivity).
  all: inversion E; subst; cbn [frame_ok]; intros Hne;
       match goal with H : is_ok ?r = true |- _ => destruct r; try discriminate H; congruence end.
Qed.

(** The same for handle B. *)
Theorem step_frame w hd o out w' : winv w -> cl_step cmp pred w hd o = Ok (out, w') -> frame_ok w w' out.
Proof.
  intros Hw E. destruct hd; [eapply step_frame_HA; eassumption|].
  rewrite step_swap in E. destruct (cl_step cmp pred (wswap w) HA o) as [[out1 w1]|] eqn:E1; cbn [bind] in E; [|discriminate].
  inversion E; subst. pose proof (step_frame_HA _ _ _ _ (winv_swap _ Hw) E1) as H.
  destruct out as [st vals]. cbn [frame_ok wswap wa wb wal] in *. intros Hne. destruct (H Hne) as (H1 & H2 & H3). auto.
Qed.
End Frame.

(* ------------------------------------------------------------------------------------------ the generated guards (C16) *)
(** The range guards are regenerated from cc_list.c on every run; these lemmas say that each of them is true exactly
    when the documented range is violated (they stop checking if the condition in the C source changes). *)
Lemma g_get_node_at_range_iff hdr index size : hdr <> 0 -> (g_list_get_node_at_range hdr index size = true <-> size <= index).
Proof. intros H. unfold g_list_get_node_at_range. replace (hdr =? 0) with false by lia. cbn [negb orb]. lia. Qed.
Lemma g_get_node_at_front_iff index size : g_list_get_node_at_front index size = true <-> index < size / 2.
Proof. unfold g_list_get_node_at_front. lia. Qed.
Lemma g_add_all_at_range_iff index size : g_list_add_all_at_range index size = true <-> size < index.
Proof. unfold g_list_add_all_at_range. lia. Qed.
Lemma g_splice_at_range_iff index size : g_list_splice_at_range index size = true <-> size < index.
Proof. unfold g_list_splice_at_range. lia. Qed.
Lemma g_sublist_range_iff b e size : g_list_sublist_range b e size = true <-> (e < b \/ size <= e).
Proof. unfold g_list_sublist_range. lia. Qed.
Lemma g_reverse_trivial_iff size : g_list_reverse_trivial size = true <-> size < 2.
Proof. unfold g_list_reverse_trivial. lia. Qed.
