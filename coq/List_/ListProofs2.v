(** Doubly linked list: bulk operations (add_all, add_all_at, splice, splice_at). *)
From Coq Require Import Permutation.
From CC Require Import Base.Prelude Base.ListMem Base.Alloc Base.AllocProofs.
From CC Require Import Generated.Status Generated.Guards List_.ListModel List_.ListHeap List_.ListProofs1.
Local Open Scope N_scope.

Lemma dseg_frame h h' k p l n :
  (forall j, j <> k -> hget h' j = hget h j) -> ~ In k (ids l) -> dseg h p l n -> dseg h' p l n.
Proof. intros Hf Hk. apply dseg_ext. intros x Hx. apply Hf. intros ->; contradiction. Qed.

Definition dom_eq (h h' : heap) : Prop := forall j, hget h' j <> None <-> hget h j <> None.
Lemma dom_eq_refl h : dom_eq h h. Proof. intros j; tauto. Qed.
Lemma dom_eq_trans h1 h2 h3 : dom_eq h1 h2 -> dom_eq h2 h3 -> dom_eq h1 h3.
Proof. intros A B j. specialize (A j). specialize (B j). tauto. Qed.

(* ------------------------------------------------------------------------------------------ the copy chain *)
Definition nblks (mem : tag) (l : list (N * N)) : list block := map (nblk mem) (rev (ids l)).

Lemma nblks_ids mem l : map b_id (nblks mem l) = rev (ids l).
Proof. unfold nblks. rewrite map_map. cbn [nblk b_id]. apply map_id. Qed.

Lemma free_chain_spec mem nl : forall fuel hx p a L0,
  dseg hx p nl 0 -> NoDup (ids nl) -> ~ In 0 (ids nl) -> live a = nblks mem nl ++ L0 -> lok a -> (length nl <= fuel)%nat ->
  exists a', free_chain fuel hx (first_id nl 0) mem a = Ok a' /\ live a' = L0 /\ lok a' /\ aframe a a' /\ plan a' = plan a.
Proof.
  induction nl as [|[x d] t IH]; intros fuel hx p a L0 Hs Hnd Hnz Hl Hk Hf.
  - exists a. cbn [first_id]. destruct fuel; cbn [free_chain N.eqb]; auto 10 using aframe_refl.
  - destruct fuel as [|f]; [cbn in Hf; lia|]. cbn [free_chain first_id].
    destruct (nz_tail _ _ _ Hnz) as [Hx0 Hnz']. replace (x =? 0) with false by lia.
    destruct Hs as [Hx Ht]. rewrite (load_ok _ _ _ Hx0 Hx). cbn [bind n_next].
    cbn [ids map fst] in Hnd. apply NoDup_cons_iff in Hnd. destruct Hnd as [Hxt Hnd'].
    unfold nblks in Hl. cbn [ids map fst rev] in Hl. rewrite map_app in Hl. cbn [map] in Hl. rewrite <- app_assoc in Hl. cbn [app] in Hl.
    destruct (release_split mem x a _ NODE_BYTES L0 Hl) as (a1 & E1 & Hl1 & Hk1 & Hf1 & _ & Hp1); [|assumption|].
    { change (map (nblk mem) (rev (map fst t))) with (nblks mem t). rewrite nblks_ids. rewrite <- in_rev. exact Hxt. }
    rewrite E1. cbn [bind].
    destruct (IH f (hdel hx x) x a1 L0) as (a2 & E2 & Hl2 & Hk2 & Hf2 & Hp2); try assumption.
    + eapply dseg_ext; [|exact Ht]. intros y Hy. apply hget_hdel_other. intros ->; contradiction.
    + cbn in Hf; lia.
    + rewrite E2. exists a2. split; [reflexivity|]. split; [assumption|]. split; [assumption|].
      split; [eapply aframe_trans; eassumption|congruence].
Qed.

(** The state of the copy loop: [nl] has been built in [hx]. *)
Record chain_ok (mem : tag) (hx : heap) (nl : list (N * N)) (a : alloc_st) (L0 : list block) : Prop := {
  ck_seg : dseg hx 0 nl 0;
  ck_nodup : NoDup (ids nl);
  ck_nz : ~ In 0 (ids nl);
  ck_dom : forall y, hget hx y <> None -> In y (ids nl);
  ck_live : live a = nblks mem nl ++ L0;
  ck_lok : lok a;
}.

Lemma lae_loop_spec mem src rest : forall fuel ps nl hx a L0,
  dseg src ps rest 0 -> ~ In 0 (ids rest) -> chain_ok mem hx nl a L0 -> (length nl + length rest = fuel)%nat ->
  exists r a', lae_loop (length rest) fuel src mem (first_id rest 0) (first_id nl 0) (last_id nl 0) hx a = Ok (r, a') /\
    aframe a a' /\
    match r with
    | Some (hd, tl, hx') => exists cp, map snd cp = map snd rest /\ length cp = length rest /\
        hd = first_id (nl ++ cp) 0 /\ tl = last_id (nl ++ cp) 0 /\ chain_ok mem hx' (nl ++ cp) a' L0
    | None => live a' = L0 /\ lok a' /\ (plan a <> [] \/ limit a < NODE_BYTES)
    end.
Proof.
  induction rest as [|[x d] t IH]; intros fuel ps nl hx a L0 Hsrc Hnzr Hc Hfu.
  - cbn [length lae_loop]. eexists _, a. split; [reflexivity|]. split; [apply aframe_refl|].
    exists []. rewrite app_nil_r. auto.
  - cbn [length lae_loop first_id].
    destruct (nz_tail _ _ _ Hnzr) as [Hx0 Hnzr']. destruct Hsrc as [Hx Ht].
    destruct Hc as [Hs Hnd Hnz Hdom Hl Hk].
    destruct (alloc mem NODE_BYTES a) as [[id|] a1] eqn:E.
    + destruct (alloc_some _ _ _ _ _ E Hk) as (_ & Hl1 & Hk1 & Hf1 & Hid0 & Hfr).
      assert (Hni : ~ In id (ids nl)).
      { intros Hin. apply Hfr. rewrite Hl, map_app, nblks_ids. apply in_or_app. left. apply -> in_rev. exact Hin. }
      rewrite (load_ok _ _ _ Hx0 Hx). cbn [bind n_data n_next].
      assert (Hnone : hget hx id = None).
      { destruct (hget hx id) eqn:Eg; [|reflexivity]. exfalso. apply Hni, Hdom. congruence. }
      set (hx0 := hset hx id (fresh_node d)).
      assert (Hstep : exists hx1,
        (if first_id nl 0 =? 0 then Ok hx0 else do hx' <- set_next hx0 (last_id nl 0) id; set_prev hx' id (last_id nl 0)) = Ok hx1 /\
        dseg hx1 0 (nl ++ [(id, d)]) 0 /\ (forall y, hget hx1 y <> None -> In y (ids (nl ++ [(id, d)])))).
      { destruct (first_id nl 0 =? 0) eqn:Eh.
        - assert (nl = []) by (apply first_id_nil_iff; [assumption|lia]). subst nl.
          exists hx0. split; [reflexivity|]. cbn [app dseg first_id ids map fst]. split.
          + split; [|exact I]. unfold hx0. rewrite hget_hset_same. reflexivity.
          + intros y Hy. unfold hx0 in Hy. rewrite hget_hset in Hy. destruct (id =? y) eqn:Ey; [left; lia|].
            exfalso. apply Hdom in Hy. destruct Hy.
        - assert (Hne : nl <> []) by (intros ->; cbn in Eh; discriminate).
          assert (Hs0 : dseg hx0 0 nl 0).
          { eapply dseg_ext; [|exact Hs]. intros y Hy. unfold hx0. apply hget_hset_other. intros ->; contradiction. }
          destruct (set_next_last hx0 0 nl 0 id Hne Hnd Hnz Hs0) as (h1 & E1 & Hs1 & Hfr1 & Hdom1).
          rewrite E1. cbn [bind].
          assert (Htid : last_id nl 0 <> id) by (intros E2; apply Hni; rewrite <- E2; apply last_id_in; assumption).
          assert (H1id : hget h1 id = Some (fresh_node d)) by (rewrite Hfr1 by congruence; unfold hx0; apply hget_hset_same).
          rewrite (set_prev_ok _ _ _ _ Hid0 H1id). cbn [fresh_node n_data n_next].
          eexists; split; [reflexivity|]. split.
          + apply dseg_app. cbn [first_id dseg]. split; [|split; [apply hget_hset_same|exact I]].
            eapply dseg_ext; [|exact Hs1]. intros y Hy. apply hget_hset_other. intros ->; contradiction.
          + intros y Hy. rewrite ids_app. apply in_or_app. rewrite hget_hset in Hy.
            destruct (id =? y) eqn:Ey; [right; cbn; lia|]. left. apply Hdom. apply Hdom1 in Hy.
            unfold hx0 in Hy. rewrite hget_hset, Ey in Hy. exact Hy. }
      destruct Hstep as (hx1 & Est & Hs1 & Hdom1). rewrite Est. cbn [bind].
      assert (Hc1 : chain_ok mem hx1 (nl ++ [(id, d)]) a1 L0).
      { constructor; try assumption.
        - rewrite ids_app. apply nodup_app. split; [assumption|]. split; [constructor; [intros []|constructor]|].
          intros y Hy [<-|[]]. contradiction.
        - rewrite ids_app. intros H0. apply in_app_or in H0. destruct H0 as [H0|[H0|[]]]; [contradiction|]. cbn in H0; congruence.
        - rewrite Hl1, Hl. unfold nblks. rewrite ids_app, rev_app_distr. cbn [ids map fst rev app]. reflexivity. }
      assert (Hfi : first_id (nl ++ [(id, d)]) 0 = (if first_id nl 0 =? 0 then id else first_id nl 0)).
      { rewrite first_id_app. cbn [first_id]. destruct nl as [|[y dy] nl']; [reflexivity|]. cbn [first_id].
        replace (y =? 0) with false; [reflexivity|]. symmetry. apply N.eqb_neq. intros ->. apply Hnz. left; reflexivity. }
      destruct (IH fuel x (nl ++ [(id, d)]) hx1 a1 L0 Ht Hnzr' Hc1) as (r & a2 & E2 & Hf2 & Hr).
      { rewrite app_length. cbn [length] in *. lia. }
      rewrite Hfi, last_id_snoc in E2.
      rewrite E2. exists r, a2. split; [reflexivity|]. split; [eapply aframe_trans; eassumption|].
      destruct r as [[[hd tl] hx']|].
      * destruct Hr as (cp & Hcp & Hlen & Hhd & Htl & Hc2). exists ((id, d) :: cp).
        cbn [map snd length]. rewrite Hcp, Hlen. split; [reflexivity|]. split; [reflexivity|].
        change (nl ++ (id, d) :: cp) with (nl ++ [(id, d)] ++ cp). rewrite app_assoc. auto.
      * destruct Hr as (Hl2 & Hk2 & Hw). split; [assumption|]. split; [assumption|].
        destruct Hw as [Hw|Hw]; [left; intros Hp; apply Hw, (af_plan _ _ Hf1), Hp|right; rewrite (af_limit _ _ Hf1) in Hw; exact Hw].
    + destruct (alloc_none _ _ _ _ E Hk) as (Hl1 & Hk1 & Hf1 & Hw).
      destruct (free_chain_spec mem nl fuel hx 0 a1 L0 Hs Hnd Hnz ltac:(congruence) Hk1 ltac:(lia)) as (a2 & E2 & Hl2 & Hk2 & Hf2 & _).
      rewrite E2. cbn [bind]. exists None, a2. split; [reflexivity|]. split; [eapply aframe_trans; eassumption|]. auto.
Qed.

Lemma chain_ok_nil mem a : lok a -> chain_ok mem [] [] a (live a).
Proof.
  intros Hk. constructor; cbn; auto; try constructor; try (intros y Hy; congruence).
Qed.

Lemma link_all_externally_spec s1 s2 l2 a :
  lrep s2 l2 -> lok a ->
  exists r a', link_all_externally s1 s2 a = Ok (r, a') /\ aframe a a' /\
    match r with
    | Some (hd, tl, hx) => exists cp, map snd cp = map snd l2 /\ length cp = length l2 /\
        hd = first_id cp 0 /\ tl = last_id cp 0 /\ chain_ok (l_mem s1) hx cp a' (live a)
    | None => live a' = live a /\ lok a' /\ (plan a <> [] \/ limit a < NODE_BYTES)
    end.
Proof.
  intros R Hk. unfold link_all_externally. rewrite (rep_size _ _ R), lenN_length, (rep_head _ _ R).
  exact (lae_loop_spec (l_mem s1) (l_heap s2) l2 (length l2) 0 [] [] a (live a) (rep_seg _ _ R) (rep_nz _ _ R)
           (chain_ok_nil _ _ Hk) eq_refl).
Qed.

(* ------------------------------------------------------------------------------------------ joining two segments *)
Lemma nodup_app_ids A M : NoDup (ids (A ++ M)) ->
  NoDup (ids A) /\ NoDup (ids M) /\ (forall y, In y (ids A) -> ~ In y (ids M)).
Proof. rewrite ids_app. apply nodup_app. Qed.
Lemma nz_app A M : ~ In 0 (ids (A ++ M)) -> ~ In 0 (ids A) /\ ~ In 0 (ids M).
Proof. rewrite ids_app, in_app_iff. tauto. Qed.

(** last(A)->next = first(M); first(M)->prev = last(A) *)
Lemma link_two_nf h pA A nA pM M nM :
  A <> [] -> M <> [] -> NoDup (ids (A ++ M)) -> ~ In 0 (ids (A ++ M)) -> dseg h pA A nA -> dseg h pM M nM ->
  exists h', (do h1 <- set_next h (last_id A 0) (first_id M 0); set_prev h1 (first_id M 0) (last_id A 0)) = Ok h' /\
             dseg h' pA (A ++ M) nM /\ dom_eq h h' /\ (forall j, ~ In j (ids (A ++ M)) -> hget h' j = hget h j).
Proof.
  intros HA HM Hnd Hnz HsA HsM.
  destruct (nodup_app_ids _ _ Hnd) as (HndA & HndM & Hdis). destruct (nz_app _ _ Hnz) as [HnzA HnzM].
  pose proof (last_id_in A 0 HA) as HlA. pose proof (first_id_in M 0 HM) as HfM.
  destruct (set_next_last h pA A nA (first_id M 0) HA HndA HnzA HsA) as (h1 & E1 & Hs1 & Hfr1 & Hd1).
  rewrite E1. cbn [bind].
  assert (HsM1 : dseg h1 pM M nM) by (eapply dseg_frame; [exact Hfr1| |exact HsM]; intros Hin; exact (Hdis _ HlA Hin)).
  destruct (set_prev_first h1 pM M nM (last_id A 0) HM HndM HnzM HsM1) as (h2 & E2 & Hs2 & Hfr2 & Hd2).
  rewrite E2. exists h2. split; [reflexivity|]. split; [|split].
  - apply dseg_app. split.
    + rewrite (first_id_d_irrel M nM 0 HM). eapply dseg_frame; [exact Hfr2| |exact Hs1]. intros Hin; exact (Hdis _ Hin HfM).
    + rewrite (last_id_d_irrel A pA 0 HA). exact Hs2.
  - eapply dom_eq_trans; [exact Hd1|exact Hd2].
  - intros j Hj. rewrite ids_app, in_app_iff in Hj. rewrite Hfr2, Hfr1; [reflexivity| |]; intros ->; tauto.
Qed.

(** first(M)->prev = last(A); last(A)->next = first(M) *)
Lemma link_two_pf h pA A nA pM M nM :
  A <> [] -> M <> [] -> NoDup (ids (A ++ M)) -> ~ In 0 (ids (A ++ M)) -> dseg h pA A nA -> dseg h pM M nM ->
  exists h', (do h1 <- set_prev h (first_id M 0) (last_id A 0); set_next h1 (last_id A 0) (first_id M 0)) = Ok h' /\
             dseg h' pA (A ++ M) nM /\ dom_eq h h' /\ (forall j, ~ In j (ids (A ++ M)) -> hget h' j = hget h j).
Proof.
  intros HA HM Hnd Hnz HsA HsM.
  destruct (nodup_app_ids _ _ Hnd) as (HndA & HndM & Hdis). destruct (nz_app _ _ Hnz) as [HnzA HnzM].
  pose proof (last_id_in A 0 HA) as HlA. pose proof (first_id_in M 0 HM) as HfM.
  destruct (set_prev_first h pM M nM (last_id A 0) HM HndM HnzM HsM) as (h1 & E1 & Hs1 & Hfr1 & Hd1).
  rewrite E1. cbn [bind].
  assert (HsA1 : dseg h1 pA A nA) by (eapply dseg_frame; [exact Hfr1| |exact HsA]; intros Hin; exact (Hdis _ Hin HfM)).
  destruct (set_next_last h1 pA A nA (first_id M 0) HA HndA HnzA HsA1) as (h2 & E2 & Hs2 & Hfr2 & Hd2).
  rewrite E2. exists h2. split; [reflexivity|]. split; [|split].
  - apply dseg_app. split.
    + rewrite (first_id_d_irrel M nM 0 HM). exact Hs2.
    + rewrite (last_id_d_irrel A pA 0 HA). eapply dseg_frame; [exact Hfr2| |exact Hs1]. intros Hin; exact (Hdis _ HlA Hin).
  - eapply dom_eq_trans; [exact Hd1|exact Hd2].
  - intros j Hj. rewrite ids_app, in_app_iff in Hj. rewrite Hfr2, Hfr1; [reflexivity| |]; intros ->; tauto.
Qed.

(** Inserting the chain [M] between [A] and [B] (both write orders). *)
Section Attach.
Variables (h : heap) (A M B : list (N * N)).
Hypothesis HM : M <> [].
Hypothesis HAB : A ++ B <> [].
Hypothesis Hnd : NoDup (ids (A ++ M ++ B)).
Hypothesis Hnz : ~ In 0 (ids (A ++ M ++ B)).
Hypothesis HsAB : dseg h 0 (A ++ B) 0.
Hypothesis HsM : dseg h 0 M 0.

Let HndAMB := Hnd.
Lemma attach_facts :
  NoDup (ids (A ++ M)) /\ NoDup (ids (M ++ B)) /\ ~ In 0 (ids (A ++ M)) /\ ~ In 0 (ids (M ++ B)) /\
  (forall y, In y (ids B) -> ~ In y (ids (A ++ M))) /\ ~ In 0 (ids A) /\ ~ In 0 (ids B) /\ NoDup (ids ((A ++ M) ++ B)).
Proof.
  clear HndAMB. pose proof Hnd as H. pose proof Hnz as H6. rewrite !ids_app in H, H6.
  apply nodup_app in H. destruct H as (H1 & H23 & H5). apply nodup_app in H23. destruct H23 as (H2 & H3 & H4).
  rewrite !in_app_iff in H6.
  assert (H5a : forall y, In y (ids A) -> ~ In y (ids M)) by (intros y Hy Hin; apply (H5 y Hy), in_or_app; left; exact Hin).
  assert (H5b : forall y, In y (ids A) -> ~ In y (ids B)) by (intros y Hy Hin; apply (H5 y Hy), in_or_app; right; exact Hin).
  split; [rewrite ids_app; apply nodup_app; auto|].
  split; [rewrite ids_app; apply nodup_app; auto|].
  split; [rewrite ids_app, in_app_iff; tauto|]. split; [rewrite ids_app, in_app_iff; tauto|].
  split; [intros y Hy; rewrite ids_app, in_app_iff; intros [Hin|Hin]; [exact (H5b _ Hin Hy)|exact (H4 _ Hin Hy)]|].
  split; [tauto|]. split; [tauto|].
  rewrite !ids_app. apply nodup_app. split; [apply nodup_app; auto|]. split; [assumption|].
  intros y Hy Hin. apply in_app_or in Hy. destruct Hy as [Hy|Hy]; [exact (H5b _ Hy Hin)|exact (H4 _ Hy Hin)].
Qed.

Lemma first_nz l : ~ In 0 (ids l) -> (first_id l 0 =? 0) = match l with [] => true | _ => false end.
Proof.
  intros H. destruct l as [|[x d] t]; [reflexivity|]. cbn [first_id]. apply N.eqb_neq. intros ->. apply H. left; reflexivity.
Qed.
Lemma last_nz l : ~ In 0 (ids l) -> (last_id l 0 =? 0) = match l with [] => true | _ => false end.
Proof.
  intros H. destruct l as [|p t]; [reflexivity|]. apply N.eqb_neq. rewrite last_id_nil_iff by assumption. discriminate.
Qed.

Lemma attach_between_spec :
  exists h', attach_between h (first_id (A ++ B) 0) (last_id (A ++ B) 0) (first_id M 0) (last_id M 0) (first_id B 0) (last_id A 0)
             = Ok (first_id (A ++ M ++ B) 0, last_id (A ++ M ++ B) 0, h') /\
             dseg h' 0 (A ++ M ++ B) 0 /\ dom_eq h h'.
Proof.
  destruct attach_facts as (HndAM & HndMB & HnzAM & HnzMB & HdisB & HnzA & HnzB & Hnd3).
  unfold attach_between. rewrite (first_nz B HnzB), (last_nz A HnzA).
  destruct B as [|pb tb].
  - (* append *)
    rewrite !app_nil_r in *. assert (HA : A <> []) by exact HAB.
    destruct (link_two_nf h 0 A 0 0 M 0 HA HM HndAM HnzAM HsAB HsM) as (h' & E & Hs & Hd & _).
    destruct (set_next h (last_id A 0) (first_id M 0)) as [hh|]; [|discriminate]. cbn [bind] in E |- *.
    rewrite E. cbn [bind]. exists h'. split; [|auto].
    rewrite first_id_app, last_id_app, (first_id_d_irrel A (first_id M 0) 0 HA), (last_id_d_irrel M (last_id A 0) 0 HM). reflexivity.
  - destruct A as [|pa ta].
    + (* prepend *)
      cbn [app] in *.
      destruct (link_two_pf h 0 M 0 0 (pb :: tb) 0 HM ltac:(discriminate) HndMB HnzMB HsM HsAB) as (h' & E & Hs & Hd & _).
      destruct (set_prev h (first_id (pb :: tb) 0) (last_id M 0)) as [hh|]; [|discriminate]. cbn [bind] in E |- *.
      rewrite E. cbn [bind]. exists h'. split; [|auto].
      rewrite first_id_app, last_id_app, (first_id_d_irrel M (first_id (pb :: tb) 0) 0 HM). reflexivity.
    + (* middle *)
      set (A0 := pa :: ta) in *. set (B0 := pb :: tb) in *.
      assert (HA : A0 <> []) by discriminate. assert (HB : B0 <> []) by discriminate.
      apply dseg_app in HsAB. destruct HsAB as [HsA HsB].
      destruct (link_two_pf h 0 A0 (first_id B0 0) 0 M 0 HA HM HndAM HnzAM HsA HsM) as (h1 & E1 & Hs1 & Hd1 & Hfr1).
      cbn [bind] in E1. destruct (set_prev h (first_id M 0) (last_id A0 0)) as [hh1|] eqn:Ea; [|discriminate]. cbn [bind] in E1 |- *.
      rewrite E1. cbn [bind].
      assert (HsB1 : dseg h1 (last_id A0 0) B0 0).
      { eapply dseg_ext; [|exact HsB]. intros y Hy. apply Hfr1. apply HdisB. exact Hy. }
      assert (HAM : A0 ++ M <> []) by (intros E0; apply app_eq_nil in E0; tauto).
      destruct (link_two_nf h1 0 (A0 ++ M) 0 (last_id A0 0) B0 0 HAM HB Hnd3 ltac:(rewrite <- app_assoc; exact Hnz) Hs1 HsB1)
        as (h2 & E2 & Hs2 & Hd2 & _).
      rewrite last_id_app, (last_id_d_irrel M _ 0 HM) in E2.
      cbn [bind] in E2. destruct (set_next h1 (last_id M 0) (first_id B0 0)) as [hh2|] eqn:Eb; [|discriminate]. cbn [bind] in E2 |- *.
      rewrite E2. exists h2. split; [|split].
      * rewrite !first_id_app, !last_id_app. cbn [first_id]. reflexivity.
      * rewrite <- app_assoc in Hs2. exact Hs2.
      * eapply dom_eq_trans; eassumption.
Qed.

Lemma splice_links_spec :
  exists h', splice_links h (first_id (A ++ B) 0) (last_id (A ++ B) 0) (first_id M 0) (last_id M 0) (last_id A 0) (first_id B 0)
             = Ok (first_id (A ++ M ++ B) 0, last_id (A ++ M ++ B) 0, h') /\
             dseg h' 0 (A ++ M ++ B) 0 /\ dom_eq h h'.
Proof.
  destruct attach_facts as (HndAM & HndMB & HnzAM & HnzMB & HdisB & HnzA & HnzB & Hnd3).
  unfold splice_links. rewrite (first_nz B HnzB), (last_nz A HnzA).
  destruct A as [|pa ta].
  - (* prepend *)
    cbn [app] in *. assert (HB : B <> []) by exact HAB.
    destruct (link_two_pf h 0 M 0 0 B 0 HM HB HndMB HnzMB HsM HsAB) as (h' & E & Hs & Hd & _).
    destruct (set_prev h (first_id B 0) (last_id M 0)) as [hh|]; [|discriminate]. cbn [bind] in E |- *.
    rewrite E. cbn [bind]. exists h'. split; [|auto].
    rewrite first_id_app, last_id_app, (first_id_d_irrel M (first_id B 0) 0 HM), (last_id_d_irrel B (last_id M 0) 0 HB). reflexivity.
  - destruct B as [|pb tb].
    + (* append *)
      rewrite !app_nil_r in *.
      destruct (link_two_nf h 0 (pa :: ta) 0 0 M 0 ltac:(discriminate) HM HndAM HnzAM HsAB HsM) as (h' & E & Hs & Hd & _).
      destruct (set_next h (last_id (pa :: ta) 0) (first_id M 0)) as [hh|]; [|discriminate]. cbn [bind] in E |- *.
      rewrite E. cbn [bind]. exists h'. split; [|auto].
      rewrite last_id_app, (last_id_d_irrel M (last_id (pa :: ta) 0) 0 HM). reflexivity.
    + (* middle *)
      set (A0 := pa :: ta) in *. set (B0 := pb :: tb) in *.
      assert (HA : A0 <> []) by discriminate. assert (HB : B0 <> []) by discriminate.
      apply dseg_app in HsAB. destruct HsAB as [HsA HsB].
      destruct (link_two_nf h 0 A0 (first_id B0 0) 0 M 0 HA HM HndAM HnzAM HsA HsM) as (h1 & E1 & Hs1 & Hd1 & Hfr1).
      cbn [bind] in E1. destruct (set_next h (last_id A0 0) (first_id M 0)) as [hh1|] eqn:Ea; [|discriminate]. cbn [bind] in E1 |- *.
      rewrite E1. cbn [bind].
      assert (HsB1 : dseg h1 (last_id A0 0) B0 0).
      { eapply dseg_ext; [|exact HsB]. intros y Hy. apply Hfr1. apply HdisB. exact Hy. }
      assert (HAM : A0 ++ M <> []) by (intros E0; apply app_eq_nil in E0; tauto).
      destruct (link_two_pf h1 0 (A0 ++ M) 0 (last_id A0 0) B0 0 HAM HB Hnd3 ltac:(rewrite <- app_assoc; exact Hnz) Hs1 HsB1)
        as (h2 & E2 & Hs2 & Hd2 & _).
      rewrite last_id_app, (last_id_d_irrel M _ 0 HM) in E2.
      cbn [bind] in E2. destruct (set_prev h1 (first_id B0 0) (last_id M 0)) as [hh2|] eqn:Eb; [|discriminate]. cbn [bind] in E2 |- *.
      rewrite E2. exists h2. split; [|split].
      * rewrite !first_id_app, !last_id_app. cbn [first_id]. reflexivity.
      * rewrite <- app_assoc in Hs2. exact Hs2.
      * eapply dom_eq_trans; eassumption.
Qed.
End Attach.

(* ------------------------------------------------------------------------------------------ end_base, union heaps, ledger *)
Lemma end_base_spec s A B : lshape s (A ++ B) -> A ++ B <> [] -> end_base s (lenN A) = Ok (first_id B 0, last_id A 0).
Proof.
  intros R Hne. unfold end_base. destruct B as [|[e de] tb].
  - rewrite app_nil_r in *. rewrite (get_node_at_out_shape _ _ _ R) by lia. cbn [bind N.eqb negb first_id].
    destruct (exists_last Hne) as (A' & [t dt] & ->).
    replace (lenN (A' ++ [(t, dt)]) - 1) with (lenN A') by (rewrite lenN_app, lenN_cons; cbn; lia).
    rewrite (get_node_at_shape _ _ _ _ _ R). cbn [bind]. rewrite last_id_snoc. reflexivity.
  - rewrite (get_node_at_shape _ _ _ _ _ R). cbn [bind first_id].
    assert (He0 : e <> 0) by (intros ->; apply (sh_nz _ _ R); rewrite ids_app; apply in_or_app; right; left; reflexivity).
    replace (e =? 0) with false by lia. cbn [negb].
    rewrite (load_ok _ _ _ He0 (dseg_mid _ _ _ _ _ _ _ (sh_seg _ _ R))). reflexivity.
Qed.

Lemma union_heap hx h1 cp l1 :
  dseg hx 0 cp 0 -> (forall y, hget hx y <> None -> In y (ids cp)) -> dseg h1 0 l1 0 ->
  (forall y, In y (ids l1) -> ~ In y (ids cp)) ->
  dseg (hx ++ h1) 0 cp 0 /\ dseg (hx ++ h1) 0 l1 0 /\
  (forall y, hget (hx ++ h1) y <> None -> In y (ids cp) \/ hget h1 y <> None).
Proof.
  intros Hc Hdom H1 Hdis. split; [|split].
  - eapply dseg_ext; [|exact Hc]. intros y Hy. rewrite hget_app.
    destruct (dseg_in _ _ _ _ _ Hc Hy) as [nd ->]. reflexivity.
  - eapply dseg_ext; [|exact H1]. intros y Hy. rewrite hget_app.
    destruct (hget hx y) eqn:E; [|reflexivity]. exfalso. apply (Hdis y Hy), Hdom. congruence.
  - intros y Hy. rewrite hget_app in Hy. destruct (hget hx y) eqn:E; [left; apply Hdom; congruence|right; exact Hy].
Qed.

Lemma owns_insert_many a a' s s' l l' F cp :
  owns a s l F -> live a' = nblks (l_mem s) cp ++ live a -> same_hdr s s' -> Permutation (ids l') (ids cp ++ ids l) ->
  owns a' s' l' F.
Proof.
  unfold owns. intros Ho Hl Hs Hp. rewrite (blocks_same _ _ _ Hs), Hl. unfold blocks, nblks in *.
  eapply Permutation_trans; [apply Permutation_app_head; exact Ho|]. cbn [app].
  eapply Permutation_trans; [apply Permutation_sym, Permutation_middle|]. apply perm_skip.
  rewrite app_assoc. apply Permutation_app_tail. rewrite <- map_app. apply Permutation_map.
  eapply Permutation_trans; [|apply Permutation_sym; exact Hp]. apply Permutation_app_tail, Permutation_sym, Permutation_rev.
Qed.

(** The ids of a freshly built chain are disjoint from everything that was live before. *)
Lemma chain_fresh mem hx cp a' L0 y : chain_ok mem hx cp a' L0 -> In y (ids cp) -> ~ In y (map b_id L0).
Proof.
  intros C Hy Hin. pose proof (proj1 (proj1 (ck_lok _ _ _ _ _ C))) as Hnd.
  rewrite (ck_live _ _ _ _ _ C), map_app, nblks_ids in Hnd. apply nodup_app in Hnd. destruct Hnd as (_ & _ & Hd).
  apply (Hd y); [apply -> in_rev; exact Hy|exact Hin].
Qed.
Lemma owns_ids_live a s l F y : owns a s l F -> In y (ids l) -> In y (map b_id (live a)).
Proof.
  intros Ho Hy. eapply Permutation_in; [apply Permutation_map, Permutation_sym, Ho|].
  unfold blocks. rewrite map_app. apply in_or_app. left. cbn [map]. right. rewrite map_map. cbn [nblk b_id]. rewrite map_id. exact Hy.
Qed.

(* ------------------------------------------------------------------------------------------ add_all_at *)
(** Outcome of a bulk copy into position [lenN A] of the list [A ++ B]. *)
Definition bulk_ok (s1 : clist) (A B l2 : list (N * N)) (a : alloc_st) (F : list block) (st : stat) (s1' : clist) (a' : alloc_st) : Prop :=
  aframe a a' /\ same_hdr s1 s1' /\
  ((st = CC_OK /\ exists cp, map snd cp = map snd l2 /\ lrep s1' (A ++ cp ++ B) /\ lown a' s1' (A ++ cp ++ B) F) \/
   (st = CC_ERR_ALLOC /\ s1' = s1 /\ live a' = live a /\ lok a' /\ (plan a <> [] \/ limit a < NODE_BYTES))).

Lemma attach_copy_spec s1 A B s2 l2 a F hd tl hx cp a1 :
  lrep s1 (A ++ B) -> A ++ B <> [] -> l2 <> [] -> lown a s1 (A ++ B) F ->
  map snd cp = map snd l2 -> length cp = length l2 -> hd = first_id cp 0 -> tl = last_id cp 0 ->
  chain_ok (l_mem s1) hx cp a1 (live a) -> aframe a a1 -> l_size s2 = lenN l2 ->
  exists hd' tl' h',
    (do (e, b) <- end_base (upd s1 (l_size s1) (l_head s1) (l_tail s1) (hx ++ l_heap s1)) (lenN A);
     attach_between (hx ++ l_heap s1) (l_head s1) (l_tail s1) hd tl e b) = Ok (hd', tl', h') /\
    bulk_ok s1 A B l2 a F CC_OK (upd s1 (l_size s1 + l_size s2) hd' tl' h') a1.
Proof.
  intros R Hne Hl2 [Hk Ho] Hcp Hlen -> -> C Hf Hsz2.
  assert (Hcpne : cp <> []) by (intros ->; destruct l2; [congruence|discriminate]).
  assert (Hdis : forall y, In y (ids (A ++ B)) -> ~ In y (ids cp)).
  { intros y Hy Hin. eapply chain_fresh; [exact C|exact Hin|]. eapply owns_ids_live; eassumption. }
  destruct (union_heap hx (l_heap s1) cp (A ++ B) (ck_seg _ _ _ _ _ C) (ck_dom _ _ _ _ _ C) (rep_seg _ _ R) Hdis) as (Hsc & Hs1 & Hdom).
  set (s1m := upd s1 (l_size s1) (l_head s1) (l_tail s1) (hx ++ l_heap s1)).
  assert (Rm : lshape s1m (A ++ B)) by (constructor; unfold s1m; cbn [upd l_heap l_head l_tail l_size l_hdr]; try apply R; assumption).
  rewrite (end_base_spec s1m A B Rm Hne). cbn [bind].
  assert (Hnd3 : NoDup (ids (A ++ cp ++ B))).
  { pose proof (rep_nodup _ _ R) as HndAB. rewrite !ids_app in *. apply nodup_app in HndAB. destruct HndAB as (HA & HB & HdAB).
    apply nodup_app. split; [exact HA|]. split; [apply nodup_app; split; [apply C|split; [exact HB|]]|].
    - intros y Hy Hin. apply (Hdis y); [apply in_or_app; right; exact Hin|exact Hy].
    - intros y Hy Hin. apply in_app_or in Hin. destruct Hin as [Hin|Hin]; [|exact (HdAB _ Hy Hin)].
      apply (Hdis y); [apply in_or_app; left; exact Hy|exact Hin]. }
  assert (Hnz3 : ~ In 0 (ids (A ++ cp ++ B))).
  { pose proof (rep_nz _ _ R) as H0. pose proof (ck_nz _ _ _ _ _ C) as H1. rewrite !ids_app, !in_app_iff in *. tauto. }
  rewrite (rep_head _ _ R), (rep_tail _ _ R).
  destruct (attach_between_spec (hx ++ l_heap s1) A cp B Hcpne Hne Hnd3 Hnz3 Hs1 Hsc) as (h' & E & Hs' & Hd').
  rewrite E. do 3 eexists. split; [reflexivity|].
  assert (Hperm : Permutation (ids (A ++ cp ++ B)) (ids cp ++ ids (A ++ B))).
  { rewrite !ids_app. rewrite app_assoc. eapply Permutation_trans; [apply Permutation_app_tail, Permutation_app_comm|].
    rewrite <- app_assoc. reflexivity. }
  split; [assumption|]. split; [apply same_hdr_upd|]. left. split; [reflexivity|]. exists cp. split; [assumption|]. split.
  - constructor; cbn [upd l_heap l_head l_tail l_size l_hdr]; try assumption; try reflexivity.
    + rewrite (rep_size _ _ R), Hsz2, !lenN_app. unfold lenN. rewrite Hlen. lia.
    + intros y Hy. apply Hd', Hdom in Hy. destruct Hy as [Hy|Hy].
      * rewrite !ids_app, !in_app_iff. tauto.
      * apply (rep_dom _ _ R) in Hy. rewrite !ids_app, !in_app_iff in *. tauto.
    + apply R.
  - split; [apply C|]. eapply owns_insert_many; [exact Ho| |apply same_hdr_upd|exact Hperm].
    apply C.
Qed.

Lemma add_all_to_empty_spec s1 s2 l2 a F :
  lrep s1 [] -> lrep s2 l2 -> lown a s1 [] F -> l2 <> [] ->
  exists st s1' a', add_all_to_empty s1 s2 a = Ok (st, s1', a') /\ bulk_ok s1 [] [] l2 a F st s1' a'.
Proof.
  intros R1 R2 [Hk Ho] Hl2. unfold add_all_to_empty.
  replace (l_size s2 =? 0) with false by (symmetry; apply N.eqb_neq; rewrite (rep_size _ _ R2); destruct l2; [congruence|rewrite lenN_cons; lia]).
  destruct (link_all_externally_spec s1 s2 l2 a R2 Hk) as (r & a1 & E & Hf & Hr). rewrite E. cbn [bind].
  destruct r as [[[hd tl] hx]|].
  - destruct Hr as (cp & Hcp & Hlen & -> & -> & C). do 3 eexists. split; [reflexivity|].
    split; [assumption|]. split; [apply same_hdr_upd|]. left. split; [reflexivity|]. exists cp. split; [assumption|].
    cbn [app]. rewrite app_nil_r.
    assert (Hh1 : forall y, hget (l_heap s1) y = None).
    { intros y. destruct (hget (l_heap s1) y) eqn:Eg; [|reflexivity]. exfalso. apply (rep_dom _ _ R1 y). congruence. }
    split.
    + constructor; cbn [upd l_heap l_head l_tail l_size l_hdr]; try apply C; try reflexivity.
      * eapply dseg_ext; [|apply C]. intros y Hy. rewrite hget_app. rewrite Hh1. destruct (hget hx y); reflexivity.
      * rewrite (rep_size _ _ R2). unfold lenN. rewrite Hlen. reflexivity.
      * intros y Hy. rewrite hget_app, Hh1 in Hy. apply (ck_dom _ _ _ _ _ C). destruct (hget hx y); [discriminate|congruence].
      * apply R1.
    + split; [apply C|]. eapply owns_insert_many; [exact Ho| |apply same_hdr_upd|].
      * apply C.
      * cbn [ids map]. rewrite app_nil_r. reflexivity.
  - destruct Hr as (Hl & Hk1 & Hw). do 3 eexists. split; [reflexivity|]. split; [assumption|]. split; [auto|]. right. auto.
Qed.

Lemma add_all_at_spec s1 A B s2 l2 a F :
  lrep s1 (A ++ B) -> lrep s2 l2 -> lown a s1 (A ++ B) F -> l2 <> [] ->
  exists st s1' a', cl_add_all_at s1 s2 (lenN A) a = Ok (st, s1', a') /\ bulk_ok s1 A B l2 a F st s1' a'.
Proof.
  intros R1 R2 Hown Hl2. unfold cl_add_all_at, g_list_add_all_at_range.
  replace (l_size s2 =? 0) with false by (symmetry; apply N.eqb_neq; rewrite (rep_size _ _ R2); destruct l2; [congruence|rewrite lenN_cons; lia]).
  pose proof (rep_size _ _ R1) as Hsz1. rewrite lenN_app in Hsz1.
  replace (l_size s1 <? lenN A) with false by lia.
  destruct (l_size s1 =? 0) eqn:Ez.
  - assert (A = []) by (destruct A; [reflexivity|rewrite lenN_cons in Hsz1; lia]). subst A.
    assert (B = []) by (destruct B; [reflexivity|rewrite lenN_cons in Hsz1; lia]). subst B.
    apply add_all_to_empty_spec; assumption.
  - assert (Hne : A ++ B <> []).
    { intros E0. apply app_eq_nil in E0. destruct E0; subst. cbn in Hsz1. lia. }
    destruct Hown as [Hk Ho].
    destruct (link_all_externally_spec s1 s2 l2 a R2 Hk) as (r & a1 & E & Hf & Hr). rewrite E. cbn [bind].
    destruct r as [[[hd tl] hx]|].
    + destruct Hr as (cp & Hcp & Hlen & Hhd & Htl & C).
      destruct (attach_copy_spec s1 A B s2 l2 a F hd tl hx cp a1 R1 Hne Hl2 (conj Hk Ho) Hcp Hlen Hhd Htl C Hf (rep_size _ _ R2))
        as (hd' & tl' & h' & E2 & Hb).
      cbn [upd l_heap].
      destruct (end_base _ _) as [[e b]|]; [|discriminate]. cbn [bind] in E2 |- *. rewrite E2. cbn [bind].
      do 3 eexists. split; [reflexivity|exact Hb].
    + destruct Hr as (Hl & Hk1 & Hw). do 3 eexists. split; [reflexivity|]. split; [assumption|]. split; [auto|]. right. auto.
Qed.

Lemma add_all_at_empty_src s1 s2 a i : lrep s2 [] -> cl_add_all_at s1 s2 i a = Ok (CC_OK, s1, a).
Proof. intros R. unfold cl_add_all_at. rewrite (rep_size _ _ R). reflexivity. Qed.
Lemma add_all_at_out s1 l1 s2 l2 a i :
  lrep s1 l1 -> lrep s2 l2 -> l2 <> [] -> lenN l1 < i -> cl_add_all_at s1 s2 i a = Ok (CC_ERR_OUT_OF_RANGE, s1, a).
Proof.
  intros R1 R2 Hl2 Hi. unfold cl_add_all_at, g_list_add_all_at_range.
  replace (l_size s2 =? 0) with false by (symmetry; apply N.eqb_neq; rewrite (rep_size _ _ R2); destruct l2; [congruence|rewrite lenN_cons; lia]).
  rewrite (rep_size _ _ R1). replace (lenN l1 <? i) with true by lia. reflexivity.
Qed.

Lemma add_all_spec s1 l1 s2 l2 a F :
  lrep s1 l1 -> lrep s2 l2 -> lown a s1 l1 F -> l2 <> [] ->
  exists st s1' a', cl_add_all s1 s2 a = Ok (st, s1', a') /\ bulk_ok s1 l1 [] l2 a F st s1' a'.
Proof.
  intros R1 R2 Hown Hl2. unfold cl_add_all. destruct (l_size s1 =? 0) eqn:Ez.
  - pose proof (lrep_nil_size _ _ R1 Ez) as ->. apply add_all_to_empty_spec; assumption.
  - rewrite (rep_size _ _ R1). rewrite <- (app_nil_r l1) in R1, Hown.
    destruct (add_all_at_spec s1 l1 [] s2 l2 a F R1 R2 Hown Hl2) as (st & s1' & a' & E & Hb).
    exists st, s1', a'. split; [exact E|exact Hb].
Qed.
Lemma add_all_empty_src s1 s2 a : lrep s2 [] -> cl_add_all s1 s2 a = Ok (CC_OK, s1, a).
Proof.
  intros R. unfold cl_add_all, add_all_to_empty. destruct (l_size s1 =? 0); [rewrite (rep_size _ _ R); reflexivity|].
  apply add_all_at_empty_src. exact R.
Qed.

(* ------------------------------------------------------------------------------------------ splice *)
Lemma lrep_emptied s l : lrep s l -> lrep (emptied s) [].
Proof.
  intros R. constructor; cbn; auto; try constructor; try (intros y Hy; congruence). apply R.
Qed.

Lemma splice_at_spec s1 A B s2 l2 :
  lrep s1 (A ++ B) -> lrep s2 l2 -> l2 <> [] -> (forall y, In y (ids (A ++ B)) -> ~ In y (ids l2)) ->
  exists s1', cl_splice_at s1 s2 (lenN A) = Ok (CC_OK, s1', emptied s2) /\ lrep s1' (A ++ l2 ++ B) /\ same_hdr s1 s1'.
Proof.
  intros R1 R2 Hl2 Hdis. unfold cl_splice_at, g_list_splice_at_range.
  replace (l_size s2 =? 0) with false by (symmetry; apply N.eqb_neq; rewrite (rep_size _ _ R2); destruct l2; [congruence|rewrite lenN_cons; lia]).
  pose proof (rep_size _ _ R1) as Hsz1. rewrite lenN_app in Hsz1.
  replace (l_size s1 <? lenN A) with false by lia.
  destruct (union_heap (l_heap s2) (l_heap s1) l2 (A ++ B) (rep_seg _ _ R2) (rep_dom _ _ R2) (rep_seg _ _ R1) Hdis) as (Hs2 & Hs1 & Hdom).
  destruct (l_size s1 =? 0) eqn:Ez.
  - assert (A = []) by (destruct A; [reflexivity|rewrite lenN_cons in Hsz1; lia]). subst A.
    assert (B = []) by (destruct B; [reflexivity|rewrite lenN_cons in Hsz1; lia]). subst B.
    eexists. split; [reflexivity|]. split; [|apply same_hdr_upd]. cbn [app]. rewrite app_nil_r.
    constructor; cbn [upd l_heap l_head l_tail l_size l_hdr]; try apply R2; try assumption.
    + intros y Hy. apply Hdom in Hy. destruct Hy as [Hy|Hy]; [exact Hy|]. apply (rep_dom _ _ R1) in Hy. destruct Hy.
    + apply R1.
  - assert (Hne : A ++ B <> []).
    { intros E0. apply app_eq_nil in E0. destruct E0; subst. cbn in Hsz1. lia. }
    set (s1m := upd s1 (l_size s1) (l_head s1) (l_tail s1) (l_heap s2 ++ l_heap s1)).
    assert (Rm : lshape s1m (A ++ B)) by (constructor; unfold s1m; cbn [upd l_heap l_head l_tail l_size l_hdr]; try apply R1; assumption).
    rewrite (end_base_spec s1m A B Rm Hne). cbn [bind]. unfold splice_between, s1m. cbn [upd l_heap].
    assert (Hnd3 : NoDup (ids (A ++ l2 ++ B))).
    { pose proof (rep_nodup _ _ R1) as HndAB. rewrite !ids_app in *. apply nodup_app in HndAB. destruct HndAB as (HA & HB & HdAB).
      apply nodup_app. split; [exact HA|]. split; [apply nodup_app; split; [apply R2|split; [exact HB|]]|].
      - intros y Hy Hin. apply (Hdis y); [apply in_or_app; right; exact Hin|exact Hy].
      - intros y Hy Hin. apply in_app_or in Hin. destruct Hin as [Hin|Hin]; [|exact (HdAB _ Hy Hin)].
        apply (Hdis y); [apply in_or_app; left; exact Hy|exact Hin]. }
    assert (Hnz3 : ~ In 0 (ids (A ++ l2 ++ B))).
    { pose proof (rep_nz _ _ R1) as H0. pose proof (rep_nz _ _ R2) as H1. rewrite !ids_app, !in_app_iff in *. tauto. }
    rewrite (rep_head _ _ R1), (rep_tail _ _ R1), (rep_head _ _ R2), (rep_tail _ _ R2).
    destruct (splice_links_spec (l_heap s2 ++ l_heap s1) A l2 B Hl2 Hne Hnd3 Hnz3 Hs1 Hs2) as (h' & E & Hs' & Hd').
    rewrite E. cbn [bind]. eexists. split; [reflexivity|]. split; [|apply same_hdr_upd].
    constructor; cbn [upd l_heap l_head l_tail l_size l_hdr]; try assumption; try reflexivity.
    + rewrite (rep_size _ _ R1), (rep_size _ _ R2), !lenN_app. lia.
    + intros y Hy. apply Hd', Hdom in Hy. destruct Hy as [Hy|Hy].
      * rewrite !ids_app, !in_app_iff. tauto.
      * apply (rep_dom _ _ R1) in Hy. rewrite !ids_app, !in_app_iff in *. tauto.
    + apply R1.
Qed.

Lemma splice_at_empty_src s1 s2 i : lrep s2 [] -> cl_splice_at s1 s2 i = Ok (CC_OK, s1, s2).
Proof. intros R. unfold cl_splice_at. rewrite (rep_size _ _ R). reflexivity. Qed.
Lemma splice_at_out s1 l1 s2 l2 i :
  lrep s1 l1 -> lrep s2 l2 -> l2 <> [] -> lenN l1 < i -> cl_splice_at s1 s2 i = Ok (CC_ERR_OUT_OF_RANGE, s1, s2).
Proof.
  intros R1 R2 Hl2 Hi. unfold cl_splice_at, g_list_splice_at_range.
  replace (l_size s2 =? 0) with false by (symmetry; apply N.eqb_neq; rewrite (rep_size _ _ R2); destruct l2; [congruence|rewrite lenN_cons; lia]).
  rewrite (rep_size _ _ R1). replace (lenN l1 <? i) with true by lia. reflexivity.
Qed.
