(** Executable model of src/cc_list.c (definitions only).

    Memory: every node is one ledger block whose id IS the node id (0 = NULL). A list owns a node heap
    [l_heap] (association list keyed by node id); every dereference goes through [load], which
    faults on NULL and on an id that is not in the heap. Where the C text reads a field again after
    a write, the model loads again. Sizes: [size++] is [+ 1], [size--]/[x - 1] are [- 1] at places
    the C guards against 0, [wsub] where the wrap is observable (iterator index).

    The two lists of a trace own disjoint heaps; the bulk operations work on the union of the
    heaps involved (memory is one), [splice] hands the whole heap of the source to the destination. *)
From CC Require Import Base.Prelude Base.Alloc Generated.Status Generated.Constants Generated.Guards.
Local Open Scope N_scope.

(* ------------------------------------------------------------------------------------------ heap *)
Record node := { n_data : N; n_prev : N; n_next : N }.
Definition heap := list (N * node).

Fixpoint hget (h : heap) (i : N) : option node :=
  match h with [] => None | (j, n) :: t => if j =? i then Some n else hget t i end.
Fixpoint hdel (h : heap) (i : N) : heap :=
  match h with [] => [] | (j, n) :: t => if j =? i then hdel t i else (j, n) :: hdel t i end.
Definition hset (h : heap) (i : N) (n : node) : heap := (i, n) :: hdel h i.

(** The checked dereference. *)
Definition load (h : heap) (i : N) : res node :=
  if i =? 0 then Fault NullDeref else of_opt Dangling (hget h i).
Definition set_data (h : heap) (i v : N) : res heap :=
  do n <- load h i; Ok (hset h i {| n_data := v; n_prev := n_prev n; n_next := n_next n |}).
Definition set_prev (h : heap) (i v : N) : res heap :=
  do n <- load h i; Ok (hset h i {| n_data := n_data n; n_prev := v; n_next := n_next n |}).
Definition set_next (h : heap) (i v : N) : res heap :=
  do n <- load h i; Ok (hset h i {| n_data := n_data n; n_prev := n_prev n; n_next := v |}).

Definition NODE_BYTES : N := 24.   (* sizeof(Node) *)
Definition HDR_BYTES : N := 48.    (* sizeof(CC_List) *)

Record clist := { l_size : N; l_head : N; l_tail : N; l_heap : heap; l_hdr : N; l_mem : tag }.
Definition upd (l : clist) (size head tail : N) (h : heap) : clist :=
  {| l_size := size; l_head := head; l_tail := tail; l_heap := h; l_hdr := l_hdr l; l_mem := l_mem l |}.

Definition is_ok (s : stat) : bool := match s with CC_OK => true | _ => false end.

(* --------------------------------------------------------------------------- static helpers *)

(** link_behind(base, ins) *)
Definition link_behind (h : heap) (base ins : N) : res heap :=
  do ni <- load h ins;
  do h1 <- (if negb (n_next ni =? 0) then set_prev h (n_next ni) (n_prev ni) else Ok h);
  do ni1 <- load h1 ins;
  do h2 <- (if negb (n_prev ni1 =? 0) then set_next h1 (n_prev ni1) (n_next ni1) else Ok h1);
  do nb <- load h2 base;
  if n_prev nb =? 0 then
    do h3 <- set_prev h2 ins 0;
    do h4 <- set_next h3 ins base;
    set_prev h4 base ins
  else
    do h3 <- set_prev h2 ins (n_prev nb);
    do ni3 <- load h3 ins;
    do h4 <- set_next h3 (n_prev ni3) ins;
    do h5 <- set_next h4 ins base;
    set_prev h5 base ins.

(** link_after(base, ins) *)
Definition link_after (h : heap) (base ins : N) : res heap :=
  do ni <- load h ins;
  do h1 <- (if negb (n_next ni =? 0) then set_prev h (n_next ni) (n_prev ni) else Ok h);
  do ni1 <- load h1 ins;
  do h2 <- (if negb (n_prev ni1 =? 0) then set_next h1 (n_prev ni1) (n_next ni1) else Ok h1);
  do nb <- load h2 base;
  if n_next nb =? 0 then
    do h3 <- set_prev h2 ins base;
    do h4 <- set_next h3 base ins;
    set_next h4 ins 0
  else
    do h3 <- set_next h2 ins (n_next nb);
    do ni3 <- load h3 ins;
    do h4 <- set_prev h3 (n_next ni3) ins;
    do h5 <- set_prev h4 ins base;
    set_next h5 base ins.

(** One branch of swap_adjacent: x->next == y. *)
Definition swap_adj_core (h : heap) (x y : N) : res heap :=
  do ny <- load h y;
  do h1 <- (if negb (n_next ny =? 0) then set_prev h (n_next ny) x else Ok h);
  do ny1 <- load h1 y;
  do h2 <- set_next h1 x (n_next ny1);
  do nx2 <- load h2 x;
  do h3 <- (if negb (n_prev nx2 =? 0) then set_next h2 (n_prev nx2) y else Ok h2);
  do nx3 <- load h3 x;
  do h4 <- set_prev h3 y (n_prev nx3);
  do h5 <- set_prev h4 x y;
  set_next h5 y x.

Definition swap_adjacent (h : heap) (n1 n2 : N) : res heap :=
  do a1 <- load h n1;
  if n_next a1 =? n2 then swap_adj_core h n1 n2 else
  do a2 <- load h n2;
  if n_next a2 =? n1 then swap_adj_core h n2 n1 else Ok h.

Definition swap (h : heap) (n1 n2 : N) : res heap :=
  do a1 <- load h n1;
  if n_next a1 =? n2 then swap_adjacent h n1 n2 else
  do a2 <- load h n2;
  if n_next a2 =? n1 then swap_adjacent h n1 n2 else
  let n1l := n_prev a1 in let n1r := n_next a1 in
  let n2l := n_prev a2 in let n2r := n_next a2 in
  do h1 <- (if negb (n1l =? 0) then set_next h n1l n2 else Ok h);
  do h2 <- set_prev h1 n2 n1l;
  do h3 <- (if negb (n1r =? 0) then set_prev h2 n1r n2 else Ok h2);
  do h4 <- set_next h3 n2 n1r;
  do h5 <- (if negb (n2l =? 0) then set_next h4 n2l n1 else Ok h4);
  do h6 <- set_prev h5 n1 n2l;
  do h7 <- (if negb (n2r =? 0) then set_prev h6 n2r n1 else Ok h6);
  set_next h7 n1 n2r.

(** unlinkn(list, node): returns the data. *)
Definition unlinkn (l : clist) (nd : N) (a : alloc_st) : res (N * clist * alloc_st) :=
  let h := l_heap l in
  do n0 <- load h nd;
  do h1 <- (if negb (n_prev n0 =? 0) then set_next h (n_prev n0) (n_next n0) else Ok h);
  do n1 <- load h1 nd;
  let head' := if n_prev n1 =? 0 then n_next n1 else l_head l in
  let tail' := if n_next n1 =? 0 then n_prev n1 else l_tail l in
  do h2 <- (if negb (n_next n1 =? 0) then set_prev h1 (n_next n1) (n_prev n1) else Ok h1);
  do a' <- release (l_mem l) nd a;
  Ok (n_data n0, upd l (l_size l - 1) head' tail' (hdel h2 nd), a').

(** for (i = 0; i < k; i++) node = node->next; *)
Fixpoint walk_next (h : heap) (nd : N) (k : nat) : res N :=
  match k with O => Ok nd | S k' => do n <- load h nd; walk_next h (n_next n) k' end.
Fixpoint walk_prev (h : heap) (nd : N) (k : nat) : res N :=
  match k with O => Ok nd | S k' => do n <- load h nd; walk_prev h (n_prev n) k' end.

(** get_node_at; the out parameter is reported as 0 when it is not written. *)
Definition get_node_at (l : clist) (index : N) : res (stat * N) :=
  if g_list_get_node_at_range (l_hdr l) index (l_size l) then Ok (CC_ERR_OUT_OF_RANGE, 0) else
  if g_list_get_node_at_front index (l_size l) then
    do n <- walk_next (l_heap l) (l_head l) (N.to_nat index); Ok (CC_OK, n)
  else
    do n <- walk_prev (l_heap l) (l_tail l) (N.to_nat (l_size l - 1 - index)); Ok (CC_OK, n).

(** get_node: first node whose data is pointer-equal to the element, 0 if none. [while (node)] loops
    run on fuel [S size]. *)
Fixpoint get_node_loop (fuel : nat) (h : heap) (nd x : N) : res N :=
  if nd =? 0 then Ok 0 else
  match fuel with O => Fault OutOfFuel | S f =>
    do n <- load h nd;
    if n_data n =? x then Ok nd else get_node_loop f h (n_next n) x
  end.
Definition fuel_of (l : clist) : nat := S (N.to_nat (l_size l)).
Definition get_node (l : clist) (x : N) : res N := get_node_loop (fuel_of l) (l_heap l) (l_head l) x.

(** The data along [next] until NULL (foreach / contains / contains_value / copy loops read it). *)
Fixpoint walk_data (fuel : nat) (h : heap) (nd : N) : res (list N) :=
  if nd =? 0 then Ok [] else
  match fuel with O => Fault OutOfFuel | S f =>
    do n <- load h nd; do r <- walk_data f h (n_next n); Ok (n_data n :: r)
  end.

(* --------------------------------------------------------------------------- constructor, add *)
Definition cl_new (mem : tag) (a : alloc_st) : stat * option clist * alloc_st :=
  match alloc mem HDR_BYTES a with
  | (None, a1) => (CC_ERR_ALLOC, None, a1)
  | (Some hd, a1) => (CC_OK, Some {| l_size := 0; l_head := 0; l_tail := 0; l_heap := []; l_hdr := hd; l_mem := mem |}, a1)
  end.

Definition fresh_node (x : N) : node := {| n_data := x; n_prev := 0; n_next := 0 |}.

Definition cl_add_first (l : clist) (x : N) (a : alloc_st) : res (stat * clist * alloc_st) :=
  match alloc (l_mem l) NODE_BYTES a with
  | (None, a1) => Ok (CC_ERR_ALLOC, l, a1)
  | (Some id, a1) =>
      let h0 := hset (l_heap l) id (fresh_node x) in
      if l_size l =? 0 then Ok (CC_OK, upd l (l_size l + 1) id id h0, a1)
      else
        do h1 <- set_next h0 id (l_head l);
        do h2 <- set_prev h1 (l_head l) id;
        Ok (CC_OK, upd l (l_size l + 1) id (l_tail l) h2, a1)
  end.

Definition cl_add_last (l : clist) (x : N) (a : alloc_st) : res (stat * clist * alloc_st) :=
  match alloc (l_mem l) NODE_BYTES a with
  | (None, a1) => Ok (CC_ERR_ALLOC, l, a1)
  | (Some id, a1) =>
      let h0 := hset (l_heap l) id (fresh_node x) in
      if l_size l =? 0 then Ok (CC_OK, upd l (l_size l + 1) id id h0, a1)
      else
        do h1 <- set_prev h0 id (l_tail l);
        do h2 <- set_next h1 (l_tail l) id;
        Ok (CC_OK, upd l (l_size l + 1) (l_head l) id h2, a1)
  end.

Definition cl_add := cl_add_last.

Definition cl_add_at (l : clist) (x index : N) (a : alloc_st) : res (stat * clist * alloc_st) :=
  do (st, base) <- get_node_at l index;
  if negb (is_ok st) then Ok (st, l, a) else
  match alloc (l_mem l) NODE_BYTES a with
  | (None, a1) => Ok (CC_ERR_ALLOC, l, a1)
  | (Some id, a1) =>
      let h0 := hset (l_heap l) id (fresh_node x) in
      do h1 <- link_behind h0 base id;
      let head' := if index =? 0 then id else l_head l in
      Ok (CC_OK, upd l (l_size l + 1) head' (l_tail l) h1, a1)
  end.

(* --------------------------------------------------------------------------- bulk copies *)

(** The cleanup loop of link_all_externally. *)
Fixpoint free_chain (fuel : nat) (hx : heap) (hd : N) (mem : tag) (a : alloc_st) : res alloc_st :=
  if hd =? 0 then Ok a else
  match fuel with O => Fault OutOfFuel | S f =>
    do n <- load hx hd; do a1 <- release mem hd a; free_chain f (hdel hx hd) (n_next n) mem a1
  end.

(** link_all_externally(dest, list, &h, &t): [src] is the source's heap, [mem] the DESTINATION's allocator
    (the copies are requested from, and on failure returned to, the list they will belong to); the copy
    chain is built in its own heap [hx]. [k] = remaining iterations, [fuel] bounds the cleanup. *)
Fixpoint lae_loop (k fuel : nat) (src : heap) (mem : tag) (insert hd tl : N) (hx : heap) (a : alloc_st)
  : res (option (N * N * heap) * alloc_st) :=
  match k with
  | O => Ok (Some (hd, tl, hx), a)
  | S k' =>
      match alloc mem NODE_BYTES a with
      | (None, a1) => do a2 <- free_chain fuel hx hd mem a1; Ok (None, a2)
      | (Some id, a1) =>
          do ni <- load src insert;
          let hx0 := hset hx id (fresh_node (n_data ni)) in
          do hx1 <- (if hd =? 0 then Ok hx0 else do hx' <- set_next hx0 tl id; set_prev hx' id tl);
          lae_loop k' fuel src mem (n_next ni) (if hd =? 0 then id else hd) id hx1 a1
      end
  end.
Definition link_all_externally (dest l2 : clist) (a : alloc_st) : res (option (N * N * heap) * alloc_st) :=
  lae_loop (N.to_nat (l_size l2)) (N.to_nat (l_size l2)) (l_heap l2) (l_mem dest) (l_head l2) 0 0 [] a.

Definition add_all_to_empty (l1 l2 : clist) (a : alloc_st) : res (stat * clist * alloc_st) :=
  if l_size l2 =? 0 then Ok (CC_OK, l1, a) else
  do (r, a1) <- link_all_externally l1 l2 a;
  match r with
  | None => Ok (CC_ERR_ALLOC, l1, a1)
  | Some (hd, tl, hx) => Ok (CC_OK, upd l1 (l_size l2) hd tl (hx ++ l_heap l1), a1)
  end.

(** The common prologue of add_all_at / splice_at: end = node at index (or NULL), base = its
    predecessor (or the node at index-1). *)
Definition end_base (l1 : clist) (index : N) : res (N * N) :=
  do (_, e) <- get_node_at l1 index;
  do b <- (if negb (e =? 0) then do ne <- load (l_heap l1) e; Ok (n_prev ne)
           else do (_, b) <- get_node_at l1 (index - 1); Ok b);
  Ok (e, b).

(** The three ways add_all_at attaches the copy chain [hd..tl] (on the union heap [h]); result: the new
    head and tail of list1 and the heap. *)
Definition attach_between (h : heap) (head1 tail1 hd tl e b : N) : res (N * N * heap) :=
  if e =? 0 then
    do h1 <- set_next h tail1 hd;
    do h2 <- set_prev h1 hd tail1;
    Ok (head1, tl, h2)
  else if b =? 0 then
    do h1 <- set_prev h head1 tl;
    do h2 <- set_next h1 tl head1;
    Ok (hd, tail1, h2)
  else
    do h1 <- set_prev h hd b;
    do h2 <- set_next h1 b hd;
    do h3 <- set_next h2 tl e;
    do h4 <- set_prev h3 e tl;
    Ok (head1, tail1, h4).

Definition cl_add_all_at (l1 l2 : clist) (index : N) (a : alloc_st) : res (stat * clist * alloc_st) :=
  if l_size l2 =? 0 then Ok (CC_OK, l1, a) else
  if g_list_add_all_at_range index (l_size l1) then Ok (CC_ERR_OUT_OF_RANGE, l1, a) else
  if l_size l1 =? 0 then add_all_to_empty l1 l2 a else
  do (r, a1) <- link_all_externally l1 l2 a;
  match r with
  | None => Ok (CC_ERR_ALLOC, l1, a1)
  | Some (hd, tl, hx) =>
      let l1m := upd l1 (l_size l1) (l_head l1) (l_tail l1) (hx ++ l_heap l1) in
      do (e, b) <- end_base l1m index;
      do (hd', tl', h') <- attach_between (l_heap l1m) (l_head l1) (l_tail l1) hd tl e b;
      Ok (CC_OK, upd l1 (l_size l1 + l_size l2) hd' tl' h', a1)
  end.

Definition cl_add_all (l1 l2 : clist) (a : alloc_st) : res (stat * clist * alloc_st) :=
  if l_size l1 =? 0 then add_all_to_empty l1 l2 a else cl_add_all_at l1 l2 (l_size l1) a.

(* --------------------------------------------------------------------------- splice *)
Definition emptied (l : clist) : clist := upd l 0 0 0 [].

(** The pointer writes of splice_between (on the union heap [h]); result: new head, tail, heap. *)
Definition splice_links (h : heap) (head1 tail1 hd tl left right : N) : res (N * N * heap) :=
  if left =? 0 then
    do h1 <- set_prev h head1 tl;
    do h2 <- set_next h1 tl head1;
    Ok (hd, tail1, h2)
  else if right =? 0 then
    do h1 <- set_next h tail1 hd;
    do h2 <- set_prev h1 hd tail1;
    Ok (head1, tl, h2)
  else
    do h1 <- set_next h left hd;
    do h2 <- set_prev h1 hd left;
    do h3 <- set_prev h2 right tl;
    do h4 <- set_next h3 tl right;
    Ok (head1, tail1, h4).

Definition splice_between (l1 l2 : clist) (h : heap) (left right : N) : res (clist * clist) :=
  do (hd, tl, h') <- splice_links h (l_head l1) (l_tail l1) (l_head l2) (l_tail l2) left right;
  Ok (upd l1 (l_size l1 + l_size l2) hd tl h', emptied l2).

Definition cl_splice_at (l1 l2 : clist) (index : N) : res (stat * clist * clist) :=
  if l_size l2 =? 0 then Ok (CC_OK, l1, l2) else
  if g_list_splice_at_range index (l_size l1) then Ok (CC_ERR_OUT_OF_RANGE, l1, l2) else
  if l_size l1 =? 0 then
    Ok (CC_OK, upd l1 (l_size l2) (l_head l2) (l_tail l2) (l_heap l2 ++ l_heap l1), emptied l2)
  else
    let l1m := upd l1 (l_size l1) (l_head l1) (l_tail l1) (l_heap l2 ++ l_heap l1) in
    do (e, b) <- end_base l1m index;
    do (l1', l2') <- splice_between l1 l2 (l_heap l1m) b e;
    Ok (CC_OK, l1', l2').

Definition cl_splice (l1 l2 : clist) : res (stat * clist * clist) := cl_splice_at l1 l2 (l_size l1).

(* --------------------------------------------------------------------------- removal *)
Definition cl_remove (l : clist) (x : N) (a : alloc_st) : res (stat * N * clist * alloc_st) :=
  do nd <- get_node l x;
  if nd =? 0 then Ok (CC_ERR_VALUE_NOT_FOUND, 0, l, a) else
  do n <- load (l_heap l) nd;
  do (_, l', a') <- unlinkn l nd a;
  Ok (CC_OK, n_data n, l', a').

Definition cl_remove_at (l : clist) (index : N) (a : alloc_st) : res (stat * N * clist * alloc_st) :=
  do (st, nd) <- get_node_at l index;
  if negb (is_ok st) then Ok (st, 0, l, a) else
  do n <- load (l_heap l) nd;
  do (_, l', a') <- unlinkn l nd a;
  Ok (CC_OK, n_data n, l', a').

Definition cl_remove_first (l : clist) (a : alloc_st) : res (stat * N * clist * alloc_st) :=
  if l_size l =? 0 then Ok (CC_ERR_VALUE_NOT_FOUND, 0, l, a) else
  do (e, l', a') <- unlinkn l (l_head l) a; Ok (CC_OK, e, l', a').

Definition cl_remove_last (l : clist) (a : alloc_st) : res (stat * N * clist * alloc_st) :=
  if l_size l =? 0 then Ok (CC_ERR_VALUE_NOT_FOUND, 0, l, a) else
  do (e, l', a') <- unlinkn l (l_tail l) a; Ok (CC_OK, e, l', a').

(** unlinkn_all(list, cb): the log is the sequence of arguments passed to [cb] (empty without cb). *)
Fixpoint unlink_all_loop (fuel : nat) (cb : bool) (l : clist) (nd : N) (a : alloc_st) (log : list N)
  : res (clist * alloc_st * list N) :=
  if nd =? 0 then Ok (l, a, log) else
  match fuel with O => Fault OutOfFuel | S f =>
    do n <- load (l_heap l) nd;
    let log' := if cb then log ++ [n_data n] else log in
    do (_, l', a') <- unlinkn l nd a;
    unlink_all_loop f cb l' (n_next n) a' log'
  end.
Definition unlinkn_all (cb : bool) (l : clist) (a : alloc_st) : res (bool * clist * alloc_st * list N) :=
  if l_size l =? 0 then Ok (false, l, a, []) else
  do (l', a', log) <- unlink_all_loop (fuel_of l) cb l (l_head l) a [];
  Ok (true, l', a', log).

Definition cl_remove_all_cb (cb : bool) (l : clist) (a : alloc_st) : res (stat * clist * alloc_st * list N) :=
  do (u, l', a', log) <- unlinkn_all cb l a;
  if u then Ok (CC_OK, upd l' (l_size l') 0 0 (l_heap l'), a', log)
  else Ok (CC_ERR_VALUE_NOT_FOUND, l', a', log).
Definition cl_remove_all := cl_remove_all_cb false.

Definition cl_destroy (l : clist) (a : alloc_st) : res alloc_st :=
  do (l', a1) <- (if 0 <? l_size l then do (_, l', a1, _) <- cl_remove_all l a; Ok (l', a1) else Ok (l, a));
  release (l_mem l') (l_hdr l') a1.
Definition cl_destroy_cb (l : clist) (a : alloc_st) : res (alloc_st * list N) :=
  do (_, l', a1, log) <- cl_remove_all_cb true l a;
  do a2 <- release (l_mem l') (l_hdr l') a1; Ok (a2, log).

(* --------------------------------------------------------------------------- access *)
Definition cl_replace_at (l : clist) (x index : N) : res (stat * N * clist) :=
  do (st, nd) <- get_node_at l index;
  if is_ok st then
    do n <- load (l_heap l) nd;
    do h <- set_data (l_heap l) nd x;
    Ok (st, n_data n, upd l (l_size l) (l_head l) (l_tail l) h)
  else Ok (st, 0, l).

Definition cl_get_first (l : clist) : res (stat * N) :=
  if l_size l =? 0 then Ok (CC_ERR_VALUE_NOT_FOUND, 0) else
  do n <- load (l_heap l) (l_head l); Ok (CC_OK, n_data n).
Definition cl_get_last (l : clist) : res (stat * N) :=
  if l_size l =? 0 then Ok (CC_ERR_VALUE_NOT_FOUND, 0) else
  do n <- load (l_heap l) (l_tail l); Ok (CC_OK, n_data n).
Definition cl_get_at (l : clist) (index : N) : res (stat * N) :=
  do (st, nd) <- get_node_at l index;
  if is_ok st then do n <- load (l_heap l) nd; Ok (st, n_data n) else Ok (st, 0).

Definition cl_size (l : clist) : N := l_size l.

(* --------------------------------------------------------------------------- reverse *)
Fixpoint rev_loop (k : nat) (h : heap) (left right : N) : res heap :=
  match k with O => Ok h | S k' =>
    do nl <- load h left;
    do nr <- load h right;
    do h1 <- swap h left right;
    rev_loop k' h1 (n_next nl) (n_prev nr)
  end.
Definition cl_reverse (l : clist) : res clist :=
  if g_list_reverse_trivial (l_size l) then Ok l else
  do h <- rev_loop (N.to_nat (l_size l / 2)) (l_heap l) (l_head l) (l_tail l);
  Ok (upd l (l_size l) (l_tail l) (l_head l) h).

(* --------------------------------------------------------------------------- derived lists *)

(** for (i = b; i <= e; i++) { add(sub, node->data); node = node->next; } *)
Fixpoint copy_loop_n (k : nat) (src : heap) (nd : N) (sub : clist) (a : alloc_st) : res (stat * option clist * alloc_st) :=
  match k with
  | O => Ok (CC_OK, Some sub, a)
  | S k' =>
      do n <- load src nd;
      do (st, sub', a1) <- cl_add sub (n_data n) a;
      if is_ok st then copy_loop_n k' src (n_next n) sub' a1
      else do a2 <- cl_destroy sub' a1; Ok (st, None, a2)
  end.

Definition cl_sublist (l : clist) (b e : N) (a : alloc_st) : res (stat * option clist * alloc_st) :=
  if g_list_sublist_range b e (l_size l) then Ok (CC_ERR_INVALID_RANGE, None, a) else
  match cl_new (l_mem l) a with
  | (st, None, a1) => Ok (st, None, a1)
  | (_, Some sub, a1) =>
      do (st, nd) <- get_node_at l b;
      if negb (is_ok st) then do a2 <- release (l_mem l) (l_hdr sub) a1; Ok (st, None, a2) else
      copy_loop_n (N.to_nat (e - b + 1)) (l_heap l) nd sub a1
  end.

(** while (node) { if (keep(node->data)) add(copy, f(node->data)); node = node->next; } *)
Fixpoint copy_loop_w (fuel : nat) (f : N -> N) (keep : N -> bool) (src : heap) (nd : N) (cp : clist) (a : alloc_st)
  : res (stat * option clist * alloc_st) :=
  if nd =? 0 then Ok (CC_OK, Some cp, a) else
  match fuel with O => Fault OutOfFuel | S fu =>
    do n <- load src nd;
    if keep (n_data n) then
      do (st, cp', a1) <- cl_add cp (f (n_data n)) a;
      if is_ok st then copy_loop_w fu f keep src (n_next n) cp' a1
      else do a2 <- cl_destroy cp' a1; Ok (st, None, a2)
    else copy_loop_w fu f keep src (n_next n) cp a
  end.

Definition cl_copy_with (f : N -> N) (keep : N -> bool) (l : clist) (a : alloc_st) : res (stat * option clist * alloc_st) :=
  match cl_new (l_mem l) a with
  | (st, None, a1) => Ok (st, None, a1)
  | (_, Some cp, a1) => copy_loop_w (fuel_of l) f keep (l_heap l) (l_head l) cp a1
  end.
Definition cl_copy_shallow := cl_copy_with (fun x => x) (fun _ => true).
Definition cl_copy_deep (cp : N -> N) := cl_copy_with cp (fun _ => true).
Definition cl_filter (pred : N -> bool) (l : clist) (a : alloc_st) : res (stat * option clist * alloc_st) :=
  if l_size l =? 0 then Ok (CC_ERR_OUT_OF_RANGE, None, a) else cl_copy_with (fun x => x) pred l a.

(* --------------------------------------------------------------------------- array, search, sort *)

(** for (i = 0; i < size; i++) { array[i] = node->data; node = node->next; } *)
Fixpoint read_n (k : nat) (h : heap) (nd : N) : res (list N) :=
  match k with O => Ok [] | S k' => do n <- load h nd; do r <- read_n k' h (n_next n); Ok (n_data n :: r) end.

(** The array is returned as its contents and its ledger block. *)
Definition cl_to_array (l : clist) (a : alloc_st) : res (stat * list N * N * alloc_st) :=
  if l_size l =? 0 then Ok (CC_ERR_INVALID_RANGE, [], 0, a) else
  match alloc (l_mem l) (l_size l * 8) a with
  | (None, a1) => Ok (CC_ERR_ALLOC, [], 0, a1)
  | (Some blk, a1) => do arr <- read_n (N.to_nat (l_size l)) (l_heap l) (l_head l); Ok (CC_OK, arr, blk, a1)
  end.

Definition cl_contains (l : clist) (x : N) : res N :=
  do d <- walk_data (fuel_of l) (l_heap l) (l_head l); Ok (lenN (filter (fun y => y =? x) d)).
Definition is_eq (c : comparison) : bool := match c with Eq => true | _ => false end.
Definition cl_contains_value (cmp : N -> N -> comparison) (l : clist) (x : N) : res N :=
  do d <- walk_data (fuel_of l) (l_heap l) (l_head l); Ok (lenN (filter (fun y => is_eq (cmp y x)) d)).

Fixpoint index_of_loop (fuel : nat) (cmp : N -> N -> comparison) (h : heap) (nd x i : N) : res (stat * N) :=
  if nd =? 0 then Ok (CC_ERR_OUT_OF_RANGE, 0) else
  match fuel with O => Fault OutOfFuel | S f =>
    do n <- load h nd;
    if is_eq (cmp (n_data n) x) then Ok (CC_OK, i) else index_of_loop f cmp h (n_next n) x (i + 1)
  end.
Definition cl_index_of (cmp : N -> N -> comparison) (l : clist) (x : N) : res (stat * N) :=
  index_of_loop (fuel_of l) cmp (l_heap l) (l_head l) x 0.

(** for (i = 0; i < size; i++) { node->data = elements[i]; node = node->next; } *)
Fixpoint write_back (k : nat) (i : N) (arr : list N) (h : heap) (nd : N) : res heap :=
  match k with O => Ok h | S k' =>
    do v <- of_opt OutOfBounds (getN arr i);
    do n <- load h nd;
    do h1 <- set_data h nd v;
    write_back k' (i + 1) arr h1 (n_next n)
  end.

(** cc_list_sort; [sorter] stands for qsort with the caller's comparator. *)
Definition cl_sort (sorter : list N -> list N) (l : clist) (a : alloc_st) : res (stat * clist * alloc_st) :=
  do (st, arr, blk, a1) <- cl_to_array l a;
  if negb (is_ok st) then Ok (st, l, a1) else
  do h <- write_back (N.to_nat (l_size l)) 0 (sorter arr) (l_heap l) (l_head l);
  do a2 <- release (l_mem l) blk a1;
  Ok (CC_OK, upd l (l_size l) (l_head l) (l_tail l) h, a2).

(* --------------------------------------------------------------------------- sort_in_place *)
Definition le_cmp (c : comparison) : bool := match c with Gt => false | _ => true end.

(** The loop of merge(); [k] = remaining iterations of [for (i = 0; i < size; i++)].
    Result: the final values of left and right, and the heap. *)
Fixpoint merge_loop (k : nat) (cmp : N -> N -> comparison) (h : heap) (size l_size r_size i l r l_part r_part left right : N)
  : res (N * N * heap) :=
  match k with
  | O => Ok (left, right, h)
  | S k' =>
      do nl <- load h l_part;
      do nr <- load h r_part;
      if le_cmp (cmp (n_data nl) (n_data nr)) then
        if g_list_merge_pair i size then Ok (left, right, h) else
        if g_list_merge_left_done l l_size then
          do rp <- walk_next h r_part (N.to_nat (r_size - 1 - r)); Ok (left, rp, h)
        else
          merge_loop k' cmp h size l_size r_size (i + 1) (l + 1) r (n_next nl) r_part left right
      else
        let tmp := n_next nr in
        do h1 <- link_behind h l_part r_part;
        if g_list_merge_pair2 i size then Ok (r_part, l_part, h1) else
        if g_list_merge_right_done (r + 1) r_size then
          do lp <- walk_next h1 l_part (N.to_nat (l_size - 1 - l)); Ok (left, lp, h1)
        else
          merge_loop k' cmp h1 size l_size r_size (i + 1) l (r + 1) l_part tmp (if i =? 0 then r_part else left) right
  end.
Definition merge (cmp : N -> N -> comparison) (h : heap) (left right l_size r_size : N) : res (N * N * heap) :=
  let size := r_size + l_size in
  merge_loop (N.to_nat size) cmp h size l_size r_size 0 0 0 left right left right.

(** split(); every level overwrites list->head / list->tail. *)
Fixpoint split (fuel : nat) (cmp : N -> N -> comparison) (l : clist) (b size : N) : res (N * clist) :=
  if g_list_split_base size then Ok (b, l) else
  match fuel with O => Fault OutOfFuel | S f =>
    let lsz := size / 2 in
    let rsz := size / 2 + size mod 2 in
    do center <- walk_next (l_heap l) b (N.to_nat lsz);
    do (l_head1, l1) <- split f cmp l b lsz;
    do (r_head1, l2) <- split f cmp l1 center rsz;
    do (lf, rt, h) <- merge cmp (l_heap l2) l_head1 r_head1 lsz rsz;
    Ok (lf, upd l2 (l_size l2) lf rt h)
  end.
Definition cl_sort_in_place (cmp : N -> N -> comparison) (l : clist) : res clist :=
  do (_, l') <- split (fuel_of l) cmp l (l_head l) (l_size l); Ok l'.

(* --------------------------------------------------------------------------- foreach, reduce, filter_mut *)
Definition cl_foreach (l : clist) : res (list N) := walk_data (fuel_of l) (l_heap l) (l_head l).

(** reduce: [fn a b] is the value the callback stores into *result. *)
Definition cl_reduce (fn : N -> N -> N) (l : clist) : res (stat * N) :=
  if l_size l =? 0 then Ok (CC_ERR_OUT_OF_RANGE, 0) else
  do n0 <- load (l_heap l) (l_head l);
  if l_size l =? 1 then Ok (CC_OK, fn (n_data n0) 0) else
  do n1 <- load (l_heap l) (n_next n0);
  do rest <- walk_data (fuel_of l) (l_heap l) (n_next n1);
  Ok (CC_OK, fold_left fn rest (fn (n_data n0) (n_data n1))).

Fixpoint filter_mut_loop (fuel : nat) (pred : N -> bool) (l : clist) (curr : N) (a : alloc_st) : res (clist * alloc_st) :=
  if curr =? 0 then Ok (l, a) else
  match fuel with O => Fault OutOfFuel | S f =>
    do n <- load (l_heap l) curr;
    do (l', a') <- (if negb (pred (n_data n)) then do (_, l', a') <- unlinkn l curr a; Ok (l', a') else Ok (l, a));
    filter_mut_loop f pred l' (n_next n) a'
  end.
Definition cl_filter_mut (pred : N -> bool) (l : clist) (a : alloc_st) : res (stat * clist * alloc_st) :=
  if l_size l =? 0 then Ok (CC_ERR_OUT_OF_RANGE, l, a) else
  do (l', a') <- filter_mut_loop (fuel_of l) pred l (l_head l) a; Ok (CC_OK, l', a').

(* --------------------------------------------------------------------------- iterators *)
Record iter := { it_index : N; it_last : N; it_next : N }.

Definition iter_init (l : clist) : iter := {| it_index := 0; it_last := 0; it_next := l_head l |}.
Definition diter_init (l : clist) : iter := {| it_index := l_size l; it_last := 0; it_next := l_tail l |}.

Definition iter_next (l : clist) (it : iter) : res (stat * N * iter) :=
  if it_next it =? 0 then Ok (CC_ITER_END, 0, it) else
  do n <- load (l_heap l) (it_next it);
  Ok (CC_OK, n_data n, {| it_index := it_index it + 1; it_last := it_next it; it_next := n_next n |}).
Definition diter_next (l : clist) (it : iter) : res (stat * N * iter) :=
  if it_next it =? 0 then Ok (CC_ITER_END, 0, it) else
  do n <- load (l_heap l) (it_next it);
  Ok (CC_OK, n_data n, {| it_index := wsub (it_index it) 1; it_last := it_next it; it_next := n_prev n |}).

Definition iter_remove (l : clist) (it : iter) (a : alloc_st) : res (stat * N * clist * iter * alloc_st) :=
  if it_last it =? 0 then Ok (CC_ERR_VALUE_NOT_FOUND, 0, l, it, a) else
  do (e, l', a') <- unlinkn l (it_last it) a;
  Ok (CC_OK, e, l', {| it_index := wsub (it_index it) 1; it_last := 0; it_next := it_next it |}, a').
Definition diter_remove (l : clist) (it : iter) (a : alloc_st) : res (stat * N * clist * iter * alloc_st) :=
  if it_last it =? 0 then Ok (CC_ERR_VALUE_NOT_FOUND, 0, l, it, a) else
  do (e, l', a') <- unlinkn l (it_last it) a;
  Ok (CC_OK, e, l', {| it_index := it_index it; it_last := 0; it_next := it_next it |}, a').

Definition iter_add (l : clist) (it : iter) (x : N) (a : alloc_st) : res (stat * clist * iter * alloc_st) :=
  match alloc (l_mem l) NODE_BYTES a with
  | (None, a1) => Ok (CC_ERR_ALLOC, l, it, a1)
  | (Some id, a1) =>
      let h0 := hset (l_heap l) id (fresh_node x) in
      do h1 <- link_after h0 (it_last it) id;
      do nn <- load h1 id;
      let tail' := if n_next nn =? 0 then id else l_tail l in
      Ok (CC_OK, upd l (l_size l + 1) (l_head l) tail' h1,
          {| it_index := it_index it + 1; it_last := it_last it; it_next := it_next it |}, a1)
  end.
Definition diter_add (l : clist) (it : iter) (x : N) (a : alloc_st) : res (stat * clist * iter * alloc_st) :=
  match alloc (l_mem l) NODE_BYTES a with
  | (None, a1) => Ok (CC_ERR_ALLOC, l, it, a1)
  | (Some id, a1) =>
      let h0 := hset (l_heap l) id (fresh_node x) in
      let head' := if it_index it =? 0 then id else l_head l in
      do h1 <- link_behind h0 (it_last it) id;
      Ok (CC_OK, upd l (l_size l + 1) head' (l_tail l) h1,
          {| it_index := it_index it; it_last := id; it_next := it_next it |}, a1)
  end.

(** iter_replace / diter_replace are the same text. *)
Definition iter_replace (l : clist) (it : iter) (x : N) : res (stat * N * clist) :=
  if it_last it =? 0 then Ok (CC_ERR_VALUE_NOT_FOUND, 0, l) else
  do n <- load (l_heap l) (it_last it);
  do h <- set_data (l_heap l) (it_last it) x;
  Ok (CC_OK, n_data n, upd l (l_size l) (l_head l) (l_tail l) h).

Definition iter_index (it : iter) : N := wsub (it_index it) 1.
Definition diter_index (it : iter) : N := it_index it.

(** Zip iterator. *)
Record ziter := { z_index : N; z1_last : N; z2_last : N; z1_next : N; z2_next : N }.
Definition zip_init (l1 l2 : clist) : ziter :=
  {| z_index := 0; z1_last := 0; z2_last := 0; z1_next := l_head l1; z2_next := l_head l2 |}.
Definition zip_next (l1 l2 : clist) (z : ziter) : res (stat * N * N * ziter) :=
  if (z1_next z =? 0) || (z2_next z =? 0) then Ok (CC_ITER_END, 0, 0, z) else
  do n1 <- load (l_heap l1) (z1_next z);
  do n2 <- load (l_heap l2) (z2_next z);
  Ok (CC_OK, n_data n1, n_data n2,
      {| z_index := z_index z + 1; z1_last := z1_next z; z2_last := z2_next z; z1_next := n_next n1; z2_next := n_next n2 |}).
Definition zip_add (l1 l2 : clist) (z : ziter) (e1 e2 : N) (a : alloc_st) : res (stat * clist * clist * ziter * alloc_st) :=
  match alloc (l_mem l1) NODE_BYTES a with
  | (None, a1) => Ok (CC_ERR_ALLOC, l1, l2, z, a1)
  | (Some id1, a1) =>
      match alloc (l_mem l2) NODE_BYTES a1 with
      | (None, a2) => do a3 <- release (l_mem l1) id1 a2; Ok (CC_ERR_ALLOC, l1, l2, z, a3)
      | (Some id2, a2) =>
          do h1 <- link_after (hset (l_heap l1) id1 (fresh_node e1)) (z1_last z) id1;
          do h2 <- link_after (hset (l_heap l2) id2 (fresh_node e2)) (z2_last z) id2;
          do nn1 <- load h1 id1;
          do nn2 <- load h2 id2;
          let t1 := if n_next nn1 =? 0 then id1 else l_tail l1 in
          let t2 := if n_next nn2 =? 0 then id2 else l_tail l2 in
          Ok (CC_OK, upd l1 (l_size l1 + 1) (l_head l1) t1 h1, upd l2 (l_size l2 + 1) (l_head l2) t2 h2,
              {| z_index := z_index z + 1; z1_last := z1_last z; z2_last := z2_last z; z1_next := z1_next z; z2_next := z2_next z |}, a2)
      end
  end.
Definition zip_remove (l1 l2 : clist) (z : ziter) (a : alloc_st) : res (stat * N * N * clist * clist * ziter * alloc_st) :=
  if (z1_last z =? 0) || (z2_last z =? 0) then Ok (CC_ERR_VALUE_NOT_FOUND, 0, 0, l1, l2, z, a) else
  do (e1, l1', a1) <- unlinkn l1 (z1_last z) a;
  do (e2, l2', a2) <- unlinkn l2 (z2_last z) a1;
  Ok (CC_OK, e1, e2, l1', l2',
      {| z_index := wsub (z_index z) 1; z1_last := 0; z2_last := 0; z1_next := z1_next z; z2_next := z2_next z |}, a2).
Definition zip_replace (l1 l2 : clist) (z : ziter) (e1 e2 : N) : res (stat * N * N * clist * clist) :=
  if (z1_last z =? 0) || (z2_last z =? 0) then Ok (CC_ERR_VALUE_NOT_FOUND, 0, 0, l1, l2) else
  do n1 <- load (l_heap l1) (z1_last z);
  do n2 <- load (l_heap l2) (z2_last z);
  do h1 <- set_data (l_heap l1) (z1_last z) e1;
  do h2 <- set_data (l_heap l2) (z2_last z) e2;
  Ok (CC_OK, n_data n1, n_data n2, upd l1 (l_size l1) (l_head l1) (l_tail l1) h1, upd l2 (l_size l2) (l_head l2) (l_tail l2) h2).
Definition zip_index (z : ziter) : N := wsub (z_index z) 1.

(* --------------------------------------------------------------------------- concrete callbacks *)
(** Used by both executables of the correspondence check (the theorems quantify over all). *)
Definition cmp_val (a b : N) : comparison := N.compare a b.
Definition cmp_key (a b : N) : comparison := N.compare (a / 16) (b / 16).
Definition pred_even (x : N) : bool := N.even x.
Definition cp_1000 (x : N) : N := wadd x 1000.
Definition red_fn (a b : N) : N := wadd (wmul a 31) b.

(** A stable insertion sort: the model's stand-in for qsort. *)
Fixpoint insert_sorted (cmp : N -> N -> comparison) (x : N) (l : list N) : list N :=
  match l with
  | [] => [x]
  | y :: t => if le_cmp (cmp x y) then x :: l else y :: insert_sorted cmp x t
  end.
Definition isort (cmp : N -> N -> comparison) (l : list N) : list N := fold_right (insert_sorted cmp) [] l.

(* --------------------------------------------------------------------------- state machine *)
(** Two lists [wa], [wb] and the ledger. An operation names its destination handle; the bulk
    operations take the other list as the source. *)
Record world := { wa : clist; wb : clist; wal : alloc_st }.
Inductive hnd := HA | HB.
Definition wget (w : world) (h : hnd) : clist := match h with HA => wa w | HB => wb w end.
Definition wother (h : hnd) : hnd := match h with HA => HB | HB => HA end.
Definition wset (w : world) (h : hnd) (l : clist) (a : alloc_st) : world :=
  match h with HA => {| wa := l; wb := wb w; wal := a |} | HB => {| wa := wa w; wb := l; wal := a |} end.
Definition wset2 (w : world) (h : hnd) (l src : clist) (a : alloc_st) : world :=
  match h with HA => {| wa := l; wb := src; wal := a |} | HB => {| wa := src; wb := l; wal := a |} end.

Inductive lop :=
  | OAddFirst (x : N) | OAddLast (x : N) | OAdd (x : N) | OAddAt (x i : N)
  | ORemove (x : N) | ORemoveAt (i : N) | ORemoveFirst | ORemoveLast | ORemoveAll | ORemoveAllCb
  | OReplaceAt (x i : N) | OGetFirst | OGetLast | OGetAt (i : N)
  | OIndexOf (x : N) | OContains (x : N) | OContainsValue (x : N) | OSize | OToArray | OForeach
  | OReverse | OFilterMut
  | OAddAll | OAddAllAt (i : N) | OSplice | OSpliceAt (i : N).

(** Status and out-values (a removed/replaced/read element, an index, a count, the array, the
    callback arguments in call order). *)
Inductive lout := LOut (st : stat) (vals : list N).

Section Step.
Variable cmp : N -> N -> comparison.
Variable pred : N -> bool.

Definition vals1 (st : stat) (v : N) : list N := if is_ok st then [v] else [].

Definition cl_step (w : world) (hd : hnd) (o : lop) : res (lout * world) :=
  let l := wget w hd in
  let a := wal w in
  match o with
  | OAddFirst x => do (st, l', a') <- cl_add_first l x a; Ok (LOut st [], wset w hd l' a')
  | OAddLast x => do (st, l', a') <- cl_add_last l x a; Ok (LOut st [], wset w hd l' a')
  | OAdd x => do (st, l', a') <- cl_add l x a; Ok (LOut st [], wset w hd l' a')
  | OAddAt x i => do (st, l', a') <- cl_add_at l x i a; Ok (LOut st [], wset w hd l' a')
  | ORemove x => do (st, v, l', a') <- cl_remove l x a; Ok (LOut st (vals1 st v), wset w hd l' a')
  | ORemoveAt i => do (st, v, l', a') <- cl_remove_at l i a; Ok (LOut st (vals1 st v), wset w hd l' a')
  | ORemoveFirst => do (st, v, l', a') <- cl_remove_first l a; Ok (LOut st (vals1 st v), wset w hd l' a')
  | ORemoveLast => do (st, v, l', a') <- cl_remove_last l a; Ok (LOut st (vals1 st v), wset w hd l' a')
  | ORemoveAll => do (st, l', a', _) <- cl_remove_all l a; Ok (LOut st [], wset w hd l' a')
  | ORemoveAllCb => do (st, l', a', log) <- cl_remove_all_cb true l a; Ok (LOut st log, wset w hd l' a')
  | OReplaceAt x i => do (st, v, l') <- cl_replace_at l x i; Ok (LOut st (vals1 st v), wset w hd l' a)
  | OGetFirst => do (st, v) <- cl_get_first l; Ok (LOut st (vals1 st v), w)
  | OGetLast => do (st, v) <- cl_get_last l; Ok (LOut st (vals1 st v), w)
  | OGetAt i => do (st, v) <- cl_get_at l i; Ok (LOut st (vals1 st v), w)
  | OIndexOf x => do (st, v) <- cl_index_of cmp l x; Ok (LOut st (vals1 st v), w)
  | OContains x => do c <- cl_contains l x; Ok (LOut CC_OK [c], w)
  | OContainsValue x => do c <- cl_contains_value cmp l x; Ok (LOut CC_OK [c], w)
  | OSize => Ok (LOut CC_OK [cl_size l], w)
  | OToArray =>
      do (st, arr, blk, a1) <- cl_to_array l a;
      if is_ok st then do a2 <- release (l_mem l) blk a1; Ok (LOut st arr, wset w hd l a2)
      else Ok (LOut st [], wset w hd l a1)
  | OForeach => do d <- cl_foreach l; Ok (LOut CC_OK d, w)
  | OReverse => do l' <- cl_reverse l; Ok (LOut CC_OK [], wset w hd l' a)
  | OFilterMut => do (st, l', a') <- cl_filter_mut pred l a; Ok (LOut st [], wset w hd l' a')
  | OAddAll => do (st, l', a') <- cl_add_all l (wget w (wother hd)) a; Ok (LOut st [], wset w hd l' a')
  | OAddAllAt i => do (st, l', a') <- cl_add_all_at l (wget w (wother hd)) i a; Ok (LOut st [], wset w hd l' a')
  | OSplice => do (st, l', s') <- cl_splice l (wget w (wother hd)); Ok (LOut st [], wset2 w hd l' s' a)
  | OSpliceAt i => do (st, l', s') <- cl_splice_at l (wget w (wother hd)) i; Ok (LOut st [], wset2 w hd l' s' a)
  end.

Fixpoint cl_run (w : world) (ops : list (hnd * lop)) : res (list lout * world) :=
  match ops with
  | [] => Ok ([], w)
  | (hd, o) :: r => do (out, w1) <- cl_step w hd o; do (outs, w2) <- cl_run w1 r; Ok (out :: outs, w2)
  end.

(* --------------------------------------------------------------------------- the ideal object *)
(** A pair of plain lists. [fl] says that the allocator refuses inside this operation: an
    allocating operation then reports CC_ERR_ALLOC and changes nothing. *)
Definition insert_at {A} (i : N) (x : list A) (l : list A) : list A := firstnN i l ++ x ++ skipnN i l.
Definition remove_nth {A} (i : N) (l : list A) : list A := firstnN i l ++ skipnN (i + 1) l.
Fixpoint remove_first_eq (x : N) (l : list N) : option (list N) :=
  match l with
  | [] => None
  | y :: t => if y =? x then Some t else match remove_first_eq x t with Some t' => Some (y :: t') | None => None end
  end.
Fixpoint find_index (f : N -> bool) (l : list N) (i : N) : option N :=
  match l with [] => None | y :: t => if f y then Some i else find_index f t (i + 1) end.
Definition replace_nth (i x : N) (l : list N) : list N := firstnN i l ++ x :: skipnN (i + 1) l.
(** [getN] behind the range test, so that the extracted code never converts a huge index to [nat]. *)
Definition nth_in (l : list N) (i : N) : option N := if lenN l <=? i then None else getN l i.

Definition spec_one (l src : list N) (o : lop) (fl : bool) : lout * list N * list N :=
  let err st := (LOut st [], l, src) in
  match o with
  | OAddFirst x => if fl then err CC_ERR_ALLOC else (LOut CC_OK [], x :: l, src)
  | OAddLast x | OAdd x => if fl then err CC_ERR_ALLOC else (LOut CC_OK [], l ++ [x], src)
  | OAddAt x i => if lenN l <=? i then err CC_ERR_OUT_OF_RANGE else
                  if fl then err CC_ERR_ALLOC else (LOut CC_OK [], insert_at i [x] l, src)
  | ORemove x => match remove_first_eq x l with
                 | Some l' => (LOut CC_OK [x], l', src) | None => err CC_ERR_VALUE_NOT_FOUND end
  | ORemoveAt i => match nth_in l i with
                   | Some v => (LOut CC_OK [v], remove_nth i l, src) | None => err CC_ERR_OUT_OF_RANGE end
  | ORemoveFirst => match l with v :: t => (LOut CC_OK [v], t, src) | [] => err CC_ERR_VALUE_NOT_FOUND end
  | ORemoveLast => match rev l with v :: t => (LOut CC_OK [v], rev t, src) | [] => err CC_ERR_VALUE_NOT_FOUND end
  | ORemoveAll => match l with [] => err CC_ERR_VALUE_NOT_FOUND | _ => (LOut CC_OK [], [], src) end
  | ORemoveAllCb => match l with [] => err CC_ERR_VALUE_NOT_FOUND | _ => (LOut CC_OK l, [], src) end
  | OReplaceAt x i => match nth_in l i with
                      | Some v => (LOut CC_OK [v], replace_nth i x l, src) | None => err CC_ERR_OUT_OF_RANGE end
  | OGetFirst => match l with v :: _ => (LOut CC_OK [v], l, src) | [] => err CC_ERR_VALUE_NOT_FOUND end
  | OGetLast => match rev l with v :: _ => (LOut CC_OK [v], l, src) | [] => err CC_ERR_VALUE_NOT_FOUND end
  | OGetAt i => match nth_in l i with Some v => (LOut CC_OK [v], l, src) | None => err CC_ERR_OUT_OF_RANGE end
  | OIndexOf x => match find_index (fun y => is_eq (cmp y x)) l 0 with
                  | Some i => (LOut CC_OK [i], l, src) | None => err CC_ERR_OUT_OF_RANGE end
  | OContains x => (LOut CC_OK [lenN (filter (fun y => y =? x) l)], l, src)
  | OContainsValue x => (LOut CC_OK [lenN (filter (fun y => is_eq (cmp y x)) l)], l, src)
  | OSize => (LOut CC_OK [lenN l], l, src)
  | OToArray => match l with [] => err CC_ERR_INVALID_RANGE | _ => if fl then err CC_ERR_ALLOC else (LOut CC_OK l, l, src) end
  | OForeach => (LOut CC_OK l, l, src)
  | OReverse => (LOut CC_OK [], rev l, src)
  | OFilterMut => match l with [] => err CC_ERR_OUT_OF_RANGE | _ => (LOut CC_OK [], filter pred l, src) end
  | OAddAll => match src with [] => err CC_OK | _ => if fl then err CC_ERR_ALLOC else (LOut CC_OK [], l ++ src, src) end
  | OAddAllAt i => match src with [] => err CC_OK | _ =>
                     if lenN l <? i then err CC_ERR_OUT_OF_RANGE else
                     if fl then err CC_ERR_ALLOC else (LOut CC_OK [], insert_at i src l, src) end
  | OSplice => match src with [] => err CC_OK | _ => (LOut CC_OK [], l ++ src, []) end
  | OSpliceAt i => match src with [] => err CC_OK | _ =>
                     if lenN l <? i then err CC_ERR_OUT_OF_RANGE else (LOut CC_OK [], insert_at i src l, []) end
  end.

Definition spec_step (p : list N * list N) (hd : hnd) (o : lop) (fl : bool) : lout * (list N * list N) :=
  match hd with
  | HA => let '(out, l, s) := spec_one (fst p) (snd p) o fl in (out, (l, s))
  | HB => let '(out, l, s) := spec_one (snd p) (fst p) o fl in (out, (s, l))
  end.

Fixpoint spec_run (p : list N * list N) (ops : list (hnd * lop)) (fls : list bool) : list lout * (list N * list N) :=
  match ops with
  | [] => ([], p)
  | (hd, o) :: r =>
      let fl := match fls with f :: _ => f | [] => false end in
      let '(out, p1) := spec_step p hd o fl in
      let '(outs, p2) := spec_run p1 r (tl fls) in (out :: outs, p2)
  end.
End Step.

(** Forward and backward traversals (total versions used by the abstraction and by [C04_list_mirror]):
    [k] nodes from [nd] along next / prev, as (id, data) pairs. *)
Fixpoint chain_next (k : nat) (h : heap) (nd : N) : list (N * N) :=
  match k with O => [] | S k' =>
    match hget h nd with Some n => (nd, n_data n) :: chain_next k' h (n_next n) | None => [] end end.
Fixpoint chain_prev (k : nat) (h : heap) (nd : N) : list (N * N) :=
  match k with O => [] | S k' =>
    match hget h nd with Some n => (nd, n_data n) :: chain_prev k' h (n_prev n) | None => [] end end.
Definition cl_chain (l : clist) : list (N * N) := chain_next (N.to_nat (l_size l)) (l_heap l) (l_head l).
Definition cl_abs (l : clist) : list N := map snd (cl_chain l).
Definition cl_back (l : clist) : list N := map snd (chain_prev (N.to_nat (l_size l)) (l_heap l) (l_tail l)).
