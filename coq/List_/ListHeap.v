(** Heap, segment and ledger toolkit for the doubly linked list proofs. *)
From Coq Require Import Permutation.
From CC Require Import Base.Prelude Base.ListMem Base.Alloc Base.AllocProofs.
From CC Require Import Generated.Status Generated.Guards List_.ListModel.
Local Open Scope N_scope.

(* ------------------------------------------------------------------------------------------ heap *)
Lemma hget_hdel h i j : hget (hdel h i) j = if i =? j then None else hget h j.
Proof.
  induction h as [|[k n] t IH]; cbn [hdel hget].
  - destruct (i =? j); reflexivity.
  - destruct (k =? i) eqn:E1.
    + rewrite IH. destruct (i =? j) eqn:E2; [reflexivity|].
      replace (k =? j) with false by lia. reflexivity.
    + cbn [hget]. rewrite IH. destruct (k =? j) eqn:E3; [|reflexivity].
      replace (i =? j) with false by lia. reflexivity.
Qed.
Lemma hget_hset h i n j : hget (hset h i n) j = if i =? j then Some n else hget h j.
Proof.
  unfold hset. cbn [hget]. destruct (i =? j) eqn:E; [reflexivity|].
  rewrite hget_hdel, E. reflexivity.
Qed.
Lemma hget_hset_same h i n : hget (hset h i n) i = Some n.
Proof. rewrite hget_hset, N.eqb_refl. reflexivity. Qed.
Lemma hget_hset_other h i n j : i <> j -> hget (hset h i n) j = hget h j.
Proof. intros H. rewrite hget_hset. replace (i =? j) with false by lia. reflexivity. Qed.
Lemma hget_hdel_same h i : hget (hdel h i) i = None.
Proof. rewrite hget_hdel, N.eqb_refl. reflexivity. Qed.
Lemma hget_hdel_other h i j : i <> j -> hget (hdel h i) j = hget h j.
Proof. intros H. rewrite hget_hdel. replace (i =? j) with false by lia. reflexivity. Qed.
Lemma hget_app h1 h2 j : hget (h1 ++ h2) j = match hget h1 j with Some n => Some n | None => hget h2 j end.
Proof.
  induction h1 as [|[k n] t IH]; cbn [app hget]; [reflexivity|].
  destruct (k =? j); [reflexivity|apply IH].
Qed.

Lemma load_ok h i n : i <> 0 -> hget h i = Some n -> load h i = Ok n.
Proof. intros Hi Hg. unfold load. replace (i =? 0) with false by lia. rewrite Hg. reflexivity. Qed.
Lemma load_inv h i n : load h i = Ok n -> i <> 0 /\ hget h i = Some n.
Proof.
  unfold load. destruct (i =? 0) eqn:E; [discriminate|].
  destruct (hget h i); cbn; [intros H; inversion H; subst; split; [lia|reflexivity] | discriminate].
Qed.

Lemma set_next_ok h i n v : i <> 0 -> hget h i = Some n ->
  set_next h i v = Ok (hset h i {| n_data := n_data n; n_prev := n_prev n; n_next := v |}).
Proof. intros Hi Hg. unfold set_next. rewrite (load_ok _ _ _ Hi Hg). reflexivity. Qed.
Lemma set_prev_ok h i n v : i <> 0 -> hget h i = Some n ->
  set_prev h i v = Ok (hset h i {| n_data := n_data n; n_prev := v; n_next := n_next n |}).
Proof. intros Hi Hg. unfold set_prev. rewrite (load_ok _ _ _ Hi Hg). reflexivity. Qed.
Lemma set_data_ok h i n v : i <> 0 -> hget h i = Some n ->
  set_data h i v = Ok (hset h i {| n_data := v; n_prev := n_prev n; n_next := n_next n |}).
Proof. intros Hi Hg. unfold set_data. rewrite (load_ok _ _ _ Hi Hg). reflexivity. Qed.

(* ------------------------------------------------------------------------------------------ id sequences *)
(** A list is represented by its sequence of (node id, data) pairs. *)
Definition ids (l : list (N * N)) : list N := map fst l.
Definition first_id (l : list (N * N)) (d : N) : N := match l with [] => d | (x, _) :: _ => x end.
Fixpoint last_id (l : list (N * N)) (d : N) : N := match l with [] => d | (x, _) :: t => last_id t x end.

Lemma ids_app l1 l2 : ids (l1 ++ l2) = ids l1 ++ ids l2.
Proof. apply map_app. Qed.
Lemma first_id_app l1 l2 d : first_id (l1 ++ l2) d = first_id l1 (first_id l2 d).
Proof. destruct l1 as [|[x v] t]; reflexivity. Qed.
Lemma last_id_app l1 l2 d : last_id (l1 ++ l2) d = last_id l2 (last_id l1 d).
Proof. revert d; induction l1 as [|[x v] t IH]; intros d; cbn; [reflexivity|apply IH]. Qed.
Lemma last_id_snoc l x v d : last_id (l ++ [(x, v)]) d = x.
Proof. rewrite last_id_app. reflexivity. Qed.
Lemma first_id_in l d : l <> [] -> In (first_id l d) (ids l).
Proof. destruct l as [|[x v] t]; [congruence|]. intros _. left; reflexivity. Qed.
Lemma last_id_in l d : l <> [] -> In (last_id l d) (ids l).
Proof.
  revert d; induction l as [|[x v] t IH]; intros d H; [congruence|].
  destruct t as [|y t']; [left; reflexivity|]. right. apply (IH x). discriminate.
Qed.
Lemma first_id_nil_iff l : ~ In 0 (ids l) -> (first_id l 0 = 0 <-> l = []).
Proof.
  intros H. split; [|intros ->; reflexivity].
  destruct l as [|[x v] t]; [reflexivity|]. cbn. intros ->. exfalso; apply H; left; reflexivity.
Qed.
Lemma last_id_nil_iff l : ~ In 0 (ids l) -> (last_id l 0 = 0 <-> l = []).
Proof.
  intros H. split; [|intros ->; reflexivity].
  intros E. destruct l as [|p t]; [reflexivity|]. exfalso. apply H. rewrite <- E. apply last_id_in. discriminate.
Qed.
Lemma first_id_d_irrel l d d' : l <> [] -> first_id l d = first_id l d'.
Proof. destruct l as [|[x v] t]; [congruence|reflexivity]. Qed.
Lemma last_id_d_irrel l d d' : l <> [] -> last_id l d = last_id l d'.
Proof. destruct l as [|[x v] t]; [congruence|reflexivity]. Qed.

Lemma lenN_length {A} (l : list A) : N.to_nat (lenN l) = length l.
Proof. unfold lenN; lia. Qed.

(** Splitting at an index. *)
Lemma split_at {A} (l : list A) (i : N) : i < lenN l -> exists l1 x l2, l = l1 ++ x :: l2 /\ lenN l1 = i.
Proof.
  unfold lenN. revert i; induction l as [|a t IH]; intros i H; cbn [length] in H; [lia|].
  destruct (N.eq_dec i 0) as [->|Hi].
  - exists [], a, t. split; reflexivity.
  - destruct (IH (i - 1)) as (l1 & x & l2 & -> & Hl); [lia|].
    exists (a :: l1), x, l2. split; [reflexivity|]. cbn [length]. lia.
Qed.

(* ------------------------------------------------------------------------------------------ segments *)
(** [dseg h p l n]: the nodes of [l] are linked in this order; the first one's prev is [p], the last one's
    next is [n]. *)
Fixpoint dseg (h : heap) (p : N) (l : list (N * N)) (n : N) : Prop :=
  match l with
  | [] => True
  | (x, d) :: t => hget h x = Some {| n_data := d; n_prev := p; n_next := first_id t n |} /\ dseg h x t n
  end.

Lemma dseg_app h p l1 l2 n :
  dseg h p (l1 ++ l2) n <-> dseg h p l1 (first_id l2 n) /\ dseg h (last_id l1 p) l2 n.
Proof.
  revert p; induction l1 as [|[x d] t IH]; intros p; cbn [app dseg last_id].
  - tauto.
  - rewrite IH, first_id_app. tauto.
Qed.

Lemma dseg_ext h h' p l n :
  (forall x, In x (ids l) -> hget h' x = hget h x) -> dseg h p l n -> dseg h' p l n.
Proof.
  revert p; induction l as [|[x d] t IH]; intros p He; cbn [dseg]; [tauto|].
  intros [H1 H2]. split.
  - rewrite He; [assumption|left; reflexivity].
  - apply IH; [|assumption]. intros y Hy; apply He; right; assumption.
Qed.

Lemma dseg_in h p l n x : dseg h p l n -> In x (ids l) -> exists nd, hget h x = Some nd.
Proof.
  revert p; induction l as [|[y d] t IH]; intros p; cbn [dseg ids map In]; [tauto|].
  intros [H1 H2] [<-|Hin]; [eauto|]. eapply IH; eauto.
Qed.

(** The node in the middle of a segment. *)
Lemma dseg_mid h p l1 x d l2 n :
  dseg h p (l1 ++ (x, d) :: l2) n ->
  hget h x = Some {| n_data := d; n_prev := last_id l1 p; n_next := first_id l2 n |}.
Proof. rewrite dseg_app. cbn [dseg]. tauto. Qed.

(** Changing the boundary links: guarded writes exactly as the C code does them
    ([if (x) x->next = v]); when the segment is empty nothing is written. *)
Lemma cond_set_next_last h p l n v :
  NoDup (ids l) -> ~ In 0 (ids l) -> dseg h p l n ->
  exists h', (if negb (last_id l 0 =? 0) then set_next h (last_id l 0) v else Ok h) = Ok h' /\
             dseg h' p l v /\ (forall j, j <> last_id l 0 -> hget h' j = hget h j) /\
             (l = [] -> h' = h) /\ (forall j, hget h' j <> None <-> hget h j <> None).
Proof.
  intros Hnd Hnz Hs.
  destruct (list_eq_dec (fun a b : N * N => ltac:(decide equality; apply N.eq_dec)) l []) as [->|Hne].
  - exists h. cbn. intuition.
  - assert (Hl : last_id l 0 <> 0) by (rewrite last_id_nil_iff; assumption).
    replace (last_id l 0 =? 0) with false by lia. cbn [negb].
    destruct (exists_last Hne) as (l0 & [x d] & ->).
    rewrite last_id_snoc in *.
    pose proof (dseg_mid h p l0 x d [] n Hs) as Hx. cbn [first_id] in Hx.
    rewrite (set_next_ok _ _ _ _ Hl Hx). cbn [n_data n_prev].
    eexists; split; [reflexivity|]. split; [|split; [|split]].
    + apply dseg_app in Hs. destruct Hs as [H1 H2]. apply dseg_app. cbn [first_id dseg] in *. split; [|split; [|exact I]].
      * eapply dseg_ext; [|exact H1]. intros y Hy. apply hget_hset_other.
        intros ->. rewrite ids_app in Hnd. apply NoDup_remove_2 in Hnd. apply Hnd. rewrite app_nil_r. exact Hy.
      * apply hget_hset_same.
    + intros j Hj. apply hget_hset_other. congruence.
    + intros E. destruct l0; discriminate.
    + intros j. rewrite hget_hset. destruct (x =? j) eqn:Ej; [|tauto].
      assert (x = j) by lia; subst j. rewrite Hx. split; discriminate.
Qed.

Lemma cond_set_prev_first h p l n v :
  NoDup (ids l) -> ~ In 0 (ids l) -> dseg h p l n ->
  exists h', (if negb (first_id l 0 =? 0) then set_prev h (first_id l 0) v else Ok h) = Ok h' /\
             dseg h' v l n /\ (forall j, j <> first_id l 0 -> hget h' j = hget h j) /\
             (l = [] -> h' = h) /\ (forall j, hget h' j <> None <-> hget h j <> None).
Proof.
  intros Hnd Hnz Hs. destruct l as [|[x d] t].
  - exists h. cbn. intuition.
  - cbn [first_id]. assert (Hx0 : x <> 0) by (intros ->; apply Hnz; left; reflexivity).
    replace (x =? 0) with false by lia. cbn [negb].
    destruct Hs as [Hx Ht].
    rewrite (set_prev_ok _ _ _ _ Hx0 Hx). cbn [n_data n_next].
    eexists; split; [reflexivity|]. split; [|split; [|split]].
    + cbn [dseg]. split; [apply hget_hset_same|].
      eapply dseg_ext; [|exact Ht]. intros y Hy. apply hget_hset_other.
      intros ->. cbn [ids map] in Hnd. apply NoDup_cons_iff in Hnd. tauto.
    + intros j Hj. apply hget_hset_other. congruence.
    + discriminate.
    + intros j. rewrite hget_hset. destruct (x =? j) eqn:Ej; [|tauto].
      assert (x = j) by lia; subst j. rewrite Hx. split; discriminate.
Qed.

(** Walking. *)
Lemma walk_next_seg h p l1 l2 n :
  ~ In 0 (ids l1) -> dseg h p (l1 ++ l2) n ->
  walk_next h (first_id (l1 ++ l2) n) (length l1) = Ok (first_id l2 n).
Proof.
  revert p; induction l1 as [|[x d] t IH]; intros p Hnz Hs; cbn [app length walk_next]; [reflexivity|].
  cbn [app dseg first_id] in *. destruct Hs as [Hx Ht].
  assert (Hx0 : x <> 0) by (intros ->; apply Hnz; left; reflexivity).
  rewrite (load_ok _ _ _ Hx0 Hx). cbn [bind n_next].
  eapply IH; [|exact Ht]. intros H0; apply Hnz; right; exact H0.
Qed.

Lemma walk_prev_seg h p l1 l2 n :
  ~ In 0 (ids l2) -> dseg h p (l1 ++ l2) n ->
  walk_prev h (last_id (l1 ++ l2) p) (length l2) = Ok (last_id l1 p).
Proof.
  revert l1 n; induction l2 as [|[x d] t IH] using rev_ind; intros l1 n Hnz Hs.
  - rewrite app_nil_r. reflexivity.
  - rewrite app_length. cbn [length]. replace (length t + 1)%nat with (S (length t)) by lia. cbn [walk_prev].
    rewrite app_assoc in Hs |- *. rewrite last_id_snoc.
    pose proof (dseg_mid _ _ _ _ _ _ _ Hs) as Hx. cbn [first_id] in Hx.
    rewrite ids_app in Hnz.
    assert (Hx0 : x <> 0) by (intros ->; apply Hnz; apply in_or_app; right; left; reflexivity).
    rewrite (load_ok _ _ _ Hx0 Hx). cbn [bind n_prev].
    apply dseg_app in Hs. destruct Hs as [Hs _].
    eapply IH; [|exact Hs]. intros H0; apply Hnz; apply in_or_app; left; exact H0.
Qed.

(** Total traversals used by the abstraction. *)
Lemma chain_next_seg h p l n : dseg h p l n -> chain_next (length l) h (first_id l n) = l.
Proof.
  revert p; induction l as [|[x d] t IH]; intros p; cbn [length chain_next dseg first_id]; [reflexivity|].
  intros [Hx Ht]. rewrite Hx. cbn [n_data n_next]. f_equal. eapply IH; exact Ht.
Qed.
Lemma chain_prev_seg h p l n : dseg h p l n -> chain_prev (length l) h (last_id l p) = rev l.
Proof.
  revert n; induction l as [|[x d] t IH] using rev_ind; intros n Hs; [reflexivity|].
  rewrite app_length, rev_app_distr. cbn [length rev app]. replace (length t + 1)%nat with (S (length t)) by lia.
  cbn [chain_prev]. rewrite last_id_snoc.
  pose proof (dseg_mid _ _ _ _ _ _ _ Hs) as Hx. rewrite Hx. cbn [n_data n_prev]. f_equal.
  apply dseg_app in Hs. eapply IH. apply Hs.
Qed.

Lemma nodup_app {A} (a b : list A) : NoDup (a ++ b) <-> NoDup a /\ NoDup b /\ (forall x, In x a -> ~ In x b).
Proof.
  induction a as [|y t IH]; cbn [app].
  - split; [intros H; split; [constructor|split; [exact H|intros x []]]|tauto].
  - rewrite !NoDup_cons_iff, IH, in_app_iff. split.
    + intros (Hn & H1 & H2 & H3). split; [tauto|]. split; [exact H2|].
      intros x [->|Hx]; [tauto|auto].
    + intros ((Hn & H1) & H2 & H3). split; [|split; [exact H1|split; [exact H2|]]].
      * intros [Hi|Hi]; [tauto|]. apply (H3 y); [left; reflexivity|exact Hi].
      * intros x Hx. apply H3. right; exact Hx.
Qed.

Lemma nodup_mid l1 (x d : N) l2 :
  NoDup (ids (l1 ++ (x, d) :: l2)) ->
  NoDup (ids l1) /\ NoDup (ids l2) /\ ~ In x (ids l1) /\ ~ In x (ids l2) /\ (forall y, In y (ids l1) -> ~ In y (ids l2)) /\
  NoDup (ids (l1 ++ l2)).
Proof.
  rewrite !ids_app. cbn [ids map fst]. intros H.
  pose proof (NoDup_remove_1 _ _ _ H) as H1. pose proof (NoDup_remove_2 _ _ _ H) as H2.
  apply nodup_app in H1. destruct H1 as (Ha & Hb & Hd).
  split; [exact Ha|]. split; [exact Hb|].
  split; [intros Hi; apply H2, in_or_app; left; exact Hi|]. split; [intros Hi; apply H2, in_or_app; right; exact Hi|].
  split; [exact Hd|]. apply nodup_app. auto.
Qed.

(* ------------------------------------------------------------------------------------------ representation *)
Record lrep (s : clist) (l : list (N * N)) : Prop := {
  rep_nodup : NoDup (ids l);
  rep_nz : ~ In 0 (ids l);
  rep_seg : dseg (l_heap s) 0 l 0;
  rep_head : l_head s = first_id l 0;
  rep_tail : l_tail s = last_id l 0;
  rep_size : l_size s = lenN l;
  rep_dom : forall x, hget (l_heap s) x <> None -> In x (ids l);
  rep_hdr : l_hdr s <> 0;
}.

Lemma lrep_chain s l : lrep s l -> cl_chain s = l.
Proof.
  intros R. unfold cl_chain. rewrite (rep_size _ _ R), (rep_head _ _ R), lenN_length.
  eapply chain_next_seg. exact (rep_seg _ _ R).
Qed.
Lemma lrep_abs s l : lrep s l -> cl_abs s = map snd l.
Proof. intros R. unfold cl_abs. rewrite (lrep_chain _ _ R). reflexivity. Qed.
Lemma lrep_back s l : lrep s l -> cl_back s = rev (map snd l).
Proof.
  intros R. unfold cl_back. rewrite (rep_size _ _ R), (rep_tail _ _ R), lenN_length.
  rewrite (chain_prev_seg _ _ _ _ (rep_seg _ _ R)). apply map_rev.
Qed.

(** The invariant of one list: it represents its own forward traversal. *)
Definition lwf (s : clist) : Prop := lrep s (cl_chain s).
Lemma lwf_iff s : lwf s <-> exists l, lrep s l.
Proof.
  split; [intros H; eexists; exact H|]. intros [l R]. unfold lwf. rewrite (lrep_chain _ _ R). exact R.
Qed.

Lemma lrep_hget s l x : lrep s l -> In x (ids l) -> x <> 0 /\ exists nd, hget (l_heap s) x = Some nd.
Proof.
  intros R Hin. split; [intros ->; exact (rep_nz _ _ R Hin)|]. eapply dseg_in; [exact (rep_seg _ _ R)|exact Hin].
Qed.

(* ------------------------------------------------------------------------------------------ ledger *)
Definition nblk (mem : tag) (x : N) : block := {| b_id := x; b_tag := mem; b_bytes := NODE_BYTES |}.
Definition hblk (s : clist) : block := {| b_id := l_hdr s; b_tag := l_mem s; b_bytes := HDR_BYTES |}.
Definition blocks (s : clist) (l : list (N * N)) : list block := hblk s :: map (nblk (l_mem s)) (ids l).

(** What an operation may do to the allocator besides [live]. *)
Record aframe (a a' : alloc_st) : Prop := {
  af_limit : limit a' = limit a;
  af_plan : plan a = [] -> plan a' = [];
  af_next : next_id a <= next_id a';
}.
Lemma aframe_refl a : aframe a a. Proof. constructor; auto; lia. Qed.
Lemma aframe_trans a b c : aframe a b -> aframe b c -> aframe a c.
Proof. intros [A1 A2 A3] [B1 B2 B3]. constructor; [congruence|auto|lia]. Qed.

Definition lok (a : alloc_st) : Prop := ledger_ok a /\ 0 < next_id a.

Lemma alloc_some t n a id a' :
  alloc t n a = (Some id, a') -> lok a ->
  id = next_id a /\ live a' = {| b_id := id; b_tag := t; b_bytes := n |} :: live a /\ lok a' /\ aframe a a' /\
  id <> 0 /\ ~ In id (map b_id (live a)).
Proof.
  intros E [Hl Hp]. pose proof (alloc_cases t n a) as C. rewrite E in C.
  destruct C as (-> & C2 & C3 & C4 & C5 & C6).
  destruct (alloc_ledger_ok _ _ _ _ _ Hl Hp E) as [Hl' Hp'].
  split; [reflexivity|]. split; [assumption|]. split; [split; assumption|]. split; [|split; [lia|]].
  - constructor; [assumption| |lia]. intros Hpl. rewrite C6, Hpl. reflexivity.
  - intros Hin. apply in_map_iff in Hin. destruct Hin as (b & Eb & Hb). apply (proj2 Hl) in Hb. lia.
Qed.
Lemma alloc_none t n a a' :
  alloc t n a = (None, a') -> lok a -> live a' = live a /\ lok a' /\ aframe a a' /\ (plan a <> [] \/ limit a < n).
Proof.
  intros E [Hl Hp]. pose proof (alloc_cases t n a) as C. rewrite E in C.
  destruct C as (C1 & C2 & C3 & C4 & C5).
  destruct (alloc_ledger_ok _ _ _ _ _ Hl Hp E) as [Hl' Hp'].
  split; [assumption|]. split; [split; assumption|]. split.
  - constructor; [assumption| |lia]. intros Hpl. rewrite C5, Hpl. reflexivity.
  - destruct (plan a) eqn:Epl; [|left; discriminate]. right.
    destruct (N.lt_ge_cases (limit a) n) as [|Hle]; [assumption|].
    destruct (alloc_grants t n a Epl Hle) as (a2 & E2 & _). congruence.
Qed.

(** Releasing a live block of the right family: it disappears, the rest keeps its order. *)
Lemma release_split t id a L1 n L2 :
  live a = L1 ++ {| b_id := id; b_tag := t; b_bytes := n |} :: L2 -> ~ In id (map b_id L1) -> lok a ->
  exists a', release t id a = Ok a' /\ live a' = L1 ++ L2 /\ lok a' /\ aframe a a' /\ next_id a' = next_id a /\ plan a' = plan a.
Proof.
  intros Hl Hni [[Hnd Hlt] Hp]. unfold release.
  assert (Hrb : remove_block id (live a) = Some ({| b_id := id; b_tag := t; b_bytes := n |}, L1 ++ L2)).
  { rewrite Hl. clear - Hni. induction L1 as [|b L IH]; cbn [app remove_block].
    - cbn [b_id]. rewrite N.eqb_refl. reflexivity.
    - cbn [map In] in Hni. replace (b_id b =? id) with false by (apply eq_sym, N.eqb_neq; tauto).
      rewrite IH by tauto. reflexivity. }
  rewrite Hrb. cbn [b_tag]. rewrite tag_eqb_refl. eexists; split; [reflexivity|]. cbn [live next_id plan limit].
  split; [reflexivity|]. split; [|split; [constructor; cbn; auto; lia|auto]].
  split; [|assumption]. split; cbn [live next_id].
  - rewrite Hl in Hnd. rewrite map_app in *. cbn [map] in Hnd. apply NoDup_remove_1 in Hnd. exact Hnd.
  - intros b Hb. apply Hlt. rewrite Hl. apply in_app_or in Hb. apply in_or_app. destruct Hb; [left|right; right]; assumption.
Qed.

Lemma release_perm t id a n R :
  Permutation (live a) ({| b_id := id; b_tag := t; b_bytes := n |} :: R) -> lok a ->
  exists a', release t id a = Ok a' /\ Permutation (live a') R /\ lok a' /\ aframe a a' /\ next_id a' = next_id a /\ plan a' = plan a.
Proof.
  intros HP Hk.
  assert (Hin : In {| b_id := id; b_tag := t; b_bytes := n |} (live a)).
  { eapply Permutation_in; [apply Permutation_sym; exact HP|left; reflexivity]. }
  assert (Hnd : NoDup (map b_id (live a))) by apply Hk.
  (* first occurrence of the id *)
  assert (Hsp : exists L1 L2, live a = L1 ++ {| b_id := id; b_tag := t; b_bytes := n |} :: L2 /\ ~ In id (map b_id L1)).
  { apply in_split in Hin. destruct Hin as (L1 & L2 & E). exists L1, L2. split; [exact E|].
    rewrite E, map_app in Hnd. cbn [map b_id] in Hnd. apply NoDup_remove_2 in Hnd. intros H; apply Hnd, in_or_app; left; exact H. }
  destruct Hsp as (L1 & L2 & E & Hni).
  destruct (release_split _ _ _ _ _ _ E Hni Hk) as (a' & Hr & Hl' & Hk' & Hf & Hn' & Hp').
  exists a'. split; [assumption|]. split; [|auto].
  rewrite Hl'. rewrite E in HP. apply Permutation_cons_inv with (a := {| b_id := id; b_tag := t; b_bytes := n |}).
  eapply Permutation_trans; [|exact HP]. apply Permutation_middle.
Qed.

(** Ownership: the ledger is exactly the blocks of this list plus a frame [F] (the other list). *)
Definition owns (a : alloc_st) (s : clist) (l : list (N * N)) (F : list block) : Prop :=
  Permutation (live a) (blocks s l ++ F).

Lemma owns_fresh a s l F id : owns a s l F -> ~ In id (map b_id (live a)) -> ~ In id (ids l) /\ id <> l_hdr s.
Proof.
  intros Ho Hni. assert (Hs : forall x, In x (map b_id (blocks s l ++ F)) -> In x (map b_id (live a))).
  { intros x. apply Permutation_in. apply Permutation_map, Permutation_sym, Ho. }
  split.
  - intros Hin. apply Hni, Hs. rewrite map_app. apply in_or_app. left. cbn [blocks map]. right.
    rewrite map_map. cbn [nblk b_id]. rewrite map_id. exact Hin.
  - intros ->. apply Hni, Hs. left. reflexivity.
Qed.
