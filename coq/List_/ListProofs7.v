(** Doubly linked list: iterators (forward, descending, zip) - lemma family for C07. *)
From Coq Require Import Permutation.
From CC Require Import Base.Prelude Base.ListMem Base.Alloc Base.AllocProofs.
From CC Require Import Generated.Status Generated.Guards List_.ListModel List_.ListHeap List_.ListProofs1 List_.ListProofs2
  List_.ListProofs3 List_.ListProofs4.
Local Open Scope N_scope.

Lemma wsub1 a : 0 < a -> a < W -> wsub a 1 = a - 1.
Proof.
  intros H0 HW. unfold wsub. change (1 mod W) with 1. replace (a + W - 1) with ((a - 1) + 1 * W) by lia.
  rewrite N.mod_add by (unfold W; lia). apply N.mod_small. lia.
Qed.

(* ------------------------------------------------------------------------------------------ link_after with a fresh node *)
Lemma link_after_fresh h p l1 b db l2 id x :
  NoDup (ids (l1 ++ (b, db) :: l2)) -> ~ In 0 (ids (l1 ++ (b, db) :: l2)) -> dseg h p (l1 ++ (b, db) :: l2) 0 ->
  id <> 0 -> ~ In id (ids (l1 ++ (b, db) :: l2)) -> hget h id = Some (fresh_node x) ->
  exists h', link_after h b id = Ok h' /\ dseg h' p (l1 ++ (b, db) :: (id, x) :: l2) 0 /\ dom_eq h h'.
Proof.
  intros Hnd Hnz Hs Hid0 Hni Hid.
  destruct (nodup_mid _ _ _ _ Hnd) as (Hnd1 & Hnd2 & Hb1 & Hb2 & Hdis & _).
  assert (Hb0 : b <> 0) by (intros ->; apply Hnz; rewrite ids_app; apply in_or_app; right; left; reflexivity).
  assert (Hbid : b <> id) by (intros ->; apply Hni; rewrite ids_app; apply in_or_app; right; left; reflexivity).
  assert (Hnz2 : ~ In 0 (ids l2)) by (intros H0; apply Hnz; rewrite ids_app; apply in_or_app; right; right; exact H0).
  assert (Hni1 : ~ In id (ids l1)) by (intros H0; apply Hni; rewrite ids_app; apply in_or_app; left; exact H0).
  assert (Hni2 : ~ In id (ids l2)) by (intros H0; apply Hni; rewrite ids_app; apply in_or_app; right; right; exact H0).
  pose proof (dseg_mid _ _ _ _ _ _ _ Hs) as Hb.
  apply dseg_app in Hs. cbn [dseg first_id] in Hs. destruct Hs as (Hs1 & _ & Hs2).
  unfold link_after. rewrite (load_ok _ _ _ Hid0 Hid). cbn [bind fresh_node n_next n_prev N.eqb negb].
  rewrite (load_ok _ _ _ Hid0 Hid). cbn [bind fresh_node n_next n_prev N.eqb negb].
  rewrite (load_ok _ _ _ Hb0 Hb). cbn [bind n_next].
  destruct (first_id l2 0 =? 0) eqn:En.
  - assert (l2 = []) by (apply first_id_nil_iff; [assumption|lia]). subst l2. cbn [first_id] in *.
    rewrite (set_prev_ok h id (fresh_node x)) by assumption. cbn [bind fresh_node n_data n_next].
    set (h1 := hset h id _).
    assert (Hb1' : hget h1 b = Some {| n_data := db; n_prev := last_id l1 p; n_next := 0 |}).
    { unfold h1. rewrite hget_hset_other by congruence. exact Hb. }
    rewrite (set_next_ok _ _ _ id Hb0 Hb1'). cbn [bind n_data n_prev].
    set (h2 := hset h1 b _).
    assert (Hid2 : hget h2 id = Some {| n_data := x; n_prev := b; n_next := 0 |}).
    { unfold h2. rewrite hget_hset_other by congruence. apply hget_hset_same. }
    rewrite (set_next_ok _ _ _ _ Hid0 Hid2). cbn [bind n_data n_prev].
    eexists; split; [reflexivity|]. split.
    + apply dseg_app. cbn [dseg first_id]. split; [|split; [|split; [|exact I]]].
      * eapply dseg_ext; [|exact Hs1]. intros y Hy. unfold h2, h1. rewrite !hget_hset_other; [reflexivity| | |]; intros ->; contradiction.
      * rewrite hget_hset_other by congruence. unfold h2. apply hget_hset_same.
      * apply hget_hset_same.
    + eapply dom_eq_trans; [eapply dom_eq_hset; exact Hid|]. eapply dom_eq_trans; [eapply dom_eq_hset; exact Hb1'|].
      eapply dom_eq_hset. exact Hid2.
  - assert (Hne2 : l2 <> []) by (intros ->; cbn in En; discriminate).
    assert (Hfin : In (first_id l2 0) (ids l2)) by (apply first_id_in; assumption).
    assert (Hfid : first_id l2 0 <> id) by (intros E; apply Hni2; rewrite <- E; exact Hfin).
    assert (Hfb : first_id l2 0 <> b) by (intros E; apply Hb2; rewrite <- E; exact Hfin).
    rewrite (set_next_ok h id (fresh_node x)) by assumption. cbn [bind fresh_node n_data n_prev].
    set (h3 := hset h id _).
    rewrite (load_ok h3 id _ Hid0 (hget_hset_same _ _ _)). cbn [bind n_next].
    assert (Hs3 : dseg h3 b l2 0).
    { eapply dseg_ext; [|exact Hs2]. intros y Hy. unfold h3. apply hget_hset_other. intros ->; contradiction. }
    destruct (set_prev_first h3 b l2 0 id Hne2 Hnd2 Hnz2 Hs3) as (h4 & E4 & Hs4 & Hfr4 & Hdom4).
    rewrite E4. cbn [bind].
    assert (H4id : hget h4 id = Some {| n_data := x; n_prev := 0; n_next := first_id l2 0 |}).
    { rewrite Hfr4 by congruence. unfold h3. apply hget_hset_same. }
    rewrite (set_prev_ok h4 id _ b Hid0 H4id). cbn [bind n_data n_next].
    assert (H5b : hget (hset h4 id {| n_data := x; n_prev := b; n_next := first_id l2 0 |}) b =
                  Some {| n_data := db; n_prev := last_id l1 p; n_next := first_id l2 0 |}).
    { rewrite hget_hset_other by congruence. rewrite Hfr4 by congruence. unfold h3. rewrite hget_hset_other by congruence. exact Hb. }
    rewrite (set_next_ok _ b _ id Hb0 H5b). cbn [bind n_data n_prev].
    eexists; split; [reflexivity|]. split.
    + apply dseg_app. cbn [dseg first_id]. split; [|split; [|split]].
      * eapply dseg_ext; [|exact Hs1]. intros y Hy.
        rewrite !hget_hset_other; [| |]; try (intros ->; contradiction).
        rewrite Hfr4 by (intros ->; exact (Hdis _ Hy Hfin)). unfold h3. apply hget_hset_other. intros ->; contradiction.
      * apply hget_hset_same.
      * rewrite hget_hset_other by congruence. apply hget_hset_same.
      * eapply dseg_ext; [|exact Hs4]. intros y Hy.
        rewrite !hget_hset_other; [reflexivity| |]; intros ->; contradiction.
    + eapply dom_eq_trans; [eapply dom_eq_hset; exact Hid|]. eapply dom_eq_trans; [exact Hdom4|].
      eapply dom_eq_trans; [eapply dom_eq_hset; exact H4id|]. eapply dom_eq_hset. exact H5b.
Qed.

(* ------------------------------------------------------------------------------------------ forward iterator *)
(** [done] have been yielded (and are still there), [rest] is what the iterator will yield. *)
Record it_pos (it : iter) (done rest : list (N * N)) : Prop := {
  ip_next : it_next it = first_id rest 0;
  ip_index : it_index it = lenN done;
}.

Lemma iter_init_pos s l : lrep s l -> it_pos (iter_init s) [] l.
Proof. intros R. constructor; cbn; [apply R|reflexivity]. Qed.

Lemma iter_next_end s it done : it_pos it done [] -> iter_next s it = Ok (CC_ITER_END, 0, it).
Proof. intros [Hn _]. unfold iter_next. rewrite Hn. reflexivity. Qed.

Lemma iter_next_yield s it done x d t :
  lrep s (done ++ (x, d) :: t) -> it_pos it done ((x, d) :: t) ->
  exists it', iter_next s it = Ok (CC_OK, d, it') /\ it_pos it' (done ++ [(x, d)]) t /\ it_last it' = x.
Proof.
  intros R [Hn Hi]. unfold iter_next. rewrite Hn. cbn [first_id].
  assert (Hx0 : x <> 0) by (intros ->; apply (rep_nz _ _ R); rewrite ids_app; apply in_or_app; right; left; reflexivity).
  replace (x =? 0) with false by lia.
  rewrite (load_ok _ _ _ Hx0 (dseg_mid _ _ _ _ _ _ _ (rep_seg _ _ R))). cbn [bind n_data n_next].
  eexists. split; [reflexivity|]. split; [|reflexivity]. constructor; cbn [it_next it_index]; [reflexivity|].
  rewrite Hi, lenN_app. reflexivity.
Qed.

(** Calling next [k] times: the values yielded and the status of the last call that did not yield (CC_OK if all did). *)
Fixpoint iter_drain (k : nat) (s : clist) (it : iter) : res (list N * stat) :=
  match k with
  | O => Ok ([], CC_OK)
  | S k' => do (st, v, it') <- iter_next s it;
            if is_ok st then do (r, st') <- iter_drain k' s it'; Ok (v :: r, st') else Ok ([], st)
  end.

Lemma iter_drain_spec s rest : forall done it, lrep s (done ++ rest) -> it_pos it done rest ->
  iter_drain (S (length rest)) s it = Ok (map snd rest, CC_ITER_END).
Proof.
  induction rest as [|[x d] t IH]; intros done it R Hp.
  - cbn [length iter_drain]. rewrite (iter_next_end s it done Hp). reflexivity.
  - cbn [length]. change (iter_drain (S (S (length t))) s it) with
      (do (st, v, it') <- iter_next s it; if is_ok st then do (r, st') <- iter_drain (S (length t)) s it'; Ok (v :: r, st') else Ok ([], st)).
    destruct (iter_next_yield s it done x d t R Hp) as (it' & E & Hp' & _). rewrite E. cbn [bind is_ok].
    change (done ++ (x, d) :: t) with (done ++ [(x, d)] ++ t) in R. rewrite app_assoc in R.
    rewrite (IH _ it' R Hp'). reflexivity.
Qed.

(** A fresh iterator yields exactly the list, in order, then CC_ITER_END. *)
Theorem iter_fresh_complete s l : lrep s l -> iter_drain (S (length l)) s (iter_init s) = Ok (map snd l, CC_ITER_END).
Proof. intros R. apply (iter_drain_spec s l [] _ R). apply iter_init_pos. exact R. Qed.

(** After a yield of [x]: index, replace, remove, add. *)
Lemma iter_index_spec it done x d rest : it_pos it (done ++ [(x, d)]) rest -> lenN (done ++ [(x, d)]) < W -> iter_index it = lenN done.
Proof.
  intros [_ Hi] HW. unfold iter_index. rewrite Hi. rewrite lenN_app, lenN_cons in *. cbn [lenN length N.of_nat] in *.
  rewrite wsub1 by lia. lia.
Qed.

Lemma iter_replace_spec s it done x d rest v :
  lrep s (done ++ (x, d) :: rest) -> it_last it = x ->
  exists s', iter_replace s it v = Ok (CC_OK, d, s') /\ lrep s' (done ++ (x, v) :: rest) /\ same_hdr s s'.
Proof.
  intros R Hl. unfold iter_replace. rewrite Hl.
  assert (Hx0 : x <> 0) by (intros ->; apply (rep_nz _ _ R); rewrite ids_app; apply in_or_app; right; left; reflexivity).
  replace (x =? 0) with false by lia.
  destruct (replace_at_spec s done x d rest v R) as (s' & E & R' & Hh).
  unfold cl_replace_at in E. rewrite (get_node_at_in _ _ _ _ _ R) in E. cbn [bind is_ok] in E.
  destruct (load (l_heap s) x) as [n|]; [|discriminate]. cbn [bind] in E |- *.
  destruct (set_data (l_heap s) x v) as [h|]; [|discriminate]. cbn [bind] in E |- *.
  inversion E; subst. eauto.
Qed.
Lemma iter_replace_none s it v : it_last it = 0 -> iter_replace s it v = Ok (CC_ERR_VALUE_NOT_FOUND, 0, s).
Proof. intros H. unfold iter_replace. rewrite H. reflexivity. Qed.

Lemma iter_remove_spec s it done x d rest a F :
  lrep s (done ++ (x, d) :: rest) -> lown a s (done ++ (x, d) :: rest) F ->
  it_pos it (done ++ [(x, d)]) rest -> it_last it = x -> lenN (done ++ [(x, d)]) < W ->
  exists s' it' a', iter_remove s it a = Ok (CC_OK, d, s', it', a') /\ lrep s' (done ++ rest) /\ lown a' s' (done ++ rest) F /\
                    it_pos it' done rest /\ it_last it' = 0 /\ same_hdr s s' /\ aframe a a'.
Proof.
  intros R Hown [Hn Hi] Hl HW. unfold iter_remove. rewrite Hl.
  assert (Hx0 : x <> 0) by (intros ->; apply (rep_nz _ _ R); rewrite ids_app; apply in_or_app; right; left; reflexivity).
  replace (x =? 0) with false by lia.
  destruct (unlinkn_spec s done x d rest a F R Hown) as (s' & a' & E & R' & Hown' & Hh & Hf & _).
  rewrite E. cbn [bind]. do 3 eexists. split; [reflexivity|]. split; [exact R'|]. split; [exact Hown'|].
  split; [|auto]. constructor; cbn [it_next it_index]; [exact Hn|].
  rewrite Hi. rewrite lenN_app, lenN_cons in *. cbn [lenN length N.of_nat] in *. rewrite wsub1 by lia. lia.
Qed.
Lemma iter_remove_none s it a : it_last it = 0 -> iter_remove s it a = Ok (CC_ERR_VALUE_NOT_FOUND, 0, s, it, a).
Proof. intros H. unfold iter_remove. rewrite H. reflexivity. Qed.

(** [added]: nodes already inserted through the iterator since [x] was yielded (each add goes directly behind [x], so
    the most recent one comes first). The new node becomes the tail exactly when nothing follows it. *)
Lemma iter_add_spec s it done x d added rest a F v :
  lrep s (done ++ (x, d) :: added ++ rest) -> lown a s (done ++ (x, d) :: added ++ rest) F ->
  it_pos it (done ++ (x, d) :: added) rest -> it_last it = x ->
  match alloc (l_mem s) NODE_BYTES a with
  | (Some id, a1) => exists s' it', iter_add s it v a = Ok (CC_OK, s', it', a1) /\
        lrep s' (done ++ (x, d) :: (id, v) :: added ++ rest) /\ lown a1 s' (done ++ (x, d) :: (id, v) :: added ++ rest) F /\
        it_pos it' (done ++ (x, d) :: (id, v) :: added) rest /\ it_last it' = x /\ same_hdr s s' /\ aframe a a1
  | (None, a1) => iter_add s it v a = Ok (CC_ERR_ALLOC, s, it, a1) /\ lown a1 s (done ++ (x, d) :: added ++ rest) F /\ live a1 = live a /\
                  aframe a a1 /\ (plan a <> [] \/ limit a < NODE_BYTES)
  end.
Proof.
  intros R [Hk Ho] [Hn Hi] Hl. unfold iter_add. set (tl := added ++ rest) in *.
  destruct (alloc (l_mem s) NODE_BYTES a) as [[id|] a1] eqn:E.
  2:{ destruct (alloc_none _ _ _ _ E Hk) as (Hl1 & Hk1 & Hf & Hw). split; [reflexivity|].
      split; [split; [assumption|unfold owns; rewrite Hl1; exact Ho]|auto]. }
  destruct (alloc_some _ _ _ _ _ E Hk) as (_ & Hl1 & Hk1 & Hf & Hid0 & Hfr).
  destruct (fresh_facts _ _ _ _ _ (conj Hk Ho) Hfr) as [Hni Hnh].
  pose proof (lrep_dom_fresh _ _ _ R Hni) as Hnone.
  set (h0 := hset (l_heap s) id (fresh_node v)).
  assert (Hs0 : dseg h0 0 (done ++ (x, d) :: tl) 0).
  { eapply dseg_ext; [|exact (rep_seg _ _ R)]. intros y Hy. unfold h0. apply hget_hset_other. intros ->; contradiction. }
  rewrite Hl.
  destruct (link_after_fresh h0 0 done x d tl id v (rep_nodup _ _ R) (rep_nz _ _ R) Hs0 Hid0 Hni (hget_hset_same _ _ _))
    as (h1 & E1 & Hs1 & Hdom1).
  rewrite E1. cbn [bind].
  assert (Hnew : hget h1 id = Some {| n_data := v; n_prev := x; n_next := first_id tl 0 |}).
  { change (done ++ (x, d) :: (id, v) :: tl) with (done ++ [(x, d)] ++ (id, v) :: tl) in Hs1. rewrite app_assoc in Hs1.
    pose proof (dseg_mid _ _ _ _ _ _ _ Hs1) as H. rewrite last_id_snoc in H. exact H. }
  rewrite (load_ok _ _ _ Hid0 Hnew). cbn [bind n_next].
  do 2 eexists. split; [reflexivity|].
  assert (Hperm : Permutation (ids (done ++ (x, d) :: (id, v) :: tl)) (id :: ids (done ++ (x, d) :: tl))).
  { rewrite !ids_app. cbn [ids map fst].
    change (ids done ++ x :: id :: map fst tl) with (ids done ++ [x] ++ id :: map fst tl). rewrite app_assoc.
    eapply Permutation_trans; [apply Permutation_sym, Permutation_middle|]. rewrite <- app_assoc. reflexivity. }
  split; [|split; [split; [assumption|eapply owns_insert; eauto]|]].
  - constructor; cbn [upd l_heap l_head l_tail l_size l_hdr].
    + eapply Permutation_NoDup; [apply Permutation_sym, Hperm|]. constructor; [exact Hni|apply R].
    + intros H0. eapply Permutation_in in H0; [|exact Hperm]. destruct H0 as [H0|H0]; [congruence|exact (rep_nz _ _ R H0)].
    + exact Hs1.
    + rewrite (rep_head _ _ R), !first_id_app. reflexivity.
    + rewrite !last_id_app. cbn [last_id].
      assert (Hnzt : ~ In 0 (ids tl)).
      { intros H0. apply (rep_nz _ _ R). rewrite ids_app. apply in_or_app. right. right. exact H0. }
      rewrite (first_nz tl Hnzt). destruct tl as [|[y dy] tt]; [reflexivity|].
      rewrite (rep_tail _ _ R), !last_id_app. reflexivity.
    + rewrite (rep_size _ _ R), !lenN_app, !lenN_cons. lia.
    + intros y Hy. apply Hdom1 in Hy. unfold h0 in Hy.
      eapply Permutation_in; [apply Permutation_sym, Hperm|].
      destruct (N.eq_dec id y) as [<-|Hne2]; [left; reflexivity|]. right.
      rewrite hget_hset_other in Hy by assumption. apply (rep_dom _ _ R). exact Hy.
    + apply (rep_hdr _ _ R).
  - split; [|auto]. constructor; cbn [it_next it_index]; [exact Hn|]. rewrite Hi, !lenN_app, !lenN_cons. lia.
Qed.

(* ------------------------------------------------------------------------------------------ descending iterator *)
(** [rest] is what the iterator will still yield (from its end), [done] have been yielded. *)
Record dit_pos (it : iter) (rest done : list (N * N)) : Prop := {
  dp_next : it_next it = last_id rest 0;
  dp_index : it_index it = lenN rest;
}.

Lemma diter_init_pos s l : lrep s l -> dit_pos (diter_init s) l [].
Proof. intros R. constructor; cbn; apply R. Qed.

Lemma diter_next_end s it done : dit_pos it [] done -> diter_next s it = Ok (CC_ITER_END, 0, it).
Proof. intros [Hn _]. unfold diter_next. rewrite Hn. reflexivity. Qed.

Lemma diter_next_yield s it rest x d done :
  lrep s ((rest ++ [(x, d)]) ++ done) -> dit_pos it (rest ++ [(x, d)]) done -> lenN (rest ++ [(x, d)]) < W ->
  exists it', diter_next s it = Ok (CC_OK, d, it') /\ dit_pos it' rest ((x, d) :: done) /\ it_last it' = x.
Proof.
  intros R [Hn Hi] HW. unfold diter_next. rewrite Hn, last_id_snoc. rewrite <- app_assoc in R. cbn [app] in R.
  assert (Hx0 : x <> 0) by (intros ->; apply (rep_nz _ _ R); rewrite ids_app; apply in_or_app; right; left; reflexivity).
  replace (x =? 0) with false by lia.
  rewrite (load_ok _ _ _ Hx0 (dseg_mid _ _ _ _ _ _ _ (rep_seg _ _ R))). cbn [bind n_data n_prev].
  eexists. split; [reflexivity|]. split; [|reflexivity]. constructor; cbn [it_next it_index]; [reflexivity|].
  rewrite Hi. rewrite lenN_app, lenN_cons in *. cbn [lenN length N.of_nat] in *. rewrite wsub1 by lia. lia.
Qed.

Fixpoint diter_drain (k : nat) (s : clist) (it : iter) : res (list N * stat) :=
  match k with
  | O => Ok ([], CC_OK)
  | S k' => do (st, v, it') <- diter_next s it;
            if is_ok st then do (r, st') <- diter_drain k' s it'; Ok (v :: r, st') else Ok ([], st)
  end.

Lemma diter_drain_spec s : forall rest done it, lrep s (rest ++ done) -> dit_pos it rest done -> lenN rest < W ->
  diter_drain (S (length rest)) s it = Ok (rev (map snd rest), CC_ITER_END).
Proof.
  induction rest as [|[x d] t IH] using rev_ind; intros done it R Hp HW.
  - cbn [length diter_drain]. rewrite (diter_next_end s it done Hp). reflexivity.
  - rewrite app_length. cbn [length]. replace (length t + 1)%nat with (S (length t)) by lia.
    change (diter_drain (S (S (length t))) s it) with
      (do (st, v, it') <- diter_next s it; if is_ok st then do (r, st') <- diter_drain (S (length t)) s it'; Ok (v :: r, st') else Ok ([], st)).
    destruct (diter_next_yield s it t x d done R Hp HW) as (it' & E & Hp' & _). rewrite E. cbn [bind is_ok].
    rewrite <- app_assoc in R. cbn [app] in R.
    rewrite (IH _ it' R Hp') by (rewrite lenN_app in HW; lia). rewrite map_app, rev_app_distr. reflexivity.
Qed.

(** The descending iterator yields the reverse of the list, then CC_ITER_END. *)
Theorem diter_fresh_complete s l : lrep s l -> lenN l < W ->
  diter_drain (S (length l)) s (diter_init s) = Ok (rev (map snd l), CC_ITER_END).
Proof.
  intros R HW. apply (diter_drain_spec s l [] _); [rewrite app_nil_r; exact R|apply diter_init_pos; exact R|exact HW].
Qed.

Lemma diter_index_spec it rest done : dit_pos it rest done -> diter_index it = lenN rest.
Proof. intros [_ Hi]. exact Hi. Qed.

Lemma diter_remove_spec s it rest x d done a F :
  lrep s (rest ++ (x, d) :: done) -> lown a s (rest ++ (x, d) :: done) F ->
  dit_pos it rest ((x, d) :: done) -> it_last it = x ->
  exists s' it' a', diter_remove s it a = Ok (CC_OK, d, s', it', a') /\ lrep s' (rest ++ done) /\ lown a' s' (rest ++ done) F /\
                    dit_pos it' rest done /\ it_last it' = 0 /\ same_hdr s s' /\ aframe a a'.
Proof.
  intros R Hown [Hn Hi] Hl. unfold diter_remove. rewrite Hl.
  assert (Hx0 : x <> 0) by (intros ->; apply (rep_nz _ _ R); rewrite ids_app; apply in_or_app; right; left; reflexivity).
  replace (x =? 0) with false by lia.
  destruct (unlinkn_spec s rest x d done a F R Hown) as (s' & a' & E & R' & Hown' & Hh & Hf & _).
  rewrite E. cbn [bind]. do 3 eexists. split; [reflexivity|]. split; [exact R'|]. split; [exact Hown'|].
  split; [|auto]. constructor; cbn [it_next it_index]; assumption.
Qed.

Lemma diter_add_spec s it rest x d done a F v :
  lrep s (rest ++ (x, d) :: done) -> lown a s (rest ++ (x, d) :: done) F ->
  dit_pos it rest ((x, d) :: done) -> it_last it = x ->
  match alloc (l_mem s) NODE_BYTES a with
  | (Some id, a1) => exists s' it', diter_add s it v a = Ok (CC_OK, s', it', a1) /\
        lrep s' (rest ++ (id, v) :: (x, d) :: done) /\ lown a1 s' (rest ++ (id, v) :: (x, d) :: done) F /\
        dit_pos it' rest ((id, v) :: (x, d) :: done) /\ it_last it' = id /\ same_hdr s s' /\ aframe a a1
  | (None, a1) => diter_add s it v a = Ok (CC_ERR_ALLOC, s, it, a1) /\ lown a1 s (rest ++ (x, d) :: done) F /\ live a1 = live a /\
                  aframe a a1 /\ (plan a <> [] \/ limit a < NODE_BYTES)
  end.
Proof.
  intros R [Hk Ho] [Hn Hi] Hl. unfold diter_add.
  destruct (alloc (l_mem s) NODE_BYTES a) as [[id|] a1] eqn:E.
  2:{ destruct (alloc_none _ _ _ _ E Hk) as (Hl1 & Hk1 & Hf & Hw). split; [reflexivity|].
      split; [split; [assumption|unfold owns; rewrite Hl1; exact Ho]|auto]. }
  destruct (alloc_some _ _ _ _ _ E Hk) as (_ & Hl1 & Hk1 & Hf & Hid0 & Hfr).
  destruct (fresh_facts _ _ _ _ _ (conj Hk Ho) Hfr) as [Hni Hnh].
  set (h0 := hset (l_heap s) id (fresh_node v)).
  assert (Hs0 : dseg h0 0 (rest ++ (x, d) :: done) 0).
  { eapply dseg_ext; [|exact (rep_seg _ _ R)]. intros y Hy. unfold h0. apply hget_hset_other. intros ->; contradiction. }
  rewrite Hl.
  destruct (link_behind_fresh h0 rest x d done 0 id v (rep_nodup _ _ R) (rep_nz _ _ R) Hs0 Hid0 Hni (hget_hset_same _ _ _))
    as (h1 & E1 & Hs1 & Hdom1).
  rewrite E1. cbn [bind].
  do 2 eexists. split; [reflexivity|].
  assert (Hperm : Permutation (ids (rest ++ (id, v) :: (x, d) :: done)) (id :: ids (rest ++ (x, d) :: done))).
  { rewrite !ids_app. cbn [ids map fst]. apply Permutation_sym, Permutation_middle. }
  split; [|split; [split; [assumption|eapply owns_insert; eauto]|]].
  - constructor; cbn [upd l_heap l_head l_tail l_size l_hdr].
    + eapply Permutation_NoDup; [apply Permutation_sym, Hperm|]. constructor; [exact Hni|apply R].
    + intros H0. eapply Permutation_in in H0; [|exact Hperm]. destruct H0 as [H0|H0]; [congruence|exact (rep_nz _ _ R H0)].
    + exact Hs1.
    + rewrite first_id_app. cbn [first_id]. rewrite Hi. destruct rest as [|[y dy] rt].
      * reflexivity.
      * replace (lenN ((y, dy) :: rt) =? 0) with false by (rewrite lenN_cons; lia). rewrite (rep_head _ _ R). reflexivity.
    + rewrite (rep_tail _ _ R), !last_id_app. reflexivity.
    + rewrite (rep_size _ _ R), !lenN_app, !lenN_cons. lia.
    + intros y Hy. apply Hdom1 in Hy. unfold h0 in Hy.
      eapply Permutation_in; [apply Permutation_sym, Hperm|].
      destruct (N.eq_dec id y) as [<-|Hne2]; [left; reflexivity|]. right.
      rewrite hget_hset_other in Hy by assumption. apply (rep_dom _ _ R). exact Hy.
    + apply (rep_hdr _ _ R).
  - split; [|auto]. constructor; cbn [it_next it_index]; assumption.
Qed.

(* ------------------------------------------------------------------------------------------ zip iterator *)
Record zip_pos (z : ziter) (done1 rest1 done2 rest2 : list (N * N)) : Prop := {
  zp_next1 : z1_next z = first_id rest1 0;
  zp_next2 : z2_next z = first_id rest2 0;
  zp_index1 : z_index z = lenN done1;
  zp_index2 : z_index z = lenN done2;
}.

Lemma zip_init_pos s1 l1 s2 l2 : lrep s1 l1 -> lrep s2 l2 -> zip_pos (zip_init s1 s2) [] l1 [] l2.
Proof. intros R1 R2. constructor; cbn; try reflexivity; [apply R1|apply R2]. Qed.

Lemma zip_next_end s1 s2 z done1 rest1 done2 rest2 :
  lrep s1 (done1 ++ rest1) -> lrep s2 (done2 ++ rest2) -> zip_pos z done1 rest1 done2 rest2 -> rest1 = [] \/ rest2 = [] ->
  zip_next s1 s2 z = Ok (CC_ITER_END, 0, 0, z).
Proof.
  intros R1 R2 [H1 H2 _ _] He. unfold zip_next. rewrite H1, H2. destruct He as [-> | ->]; cbn [first_id N.eqb orb]; [reflexivity|].
  rewrite orb_true_r. reflexivity.
Qed.

Lemma zip_next_yield s1 s2 z done1 x1 d1 t1 done2 x2 d2 t2 :
  lrep s1 (done1 ++ (x1, d1) :: t1) -> lrep s2 (done2 ++ (x2, d2) :: t2) ->
  zip_pos z done1 ((x1, d1) :: t1) done2 ((x2, d2) :: t2) ->
  exists z', zip_next s1 s2 z = Ok (CC_OK, d1, d2, z') /\ zip_pos z' (done1 ++ [(x1, d1)]) t1 (done2 ++ [(x2, d2)]) t2 /\
             z1_last z' = x1 /\ z2_last z' = x2.
Proof.
  intros R1 R2 [H1 H2 H3 H4]. unfold zip_next. rewrite H1, H2. cbn [first_id].
  assert (Hx1 : x1 <> 0) by (intros ->; apply (rep_nz _ _ R1); rewrite ids_app; apply in_or_app; right; left; reflexivity).
  assert (Hx2 : x2 <> 0) by (intros ->; apply (rep_nz _ _ R2); rewrite ids_app; apply in_or_app; right; left; reflexivity).
  replace (x1 =? 0) with false by lia. replace (x2 =? 0) with false by lia. cbn [orb].
  rewrite (load_ok _ _ _ Hx1 (dseg_mid _ _ _ _ _ _ _ (rep_seg _ _ R1))), (load_ok _ _ _ Hx2 (dseg_mid _ _ _ _ _ _ _ (rep_seg _ _ R2))).
  cbn [bind n_data n_next]. eexists. split; [reflexivity|]. split; [|auto].
  constructor; cbn [z1_next z2_next z_index]; try reflexivity.
  - rewrite H3, lenN_app. reflexivity.
  - rewrite H4, lenN_app. reflexivity.
Qed.

Fixpoint zip_drain (k : nat) (s1 s2 : clist) (z : ziter) : res (list (N * N) * stat) :=
  match k with
  | O => Ok ([], CC_OK)
  | S k' => do (st, v1, v2, z') <- zip_next s1 s2 z;
            if is_ok st then do (r, st') <- zip_drain k' s1 s2 z'; Ok ((v1, v2) :: r, st') else Ok ([], st)
  end.

Lemma zip_drain_spec s1 s2 : forall rest1 rest2 done1 done2 z,
  lrep s1 (done1 ++ rest1) -> lrep s2 (done2 ++ rest2) -> zip_pos z done1 rest1 done2 rest2 ->
  zip_drain (S (Nat.min (length rest1) (length rest2))) s1 s2 z = Ok (combine (map snd rest1) (map snd rest2), CC_ITER_END).
Proof.
  induction rest1 as [|[x1 d1] t1 IH]; intros rest2 done1 done2 z R1 R2 Hp.
  - cbn [length Nat.min zip_drain]. rewrite (zip_next_end s1 s2 z _ _ _ _ R1 R2 Hp) by auto. reflexivity.
  - destruct rest2 as [|[x2 d2] t2].
    + cbn [length Nat.min zip_drain]. rewrite (zip_next_end s1 s2 z _ _ _ _ R1 R2 Hp) by auto. reflexivity.
    + cbn [length Nat.min].
      change (zip_drain (S (S (Nat.min (length t1) (length t2)))) s1 s2 z) with
        (do (st, v1, v2, z') <- zip_next s1 s2 z;
         if is_ok st then do (r, st') <- zip_drain (S (Nat.min (length t1) (length t2))) s1 s2 z'; Ok ((v1, v2) :: r, st') else Ok ([], st)).
      destruct (zip_next_yield s1 s2 z done1 x1 d1 t1 done2 x2 d2 t2 R1 R2 Hp) as (z' & E & Hp' & _). rewrite E. cbn [bind is_ok].
      change (done1 ++ (x1, d1) :: t1) with (done1 ++ [(x1, d1)] ++ t1) in R1. rewrite app_assoc in R1.
      change (done2 ++ (x2, d2) :: t2) with (done2 ++ [(x2, d2)] ++ t2) in R2. rewrite app_assoc in R2.
      rewrite (IH t2 _ _ z' R1 R2 Hp'). reflexivity.
Qed.

(** The zip iterator walks both lists in lockstep and stops at the shorter one. *)
Theorem zip_fresh_complete s1 l1 s2 l2 : lrep s1 l1 -> lrep s2 l2 ->
  zip_drain (S (Nat.min (length l1) (length l2))) s1 s2 (zip_init s1 s2) = Ok (combine (map snd l1) (map snd l2), CC_ITER_END).
Proof. intros R1 R2. apply (zip_drain_spec s1 s2 l1 l2 [] []); try assumption. apply zip_init_pos; assumption. Qed.
