(** Doubly linked list: swap and reverse. *)
From Coq Require Import Permutation.
From CC Require Import Base.Prelude Base.ListMem Base.Alloc Base.AllocProofs.
From CC Require Import Generated.Status Generated.Guards List_.ListModel List_.ListHeap List_.ListProofs1 List_.ListProofs2.
Local Open Scope N_scope.

Ltac hg := repeat first [rewrite hget_hset_same | rewrite hget_hset_other by congruence].

Lemma dom_eq_hset h i n nd : hget h i = Some nd -> dom_eq h (hset h i n).
Proof.
  intros H j. rewrite hget_hset. destruct (i =? j) eqn:E; [|tauto].
  assert (i = j) by lia; subst j. rewrite H. split; discriminate.
Qed.

(** Disequalities available inside  P ++ x :: y-or-M ++ ... ++ S. *)
Lemma last_notin l (z : N) : ~ In z (ids l) -> z <> 0 -> last_id l 0 <> z.
Proof. intros Hn Hz E. destruct l as [|p t]; [cbn in E; congruence|]. apply Hn. rewrite <- E. apply last_id_in. discriminate. Qed.
Lemma first_notin l (z : N) : ~ In z (ids l) -> z <> 0 -> first_id l 0 <> z.
Proof. intros Hn Hz E. destruct l as [|p t]; [cbn in E; congruence|]. apply Hn. rewrite <- E. apply first_id_in. discriminate. Qed.
Lemma last_notin_seg l l' : (forall y, In y (ids l) -> ~ In y (ids l')) -> ~ In 0 (ids l') -> ~ In (last_id l 0) (ids l').
Proof. intros Hd Hz Hin. destruct l as [|p t]; [cbn in Hin; contradiction|]. eapply Hd; [|exact Hin]. apply last_id_in. discriminate. Qed.
Lemma first_notin_seg l l' : (forall y, In y (ids l) -> ~ In y (ids l')) -> ~ In 0 (ids l') -> ~ In (first_id l 0) (ids l').
Proof. intros Hd Hz Hin. destruct l as [|p t]; [cbn in Hin; contradiction|]. eapply Hd; [|exact Hin]. apply first_id_in. discriminate. Qed.

(* ------------------------------------------------------------------------------------------ adjacent swap *)
Lemma swap_adj_core_spec h P x dx y dy S :
  NoDup (ids (P ++ (x, dx) :: (y, dy) :: S)) -> ~ In 0 (ids (P ++ (x, dx) :: (y, dy) :: S)) ->
  dseg h 0 (P ++ (x, dx) :: (y, dy) :: S) 0 ->
  exists h', swap_adj_core h x y = Ok h' /\ dseg h' 0 (P ++ (y, dy) :: (x, dx) :: S) 0 /\ dom_eq h h'.
Proof.
  intros Hnd Hnz Hs.
  rewrite !ids_app in Hnd, Hnz. cbn [ids map fst] in Hnd, Hnz.
  apply nodup_app in Hnd. destruct Hnd as (HndP & Hnd2 & HdP).
  apply NoDup_cons_iff in Hnd2. destruct Hnd2 as [HxS Hnd2]. apply NoDup_cons_iff in Hnd2. destruct Hnd2 as [HyS HndS].
  rewrite in_app_iff in Hnz. cbn [In] in Hnz, HxS.
  assert (Hx0 : x <> 0) by tauto. assert (Hy0 : y <> 0) by tauto. assert (Hxy : x <> y) by (intuition congruence).
  assert (HnzP : ~ In 0 (ids P)) by tauto. assert (HnzS : ~ In 0 (ids S)) by tauto.
  assert (HxP : ~ In x (ids P)) by (intros H; apply (HdP x H); left; reflexivity).
  assert (HyP : ~ In y (ids P)) by (intros H; apply (HdP y H); right; left; reflexivity).
  assert (HxS' : ~ In x (ids S)) by tauto.
  assert (HdPS : forall z, In z (ids P) -> ~ In z (ids S)) by (intros z Hz Hin; apply (HdP z Hz); right; right; exact Hin).
  assert (HdSP : forall z, In z (ids S) -> ~ In z (ids P)) by (intros z Hz Hin; exact (HdPS z Hin Hz)).
  pose proof (last_notin P x HxP Hx0) as Hlx. pose proof (last_notin P y HyP Hy0) as Hly.
  pose proof (first_notin S x HxS' Hx0) as Hfx. pose proof (first_notin S y HyS Hy0) as Hfy.
  pose proof (last_notin_seg P S HdPS HnzS) as HlS. pose proof (first_notin_seg S P HdSP HnzP) as HfP.
  apply dseg_app in Hs. cbn [dseg first_id] in Hs. destruct Hs as (HsP & Hx & Hy & HsS).
  unfold swap_adj_core.
  rewrite (load_ok _ _ _ Hy0 Hy). cbn [bind n_next].
  destruct (cond_set_prev_first h y S 0 x HndS HnzS HsS) as (h1 & E1 & HsS1 & Hfr1 & _ & Hd1).
  rewrite E1. cbn [bind].
  assert (Hy1 : hget h1 y = Some {| n_data := dy; n_prev := x; n_next := first_id S 0 |}) by (rewrite Hfr1 by congruence; exact Hy).
  assert (Hx1 : hget h1 x = Some {| n_data := dx; n_prev := last_id P 0; n_next := y |}) by (rewrite Hfr1 by congruence; exact Hx).
  rewrite (load_ok _ _ _ Hy0 Hy1). cbn [bind n_next].
  rewrite (set_next_ok _ _ _ _ Hx0 Hx1). cbn [bind n_data n_prev].
  set (h2 := hset h1 x _).
  rewrite (load_ok h2 x _ Hx0 (hget_hset_same _ _ _)). cbn [bind n_prev].
  assert (HsP2 : dseg h2 0 P x).
  { eapply dseg_ext; [|exact HsP]. intros z Hz. unfold h2. rewrite hget_hset_other by (intros ->; contradiction).
    apply Hfr1. intros ->. contradiction. }
  destruct (cond_set_next_last h2 0 P x y HndP HnzP HsP2) as (h3 & E3 & HsP3 & Hfr3 & _ & Hd3).
  rewrite E3. cbn [bind].
  assert (Hx3 : hget h3 x = Some {| n_data := dx; n_prev := last_id P 0; n_next := first_id S 0 |}).
  { rewrite Hfr3 by congruence. unfold h2. apply hget_hset_same. }
  assert (Hy3 : hget h3 y = Some {| n_data := dy; n_prev := x; n_next := first_id S 0 |}).
  { rewrite Hfr3 by congruence. unfold h2. rewrite hget_hset_other by congruence. exact Hy1. }
  rewrite (load_ok _ _ _ Hx0 Hx3). cbn [bind n_prev].
  rewrite (set_prev_ok _ _ _ _ Hy0 Hy3). cbn [bind n_data n_next].
  set (h4 := hset h3 y _).
  assert (Hx4 : hget h4 x = Some {| n_data := dx; n_prev := last_id P 0; n_next := first_id S 0 |}).
  { unfold h4. rewrite hget_hset_other by congruence. exact Hx3. }
  rewrite (set_prev_ok _ _ _ _ Hx0 Hx4). cbn [bind n_data n_next].
  set (h5 := hset h4 x _).
  assert (Hy5 : hget h5 y = Some {| n_data := dy; n_prev := last_id P 0; n_next := first_id S 0 |}).
  { unfold h5, h4. rewrite hget_hset_other by congruence. apply hget_hset_same. }
  rewrite (set_next_ok _ _ _ _ Hy0 Hy5). cbn [bind n_data n_prev].
  eexists; split; [reflexivity|]. split.
  - apply dseg_app. cbn [dseg first_id]. split; [|split; [|split]].
    + eapply dseg_ext; [|exact HsP3]. intros z Hz. unfold h5, h4. rewrite !hget_hset_other; [reflexivity| | |]; intros ->; contradiction.
    + apply hget_hset_same.
    + rewrite hget_hset_other by congruence. unfold h5. apply hget_hset_same.
    + eapply dseg_ext; [|exact HsS1]. intros z Hz. unfold h5, h4. rewrite !hget_hset_other; [| | |]; try (intros ->; contradiction).
      rewrite Hfr3 by (intros ->; contradiction). unfold h2. apply hget_hset_other. intros ->; contradiction.
  - eapply dom_eq_trans; [exact Hd1|]. eapply dom_eq_trans; [eapply dom_eq_hset; exact Hx1|].
    eapply dom_eq_trans; [exact Hd3|]. eapply dom_eq_trans; [eapply dom_eq_hset; exact Hy3|].
    eapply dom_eq_trans; [eapply dom_eq_hset; exact Hx4|]. eapply dom_eq_hset. exact Hy5.
Qed.

(* ------------------------------------------------------------------------------------------ distant swap *)
Lemma swap_far_spec h P x dx M y dy S :
  M <> [] ->
  NoDup (ids (P ++ (x, dx) :: M ++ (y, dy) :: S)) -> ~ In 0 (ids (P ++ (x, dx) :: M ++ (y, dy) :: S)) ->
  dseg h 0 (P ++ (x, dx) :: M ++ (y, dy) :: S) 0 ->
  exists h', swap h x y = Ok h' /\ dseg h' 0 (P ++ (y, dy) :: M ++ (x, dx) :: S) 0 /\ dom_eq h h'.
Proof.
  intros HM Hnd Hnz Hs.
  rewrite !ids_app in Hnd, Hnz. cbn [ids map fst] in Hnd, Hnz. rewrite !ids_app in Hnd, Hnz. cbn [ids map fst] in Hnd, Hnz.
  apply nodup_app in Hnd. destruct Hnd as (HndP & Hnd2 & HdP).
  apply NoDup_cons_iff in Hnd2. destruct Hnd2 as [HxR Hnd2]. apply nodup_app in Hnd2. destruct Hnd2 as (HndM & Hnd3 & HdM).
  apply NoDup_cons_iff in Hnd3. destruct Hnd3 as [HyS HndS].
  rewrite !in_app_iff in Hnz. cbn [In] in Hnz. rewrite !in_app_iff in Hnz. cbn [In] in Hnz.
  rewrite in_app_iff in HxR. cbn [In] in HxR.
  assert (Hx0 : x <> 0) by tauto. assert (Hy0 : y <> 0) by tauto. assert (Hxy : x <> y) by (intuition congruence).
  assert (HnzP : ~ In 0 (ids P)) by tauto. assert (HnzS : ~ In 0 (ids S)) by tauto. assert (HnzM : ~ In 0 (ids M)) by tauto.
  assert (HxP : ~ In x (ids P)) by (intros H; apply (HdP x H); left; reflexivity).
  assert (HyP : ~ In y (ids P)) by (intros H; apply (HdP y H); right; apply in_or_app; right; left; reflexivity).
  assert (HxM : ~ In x (ids M)) by tauto. assert (HxS : ~ In x (ids S)) by tauto.
  assert (HyM : ~ In y (ids M)) by (intros H; apply (HdM y H); left; reflexivity).
  assert (HdPM : forall z, In z (ids P) -> ~ In z (ids M)) by (intros z Hz Hin; apply (HdP z Hz); right; apply in_or_app; left; exact Hin).
  assert (HdPS : forall z, In z (ids P) -> ~ In z (ids S)) by (intros z Hz Hin; apply (HdP z Hz); right; apply in_or_app; right; right; exact Hin).
  assert (HdMS : forall z, In z (ids M) -> ~ In z (ids S)) by (intros z Hz Hin; apply (HdM z Hz); right; exact Hin).
  assert (HdMP : forall z, In z (ids M) -> ~ In z (ids P)) by (intros z Hz Hin; exact (HdPM z Hin Hz)).
  assert (HdSP : forall z, In z (ids S) -> ~ In z (ids P)) by (intros z Hz Hin; exact (HdPS z Hin Hz)).
  assert (HdSM : forall z, In z (ids S) -> ~ In z (ids M)) by (intros z Hz Hin; exact (HdMS z Hin Hz)).
  pose proof (last_notin P x HxP Hx0) as HlPx. pose proof (last_notin P y HyP Hy0) as HlPy.
  pose proof (first_notin S x HxS Hx0) as HfSx. pose proof (first_notin S y HyS Hy0) as HfSy.
  pose proof (first_notin M x HxM Hx0) as HfMx. pose proof (first_notin M y HyM Hy0) as HfMy.
  pose proof (last_notin M x HxM Hx0) as HlMx. pose proof (last_notin M y HyM Hy0) as HlMy.
  pose proof (last_notin_seg P M HdPM HnzM) as HlPM. pose proof (last_notin_seg P S HdPS HnzS) as HlPS.
  pose proof (first_notin_seg S P HdSP HnzP) as HfSP. pose proof (first_notin_seg S M HdSM HnzM) as HfSM.
  pose proof (first_notin_seg M P HdMP HnzP) as HfMP. pose proof (first_notin_seg M S HdMS HnzS) as HfMS.
  pose proof (last_notin_seg M P HdMP HnzP) as HlMP. pose proof (last_notin_seg M S HdMS HnzS) as HlMS.
  assert (HfM0 : first_id M 0 <> 0) by (rewrite first_id_nil_iff; assumption).
  assert (HlM0 : last_id M 0 <> 0) by (rewrite last_id_nil_iff; assumption).
  (* the five pieces *)
  apply dseg_app in Hs. cbn [dseg first_id] in Hs. destruct Hs as (HsP & Hx & HsR).
  rewrite first_id_app in Hx. cbn [first_id] in Hx. rewrite (first_id_d_irrel M y 0 HM) in Hx.
  apply dseg_app in HsR. cbn [dseg first_id] in HsR. destruct HsR as (HsM & Hy & HsS).
  rewrite (last_id_d_irrel M x 0 HM) in Hy.
  unfold swap.
  rewrite (load_ok _ _ _ Hx0 Hx). cbn [bind n_next n_prev].
  replace (first_id M 0 =? y) with false by (symmetry; apply N.eqb_neq; exact HfMy).
  rewrite (load_ok _ _ _ Hy0 Hy). cbn [bind n_next n_prev].
  replace (first_id S 0 =? x) with false by (symmetry; apply N.eqb_neq; exact HfSx).
  (* 1: n1_left->next = n2 *)
  destruct (cond_set_next_last h 0 P x y HndP HnzP HsP) as (h1 & E1 & HsP1 & Hfr1 & _ & Hd1).
  rewrite E1. cbn [bind].
  assert (Hy1 : hget h1 y = Some {| n_data := dy; n_prev := last_id M 0; n_next := first_id S 0 |}) by (rewrite Hfr1 by congruence; exact Hy).
  (* 2: n2->prev = n1_left *)
  rewrite (set_prev_ok _ _ _ _ Hy0 Hy1). cbn [bind n_data n_next].
  set (h2 := hset h1 y _).
  (* 3: n1_right->prev = n2 *)
  replace (first_id M 0 =? 0) with false by lia. cbn [negb].
  assert (HsM2 : dseg h2 x M y).
  { eapply dseg_ext; [|exact HsM]. intros z Hz. unfold h2. rewrite hget_hset_other by (intros ->; contradiction).
    apply Hfr1. intros ->. contradiction. }
  destruct (set_prev_first h2 x M y y HM HndM HnzM HsM2) as (h3 & E3 & HsM3 & Hfr3 & Hd3).
  rewrite E3. cbn [bind].
  (* 4: n2->next = n1_right *)
  assert (Hy3 : hget h3 y = Some {| n_data := dy; n_prev := last_id P 0; n_next := first_id S 0 |}).
  { rewrite Hfr3 by congruence. unfold h2. apply hget_hset_same. }
  rewrite (set_next_ok _ _ _ _ Hy0 Hy3). cbn [bind n_data n_prev].
  set (h4 := hset h3 y _).
  (* 5: n2_left->next = n1 *)
  replace (last_id M 0 =? 0) with false by lia. cbn [negb].
  assert (HsM4 : dseg h4 y M y).
  { eapply dseg_ext; [|exact HsM3]. intros z Hz. unfold h4. apply hget_hset_other. intros ->; contradiction. }
  destruct (set_next_last h4 y M y x HM HndM HnzM HsM4) as (h5 & E5 & HsM5 & Hfr5 & Hd5).
  rewrite E5. cbn [bind].
  (* 6: n1->prev = n2_left *)
  assert (Hx5 : hget h5 x = Some {| n_data := dx; n_prev := last_id P 0; n_next := first_id M 0 |}).
  { rewrite Hfr5 by congruence. unfold h4. rewrite hget_hset_other by congruence. rewrite Hfr3 by congruence.
    unfold h2. rewrite hget_hset_other by congruence. rewrite Hfr1 by congruence. exact Hx. }
  rewrite (set_prev_ok _ _ _ _ Hx0 Hx5). cbn [bind n_data n_next].
  set (h6 := hset h5 x _).
  (* 7: n2_right->prev = n1 *)
  assert (HsS6 : dseg h6 y S 0).
  { eapply dseg_ext; [|exact HsS]. intros z Hz. unfold h6. rewrite hget_hset_other by (intros ->; contradiction).
    rewrite Hfr5 by (intros ->; contradiction). unfold h4. rewrite hget_hset_other by (intros ->; contradiction).
    rewrite Hfr3 by (intros ->; contradiction). unfold h2. rewrite hget_hset_other by (intros ->; contradiction).
    apply Hfr1. intros ->; contradiction. }
  destruct (cond_set_prev_first h6 y S 0 x HndS HnzS HsS6) as (h7 & E7 & HsS7 & Hfr7 & _ & Hd7).
  rewrite E7. cbn [bind].
  (* 8: n1->next = n2_right *)
  assert (Hx7 : hget h7 x = Some {| n_data := dx; n_prev := last_id M 0; n_next := first_id M 0 |}).
  { rewrite Hfr7 by congruence. unfold h6. apply hget_hset_same. }
  rewrite (set_next_ok _ _ _ _ Hx0 Hx7). cbn [bind n_data n_prev].
  eexists; split; [reflexivity|]. split.
  - apply dseg_app. cbn [dseg first_id]. split; [|split].
    + eapply dseg_ext; [|exact HsP1]. intros z Hz. rewrite hget_hset_other by (intros ->; contradiction).
      rewrite Hfr7 by (intros ->; contradiction). unfold h6. rewrite hget_hset_other by (intros ->; contradiction).
      rewrite Hfr5 by (intros ->; contradiction). unfold h4. rewrite hget_hset_other by (intros ->; contradiction).
      rewrite Hfr3 by (intros ->; contradiction). unfold h2. apply hget_hset_other. intros ->; contradiction.
    + rewrite first_id_app. cbn [first_id]. rewrite (first_id_d_irrel M x 0 HM).
      rewrite hget_hset_other by congruence. rewrite Hfr7 by congruence. unfold h6. rewrite hget_hset_other by congruence.
      rewrite Hfr5 by congruence. unfold h4. apply hget_hset_same.
    + apply dseg_app. cbn [dseg first_id]. split; [|split].
      * eapply dseg_ext; [|exact HsM5]. intros z Hz. rewrite hget_hset_other by (intros ->; contradiction).
        rewrite Hfr7 by (intros ->; contradiction). unfold h6. apply hget_hset_other. intros ->; contradiction.
      * rewrite (last_id_d_irrel M y 0 HM). apply hget_hset_same.
      * eapply dseg_ext; [|exact HsS7]. intros z Hz. apply hget_hset_other. intros ->; contradiction.
  - eapply dom_eq_trans; [exact Hd1|]. eapply dom_eq_trans; [eapply dom_eq_hset; exact Hy1|].
    eapply dom_eq_trans; [exact Hd3|]. eapply dom_eq_trans; [eapply dom_eq_hset; exact Hy3|].
    eapply dom_eq_trans; [exact Hd5|]. eapply dom_eq_trans; [eapply dom_eq_hset; exact Hx5|].
    eapply dom_eq_trans; [exact Hd7|]. eapply dom_eq_hset; exact Hx7.
Qed.

Lemma swap_adj_spec h P x dx y dy S :
  NoDup (ids (P ++ (x, dx) :: (y, dy) :: S)) -> ~ In 0 (ids (P ++ (x, dx) :: (y, dy) :: S)) ->
  dseg h 0 (P ++ (x, dx) :: (y, dy) :: S) 0 ->
  exists h', swap h x y = Ok h' /\ dseg h' 0 (P ++ (y, dy) :: (x, dx) :: S) 0 /\ dom_eq h h'.
Proof.
  intros Hnd Hnz Hs. pose proof (dseg_mid _ _ _ _ _ _ _ Hs) as Hx. cbn [first_id] in Hx.
  assert (Hx0 : x <> 0) by (intros ->; apply Hnz; rewrite ids_app; apply in_or_app; right; left; reflexivity).
  unfold swap, swap_adjacent. rewrite (load_ok _ _ _ Hx0 Hx). cbn [bind n_next]. rewrite N.eqb_refl.
  apply swap_adj_core_spec; assumption.
Qed.

(** Swapping the two ends of a middle part (any length >= 2). *)
Lemma swap_ends_spec h P x dx M y dy S :
  NoDup (ids (P ++ (x, dx) :: M ++ (y, dy) :: S)) -> ~ In 0 (ids (P ++ (x, dx) :: M ++ (y, dy) :: S)) ->
  dseg h 0 (P ++ (x, dx) :: M ++ (y, dy) :: S) 0 ->
  exists h', swap h x y = Ok h' /\ dseg h' 0 (P ++ (y, dy) :: M ++ (x, dx) :: S) 0 /\ dom_eq h h'.
Proof.
  destruct M as [|m M']; [cbn [app]; apply swap_adj_spec|]. apply swap_far_spec. discriminate.
Qed.

(* ------------------------------------------------------------------------------------------ reverse *)
Lemma rev_loop_spec : forall k h P M S left right,
  (2 * k <= length M)%nat -> ((0 < k)%nat -> left = first_id M 0 /\ right = last_id M 0) ->
  NoDup (ids (P ++ M ++ S)) -> ~ In 0 (ids (P ++ M ++ S)) -> dseg h 0 (P ++ M ++ S) 0 ->
  exists h' X C Y, rev_loop k h left right = Ok h' /\ M = X ++ C ++ Y /\ length X = k /\ length Y = k /\
                   dseg h' 0 (P ++ (rev Y ++ C ++ rev X) ++ S) 0 /\ dom_eq h h'.
Proof.
  induction k as [|k IH]; intros h P M S left right Hlen Hlr Hnd Hnz Hs.
  - exists h, [], M, []. cbn [rev_loop rev app length]. rewrite app_nil_r. auto 10 using dom_eq_refl.
  - destruct M as [|[x dx] M1]; [cbn in Hlen; lia|].
    destruct (exists_last (l := M1)) as (M' & [y dy] & ->); [intros ->; cbn in Hlen; lia|].
    destruct (Hlr ltac:(lia)) as [-> ->]. cbn [first_id]. change ((x, dx) :: M' ++ [(y, dy)]) with ([(x, dx)] ++ M' ++ [(y, dy)]) at 1.
    rewrite !last_id_app. cbn [last_id].
    assert (E0 : P ++ ((x, dx) :: M' ++ [(y, dy)]) ++ S = P ++ (x, dx) :: M' ++ (y, dy) :: S).
    { cbn [app]. rewrite <- app_assoc. reflexivity. }
    rewrite E0 in Hnd, Hnz, Hs.
    assert (Hx0 : x <> 0) by (intros ->; apply Hnz; rewrite ids_app; apply in_or_app; right; left; reflexivity).
    assert (Hy0 : y <> 0).
    { intros ->. apply Hnz. rewrite ids_app. apply in_or_app. right. right. rewrite ids_app. apply in_or_app. right. left. reflexivity. }
    pose proof (dseg_mid _ _ _ _ _ _ _ Hs) as Hx.
    assert (Hy : hget h y = Some {| n_data := dy; n_prev := last_id ((x, dx) :: M') (last_id P 0); n_next := first_id S 0 |}).
    { change (P ++ (x, dx) :: M' ++ (y, dy) :: S) with (P ++ ((x, dx) :: M') ++ (y, dy) :: S) in Hs.
      rewrite app_assoc in Hs. pose proof (dseg_mid _ _ _ _ _ _ _ Hs) as Hy. rewrite last_id_app in Hy. exact Hy. }
    cbn [rev_loop]. rewrite (load_ok _ _ _ Hx0 Hx), (load_ok _ _ _ Hy0 Hy). cbn [bind n_next n_prev].
    destruct (swap_ends_spec h P x dx M' y dy S Hnd Hnz Hs) as (h1 & E1 & Hs1 & Hd1).
    rewrite E1. cbn [bind].
    assert (E2 : P ++ (y, dy) :: M' ++ (x, dx) :: S = (P ++ [(y, dy)]) ++ M' ++ ((x, dx) :: S)).
    { rewrite <- app_assoc. reflexivity. }
    assert (Hperm : Permutation (ids (P ++ (y, dy) :: M' ++ (x, dx) :: S)) (ids (P ++ (x, dx) :: M' ++ (y, dy) :: S))).
    { rewrite !ids_app. apply Permutation_app_head. cbn [ids map fst]. rewrite !ids_app. cbn [ids map fst].
      eapply Permutation_trans; [apply perm_skip, Permutation_sym, Permutation_middle|].
      eapply Permutation_trans; [apply perm_swap|]. apply perm_skip. apply Permutation_middle. }
    destruct (IH h1 (P ++ [(y, dy)]) M' ((x, dx) :: S) (first_id (M' ++ (y, dy) :: S) 0) (last_id ((x, dx) :: M') (last_id P 0)))
      as (h2 & X & C & Y & E3 & EM & HX & HY & Hs2 & Hd2).
    + cbn [length] in Hlen. rewrite app_length in Hlen. cbn [length] in Hlen. lia.
    + intros Hk. assert (HM' : M' <> []) by (intros ->; cbn in Hlen; lia).
      split; [rewrite first_id_app; apply first_id_d_irrel; exact HM'|].
      change ((x, dx) :: M') with ([(x, dx)] ++ M'). rewrite last_id_app. apply last_id_d_irrel; exact HM'.
    + rewrite <- E2. eapply Permutation_NoDup; [apply Permutation_sym, Hperm|exact Hnd].
    + rewrite <- E2. intros H0. apply Hnz. eapply Permutation_in; [exact Hperm|exact H0].
    + rewrite <- E2. exact Hs1.
    + rewrite E3. exists h2, ((x, dx) :: X), C, (Y ++ [(y, dy)]).
      split; [reflexivity|]. split; [subst M'; cbn [app]; rewrite <- !app_assoc; reflexivity|].
      split; [cbn [length]; lia|]. split; [rewrite app_length; cbn [length]; lia|].
      split; [|eapply dom_eq_trans; eassumption].
      rewrite rev_app_distr. cbn [rev app]. rewrite <- !app_assoc in Hs2 |- *. cbn [app] in Hs2 |- *.
      exact Hs2.
Qed.

Lemma first_id_rev l d : first_id (rev l) d = last_id l d.
Proof.
  revert d; induction l as [|[a v] t IH]; intros d; [reflexivity|]. cbn [rev last_id]. rewrite first_id_app. cbn [first_id]. apply IH.
Qed.
Lemma last_id_rev l d : last_id (rev l) d = first_id l d.
Proof. destruct l as [|[a v] t]; [reflexivity|]. cbn [rev first_id]. apply last_id_snoc. Qed.

Lemma rev_small {A} (C : list A) : (length C <= 1)%nat -> rev C = C.
Proof. destruct C as [|a [|b t]]; cbn; intros; try reflexivity; lia. Qed.

Lemma reverse_spec s l : lrep s l -> exists s', cl_reverse s = Ok s' /\ lrep s' (rev l) /\ same_hdr s s'.
Proof.
  intros R. unfold cl_reverse, g_list_reverse_trivial.
  destruct ((l_size s =? 0) || (l_size s =? 1)) eqn:Et.
  - exists s. split; [reflexivity|]. split; [|auto]. rewrite rev_small; [exact R|].
    pose proof (rep_size _ _ R) as Hs. unfold lenN in Hs. lia.
  - assert (Hlen : (2 <= length l)%nat) by (pose proof (rep_size _ _ R) as Hs; unfold lenN in Hs; lia).
    assert (Hl : l <> []) by (intros ->; cbn in Hlen; lia).
    rewrite (rep_head _ _ R), (rep_tail _ _ R).
    destruct (rev_loop_spec (N.to_nat (l_size s / 2)) (l_heap s) [] l [] (first_id l 0) (last_id l 0)) as (h' & X & C & Y & E & El & HX & HY & Hs' & Hd).
    + rewrite (rep_size _ _ R). unfold lenN. pose proof (Nat.div_mod_eq (length l) 2).
      replace (N.to_nat (N.of_nat (length l) / 2)) with (length l / 2)%nat by (rewrite N2Nat.inj_div, Nat2N.id; reflexivity). lia.
    + auto.
    + cbn [app]. rewrite app_nil_r. apply R.
    + cbn [app]. rewrite app_nil_r. apply R.
    + cbn [app]. rewrite app_nil_r. apply R.
    + rewrite E. cbn [bind]. eexists. split; [reflexivity|]. split; [|apply same_hdr_upd].
      cbn [app] in Hs'. rewrite app_nil_r in Hs'.
      assert (HC : (length C <= 1)%nat).
      { pose proof (rep_size _ _ R) as Hsz. rewrite El, !lenN_app in Hsz. unfold lenN in Hsz.
        assert (E2 : length X = N.to_nat (l_size s / 2)) by exact HX.
        pose proof (N.div_mod (l_size s) 2 ltac:(lia)). pose proof (N.mod_lt (l_size s) 2 ltac:(lia)). lia. }
      assert (Er : rev l = rev Y ++ C ++ rev X) by (rewrite El, !rev_app_distr, (rev_small C HC), app_assoc; reflexivity).
      rewrite Er.
      assert (Hp : Permutation (ids (rev Y ++ C ++ rev X)) (ids l)).
      { rewrite <- Er. unfold ids. rewrite map_rev. apply Permutation_sym, Permutation_rev. }
      constructor; cbn [upd l_heap l_head l_tail l_size l_hdr].
      * eapply Permutation_NoDup; [apply Permutation_sym, Hp|apply R].
      * intros H0. apply (rep_nz _ _ R). eapply Permutation_in; [exact Hp|exact H0].
      * exact Hs'.
      * rewrite <- Er. symmetry. apply first_id_rev.
      * rewrite <- Er. symmetry. apply last_id_rev.
      * rewrite (rep_size _ _ R). rewrite <- Er. unfold lenN. rewrite rev_length. reflexivity.
      * intros z Hz. apply Hd in Hz. apply (rep_dom _ _ R) in Hz. eapply Permutation_in; [apply Permutation_sym, Hp|exact Hz].
      * apply R.
Qed.
