(** Doubly linked list: the state machine refines the ideal pair of sequences. *)
From Coq Require Import Permutation.
From CC Require Import Base.Prelude Base.ListMem Base.Alloc Base.AllocProofs.
From CC Require Import Generated.Status Generated.Guards List_.ListModel List_.ListHeap List_.ListProofs1 List_.ListProofs2 List_.ListProofs3.
Local Open Scope N_scope.

(* ------------------------------------------------------------------------------------------ plain list facts *)
Lemma firstnN_app {A} (l1 r : list A) : firstnN (lenN l1) (l1 ++ r) = l1.
Proof. unfold firstnN. rewrite lenN_length. rewrite firstn_app, Nat.sub_diag, firstn_all. cbn. apply app_nil_r. Qed.
Lemma skipnN_app {A} (l1 r : list A) : skipnN (lenN l1) (l1 ++ r) = r.
Proof. unfold skipnN. rewrite lenN_length. rewrite skipn_app, Nat.sub_diag, skipn_all. reflexivity. Qed.
Lemma skipnN_app1 {A} (l1 : list A) x r : skipnN (lenN l1 + 1) (l1 ++ x :: r) = r.
Proof.
  replace (lenN l1 + 1) with (lenN (l1 ++ [x])) by (rewrite lenN_app; reflexivity).
  change (l1 ++ x :: r) with (l1 ++ [x] ++ r). rewrite app_assoc. apply skipnN_app.
Qed.
Lemma getN_app_mid {A} (l1 : list A) x r : getN (l1 ++ x :: r) (lenN l1) = Some x.
Proof. rewrite getN_app2 by lia. rewrite N.sub_diag. reflexivity. Qed.
Lemma lenN_map {A B} (f : A -> B) l : lenN (map f l) = lenN l.
Proof. unfold lenN. rewrite map_length. reflexivity. Qed.

(* ------------------------------------------------------------------------------------------ replace / get *)
Lemma replace_at_spec s l1 y d l2 x :
  lrep s (l1 ++ (y, d) :: l2) ->
  exists s', cl_replace_at s x (lenN l1) = Ok (CC_OK, d, s') /\ lrep s' (l1 ++ (y, x) :: l2) /\ same_hdr s s'.
Proof.
  intros R. unfold cl_replace_at. rewrite (get_node_at_in _ _ _ _ _ R). cbn [bind is_ok].
  pose proof (dseg_mid _ _ _ _ _ _ _ (rep_seg _ _ R)) as Hy.
  destruct (nodup_mid _ _ _ _ (rep_nodup _ _ R)) as (_ & _ & Hy1 & Hy2 & _ & _).
  assert (Hy0 : y <> 0) by (intros ->; apply (rep_nz _ _ R); rewrite ids_app; apply in_or_app; right; left; reflexivity).
  rewrite (load_ok _ _ _ Hy0 Hy), (set_data_ok _ _ _ _ Hy0 Hy). cbn [bind n_data n_prev n_next].
  eexists. split; [reflexivity|]. split; [|apply same_hdr_upd].
  assert (Eids : ids (l1 ++ (y, x) :: l2) = ids (l1 ++ (y, d) :: l2)) by (rewrite !ids_app; reflexivity).
  pose proof (rep_seg _ _ R) as Hs. apply dseg_app in Hs. cbn [dseg first_id] in Hs. destruct Hs as (Hs1 & _ & Hs2).
  constructor; cbn [upd l_heap l_head l_tail l_size l_hdr].
  - rewrite Eids. apply R.
  - rewrite Eids. apply R.
  - apply dseg_app. cbn [dseg first_id]. split; [|split].
    + eapply dseg_ext; [|exact Hs1]. intros z Hz. apply hget_hset_other. intros ->; contradiction.
    + apply hget_hset_same.
    + eapply dseg_ext; [|exact Hs2]. intros z Hz. apply hget_hset_other. intros ->; contradiction.
  - rewrite (rep_head _ _ R), !first_id_app. reflexivity.
  - rewrite (rep_tail _ _ R), !last_id_app. reflexivity.
  - rewrite (rep_size _ _ R), !lenN_app, !lenN_cons. reflexivity.
  - intros z Hz. rewrite Eids. apply (rep_dom _ _ R). rewrite hget_hset in Hz.
    destruct (y =? z) eqn:E; [assert (y = z) by lia; subst z; rewrite Hy; discriminate|exact Hz].
  - apply R.
Qed.

Lemma get_at_spec s l1 y d l2 : lrep s (l1 ++ (y, d) :: l2) -> cl_get_at s (lenN l1) = Ok (CC_OK, d).
Proof.
  intros R. unfold cl_get_at. rewrite (get_node_at_in _ _ _ _ _ R). cbn [bind is_ok].
  assert (Hy0 : y <> 0) by (intros ->; apply (rep_nz _ _ R); rewrite ids_app; apply in_or_app; right; left; reflexivity).
  rewrite (load_ok _ _ _ Hy0 (dseg_mid _ _ _ _ _ _ _ (rep_seg _ _ R))). reflexivity.
Qed.
Lemma get_first_spec s y d t : lrep s ((y, d) :: t) -> cl_get_first s = Ok (CC_OK, d).
Proof.
  intros R. unfold cl_get_first. rewrite (rep_size _ _ R), lenN_cons. replace (lenN t + 1 =? 0) with false by lia.
  rewrite (rep_head _ _ R). cbn [first_id]. destruct (nz_tail _ _ _ (rep_nz _ _ R)) as [Hy0 _].
  rewrite (load_ok _ _ _ Hy0 (proj1 (rep_seg _ _ R))). reflexivity.
Qed.
Lemma get_last_spec s t y d : lrep s (t ++ [(y, d)]) -> cl_get_last s = Ok (CC_OK, d).
Proof.
  intros R. unfold cl_get_last. rewrite (rep_size _ _ R), lenN_app, lenN_cons. replace (lenN t + (lenN [] + 1) =? 0) with false by lia.
  rewrite (rep_tail _ _ R), last_id_snoc.
  assert (Hy0 : y <> 0) by (intros ->; apply (rep_nz _ _ R); rewrite ids_app; apply in_or_app; right; left; reflexivity).
  rewrite (load_ok _ _ _ Hy0 (dseg_mid _ _ _ _ _ _ _ (rep_seg _ _ R))). reflexivity.
Qed.

Lemma to_array_ok s l a : lrep s l -> l <> [] ->
  cl_to_array s a = match alloc (l_mem s) (l_size s * 8) a with
                    | (Some blk, a1) => Ok (CC_OK, map snd l, blk, a1)
                    | (None, a1) => Ok (CC_ERR_ALLOC, [], 0, a1) end.
Proof.
  intros R Hl. unfold cl_to_array.
  replace (l_size s =? 0) with false by (symmetry; apply N.eqb_neq; rewrite (rep_size _ _ R); destruct l; [congruence|rewrite lenN_cons; lia]).
  destruct (alloc (l_mem s) (l_size s * 8) a) as [[blk|] a1]; [|reflexivity].
  rewrite (rep_size _ _ R), lenN_length, (rep_head _ _ R).
  pose proof (read_n_seg (l_heap s) 0 l [] 0) as H. rewrite app_nil_r in H. rewrite (H (rep_seg _ _ R) (rep_nz _ _ R)). reflexivity.
Qed.

(* ------------------------------------------------------------------------------------------ the world invariant *)
(** No assumption on the allocator families of the two lists is part of the invariant: only splice / splice_at,
    which hand the source's nodes to the destination, need both lists to use the same family ([mem_ok]). *)
Record winv (w : world) : Prop := {
  wi_lok : lok (wal w);
  wi_rep : exists la lb, lrep (wa w) la /\ lrep (wb w) lb /\ Permutation (live (wal w)) (blocks (wa w) la ++ blocks (wb w) lb);
}.
Definition wabs (w : world) : list N * list N := (cl_abs (wa w), cl_abs (wb w)).
Definition wswap (w : world) : world := {| wa := wb w; wb := wa w; wal := wal w |}.
Definition pswap {A} (p : A * A) : A * A := (snd p, fst p).

Lemma winv_swap w : winv w -> winv (wswap w).
Proof.
  intros [Hk (la & lb & R1 & R2 & HP)]. constructor; cbn [wswap wa wb wal]; [assumption|].
  exists lb, la. split; [assumption|]. split; [assumption|]. eapply Permutation_trans; [exact HP|apply Permutation_app_comm].
Qed.

(** The largest request an operation makes (what a refusal under an exhausted plan is measured against). *)
Definition req_bytes (l : list N) (o : lop) : N :=
  match o with OToArray => lenN l * 8 | _ => NODE_BYTES end.

Section Refine.
Variable cmp : N -> N -> comparison.
Variable pred : N -> bool.

Lemma step_swap w o : cl_step cmp pred w HB o = do (out, w') <- cl_step cmp pred (wswap w) HA o; Ok (out, wswap w').
Proof.
  destruct w as [sa sb a]. unfold cl_step, wswap. cbn [wget wother wset wset2 wa wb wal].
  destruct o; cbn [bind];
  repeat (match goal with
  | |- context [bind ?x _] =>
      lazymatch x with
      | Ok _ => fail
      | bind _ _ => fail
      | _ => let r := fresh "r" in destruct x as [r|]; cbn [bind]; [repeat (let q := fresh "q" in destruct r as [r q])|reflexivity]
      end
  | |- context [if ?c then _ else _] => destruct c
  end; cbn [bind]); reflexivity.
Qed.

Definition psel {A} (p : A * A) (hd : hnd) : A := match hd with HA => fst p | HB => snd p end.

(** The one side condition: the move operations need both lists to use the same allocator family. *)
Definition mem_ok (w : world) (o : lop) : Prop :=
  match o with OSplice | OSpliceAt _ => l_mem (wa w) = l_mem (wb w) | _ => True end.

(** The invariant afterwards, and the allocator families of the two lists are what they were. *)
Definition wnext (m1 m2 : tag) (w' : world) : Prop := winv w' /\ l_mem (wa w') = m1 /\ l_mem (wb w') = m2.

Definition step_ok (w : world) (hd : hnd) (o : lop) : Prop :=
  mem_ok w o ->
  exists out w' fl, cl_step cmp pred w hd o = Ok (out, w') /\ wnext (l_mem (wa w)) (l_mem (wb w)) w' /\
    (out, wabs w') = spec_step cmp pred (wabs w) hd o fl /\ aframe (wal w) (wal w') /\
    (fl = true -> plan (wal w) <> [] \/ limit (wal w) < req_bytes (psel (wabs w) hd) o).

Lemma winv_set s1 s2 s1' a' la' lb :
  lok a' -> same_hdr s1 s1' -> lrep s1' la' -> lrep s2 lb -> owns a' s1' la' (blocks s2 lb) ->
  wnext (l_mem s1) (l_mem s2) {| wa := s1'; wb := s2; wal := a' |} /\ wabs {| wa := s1'; wb := s2; wal := a' |} = (map snd la', map snd lb).
Proof.
  intros Hk [_ Hh] R1 R2 Ho. split.
  - split; [|split; [exact Hh|reflexivity]]. constructor; cbn [wa wb wal]; [assumption|]. exists la', lb. auto.
  - unfold wabs. cbn [wa wb]. rewrite (lrep_abs _ _ R1), (lrep_abs _ _ R2). reflexivity.
Qed.

Lemma spec_swap p o fl : spec_step cmp pred p HB o fl = (let '(out, p') := spec_step cmp pred (pswap p) HA o fl in (out, pswap p')).
Proof.
  destruct p as [x y]. unfold spec_step, pswap. cbn [fst snd].
  destruct (spec_one cmp pred y x o fl) as [[out l] s]. reflexivity.
Qed.

(** Outcome of an allocating single-element insertion, shared by add_first / add_last / add / add_at. *)
Lemma step_insert s1 s2 a la lb (f : res (stat * clist * alloc_st)) (mk : N -> list (N * N)) :
  lok a -> lrep s2 lb ->
  match alloc (l_mem s1) NODE_BYTES a with
  | (Some id, a1) => exists s', f = Ok (CC_OK, s', a1) /\ lrep s' (mk id) /\ lown a1 s' (mk id) (blocks s2 lb) /\ same_hdr s1 s' /\ aframe a a1
  | (None, a1) => f = Ok (CC_ERR_ALLOC, s1, a1) /\ lown a1 s1 la (blocks s2 lb) /\ live a1 = live a /\ aframe a a1 /\
                  (plan a <> [] \/ limit a < NODE_BYTES)
  end ->
  lrep s1 la ->
  exists st s1' a' (fl : bool), f = Ok (st, s1', a') /\ wnext (l_mem s1) (l_mem s2) {| wa := s1'; wb := s2; wal := a' |} /\ aframe a a' /\
    (fl = true -> plan a <> [] \/ limit a < NODE_BYTES) /\
    ((fl = false /\ st = CC_OK /\ exists id, wabs {| wa := s1'; wb := s2; wal := a' |} = (map snd (mk id), map snd lb)) \/
     (fl = true /\ st = CC_ERR_ALLOC /\ wabs {| wa := s1'; wb := s2; wal := a' |} = (map snd la, map snd lb))).
Proof.
  intros Hk R2 H R1. destruct (alloc (l_mem s1) NODE_BYTES a) as [[id|] a1].
  - destruct H as (s' & E & R' & [Hk' Ho'] & Hh & Hf).
    destruct (winv_set s1 s2 s' a1 (mk id) lb Hk' Hh R' R2 Ho') as [Hw Ha].
    exists CC_OK, s', a1, false. split; [exact E|]. split; [exact Hw|]. split; [exact Hf|]. split; [discriminate|].
    left. eauto.
  - destruct H as (E & [Hk' Ho'] & Hl & Hf & Hw).
    destruct (winv_set s1 s2 s1 a1 la lb Hk' (same_hdr_refl _) R1 R2 Ho') as [Hw' Ha].
    exists CC_ERR_ALLOC, s1, a1, true. split; [exact E|]. split; [exact Hw'|]. split; [exact Hf|]. split; [auto|].
    right. auto.
Qed.

Lemma blocks_disjoint a s1 la s2 lb :
  lok a -> Permutation (live a) (blocks s1 la ++ blocks s2 lb) -> forall y, In y (ids la) -> ~ In y (ids lb).
Proof.
  intros [[Hnd _] _] HP y H1 H2.
  assert (Hnd2 : NoDup (map b_id (blocks s1 la ++ blocks s2 lb))).
  { eapply Permutation_NoDup; [apply Permutation_map; exact HP|exact Hnd]. }
  rewrite map_app in Hnd2. apply nodup_app in Hnd2. destruct Hnd2 as (_ & _ & Hd).
  apply (Hd y); unfold blocks; cbn [map]; right; rewrite map_map; cbn [nblk b_id]; rewrite map_id; assumption.
Qed.

Lemma owns_splice a s1 s1' la la' s2 lb :
  l_mem s1 = l_mem s2 -> same_hdr s1 s1' -> Permutation (ids la') (ids la ++ ids lb) ->
  Permutation (live a) (blocks s1 la ++ blocks s2 lb) -> owns a s1' la' (blocks (emptied s2) []).
Proof.
  intros Hm Hs Hp HP. unfold owns. rewrite (blocks_same _ _ _ Hs). eapply Permutation_trans; [exact HP|].
  unfold blocks. cbn [app map ids emptied upd hblk l_hdr l_mem]. apply perm_skip.
  eapply Permutation_trans; [apply Permutation_sym, Permutation_middle|].
  eapply Permutation_trans; [|apply Permutation_cons_append]. apply perm_skip.
  rewrite <- Hm, <- map_app. apply Permutation_map, Permutation_sym, Hp.
Qed.

Ltac fin := repeat (split; [try reflexivity; try assumption|]); cbn [wal]; try reflexivity; try assumption; try discriminate;
            try apply aframe_refl; auto.

Theorem step_refines_HA w o : winv w -> step_ok w HA o.
Proof.
  intros [Hk (la & lb & R1 & R2 & HP)] Hmo. destruct w as [s1 s2 a]. cbn [wa wb wal] in *.
  cbn [wal psel].
  assert (Hown : lown a s1 la (blocks s2 lb)) by (split; assumption).
  assert (Habs : wabs {| wa := s1; wb := s2; wal := a |} = (map snd la, map snd lb)).
  { unfold wabs. cbn [wa wb]. rewrite (lrep_abs _ _ R1), (lrep_abs _ _ R2). reflexivity. }
  assert (Hw0 : wnext (l_mem s1) (l_mem s2) {| wa := s1; wb := s2; wal := a |}).
  { split; [constructor; cbn [wa wb wal]; eauto|split; reflexivity]. }
  rewrite Habs. unfold spec_step. cbn [fst snd cl_step wget wother wset wset2 wa wb wal].
  (* read-only operations answer from the current state *)
  assert (Hro : forall out,
            exists (out' : lout) (w' : world) (fl : bool),
              Ok (out, {| wa := s1; wb := s2; wal := a |}) = Ok (out', w') /\ wnext (l_mem s1) (l_mem s2) w' /\
              (out', wabs w') = (out, (map snd la, map snd lb)) /\ aframe a (wal w') /\
              (fl = true -> plan a <> [] \/ limit a < NODE_BYTES)).
  { intros out. exists out, {| wa := s1; wb := s2; wal := a |}, false. rewrite Habs.
    split; [reflexivity|]. split; [exact Hw0|]. split; [reflexivity|]. split; [apply aframe_refl|discriminate]. }
  destruct o; cbn [spec_one req_bytes cl_step wget wother wset wset2 wa wb wal].
  - (* add_first *)
    destruct (step_insert s1 s2 a la lb (cl_add_first s1 x a) (fun id => (id, x) :: la) Hk R2 (add_first_spec s1 la a _ x R1 Hown) R1)
      as (st & s1' & a' & fl & E & Hw & Hf & Hfl & Hc).
    rewrite E. cbn [bind]. exists (LOut st []), {| wa := s1'; wb := s2; wal := a' |}, fl. split; [reflexivity|]. split; [exact Hw|].
    split; [|split; [exact Hf|exact Hfl]].
    destruct Hc as [(-> & -> & id & ->)|(-> & -> & ->)]; reflexivity.
  - (* add_last *)
    destruct (step_insert s1 s2 a la lb (cl_add_last s1 x a) (fun id => la ++ [(id, x)]) Hk R2 (add_last_spec s1 la a _ x R1 Hown) R1)
      as (st & s1' & a' & fl & E & Hw & Hf & Hfl & Hc).
    rewrite E. cbn [bind]. exists (LOut st []), {| wa := s1'; wb := s2; wal := a' |}, fl. split; [reflexivity|]. split; [exact Hw|].
    split; [|split; [exact Hf|exact Hfl]].
    destruct Hc as [(-> & -> & id & ->)|(-> & -> & ->)]; [rewrite map_app|]; reflexivity.
  - (* add *)
    destruct (step_insert s1 s2 a la lb (cl_add s1 x a) (fun id => la ++ [(id, x)]) Hk R2 (add_last_spec s1 la a _ x R1 Hown) R1)
      as (st & s1' & a' & fl & E & Hw & Hf & Hfl & Hc).
    rewrite E. cbn [bind]. exists (LOut st []), {| wa := s1'; wb := s2; wal := a' |}, fl. split; [reflexivity|]. split; [exact Hw|].
    split; [|split; [exact Hf|exact Hfl]].
    destruct Hc as [(-> & -> & id & ->)|(-> & -> & ->)]; [rewrite map_app|]; reflexivity.
  - (* add_at *)
    rewrite lenN_map. destruct (lenN la <=? i) eqn:Ei.
    + unfold cl_add_at. rewrite (get_node_at_out_shape _ _ _ (lrep_shape _ _ R1)) by lia. cbn [bind is_ok negb].
      apply (Hro (LOut CC_ERR_OUT_OF_RANGE [])).
    + destruct (split_at la i ltac:(lia)) as (l1 & [b db] & l2 & -> & <-).
      destruct (step_insert s1 s2 a (l1 ++ (b, db) :: l2) lb (cl_add_at s1 x (lenN l1) a) (fun id => l1 ++ (id, x) :: (b, db) :: l2)
                  Hk R2 (add_at_spec s1 l1 b db l2 a _ x R1 Hown) R1) as (st & s1' & a' & fl & E & Hw & Hf & Hfl & Hc).
      rewrite E. cbn [bind]. exists (LOut st []), {| wa := s1'; wb := s2; wal := a' |}, fl. split; [reflexivity|]. split; [exact Hw|].
      split; [|split; [exact Hf|exact Hfl]].
      destruct Hc as [(-> & -> & id & ->)|(-> & -> & ->)]; [|reflexivity].
      unfold insert_at. rewrite !map_app. cbn [map snd]. rewrite <- (lenN_map snd l1), firstnN_app, skipnN_app. reflexivity.
  - (* remove *)
    unfold cl_remove, get_node. rewrite (rep_head _ _ R1).
    rewrite (get_node_loop_seg _ _ 0 la x (rep_seg _ _ R1) (rep_nz _ _ R1) (fuel_of_gt _ _ R1)). cbn [bind].
    pose proof (find_id_split x la (rep_nz _ _ R1)) as Hfs.
    destruct (remove_first_eq x (map snd la)) as [r|].
    + destruct Hfs as (Hn0 & l1 & l2 & El & ->). replace (find_id x la =? 0) with false by lia.
      set (y := find_id x la) in *. rewrite El in R1, Hown.
      assert (Hy : hget (l_heap s1) y = Some _) by exact (dseg_mid _ _ _ _ _ _ _ (rep_seg _ _ R1)).
      rewrite (load_ok _ _ _ Hn0 Hy). cbn [bind n_data].
      destruct (unlinkn_spec s1 l1 y x l2 a _ R1 Hown) as (s1' & a' & E & R' & [Hk' Ho'] & Hh & Hf & _).
      rewrite E. cbn [bind vals1 is_ok].
      destruct (winv_set s1 s2 s1' a' (l1 ++ l2) lb Hk' Hh R' R2 Ho') as [Hw Ha].
      exists (LOut CC_OK [x]), {| wa := s1'; wb := s2; wal := a' |}, false. rewrite Ha. fin.
    + rewrite Hfs. cbn [N.eqb bind vals1 is_ok]. apply (Hro (LOut CC_ERR_VALUE_NOT_FOUND [])).
  - (* remove_at *)
    unfold nth_in. rewrite lenN_map. destruct (lenN la <=? i) eqn:Ei.
    + unfold cl_remove_at. rewrite (get_node_at_out_shape _ _ _ (lrep_shape _ _ R1)) by lia. cbn [bind is_ok negb vals1].
      apply (Hro (LOut CC_ERR_OUT_OF_RANGE [])).
    + destruct (split_at la i ltac:(lia)) as (l1 & [y d] & l2 & -> & <-).
      unfold cl_remove_at. rewrite (get_node_at_in _ _ _ _ _ R1). cbn [bind is_ok negb].
      assert (Hy0 : y <> 0) by (intros ->; apply (rep_nz _ _ R1); rewrite ids_app; apply in_or_app; right; left; reflexivity).
      rewrite (load_ok _ _ _ Hy0 (dseg_mid _ _ _ _ _ _ _ (rep_seg _ _ R1))). cbn [bind n_data].
      destruct (unlinkn_spec s1 l1 y d l2 a _ R1 Hown) as (s1' & a' & E & R' & [Hk' Ho'] & Hh & Hf & _).
      rewrite E. cbn [bind vals1 is_ok].
      destruct (winv_set s1 s2 s1' a' (l1 ++ l2) lb Hk' Hh R' R2 Ho') as [Hw Ha].
      exists (LOut CC_OK [d]), {| wa := s1'; wb := s2; wal := a' |}, false. rewrite Ha.
      rewrite !map_app. cbn [map snd]. rewrite <- (lenN_map snd l1), getN_app_mid. unfold remove_nth.
      rewrite firstnN_app, skipnN_app1. rewrite <- map_app. fin.
  - (* remove_first *)
    unfold cl_remove_first. destruct la as [|[y d] t].
    + rewrite (rep_size _ _ R1). cbn [lenN length N.of_nat N.eqb bind vals1 is_ok map].
      apply (Hro (LOut CC_ERR_VALUE_NOT_FOUND [])).
    + rewrite (rep_size _ _ R1), lenN_cons. replace (lenN t + 1 =? 0) with false by lia.
      rewrite (rep_head _ _ R1). cbn [first_id].
      destruct (unlinkn_spec s1 [] y d t a _ R1 Hown) as (s1' & a' & E & R' & [Hk' Ho'] & Hh & Hf & _).
      rewrite E. cbn [bind vals1 is_ok app] in *.
      destruct (winv_set s1 s2 s1' a' t lb Hk' Hh R' R2 Ho') as [Hw Ha].
      exists (LOut CC_OK [d]), {| wa := s1'; wb := s2; wal := a' |}, false. rewrite Ha. cbn [map snd]. fin.
  - (* remove_last *)
    unfold cl_remove_last. destruct (list_eq_dec (fun p q : N * N => ltac:(decide equality; apply N.eq_dec)) la []) as [->|Hne].
    + rewrite (rep_size _ _ R1). cbn [lenN length N.of_nat N.eqb bind vals1 is_ok map rev].
      apply (Hro (LOut CC_ERR_VALUE_NOT_FOUND [])).
    + destruct (exists_last Hne) as (t & [y d] & ->).
      rewrite (rep_size _ _ R1), lenN_app, lenN_cons. replace (lenN t + (lenN [] + 1) =? 0) with false by lia.
      rewrite (rep_tail _ _ R1), last_id_snoc.
      destruct (unlinkn_spec s1 t y d [] a _ R1 Hown) as (s1' & a' & E & R' & [Hk' Ho'] & Hh & Hf & _).
      rewrite E. cbn [bind vals1 is_ok]. rewrite app_nil_r in R', Ho'.
      destruct (winv_set s1 s2 s1' a' t lb Hk' Hh R' R2 Ho') as [Hw Ha].
      exists (LOut CC_OK [d]), {| wa := s1'; wb := s2; wal := a' |}, false. rewrite Ha.
      rewrite map_app, rev_app_distr. cbn [map snd rev app]. rewrite rev_involutive. fin.
  - (* remove_all *)
    unfold cl_remove_all, cl_remove_all_cb, unlinkn_all. destruct la as [|p t].
    + rewrite (rep_size _ _ R1). cbn [lenN length N.of_nat N.eqb bind map].
      apply (Hro (LOut CC_ERR_VALUE_NOT_FOUND [])).
    + rewrite (rep_size _ _ R1), lenN_cons. replace (lenN t + 1 =? 0) with false by lia.
      destruct (unlink_all_loop_spec false (p :: t) (fuel_of s1) s1 a _ [] R1 Hown (fuel_of_gt _ _ R1))
        as (s1' & a' & E & R' & [Hk' Ho'] & Hh & Hf & _).
      rewrite E. cbn [bind].
      assert (R'' : lrep (upd s1' (l_size s1') 0 0 (l_heap s1')) []) by (constructor; cbn; try apply R'; reflexivity).
      destruct (winv_set s1 s2 (upd s1' (l_size s1') 0 0 (l_heap s1')) a' [] lb Hk' Hh R'' R2 Ho') as [Hw Ha].
      exists (LOut CC_OK []), {| wa := upd s1' (l_size s1') 0 0 (l_heap s1'); wb := s2; wal := a' |}, false. rewrite Ha.
      cbn [map]. fin.
  - (* remove_all_cb *)
    unfold cl_remove_all_cb, unlinkn_all. destruct la as [|p t].
    + rewrite (rep_size _ _ R1). cbn [lenN length N.of_nat N.eqb bind map].
      apply (Hro (LOut CC_ERR_VALUE_NOT_FOUND [])).
    + rewrite (rep_size _ _ R1), lenN_cons. replace (lenN t + 1 =? 0) with false by lia.
      destruct (unlink_all_loop_spec true (p :: t) (fuel_of s1) s1 a _ [] R1 Hown (fuel_of_gt _ _ R1))
        as (s1' & a' & E & R' & [Hk' Ho'] & Hh & Hf & _).
      rewrite E. cbn [bind app].
      assert (R'' : lrep (upd s1' (l_size s1') 0 0 (l_heap s1')) []) by (constructor; cbn; try apply R'; reflexivity).
      destruct (winv_set s1 s2 (upd s1' (l_size s1') 0 0 (l_heap s1')) a' [] lb Hk' Hh R'' R2 Ho') as [Hw Ha].
      exists (LOut CC_OK (map snd (p :: t))), {| wa := upd s1' (l_size s1') 0 0 (l_heap s1'); wb := s2; wal := a' |}, false. rewrite Ha.
      cbn [map]. fin.
  - (* replace_at *)
    unfold nth_in. rewrite lenN_map. destruct (lenN la <=? i) eqn:Ei.
    + unfold cl_replace_at. rewrite (get_node_at_out_shape _ _ _ (lrep_shape _ _ R1)) by lia. cbn [bind is_ok vals1].
      apply (Hro (LOut CC_ERR_OUT_OF_RANGE [])).
    + destruct (split_at la i ltac:(lia)) as (l1 & [y d] & l2 & -> & <-).
      destruct (replace_at_spec s1 l1 y d l2 x R1) as (s1' & E & R' & Hh). rewrite E. cbn [bind vals1 is_ok].
      assert (Ho' : owns a s1' (l1 ++ (y, x) :: l2) (blocks s2 lb)).
      { eapply owns_perm; [exact HP|exact Hh|]. rewrite !ids_app. reflexivity. }
      destruct (winv_set s1 s2 s1' a _ lb Hk Hh R' R2 Ho') as [Hw Ha].
      exists (LOut CC_OK [d]), {| wa := s1'; wb := s2; wal := a |}, false. rewrite Ha.
      rewrite !map_app. cbn [map snd]. rewrite <- (lenN_map snd l1), getN_app_mid. unfold replace_nth.
      rewrite firstnN_app, skipnN_app1. fin.
  - (* get_first *)
    destruct la as [|[y d] t].
    + unfold cl_get_first. rewrite (rep_size _ _ R1). cbn [lenN length N.of_nat N.eqb bind vals1 is_ok map].
      apply (Hro (LOut CC_ERR_VALUE_NOT_FOUND [])).
    + rewrite (get_first_spec _ _ _ _ R1). cbn [bind vals1 is_ok map snd]. apply (Hro (LOut CC_OK [d])).
  - (* get_last *)
    destruct (list_eq_dec (fun p q : N * N => ltac:(decide equality; apply N.eq_dec)) la []) as [->|Hne].
    + unfold cl_get_last. rewrite (rep_size _ _ R1). cbn [lenN length N.of_nat N.eqb bind vals1 is_ok map rev].
      apply (Hro (LOut CC_ERR_VALUE_NOT_FOUND [])).
    + destruct (exists_last Hne) as (t & [y d] & ->). rewrite (get_last_spec _ _ _ _ R1). cbn [bind vals1 is_ok].
      assert (Er : rev (map snd (t ++ [(y, d)])) = d :: rev (map snd t)) by (rewrite map_app, rev_app_distr; reflexivity).
      rewrite Er. apply (Hro (LOut CC_OK [d])).
  - (* get_at *)
    unfold nth_in. rewrite lenN_map. destruct (lenN la <=? i) eqn:Ei.
    + unfold cl_get_at. rewrite (get_node_at_out_shape _ _ _ (lrep_shape _ _ R1)) by lia. cbn [bind is_ok vals1].
      apply (Hro (LOut CC_ERR_OUT_OF_RANGE [])).
    + destruct (split_at la i ltac:(lia)) as (l1 & [y d] & l2 & -> & <-).
      rewrite (get_at_spec _ _ _ _ _ R1). cbn [bind vals1 is_ok].
      assert (Eg : getN (map snd (l1 ++ (y, d) :: l2)) (lenN l1) = Some d).
      { rewrite map_app. cbn [map snd]. rewrite <- (lenN_map snd l1). apply getN_app_mid. }
      rewrite Eg. apply (Hro (LOut CC_OK [d])).
  - (* index_of *)
    unfold cl_index_of. rewrite (rep_head _ _ R1).
    rewrite (index_of_loop_seg cmp _ _ 0 la x 0 (rep_seg _ _ R1) (rep_nz _ _ R1) (fuel_of_gt _ _ R1)). cbn [bind].
    destruct (find_index _ (map snd la) 0) as [k|]; cbn [vals1 is_ok].
    + apply (Hro (LOut CC_OK [k])).
    + apply (Hro (LOut CC_ERR_OUT_OF_RANGE [])).
  - (* contains *)
    unfold cl_contains. rewrite (rep_head _ _ R1).
    rewrite (walk_data_seg _ _ 0 la (rep_seg _ _ R1) (rep_nz _ _ R1) (fuel_of_gt _ _ R1)). cbn [bind].
    apply (Hro (LOut CC_OK [_])).
  - (* contains_value *)
    unfold cl_contains_value. rewrite (rep_head _ _ R1).
    rewrite (walk_data_seg _ _ 0 la (rep_seg _ _ R1) (rep_nz _ _ R1) (fuel_of_gt _ _ R1)). cbn [bind].
    apply (Hro (LOut CC_OK [_])).
  - (* size *)
    unfold cl_size. rewrite (rep_size _ _ R1), lenN_map. apply (Hro (LOut CC_OK [_])).
  - (* to_array *)
    destruct la as [|p t].
    + unfold cl_to_array. rewrite (rep_size _ _ R1). cbn [lenN length N.of_nat N.eqb bind is_ok map].
      exists (LOut CC_ERR_INVALID_RANGE []), {| wa := s1; wb := s2; wal := a |}, false. rewrite Habs.
      split; [reflexivity|]. split; [exact Hw0|]. split; [reflexivity|]. split; [apply aframe_refl|discriminate].
    + rewrite (to_array_ok s1 (p :: t) a R1 ltac:(discriminate)).
      destruct (alloc (l_mem s1) (l_size s1 * 8) a) as [[blk|] a1] eqn:Ea; cbn [bind is_ok].
      * destruct (alloc_some _ _ _ _ _ Ea Hk) as (_ & Hl & Hk1 & Hf1 & Hb0 & Hfr).
        destruct (release_split (l_mem s1) blk a1 [] _ (live a) Hl ltac:(intros []) Hk1) as (a2 & Er & Hl2 & Hk2 & Hf2 & _).
        rewrite Er. cbn [bind app] in *.
        assert (Ho2 : owns a2 s1 (p :: t) (blocks s2 lb)) by (unfold owns; rewrite Hl2; exact HP).
        destruct (winv_set s1 s2 s1 a2 _ lb Hk2 (same_hdr_refl _) R1 R2 Ho2) as [Hw Ha].
        exists (LOut CC_OK (map snd (p :: t))), {| wa := s1; wb := s2; wal := a2 |}, false. rewrite Ha.
        split; [reflexivity|]. split; [exact Hw|]. split; [reflexivity|]. split; [eapply aframe_trans; eassumption|discriminate].
      * destruct (alloc_none _ _ _ _ Ea Hk) as (Hl & Hk1 & Hf1 & Hw1).
        assert (Ho2 : owns a1 s1 (p :: t) (blocks s2 lb)) by (unfold owns; rewrite Hl; exact HP).
        destruct (winv_set s1 s2 s1 a1 _ lb Hk1 (same_hdr_refl _) R1 R2 Ho2) as [Hw Ha].
        exists (LOut CC_ERR_ALLOC []), {| wa := s1; wb := s2; wal := a1 |}, true. rewrite Ha.
        split; [reflexivity|]. split; [exact Hw|]. split; [reflexivity|]. split; [exact Hf1|].
        intros _. rewrite lenN_map, <- (rep_size _ _ R1). exact Hw1.
  - (* foreach *)
    unfold cl_foreach. rewrite (rep_head _ _ R1).
    rewrite (walk_data_seg _ _ 0 la (rep_seg _ _ R1) (rep_nz _ _ R1) (fuel_of_gt _ _ R1)). cbn [bind].
    apply (Hro (LOut CC_OK _)).
  - (* reverse *)
    destruct (reverse_spec s1 la R1) as (s1' & E & R' & Hh). rewrite E. cbn [bind].
    assert (Ho' : owns a s1' (rev la) (blocks s2 lb)).
    { eapply owns_perm; [exact HP|exact Hh|]. unfold ids. rewrite map_rev. apply Permutation_sym, Permutation_rev. }
    destruct (winv_set s1 s2 s1' a _ lb Hk Hh R' R2 Ho') as [Hw Ha].
    exists (LOut CC_OK []), {| wa := s1'; wb := s2; wal := a |}, false. rewrite Ha, map_rev. fin.
  - (* filter_mut *)
    unfold cl_filter_mut. destruct la as [|p t].
    + rewrite (rep_size _ _ R1). cbn [lenN length N.of_nat N.eqb bind map].
      apply (Hro (LOut CC_ERR_OUT_OF_RANGE [])).
    + rewrite (rep_size _ _ R1), lenN_cons. replace (lenN t + 1 =? 0) with false by lia. rewrite (rep_head _ _ R1).
      destruct (filter_mut_loop_spec pred (p :: t) (fuel_of s1) [] s1 a _ R1 Hown (fuel_of_gt _ _ R1))
        as (s1' & a' & E & R' & [Hk' Ho'] & Hh & Hf & _).
      rewrite E. cbn [bind app] in *.
      destruct (winv_set s1 s2 s1' a' _ lb Hk' Hh R' R2 Ho') as [Hw Ha].
      exists (LOut CC_OK []), {| wa := s1'; wb := s2; wal := a' |}, false. rewrite Ha, filter_snd.
      cbn [map]. fin.
  - (* add_all *)
    destruct lb as [|q tb].
    + rewrite (add_all_empty_src _ _ _ R2). cbn [bind map]. apply (Hro (LOut CC_OK [])).
    + destruct (add_all_spec s1 la s2 (q :: tb) a _ R1 R2 Hown ltac:(discriminate)) as (st & s1' & a' & E & Hf & Hh & Hc).
      rewrite E. cbn [bind].
      destruct Hc as [(-> & cp & Hcp & R' & [Hk' Ho'])|(-> & -> & Hl & Hk' & Hw1)].
      * rewrite app_nil_r in R', Ho'. destruct (winv_set s1 s2 s1' a' _ _ Hk' Hh R' R2 Ho') as [Hw Ha].
        exists (LOut CC_OK []), {| wa := s1'; wb := s2; wal := a' |}, false. rewrite Ha, map_app, Hcp. cbn [map]. fin.
      * assert (Ho2 : owns a' s1 la (blocks s2 (q :: tb))) by (unfold owns; rewrite Hl; exact HP).
        destruct (winv_set s1 s2 s1 a' _ _ Hk' (same_hdr_refl _) R1 R2 Ho2) as [Hw Ha].
        exists (LOut CC_ERR_ALLOC []), {| wa := s1; wb := s2; wal := a' |}, true. rewrite Ha. cbn [map]. fin.
  - (* add_all_at *)
    destruct lb as [|q tb].
    + rewrite (add_all_at_empty_src _ _ _ _ R2). cbn [bind map]. apply (Hro (LOut CC_OK [])).
    + cbn [map]. rewrite lenN_map. destruct (lenN la <? i) eqn:Ei.
      * assert (Hi : lenN la < i) by lia. rewrite (add_all_at_out s1 la s2 (q :: tb) a i R1 R2 ltac:(discriminate) Hi). cbn [bind].
        apply (Hro (LOut CC_ERR_OUT_OF_RANGE [])).
      * assert (Hsp : exists A B, la = A ++ B /\ lenN A = i).
        { destruct (N.eq_dec i (lenN la)) as [->|Hne]; [exists la, []; rewrite app_nil_r; auto|].
          destruct (split_at la i ltac:(lia)) as (l1 & x & l2 & -> & <-). exists l1, (x :: l2). auto. }
        destruct Hsp as (A & B & -> & <-).
        destruct (add_all_at_spec s1 A B s2 (q :: tb) a _ R1 R2 Hown ltac:(discriminate)) as (st & s1' & a' & E & Hf & Hh & Hc).
        rewrite E. cbn [bind].
        destruct Hc as [(-> & cp & Hcp & R' & [Hk' Ho'])|(-> & -> & Hl & Hk' & Hw1)].
        -- destruct (winv_set s1 s2 s1' a' _ _ Hk' Hh R' R2 Ho') as [Hw Ha].
           exists (LOut CC_OK []), {| wa := s1'; wb := s2; wal := a' |}, false. rewrite Ha.
           unfold insert_at. rewrite !map_app, Hcp. rewrite <- (lenN_map snd A), firstnN_app, skipnN_app. cbn [map]. fin.
        -- assert (Ho2 : owns a' s1 (A ++ B) (blocks s2 (q :: tb))) by (unfold owns; rewrite Hl; exact HP).
           destruct (winv_set s1 s2 s1 a' _ _ Hk' (same_hdr_refl _) R1 R2 Ho2) as [Hw Ha].
           exists (LOut CC_ERR_ALLOC []), {| wa := s1; wb := s2; wal := a' |}, true. rewrite Ha. cbn [map]. fin.
  - (* splice *)
    unfold cl_splice. destruct lb as [|q tb].
    + rewrite (splice_at_empty_src _ _ _ R2). cbn [bind map]. apply (Hro (LOut CC_OK [])).
    + rewrite (rep_size _ _ R1). rewrite <- (app_nil_r la) in R1, HP.
      destruct (splice_at_spec s1 la [] s2 (q :: tb) R1 R2 ltac:(discriminate)) as (s1' & E & R' & Hh).
      { rewrite app_nil_r. eapply blocks_disjoint; [exact Hk|]. rewrite app_nil_r in HP. exact HP. }
      rewrite E. cbn [bind]. rewrite app_nil_r in R', HP.
      assert (Ho' : owns a s1' (la ++ q :: tb) (blocks (emptied s2) [])).
      { eapply owns_splice; [exact Hmo|exact Hh| |exact HP]. rewrite ids_app. reflexivity. }
      destruct (winv_set s1 (emptied s2) s1' a _ [] Hk Hh R' (lrep_emptied _ _ R2) Ho') as [Hw Ha].
      exists (LOut CC_OK []), {| wa := s1'; wb := emptied s2; wal := a |}, false. rewrite Ha, map_app.
      cbn [map]. fin.
  - (* splice_at *)
    destruct lb as [|q tb].
    + rewrite (splice_at_empty_src _ _ _ R2). cbn [bind map]. apply (Hro (LOut CC_OK [])).
    + cbn [map]. rewrite lenN_map. destruct (lenN la <? i) eqn:Ei.
      * assert (Hi : lenN la < i) by lia. rewrite (splice_at_out s1 la s2 (q :: tb) i R1 R2 ltac:(discriminate) Hi). cbn [bind].
        apply (Hro (LOut CC_ERR_OUT_OF_RANGE [])).
      * assert (Hsp : exists A B, la = A ++ B /\ lenN A = i).
        { destruct (N.eq_dec i (lenN la)) as [->|Hne]; [exists la, []; rewrite app_nil_r; auto|].
          destruct (split_at la i ltac:(lia)) as (l1 & x & l2 & -> & <-). exists l1, (x :: l2). auto. }
        destruct Hsp as (A & B & -> & <-).
        destruct (splice_at_spec s1 A B s2 (q :: tb) R1 R2 ltac:(discriminate)) as (s1' & E & R' & Hh).
        { eapply blocks_disjoint; [exact Hk|exact HP]. }
        rewrite E. cbn [bind].
        assert (Ho' : owns a s1' (A ++ (q :: tb) ++ B) (blocks (emptied s2) [])).
        { eapply owns_splice; [exact Hmo|exact Hh| |exact HP]. rewrite !ids_app. rewrite <- app_assoc.
          apply Permutation_app_head, Permutation_app_comm. }
        destruct (winv_set s1 (emptied s2) s1' a _ [] Hk Hh R' (lrep_emptied _ _ R2) Ho') as [Hw Ha].
        exists (LOut CC_OK []), {| wa := s1'; wb := emptied s2; wal := a |}, false. rewrite Ha.
        unfold insert_at. rewrite !map_app. rewrite <- (lenN_map snd A), firstnN_app, skipnN_app.
        cbn [map]. fin.
Qed.

End Refine.
