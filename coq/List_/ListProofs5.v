(** Doubly linked list: both handles, histories, and the theorems exported to Properties/C04.v.

    Map of the list engine's proofs (all closed under the global context, no axioms):
      ListHeap.v     heap / segment ([dseg]) / ledger toolkit, representation [lrep], [cl_abs], [cl_back] = rev
      ListProofs1.v  add_first, add_last, link_behind (fresh node), add_at, unlinkn, get_node_at (both directions),
                     read-only walks, unlinkn_all loop, filter_mut loop
      ListProofs2.v  link_all_externally (+ cleanup on refusal), joining segments, attach_between / splice_links,
                     add_all_to_empty, add_all_at, add_all, splice_at (+ their empty-source / out-of-range cases)
      ListProofs3.v  swap_adjacent, swap, reverse
      ListProofs4.v  world invariant [winv], [step_refines_HA] (all 26 operations of [lop])
      ListProofs5.v  either handle, histories from the constructor, [list_wf], mirror, bulk            (C04)
      ListProofs6.v  remove_all_cb / destroy / destroy_cb (C06); sublist, copy_shallow, copy_deep, filter: contents,
                     result well formed, own allocator family, refusal releases the partial copy   (C15, C14, C08)
      ListProofs7.v  link_after (fresh node); forward iterator: next / fresh-complete / index / replace / remove / add;
                     descending iterator likewise (yields the reverse); zip iterator: next, lockstep, fresh-complete (C07)
      ListProofs8.v  cc_list_sort under the sorter hypothesis (C18); [step_frame]: a status other than CC_OK leaves both
                     lists and the live ledger untouched (C16, C08); lemmas about the generated guards (C16)
      ListProofs9.v  link_behind moving a node, the merge loop, split, merge sort = stable insertion sort:
                     sort_in_place is sorted + permutation + stable + well formed                          (C18)
    Not proved, tied to the C code by the correspondence runs only: cc_list_reduce; zip_iter_add / _remove / _replace /
    _index (their single-list counterparts are proved); iterator calls outside the contract (add without a yielded
    element, two structural changes per yield) where the model predicts the fault or the stale tail that the code shows. *)
From Coq Require Import Permutation.
From CC Require Import Base.Prelude Base.ListMem Base.Alloc Base.AllocProofs.
From CC Require Import Generated.Status Generated.Guards List_.ListModel List_.ListHeap List_.ListProofs1 List_.ListProofs2
  List_.ListProofs3 List_.ListProofs4.
Local Open Scope N_scope.

Section Run.
Variable cmp : N -> N -> comparison.
Variable pred : N -> bool.

Lemma wabs_swap w : wabs (wswap w) = pswap (wabs w).
Proof. reflexivity. Qed.
Lemma wswap_invol w : wswap (wswap w) = w.
Proof. destruct w; reflexivity. Qed.

(** One step, either handle. *)
Lemma mem_ok_swap w o : mem_ok w o -> mem_ok (wswap w) o.
Proof. destruct o; cbn; auto. Qed.

Theorem list_step_refines w hd o : winv w -> step_ok cmp pred w hd o.
Proof.
  intros Hw Hmo. destruct hd; [apply step_refines_HA; assumption|].
  destruct (step_refines_HA cmp pred (wswap w) o (winv_swap _ Hw) (mem_ok_swap _ _ Hmo)) as (out & w1 & fl & E & (Hw1 & Hm1 & Hm2) & Hs & Hf & Hfl).
  exists out, (wswap w1), fl. rewrite step_swap, E. cbn [bind]. split; [reflexivity|].
  split; [split; [apply winv_swap; exact Hw1|split; assumption]|].
  split; [|split; [exact Hf|exact Hfl]].
  rewrite spec_swap, <- wabs_swap, <- Hs. reflexivity.
Qed.

(** Does a history use a move operation? Only then the two lists must share an allocator family. *)
Definition is_splice (o : lop) : bool := match o with OSplice | OSpliceAt _ => true | _ => false end.
Definition has_splice (ops : list (hnd * lop)) : bool := existsb (fun p => is_splice (snd p)) ops.
Lemma mem_ok_of o w : (is_splice o = true -> l_mem (wa w) = l_mem (wb w)) -> mem_ok w o.
Proof. destruct o; cbn; auto. Qed.

(** A refusal under an exhausted plan can only be a request above the limit. *)
Fixpoint fls_ok (lim : N) (p : list N * list N) (ops : list (hnd * lop)) (fls : list bool) : Prop :=
  match ops with
  | [] => True
  | (hd, o) :: r =>
      let fl := match fls with f :: _ => f | [] => false end in
      (fl = true -> lim < req_bytes (psel p hd) o) /\ fls_ok lim (snd (spec_step cmp pred p hd o fl)) r (tl fls)
  end.

Theorem list_run_refines ops : forall w, winv w -> (has_splice ops = true -> l_mem (wa w) = l_mem (wb w)) ->
  exists outs w' fls, cl_run cmp pred w ops = Ok (outs, w') /\ winv w' /\ length fls = length ops /\
    (outs, wabs w') = spec_run cmp pred (wabs w) ops fls /\ aframe (wal w) (wal w') /\
    (plan (wal w) = [] -> fls_ok (limit (wal w)) (wabs w) ops fls).
Proof.
  induction ops as [|[hd o] r IH]; intros w Hw Hsp.
  - exists [], w, []. cbn. auto 10 using aframe_refl.
  - cbn [has_splice existsb snd] in Hsp.
    destruct (list_step_refines w hd o Hw) as (out & w1 & fl & E & (Hw1 & Hm1 & Hm2) & Hs & Hf & Hfl).
    { apply mem_ok_of. intros Ho. apply Hsp. rewrite Ho. reflexivity. }
    destruct (IH w1 Hw1) as (outs & w2 & fls & E2 & Hw2 & Hlen & Hs2 & Hf2 & Hfl2).
    { intros Hr. rewrite Hm1, Hm2. apply Hsp. fold (has_splice r). rewrite Hr. apply orb_true_r. }
    exists (out :: outs), w2, (fl :: fls). cbn [cl_run]. rewrite E. cbn [bind]. rewrite E2. cbn [bind].
    split; [reflexivity|]. split; [exact Hw2|]. split; [cbn; lia|]. split; [|split; [eapply aframe_trans; eassumption|]].
    + cbn [spec_run tl]. rewrite <- Hs, <- Hs2. reflexivity.
    + intros Hp. cbn [fls_ok tl]. split.
      * intros ->. destruct (Hfl eq_refl) as [H|H]; [contradiction|exact H].
      * rewrite <- Hs. cbn [snd]. rewrite <- (af_limit _ _ Hf). apply Hfl2. apply (af_plan _ _ Hf Hp).
Qed.

(** Two fresh lists from the constructor. *)
Lemma new_winv mema memb a0 sa a1 sb a2 :
  lok a0 -> live a0 = [] -> cl_new mema a0 = (CC_OK, Some sa, a1) -> cl_new memb a1 = (CC_OK, Some sb, a2) ->
  winv {| wa := sa; wb := sb; wal := a2 |} /\ wabs {| wa := sa; wb := sb; wal := a2 |} = ([], []) /\ aframe a0 a2 /\
  l_mem sa = mema /\ l_mem sb = memb.
Proof.
  intros Hk Hl0 E1 E2. unfold cl_new in *.
  destruct (alloc mema HDR_BYTES a0) as [[h1|] a1'] eqn:Ea1; [|discriminate]. inversion E1; subst; clear E1.
  destruct (alloc memb HDR_BYTES a1) as [[h2|] a2'] eqn:Ea2; [|discriminate]. inversion E2; subst; clear E2.
  destruct (alloc_some _ _ _ _ _ Ea1 Hk) as (_ & Hl1 & Hk1 & Hf1 & Hh1 & _).
  destruct (alloc_some _ _ _ _ _ Ea2 Hk1) as (_ & Hl2 & Hk2 & Hf2 & Hh2 & _).
  assert (Rn : forall mem h, h <> 0 -> lrep {| l_size := 0; l_head := 0; l_tail := 0; l_heap := []; l_hdr := h; l_mem := mem |} []).
  { intros mem h Hh. constructor; cbn; auto; try constructor; try (intros y Hy; congruence). }
  split; [|split; [|split; [eapply aframe_trans; eassumption|split; reflexivity]]].
  - constructor; cbn [wa wb wal l_mem]; [assumption|]. exists [], []. split; [apply Rn; assumption|].
    split; [apply Rn; assumption|]. rewrite Hl2, Hl1, Hl0. unfold blocks, hblk. cbn. apply perm_swap.
  - unfold wabs, cl_abs, cl_chain. reflexivity.
Qed.

(** The two lists may be created with different allocator families unless the history moves nodes between them. *)
Theorem list_new_run_refines mema memb a0 sa a1 sb a2 ops :
  lok a0 -> live a0 = [] -> cl_new mema a0 = (CC_OK, Some sa, a1) -> cl_new memb a1 = (CC_OK, Some sb, a2) ->
  (has_splice ops = true -> mema = memb) ->
  exists outs w' fls, cl_run cmp pred {| wa := sa; wb := sb; wal := a2 |} ops = Ok (outs, w') /\ winv w' /\
    length fls = length ops /\ (outs, wabs w') = spec_run cmp pred ([], []) ops fls /\
    (plan a0 = [] -> fls_ok (limit a0) ([], []) ops fls).
Proof.
  intros Hk Hl0 E1 E2 Hsp. destruct (new_winv mema memb a0 sa a1 sb a2 Hk Hl0 E1 E2) as (Hw & Ha & Hf & Hma & Hmb).
  destruct (list_run_refines ops _ Hw) as (outs & w' & fls & E & Hw' & Hlen & Hs & _ & Hfl).
  { cbn [wa wb]. intros H. rewrite Hma, Hmb. apply Hsp, H. }
  exists outs, w', fls. rewrite Ha in Hs, Hfl. cbn [wal] in Hfl. split; [exact E|]. split; [exact Hw'|]. split; [exact Hlen|].
  split; [exact Hs|]. intros Hp. rewrite <- (af_limit _ _ Hf). apply Hfl. apply (af_plan _ _ Hf Hp).
Qed.

(** Preservation alone. *)
Theorem list_wf_preserved w hd o : winv w -> mem_ok w o -> exists out w', cl_step cmp pred w hd o = Ok (out, w') /\ winv w'.
Proof. intros Hw Hmo. destruct (list_step_refines w hd o Hw Hmo) as (out & w' & fl & E & (Hw' & _) & _). eauto. Qed.
End Run.

(** What the invariant says about each of the two lists, spelled out. *)
Definition list_wf (s : clist) : Prop :=
  exists l : list (N * N),
    NoDup (map fst l) /\ ~ In 0 (map fst l) /\
    l_head s = first_id l 0 /\ l_tail s = last_id l 0 /\ l_size s = lenN l /\
    dseg (l_heap s) 0 l 0 /\ (forall x, hget (l_heap s) x <> None <-> In x (map fst l)) /\
    cl_abs s = map snd l.

Theorem winv_list_wf w : winv w -> list_wf (wa w) /\ list_wf (wb w).
Proof.
  intros [_ (la & lb & R1 & R2 & _)].
  assert (H : forall s l, lrep s l -> list_wf s).
  { intros s l R. exists l. split; [apply R|]. split; [apply R|]. split; [apply R|]. split; [apply R|]. split; [apply R|].
    split; [apply R|]. split; [|apply lrep_abs; exact R].
    intros x. split; [apply (rep_dom _ _ R)|]. intros Hin. destruct (dseg_in _ _ _ _ _ (rep_seg _ _ R) Hin) as [nd ->]. discriminate. }
  split; eapply H; eassumption.
Qed.

(** Backward traversal = mirror image of the forward traversal. *)
Theorem list_mirror w : winv w -> cl_back (wa w) = rev (cl_abs (wa w)) /\ cl_back (wb w) = rev (cl_abs (wb w)).
Proof.
  intros [_ (la & lb & R1 & R2 & _)].
  rewrite (lrep_back _ _ R1), (lrep_back _ _ R2), (lrep_abs _ _ R1), (lrep_abs _ _ R2). auto.
Qed.

(** Bulk operations: the copy operations leave the source list's whole state untouched; the move operations
    leave it empty (or untouched when nothing was moved). Contents are given by [list_step_refines]. *)
Section Bulk.
Variable cmp : N -> N -> comparison.
Variable pred : N -> bool.

Lemma splice_src l1 l2 i st l1' l2' : cl_splice_at l1 l2 i = Ok (st, l1', l2') -> l2' = l2 \/ l2' = emptied l2.
Proof.
  unfold cl_splice_at, splice_between.
  repeat match goal with |- context [if ?c then _ else _] => destruct c end; try (intros E; inversion E; auto; fail).
  destruct (end_base _ _) as [[e b]|]; cbn [bind]; [|discriminate].
  destruct (splice_links _ _ _ _ _ _ _) as [[[hd tl] h']|]; cbn [bind]; [|discriminate].
  intros E; inversion E; auto.
Qed.
Lemma splice_src' l1 l2 st l1' l2' : cl_splice l1 l2 = Ok (st, l1', l2') -> l2' = l2 \/ l2' = emptied l2.
Proof. apply splice_src. Qed.

Theorem list_bulk w hd o : winv w -> mem_ok w o ->
  exists out w' fl, cl_step cmp pred w hd o = Ok (out, w') /\ winv w' /\
    (out, wabs w') = spec_step cmp pred (wabs w) hd o fl /\
    match o with
    | OAddAll | OAddAllAt _ => wget w' (wother hd) = wget w (wother hd)
    | OSplice | OSpliceAt _ =>
        wget w' (wother hd) = wget w (wother hd) \/
        (wget w' (wother hd) = emptied (wget w (wother hd)) /\ cl_abs (wget w' (wother hd)) = [] /\ cl_size (wget w' (wother hd)) = 0)
    | _ => True
    end.
Proof.
  intros Hw Hmo. destruct (list_step_refines cmp pred w hd o Hw Hmo) as (out & w' & fl & E & (Hw' & _) & Hs & _).
  exists out, w', fl. split; [exact E|]. split; [exact Hw'|]. split; [exact Hs|].
  destruct w as [sa sb a]. destruct o; try exact I; destruct hd; unfold cl_step in E; cbn [wget wother wset wset2 wa wb wal] in *.
  all: try (match type of E with (do _ <- ?x; _) = _ => destruct x as [[[st l'] a']|]; cbn [bind] in E; [|discriminate] end;
            inversion E; subst; reflexivity).
  all: match type of E with (do _ <- ?x; _) = _ => destruct x as [[[st l'] s']|] eqn:Es; cbn [bind] in E; [|discriminate] end;
       inversion E; subst; cbn [wa wb]; apply splice_src in Es; destruct Es as [->| ->]; [left; reflexivity|right; auto].
Qed.
End Bulk.
