(** Extraction of the list engine model. ExtrOcamlBasic only; N / positive / nat stay Coq inductives. *)
From Coq Require Import Extraction ExtrOcamlBasic.
From CC Require Import Base.Prelude Base.Alloc Generated.Status Generated.Constants Generated.Macros Generated.Guards.
From CC Require Import List_.ListModel.
Extraction Language OCaml.
Extraction "model.ml"
  N.add N.mul N.sub N.div N.modulo N.eqb N.ltb N.leb N.of_nat N.to_nat N.land N.shiftl N.shiftr N.compare
  alloc_init alloc release count_tag is_live stat_code wadd wsub wmul
  cl_new cl_destroy cl_destroy_cb cl_step cl_run spec_step spec_run
  cl_sublist cl_copy_shallow cl_copy_deep cl_filter cl_sort cl_sort_in_place cl_reduce
  cl_get_at cl_get_first cl_get_last cl_size
  iter_init diter_init iter_next diter_next iter_remove diter_remove iter_add diter_add iter_replace iter_index diter_index
  zip_init zip_next zip_add zip_remove zip_replace zip_index
  cmp_val cmp_key pred_even cp_1000 red_fn isort cl_abs cl_back.
