(** Histories: every run of the table from any state satisfying the invariant (in particular from the
    constructor) keeps the invariant and refines the ideal sorted association list; comparator-call
    bounds for every call of every history; exact statuses under a granting allocator. *)
From Coq Require Import Sorted.
From CC Require Import Base.Prelude Base.ListMem Base.Alloc Base.AllocProofs.
From CC Require Import Generated.Status Generated.Guards Tree.TreeModel.
From CC Require Import Tree.TreeProofsInv Tree.TreeProofsIns Tree.TreeProofsDel Tree.TreeProofsMap Tree.TreeProofsTable.
Local Open Scope nat_scope.

Section Cmp.
Variable cmp : N -> N -> comparison.
Hypothesis cmp_refl : forall x, cmp x x = Eq.
Hypothesis cmp_anti : forall x y, cmp y x = CompOpp (cmp x y).
Hypothesis cmp_trans : forall x y z, cmp x y = Lt -> cmp y z = Lt -> cmp x z = Lt.
Hypothesis cmp_eq_l : forall x y z, cmp x y = Eq -> cmp x z = cmp y z.

Notation tt_inv := (tt_inv cmp).
Notation rb_inv := (rb_inv cmp).
Notation refines_step := (refines_step cmp).

(** a step that returns at all respected the iterator contract *)
Lemma ok_op_ok s a o x : tt_step cmp s a o = Ok x -> op_ok s o.
Proof.
  destruct o; cbn [op_ok]; try exact (fun _ => Logic.I); cbn [tt_step].
  - destruct (tt_iter s); intros H; [discriminate|discriminate H].
  - destruct (tt_iter s) as [it|]; [|discriminate]. intros H. exists it. split; [reflexivity|].
    intros Ec. rewrite Ec in H. discriminate.
Qed.

Theorem tt_step_inv s a o out s' a' :
  tt_inv s a -> (N.of_nat (tsize (tt_tree s)) + 1 < W)%N ->
  tt_step cmp s a o = Ok (out, s', a') -> tt_inv s' a' /\ refines_step s o out s'.
Proof.
  intros I Hsm H.
  destruct (tt_step_refines cmp cmp_refl cmp_anti cmp_trans cmp_eq_l s a o I Hsm (ok_op_ok _ _ _ _ H))
    as (out2 & s2 & a2 & H2 & I2 & R2).
  rewrite H in H2. injection H2 as <- <- <-. auto.
Qed.

(** ** sizes *)
Lemma spec_add_length k v l : length (spec_add cmp k v l) <= S (length l).
Proof. induction l as [|[k1 v1] l IH]; cbn; [lia|]. destruct (cmp k k1); cbn; lia. Qed.
Lemma spec_remove_length k l : length (spec_remove cmp k l) <= length l.
Proof. induction l as [|[k1 v1] l IH]; cbn; [lia|]. destruct (cmp k k1); cbn; lia. Qed.
Lemma remove_eqb_length k l : length (remove_eqb k l) <= length l.
Proof. induction l as [|[k1 v1] l IH]; cbn; [lia|]. destruct (k1 =? k)%N; cbn; lia. Qed.
Lemma removelast_length {A} (l : list A) : length (removelast l) <= length l.
Proof. induction l as [|x l IH]; cbn; [lia|]. destruct l; cbn in *; lia. Qed.

Lemma spec_step_length st o : length (fst (snd (spec_step cmp st o))) <= S (length (fst st)).
Proof.
  destruct st as [l it]. pose proof (spec_add_length) as A. pose proof spec_remove_length as Rm.
  pose proof remove_eqb_length as Re. pose proof (@removelast_length (N * N)) as Rl.
  destruct o; cbn [spec_step];
    repeat match goal with |- context [match ?x with _ => _ end] => destruct x end;
    cbn [fst snd length]; auto; try lia.
Qed.

Lemma refines_size s o out s' : refines_step s o out s' -> tsize (tt_tree s') <= S (tsize (tt_tree s)).
Proof.
  intros [(_ & _ & E & _)|(_ & E)]; rewrite !tsize_elems.
  - unfold abs in E. injection E as -> _. lia.
  - pose proof (spec_step_length (abs s) o) as H. rewrite <- E in H. exact H.
Qed.

(** ** the constructor *)
Lemma tt_new_inv mem a0 st s a :
  ledger_ok a0 -> (0 < next_id a0)%N -> tt_new mem a0 = Ok (st, Some s, a) ->
  st = CC_OK /\ tt_inv s a /\ abs s = ([], None) /\ tt_tree s = L.
Proof.
  intros Hok Hpos. unfold tt_new.
  assert (H0 : owns a0 mem []) by (split; [exact Hok|]; split; [exact Hpos|]; split; [constructor|intros ? []]).
  pose proof (owns_alloc _ _ _ SIZEOF_TABLE H0) as H1.
  destruct (alloc mem SIZEOF_TABLE a0) as [[h|] a1]; [|discriminate].
  pose proof (owns_alloc _ _ _ SIZEOF_RBNODE H1) as H2.
  destruct (alloc mem SIZEOF_RBNODE a1) as [[sn|] a2].
  - intros [= <- <- <-]. split; [reflexivity|]. split; [|split; reflexivity].
    constructor; cbn; auto.
    + apply rb_inv_L.
    + unfold W. lia.
  - destruct (release mem h a2); cbn; discriminate.
Qed.

(** ** histories *)
Theorem tt_run_refines ops : forall s a outs s' a',
  tt_inv s a -> (N.of_nat (tsize (tt_tree s)) + N.of_nat (length ops) < W)%N ->
  tt_run cmp s a ops = Ok (outs, s', a') ->
  tt_inv s' a' /\
  (map (fun o => (o_st o, o_vals o)) outs, abs s') = spec_run_d cmp (abs s) ops (map o_st outs).
Proof.
  induction ops as [|o r IH]; intros s a outs s' a' I Hsm H; cbn [tt_run] in H.
  - injection H as <- <- <-. auto.
  - destruct (tt_step cmp s a o) as [[[out s1] a1]|] eqn:E; [|discriminate]. cbn [bind] in H.
    destruct (tt_run cmp s1 a1 r) as [[[outs1 s2] a2]|] eqn:E2; [|discriminate]. cbn [bind] in H.
    injection H as <- <- <-. cbn [length] in Hsm.
    destruct (tt_step_inv _ _ _ _ _ _ I ltac:(lia) E) as (I1 & R1).
    pose proof (refines_size _ _ _ _ R1) as Hsz.
    destruct (IH _ _ _ _ _ I1 ltac:(lia) E2) as (I2 & R2). split; [exact I2|].
    cbn [map spec_run_d]. unfold spec_step_d.
    destruct R1 as [(Est & Ev & Ea & _)|(Est & Ea)].
    + rewrite Est. cbn [is_alloc_err]. rewrite <- Ea, <- R2, Ev. reflexivity.
    + assert (is_alloc_err (o_st out) = false) as -> by (destruct (o_st out); try reflexivity; congruence).
      rewrite <- Ea, <- R2. reflexivity.
Qed.

Theorem tt_new_run_refines mem a0 st s a ops outs s' a' :
  ledger_ok a0 -> (0 < next_id a0)%N -> tt_new mem a0 = Ok (st, Some s, a) ->
  (N.of_nat (length ops) < W)%N ->
  tt_run cmp s a ops = Ok (outs, s', a') ->
  tt_inv s' a' /\
  (map (fun o => (o_st o, o_vals o)) outs, abs s') = spec_run_d cmp ([], None) ops (map o_st outs).
Proof.
  intros Hok Hpos Hn Hlen Hr. destruct (tt_new_inv _ _ _ _ _ Hok Hpos Hn) as (_ & I & Ea & Et).
  rewrite <- Ea. apply (tt_run_refines ops s a); auto. rewrite Et. cbn. lia.
Qed.

(** ** comparator calls *)
Lemma lookup_count s k : N.to_nat (snd (lookup cmp s k)) <= height (tt_tree s).
Proof.
  unfold lookup. destruct (g_tt_lookup_empty (tt_size s)).
  - cbn. lia.
  - apply locate_count; auto.
Qed.

Ltac crunch H :=
  repeat (cbn [bind] in H;
          match type of H with
          | context [match ?x with _ => _ end] => destruct x eqn:?
          | context [bind ?x _] => destruct x eqn:?
          end);
  cbn [bind] in H; try discriminate.

Lemma tt_step_cmps s a o out s' a' :
  tt_step cmp s a o = Ok (out, s', a') ->
  N.to_nat (o_cmps out) <= height (tt_tree s) + match o with OAdd _ _ => 1 | _ => 0 end.
Proof.
  destruct o; cbn [tt_step]; intros H.
  1:{ unfold tt_add in H. pose proof (locate_count cmp cmp_refl cmp_anti cmp_trans cmp_eq_l (tt_tree s) k []) as HC.
      destruct (locate cmp (tt_tree s) k []) as [lo n]; cbn [snd] in HC.
      crunch H; injection H as <- <- <-; cbn [o_cmps mk_out]; lia. }
  all: try (pose proof (lookup_count s k) as HC; destruct (lookup cmp s k) as [lo n]; cbn [snd] in HC).
  all: crunch H; injection H as <- <- <-; cbn [o_cmps mk_out]; lia.
Qed.

Theorem tt_step_cmps_log s a o out s' a' :
  tt_inv s a -> tt_step cmp s a o = Ok (out, s', a') ->
  N.to_nat (o_cmps out) <= 2 * Nat.log2 (tsize (tt_tree s) + 1) + 2 /\
  (match o with OAdd _ _ => True | _ => N.to_nat (o_cmps out) <= 2 * Nat.log2 (tsize (tt_tree s) + 1) end).
Proof.
  intros I H. pose proof (tt_step_cmps _ _ _ _ _ _ H) as HC.
  pose proof (rb_inv_height cmp _ (inv_rb _ _ _ I)) as Hh.
  split; destruct o; auto; lia.
Qed.

(** every call of every history stays within the bound, and the tree stays red-black *)
Fixpoint run_balanced (s : ttable) (a : alloc_st) (ops : list tt_op) : Prop :=
  match ops with
  | [] => rb_inv (tt_tree s)
  | o :: r =>
      rb_inv (tt_tree s) /\
      match tt_step cmp s a o with
      | Ok (out, s1, a1) =>
          N.to_nat (o_cmps out) <= 2 * Nat.log2 (tsize (tt_tree s) + 1) + 2 /\ run_balanced s1 a1 r
      | Fault _ => True
      end
  end.

Theorem tt_run_balanced ops : forall s a,
  tt_inv s a -> (N.of_nat (tsize (tt_tree s)) + N.of_nat (length ops) < W)%N -> run_balanced s a ops.
Proof.
  induction ops as [|o r IH]; intros s a I Hsm; cbn [run_balanced]; [exact (inv_rb _ _ _ I)|].
  split; [exact (inv_rb _ _ _ I)|]. cbn [length] in Hsm.
  destruct (tt_step cmp s a o) as [[[out s1] a1]|] eqn:E; [|exact Logic.I].
  destruct (tt_step_inv _ _ _ _ _ _ I ltac:(lia) E) as (I1 & R1).
  pose proof (refines_size _ _ _ _ R1) as Hsz.
  split; [exact (proj1 (tt_step_cmps_log _ _ _ _ _ _ I E))|]. apply IH; auto. lia.
Qed.

End Cmp.
