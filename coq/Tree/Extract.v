(** Extraction of the treetable engine model. ExtrOcamlBasic only; no Extract Constant. *)
From Coq Require Import Extraction ExtrOcamlBasic.
From CC Require Import Base.Prelude Base.Alloc Generated.Status Generated.Constants Generated.Macros Generated.Guards.
From CC Require Import Tree.TreeModel.
Extraction Language OCaml.
Extraction "model.ml"
  N.add N.mul N.sub N.div N.modulo N.eqb N.ltb N.leb N.of_nat N.to_nat N.land N.shiftl N.shiftr N.compare
  alloc_init alloc release count_tag is_live stat_code
  tt_new tt_destroy tt_step spec_step ts_new ts_destroy ts_step ts_spec_step ts_to_tt
  rb_inv_b elems keys tsize height min_binding max_binding.
