(** Deletion: [del_fix] (rebalance_after_delete) and [remove_node] keep the in-order bindings (minus the
    removed one) and re-establish the colour / black-height invariant with a black root. *)
From Coq Require Import Sorted.
From CC Require Import Base.Prelude Base.ListMem Base.Alloc Base.AllocProofs.
From CC Require Import Generated.Status Generated.Guards Tree.TreeModel Tree.TreeProofsInv Tree.TreeProofsIns.
Local Open Scope nat_scope.

Lemma Ok_inj {A} (a b : A) : Ok a = Ok b -> a = b.
Proof. now intros [= ->]. Qed.
Ltac okinv H := apply Ok_inj in H; subst.

(** ** In-order sequence *)
Lemma del_left_elems x pc pk pv w rest :
  match del_left x pc pk pv w rest with
  | Again t => elems t = elems (T pc x pk pv w)
  | Done (Ok t) => elems t = elems (plug (T pc x pk pv w) rest)
  | Done (Fault _) => True
  end.
Proof.
  destruct w as [|wc wl wk wv wr]; cbn [del_left]; [exact I|].
  destruct (col wl) eqn:El, (col wr) eqn:Er.
  - rewrite elems_blacken. apply elems_plug_congr. el_tac.
  - destruct wl as [|lc a lk lv b]; [exact I|]. rewrite elems_blacken. apply elems_plug_congr. el_tac.
  - rewrite elems_blacken. apply elems_plug_congr. el_tac.
  - el_tac.
Qed.

Lemma del_right_elems x pc pk pv w rest :
  match del_right x pc pk pv w rest with
  | Again t => elems t = elems (T pc w pk pv x)
  | Done (Ok t) => elems t = elems (plug (T pc w pk pv x) rest)
  | Done (Fault _) => True
  end.
Proof.
  destruct w as [|wc wl wk wv wr]; cbn [del_right]; [exact I|].
  destruct (col wr) eqn:Er, (col wl) eqn:El.
  - rewrite elems_blacken. apply elems_plug_congr. el_tac.
  - destruct wr as [|rc a rk rv b]; [exact I|]. rewrite elems_blacken. apply elems_plug_congr. el_tac.
  - rewrite elems_blacken. apply elems_plug_congr. el_tac.
  - el_tac.
Qed.

Lemma del_fix_elems cx : forall x t', del_fix x cx = Ok t' -> elems t' = elems (plug x cx).
Proof.
  induction cx as [|[d pc pk pv w] rest IH]; intros x t' H; cbn [del_fix] in H.
  - okinv H. cbn. apply elems_blacken.
  - destruct (col x) eqn:Ex.
    { injection H as <-. rewrite plug_cons. apply elems_plug_congr. destruct d; cbn [plug1 elems]; now rewrite elems_blacken. }
    rewrite plug_cons. destruct d; cbn [plug1].
    + destruct w as [|[] wl wk wv wr].
      * pose proof (del_left_elems x pc pk pv L rest) as D. destruct (del_left x pc pk pv L rest) as [t|[t|f]].
        -- apply IH in H. rewrite H. apply elems_plug_congr. exact D.
        -- okinv H. exact D.
        -- discriminate.
      * pose proof (del_left_elems x R pk pv wl (F DL B wk wv wr :: rest)) as D.
        destruct (del_left x R pk pv wl (F DL B wk wv wr :: rest)) as [t|[t|f]].
        -- okinv H. rewrite plug_cons. apply elems_plug_congr.
           cbn [plug1 elems]. rewrite elems_blacken, D. el_tac.
        -- okinv H. rewrite D, plug_cons. apply elems_plug_congr. el_tac.
        -- discriminate.
      * pose proof (del_left_elems x pc pk pv (T B wl wk wv wr) rest) as D.
        destruct (del_left x pc pk pv (T B wl wk wv wr) rest) as [t|[t|f]].
        -- apply IH in H. rewrite H. apply elems_plug_congr. exact D.
        -- okinv H. exact D.
        -- discriminate.
    + destruct w as [|[] wl wk wv wr].
      * pose proof (del_right_elems x pc pk pv L rest) as D. destruct (del_right x pc pk pv L rest) as [t|[t|f]].
        -- apply IH in H. rewrite H. apply elems_plug_congr. exact D.
        -- okinv H. exact D.
        -- discriminate.
      * pose proof (del_right_elems x R pk pv wr (F DR B wk wv wl :: rest)) as D.
        destruct (del_right x R pk pv wr (F DR B wk wv wl :: rest)) as [t|[t|f]].
        -- okinv H. rewrite plug_cons. apply elems_plug_congr.
           cbn [plug1 elems]. rewrite elems_blacken, D. el_tac.
        -- okinv H. rewrite D, plug_cons. apply elems_plug_congr. el_tac.
        -- discriminate.
      * pose proof (del_right_elems x pc pk pv (T B wl wk wv wr) rest) as D.
        destruct (del_right x pc pk pv (T B wl wk wv wr) rest) as [t|[t|f]].
        -- apply IH in H. rewrite H. apply elems_plug_congr. exact D.
        -- okinv H. exact D.
        -- discriminate.
Qed.

(** ** Colour / black height.  x is black and one black short of its sibling w (which is black). *)
Lemma col_B_node t : col t = B -> bh t <> 0 -> exists l k v r, t = T B l k v r.
Proof. destruct t as [|[] l k v r]; cbn; intros; try discriminate; try lia; eauto. Qed.

Lemma del_left_rbt x pc pk pv w rest :
  rbt x -> col x = B -> rbt w -> col w = B -> bh w = bh x + 1 ->
  cx_rbt rest (bh x + 1 + cb pc) -> (pc = R -> top_col rest = B) ->
  match del_left x pc pk pv w rest with
  | Again t => rbt (blacken t) /\ bh (blacken t) = bh x + 1 /\ bh t = bh x + cb pc
  | Done (Ok t) => rbt t /\ col t = B
  | Done (Fault _) => False
  end.
Proof.
  intros Hx Hcx Hw Hcw Hbw Hrest Htop.
  destruct (col_B_node w Hcw) as (wl & wk & wv & wr & ->); [lia|].
  cbn [del_left]. cbn [rbt bh] in Hw, Hbw. destruct Hw as (Hwl & Hwr & Hbl & _).
  destruct (col wl) eqn:El, (col wr) eqn:Er.
  - split; [|apply col_blacken]. apply rbt_blacken.
    apply col_R_inv in Er as (a & rk & rv & b & ->).
    eapply plug_rbt; [exact Hrest| | |].
    + rbt_tac.
    + destruct pc; cbn [bh cb blacken] in *; lia.
    + destruct pc; cbn [col]; auto; discriminate.
  - apply col_R_inv in El as (a & lk & lv & b & ->).
    split; [|apply col_blacken]. apply rbt_blacken.
    eapply plug_rbt; [exact Hrest| | |].
    + rbt_tac.
    + destruct pc; cbn [bh cb blacken] in *; lia.
    + destruct pc; cbn [col]; auto; discriminate.
  - split; [|apply col_blacken]. apply rbt_blacken.
    apply col_R_inv in Er as (a & rk & rv & b & ->).
    eapply plug_rbt; [exact Hrest| | |].
    + rbt_tac.
    + destruct pc; cbn [bh cb blacken] in *; lia.
    + destruct pc; cbn [col]; auto; discriminate.
  - cbn [blacken]. split; [rbt_tac|]. split; [cbn [bh]; lia|]. destruct pc; cbn [bh cb]; lia.
Qed.

Lemma del_right_rbt x pc pk pv w rest :
  rbt x -> col x = B -> rbt w -> col w = B -> bh w = bh x + 1 ->
  cx_rbt rest (bh x + 1 + cb pc) -> (pc = R -> top_col rest = B) ->
  match del_right x pc pk pv w rest with
  | Again t => rbt (blacken t) /\ bh (blacken t) = bh x + 1 /\ bh t = bh x + cb pc
  | Done (Ok t) => rbt t /\ col t = B
  | Done (Fault _) => False
  end.
Proof.
  intros Hx Hcx Hw Hcw Hbw Hrest Htop.
  destruct (col_B_node w Hcw) as (wl & wk & wv & wr & ->); [lia|].
  cbn [del_right]. cbn [rbt bh] in Hw, Hbw. destruct Hw as (Hwl & Hwr & Hbl & _).
  destruct (col wr) eqn:Er, (col wl) eqn:El.
  - split; [|apply col_blacken]. apply rbt_blacken.
    apply col_R_inv in El as (a & lk & lv & b & ->).
    eapply plug_rbt; [exact Hrest| | |].
    + rbt_tac.
    + destruct pc; cbn [bh cb blacken] in *; lia.
    + destruct pc; cbn [col]; auto; discriminate.
  - apply col_R_inv in Er as (a & rk & rv & b & ->).
    split; [|apply col_blacken]. apply rbt_blacken.
    eapply plug_rbt; [exact Hrest| | |].
    + rbt_tac.
    + destruct pc; cbn [bh cb blacken] in *; lia.
    + destruct pc; cbn [col]; auto; discriminate.
  - split; [|apply col_blacken]. apply rbt_blacken.
    apply col_R_inv in El as (a & lk & lv & b & ->).
    eapply plug_rbt; [exact Hrest| | |].
    + rbt_tac.
    + destruct pc; cbn [bh cb blacken] in *; lia.
    + destruct pc; cbn [col]; auto; discriminate.
  - cbn [blacken]. split; [rbt_tac|]. split; [cbn [bh]; lia|]. destruct pc; cbn [bh cb]; lia.
Qed.

Lemma root_col_B cx c : root_col cx c = B -> root_col cx B = B.
Proof. destruct cx as [|[]]; cbn; auto. Qed.
Lemma root_col_R cx d : root_col cx R = B -> root_col cx d = B.
Proof. destruct cx as [|[]]; cbn; [discriminate|auto]. Qed.

Lemma del_fix_rbt cx : forall x,
  rbt (blacken x) -> cx_rbt cx (bh x + 1) -> root_col cx B = B ->
  exists t', del_fix x cx = Ok t' /\ rbt t' /\ col t' = B.
Proof.
  induction cx as [|[d pc pk pv w] rest IH]; intros x Hx Hcx Hroot; cbn [del_fix].
  - eexists; split; [reflexivity|]. split; [exact Hx|apply col_blacken].
  - destruct (col x) eqn:Ex.
    { eexists; split; [reflexivity|]. split.
      - eapply plug_rbt; [exact Hcx|exact Hx| |].
        + rewrite bh_blacken_R by exact Ex. lia.
        + rewrite col_blacken. discriminate.
      - rewrite col_plug. rewrite (root_col_cons _ _ _ B). exact Hroot. }
    rewrite (blacken_black x Ex) in Hx.
    cbn [cx_rbt] in Hcx. destruct Hcx as (Hw & Hbw & Hred & Hrest).
    cbn [root_col] in Hroot.
    destruct d.
    + destruct w as [|[] wl wk wv wr].
      * cbn in Hbw. lia.
      * (* red sibling *)
        assert (pc = B) as -> by (destruct pc; [destruct (Hred eq_refl); discriminate|reflexivity]).
        cbn [rbt bh] in Hw, Hbw. destruct Hw as (Hwl & Hwr & Hbl & Hcw). destruct (Hcw eq_refl) as (Hcl & Hcr).
        pose proof (del_left_rbt x R pk pv wl (F DL B wk wv wr :: rest) Hx Ex Hwl Hcl Hbw) as D.
        destruct (del_left x R pk pv wl (F DL B wk wv wr :: rest)) as [t|[t|f]].
        -- destruct D as (D1 & D2 & D3).
           { cbn [cx_rbt cb]. repeat split; auto; try lia; try discriminate.
             replace (bh x + 1 + 0 + 1) with (bh x + 1 + 1) by lia. exact Hrest. }
           { reflexivity. }
           eexists; split; [reflexivity|]. split.
           ++ eapply plug_rbt with (h := bh x + 1); [|exact D1|exact D2|rewrite col_blacken; discriminate].
              cbn [cx_rbt cb]. repeat split; auto; try lia; try discriminate.
           ++ rewrite col_plug. cbn [root_col]. exact Hroot.
        -- destruct D as (D1 & D2).
           { cbn [cx_rbt cb]. repeat split; auto; try lia; try discriminate.
             replace (bh x + 1 + 0 + 1) with (bh x + 1 + 1) by lia. exact Hrest. }
           { reflexivity. }
           eexists; split; [reflexivity|]. auto.
        -- exfalso. apply D; auto.
           { cbn [cx_rbt cb]. repeat split; auto; try lia; try discriminate.
             replace (bh x + 1 + 0 + 1) with (bh x + 1 + 1) by lia. exact Hrest. }
      * pose proof (del_left_rbt x pc pk pv (T B wl wk wv wr) rest Hx Ex Hw eq_refl Hbw Hrest) as D.
        destruct (del_left x pc pk pv (T B wl wk wv wr) rest) as [t|[t|f]].
        -- destruct D as (D1 & D2 & D3); [intros E; now destruct (Hred E)|].
           apply IH; auto.
           ++ replace (bh t + 1) with (bh x + 1 + cb pc) by lia. exact Hrest.
           ++ eapply root_col_B; eauto.
        -- destruct D as (D1 & D2); [intros E; now destruct (Hred E)|]. eexists; split; [reflexivity|]. auto.
        -- exfalso. apply D. intros E; now destruct (Hred E).
    + destruct w as [|[] wl wk wv wr].
      * cbn in Hbw. lia.
      * assert (pc = B) as -> by (destruct pc; [destruct (Hred eq_refl); discriminate|reflexivity]).
        cbn [rbt bh] in Hw, Hbw. destruct Hw as (Hwl & Hwr & Hbl & Hcw). destruct (Hcw eq_refl) as (Hcl & Hcr).
        assert (Hbwr : bh wr = bh x + 1) by lia.
        pose proof (del_right_rbt x R pk pv wr (F DR B wk wv wl :: rest) Hx Ex Hwr Hcr Hbwr) as D.
        destruct (del_right x R pk pv wr (F DR B wk wv wl :: rest)) as [t|[t|f]].
        -- destruct D as (D1 & D2 & D3).
           { cbn [cx_rbt cb]. repeat split; auto; try lia; try discriminate.
             replace (bh x + 1 + 0 + 1) with (bh x + 1 + 1) by lia. exact Hrest. }
           { reflexivity. }
           eexists; split; [reflexivity|]. split.
           ++ eapply plug_rbt with (h := bh x + 1); [|exact D1|exact D2|rewrite col_blacken; discriminate].
              cbn [cx_rbt cb]. repeat split; auto; try lia; try discriminate.
           ++ rewrite col_plug. cbn [root_col]. exact Hroot.
        -- destruct D as (D1 & D2).
           { cbn [cx_rbt cb]. repeat split; auto; try lia; try discriminate.
             replace (bh x + 1 + 0 + 1) with (bh x + 1 + 1) by lia. exact Hrest. }
           { reflexivity. }
           eexists; split; [reflexivity|]. auto.
        -- exfalso. apply D; auto.
           { cbn [cx_rbt cb]. repeat split; auto; try lia; try discriminate.
             replace (bh x + 1 + 0 + 1) with (bh x + 1 + 1) by lia. exact Hrest. }
      * pose proof (del_right_rbt x pc pk pv (T B wl wk wv wr) rest Hx Ex Hw eq_refl Hbw Hrest) as D.
        destruct (del_right x pc pk pv (T B wl wk wv wr) rest) as [t|[t|f]].
        -- destruct D as (D1 & D2 & D3); [intros E; now destruct (Hred E)|].
           apply IH; auto.
           ++ replace (bh t + 1) with (bh x + 1 + cb pc) by lia. exact Hrest.
           ++ eapply root_col_B; eauto.
        -- destruct D as (D1 & D2); [intros E; now destruct (Hred E)|]. eexists; split; [reflexivity|]. auto.
        -- exfalso. apply D. intros E; now destruct (Hred E).
Qed.

(** ** tree_min / tree_max with their paths *)
Lemma min_ctx_spec l : forall c k v r ci yc yk yv yr ci',
  min_ctx c l k v r ci = ((yc, yk, yv, yr), ci') ->
  plug (T yc L yk yv yr) ci' = plug (T c l k v r) ci /\ exists cj, ci' = cj ++ ci /\ below cj = [].
Proof.
  induction l as [|lc ll IHl lk lv lr _]; intros c k v r ci yc yk yv yr ci' H; cbn [min_ctx] in H.
  - inversion H; subst. split; [reflexivity|]. exists []. auto.
  - apply IHl in H. destruct H as (H1 & cj & -> & H2). split; [rewrite H1; reflexivity|].
    exists (cj ++ [F DL c k v r]). rewrite <- app_assoc. split; [reflexivity|].
    clear - H2. induction cj as [|[[] ? ? ? ?] cj IH]; cbn in *; auto.
    apply app_eq_nil in H2. destruct H2 as (_ & H2). apply app_eq_nil in H2. destruct H2; discriminate.
Qed.

Lemma max_ctx_spec r : forall c l k v ci yc yk yv yl ci',
  max_ctx c l k v r ci = ((yc, yk, yv, yl), ci') ->
  plug (T yc yl yk yv L) ci' = plug (T c l k v r) ci /\ exists cj, ci' = cj ++ ci /\ above cj = [].
Proof.
  induction r as [|rc rl _ rk rv rr IHr]; intros c l k v ci yc yk yv yl ci' H; cbn [max_ctx] in H.
  - inversion H; subst. split; [reflexivity|]. exists []. auto.
  - apply IHr in H. destruct H as (H1 & cj & -> & H2). split; [rewrite H1; reflexivity|].
    exists (cj ++ [F DR c k v l]). rewrite <- app_assoc. split; [reflexivity|].
    clear - H2. induction cj as [|[[] ? ? ? ?] cj IH]; cbn in *; auto. discriminate.
Qed.

(** ** remove_node *)
Lemma del_finish_elems yc x hole t' : del_finish yc x hole = Ok t' -> elems t' = elems (plug x hole).
Proof. destruct yc; cbn [del_finish]; intros H; [now inversion H|]. now apply del_fix_elems. Qed.

Lemma remove_node_elems c l r cx t' :
  remove_node c l r cx = Ok t' -> elems t' = below cx ++ elems l ++ elems r ++ above cx.
Proof.
  unfold remove_node. destruct l as [|lc ll lk lv lr].
  - intros H. apply del_finish_elems in H. rewrite H, elems_plug. reflexivity.
  - destruct r as [|rc rl rk rv rr].
    + intros H. apply del_finish_elems in H. rewrite H, elems_plug. reflexivity.
    + destruct (min_ctx rc rl rk rv rr []) as [[[[yc yk] yv] yr] ci] eqn:E.
      intros H. apply del_finish_elems in H. rewrite H.
      apply min_ctx_spec in E. destruct E as (E1 & cj & Eci & E2). rewrite app_nil_r in Eci. subst ci.
      change (plug (T rc rl rk rv rr) []) with (T rc rl rk rv rr) in E1.
      rewrite plug_app, plug_cons. cbn [plug1]. rewrite elems_plug.
      rewrite <- E1. cbn [elems]. rewrite !elems_plug, E2. cbn [elems app]. repeat (rewrite <- ?app_assoc; cbn [app]). reflexivity.
Qed.

Lemma remove_node_rbt c l k v r cx :
  rbt (plug (T c l k v r) cx) -> root_col cx c = B ->
  exists t', remove_node c l r cx = Ok t' /\ rbt t' /\ col t' = B.
Proof.
  intros H Hroot. pose proof (rbt_plug_inv cx _ H) as (Hz & Hcx & Htop).
  unfold remove_node.
  assert (Hone : forall x, rbt x -> bh x = 0 -> (c = R -> col x = B) -> bh (T c l k v r) = bh x + cb c ->
                 exists t', del_finish c x cx = Ok t' /\ rbt t' /\ col t' = B).
  { intros x Hx Hbx Hcol Hb. destruct c; cbn [del_finish].
    - eexists; split; [reflexivity|]. split.
      + eapply plug_rbt; [exact Hcx|exact Hx| |].
        * cbn [cb] in Hb. lia.
        * rewrite Hcol by reflexivity. discriminate.
      + rewrite col_plug. apply root_col_R. exact Hroot.
    - apply del_fix_rbt.
      + now apply rbt_blacken.
      + cbn [cb] in Hb. rewrite <- Hb. exact Hcx.
      + eapply root_col_B; eauto. }
  cbn [rbt] in Hz. destruct Hz as (Hl & Hr & Hblr & Hred).
  destruct l as [|lc ll lk lv lr].
  - apply Hone; [exact Hr | cbn in Hblr; lia | intros E; now destruct (Hred E) | rewrite bh_T; cbn [bh] in *; lia].
  - destruct r as [|rc rl rk rv rr].
    + apply Hone; [exact Hl | rewrite Hblr; reflexivity | intros E; now destruct (Hred E) | rewrite bh_T; lia].
    + destruct (min_ctx rc rl rk rv rr []) as [[[[yc yk] yv] yr] ci] eqn:E.
      apply min_ctx_spec in E. destruct E as (E1 & cj & Eci & E2). rewrite app_nil_r in Eci. subst ci.
      change (plug (T rc rl rk rv rr) []) with (T rc rl rk rv rr) in E1.
      set (hole := cj ++ F DR c yk yv (T lc ll lk lv lr) :: cx).
      assert (Hh : rbt (plug (T yc L yk yv yr) hole)).
      { unfold hole. rewrite plug_app, E1, plug_cons. cbn [plug1].
        eapply plug_rbt; [exact Hcx| | |exact Htop].
        - cbn [rbt]. auto.
        - rewrite !bh_T. reflexivity. }
      apply rbt_plug_inv in Hh. destruct Hh as (Hy & Hhole & Hytop).
      cbn [rbt] in Hy. destruct Hy as (_ & Hyr & Hby & Hyred). cbn [bh] in Hby.
      assert (Hrc : root_col hole B = B).
      { unfold hole. rewrite root_col_app. cbn [root_col]. exact Hroot. }
      destruct yc; cbn [del_finish].
      * eexists; split; [reflexivity|]. destruct (Hyred eq_refl) as (_ & Hcyr). split.
        -- eapply plug_rbt; [exact Hhole|exact Hyr| |].
           ++ cbn [bh]. lia.
           ++ rewrite Hcyr. discriminate.
        -- rewrite col_plug. unfold hole. rewrite root_col_app. cbn [root_col]. exact Hroot.
      * apply del_fix_rbt; auto.
        -- now apply rbt_blacken.
        -- cbn [bh] in Hhole. rewrite <- Hby. exact Hhole.
Qed.
