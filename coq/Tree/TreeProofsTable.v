(** Table level: the invariant [tt_inv] (red-black tree, size field, ledger ownership, cursor), one-step
    refinement of every operation against the sorted association list, histories, comparator-call bounds,
    iterator enumeration, and the tree set.

    Everything below is proved; nothing is left tied by correspondence only except what the model abstracts
    (pointer surgery is structural, node identity is by stored key, which ledger block a removal frees). *)
From Coq Require Import Sorted.
From CC Require Import Base.Prelude Base.ListMem Base.Alloc Base.AllocProofs.
From CC Require Import Generated.Status Generated.Guards Tree.TreeModel.
From CC Require Import Tree.TreeProofsInv Tree.TreeProofsIns Tree.TreeProofsDel Tree.TreeProofsMap.
Local Open Scope nat_scope.

(** * Ledger ownership *)
Definition owns (a : alloc_st) (m : tag) (ids : list N) : Prop :=
  ledger_ok a /\ (0 < next_id a)%N /\ NoDup ids /\
  forall id, In id ids -> exists n, In {| b_id := id; b_tag := m; b_bytes := n |} (live a).

Lemma NoDup_map_inj {A B} (f : A -> B) l x y : NoDup (map f l) -> In x l -> In y l -> f x = f y -> x = y.
Proof.
  induction l as [|z l IH]; cbn; intros Hnd Hx Hy E; [destruct Hx|].
  inversion Hnd as [|? ? Hn Hnd']; subst.
  destruct Hx as [->|Hx], Hy as [->|Hy]; auto.
  - exfalso. apply Hn. rewrite E. now apply in_map.
  - exfalso. apply Hn. rewrite <- E. now apply in_map.
Qed.

Lemma owns_release a m id ids :
  owns a m (id :: ids) ->
  exists a', release m id a = Ok a' /\ owns a' m ids /\ plan a' = plan a /\ limit a' = limit a.
Proof.
  intros ((Hnd & Hlt) & Hpos & Hids & Hin).
  destruct (Hin id (or_introl eq_refl)) as (n & Hb0).
  destruct (remove_block_in id (live a)) as (b & r & Hrm); [eexists; split; [exact Hb0|reflexivity]|].
  destruct (remove_block_spec _ _ _ _ Hrm) as (Hbid & l1 & l2 & Hl & -> & Hl1).
  assert (Hb : b = {| b_id := id; b_tag := m; b_bytes := n |}).
  { apply (NoDup_map_inj b_id (live a)); auto. rewrite Hl. apply in_or_app. right. left. reflexivity. }
  unfold release. rewrite Hrm. subst b. cbn [b_tag]. rewrite tag_eqb_refl.
  eexists; split; [reflexivity|]. split; [|split; reflexivity].
  inversion Hids as [|? ? Hnotin Hids']; subst.
  split; [|split; [exact Hpos|split; [exact Hids'|]]].
  - split; cbn [live next_id].
    + rewrite Hl, map_app in Hnd. cbn [map] in Hnd. apply NoDup_remove_1 in Hnd. now rewrite map_app.
    + intros b Hbin. apply Hlt. rewrite Hl. apply in_app_or in Hbin. apply in_or_app. destruct Hbin; [left|right; right]; auto.
  - intros id' Hid'. destruct (Hin id' (or_intror Hid')) as (n' & Hb'). exists n'. cbn [live].
    rewrite Hl in Hb'. apply in_app_or in Hb'. apply in_or_app. destruct Hb' as [Hb'|[Hb'|Hb']]; auto.
    exfalso. inversion Hb'; subst. auto.
Qed.

Lemma owns_alloc a m ids n :
  owns a m ids ->
  match alloc m n a with
  | (Some id, a') => owns a' m (id :: ids)
  | (None, a') => owns a' m ids
  end.
Proof.
  intros (Hok & Hpos & Hids & Hin).
  pose proof (alloc_cases m n a) as C. destruct (alloc m n a) as [[id|] a'] eqn:E.
  - destruct (alloc_ledger_ok _ _ _ _ _ Hok Hpos E) as (Hok' & Hpos').
    destruct C as (-> & Hl & Hn & _).
    split; [exact Hok'|]. split; [exact Hpos'|]. split.
    + constructor; [|exact Hids]. intros Hi. destruct (Hin _ Hi) as (n' & Hb). destruct Hok as (_ & Hlt).
      apply Hlt in Hb. cbn in Hb. lia.
    + intros id' [<-|Hid'].
      * exists n. rewrite Hl. left. reflexivity.
      * destruct (Hin _ Hid') as (n' & Hb). exists n'. rewrite Hl. right. exact Hb.
  - destruct (alloc_ledger_ok _ _ _ _ _ Hok Hpos E) as (Hok' & Hpos').
    destruct C as (Hl & _).
    split; [exact Hok'|]. split; [exact Hpos'|]. split; [exact Hids|]. rewrite Hl. exact Hin.
Qed.

Lemma owns_release_all m ids : forall a rest,
  owns a m (ids ++ rest) -> exists a', release_all m ids a = Ok a' /\ owns a' m rest.
Proof.
  induction ids as [|id ids IH]; intros a rest H; cbn [release_all app] in *.
  - eauto.
  - destruct (owns_release _ _ _ _ H) as (a1 & -> & H1 & _). cbn [bind]. apply IH. exact H1.
Qed.

(** * Word arithmetic on the size field *)
Lemma wadd_1 n : (N.of_nat n + 1 < W)%N -> wadd (N.of_nat n) 1 = N.of_nat (S n).
Proof. intros H. unfold wadd. rewrite N.mod_small by exact H. lia. Qed.
Lemma wsub_1 n : (N.of_nat (S n) < W)%N -> wsub (N.of_nat (S n)) 1 = N.of_nat n.
Proof.
  intros H. unfold wsub. rewrite (N.mod_small 1) by (unfold W; lia).
  replace (N.of_nat (S n) + W - 1)%N with (N.of_nat n + 1 * W)%N by lia.
  rewrite N.mod_add by (unfold W; lia). apply N.mod_small. lia.
Qed.

Section Cmp.
Variable cmp : N -> N -> comparison.
Hypothesis cmp_refl : forall x, cmp x x = Eq.
Hypothesis cmp_anti : forall x y, cmp y x = CompOpp (cmp x y).
Hypothesis cmp_trans : forall x y z, cmp x y = Lt -> cmp y z = Lt -> cmp x z = Lt.
Hypothesis cmp_eq_l : forall x y z, cmp x y = Eq -> cmp x z = cmp y z.

Notation lt := (lt cmp).
Notation ksorted := (ksorted cmp).
Notation sorted := (sorted cmp).
Notation rb_inv := (rb_inv cmp).

(** * The invariant *)
Definition iter_ok (l : list (N * N)) (it : option titer) : Prop :=
  match it with
  | None => True
  | Some it =>
      (forall k, it_next it = Some k -> In k (map fst l)) /\
      (forall k, it_cur it = CNode k -> In k (map fst l) /\ it_next it <> Some k)
  end.

Record tt_inv (s : ttable) (a : alloc_st) : Prop := {
  inv_rb : rb_inv (tt_tree s);
  inv_size : tt_size s = N.of_nat (tsize (tt_tree s));
  inv_small : (N.of_nat (tsize (tt_tree s)) < W)%N;
  inv_nodes : length (tt_nodes s) = tsize (tt_tree s);
  inv_own : owns a (tt_mem s) (tt_nodes s ++ [tt_sent s; tt_hdr s]);
  inv_iter : iter_ok (elems (tt_tree s)) (tt_iter s);
}.

Definition abs (s : ttable) : spec_state := (elems (tt_tree s), tt_iter s).

(** the documented iterator contract: an initialised iterator; iter_remove only after an iter_next *)
Definition op_ok (s : ttable) (o : tt_op) : Prop :=
  match o with
  | OIterNext => tt_iter s <> None
  | OIterRemove => exists it, tt_iter s = Some it /\ it_cur it <> CSent
  | _ => True
  end.

(** a refused allocation leaves the abstract state alone; otherwise the step is the ideal step *)
Definition refines_step (s : ttable) (o : tt_op) (out : tt_out) (s' : ttable) : Prop :=
  (o_st out = CC_ERR_ALLOC /\ o_vals out = [] /\ abs s' = abs s /\ exists k v, o = OAdd k v) \/
  (o_st out <> CC_ERR_ALLOC /\ ((o_st out, o_vals out), abs s') = spec_step cmp (abs s) o).

Definition step_ok (s : ttable) (a : alloc_st) (o : tt_op) : Prop :=
  exists out s' a', tt_step cmp s a o = Ok (out, s', a') /\ tt_inv s' a' /\ refines_step s o out s'.

(** ** Facts about located positions *)
Lemma rb_sorted t : rb_inv t -> sorted (elems t).
Proof. intros (_ & _ & H). exact H. Qed.

Lemma locate_found_elems t k c l k' v r cx n :
  locate cmp t k [] = (Found c l k' v r cx, n) ->
  t = plug (T c l k' v r) cx /\ cmp k k' = Eq /\
  elems t = (below cx ++ elems l) ++ (k', v) :: (elems r ++ above cx).
Proof.
  intros H. apply locate_found in H. destruct H as (H1 & H2). cbn in H1.
  split; [now symmetry|]. split; [exact H2|]. rewrite <- H1 at 1. rewrite elems_plug. cbn [elems].
  now rewrite <- !app_assoc.
Qed.

Lemma locate_hole_elems t k cx n :
  locate cmp t k [] = (Hole cx, n) -> ksorted (keys t) ->
  t = plug L cx /\ elems t = below cx ++ above cx /\
  (forall x, In x (map fst (below cx)) -> lt x k) /\ (forall x, In x (map fst (above cx)) -> lt k x).
Proof.
  intros H Hs. eapply locate_hole in H; eauto using bounded_nil. destruct H as (H1 & H2 & H3). cbn in H1.
  split; [now symmetry|]. split; [|split; assumption]. rewrite <- H1 at 1. rewrite elems_plug. reflexivity.
Qed.

Lemma plug_rekey c l k v r k' v' cx :
  rbt (plug (T c l k v r) cx) -> rbt (plug (T c l k' v' r) cx) /\
  col (plug (T c l k' v' r) cx) = col (plug (T c l k v r) cx).
Proof.
  intros H. split; [|now rewrite !col_plug].
  apply rbt_plug_inv in H. destruct H as (H1 & H2 & H3).
  eapply plug_rbt; [exact H2|exact H1| |exact H3]. rewrite !bh_T. reflexivity.
Qed.

Lemma tsize_plug_pos c l k v r cx : 0 < tsize (plug (T c l k v r) cx).
Proof. rewrite tsize_elems, elems_plug, !app_length. cbn [elems]. rewrite app_length. cbn. lia. Qed.


(** ** Building the invariant *)
Lemma mk_inv s t' sz nodes it a' :
  rb_inv t' -> sz = N.of_nat (tsize t') -> (N.of_nat (tsize t') < W)%N -> length nodes = tsize t' ->
  owns a' (tt_mem s) (nodes ++ [tt_sent s; tt_hdr s]) -> iter_ok (elems t') it ->
  tt_inv (set_tree s t' sz nodes it) a'.
Proof. intros; constructor; assumption. Qed.

Lemma set_tree_id s : set_tree s (tt_tree s) (tt_size s) (tt_nodes s) (tt_iter s) = s.
Proof. destruct s; reflexivity. Qed.

Lemma iter_ok_keys l l' it : (forall k, In k (map fst l) -> In k (map fst l')) -> iter_ok l it -> iter_ok l' it.
Proof.
  destruct it as [it|]; cbn; [|auto]. intros H (H1 & H2). split; intros k Hk; [apply H, H1, Hk|].
  destruct (H2 k Hk). auto.
Qed.

Lemma tsize_keys t t' : map fst (elems t') = map fst (elems t) -> tsize t' = tsize t.
Proof. intros H. rewrite !tsize_elems, <- (map_length fst (elems t')), H, map_length. reflexivity. Qed.

(** ** add *)
Lemma step_add s a k v :
  tt_inv s a -> (N.of_nat (tsize (tt_tree s)) + 1 < W)%N -> step_ok s a (OAdd k v).
Proof.
  intros [Hrb Hsz Hsmall Hn Hown Hit] Hsm. unfold step_ok. cbn [tt_step]. unfold tt_add.
  destruct (locate cmp (tt_tree s) k []) as [[c l k' v0 r cx|cx] n] eqn:E.
  - (* the key exists: replace the value *)
    pose proof E as E'. apply locate_found_elems in E'. destruct E' as (Ht & Hk & He).
    assert (He' : elems (plug (T c l k' v r) cx) = (below cx ++ elems l) ++ (k', v) :: (elems r ++ above cx)).
    { rewrite elems_plug. cbn [elems]. now rewrite <- !app_assoc. }
    assert (Hkeys : map fst (elems (plug (T c l k' v r) cx)) = map fst (elems (tt_tree s))).
    { rewrite He, He', !map_app. reflexivity. }
    do 3 eexists. split; [reflexivity|]. split.
    + apply mk_inv; auto.
      * destruct Hrb as (Hc & Hr & Hs). rewrite Ht in Hr, Hc. destruct (plug_rekey c l k' v0 r k' v cx Hr) as (Hr' & Hc').
        split; [congruence|]. split; [exact Hr'|]. unfold keys, TreeProofsInv.ksorted. rewrite Hkeys. exact Hs.
      * rewrite Hsz. f_equal. symmetry. now apply tsize_keys.
      * rewrite (tsize_keys _ _ Hkeys). exact Hsmall.
      * rewrite (tsize_keys _ _ Hkeys). exact Hn.
      * eapply iter_ok_keys; [|exact Hit]. intros x. now rewrite Hkeys.
    + right. cbn [o_st o_vals mk_out]. split; [discriminate|]. unfold abs. cbn [tt_tree tt_iter set_tree spec_step].
      rewrite He', He. rewrite (present_add cmp cmp_anti cmp_eq_l k k' v0); auto.
      rewrite <- He. now apply rb_sorted.
  - (* the key is absent *)
    destruct Hrb as (Hc & Hr & Hs).
    pose proof E as E'. apply locate_hole_elems in E'; [|exact Hs]. destruct E' as (Ht & He & Hb1 & Hb2).
    pose proof (owns_alloc _ _ _ SIZEOF_RBNODE Hown) as Hal.
    destruct (alloc (tt_mem s) SIZEOF_RBNODE a) as [[id|] a1].
    2:{ do 3 eexists. split; [reflexivity|]. split; [constructor; try assumption; repeat split; assumption|].
        left. cbn. eauto 6. }
    assert (Hsp : spec_add cmp k v (elems (tt_tree s)) = below cx ++ (k, v) :: above cx).
    { rewrite He. apply absent_add; auto. }
    assert (Hso : sorted (below cx ++ (k, v) :: above cx)).
    { apply absent_sorted_add; auto. rewrite <- He. exact Hs. }
    assert (Hlen : forall t', elems t' = below cx ++ (k, v) :: above cx -> tsize t' = S (tsize (tt_tree s))).
    { intros t' Ht'. rewrite !tsize_elems, Ht', He, !app_length. cbn. lia. }
    assert (Hfin : forall t', rbt t' -> col t' = B -> elems t' = below cx ++ (k, v) :: above cx ->
              tt_inv (set_tree s t' (wadd (tt_size s) 1) (id :: tt_nodes s) (tt_iter s)) a1 /\
              abs (set_tree s t' (wadd (tt_size s) 1) (id :: tt_nodes s) (tt_iter s)) =
                (spec_add cmp k v (elems (tt_tree s)), tt_iter s)).
    { intros t' Hr' Hc' He'. split.
      - apply mk_inv.
        + split; [exact Hc'|]. split; [exact Hr'|]. unfold keys. rewrite He'. exact Hso.
        + rewrite Hsz, (Hlen _ He'). apply wadd_1. exact Hsm.
        + rewrite (Hlen _ He'). lia.
        + cbn [length]. rewrite (Hlen _ He'). now f_equal.
        + exact Hal.
        + eapply iter_ok_keys; [|exact Hit]. intros x. rewrite He', He, !map_app, !in_app_iff. cbn [map In]. tauto.
      - unfold abs. cbn [tt_tree tt_iter set_tree]. now rewrite He', Hsp. }
    destruct cx as [|f cx].
    + cbn [below above app] in *.
      destruct (Hfin (T B L k v L)) as (H1 & H2); [cbn; auto|reflexivity|reflexivity|].
      do 3 eexists. split; [reflexivity|]. split; [exact H1|].
      right. cbn [o_st o_vals mk_out]. split; [discriminate|]. rewrite H2. reflexivity.
    + assert (Hz : exists t', ins_fix (T R L k v L) (f :: cx) = Ok t' /\ rbt t').
      { rewrite Ht in Hr, Hc. apply rbt_plug_inv in Hr. destruct Hr as (_ & Hcx & _).
        apply ins_fix_rbt; auto.
        - cbn. repeat split; auto; discriminate.
        - rewrite col_plug in Hc. exact Hc. }
      destruct Hz as (t' & Hz & Hrt'). rewrite Hz. cbn [bind].
      pose proof (ins_fix_elems _ _ _ Hz) as Het'. rewrite elems_plug in Het'. cbn [elems app] in Het'.
      destruct (Hfin (blacken t')) as (H1 & H2); [now apply rbt_blacken|apply col_blacken|now rewrite elems_blacken|].
      do 3 eexists. split; [reflexivity|]. split; [exact H1|].
      right. cbn [o_st o_vals mk_out]. split; [discriminate|]. rewrite H2. reflexivity.
Qed.


(** ** lookups *)
Lemma tsize_0 t : tsize t = 0 -> t = L.
Proof. destruct t; [reflexivity|discriminate]. Qed.

Lemma lookup_cases s a k :
  tt_inv s a ->
  match lookup cmp s k with
  | (Found c l k' v r cx, n) =>
      tt_tree s = plug (T c l k' v r) cx /\ cmp k k' = Eq /\
      elems (tt_tree s) = (below cx ++ elems l) ++ (k', v) :: (elems r ++ above cx) /\
      sorted ((below cx ++ elems l) ++ (k', v) :: (elems r ++ above cx))
  | (Hole cx, n) =>
      exists l1 l2, elems (tt_tree s) = l1 ++ l2 /\ sorted (l1 ++ l2) /\
        (forall x, In x (map fst l1) -> lt x k) /\ (forall x, In x (map fst l2) -> lt k x)
  end.
Proof.
  intros [Hrb Hsz Hsmall Hn Hown Hit]. unfold lookup, g_tt_lookup_empty.
  destruct (N.eqb_spec (tt_size s) 0) as [E0|E0].
  - assert (tt_tree s = L) as Ht by (apply tsize_0; lia). exists [], []. rewrite Ht. cbn.
    repeat split; try constructor; intros x [].
  - destruct (locate cmp (tt_tree s) k []) as [[c l k' v r cx|cx] n] eqn:E.
    + apply locate_found_elems in E. destruct E as (Ht & Hk & He). repeat split; auto.
      rewrite <- He. now apply rb_sorted.
    + destruct Hrb as (Hc & Hr & Hs). apply locate_hole_elems in E; [|exact Hs].
      destruct E as (Ht & He & H1 & H2). exists (below cx), (above cx). repeat split; auto.
      rewrite <- He. exact Hs.
Qed.

Ltac same_state I :=
  do 3 eexists; split; [reflexivity|]; split; [exact I|]; right; cbn [o_st o_vals mk_out]; split; [discriminate|];
  unfold abs; cbn [spec_step].

Lemma step_get s a k : tt_inv s a -> step_ok s a (OGet k).
Proof.
  intros I. pose proof (lookup_cases s a k I) as C. unfold step_ok. cbn [tt_step].
  destruct (lookup cmp s k) as [[c l k' v r cx|cx] n].
  - destruct C as (Ht & Hk & He & Hso). same_state I.
    rewrite He, (present_find cmp cmp_anti cmp_eq_l _ _ _ _ _ Hso Hk). reflexivity.
  - destruct C as (l1 & l2 & He & Hso & H1 & H2). same_state I.
    rewrite He, (absent_find cmp cmp_anti _ _ _ H1 H2). reflexivity.
Qed.

Lemma step_contains_key s a k : tt_inv s a -> step_ok s a (OContainsKey k).
Proof.
  intros I. pose proof (lookup_cases s a k I) as C. unfold step_ok. cbn [tt_step].
  destruct (lookup cmp s k) as [[c l k' v r cx|cx] n].
  - destruct C as (Ht & Hk & He & Hso). same_state I.
    rewrite He, (present_find cmp cmp_anti cmp_eq_l _ _ _ _ _ Hso Hk). reflexivity.
  - destruct C as (l1 & l2 & He & Hso & H1 & H2). same_state I.
    rewrite He, (absent_find cmp cmp_anti _ _ _ H1 H2). reflexivity.
Qed.

Lemma step_greater s a k : tt_inv s a -> step_ok s a (OGreater k).
Proof.
  intros I. pose proof (lookup_cases s a k I) as C. unfold step_ok. cbn [tt_step].
  destruct (lookup cmp s k) as [[c l k' v r cx|cx] n].
  - destruct C as (Ht & Hk & He & Hso). rewrite succ_zip_spec.
    destruct (hd_key (elems r ++ above cx)) as [k2|] eqn:Eh; same_state I;
      rewrite He, (present_succ cmp cmp_anti cmp_eq_l _ _ _ _ _ Hso Hk), Eh; reflexivity.
  - destruct C as (l1 & l2 & He & Hso & H1 & H2). same_state I.
    rewrite He, (absent_succ cmp cmp_anti _ _ _ H1 H2). reflexivity.
Qed.

Lemma step_lesser s a k : tt_inv s a -> step_ok s a (OLesser k).
Proof.
  intros I. pose proof (lookup_cases s a k I) as C. unfold step_ok. cbn [tt_step].
  destruct (lookup cmp s k) as [[c l k' v r cx|cx] n].
  - destruct C as (Ht & Hk & He & Hso). rewrite pred_zip_spec.
    destruct (last_key (below cx ++ elems l)) as [k2|] eqn:Eh; same_state I;
      rewrite He, (present_pred cmp cmp_anti cmp_eq_l _ _ _ _ _ Hso Hk), Eh; reflexivity.
  - destruct C as (l1 & l2 & He & Hso & H1 & H2). same_state I.
    rewrite He, (absent_pred cmp cmp_anti _ _ _ H1 H2). reflexivity.
Qed.

(** ** first / last / size / enumeration *)
Lemma step_first_last s a o :
  tt_inv s a -> (o = OFirstKey \/ o = OLastKey \/ o = OFirstValue \/ o = OLastValue) -> step_ok s a o.
Proof.
  intros I Ho. unfold step_ok.
  destruct Ho as [-> | [-> | [-> | ->]]]; cbn [tt_step]; rewrite ?min_binding_hd, ?max_binding_last.
  - destruct (elems (tt_tree s)) as [|[k v] l] eqn:E; cbn [hd_error]; same_state I; rewrite E; reflexivity.
  - destruct (last_binding (elems (tt_tree s))) as [[k v]|] eqn:E; same_state I; rewrite E; reflexivity.
  - destruct (elems (tt_tree s)) as [|[k v] l] eqn:E; cbn [hd_error]; same_state I; rewrite E; reflexivity.
  - destruct (last_binding (elems (tt_tree s))) as [[k v]|] eqn:E; same_state I; rewrite E; reflexivity.
Qed.

Lemma step_pure s a o :
  tt_inv s a -> (o = OSize \/ o = OForeachKey \/ o = OForeachValue \/ exists v, o = OContainsValue v) -> step_ok s a o.
Proof.
  intros I Ho. unfold step_ok.
  destruct Ho as [-> | [-> | [-> | (v & ->)]]]; cbn [tt_step]; same_state I; try reflexivity.
  rewrite (inv_size _ _ I), tsize_elems. reflexivity.
Qed.


(** ** removal of a located node (remove, remove_first, remove_last, iter_remove) *)
Lemma col_T c l k v r : col (T c l k v r) = c.
Proof. destruct c; reflexivity. Qed.

Lemma remove_at_ok s a c l k v r cx it' :
  tt_inv s a -> tt_tree s = plug (T c l k v r) cx ->
  iter_ok ((below cx ++ elems l) ++ (elems r ++ above cx)) it' ->
  exists s' a', tt_remove_at s c l r cx it' a = Ok (s', a') /\ tt_inv s' a' /\
                elems (tt_tree s') = (below cx ++ elems l) ++ (elems r ++ above cx) /\ tt_iter s' = it'.
Proof.
  intros [Hrb Hsz Hsmall Hn Hown Hit] Ht Hit'. unfold tt_remove_at.
  assert (He : elems (tt_tree s) = (below cx ++ elems l) ++ (k, v) :: (elems r ++ above cx)).
  { rewrite Ht, elems_plug. cbn [elems]. now rewrite <- !app_assoc. }
  pose proof (rb_sorted _ Hrb) as Hso. rewrite He in Hso.
  destruct Hrb as (Hc & Hr & Hs). rewrite Ht in Hr, Hc. rewrite col_plug, col_T in Hc.
  destruct (remove_node_rbt c l k v r cx Hr Hc) as (t' & Hrm & Hr' & Hc').
  rewrite Hrm. cbn [bind].
  pose proof (remove_node_elems _ _ _ _ _ Hrm) as He'.
  assert (He'' : elems t' = (below cx ++ elems l) ++ (elems r ++ above cx)) by (rewrite He'; now rewrite <- !app_assoc).
  assert (Hts : tsize (tt_tree s) = S (tsize t')).
  { rewrite !tsize_elems, He, He'', !app_length. cbn [length]. rewrite !app_length. lia. }
  destruct (tt_nodes s) as [|id ids] eqn:En; [cbn in Hn; lia|].
  cbn [app] in Hown. destruct (owns_release _ _ _ _ Hown) as (a1 & -> & Hown1 & _). cbn [bind].
  do 2 eexists. split; [reflexivity|]. split; [|split; [exact He''|reflexivity]].
  apply mk_inv; auto.
  - split; [exact Hc'|]. split; [exact Hr'|]. unfold keys, TreeProofsInv.ksorted. rewrite He''.
    exact (present_sorted_remove cmp cmp_trans _ _ _ _ Hso).
  - rewrite Hsz, Hts. apply wsub_1. rewrite <- Hts. exact Hsmall.
  - lia.
  - cbn [length] in Hn. lia.
  - rewrite He''. exact Hit'.
Qed.

Lemma step_remove s a k : tt_inv s a -> step_ok s a (ORemove k).
Proof.
  intros I. pose proof (lookup_cases s a k I) as C. unfold step_ok. cbn [tt_step].
  destruct (lookup cmp s k) as [[c l k' v r cx|cx] n].
  - destruct C as (Ht & Hk & He & Hso).
    destruct (remove_at_ok s a c l k' v r cx None I Ht Logic.I) as (s' & a' & Hrm & I' & He' & Hi').
    rewrite Hrm. cbn [bind]. do 3 eexists. split; [reflexivity|]. split; [exact I'|].
    right. cbn [o_st o_vals mk_out]. split; [discriminate|]. unfold abs. cbn [spec_step].
    rewrite He, (present_find cmp cmp_anti cmp_eq_l _ _ _ _ _ Hso Hk).
    rewrite (present_remove cmp cmp_anti cmp_eq_l _ _ _ _ _ Hso Hk), He', Hi'. reflexivity.
  - destruct C as (l1 & l2 & He & Hso & H1 & H2). same_state I.
    rewrite He, (absent_find cmp cmp_anti _ _ _ H1 H2). reflexivity.
Qed.

Lemma step_remove_first s a : tt_inv s a -> step_ok s a ORemoveFirst.
Proof.
  intros I. unfold step_ok. cbn [tt_step]. unfold g_tt_remove_first_empty.
  destruct (N.eqb_spec (tt_size s) 0) as [E0|E0].
  - assert (tt_tree s = L) as Ht by (apply tsize_0; rewrite (inv_size _ _ I) in E0; lia).
    same_state I. rewrite Ht. reflexivity.
  - destruct (tt_tree s) as [|c l k v r] eqn:Et.
    { exfalso. apply E0. rewrite (inv_size _ _ I), Et. reflexivity. }
    destruct (min_ctx c l k v r []) as [[[[yc yk] yv] yr] ci] eqn:E.
    apply min_ctx_spec in E. destruct E as (E1 & cj & Eci & E2). rewrite app_nil_r in Eci. subst ci.
    change (plug (T c l k v r) []) with (T c l k v r) in E1. rewrite <- Et in E1. symmetry in E1.
    destruct (remove_at_ok s a yc L yk yv yr cj None I E1 Logic.I) as (s' & a' & Hrm & I' & He' & Hi').
    rewrite Hrm. cbn [bind]. do 3 eexists. split; [reflexivity|]. split; [exact I'|].
    right. cbn [o_st o_vals mk_out]. split; [discriminate|]. unfold abs. cbn [spec_step].
    rewrite E1, elems_plug, E2, He', E2, Hi'. cbn [elems app]. reflexivity.
Qed.

Lemma step_remove_last s a : tt_inv s a -> step_ok s a ORemoveLast.
Proof.
  intros I. unfold step_ok. cbn [tt_step]. unfold g_tt_remove_last_empty.
  destruct (N.eqb_spec (tt_size s) 0) as [E0|E0].
  - assert (tt_tree s = L) as Ht by (apply tsize_0; rewrite (inv_size _ _ I) in E0; lia).
    same_state I. rewrite Ht. reflexivity.
  - destruct (tt_tree s) as [|c l k v r] eqn:Et.
    { exfalso. apply E0. rewrite (inv_size _ _ I), Et. reflexivity. }
    destruct (max_ctx c l k v r []) as [[[[yc yk] yv] yl] ci] eqn:E.
    apply max_ctx_spec in E. destruct E as (E1 & cj & Eci & E2). rewrite app_nil_r in Eci. subst ci.
    change (plug (T c l k v r) []) with (T c l k v r) in E1. rewrite <- Et in E1. symmetry in E1.
    destruct (remove_at_ok s a yc yl yk yv L cj None I E1 Logic.I) as (s' & a' & Hrm & I' & He' & Hi').
    rewrite Hrm. cbn [bind]. do 3 eexists. split; [reflexivity|]. split; [exact I'|].
    right. cbn [o_st o_vals mk_out]. split; [discriminate|]. unfold abs. cbn [spec_step].
    rewrite E1, elems_plug, E2, He', E2, Hi'. cbn [elems app]. rewrite !app_nil_r.
    rewrite app_assoc, last_binding_app, removelast_app_single. reflexivity.
Qed.

Lemma rb_inv_L : rb_inv L.
Proof. split; [reflexivity|]. split; [exact I|]. constructor. Qed.

Lemma step_remove_all s a : tt_inv s a -> step_ok s a ORemoveAll.
Proof.
  intros I. unfold step_ok. cbn [tt_step].
  destruct (owns_release_all _ _ _ _ (inv_own _ _ I)) as (a1 & -> & Hown1). cbn [bind].
  do 3 eexists. split; [reflexivity|]. split.
  - apply mk_inv; auto using rb_inv_L; cbn; auto. unfold W; lia.
  - right. cbn [o_st o_vals mk_out]. split; [discriminate|]. reflexivity.
Qed.

(** ** the iterator *)
Lemma inv_set_iter s a it :
  tt_inv s a -> iter_ok (elems (tt_tree s)) it ->
  tt_inv (set_tree s (tt_tree s) (tt_size s) (tt_nodes s) it) a.
Proof. intros [Hrb Hsz Hsmall Hn Hown Hit] Hi. apply mk_inv; auto. Qed.

Lemma hd_key_hd_error l : match hd_error l with Some (k, _) => Some k | None => None end = hd_key l.
Proof. destruct l as [|[k v] l]; reflexivity. Qed.
Lemma hd_key_in l k : hd_key l = Some k -> In k (map fst l).
Proof. destruct l as [|[k1 v1] l]; cbn; [discriminate|]. intros [= ->]. auto. Qed.

Lemma step_iter_init s a : tt_inv s a -> step_ok s a OIterInit.
Proof.
  intros I. unfold step_ok. cbn [tt_step]. do 3 eexists. split; [reflexivity|]. split.
  - apply inv_set_iter; [exact I|]. cbn [iter_ok it_next it_cur]. split; [|discriminate].
    intros k. rewrite min_binding_hd, hd_key_hd_error. apply hd_key_in.
  - right. cbn [o_st o_vals mk_out]. split; [discriminate|]. unfold abs. cbn [spec_step tt_tree tt_iter set_tree].
    rewrite min_binding_hd, hd_key_hd_error. reflexivity.
Qed.

Lemma find_eqb_found s a k :
  tt_inv s a -> In k (map fst (elems (tt_tree s))) ->
  exists c l v r cx, find_eqb (tt_tree s) k [] = Some (Found c l k v r cx) /\
    tt_tree s = plug (T c l k v r) cx /\
    elems (tt_tree s) = (below cx ++ elems l) ++ (k, v) :: (elems r ++ above cx) /\
    sorted ((below cx ++ elems l) ++ (k, v) :: (elems r ++ above cx)) /\
    ~ In k (map fst (below cx ++ elems l)) /\ ~ In k (map fst (elems r ++ above cx)).
Proof.
  intros I Hin. pose proof (find_eqb_spec (tt_tree s) k []) as F.
  destruct (find_eqb (tt_tree s) k []) as [[c l k' v r cx|cx]|]; [|destruct F|exfalso; apply F; exact Hin].
  destruct F as (-> & Hp). change (plug (tt_tree s) []) with (tt_tree s) in Hp.
  exists c, l, v, r, cx. split; [reflexivity|]. split; [now symmetry|].
  assert (He : elems (tt_tree s) = (below cx ++ elems l) ++ (k, v) :: (elems r ++ above cx)).
  { rewrite <- Hp at 1. rewrite elems_plug. cbn [elems]. now rewrite <- !app_assoc. }
  split; [exact He|]. pose proof (rb_sorted _ (inv_rb _ _ I)) as Hso. rewrite He in Hso. split; [exact Hso|].
  destruct (sorted_mid cmp _ _ _ _ Hso) as (H1 & H2 & _). split; intros Hi.
  - apply H1 in Hi. exact (lt_irrefl cmp cmp_refl _ Hi).
  - apply H2 in Hi. exact (lt_irrefl cmp cmp_refl _ Hi).
Qed.

Lemma step_iter_next s a : tt_inv s a -> op_ok s OIterNext -> step_ok s a OIterNext.
Proof.
  intros I Hok. unfold step_ok. cbn [tt_step]. cbn [op_ok] in Hok.
  pose proof (inv_iter _ _ I) as Hit.
  destruct (tt_iter s) as [[cur nx]|] eqn:Ei; [|congruence]. cbn [it_next]. cbn [iter_ok it_next it_cur] in Hit.
  destruct Hit as (Hn & Hc).
  destruct nx as [k|].
  - destruct (find_eqb_found s a k I (Hn k eq_refl)) as (c & l & v & r & cx & -> & Ht & He & Hso & Hn1 & Hn2).
    do 3 eexists. split; [reflexivity|]. split.
    + apply inv_set_iter; [exact I|]. cbn [iter_ok it_next it_cur]. rewrite succ_zip_spec. split.
      * intros k2 Hk2. apply hd_key_in in Hk2. rewrite He, map_app, in_app_iff. right. right. exact Hk2.
      * intros k0 [= <-]. split.
        -- rewrite He, map_app, in_app_iff. right. left. reflexivity.
        -- intros Hk2. apply hd_key_in in Hk2. auto.
    + right. cbn [o_st o_vals mk_out]. split; [discriminate|]. unfold abs. rewrite Ei. cbn [spec_step tt_tree tt_iter set_tree].
      rewrite He, (assoc_eqb_mid _ _ _ _ Hn1), (after_eqb_mid _ _ _ _ Hn1), succ_zip_spec. reflexivity.
  - same_state I. rewrite Ei. reflexivity.
Qed.

Lemma step_iter_remove s a : tt_inv s a -> op_ok s OIterRemove -> step_ok s a OIterRemove.
Proof.
  intros I Hok. unfold step_ok. cbn [tt_step]. cbn [op_ok] in Hok. destruct Hok as (it & Ei & Hcur).
  pose proof (inv_iter _ _ I) as Hit. rewrite Ei in *. destruct it as [cur nx]. cbn [it_next it_cur] in *.
  cbn [iter_ok it_next it_cur] in Hit. destruct Hit as (Hn & Hc).
  destruct cur as [| |k]; [congruence| |].
  - same_state I. rewrite Ei. reflexivity.
  - destruct (Hc k eq_refl) as (Hin & Hne).
    destruct (find_eqb_found s a k I Hin) as (c & l & v & r & cx & -> & Ht & He & Hso & Hn1 & Hn2).
    destruct (remove_at_ok s a c l k v r cx (Some {| it_cur := CNull; it_next := nx |}) I Ht) as (s' & a' & Hrm & I' & He' & Hi').
    { cbn [iter_ok it_next it_cur]. split; [|discriminate]. intros k2 ->.
      specialize (Hn k2 eq_refl). rewrite He, map_app, in_app_iff in Hn. cbn [map fst In] in Hn.
      rewrite map_app, in_app_iff. destruct Hn as [Hn|[<-|Hn]]; auto. congruence. }
    rewrite Hrm. cbn [bind]. do 3 eexists. split; [reflexivity|]. split; [exact I'|].
    right. cbn [o_st o_vals mk_out]. split; [discriminate|]. unfold abs. rewrite Ei. cbn [spec_step].
    rewrite He, (assoc_eqb_mid _ _ _ _ Hn1), (remove_eqb_mid _ _ _ _ Hn1), He', Hi'. reflexivity.
Qed.

(** * One step of any operation *)
Theorem tt_step_refines s a o :
  tt_inv s a -> (N.of_nat (tsize (tt_tree s)) + 1 < W)%N -> op_ok s o -> step_ok s a o.
Proof.
  intros I Hsm Hok. destruct o.
  - now apply step_add.
  - now apply step_get.
  - now apply step_contains_key.
  - apply step_pure; eauto.
  - now apply step_remove.
  - now apply step_remove_first.
  - now apply step_remove_last.
  - now apply step_remove_all.
  - apply step_first_last; auto.
  - apply step_first_last; auto.
  - apply step_first_last; auto.
  - apply step_first_last; auto.
  - now apply step_greater.
  - now apply step_lesser.
  - apply step_pure; auto.
  - apply step_pure; auto.
  - apply step_pure; auto.
  - now apply step_iter_init.
  - now apply step_iter_next.
  - now apply step_iter_remove.
Qed.

End Cmp.
