(** Map refinement, list level: the ideal operations on a strictly sorted association list computed at a
    position [l1 ++ (k', v') :: l2] (key present) or [l1 ++ l2] (key absent), and the zipper functions
    (min/max binding, successor/predecessor, identity search) expressed on the in-order sequence. *)
From Coq Require Import Sorted.
From CC Require Import Base.Prelude Base.ListMem Base.Alloc Base.AllocProofs.
From CC Require Import Generated.Status Generated.Guards Tree.TreeModel Tree.TreeProofsInv Tree.TreeProofsIns.
Local Open Scope nat_scope.

Definition last_key (l : list (N * N)) : option N :=
  match last_binding l with Some (k, _) => Some k | None => None end.

Lemma last_binding_app l b : last_binding (l ++ [b]) = Some b.
Proof.
  induction l as [|x l IH]; [reflexivity|]. cbn [app last_binding].
  destruct (l ++ [b]) eqn:E; [destruct l; discriminate|]. exact IH.
Qed.
Lemma last_binding_app_cons l1 b l2 : last_binding (l1 ++ b :: l2) = last_binding (b :: l2).
Proof.
  induction l1 as [|x l1 IH]; [reflexivity|]. cbn [app]. change (last_binding (x :: l1 ++ b :: l2)) with
    (match l1 ++ b :: l2 with [] => Some x | _ :: _ => last_binding (l1 ++ b :: l2) end).
  destruct (l1 ++ b :: l2) eqn:E; [destruct l1; discriminate|]. exact IH.
Qed.
Lemma last_binding_app_nil l1 : last_binding (l1 ++ []) = last_binding l1.
Proof. now rewrite app_nil_r. Qed.
Lemma last_binding_cons b l : last_binding (b :: l) = match last_binding l with Some x => Some x | None => Some b end.
Proof.
  revert b; induction l as [|y l IH]; intros b; [reflexivity|].
  change (last_binding (b :: y :: l)) with (last_binding (y :: l)). rewrite IH. destruct (last_binding l); reflexivity.
Qed.
Lemma last_binding_app2 l1 l2 :
  last_binding (l1 ++ l2) = match last_binding l2 with Some x => Some x | None => last_binding l1 end.
Proof.
  induction l1 as [|b l1 IH]; cbn [app]; [destruct (last_binding l2); reflexivity|].
  rewrite !last_binding_cons, IH. destruct (last_binding l2), (last_binding l1); reflexivity.
Qed.
Lemma removelast_app_single {A} (l : list A) b : removelast (l ++ [b]) = l.
Proof. rewrite removelast_app by discriminate. cbn. apply app_nil_r. Qed.
Lemma last_binding_None l : last_binding l = None -> l = [].
Proof. destruct l; [reflexivity|]. rewrite last_binding_cons. destruct (last_binding l); discriminate. Qed.
Lemma last_binding_Some l b : last_binding l = Some b -> exists l', l = l' ++ [b].
Proof.
  intros H. destruct (@exists_last _ l) as (l' & x & ->).
  - intros ->. discriminate.
  - rewrite last_binding_app in H. injection H as ->. eauto.
Qed.

(** ** Zipper functions on the in-order sequence *)
Lemma min_binding_hd t : min_binding t = hd_error (elems t).
Proof.
  induction t as [|c l IHl k v r _]; [reflexivity|]. cbn [min_binding elems]. rewrite IHl.
  destruct (elems l); reflexivity.
Qed.
Lemma max_binding_last t : max_binding t = last_binding (elems t).
Proof.
  induction t as [|c l _ k v r IHr]; [reflexivity|]. cbn [max_binding elems]. rewrite IHr.
  rewrite last_binding_app_cons, last_binding_cons. reflexivity.
Qed.
Lemma up_succ_above cx : up_succ cx = hd_key (above cx).
Proof. induction cx as [|[[] c k v s] cx IH]; cbn; auto. Qed.
Lemma up_pred_below cx : up_pred cx = last_key (below cx).
Proof.
  unfold last_key. induction cx as [|[[] c k v s] cx IH]; cbn [up_pred below]; auto.
  rewrite app_assoc, last_binding_app. reflexivity.
Qed.
Lemma hd_key_app l1 l2 : hd_key (l1 ++ l2) = match hd_key l1 with Some k => Some k | None => hd_key l2 end.
Proof. destruct l1 as [|[k v] l1]; reflexivity. Qed.
Lemma succ_zip_spec r cx : succ_zip r cx = hd_key (elems r ++ above cx).
Proof.
  unfold succ_zip. rewrite min_binding_hd, up_succ_above, hd_key_app.
  destruct (elems r) as [|[k v] l]; reflexivity.
Qed.
Lemma pred_zip_spec l cx : pred_zip l cx = last_key (below cx ++ elems l).
Proof.
  unfold pred_zip, last_key. rewrite max_binding_last, up_pred_below, last_binding_app2. unfold last_key.
  destruct (last_binding (elems l)) as [[k v]|]; reflexivity.
Qed.

(** ** Identity search *)
Lemma find_eqb_spec t : forall k cx,
  match find_eqb t k cx with
  | Some (Found c l k' v r cx') => k' = k /\ plug (T c l k' v r) cx' = plug t cx
  | Some (Hole _) => False
  | None => ~ In k (keys t)
  end.
Proof.
  induction t as [|c l IHl k' v r IHr]; intros k cx; cbn [find_eqb]; [intros []|].
  destruct (N.eqb_spec k' k) as [->|Hne]; [auto|].
  specialize (IHl k (F DL c k' v r :: cx)). destruct (find_eqb l k (F DL c k' v r :: cx)) as [[]|]; auto.
  specialize (IHr k (F DR c k' v l :: cx)). destruct (find_eqb r k (F DR c k' v l :: cx)) as [[]|]; auto.
  rewrite keys_T, in_app_iff. cbn [In]. tauto.
Qed.

Lemma assoc_eqb_mid k v l1 l2 : ~ In k (map fst l1) -> assoc_eqb k (l1 ++ (k, v) :: l2) = Some (k, v).
Proof.
  induction l1 as [|[k1 v1] l1 IH]; cbn [app assoc_eqb map fst In]; intros H.
  - now rewrite N.eqb_refl.
  - destruct (N.eqb_spec k1 k); [tauto|]. apply IH. tauto.
Qed.
Lemma after_eqb_mid k v l1 l2 : ~ In k (map fst l1) -> after_eqb k (l1 ++ (k, v) :: l2) = hd_key l2.
Proof.
  induction l1 as [|[k1 v1] l1 IH]; cbn [app after_eqb map fst In]; intros H.
  - now rewrite N.eqb_refl.
  - destruct (N.eqb_spec k1 k); [tauto|]. apply IH. tauto.
Qed.
Lemma remove_eqb_mid k v l1 l2 : ~ In k (map fst l1) -> remove_eqb k (l1 ++ (k, v) :: l2) = l1 ++ l2.
Proof.
  induction l1 as [|[k1 v1] l1 IH]; cbn [app remove_eqb map fst In]; intros H.
  - now rewrite N.eqb_refl.
  - destruct (N.eqb_spec k1 k); [tauto|]. f_equal. apply IH. tauto.
Qed.
Lemma assoc_eqb_None k l : ~ In k (map fst l) -> assoc_eqb k l = None.
Proof.
  induction l as [|[k1 v1] l IH]; cbn [assoc_eqb map fst In]; intros H; [reflexivity|].
  destruct (N.eqb_spec k1 k); [tauto|]. apply IH. tauto.
Qed.

Section Cmp.
Variable cmp : N -> N -> comparison.
Hypothesis cmp_refl : forall x, cmp x x = Eq.
Hypothesis cmp_anti : forall x y, cmp y x = CompOpp (cmp x y).
Hypothesis cmp_trans : forall x y z, cmp x y = Lt -> cmp y z = Lt -> cmp x z = Lt.
Hypothesis cmp_eq_l : forall x y z, cmp x y = Eq -> cmp x z = cmp y z.

Notation lt := (lt cmp).
Notation ksorted := (ksorted cmp).
Notation sorted := (sorted cmp).

Definition gtall (k : N) (l : list (N * N)) : Prop := forall x, In x (map fst l) -> cmp k x = Gt.
Definition ltall (k : N) (l : list (N * N)) : Prop := forall x, In x (map fst l) -> cmp k x = Lt.

Lemma gtall_cons k k1 v1 l : gtall k ((k1, v1) :: l) -> cmp k k1 = Gt /\ gtall k l.
Proof. intros H. split; [apply H; left; reflexivity|]. intros x Hx. apply H. right. exact Hx. Qed.
Lemma ltall_cons k k1 v1 l : ltall k ((k1, v1) :: l) -> cmp k k1 = Lt /\ ltall k l.
Proof. intros H. split; [apply H; left; reflexivity|]. intros x Hx. apply H. right. exact Hx. Qed.

Lemma spec_find_skip k l1 l : gtall k l1 -> spec_find cmp k (l1 ++ l) = spec_find cmp k l.
Proof.
  induction l1 as [|[k1 v1] l1 IH]; intros H; [reflexivity|]. apply gtall_cons in H. destruct H as (E & H).
  cbn [app spec_find]. rewrite E. auto.
Qed.
Lemma spec_add_skip k v l1 l : gtall k l1 -> spec_add cmp k v (l1 ++ l) = l1 ++ spec_add cmp k v l.
Proof.
  induction l1 as [|[k1 v1] l1 IH]; intros H; [reflexivity|]. apply gtall_cons in H. destruct H as (E & H).
  cbn [app spec_add]. rewrite E. f_equal. auto.
Qed.
Lemma spec_remove_skip k l1 l : gtall k l1 -> spec_remove cmp k (l1 ++ l) = l1 ++ spec_remove cmp k l.
Proof.
  induction l1 as [|[k1 v1] l1 IH]; intros H; [reflexivity|]. apply gtall_cons in H. destruct H as (E & H).
  cbn [app spec_remove]. rewrite E. f_equal. auto.
Qed.
Lemma spec_succ_skip k l1 l : gtall k l1 -> spec_succ cmp k (l1 ++ l) = spec_succ cmp k l.
Proof.
  induction l1 as [|[k1 v1] l1 IH]; intros H; [reflexivity|]. apply gtall_cons in H. destruct H as (E & H).
  cbn [app spec_succ]. rewrite E. auto.
Qed.
Lemma spec_pred_skip k l1 : forall l p, gtall k l1 ->
  spec_pred cmp p k (l1 ++ l) = spec_pred cmp (match last_key l1 with Some x => Some x | None => p end) k l.
Proof.
  induction l1 as [|[k1 v1] l1 IH]; intros l p H; [reflexivity|]. apply gtall_cons in H. destruct H as (E & H).
  cbn [app spec_pred]. rewrite E, IH by exact H. unfold last_key. rewrite last_binding_cons.
  destruct (last_binding l1) as [[]|]; reflexivity.
Qed.

Lemma spec_find_lt k l : ltall k l -> spec_find cmp k l = None.
Proof.
  induction l as [|[k1 v1] l IH]; intros H; [reflexivity|]. apply ltall_cons in H. destruct H as (E & H).
  cbn [spec_find]. rewrite E. auto.
Qed.
Lemma spec_succ_lt k l : ltall k l -> spec_succ cmp k l = None.
Proof.
  induction l as [|[k1 v1] l IH]; intros H; [reflexivity|]. apply ltall_cons in H. destruct H as (E & H).
  cbn [spec_succ]. rewrite E. auto.
Qed.
Lemma spec_pred_lt k l : forall p, ltall k l -> spec_pred cmp p k l = None.
Proof.
  induction l as [|[k1 v1] l IH]; intros p H; [reflexivity|]. apply ltall_cons in H. destruct H as (E & H).
  cbn [spec_pred]. rewrite E. auto.
Qed.
Lemma spec_add_lt k v l : ltall k l -> spec_add cmp k v l = (k, v) :: l.
Proof.
  destruct l as [|[k1 v1] l]; intros H; [reflexivity|]. apply ltall_cons in H. destruct H as (E & H).
  cbn [spec_add]. now rewrite E.
Qed.

Lemma sorted_mid l1 k' v' l2 :
  sorted (l1 ++ (k', v') :: l2) ->
  (forall x, In x (map fst l1) -> lt x k') /\ (forall x, In x (map fst l2) -> lt k' x) /\ sorted l1 /\ sorted l2.
Proof.
  unfold sorted. rewrite map_app. cbn [map fst]. intros H.
  apply ksorted_app in H. destruct H as (H1 & H2 & H3). apply ksorted_cons in H2. destruct H2 as (H2 & H4).
  repeat split; auto. intros x Hx. apply H3; [exact Hx|left; reflexivity].
Qed.

Lemma eq_gtall k k' l : cmp k k' = Eq -> (forall x, In x (map fst l) -> lt x k') -> gtall k l.
Proof.
  intros E H x Hx. rewrite (cmp_eq_l _ _ _ E). apply (cmp_gt_lt cmp cmp_anti). apply H, Hx.
Qed.
Lemma eq_ltall k k' l : cmp k k' = Eq -> (forall x, In x (map fst l) -> lt k' x) -> ltall k l.
Proof. intros E H x Hx. rewrite (cmp_eq_l _ _ _ E). apply H, Hx. Qed.
Lemma lt_gtall k l : (forall x, In x (map fst l) -> lt x k) -> gtall k l.
Proof. intros H x Hx. apply (cmp_gt_lt cmp cmp_anti). apply H, Hx. Qed.

(** the key is present: position l1 ++ (k', v') :: l2 with cmp k k' = Eq *)
Section Present.
Variables (k k' v' : N) (l1 l2 : list (N * N)).
Hypothesis Hs : sorted (l1 ++ (k', v') :: l2).
Hypothesis Hk : cmp k k' = Eq.

Lemma present_gt : gtall k l1.
Proof. destruct (sorted_mid _ _ _ _ Hs) as (H1 & _). eapply eq_gtall; eauto. Qed.
Lemma present_lt : ltall k l2.
Proof. destruct (sorted_mid _ _ _ _ Hs) as (_ & H2 & _). eapply eq_ltall; eauto. Qed.

Lemma present_find : spec_find cmp k (l1 ++ (k', v') :: l2) = Some (k', v').
Proof. rewrite spec_find_skip by apply present_gt. cbn. now rewrite Hk. Qed.
Lemma present_add v : spec_add cmp k v (l1 ++ (k', v') :: l2) = l1 ++ (k', v) :: l2.
Proof. rewrite spec_add_skip by apply present_gt. cbn. now rewrite Hk. Qed.
Lemma present_remove : spec_remove cmp k (l1 ++ (k', v') :: l2) = l1 ++ l2.
Proof. rewrite spec_remove_skip by apply present_gt. cbn. now rewrite Hk. Qed.
Lemma present_succ : spec_succ cmp k (l1 ++ (k', v') :: l2) = hd_key l2.
Proof. rewrite spec_succ_skip by apply present_gt. cbn. now rewrite Hk. Qed.
Lemma present_pred : spec_pred cmp None k (l1 ++ (k', v') :: l2) = last_key l1.
Proof.
  rewrite spec_pred_skip by apply present_gt. cbn. rewrite Hk. destruct (last_key l1); reflexivity.
Qed.
Lemma present_sorted_replace v : sorted (l1 ++ (k', v) :: l2).
Proof. unfold sorted in *. rewrite map_app in *. exact Hs. Qed.
Lemma present_sorted_remove : sorted (l1 ++ l2).
Proof.
  unfold sorted in *. rewrite map_app in *. cbn [map fst] in Hs.
  apply ksorted_app in Hs. destruct Hs as (H1 & H2 & H3). apply ksorted_cons in H2. destruct H2 as (H2 & H4).
  apply ksorted_app. repeat split; auto. intros a b Ha Hb.
  eapply cmp_trans; [apply H3; [exact Ha|left; reflexivity]|]. apply H4, Hb.
Qed.
Lemma present_notin : ~ In k' (map fst l1).
Proof.
  destruct (sorted_mid _ _ _ _ Hs) as (H1 & _). intros Hin. apply H1 in Hin. exact (lt_irrefl cmp cmp_refl _ Hin).
Qed.
End Present.

(** the key is absent: hole between l1 and l2 *)
Section Absent.
Variables (k : N) (l1 l2 : list (N * N)).
Hypothesis Hs : sorted (l1 ++ l2).
Hypothesis H1 : forall x, In x (map fst l1) -> lt x k.
Hypothesis H2 : forall x, In x (map fst l2) -> lt k x.

Lemma absent_find : spec_find cmp k (l1 ++ l2) = None.
Proof. rewrite spec_find_skip by (apply lt_gtall, H1). apply spec_find_lt. exact H2. Qed.
Lemma absent_add v : spec_add cmp k v (l1 ++ l2) = l1 ++ (k, v) :: l2.
Proof. rewrite spec_add_skip by (apply lt_gtall, H1). f_equal. apply spec_add_lt. exact H2. Qed.
Lemma absent_succ : spec_succ cmp k (l1 ++ l2) = None.
Proof. rewrite spec_succ_skip by (apply lt_gtall, H1). apply spec_succ_lt. exact H2. Qed.
Lemma absent_pred : spec_pred cmp None k (l1 ++ l2) = None.
Proof. rewrite spec_pred_skip by (apply lt_gtall, H1). apply spec_pred_lt. exact H2. Qed.
Lemma absent_sorted_add v : sorted (l1 ++ (k, v) :: l2).
Proof.
  unfold sorted in *. rewrite map_app in *. cbn [map fst].
  apply ksorted_app in Hs. destruct Hs as (Ha & Hb & Hc).
  apply ksorted_app. split; [exact Ha|]. split.
  - apply ksorted_cons. auto.
  - intros a b Ha' [<-|Hb']; auto.
Qed.
End Absent.

End Cmp.
