(** The statements exported to Properties/C03.v and Properties/C17.v, all under the same four hypotheses on
    the comparator ([Proof using All] fixes the signature), plus the instance [N.compare]. *)
From Coq Require Import Sorted.
From CC Require Import Base.Prelude Base.ListMem Base.Alloc Base.AllocProofs.
From CC Require Import Generated.Status Generated.Guards Tree.TreeModel.
From CC Require Import Tree.TreeProofsInv Tree.TreeProofsIns Tree.TreeProofsDel Tree.TreeProofsMap Tree.TreeProofsTable
  Tree.TreeProofsRun Tree.TreeProofsSet.
Local Open Scope nat_scope.

(** the comparator is a strict total order up to its equivalence *)
Record cmp_ok (cmp : N -> N -> comparison) : Prop := {
  cmp_refl : forall x, cmp x x = Eq;
  cmp_anti : forall x y, cmp y x = CompOpp (cmp x y);
  cmp_trans : forall x y z, cmp x y = Lt -> cmp y z = Lt -> cmp x z = Lt;
  cmp_eq_l : forall x y z, cmp x y = Eq -> cmp x z = cmp y z;
}.

Lemma N_compare_ok : cmp_ok N.compare.
Proof.
  constructor.
  - apply N.compare_refl.
  - intros x y. apply N.compare_antisym.
  - intros x y z. rewrite !N.compare_lt_iff. apply N.lt_trans.
  - intros x y z H. apply N.compare_eq_iff in H. now subst.
Qed.

Definition is_removal (o : tt_op) : bool :=
  match o with ORemove _ | ORemoveFirst | ORemoveLast | ORemoveAll | OIterRemove => true | _ => false end.

Section Cmp.
Variable cmp : N -> N -> comparison.
Hypothesis H : cmp_ok cmp.

Let Hr := cmp_refl cmp H.
Let Ha := cmp_anti cmp H.
Let Ht := cmp_trans cmp H.
Let He := cmp_eq_l cmp H.

Notation tt_inv := (tt_inv cmp).
Notation rb_inv := (rb_inv cmp).

(** ** C17, state level *)
Theorem T_height t : rb_inv t -> height t <= 2 * Nat.log2 (tsize t + 1).
Proof using All. intros I. eapply rb_inv_height; eauto. Qed.

Theorem T_rb_inv_b t : rb_inv_b cmp t = true <-> rb_inv t.
Proof using All. apply rb_inv_b_iff; auto. Qed.

Theorem T_locate_calls t k :
  rb_inv t -> N.to_nat (snd (locate cmp t k [])) <= height t /\ height t <= 2 * Nat.log2 (tsize t + 1).
Proof using All. intros I. split; [apply locate_count; auto|eapply rb_inv_height; eauto]. Qed.

Theorem T_cmp_calls s a o out s' a' :
  tt_inv s a -> tt_step cmp s a o = Ok (out, s', a') ->
  N.to_nat (o_cmps out) <= height (tt_tree s) + (match o with OAdd _ _ => 1 | _ => 0 end) /\
  height (tt_tree s) <= 2 * Nat.log2 (tsize (tt_tree s) + 1) /\
  N.to_nat (o_cmps out) <= 2 * Nat.log2 (tsize (tt_tree s) + 1) + 2.
Proof using All.
  intros I E. split; [eapply tt_step_cmps; eauto|]. split; [eapply rb_inv_height; apply I|].
  eapply tt_step_cmps_log; eauto.
Qed.

(** ** C17 / C03, one step *)
Theorem T_step_inv s a o out s' a' :
  tt_inv s a -> (N.of_nat (tsize (tt_tree s)) + 1 < W)%N ->
  tt_step cmp s a o = Ok (out, s', a') -> tt_inv s' a' /\ refines_step cmp s o out s'.
Proof using All. apply tt_step_inv; auto. Qed.

Theorem T_add_rb s a k v out s' a' :
  tt_inv s a -> (N.of_nat (tsize (tt_tree s)) + 1 < W)%N ->
  tt_step cmp s a (OAdd k v) = Ok (out, s', a') -> rb_inv (tt_tree s') /\ tt_inv s' a'.
Proof using All. intros I Hs E. destruct (T_step_inv _ _ _ _ _ _ I Hs E) as (I' & _). split; [apply I'|exact I']. Qed.

Theorem T_remove_rb s a o out s' a' :
  is_removal o = true -> tt_inv s a -> (N.of_nat (tsize (tt_tree s)) + 1 < W)%N ->
  tt_step cmp s a o = Ok (out, s', a') -> rb_inv (tt_tree s') /\ tt_inv s' a'.
Proof using All. intros _ I Hs E. destruct (T_step_inv _ _ _ _ _ _ I Hs E) as (I' & _). split; [apply I'|exact I']. Qed.

Theorem T_step_refines s a o :
  tt_inv s a -> (N.of_nat (tsize (tt_tree s)) + 1 < W)%N -> op_ok s o ->
  exists out s' a', tt_step cmp s a o = Ok (out, s', a') /\ tt_inv s' a' /\ refines_step cmp s o out s'.
Proof using All. apply tt_step_refines; auto. Qed.

Theorem T_bst_inv s a :
  tt_inv s a ->
  StronglySorted (fun x y => cmp x y = Lt) (keys (tt_tree s)) /\ NoDup (keys (tt_tree s)) /\
  tt_size s = lenN (elems (tt_tree s)) /\ rb_inv (tt_tree s).
Proof using All.
  intros I. pose proof (inv_rb _ _ _ I) as R. destruct R as (Hc & Hrb & Hs). split; [exact Hs|]. split.
  - eapply ksorted_NoDup; eauto.
  - split; [|apply I]. rewrite (inv_size _ _ _ I), tsize_elems. reflexivity.
Qed.

(** ** histories *)
Theorem T_new_inv mem a0 st s a :
  ledger_ok a0 -> (0 < next_id a0)%N -> tt_new mem a0 = Ok (st, Some s, a) ->
  st = CC_OK /\ tt_inv s a /\ abs s = ([], None) /\ tt_tree s = L.
Proof using All. apply tt_new_inv; auto. Qed.

Theorem T_run_refines ops s a outs s' a' :
  tt_inv s a -> (N.of_nat (tsize (tt_tree s)) + N.of_nat (length ops) < W)%N ->
  tt_run cmp s a ops = Ok (outs, s', a') ->
  tt_inv s' a' /\
  (map (fun o => (o_st o, o_vals o)) outs, abs s') = spec_run_d cmp (abs s) ops (map o_st outs).
Proof using All. apply tt_run_refines; auto. Qed.

Theorem T_new_run_refines mem a0 st s a ops outs s' a' :
  ledger_ok a0 -> (0 < next_id a0)%N -> tt_new mem a0 = Ok (st, Some s, a) ->
  (N.of_nat (length ops) < W)%N ->
  tt_run cmp s a ops = Ok (outs, s', a') ->
  tt_inv s' a' /\
  (map (fun o => (o_st o, o_vals o)) outs, abs s') = spec_run_d cmp ([], None) ops (map o_st outs).
Proof using All. apply tt_new_run_refines; auto. Qed.

Theorem T_run_refines_granted ops s a outs s' a' :
  tt_inv s a -> (N.of_nat (tsize (tt_tree s)) + N.of_nat (length ops) < W)%N ->
  plan a = [] -> (SIZEOF_RBNODE <= limit a)%N ->
  tt_run cmp s a ops = Ok (outs, s', a') ->
  tt_inv s' a' /\ (map (fun o => (o_st o, o_vals o)) outs, abs s') = spec_run cmp (abs s) ops.
Proof using All. apply tt_run_refines_grant; auto. Qed.

Theorem T_run_balanced ops s a :
  tt_inv s a -> (N.of_nat (tsize (tt_tree s)) + N.of_nat (length ops) < W)%N -> run_balanced cmp s a ops.
Proof using All. apply tt_run_balanced; auto. Qed.

Theorem T_new_run_balanced mem a0 st s a ops :
  ledger_ok a0 -> (0 < next_id a0)%N -> tt_new mem a0 = Ok (st, Some s, a) ->
  (N.of_nat (length ops) < W)%N -> run_balanced cmp s a ops.
Proof using All.
  intros Hok Hpos Hn Hl. destruct (T_new_inv _ _ _ _ _ Hok Hpos Hn) as (_ & I & _ & Et).
  apply T_run_balanced; auto. rewrite Et. cbn. lia.
Qed.

(** ** iterator *)
Theorem T_inorder s a :
  tt_inv s a ->
  let l := elems (tt_tree s) in
  StronglySorted (fun x y => cmp x y = Lt) (map fst l) /\
  tt_step cmp s a OForeachKey = Ok (mk_out CC_OK (map fst l) 0, s, a) /\
  tt_step cmp s a OForeachValue = Ok (mk_out CC_OK (map snd l) 0, s, a) /\
  exists outs s' a',
    tt_run cmp s a (OIterInit :: repeat OIterNext (length l) ++ [OIterNext]) = Ok (outs, s', a') /\
    map (fun o => (o_st o, o_vals o)) outs =
      (CC_OK, []) :: map (fun b => (CC_OK, [fst b; snd b])) l ++ [(CC_ITER_END, [])] /\
    tt_inv s' a' /\ elems (tt_tree s') = l.
Proof using All. apply tt_iter_enumerates; auto. Qed.

Theorem T_iter_remove s a k nx :
  tt_inv s a -> (N.of_nat (tsize (tt_tree s)) + 1 < W)%N ->
  tt_iter s = Some {| it_cur := CNode k; it_next := nx |} ->
  exists v s' a',
    assoc_eqb k (elems (tt_tree s)) = Some (k, v) /\
    tt_step cmp s a OIterRemove = Ok (mk_out CC_OK [v] 0, s', a') /\ tt_inv s' a' /\
    elems (tt_tree s') = remove_eqb k (elems (tt_tree s)) /\
    tt_iter s' = Some {| it_cur := CNull; it_next := nx |} /\
    tt_step cmp s' a' OIterRemove = Ok (mk_out CC_ERR_KEY_NOT_FOUND [] 0, s', a').
Proof using All. apply tt_iter_remove_exact; auto. Qed.

(** ** tree set *)
Theorem T_set_new_inv mem a0 st s a :
  ledger_ok a0 -> (0 < next_id a0)%N -> ts_new mem a0 = Ok (st, Some s, a) ->
  st = CC_OK /\ ts_inv cmp s a /\ abs (ts_tab s) = ([], None).
Proof using All. apply ts_new_inv; auto. Qed.

Theorem T_set_step_refines s a o :
  ts_inv cmp s a -> (N.of_nat (tsize (tt_tree (ts_tab s))) + 1 < W)%N -> op_ok (ts_tab s) (ts_to_tt o) ->
  exists out s' a', ts_step cmp s a o = Ok (out, s', a') /\ ts_inv cmp s' a' /\ ts_hdr s' = ts_hdr s /\
                    ts_refines cmp s o out s'.
Proof using All. apply ts_step_refines; auto. Qed.

Theorem T_set_run_refines ops s a outs s' a' :
  ts_inv cmp s a -> (N.of_nat (tsize (tt_tree (ts_tab s))) + N.of_nat (length ops) < W)%N ->
  ts_run cmp s a ops = Ok (outs, s', a') ->
  ts_inv cmp s' a' /\ ts_hdr s' = ts_hdr s /\
  (map (fun o => (o_st o, o_vals o)) outs, abs (ts_tab s')) = ts_spec_run_d cmp (abs (ts_tab s)) ops (map o_st outs).
Proof using All. apply ts_run_refines; auto. Qed.

End Cmp.
