(** Red-black invariants of the treetable model: structural lemmas about zippers, the colour /
    black-height invariant [rbt] and its context form [cx_rbt], the state-level height bound (C17_height),
    sorted-list lemmas under an abstract comparator, and the boolean validator [rb_inv_b].

    Status of the whole Tree development (see the individual files):
      TreeProofsInv  - this file
      TreeProofsIns  - insertion: ins_fix preserves elems and rbt; locate
      TreeProofsDel  - deletion: del_fix / remove_node preserve elems and rbt
      TreeProofsMap  - table level: tt_inv, step refinement against the sorted association list, histories,
                       comparator-call bounds, iterator, tree set *)
From Coq Require Import Sorted.
From CC Require Import Base.Prelude Base.ListMem Base.Alloc Base.AllocProofs.
From CC Require Import Generated.Status Generated.Guards Tree.TreeModel.
Local Open Scope nat_scope.

(** * Zippers *)
Lemma plug_app t c1 c2 : plug t (c1 ++ c2) = plug (plug t c1) c2.
Proof. unfold plug. apply fold_left_app. Qed.
Lemma plug_cons t f cx : plug t (f :: cx) = plug (plug1 t f) cx.
Proof. reflexivity. Qed.

(** in-order bindings strictly before / after the hole of a context *)
Fixpoint below (cx : ctx) : list (N * N) :=
  match cx with
  | [] => []
  | F DL _ _ _ _ :: cx' => below cx'
  | F DR _ k v s :: cx' => below cx' ++ elems s ++ [(k, v)]
  end.
Fixpoint above (cx : ctx) : list (N * N) :=
  match cx with
  | [] => []
  | F DL _ k v s :: cx' => (k, v) :: elems s ++ above cx'
  | F DR _ _ _ _ :: cx' => above cx'
  end.

Lemma elems_plug cx : forall t, elems (plug t cx) = below cx ++ elems t ++ above cx.
Proof.
  induction cx as [|[d c k v s] cx IH]; intros t.
  - cbn. now rewrite app_nil_r.
  - rewrite plug_cons, IH. destruct d; cbn [plug1 elems below above].
    + now rewrite <- !app_assoc.
    + now rewrite <- !app_assoc.
Qed.

Lemma elems_plug_congr cx t1 t2 : elems t1 = elems t2 -> elems (plug t1 cx) = elems (plug t2 cx).
Proof. intros H. now rewrite !elems_plug, H. Qed.

Lemma tsize_elems t : tsize t = length (elems t).
Proof.
  induction t as [|c l IHl k v r IHr]; [reflexivity|].
  cbn. rewrite app_length. cbn. lia.
Qed.

Lemma elems_blacken t : elems (blacken t) = elems t.
Proof. destruct t; reflexivity. Qed.

Fixpoint root_col (cx : ctx) (dflt : color) : color :=
  match cx with [] => dflt | F _ c _ _ _ :: cx' => root_col cx' c end.
Lemma col_plug cx : forall t, col (plug t cx) = root_col cx (col t).
Proof.
  induction cx as [|[d c k v s] cx IH]; intros t; [reflexivity|].
  rewrite plug_cons, IH. destruct d, c; reflexivity.
Qed.
Lemma root_col_cons f cx d1 d2 : root_col (f :: cx) d1 = root_col (f :: cx) d2.
Proof. destruct f; reflexivity. Qed.
Lemma root_col_app c1 c2 d : root_col (c1 ++ c2) d = root_col c2 (root_col c1 d).
Proof. revert d; induction c1 as [|[? c ? ? ?] c1 IH]; intros d0; cbn; auto. Qed.

Lemma col_cases t : col t = R \/ col t = B.
Proof. destruct t as [|[] ? ? ? ?]; cbn; auto. Qed.
Lemma col_blacken t : col (blacken t) = B.
Proof. destruct t; reflexivity. Qed.
Lemma col_R_inv t : col t = R -> exists l k v r, t = T R l k v r.
Proof. destruct t as [|[] l k v r]; cbn; try discriminate. eauto. Qed.

(** * Colour and black-height invariant *)
Definition cb (c : color) : nat := match c with B => 1 | R => 0 end.
Lemma bh_T c l k v r : bh (T c l k v r) = bh l + cb c.
Proof. destruct c; cbn; lia. Qed.

Fixpoint rbt (t : tree) : Prop :=
  match t with
  | L => True
  | T c l _ _ r => rbt l /\ rbt r /\ bh l = bh r /\ (c = R -> col l = B /\ col r = B)
  end.

Lemma rbt_blacken t : rbt t -> rbt (blacken t).
Proof. destruct t; cbn; [auto|]. intros (? & ? & ? & ?). repeat split; auto; discriminate. Qed.
Lemma bh_blacken_R t : col t = R -> bh (blacken t) = S (bh t).
Proof. intros H. apply col_R_inv in H as (l & k & v & r & ->). reflexivity. Qed.
Lemma blacken_black t : col t = B -> blacken t = t.
Proof. destruct t as [|[] ? ? ? ?]; cbn; try discriminate; reflexivity. Qed.

Definition top_col (cx : ctx) : color := match cx with [] => B | F _ c _ _ _ :: _ => c end.

Fixpoint cx_rbt (cx : ctx) (h : nat) : Prop :=
  match cx with
  | [] => True
  | F d c k v s :: cx' =>
      rbt s /\ bh s = h /\ (c = R -> col s = B /\ top_col cx' = B) /\ cx_rbt cx' (h + cb c)
  end.

Lemma bh_plug1 t d c k v s : bh s = bh t -> bh (plug1 t (F d c k v s)) = bh t + cb c.
Proof. intros H. destruct d; cbn [plug1]; rewrite bh_T; lia. Qed.

Lemma plug_rbt cx : forall t h,
  cx_rbt cx h -> rbt t -> bh t = h -> (col t = R -> top_col cx = B) -> rbt (plug t cx).
Proof.
  induction cx as [|[d c k v s] cx IH]; intros t h Hc Ht Hh Hcol; [exact Ht|].
  rewrite plug_cons. cbn [cx_rbt] in Hc. destruct Hc as (Hs & Hbs & Hred & Hcx).
  apply IH with (h := h + cb c); auto.
  - assert (Hct : c = R -> col t = B).
    { intros ->. destruct (col_cases t) as [E|E]; [|exact E]. specialize (Hcol E). discriminate. }
    destruct d; cbn [plug1 rbt]; (split; [|split; [|split]]); auto; try lia; intros E; destruct (Hred E); split; auto.
  - rewrite bh_plug1; lia.
  - intros E. assert (c = R) as -> by (destruct d, c; cbn in E; congruence). now destruct Hred.
Qed.

Lemma bh_plug cx : forall t1 t2, bh t1 = bh t2 -> cx_rbt cx (bh t1) -> bh (plug t1 cx) = bh (plug t2 cx).
Proof.
  induction cx as [|[d c k v s] cx IH]; intros t1 t2 E Hc; [exact E|].
  rewrite !plug_cons. cbn [cx_rbt] in Hc. destruct Hc as (Hs & Hbs & Hred & Hcx).
  apply IH.
  - rewrite !bh_plug1; lia.
  - rewrite bh_plug1; auto.
Qed.

Lemma rbt_plug_inv cx : forall t,
  rbt (plug t cx) -> rbt t /\ cx_rbt cx (bh t) /\ (col t = R -> top_col cx = B).
Proof.
  induction cx as [|[d c k v s] cx IH]; intros t H.
  - cbn. auto.
  - rewrite plug_cons in H. apply IH in H. destruct H as (H1 & H2 & H3).
    destruct d; cbn [plug1] in H1, H2, H3; cbn [rbt] in H1; destruct H1 as (Ha & Hb & Hbh & Hred).
    + split; [exact Ha|]. split.
      * cbn [cx_rbt]. rewrite bh_T in H2. split; [exact Hb|]. split; [now symmetry|]. split; [|exact H2].
        intros E. split; [now destruct (Hred E)|]. apply H3. subst c. reflexivity.
      * cbn [top_col]. intros E. destruct c; [|reflexivity]. destruct (Hred eq_refl). congruence.
    + split; [exact Hb|]. split.
      * cbn [cx_rbt]. rewrite bh_T in H2. rewrite Hbh in H2. split; [exact Ha|]. split; [exact Hbh|]. split; [|exact H2].
        intros E. split; [now destruct (Hred E)|]. apply H3. subst c. reflexivity.
      * cbn [top_col]. intros E. destruct c; [|reflexivity]. destruct (Hred eq_refl). congruence.
Qed.

(** * The state-level bound (C17_height) *)
Lemma rbt_size t : rbt t -> 2 ^ bh t <= tsize t + 1.
Proof.
  induction t as [|c l IHl k v r IHr]; cbn [rbt]; [cbn; lia|].
  intros (Hl & Hr & Hbh & _). specialize (IHl Hl). specialize (IHr Hr). rewrite <- Hbh in IHr.
  rewrite bh_T. cbn [tsize]. destruct c; cbn [cb].
  - rewrite Nat.add_0_r. lia.
  - rewrite Nat.add_1_r, Nat.pow_succ_r'. lia.
Qed.

Lemma rbt_height t : rbt t -> height t <= 2 * bh t + match col t with R => 1 | B => 0 end.
Proof.
  induction t as [|c l IHl k v r IHr]; cbn [rbt]; [cbn; lia|].
  intros (Hl & Hr & Hbh & Hred). specialize (IHl Hl). specialize (IHr Hr).
  rewrite bh_T. cbn [height]. destruct c; cbn [cb col].
  - destruct (Hred eq_refl) as (E1 & E2). rewrite E1 in IHl. rewrite E2 in IHr. lia.
  - destruct (col l), (col r); lia.
Qed.

Lemma rb_height_log t : col t = B -> rbt t -> height t <= 2 * Nat.log2 (tsize t + 1).
Proof.
  intros Hc Hr. pose proof (rbt_height t Hr) as H1. rewrite Hc in H1.
  pose proof (rbt_size t Hr) as H2.
  assert (bh t <= Nat.log2 (tsize t + 1)).
  { rewrite <- (Nat.log2_pow2 (bh t)) by lia. apply Nat.log2_le_mono. exact H2. }
  lia.
Qed.

(** * Boolean validator for the colour part *)
Lemma rbt_b_iff t : rbt_b t = true <-> rbt t.
Proof.
  induction t as [|c l IHl k v r IHr]; cbn [rbt_b rbt]; [tauto|].
  rewrite !andb_true_iff, IHl, IHr, Nat.eqb_eq.
  split.
  - intros (((Hl & Hr) & Hb) & Hc). split; [auto|]. split; [auto|]. split; [auto|].
    intros ->. destruct (col l), (col r); try discriminate; auto.
  - intros (Hl & Hr & Hb & Hc). repeat split; auto.
    destruct c; [|reflexivity]. destruct (Hc eq_refl) as (-> & ->). reflexivity.
Qed.

(** * Sorted lists under an abstract comparator *)
Section Cmp.
Variable cmp : N -> N -> comparison.
Hypothesis cmp_refl : forall x, cmp x x = Eq.
Hypothesis cmp_anti : forall x y, cmp y x = CompOpp (cmp x y).
Hypothesis cmp_trans : forall x y z, cmp x y = Lt -> cmp y z = Lt -> cmp x z = Lt.
Hypothesis cmp_eq_l : forall x y z, cmp x y = Eq -> cmp x z = cmp y z.

Definition lt (a b : N) : Prop := cmp a b = Lt.
Definition ksorted (l : list N) : Prop := StronglySorted lt l.
Definition sorted (l : list (N * N)) : Prop := ksorted (map fst l).

Lemma cmp_eq_r x y z : cmp x y = Eq -> cmp z x = cmp z y.
Proof. intros H. rewrite (cmp_anti x z), (cmp_anti y z). f_equal. now apply cmp_eq_l. Qed.
Lemma cmp_gt_lt x y : cmp x y = Gt <-> cmp y x = Lt.
Proof. rewrite (cmp_anti x y). destruct (cmp x y); cbn; split; congruence. Qed.
Lemma cmp_eq_sym x y : cmp x y = Eq -> cmp y x = Eq.
Proof. intros H. rewrite (cmp_anti x y), H. reflexivity. Qed.
Lemma lt_irrefl x : ~ lt x x.
Proof. unfold lt. rewrite cmp_refl. discriminate. Qed.
Lemma lt_neq x y : lt x y -> x <> y.
Proof. intros H ->. exact (lt_irrefl _ H). Qed.
Lemma lt_eq_l x y z : cmp x y = Eq -> lt y z -> lt x z.
Proof. unfold lt. intros H. now rewrite (cmp_eq_l _ _ _ H). Qed.
Lemma lt_eq_r x y z : cmp y z = Eq -> lt x y -> lt x z.
Proof. unfold lt. intros H. now rewrite (cmp_eq_r _ _ x H). Qed.

Lemma ksorted_app l1 l2 :
  ksorted (l1 ++ l2) <-> ksorted l1 /\ ksorted l2 /\ (forall a b, In a l1 -> In b l2 -> lt a b).
Proof.
  unfold ksorted. induction l1 as [|x l1 IH]; cbn.
  - split; [intros H; repeat split; auto; [constructor | intros ? ? []] | tauto].
  - split.
    + intros H. inversion H as [|? ? Hs Hf]; subst. apply IH in Hs. destruct Hs as (H1 & H2 & H3).
      rewrite Forall_app in Hf. destruct Hf as (Hf1 & Hf2). repeat split; auto.
      * constructor; auto.
      * intros a b [<-|Ha] Hb; [|auto]. rewrite Forall_forall in Hf2. auto.
    + intros (H1 & H2 & H3). inversion H1 as [|? ? Hs Hf]; subst. constructor.
      * apply IH. repeat split; auto.
      * rewrite Forall_app. split; [exact Hf|]. rewrite Forall_forall. intros b Hb. apply H3; auto.
Qed.

Lemma ksorted_cons x l : ksorted (x :: l) <-> ksorted l /\ (forall b, In b l -> lt x b).
Proof.
  unfold ksorted. split.
  - intros H. inversion H; subst. split; auto. now rewrite <- Forall_forall.
  - intros (H1 & H2). constructor; auto. now rewrite Forall_forall.
Qed.

Lemma ksorted_nil : ksorted []. Proof. constructor. Qed.
Lemma ksorted_single x : ksorted [x]. Proof. constructor; constructor. Qed.

Lemma ksorted_NoDup l : ksorted l -> NoDup l.
Proof.
  induction l as [|x l IH]; intros H; [constructor|].
  apply ksorted_cons in H. destruct H as (H1 & H2). constructor; auto.
  intros Hin. apply H2 in Hin. exact (lt_irrefl _ Hin).
Qed.

(** adjacent-pair check = strong sortedness (transitivity) *)
Lemma asc_b_iff l : asc_b cmp l = true <-> ksorted l.
Proof.
  unfold ksorted. split.
  - intros H. apply Sorted_StronglySorted; [intros x y z; apply cmp_trans|].
    induction l as [|a r IH]; [constructor|].
    cbn [asc_b] in H. destruct r as [|b r'].
    + constructor; constructor.
    + destruct (cmp a b) eqn:E; try discriminate. constructor; [apply IH, H|]. constructor. exact E.
  - intros H. apply StronglySorted_Sorted in H.
    induction l as [|a r IH]; [reflexivity|].
    inversion H as [|? ? Hs Hr]; subst. cbn [asc_b]. destruct r as [|b r']; [reflexivity|].
    inversion Hr; subst. unfold lt in *. rewrite H1. apply IH, Hs.
Qed.

Definition rb_inv (t : tree) : Prop := col t = B /\ rbt t /\ ksorted (keys t).

Lemma rb_inv_b_iff t : rb_inv_b cmp t = true <-> rb_inv t.
Proof.
  unfold rb_inv_b, rb_inv. destruct (col t).
  - split; [discriminate | intros (H & _); discriminate].
  - rewrite andb_true_iff, rbt_b_iff, asc_b_iff. tauto.
Qed.

Theorem rb_inv_height t : rb_inv t -> height t <= 2 * Nat.log2 (tsize t + 1).
Proof. intros (Hc & Hr & _). now apply rb_height_log. Qed.

End Cmp.
