(** Executable model of src/cc_treetable.c (CLRS red-black tree with a shared black sentinel) and of the
    adapter src/cc_treeset.c.  Definitions only.

    The tree is structural; parent pointers are replaced by a zipper: a frame [F d c k v s] says "we went
    [d] from a node of colour [c], key [k], value [v] whose other child is [s]"; a context is a list of
    frames, innermost first.  The sentinel is [L] (black).  Node identity is not modelled: iterators hold
    keys.  Every node is one ledger block (the ids are kept in a bag [tt_nodes]).
    Every public function also returns the number of comparator calls it made, counted at the places
    where the C text calls [table->cmp]. *)
From CC Require Import Base.Prelude Base.Alloc Generated.Status Generated.Guards.
Local Open Scope N_scope.

Inductive color := R | B.
Inductive tree := L | T (c : color) (l : tree) (k v : N) (r : tree).
Inductive dir := DL | DR.
Inductive frame := F (d : dir) (c : color) (k v : N) (s : tree).
Definition ctx := list frame.

Definition plug1 (t : tree) (f : frame) : tree :=
  match f with
  | F DL c k v s => T c t k v s
  | F DR c k v s => T c s k v t
  end.
Definition plug (t : tree) (cx : ctx) : tree := fold_left plug1 cx t.

(** The sentinel's colour field is RB_BLACK. *)
Definition col (t : tree) : color := match t with T R _ _ _ _ => R | _ => B end.
Definition blacken (t : tree) : tree := match t with L => L | T _ l k v r => T B l k v r end.

Fixpoint elems (t : tree) : list (N * N) :=
  match t with L => [] | T _ l k v r => elems l ++ (k, v) :: elems r end.
Definition keys (t : tree) : list N := map fst (elems t).
Fixpoint tsize (t : tree) : nat := match t with L => O | T _ l _ _ r => S (tsize l + tsize r) end.
Fixpoint height (t : tree) : nat := match t with L => O | T _ l _ _ r => S (Nat.max (height l) (height r)) end.
(** black height along the left spine (all paths agree under the invariant) *)
Fixpoint bh (t : tree) : nat :=
  match t with L => O | T c l _ _ _ => match c with B => S (bh l) | R => bh l end end.

(** tree_min / tree_max *)
Fixpoint min_binding (t : tree) : option (N * N) :=
  match t with L => None | T _ l k v _ => match min_binding l with Some b => Some b | None => Some (k, v) end end.
Fixpoint max_binding (t : tree) : option (N * N) :=
  match t with L => None | T _ _ k v r => match max_binding r with Some b => Some b | None => Some (k, v) end end.

(** get_successor_node / get_predecessor_node of the node whose children are (l, r) and whose path is cx:
    the minimum of the right subtree, else the first ancestor reached from its left child. *)
Fixpoint up_succ (cx : ctx) : option N :=
  match cx with [] => None | F DL _ k _ _ :: _ => Some k | F DR _ _ _ _ :: cx' => up_succ cx' end.
Fixpoint up_pred (cx : ctx) : option N :=
  match cx with [] => None | F DR _ k _ _ :: _ => Some k | F DL _ _ _ _ :: cx' => up_pred cx' end.
Definition succ_zip (r : tree) (cx : ctx) : option N :=
  match min_binding r with Some (k, _) => Some k | None => up_succ cx end.
Definition pred_zip (l : tree) (cx : ctx) : option N :=
  match max_binding l with Some (k, _) => Some k | None => up_pred cx end.

(** A position in the tree: an existing node with its path, or an empty place (where the sentinel is). *)
Inductive loc := Found (c : color) (l : tree) (k v : N) (r : tree) (cx : ctx) | Hole (cx : ctx).

(** Locating a node by identity (what holding an RBNode pointer means): depth-first search for the stored key. *)
Fixpoint find_eqb (t : tree) (k : N) (cx : ctx) : option loc :=
  match t with
  | L => None
  | T c l k' v r =>
      if k' =? k then Some (Found c l k' v r cx)
      else match find_eqb l k (F DL c k' v r :: cx) with
           | Some x => Some x
           | None => find_eqb r k (F DR c k' v l :: cx)
           end
  end.

(** leftmost node of the subtree (c l k v r), reached through the inner context ci *)
Fixpoint min_ctx (c : color) (l : tree) (k v : N) (r : tree) (ci : ctx) : (color * N * N * tree) * ctx :=
  match l with
  | L => ((c, k, v, r), ci)
  | T c' l' k' v' r' => min_ctx c' l' k' v' r' (F DL c k v r :: ci)
  end.
Fixpoint max_ctx (c : color) (l : tree) (k v : N) (r : tree) (ci : ctx) : (color * N * N * tree) * ctx :=
  match r with
  | L => ((c, k, v, l), ci)
  | T c' l' k' v' r' => max_ctx c' l' k' v' r' (F DR c k v l :: ci)
  end.

(** rebalance_after_insert: z is the red node at the hole of cx.  The loop runs while z's parent is red. *)
Fixpoint ins_fix (z : tree) (cx : ctx) : res tree :=
  match cx with
  | [] => Ok z
  | F pd pc pk pv ps :: cx1 =>
      match pc with
      | B => Ok (plug z cx)
      | R =>
          match cx1 with
          | [] => Fault NullDeref        (* red root: its parent is the sentinel, whose children are NULL *)
          | F gd gc gk gv u :: rest =>
              match gd with
              | DL =>                    (* parent is a left child; uncle u is the right child *)
                  match col u with
                  | R => ins_fix (T R (plug1 z (F pd B pk pv ps)) gk gv (blacken u)) rest
                  | B =>
                      match pd with
                      | DL => Ok (plug (T B z pk pv (T R ps gk gv u)) rest)
                      | DR => match z with
                              | L => Fault NullDeref
                              | T _ zl zk zv zr => Ok (plug (T B (T R ps pk pv zl) zk zv (T R zr gk gv u)) rest)
                              end
                      end
                  end
              | DR =>
                  match col u with
                  | R => ins_fix (T R (blacken u) gk gv (plug1 z (F pd B pk pv ps))) rest
                  | B =>
                      match pd with
                      | DR => Ok (plug (T B (T R u gk gv ps) pk pv z) rest)
                      | DL => match z with
                              | L => Fault NullDeref
                              | T _ zl zk zv zr => Ok (plug (T B (T R u gk gv zl) zk zv (T R zr pk pv ps)) rest)
                              end
                      end
                  end
              end
          end
      end
  end.

(** One round of rebalance_after_delete for a black x that is a left (resp. right) child of a parent
    (pc pk pv) with sibling w, the red-sibling rotation already done.  [Again x'] = "x = x->parent". *)
Inductive dstep := Again (x : tree) | Done (t : res tree).

Definition del_left (x : tree) (pc : color) (pk pv : N) (w : tree) (rest : ctx) : dstep :=
  match w with
  | L => Done (Fault NullDeref)
  | T _ wl wk wv wr =>
      match col wl, col wr with
      | B, B => Again (T pc x pk pv (T R wl wk wv wr))
      | _, R => Done (Ok (blacken (plug (T pc (T B x pk pv wl) wk wv (blacken wr)) rest)))
      | R, B =>
          match wl with
          | L => Done (Fault NullDeref)
          | T _ a lk lv b => Done (Ok (blacken (plug (T pc (T B x pk pv a) lk lv (T B b wk wv wr)) rest)))
          end
      end
  end.

Definition del_right (x : tree) (pc : color) (pk pv : N) (w : tree) (rest : ctx) : dstep :=
  match w with
  | L => Done (Fault NullDeref)
  | T _ wl wk wv wr =>
      match col wr, col wl with
      | B, B => Again (T pc (T R wl wk wv wr) pk pv x)
      | _, R => Done (Ok (blacken (plug (T pc (blacken wl) wk wv (T B wr pk pv x)) rest)))
      | R, B =>
          match wr with
          | L => Done (Fault NullDeref)
          | T _ a rk rv b => Done (Ok (blacken (plug (T pc (T B wl wk wv a) rk rv (T B b pk pv x)) rest)))
          end
      end
  end.

Fixpoint del_fix (x : tree) (cx : ctx) : res tree :=
  match cx with
  | [] => Ok (blacken x)
  | F d pc pk pv w :: rest =>
      match col x with
      | R => Ok (plug (blacken x) cx)
      | B =>
          match d with
          | DL =>
              match w with
              | T R wl wk wv wr =>
                  match del_left x R pk pv wl (F DL B wk wv wr :: rest) with
                  | Again t => Ok (plug (blacken t) (F DL B wk wv wr :: rest))
                  | Done r => r
                  end
              | _ =>
                  match del_left x pc pk pv w rest with
                  | Again t => del_fix t rest
                  | Done r => r
                  end
              end
          | DR =>
              match w with
              | T R wl wk wv wr =>
                  match del_right x R pk pv wr (F DR B wk wv wl :: rest) with
                  | Again t => Ok (plug (blacken t) (F DR B wk wv wl :: rest))
                  | Done r => r
                  end
              | _ =>
                  match del_right x pc pk pv w rest with
                  | Again t => del_fix t rest
                  | Done r => r
                  end
              end
          end
      end
  end.

(** remove_node for the node (c, l, _, _, r) at path cx *)
Definition del_finish (ycol : color) (x : tree) (hole : ctx) : res tree :=
  match ycol with B => del_fix x hole | R => Ok (plug x hole) end.

Definition remove_node (c : color) (l r : tree) (cx : ctx) : res tree :=
  match l, r with
  | L, _ => del_finish c r cx
  | _, L => del_finish c l cx
  | _, T rc rl rk rv rr =>
      let '((yc, yk, yv, yr), ci) := min_ctx rc rl rk rv rr [] in
      del_finish yc yr (ci ++ F DR c yk yv l :: cx)
  end.

(** ------------------------------------------------------------------------------------------------
    The table *)
Inductive icur := CSent | CNull | CNode (k : N).
Record titer := { it_cur : icur; it_next : option N }.

Record ttable := {
  tt_tree : tree;
  tt_size : N;
  tt_hdr : N; tt_sent : N; tt_nodes : list N;   (* ledger ids: table struct, sentinel, node blocks *)
  tt_mem : tag;
  tt_iter : option titer;                       (* the one iterator the trace language has *)
}.

Definition set_tree (s : ttable) (t : tree) (size : N) (nodes : list N) (it : option titer) : ttable :=
  {| tt_tree := t; tt_size := size; tt_hdr := tt_hdr s; tt_sent := tt_sent s; tt_nodes := nodes;
     tt_mem := tt_mem s; tt_iter := it |}.

Record tt_out := { o_st : stat; o_vals : list N; o_cmps : N }.
Definition mk_out st vals n := {| o_st := st; o_vals := vals; o_cmps := n |}.

Definition SIZEOF_TABLE : N := 56.
Definition SIZEOF_RBNODE : N := 48.
Definition SIZEOF_TREESET : N := 40.

(** cc_treetable_new_conf: two callocs; a refused sentinel releases the table struct. *)
Definition tt_new (mem : tag) (a : alloc_st) : res (stat * option ttable * alloc_st) :=
  match alloc mem SIZEOF_TABLE a with
  | (None, a1) => Ok (CC_ERR_ALLOC, None, a1)
  | (Some h, a1) =>
      match alloc mem SIZEOF_RBNODE a1 with
      | (None, a2) => do a3 <- release mem h a2; Ok (CC_ERR_ALLOC, None, a3)
      | (Some sn, a2) =>
          Ok (CC_OK, Some {| tt_tree := L; tt_size := 0; tt_hdr := h; tt_sent := sn; tt_nodes := [];
                             tt_mem := mem; tt_iter := None |}, a2)
      end
  end.

Fixpoint release_all (mem : tag) (ids : list N) (a : alloc_st) : res alloc_st :=
  match ids with [] => Ok a | i :: r => do a1 <- release mem i a; release_all mem r a1 end.

Definition tt_destroy (s : ttable) (a : alloc_st) : res alloc_st :=
  do a1 <- release_all (tt_mem s) (tt_nodes s) a;
  do a2 <- release (tt_mem s) (tt_sent s) a1;
  release (tt_mem s) (tt_hdr s) a2.

Inductive tt_op :=
  | OAdd (k v : N) | OGet (k : N) | OContainsKey (k : N) | OContainsValue (v : N)
  | ORemove (k : N) | ORemoveFirst | ORemoveLast | ORemoveAll
  | OFirstKey | OLastKey | OFirstValue | OLastValue | OGreater (k : N) | OLesser (k : N)
  | OSize | OForeachKey | OForeachValue
  | OIterInit | OIterNext | OIterRemove.

Section Cmp.
Variable cmp : N -> N -> comparison.

(** BST descent shared by cc_treetable_add and get_tree_node_by_key: one comparator call per visited node. *)
Fixpoint locate (t : tree) (k : N) (cx : ctx) : loc * N :=
  match t with
  | L => (Hole cx, 0)
  | T c l k' v r =>
      match cmp k k' with
      | Lt => let (lo, n) := locate l k (F DL c k' v r :: cx) in (lo, n + 1)
      | Gt => let (lo, n) := locate r k (F DR c k' v l :: cx) in (lo, n + 1)
      | Eq => (Found c l k' v r cx, 1)
      end
  end.

(** get_tree_node_by_key *)
Definition lookup (s : ttable) (k : N) : loc * N :=
  if g_tt_lookup_empty (tt_size s) then (Hole [], 0) else locate (tt_tree s) k [].

Definition tt_add (s : ttable) (k v : N) (a : alloc_st) : res (tt_out * ttable * alloc_st) :=
  match locate (tt_tree s) k [] with
  | (Found c l k' _ r cx, n) =>
      Ok (mk_out CC_OK [] n, set_tree s (plug (T c l k' v r) cx) (tt_size s) (tt_nodes s) (tt_iter s), a)
  | (Hole cx, n) =>
      match alloc (tt_mem s) SIZEOF_RBNODE a with
      | (None, a1) => Ok (mk_out CC_ERR_ALLOC [] n, s, a1)
      | (Some id, a1) =>
          match cx with
          | [] => Ok (mk_out CC_OK [] n,
                      set_tree s (T B L k v L) (wadd (tt_size s) 1) (id :: tt_nodes s) (tt_iter s), a1)
          | _ :: _ =>
              do t' <- ins_fix (T R L k v L) cx;
              Ok (mk_out CC_OK [] (n + 1),
                  set_tree s (blacken t') (wadd (tt_size s) 1) (id :: tt_nodes s) (tt_iter s), a1)
          end
      end
  end.

(** remove_node + mem_free(z) + size--; the iterator slot of the trace language is given by the caller *)
Definition tt_remove_at (s : ttable) (c : color) (l r : tree) (cx : ctx) (it : option titer) (a : alloc_st)
  : res (ttable * alloc_st) :=
  do t' <- remove_node c l r cx;
  match tt_nodes s with
  | [] => Fault BadFree
  | id :: ids => do a1 <- release (tt_mem s) id a; Ok (set_tree s t' (wsub (tt_size s) 1) ids it, a1)
  end.

Definition count_eq (v : N) (l : list (N * N)) : N :=
  lenN (filter (fun b => snd b =? v) l).

Definition tt_step (s : ttable) (a : alloc_st) (o : tt_op) : res (tt_out * ttable * alloc_st) :=
  match o with
  | OAdd k v => tt_add s k v a
  | OGet k =>
      match lookup s k with
      | (Found _ _ _ v _ _, n) => Ok (mk_out CC_OK [v] n, s, a)
      | (Hole _, n) => Ok (mk_out CC_ERR_KEY_NOT_FOUND [] n, s, a)
      end
  | OContainsKey k =>
      match lookup s k with
      | (Found _ _ _ _ _ _, n) => Ok (mk_out CC_OK [1] n, s, a)
      | (Hole _, n) => Ok (mk_out CC_OK [0] n, s, a)
      end
  | OContainsValue v => Ok (mk_out CC_OK [count_eq v (elems (tt_tree s))] 0, s, a)
  | ORemove k =>
      match lookup s k with
      | (Found c l _ v r cx, n) =>
          do (s', a') <- tt_remove_at s c l r cx None a; Ok (mk_out CC_OK [v] n, s', a')
      | (Hole _, n) => Ok (mk_out CC_ERR_KEY_NOT_FOUND [] n, s, a)
      end
  | ORemoveFirst =>
      if g_tt_remove_first_empty (tt_size s) then Ok (mk_out CC_ERR_KEY_NOT_FOUND [] 0, s, a) else
      match tt_tree s with
      | L => Fault NullDeref
      | T c l k v r =>
          let '((yc, yk, yv, yr), ci) := min_ctx c l k v r [] in
          do (s', a') <- tt_remove_at s yc L yr ci None a; Ok (mk_out CC_OK [yv] 0, s', a')
      end
  | ORemoveLast =>
      if g_tt_remove_last_empty (tt_size s) then Ok (mk_out CC_ERR_KEY_NOT_FOUND [] 0, s, a) else
      match tt_tree s with
      | L => Fault NullDeref
      | T c l k v r =>
          let '((yc, yk, yv, yl), ci) := max_ctx c l k v r [] in
          do (s', a') <- tt_remove_at s yc yl L ci None a; Ok (mk_out CC_OK [yv] 0, s', a')
      end
  | ORemoveAll =>
      do a1 <- release_all (tt_mem s) (tt_nodes s) a;
      Ok (mk_out CC_OK [] 0, set_tree s L 0 [] None, a1)
  | OFirstKey =>
      match min_binding (tt_tree s) with
      | Some (k, _) => Ok (mk_out CC_OK [k] 0, s, a) | None => Ok (mk_out CC_ERR_KEY_NOT_FOUND [] 0, s, a) end
  | OLastKey =>
      match max_binding (tt_tree s) with
      | Some (k, _) => Ok (mk_out CC_OK [k] 0, s, a) | None => Ok (mk_out CC_ERR_KEY_NOT_FOUND [] 0, s, a) end
  | OFirstValue =>
      match min_binding (tt_tree s) with
      | Some (_, v) => Ok (mk_out CC_OK [v] 0, s, a) | None => Ok (mk_out CC_ERR_VALUE_NOT_FOUND [] 0, s, a) end
  | OLastValue =>
      match max_binding (tt_tree s) with
      | Some (_, v) => Ok (mk_out CC_OK [v] 0, s, a) | None => Ok (mk_out CC_ERR_VALUE_NOT_FOUND [] 0, s, a) end
  | OGreater k =>
      match lookup s k with
      | (Found _ _ _ _ r cx, n) =>
          match succ_zip r cx with
          | Some k' => Ok (mk_out CC_OK [k'] n, s, a)
          | None => Ok (mk_out CC_ERR_KEY_NOT_FOUND [] n, s, a)
          end
      | (Hole _, n) => Ok (mk_out CC_ERR_KEY_NOT_FOUND [] n, s, a)
      end
  | OLesser k =>
      match lookup s k with
      | (Found _ l _ _ _ cx, n) =>
          match pred_zip l cx with
          | Some k' => Ok (mk_out CC_OK [k'] n, s, a)
          | None => Ok (mk_out CC_ERR_KEY_NOT_FOUND [] n, s, a)
          end
      | (Hole _, n) => Ok (mk_out CC_ERR_KEY_NOT_FOUND [] n, s, a)
      end
  | OSize => Ok (mk_out CC_OK [tt_size s] 0, s, a)
  | OForeachKey => Ok (mk_out CC_OK (map fst (elems (tt_tree s))) 0, s, a)
  | OForeachValue => Ok (mk_out CC_OK (map snd (elems (tt_tree s))) 0, s, a)
  | OIterInit =>
      let nx := match min_binding (tt_tree s) with Some (k, _) => Some k | None => None end in
      Ok (mk_out CC_OK [] 0,
          set_tree s (tt_tree s) (tt_size s) (tt_nodes s) (Some {| it_cur := CSent; it_next := nx |}), a)
  | OIterNext =>
      match tt_iter s with
      | None => Fault Uninit
      | Some it =>
          match it_next it with
          | None => Ok (mk_out CC_ITER_END [] 0, s, a)
          | Some k =>
              match find_eqb (tt_tree s) k [] with
              | Some (Found _ _ k' v r cx) =>
                  Ok (mk_out CC_OK [k'; v] 0,
                      set_tree s (tt_tree s) (tt_size s) (tt_nodes s)
                               (Some {| it_cur := CNode k'; it_next := succ_zip r cx |}), a)
              | _ => Fault Dangling
              end
          end
      end
  | OIterRemove =>
      match tt_iter s with
      | None => Fault Uninit
      | Some it =>
          match it_cur it with
          | CNull => Ok (mk_out CC_ERR_KEY_NOT_FOUND [] 0, s, a)
          | CSent => Fault NullDeref     (* remove_node on the sentinel, whose children are NULL *)
          | CNode k =>
              match find_eqb (tt_tree s) k [] with
              | Some (Found c l _ v r cx) =>
                  do (s', a') <- tt_remove_at s c l r cx (Some {| it_cur := CNull; it_next := it_next it |}) a;
                  Ok (mk_out CC_OK [v] 0, s', a')
              | _ => Fault Dangling
              end
          end
      end
  end.

Fixpoint tt_run (s : ttable) (a : alloc_st) (ops : list tt_op) : res (list tt_out * ttable * alloc_st) :=
  match ops with
  | [] => Ok ([], s, a)
  | o :: r =>
      do (out, s1, a1) <- tt_step s a o;
      do (outs, s2, a2) <- tt_run s1 a1 r;
      Ok (out :: outs, s2, a2)
  end.

(** ------------------------------------------------------------------------------------------------
    The ideal object: an association list strictly sorted by [cmp] on the keys, plus the same
    key-based cursor. *)
Fixpoint spec_add (k v : N) (l : list (N * N)) : list (N * N) :=
  match l with
  | [] => [(k, v)]
  | (k', v') :: r =>
      match cmp k k' with
      | Lt => (k, v) :: l
      | Eq => (k', v) :: r
      | Gt => (k', v') :: spec_add k v r
      end
  end.
Fixpoint spec_find (k : N) (l : list (N * N)) : option (N * N) :=
  match l with
  | [] => None
  | (k', v') :: r => match cmp k k' with Eq => Some (k', v') | _ => spec_find k r end
  end.
Fixpoint spec_remove (k : N) (l : list (N * N)) : list (N * N) :=
  match l with
  | [] => []
  | (k', v') :: r => match cmp k k' with Eq => r | _ => (k', v') :: spec_remove k r end
  end.
Definition hd_key (l : list (N * N)) : option N := match l with [] => None | (k, _) :: _ => Some k end.
Fixpoint spec_succ (k : N) (l : list (N * N)) : option N :=
  match l with
  | [] => None
  | (k', _) :: r => match cmp k k' with Eq => hd_key r | _ => spec_succ k r end
  end.
Fixpoint spec_pred (prev : option N) (k : N) (l : list (N * N)) : option N :=
  match l with
  | [] => None
  | (k', _) :: r => match cmp k k' with Eq => prev | _ => spec_pred (Some k') k r end
  end.
(** cursor helpers: by stored key *)
Fixpoint assoc_eqb (k : N) (l : list (N * N)) : option (N * N) :=
  match l with [] => None | (k', v') :: r => if k' =? k then Some (k', v') else assoc_eqb k r end.
Fixpoint after_eqb (k : N) (l : list (N * N)) : option N :=
  match l with [] => None | (k', _) :: r => if k' =? k then hd_key r else after_eqb k r end.
Fixpoint remove_eqb (k : N) (l : list (N * N)) : list (N * N) :=
  match l with [] => [] | (k', v') :: r => if k' =? k then r else (k', v') :: remove_eqb k r end.

Fixpoint last_binding (l : list (N * N)) : option (N * N) :=
  match l with [] => None | b :: r => match r with [] => Some b | _ :: _ => last_binding r end end.

Definition spec_state := (list (N * N) * option titer)%type.

Definition spec_step (st : spec_state) (o : tt_op) : (stat * list N) * spec_state :=
  let (l, it) := st in
  match o with
  | OAdd k v => ((CC_OK, []), (spec_add k v l, it))
  | OGet k => match spec_find k l with Some (_, v) => ((CC_OK, [v]), st) | None => ((CC_ERR_KEY_NOT_FOUND, []), st) end
  | OContainsKey k => match spec_find k l with Some _ => ((CC_OK, [1]), st) | None => ((CC_OK, [0]), st) end
  | OContainsValue v => ((CC_OK, [count_eq v l]), st)
  | ORemove k =>
      match spec_find k l with
      | Some (_, v) => ((CC_OK, [v]), (spec_remove k l, None))
      | None => ((CC_ERR_KEY_NOT_FOUND, []), st)
      end
  | ORemoveFirst =>
      match l with (_, v) :: r => ((CC_OK, [v]), (r, None)) | [] => ((CC_ERR_KEY_NOT_FOUND, []), st) end
  | ORemoveLast =>
      match last_binding l with Some (_, v) => ((CC_OK, [v]), (removelast l, None)) | None => ((CC_ERR_KEY_NOT_FOUND, []), st) end
  | ORemoveAll => ((CC_OK, []), ([], None))
  | OFirstKey => match l with (k, _) :: _ => ((CC_OK, [k]), st) | [] => ((CC_ERR_KEY_NOT_FOUND, []), st) end
  | OLastKey => match last_binding l with Some (k, _) => ((CC_OK, [k]), st) | None => ((CC_ERR_KEY_NOT_FOUND, []), st) end
  | OFirstValue => match l with (_, v) :: _ => ((CC_OK, [v]), st) | [] => ((CC_ERR_VALUE_NOT_FOUND, []), st) end
  | OLastValue => match last_binding l with Some (_, v) => ((CC_OK, [v]), st) | None => ((CC_ERR_VALUE_NOT_FOUND, []), st) end
  | OGreater k => match spec_succ k l with Some k' => ((CC_OK, [k']), st) | None => ((CC_ERR_KEY_NOT_FOUND, []), st) end
  | OLesser k => match spec_pred None k l with Some k' => ((CC_OK, [k']), st) | None => ((CC_ERR_KEY_NOT_FOUND, []), st) end
  | OSize => ((CC_OK, [lenN l]), st)
  | OForeachKey => ((CC_OK, map fst l), st)
  | OForeachValue => ((CC_OK, map snd l), st)
  | OIterInit => ((CC_OK, []), (l, Some {| it_cur := CSent; it_next := hd_key l |}))
  | OIterNext =>
      match it with
      | Some {| it_cur := _; it_next := Some k |} =>
          match assoc_eqb k l with
          | Some (k', v) => ((CC_OK, [k'; v]), (l, Some {| it_cur := CNode k'; it_next := after_eqb k l |}))
          | None => ((CC_ITER_END, []), st)
          end
      | _ => ((CC_ITER_END, []), st)
      end
  | OIterRemove =>
      match it with
      | Some {| it_cur := CNode k; it_next := nx |} =>
          match assoc_eqb k l with
          | Some (_, v) => ((CC_OK, [v]), (remove_eqb k l, Some {| it_cur := CNull; it_next := nx |}))
          | None => ((CC_ERR_KEY_NOT_FOUND, []), st)
          end
      | _ => ((CC_ERR_KEY_NOT_FOUND, []), st)
      end
  end.

(** The ideal object driven through a history.  It has no allocator: where the implementation reported a
    refused allocation (the status list [sts] of the run under comparison) the ideal state stays put. *)
Definition is_alloc_err (st : stat) : bool := match st with CC_ERR_ALLOC => true | _ => false end.
Definition spec_step_d (st : spec_state) (o : tt_op) (seen : stat) : (stat * list N) * spec_state :=
  if is_alloc_err seen then ((CC_ERR_ALLOC, []), st) else spec_step st o.
Fixpoint spec_run_d (st : spec_state) (ops : list tt_op) (sts : list stat) : list (stat * list N) * spec_state :=
  match ops, sts with
  | o :: r, x :: sts' =>
      let (res, st1) := spec_step_d st o x in
      let (rs, st2) := spec_run_d st1 r sts' in (res :: rs, st2)
  | _, _ => ([], st)
  end.
(** without refusals *)
Fixpoint spec_run (st : spec_state) (ops : list tt_op) : list (stat * list N) * spec_state :=
  match ops with
  | [] => ([], st)
  | o :: r => let (res, st1) := spec_step st o in let (rs, st2) := spec_run st1 r in (res :: rs, st2)
  end.

(** ------------------------------------------------------------------------------------------------
    CC_TreeSet: a table whose values are the dummy (int * ) 1, with its own header block. *)
Record tset := { ts_tab : ttable; ts_hdr : N }.

Definition ts_new (mem : tag) (a : alloc_st) : res (stat * option tset * alloc_st) :=
  match alloc mem SIZEOF_TREESET a with
  | (None, a1) => Ok (CC_ERR_ALLOC, None, a1)
  | (Some h, a1) =>
      do (st, ot, a2) <- tt_new mem a1;
      match ot with
      | None => do a3 <- release mem h a2; Ok (st, None, a3)
      | Some t => Ok (CC_OK, Some {| ts_tab := t; ts_hdr := h |}, a2)
      end
  end.

Definition ts_destroy (s : tset) (a : alloc_st) : res alloc_st :=
  do a1 <- tt_destroy (ts_tab s) a; release (tt_mem (ts_tab s)) (ts_hdr s) a1.

Inductive ts_op :=
  | SAdd (k : N) | SRemove (k : N) | SRemoveAll | SFirst | SLast | SGreater (k : N) | SLesser (k : N)
  | SContains (k : N) | SSize | SForeach | SIterInit | SIterNext | SIterRemove.

Definition ts_to_tt (o : ts_op) : tt_op :=
  match o with
  | SAdd k => OAdd k 1 | SRemove k => ORemove k | SRemoveAll => ORemoveAll | SFirst => OFirstKey | SLast => OLastKey
  | SGreater k => OGreater k | SLesser k => OLesser k | SContains k => OContainsKey k | SSize => OSize
  | SForeach => OForeachKey | SIterInit => OIterInit | SIterNext => OIterNext | SIterRemove => OIterRemove
  end.

(** what the wrappers do to the table's answer: KEY_NOT_FOUND becomes VALUE_NOT_FOUND in remove, get_first,
    get_last, get_greater_than, get_lesser_than (not in iter_remove); iter_next hands out the key only;
    remove's out is the dummy value (not part of the set's contract: dropped). *)
Definition ts_stat (o : ts_op) (st : stat) : stat :=
  match o, st with
  | (SRemove _ | SFirst | SLast | SGreater _ | SLesser _), CC_ERR_KEY_NOT_FOUND => CC_ERR_VALUE_NOT_FOUND
  | SIterNext, CC_OK => CC_OK
  | SIterNext, _ => CC_ITER_END
  | _, st => st
  end.
Definition ts_vals (o : ts_op) (vals : list N) : list N :=
  match o with
  | SRemove _ | SIterRemove => []
  | SIterNext => match vals with k :: _ => [k] | [] => [] end
  | _ => vals
  end.

Definition ts_step (s : tset) (a : alloc_st) (o : ts_op) : res (tt_out * tset * alloc_st) :=
  do (out, t', a') <- tt_step (ts_tab s) a (ts_to_tt o);
  Ok (mk_out (ts_stat o (o_st out)) (ts_vals o (o_vals out)) (o_cmps out), {| ts_tab := t'; ts_hdr := ts_hdr s |}, a').

Definition ts_spec_step (st : spec_state) (o : ts_op) : (stat * list N) * spec_state :=
  let '((s, vals), st') := spec_step st (ts_to_tt o) in ((ts_stat o s, ts_vals o vals), st').

Fixpoint ts_spec_run_d (st : spec_state) (ops : list ts_op) (sts : list stat) : list (stat * list N) * spec_state :=
  match ops, sts with
  | o :: r, x :: sts' =>
      let (res, st1) := if is_alloc_err x then ((CC_ERR_ALLOC, []), st) else ts_spec_step st o in
      let (rs, st2) := ts_spec_run_d st1 r sts' in (res :: rs, st2)
  | _, _ => ([], st)
  end.

Fixpoint ts_run (s : tset) (a : alloc_st) (ops : list ts_op) : res (list tt_out * tset * alloc_st) :=
  match ops with
  | [] => Ok ([], s, a)
  | o :: r =>
      do (out, s1, a1) <- ts_step s a o;
      do (outs, s2, a2) <- ts_run s1 a1 r;
      Ok (out :: outs, s2, a2)
  end.

(** ------------------------------------------------------------------------------------------------
    Run-time validator (proved equivalent to [rb_inv] in TreeProofs): root black, no red-red,
    equal black heights, in-order keys strictly ascending. *)
Fixpoint rbt_b (t : tree) : bool :=
  match t with
  | L => true
  | T c l _ _ r =>
      rbt_b l && rbt_b r && Nat.eqb (bh l) (bh r) &&
      match c with R => match col l, col r with B, B => true | _, _ => false end | B => true end
  end.
Fixpoint asc_b (l : list N) : bool :=
  match l with
  | [] => true
  | a :: r => match r with [] => true | b :: _ => match cmp a b with Lt => asc_b r | _ => false end end
  end.
Definition rb_inv_b (t : tree) : bool :=
  match col t with B => rbt_b t && asc_b (keys t) | R => false end.

End Cmp.
